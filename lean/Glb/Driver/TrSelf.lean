/- Driver for the translator's self-test (stream `trself`): runs the TRANSLATED corpus
   (Glb/Generated/TrSelfTest.lean, regenerated from /verif/harness/trtest/trtest.go) on one input per line:
     <Function> <hex s> <hex t> <n> <bool>   ->   ok <hex> <int> <bool> | panic:index | panic:slice | panic:other:… -/
import Glb.Driver.Common
import Glb.Generated.TrSelfTest

namespace Glb.Driver.TrSelf
open Glb Glb.Tr.SelfTest

abbrev Fn := Bytes → Bytes → Int → Bool → Glb.Go.M (Bytes × Int × Bool)

def table : List (String × Fn) := [
  ("ShortAnd", ShortAnd), ("ShortOr", ShortOr), ("EvalOrder", EvalOrder), ("ByteWrap", ByteWrap),
  ("LoopCtl", LoopCtl), ("RangeIdx", RangeIdx), ("SwitchTag", SwitchTag), ("SwitchBare", SwitchBare),
  ("SliceBounds", SliceBounds), ("Nested", Nested), ("Named", Named), ("PtrParam", PtrParam),
  ("Swap", Swap), ("DivMod", DivMod), ("StrOps", StrOps), ("IfInit", IfInit), ("Iota", Iota),
  ("Bits", Bits), ("Down", Down), ("Appends", Appends), ("RangeVal", RangeVal), ("Store", Store),
  ("Recur", Recur 64)]

def render : Glb.Go.M (Bytes × Int × Bool) → String
  | .ok (s, n, b) => s!"ok {toHex s} {n} {b}"
  | .error (.indexRange _ _) => "panic:index"
  | .error (.sliceBounds _ _ _) => "panic:slice"
  | .error (.other m) =>
    if m == "index<0" then "panic:index" else if m == "slice<0" then "panic:slice" else "panic:other:" ++ m

def step (u : Unit) : List String → Unit × String
  | [f, hs, ht, n, b] =>
    match table.lookup f, ofHex? hs, ofHex? ht, n.toInt?, b with
    | some fn, some s, some t, some k, "true" => (u, render (fn s t k true))
    | some fn, some s, some t, some k, "false" => (u, render (fn s t k false))
    | _, _, _, _, _ => (u, "bad-op")
  | _ => (u, "bad-op")

end Glb.Driver.TrSelf
