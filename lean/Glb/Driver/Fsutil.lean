/- Driver for the path model (C17): stream `fsutil`. -/
import Glb.Driver.Common
import Glb.Spec.PathNF
import Glb.Model.PathCleanBytes

namespace Glb.Driver.Fsutil
open Glb Glb.PathClean Glb.PathNF Glb.PathCleanBytes

/-- `nf` answer: `rooted=<bool> stack=<hex>,<hex>,…` (`-` for the empty stack) -/
def showNF (n : NF) : String :=
  let st := if n.stack.isEmpty then "-" else joinWith "," (n.stack.map toHex)
  s!"rooted={n.rooted} stack={st}"

def step (_ : Unit) : List String → Unit × String
  | ["clean", p] => match ofHex? p with
    | some p => ((), toHex (clean p))
    | none => ((), "bad-op")
  -- the byte-level transcription of the stdlib loop (`Model/PathCleanBytes.lean`)
  | ["cleanb", p] => match ofHex? p with
    | some p => ((), toHex (cleanBytes p))
    | none => ((), "bad-op")
  | ["resolveb", base, url] => match ofHex? base, ofHex? url with
    | some base, some url => ((), toHex (resolveUrlPathB base url))
    | _, _ => ((), "bad-op")
  | ["join", a, b] => match ofHex? a, ofHex? b with
    | some a, some b => ((), toHex (join [a, b]))
    | _, _ => ((), "bad-op")
  | ["resolve", base, url] => match ofHex? base, ofHex? url with
    | some base, some url => ((), toHex (resolveUrlPath base url))
    | _, _ => ((), "bad-op")
  | ["nf", p] => match ofHex? p with
    | some p => ((), showNF (nf p))
    | none => ((), "bad-op")
  | _ => ((), "bad-op")

end Glb.Driver.Fsutil
