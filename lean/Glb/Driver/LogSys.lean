/-
  Driver for the lock / pool / Write protocol model (C02), stream `logsys`: trace acceptance.

    sys <threshold> <maxBuf> <initCap>        start describing a system                         → "ok"
    rec <g> <handler> <level> <rid> <line>    goroutine g's next call: log; `line` (hex) is what
                                              the record produces when logged alone              → "ok"
    drv <g> <parent>                          goroutine g's next call: derive                    → "ok"
    go                                        freeze the programs, initial state                 → "ok goroutines=<n> expected=<k>"
    W+ <g> <rid>                              observed: a Write call carrying record rid begins  → "ok" | "reject:<why>"
    W- <g> <rid> <payload>                    observed: that Write call returns                  → "ok" | "reject:<why>"
    done                                      observed: all goroutines have returned             → "ok writes=<n> clean=<b>"

  The observable events are the Write calls; everything else (gate, getBuf, format, lock, unlock,
  freeBuf, derive) is internal.  An event is accepted iff the model can perform it after internal
  steps of the goroutine concerned (plus the `unlock` of the goroutine that has already left its
  Write — the only internal step of another goroutine that can enable it).  The moves are the
  model's own `stepG`; at `getBuf` a pooled buffer is taken whenever there is one, so recycled
  buffers are exercised.
-/
import Glb.Driver.Common
import Glb.Model.LogSys

namespace Glb.Driver.LogSys
open Glb Glb.LogSys

structure DSt where
  threshold : Int := 0
  maxBuf : Nat := 0
  initCap : Nat := 0
  progs : List (List Op) := []                 -- reversed per goroutine while being described
  lines : List ((Nat × Nat) × Bytes) := []
  P : Params := { threshold := 0, render := fun _ _ => [], maxBuf := 0, initCap := 0, grow := fun _ _ => 0 }
  s : St := St.init []
  dead : Bool := false                         -- a rejected event poisons the rest of the trace

def lookup (ls : List ((Nat × Nat) × Bytes)) (h r : Nat) : Bytes :=
  match ls.find? (fun e => e.1.1 == h && e.1.2 == r) with
  | some e => e.2
  | none => []

def addOp (progs : List (List Op)) (g : Nat) (op : Op) : List (List Op) :=
  let progs := if g < progs.length then progs else progs ++ List.replicate (g + 1 - progs.length) []
  progs.set g (op :: progs.getD g [])

def pick (s : St) : Option Nat := if s.pool.isEmpty then none else some 0

def stepOf (P : Params) (s : St) (g : Nat) : Option St :=
  match s.gs[g]? with
  | none => none
  | some x => stepG P s g x (pick s)

/-- bring goroutine g to the point where it is about to enter Write with record `rid` -/
def toEnter (P : Params) (g rid : Nat) : Nat → St → Except String St
  | 0, _ => .error "no-progress"
  | fuel + 1, s =>
    match s.gs[g]? with
    | none => .error "unknown-goroutine"
    | some x =>
      match x.prog with
      | [] => .error "write-after-program-end"
      | .derive _ :: _ =>
        match stepOf P s g with
        | some s' => toEnter P g rid fuel s'
        | none => .error "stuck"
      | .log c :: _ =>
        if x.pc = .enter then
          if c.rid = rid then .ok s else .error s!"unexpected-record:{c.rid}"
        else if x.pc = .leave then .error "already-in-write"
        else if x.pc = .gate ∧ c.rid ≠ rid ∧ want P c then .error s!"skipped-enabled-record:{c.rid}"
        else if x.pc = .gate ∧ c.rid = rid ∧ ¬ want P c then .error s!"disabled-record-written:{c.rid}"
        else
          match stepOf P s g with
          | some s' => toEnter P g rid fuel s'
          | none => .error "blocked-on-mutex"

/-- release the mutex if its owner has already left Write -/
def releaseIfLeft (P : Params) (s : St) : St :=
  match s.owner with
  | none => s
  | some o =>
    match s.gs[o]? with
    | some x => if x.pc = .unlock then (stepOf P s o).getD s else s
    | none => s

def onEnter (d : DSt) (g rid : Nat) : DSt × String :=
  if d.dead then (d, "reject:after-rejection") else
  if d.s.inWrite.isSome then ({ d with dead := true }, "reject:overlap") else
  let s := releaseIfLeft d.P d.s
  let fuel := 16 + 8 * ((s.gs.getD g ⟨[], .gate, ⟨[], 0⟩⟩).prog.length)
  match toEnter d.P g rid fuel s with
  | .error e => ({ d with dead := true }, "reject:" ++ e)
  | .ok s1 =>
    match stepOf d.P s1 g with
    | some s2 => ({ d with s := s2 }, "ok")
    | none => ({ d with dead := true }, "reject:stuck")

def onLeave (d : DSt) (g rid : Nat) (payload : Bytes) : DSt × String :=
  if d.dead then (d, "reject:after-rejection") else
  match d.s.gs[g]? with
  | none => ({ d with dead := true }, "reject:unknown-goroutine")
  | some x =>
    match x.prog with
    | .log c :: _ =>
      if x.pc ≠ .leave then ({ d with dead := true }, "reject:not-in-write")
      else if c.rid ≠ rid then ({ d with dead := true }, s!"reject:unexpected-record:{c.rid}")
      else if x.buf.data ≠ payload then ({ d with dead := true }, "reject:payload-is-not-the-record's-line")
      else match stepOf d.P d.s g with
        | some s' => ({ d with s := s' }, "ok")
        | none => ({ d with dead := true }, "reject:stuck")
    | _ => ({ d with dead := true }, "reject:not-in-write")

/-- run goroutine g to the end of its program; only internal steps are allowed -/
def finish (P : Params) (g : Nat) : Nat → St → Except String St
  | 0, _ => .error "no-progress"
  | fuel + 1, s =>
    match s.gs[g]? with
    | none => .error "unknown-goroutine"
    | some x =>
      match x.prog with
      | [] => .ok s
      | .log c :: _ =>
        if x.pc = .gate ∧ want P c then .error s!"missing-write:{c.rid}"
        else if x.pc = .leave ∨ x.pc = .enter then .error "still-in-write"
        else match stepOf P s g with
          | some s' => finish P g fuel s'
          | none => .error "stuck"
      | .derive _ :: _ =>
        match stepOf P s g with
        | some s' => finish P g fuel s'
        | none => .error "stuck"

def onDone (d : DSt) : DSt × String :=
  if d.dead then (d, "reject:after-rejection") else
  let r := (List.range d.s.gs.length).foldl (fun (acc : Except String St) g =>
    match acc with
    | .error e => .error e
    | .ok s => finish d.P g (16 + 8 * ((s.gs.getD g ⟨[], .gate, ⟨[], 0⟩⟩).prog.length)) s) (.ok d.s)
  match r with
  | .error e => ({ d with dead := true }, "reject:" ++ e)
  | .ok s =>
    let clean := s.pool.all (fun b => b.data.isEmpty) && !s.overlap
    ({ d with s := s }, s!"ok writes={s.dest.length} clean={clean}")

def step (d : DSt) : List String → DSt × String
  | ["sys", t, m, i] => match t.toInt?, m.toNat?, i.toNat? with
    | some t, some m, some i => ({ threshold := t, maxBuf := m, initCap := i }, "ok")
    | _, _, _ => (d, "bad-op")
  | ["rec", g, h, lv, r, line] => match g.toNat?, h.toNat?, lv.toInt?, r.toNat?, ofHex? line with
    | some g, some h, some lv, some r, some line =>
      ({ d with progs := addOp d.progs g (.log ⟨h, lv, r⟩), lines := ((h, r), line) :: d.lines }, "ok")
    | _, _, _, _, _ => (d, "bad-op")
  | ["drv", g, p] => match g.toNat?, p.toNat? with
    | some g, some p => ({ d with progs := addOp d.progs g (.derive p) }, "ok")
    | _, _ => (d, "bad-op")
  | ["go"] =>
    let progs := d.progs.map List.reverse
    let ls := d.lines
    let P : Params := { threshold := d.threshold, render := lookup ls, maxBuf := d.maxBuf,
                        initCap := d.initCap, grow := fun c n => if c < 256 then n else n / 4 }
    ({ d with P := P, s := St.init progs, progs := progs, dead := false },
     s!"ok goroutines={progs.length} expected={(expected P progs).length}")
  | ["W+", g, r] => match g.toNat?, r.toNat? with
    | some g, some r => onEnter d g r
    | _, _ => (d, "bad-op")
  | ["W-", g, r, p] => match g.toNat?, r.toNat?, ofHex? p with
    | some g, some r, some p => onLeave d g r p
    | _, _, _ => (d, "bad-op")
  | ["done"] => onDone d
  | _ => (d, "bad-op")

end Glb.Driver.LogSys
