/- Driver for the IPv4Filter model (C11, C12). -/
import Glb.Driver.Common
import Glb.Model.Filter

namespace Glb.Driver.Filter
open Glb Glb.Filter

def natPairLt (a b : Nat × Nat) : Bool := a.1 < b.1 || (a.1 == b.1 && a.2 ≤ b.2)

def dump (s : St) : String :=
  let l := s.list.map fun e => s!"{e.1.toNat}/{e.2}"
  let m := (s.maps.map fun e => (e.1, e.2.toNat)).mergeSort natPairLt |>.map fun e => s!"{e.1}:{e.2}"
  s!"all={s.matchAll} maps={s.mapsMode} idx={s.list.length} list=[{joinWith "," l}] maps=[{joinWith "," m}]"

def brief (s : St) : String :=
  let live := (s.list.filter fun e => e.2 > 0).length
  s!"all={s.matchAll} maps={s.mapsMode} idx={s.list.length} live={live} nmaps={s.maps.length}"

structure DSt where
  ls : Nat := Generated.listSize
  pinned : Bool := false
  quiet : Bool := false
  s : St := {}

def step (d : DSt) : List String → DSt × String
  | ["reset"] => ({ d with s := {} }, "ok")
  | ["listsize", n] => match n.toNat? with
    | some k => ({ d with ls := k, s := {} }, "ok")
    | none => (d, "bad-op")
  | ["pinned", b] => ({ d with pinned := b == "1" }, "ok")
  | ["quiet", b] => ({ d with quiet := b == "1" }, "ok")
  | ["add", ip, m] => match ofHex? ip, ofHex? m with
    | some ip, some m =>
      let (s', ok) := Filter.add d.ls d.s ip m
      ({ d with s := s' }, if d.quiet then "skip" else (if ok then "nil " else "ErrInvalidIPv4CIDR ") ++ brief s')
    | _, _ => (d, "bad-op")
  | ["rem", ip, m] => match ofHex? ip, ofHex? m with
    | some ip, some m =>
      let (s', ok) := Filter.remove d.s ip m
      ({ d with s := s' }, if d.quiet then "skip" else (if ok then "nil " else "ErrInvalidIPv4CIDR ") ++ brief s')
    | _, _ => (d, "bad-op")
  | ["has", ip] => match ofHex? ip with
    | some ip => (d, toString (if d.pinned then containsPinned d.s ip else contains d.s ip))
    | none => (d, "bad-op")
  | ["dump"] => (d, dump d.s)
  | _ => (d, "bad-op")

end Glb.Driver.Filter
