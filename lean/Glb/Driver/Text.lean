/-
  Driver for the Text-handler model (C13), stream `text`.

  Operations (fields separated by one space, byte strings in hex, `-` = empty):

    rec <src 0|1> u:<utable> q:<qtable> <time> <level> <file> <line> <msg> <nchain> CHAIN… <nattrs> ATTR…
    str u:<utable> q:<qtable> <s>

    utable  = `-` | entry(,entry)*   entry = <rune decimal>.<flags>   flags: 1 = IsSpace, 2 = IsPrint
    qtable  = `-` | entry(,entry)*   entry = <s hex>.<strconv.Quote(s) hex>
    CHAIN   = `A <n> ATTR…`  (WithAttrs)  |  `W <name>`  (WithGroup)
    ATTR    = `L <key> <kind> <payload>`  |  `G <key> <n> ATTR…`

  The harness supplies the stdlib's verdicts (IsSpace / IsPrint per rune, Quote per string) as
  tables; the MODEL decides whether a string is quoted.  A rune missing from the table counts as
  not printable and a string missing from the quote table makes the answer `missing-quote`, so an
  incomplete table can never make the two sides agree by accident.

  Answers:
    rec → `<model line hex> <k:v,k:v,…> rt=ok`   (expected pairs of Spec/TextExpected in hex; `rt` =
           the Lean tokenizer applied to the model line yields exactly the expected pairs)
          or `panic:…`
    str → `<appendTextString "" s hex> <q|b> rt=ok`  (rt: the token reads back as `s`)
-/
import Glb.Driver.Common
import Glb.Model.TextHandler
import Glb.Spec.TextTokens
import Glb.Spec.TextExpected

namespace Glb.Driver.Text
open Glb Glb.TextHandler Glb.TextTokens Glb.TextExpected

structure Tables where
  runes : List (Nat × Nat) := []
  quotes : List (Bytes × Bytes) := []

def missingQuote : Bytes := strBytes "<missing-quote>"

def Tables.std (t : Tables) : Std :=
  { isSpace := fun r => match t.runes.lookup r with | some f => f % 2 == 1 | none => false
    isPrint := fun r => match t.runes.lookup r with | some f => f / 2 % 2 == 1 | none => false
    quote := fun s => match t.quotes.lookup s with | some q => q | none => missingQuote }

def Tables.lex (t : Tables) : Lex :=
  { isSpace := t.std.isSpace, isPrint := t.std.isPrint
    unquote := fun q => (t.quotes.find? fun e => e.2 == q).map (·.1) }

def parseU (f : String) : Option (List (Nat × Nat)) :=
  match f.dropPrefix? "u:" with
  | none => none
  | some body =>
    let body := body.toString
    if body == "-" then some []
    else (body.splitOn ",").mapM fun e =>
      match e.splitOn "." with
      | [r, fl] => do pure (← r.toNat?, ← fl.toNat?)
      | _ => none

def parseQ (f : String) : Option (List (Bytes × Bytes)) :=
  match f.dropPrefix? "q:" with
  | none => none
  | some body =>
    let body := body.toString
    if body == "-" then some []
    else (body.splitOn ",").mapM fun e =>
      match e.splitOn "." with
      | [s, q] => do pure (← ofHex? s, ← ofHex? q)
      | _ => none

def parseLeaf (kind : String) (p : Bytes) : Option Leaf :=
  match kind with
  | "str" => some (.str p)
  | "i64" => some (.raw .int64 p)
  | "u64" => some (.raw .uint64 p)
  | "f64" => some (.raw .float64 p)
  | "bool" => some (.raw .bool p)
  | "dur" => some (.raw .duration p)
  | "time" => some (.raw .time p)
  | "mok" => some (.via .marshalOk p)
  | "merr" => some (.via .marshalErr p)
  | "ansi" => some (.via .ansi p)
  | "err" => some (.via .error p)
  | "bytes" => some (.via .bytes p)
  | "sprint" => some (.via .sprint p)
  | "pnil" => some .panicNil
  | "pval" => some (.panicVal p)
  | _ => none

mutual
partial def parseAttr : List String → Option (Attr × List String)
  | "L" :: k :: kind :: p :: rest => do
    let k ← ofHex? k
    let p ← ofHex? p
    let v ← parseLeaf kind p
    pure (.leaf k v, rest)
  | "G" :: k :: n :: rest => do
    let k ← ofHex? k
    let n ← n.toNat?
    let (as, rest) ← parseAttrs n rest
    pure (.group k as, rest)
  | _ => none
partial def parseAttrs : Nat → List String → Option (List Attr × List String)
  | 0, rest => some ([], rest)
  | n + 1, toks => do
    let (a, rest) ← parseAttr toks
    let (as, rest) ← parseAttrs n rest
    pure (a :: as, rest)
end

partial def parseChain : Nat → List String → Option (List Op × List String)
  | 0, rest => some ([], rest)
  | n + 1, "A" :: m :: rest => do
    let m ← m.toNat?
    let (as, rest) ← parseAttrs m rest
    let (ops, rest) ← parseChain n rest
    pure (.withAttrs as :: ops, rest)
  | n + 1, "W" :: g :: rest => do
    let g ← ofHex? g
    let (ops, rest) ← parseChain n rest
    pure (.withGroup g :: ops, rest)
  | _, _ => none

def showPairs (l : List (Bytes × Bytes)) : String :=
  joinWith "," (l.map fun e => toHex e.1 ++ ":" ++ toHex e.2)

def usesMissing (t : Tables) (line : Bytes) : Bool :=
  -- the marker can only appear through the `quote` default
  let m := missingQuote
  let rec go (fuel : Nat) (s : Bytes) : Bool :=
    match fuel with
    | 0 => false
    | fuel + 1 => if m.isPrefixOf s then true else match s with | [] => false | _ :: r => go fuel r
  (t.quotes.lookup m).isNone && go (line.length + 1) line

def runRec (src : String) (u q time level file line msg : String) (rest : List String) : Option String := do
  let t : Tables := { runes := ← parseU u, quotes := ← parseQ q }
  let time ← ofHex? time
  let level ← level.toInt?
  let file ← ofHex? file
  let ln ← ofHex? line
  let msg ← ofHex? msg
  match rest with
  | nc :: rest =>
    let (chain, rest) ← parseChain (← nc.toNat?) rest
    match rest with
    | na :: rest =>
      let (attrs, rest) ← parseAttrs (← na.toNat?) rest
      if !rest.isEmpty then none
      let r : Record := { time := time, level := level, file := file, line := ln, msg := msg, attrs := attrs }
      let addSource := src == "1"
      match handle t.std addSource (derive t.std chain) r with
      | .error p => some p.describe
      | .ok out =>
        if usesMissing t out then some "missing-quote"
        else
          let exp := expected addSource chain r
          let rt := tokenize t.lex out == some exp
          some s!"{toHex out} {showPairs exp} rt={if rt then "ok" else "FAIL"}"
    | _ => none
  | _ => none

def runStr (u q s : String) : Option String := do
  let t : Tables := { runes := ← parseU u, quotes := ← parseQ q }
  let s ← ofHex? s
  let out := appendTextString t.std [] s
  if usesMissing t out then some "missing-quote"
  else
    let rt := token t.lex (out ++ [0x0a]) == some (s, [0x0a])
    some s!"{toHex out} {if quotes t.std s then "q" else "b"} rt={if rt then "ok" else "FAIL"}"

def step (_ : Unit) : List String → Unit × String
  | "rec" :: src :: u :: q :: time :: level :: file :: line :: msg :: rest =>
    ((), (runRec src u q time level file line msg rest).getD "bad-op")
  | ["str", u, q, s] => ((), (runStr u q s).getD "bad-op")
  | _ => ((), "bad-op")

end Glb.Driver.Text
