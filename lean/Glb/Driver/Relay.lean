/- Driver for the Relay model (C15).
   op:  req <handler> <threshold> <method> <uri> <ip> <id> <behaviour>
        (hex fields; behaviour = comma separated h<code> | w | f | p<k> | pa | r, or - when empty)
   out: esc=<none|abort|k> r500=<bool> wire=<status> log=<BEG:…;ERR:k:id;END:code:…> -/
import Glb.Driver.Common
import Glb.Model.Relay

namespace Glb.Driver.Relay
open Glb Glb.Relay

def parseEv (t : String) : Option Ev :=
  match t.toList with
  | ['w'] => some .write
  | ['r'] => some .ret
  | ['f'] => some .flush
  | ['p', 'a'] => some (.panic .abort)
  | 'p' :: ds => (String.ofList ds).toNat?.map fun k => .panic (.other k)
  | 'h' :: ds => (String.ofList ds).toNat?.map .writeHeader
  | _ => none

def parseBeh (s : String) : Option (List Ev) :=
  if s == "-" then some [] else (s.splitOn ",").mapM parseEv

def showReq (r : Req) : String :=
  s!"{toHex r.method}:{toHex r.uri}:{toHex r.ip}:{toHex r.id}"

def showRec : Rec → String
  | .reqBeg r => "BEG:" ++ showReq r
  | .reqEnd c r => s!"END:{c}:" ++ showReq r
  | .error k id => s!"ERR:{k}:{toHex id}"

def showPanic : Option PanicVal → String
  | none => "none"
  | some .abort => "abort"
  | some (.other k) => toString k

def showOut (o : Out) : String :=
  let l := if o.log.isEmpty then "-" else joinWith ";" (o.log.map showRec)
  s!"esc={showPanic o.escaped} r500={o.relay500} wire={o.wire} log={l}"

def step (d : Unit) : List String → Unit × String
  | ["req", _h, thr, m, u, ip, id, beh] =>
    match thr.toNat?, ofHex? m, ofHex? u, ofHex? ip, ofHex? id, parseBeh beh with
    | some thr, some m, some u, some ip, some id, some beh =>
      (d, showOut (relay thr ⟨m, u, ip, id⟩ beh))
    | _, _, _, _, _, _ => (d, "bad-op")
  | _ => (d, "bad-op")

end Glb.Driver.Relay
