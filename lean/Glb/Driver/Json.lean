/-
  Driver for the JSON handler model (C01), streams `json` and `utf8`.

  Wire format (space separated tokens; byte strings lowercase hex, `-` = empty):

    ATTR  := L <key> <kind> <payload>      kind: s string | n number text | b bool (payload 01 / 00)
                                                 t time text | e encoder ok raw | E encoder error msg
                                                 r error msg | a AnsiString value | p panic-nil (payload -)
                                                 P panic msg
           | G <key> <n> ATTR*n
    CHAIN := <n> ( A <m> ATTR*m | W <name> )*n
    REC   := <time> <level> <file> <line> <msg> <n> ATTR*n

    line <addSource 0|1> CHAIN REC   →  hex of the bytes `handle` writes (or `panic:…`)
    tree <addSource 0|1> CHAIN REC   →  `expected` printed canonically:
                                        {k:v,…}  s<hex>  n<hex>  r<hex>  T  F  N  [v,…]
    cont <addSource 0|1> CHAIN REC   →  `ok` when the payloads satisfy the contract the theorems assume
                                        (number texts are JSON numbers, time texts plain ASCII, encoder
                                        payloads pass `shapeOk` and contain no newline, level valid)
    str <s>                           →  hex of appendJsonString s, space, hex of san s
    dec <s>                           →  `<rune> <size>` of Utf8.decodeRune
-/
import Glb.Driver.Common
import Glb.Spec.Json

namespace Glb.Driver.Json
open Glb Glb.JsonHandler Glb.Json

abbrev Toks := List String

def pBytes : Toks → Option (Bytes × Toks)
  | t :: ts => (ofHex? t).map (·, ts)
  | [] => none

def pNat : Toks → Option (Nat × Toks)
  | t :: ts => t.toNat?.map (·, ts)
  | [] => none

def pInt : Toks → Option (Int × Toks)
  | t :: ts => t.toInt?.map (·, ts)
  | [] => none

def mkLeaf (kind : String) (p : Bytes) : Option Leaf :=
  match kind with
  | "s" => some (.str p)
  | "n" => some (.num p)
  | "b" => some (.bool (p == [1]))
  | "t" => some (.time p)
  | "e" => some (.enc (.ok p))
  | "E" => some (.enc (.error p))
  | "r" => some (.err p)
  | "a" => some (.ansi p)
  | "p" => some .panicNil
  | "P" => some (.panicMsg p)
  | _ => none

mutual
partial def pAttr : Toks → Option (Attr × Toks)
  | "L" :: ts => do
    let (k, ts) ← pBytes ts
    match ts with
    | kind :: ts =>
      let (p, ts) ← pBytes ts
      let l ← mkLeaf kind p
      pure (.leaf k l, ts)
    | [] => none
  | "G" :: ts => do
    let (k, ts) ← pBytes ts
    let (n, ts) ← pNat ts
    let (as, ts) ← pAttrs n ts
    pure (.group k as, ts)
  | _ => none
partial def pAttrs : Nat → Toks → Option (List Attr × Toks)
  | 0, ts => some ([], ts)
  | n + 1, ts => do
    let (a, ts) ← pAttr ts
    let (as, ts) ← pAttrs n ts
    pure (a :: as, ts)
end

def pDeriv : Toks → Option (Deriv × Toks)
  | "A" :: ts => do
    let (n, ts) ← pNat ts
    let (as, ts) ← pAttrs n ts
    pure (.attrs as, ts)
  | "W" :: ts => do
    let (g, ts) ← pBytes ts
    pure (.group g, ts)
  | _ => none

def pChain : Nat → Toks → Option (List Deriv × Toks)
  | 0, ts => some ([], ts)
  | n + 1, ts => do
    let (d, ts) ← pDeriv ts
    let (ds, ts) ← pChain n ts
    pure (d :: ds, ts)

def pCase (ts : Toks) : Option (Bool × List Deriv × Rec) := do
  match ts with
  | src :: ts =>
    let (n, ts) ← pNat ts
    let (chain, ts) ← pChain n ts
    let (time, ts) ← pBytes ts
    let (level, ts) ← pInt ts
    let (file, ts) ← pBytes ts
    let (line, ts) ← pBytes ts
    let (msg, ts) ← pBytes ts
    let (n, ts) ← pNat ts
    let (as, ts) ← pAttrs n ts
    if !ts.isEmpty then none
    pure (src == "1", chain, { time, level, file, line, msg, attrs := as })
  | [] => none

partial def showJV : JV → String
  | .null => "N"
  | .lit b => if b then "T" else "F"
  | .num t => "n" ++ toHex t
  | .str s => "s" ++ toHex s
  | .raw t => "r" ++ toHex t
  | .arr xs => "[" ++ joinWith "," (xs.map showJV) ++ "]"
  | .obj ms => "{" ++ joinWith "," (ms.map fun (k, v) => toHex k ++ ":" ++ showJV v) ++ "}"

/-- executable check of the payload contract (`LeafOk`): exact for number and time texts, necessary
    condition (`shapeOk`, no newline) for encoder payloads -/
def leafOkB : Leaf → Bool
  | .num t => isNumber t
  | .time t => t.all plainAscii
  | .enc (.ok raw) => shapeOk raw && !raw.contains 0x0A
  | _ => true

mutual
def attrOkB : Attr → Bool
  | .leaf _ v => leafOkB v
  | .group _ as => attrsOkB as
def attrsOkB : List Attr → Bool
  | [] => true
  | a :: as => attrOkB a && attrsOkB as
end

def derivOkB : Deriv → Bool
  | .attrs as => attrsOkB as
  | .group _ => true

def caseOkB (chain : List Deriv) (r : Rec) : Bool :=
  chain.all derivOkB && r.time.all plainAscii && isNumber r.line && attrsOkB r.attrs && validLevel r.level

def step (_ : Unit) : List String → Unit × String
  | "line" :: ts => match pCase ts with
    | some (src, chain, r) =>
      match handle src (deriveAll H.init chain) r with
      | .ok out => ((), toHex out)
      | .error e => ((), e.describe)
    | none => ((), "bad-op")
  | "tree" :: ts => match pCase ts with
    | some (src, chain, r) => ((), showJV (expected src chain r))
    | none => ((), "bad-op")
  | "cont" :: ts => match pCase ts with
    | some (_, chain, r) => ((), if caseOkB chain r then "ok" else "contract-violated")
    | none => ((), "bad-op")
  | ["str", s] => match ofHex? s with
    | some s => ((), toHex (appendJsonString s) ++ " " ++ toHex (san s))
    | none => ((), "bad-op")
  | ["dec", s] => match ofHex? s with
    | some s => let r := Utf8.decodeRune s; ((), s!"{r.1} {r.2}")
    | none => ((), "bad-op")
  | _ => ((), "bad-op")

end Glb.Driver.Json
