/- Line-protocol plumbing shared by all drivers. -/
import Glb.Basic

namespace Glb.Driver

def fields (line : String) : List String :=
  ((line.trimAscii.toString.splitOn " ").filter (· ≠ ""))

/-- generic line loop: `step` consumes the fields of one line and yields the new state and
    the output line. -/
partial def loop {σ} (h : IO.FS.Stream) (out : IO.FS.Stream) (s : σ)
    (step : σ → List String → σ × String) : IO Unit := do
  let line ← h.getLine
  if line.isEmpty then
    out.flush
    return ()
  let (s', o) := step s (fields line)
  out.putStrLn o
  loop h out s' step

def joinWith (sep : String) (l : List String) : String := sep.intercalate l

end Glb.Driver
