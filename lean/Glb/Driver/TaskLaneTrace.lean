/-
  Trace-inclusion acceptor for the TaskLane model (stream `tltrace`).

    trace   <L> <Q> <progs> <log>    is the event log of a real run explained by an execution of
                                     `Step (cfg L Q)`?   → accept | reject <index> [unconfirmed] | budget <index>
    control <L> <Q> <progs> <log>    same question for a deliberately corrupted log
                                                                   → accept | reject
    xcheck  <L> <Q> <progs> <log>    run the reference search and the pruned search → agree | disagree …

  <progs> = the producers' programs, `/`-separated, each a `+`-separated list of `<task>@<lane>`
            (`-` = no producer).  <log> = `,`-separated events in log order (`-` = empty):

      qT<i> qC<i> qB<i> qH<i>   queue goroutine i logged q.took / q.counted / q.blocking / q.handed
      wG<i>                     worker i logged w.got
      S<i>.<t>  F<i>.<t>.<0|1>  task t logged start / finish (1 = it panics) in worker i's goroutine
      pB<k>.<t>.<lane>          the k-th PushTask call (k counts the pB entries) is about to begin
      pE<k> pI<k>               that call logged p.enter / p.inner
      pR<k>.<n|c|t>             that call returned nil / the context error / ErrTimeout
      X  Y                      cancel() is about to be called / has returned
      W                         Wait() has returned

  ## The acceptance rule

  Every goroutine writes its entries while holding the log mutex *at* the program point it names,
  so (1) the entries of one goroutine appear in program order and (2) an entry is written after the
  model step that brings the goroutine to that program point and before the goroutine's next step.
  The log is accepted iff there is a sequence of `Step`s from the initial state of `cfg L Q`,
  interleaved with the log entries, such that

  * a goroutine that takes a step arriving at a *logged program point* becomes **frozen**: it takes
    no further step until its entry for that point has been consumed; consuming an entry requires
    its goroutine to be frozen at exactly that point (`qT i`: queue i at pc 1 · `qC`: pc 2 · `qB`: pc 4
    unparked · `qH`: pc 5 · `wG i`: worker i at pc 3, task not started · `S i.t`: worker i at pc 3,
    started, holding `t` · `pE k`: producer k at pc 0 · `pI k`: pc 1 · `pR k.r`: pc 5 having returned r);
    logged points are: queue pc 1, 2, 4, 5 · worker pc 3 (arrival and after `start`) · producer
    pc 0 (created), 1 (by `default`), 5.  Every other step is unobservable and may occur between any
    two entries, by any goroutine that is not frozen;
  * the environment steps occur *at* their entries: `pB k.t.lane` performs `Step.push` (k must be
    the model's next producer index, `t` fresh, lane < L) and freezes producer k at pc 0;
    `F i.t.p` performs `Step.finish` of worker i, which must be running `t` (panic value `some t`
    iff p = 1) — the entry is written inside `Start()` just before it returns, and the finish step
    commutes with every step of every other goroutine, so placing it at the entry loses nothing;
  * `Step.cancel` may occur at any moment after `X` has been consumed (the entry is written
    immediately before `cancel()` is called, and the context's done channel is closed inside that
    call) and must have occurred when `Y` is consumed (`cancel()` has returned);
  * `W` requires every queue goroutine and every worker to be at `halt` (`Wait` returned).

  `reject <n>`: the first n entries can be explained, entry n (0-based) cannot, whatever execution
  is chosen for the first n.

  ## Search

  Subset construction: the set of all (model state, frozen flags, cancel window) reachable after
  consuming a prefix, closed under unobservable steps (hash set; history fields erased — no
  premise of any step reads them).  `Mode.full` is literally the rule above.  `Mode.fast` prunes:
  steps that are the only step of their goroutine, are never disabled and commute with everything
  (incCnt, decCnt, start, pushRet, and a producer's timeout / done step once its logged result says
  so) are performed at the moment their entry is consumed instead of being interleaved; a step is
  only taken if the logged point it leads to is the goroutine's next entry in the log (look-ahead),
  and a goroutine with no further entry only takes `done` steps; `park` at a select on the buffered
  channel is skipped when Q > 0 (nobody can observe it).  A fast `reject` of a real log is
  confirmed by the reference search (see `verdict`; at most `maxConfirm` times per run, afterwards
  and when the reference search exceeds its state budget the answer is `reject <n> unconfirmed`).
  A fast `accept` needs no confirmation: its execution is an execution of the reference rule with
  the deferred steps placed immediately before (after, for decCnt) the entry they belong to.
-/
import Std.Data.HashSet
import Glb.Driver.Common
import Glb.Model.TaskLaneExec

namespace Glb.Driver.TaskLaneTrace
open Glb.TaskLane Glb.TaskLane.Exec

inductive Ev where
  | qT (i : Nat) | qC (i : Nat) | qB (i : Nat) | qH (i : Nat)
  | wG (i : Nat) | S (i t : Nat) | F (i t : Nat) (p : Bool)
  | pB (k t lane : Nat) | pE (k : Nat) | pI (k : Nat) | pR (k : Nat) (r : PushResult)
  | X | Y | W
  deriving Repr, DecidableEq, Inhabited

/-- the goroutine that wrote the entry (`none`: the harness's control goroutine) -/
def Ev.gid : Ev → Option Gid
  | .qT i | .qC i | .qB i | .qH i => some (.q i)
  | .wG i | .S i _ | .F i _ _ => some (.w i)
  | .pB k .. | .pE k | .pI k | .pR k _ => some (.p k)
  | _ => none

/-! ### parsing -/

def parseNats (s : String) : Option (List Nat) := (s.splitOn ".").mapM String.toNat?

def parseEv (tok : String) : Option Ev :=
  if tok = "X" then some .X else if tok = "Y" then some .Y else if tok = "W" then some .W
  else
    let kind := (tok.take 2).toString
    let rest := (tok.drop 2).toString
    if kind = "pR" then
      match rest.splitOn "." with
      | [k, r] =>
        match k.toNat?, r with
        | some k, "n" => some (.pR k .nil)
        | some k, "c" => some (.pR k .ctxErr)
        | some k, "t" => some (.pR k .timeout)
        | _, _ => none
      | _ => none
    else
      match kind, parseNats rest with
      | "qT", some [i] => some (.qT i)
      | "qC", some [i] => some (.qC i)
      | "qB", some [i] => some (.qB i)
      | "qH", some [i] => some (.qH i)
      | "wG", some [i] => some (.wG i)
      | "S", _ => none
      | "pB", some [k, t, l] => some (.pB k t l)
      | "pE", some [k] => some (.pE k)
      | "pI", some [k] => some (.pI k)
      | _, _ =>
        let kind1 := (tok.take 1).toString
        match kind1, parseNats (tok.drop 1).toString with
        | "S", some [i, t] => some (.S i t)
        | "F", some [i, t, p] => if p ≤ 1 then some (.F i t (p == 1)) else none
        | _, _ => none

def parseLog (s : String) : Option (Array Ev) :=
  if s = "-" then some #[] else ((s.splitOn ",").mapM parseEv).map List.toArray

/-- producers' programs: list of (task, lane) per producer -/
def parseProgs (s : String) : Option (List (List (Nat × Nat))) :=
  if s = "-" then some []
  else (s.splitOn "/").mapM fun p =>
    (p.splitOn "+").mapM fun x =>
      match x.splitOn "@" with
      | [t, l] => do pure ((← t.toNat?), (← l.toNat?))
      | _ => none

/-- the `pB` entries are the producers' programs: every producer's pushes appear in program order
    (a prefix of its program), with the lane the program says -/
def progsConsistent (progs : List (List (Nat × Nat))) (log : Array Ev) : Bool :=
  let pushes := log.toList.filterMap fun e => match e with | .pB _ t l => some (t, l) | _ => none
  let all := progs.flatMap id
  pushes.all (fun x => all.contains x) &&
  progs.all fun prog =>
    let mine := pushes.filter fun x => prog.contains x
    mine == prog.take mine.length

/-! ### search state -/

structure SSt where
  e : ESt
  fq : Array Bool      -- frozen: owes the entry for the point it stands at
  fw : Array Bool
  fp : Array Nat       -- 0 = not frozen, 1 = frozen at pc 0 / pc 1, 2 + r = frozen at pc 5 having returned r
  canCancel : Bool
  deriving BEq, Hashable

inductive Mode where
  | full | fast
  deriving DecidableEq

structure Ctx where
  c : Cfg
  log : Array Ev
  mode : Mode
  /-- `nxt[pos]`: for every goroutine its first entry at an index ≥ pos (queues, workers, producers) -/
  nxtQ : Array (Array (Option Ev))
  nxtW : Array (Array (Option Ev))
  nxtP : Array (Array (Option Ev))

def resCode : PushResult → Nat
  | .nil => 2 | .ctxErr => 3 | .timeout => 4

def SSt.frozen (s : SSt) : Gid → Bool
  | .q i => s.fq.getD i false
  | .w i => s.fw.getD i false
  | .p k => s.fp.getD k 0 != 0

def SSt.freeze (s : SSt) (g : Gid) (code : Nat := 1) : SSt :=
  match g with
  | .q i => { s with fq := s.fq.setIfInBounds i true }
  | .w i => { s with fw := s.fw.setIfInBounds i true }
  | .p k => { s with fp := s.fp.setIfInBounds k code }

def SSt.thaw (s : SSt) (g : Gid) : SSt :=
  match g with
  | .q i => { s with fq := s.fq.setIfInBounds i false }
  | .w i => { s with fw := s.fw.setIfInBounds i false }
  | .p k => { s with fp := s.fp.setIfInBounds k 0 }

/-- arriving in local state `x` is a logged program point of goroutine `g` -/
def observable (g : Gid) (x : G) : Bool :=
  match g with
  | .q _ => x.pc == 1 || x.pc == 2 || x.pc == 4 || x.pc == 5
  | .w _ => x.pc == 3
  | .p _ => x.pc == 1 || x.pc == 5

/-- the goroutines that take part in a step (they must not be frozen) -/
def actors : ELabel → List Gid
  | .takeLocal g .. => [g]
  | .handover g h _ => [g, h]
  | .takeover g h _ => [g, h]
  | .dflt g => [g]
  | .park g => [g]
  | .incCnt g => [g]
  | .decCnt g => [g]
  | .start i _ => [.w i]
  | .finish i .. => [.w i]
  | .pushRet k .. => [.p k]
  | .cancel => []
  | .push k .. => [.p k]

/-- apply a model step to a search state: freeze the actors that arrived at a logged point -/
def applyStep (s : SSt) (l : ELabel) (e' : ESt) : SSt :=
  let s1 := { s with e := erase e' }
  match l with
  | .park _ => s1
  | .pushRet k _ r => s1.freeze (.p k) (resCode r)
  | .push .. => { s1 with fp := s1.fp.push 1 }
  | _ => (actors l).foldl (fun acc g => if observable g (eget e' g) then acc.freeze g else acc) s1

def nxt (cx : Ctx) (pos : Nat) : Gid → Option Ev
  | .q i => ((cx.nxtQ.getD pos #[]).getD i none)
  | .w i => ((cx.nxtW.getD pos #[]).getD i none)
  | .p k => ((cx.nxtP.getD pos #[]).getD k none)

def isQT : Option Ev → Bool | some (.qT _) => true | _ => false
def isQB : Option Ev → Bool | some (.qB _) => true | _ => false
def isQH : Option Ev → Bool | some (.qH _) => true | _ => false
def isWG : Option Ev → Bool | some (.wG _) => true | _ => false
def isPI : Option Ev → Bool | some (.pI _) => true | _ => false
def isPRnil : Option Ev → Bool | some (.pR _ .nil) => true | _ => false

/-- look-ahead pruning of the fast mode: is the step compatible with the actors' next log entries? -/
def useful (cx : Ctx) (pos : Nat) (e : ESt) (l : ELabel) : Bool :=
  let arrive (g : Gid) (pc : Nat) : Bool :=      -- may g move to pc?
    match g with
    | .q _ => if pc == 1 then isQT (nxt cx pos g) else if pc == 5 then isQH (nxt cx pos g) else true
    | .w _ => if pc == 3 then isWG (nxt cx pos g) else true
    | .p _ => if pc == 3 then isPRnil (nxt cx pos g) else true
  match l with
  | .takeLocal g k target =>
    match g, k with
    | .p _, .send _ => arrive g target
    | .p _, _ => false                                  -- done / timeout: performed when `pR` is consumed
    | _, .done => (nxt cx pos g).isNone
    | _, _ => arrive g target
  | .handover g h x =>
    match einstrAt cx.c e g, einstrAt cx.c e h with
    | some (.select cg _), some (.select ch _) =>
      (cg.any fun kt => kt.1 == .send x && arrive g kt.2) && (ch.any fun kt => kt.1 == .recv x && arrive h kt.2)
    | _, _ => true
  | .takeover g h x =>
    match einstrAt cx.c e g, einstrAt cx.c e h with
    | some (.select cg _), some (.select ch _) =>
      (cg.any fun kt => kt.1 == .recv x && arrive g kt.2) && (ch.any fun kt => kt.1 == .send x && arrive h kt.2)
    | _, _ => true
  | .dflt g =>
    match g with
    | .q _ => if (eget e g).pc == 3 then isQB (nxt cx pos g) else (nxt cx pos g).isSome
    | .w _ => if (eget e g).pc == 0 then (nxt cx pos g).isSome else true
    | .p _ => isPI (nxt cx pos g)
  | .park g =>
    match g with
    | .q _ => if (eget e g).pc == 0 then cx.c.Q == 0 && isQT (nxt cx pos g) else isQH (nxt cx pos g)
    | .w _ => isWG (nxt cx pos g)
    | .p _ => cx.c.Q == 0 && isPRnil (nxt cx pos g)
  | .incCnt _ | .decCnt _ | .start .. | .pushRet .. => false   -- performed at their entries
  | _ => true

/-- unobservable successors of a search state -/
def silentSteps (cx : Ctx) (pos : Nat) (s : SSt) : List SSt :=
  let steps := (gids cx.c s.e).flatMap fun g => if s.frozen g then [] else stepsOf cx.c s.e g
  let steps := if s.canCancel then cancelSteps s.e ++ steps else steps
  steps.filterMap fun (l, e') =>
    if (actors l).all (fun g => !s.frozen g) && (cx.mode == .full || useful cx pos s.e l) then
      some (applyStep s l e')
    else none

partial def closure (cx : Ctx) (pos : Nat) (budget : Nat) (seen : Std.HashSet SSt) (frontier : List SSt) :
    Std.HashSet SSt :=
  match frontier with
  | [] => seen
  | _ =>
    if seen.size > budget then seen
    else
      let (seen', fresh) := frontier.foldl (fun (acc : Std.HashSet SSt × List SSt) s =>
        (silentSteps cx pos s).foldl (fun (acc : Std.HashSet SSt × List SSt) s' =>
          if acc.1.contains s' then acc else (acc.1.insert s', s' :: acc.2)) acc) (seen, [])
      closure cx pos budget seen' fresh

/-- the step of goroutine `g` with a label satisfying `p` -/
def stepWith (cx : Ctx) (s : SSt) (g : Gid) (p : ELabel → Bool) : List SSt :=
  if s.frozen g then []
  else (stepsOf cx.c s.e g).filterMap fun (l, e') => if p l then some { s with e := erase e' } else none

def atPoint (s : SSt) (g : Gid) (pc : Nat) (parked : Bool) : Bool :=
  s.frozen g && (eget s.e g).pc == pc && (eget s.e g).parked == parked

/-- consume one log entry -/
def consume (cx : Ctx) (ev : Ev) (s : SSt) : List SSt :=
  let fast := cx.mode == .fast
  let thawAt (g : Gid) (pc : Nat) (parked : Bool := false) : List SSt :=
    if atPoint s g pc parked then [s.thaw g] else []
  match ev with
  | .qT i => thawAt (.q i) 1
  | .qC i =>
    thawAt (.q i) 2 ++
      (if fast ∧ (eget s.e (.q i)).pc = 1 then stepWith cx s (.q i) (fun l => l matches .incCnt _) else [])
  | .qB i => thawAt (.q i) 4
  | .qH i =>
    if fast then (thawAt (.q i) 5).flatMap fun s1 => stepWith cx s1 (.q i) (fun l => l matches .decCnt _)
    else thawAt (.q i) 5
  | .wG i => thawAt (.w i) 3
  | .S i t =>
    (if atPoint s (.w i) 3 true ∧ (eget s.e (.w i)).held = t then [s.thaw (.w i)] else []) ++
      (if fast ∧ (eget s.e (.w i)).pc = 3 ∧ (eget s.e (.w i)).parked = false ∧ (eget s.e (.w i)).held = t then
        stepWith cx s (.w i) (fun l => l matches .start ..) else [])
  | .F i t p =>
    if s.frozen (.w i) ∨ (eget s.e (.w i)).held ≠ t then []
    else
      match finishStep cx.c s.e i (if p then some t else none) with
      | some (_, e') => [{ s with e := erase e' }]
      | none => []
  | .pB k t lane =>
    if k ≠ s.e.ps.size then []
    else
      match pushStep cx.c s.e t lane with
      | some (l, e') => [applyStep s l e']
      | none => []
  | .pE k => thawAt (.p k) 0
  | .pI k => thawAt (.p k) 1
  | .pR k r =>
    (if s.fp.getD k 0 = resCode r ∧ (eget s.e (.p k)).pc = 5 then [s.thaw (.p k)] else []) ++
      (if fast ∧ !s.frozen (.p k) then
        -- the producer's remaining steps, deferred to this moment
        let pre : List SSt :=
          if (eget s.e (.p k)).pc ≤ 1 then
            match r with
            | .timeout => stepWith cx s (.p k) (fun l => match l with | .takeLocal _ .timeout _ => true | _ => false)
            | .ctxErr => stepWith cx s (.p k) (fun l => match l with | .takeLocal _ .done _ => true | _ => false)
            | .nil => []
          else [s]
        pre.flatMap fun s1 => stepWith cx s1 (.p k) fun l => match l with | .pushRet _ _ r' => r' == r | _ => false
       else [])
  | .X => [{ s with canCancel := true }]
  | .Y => if s.e.cancelled then [s] else []
  | .W =>
    if (List.range cx.c.L).all fun i =>
        einstrAt cx.c s.e (.q i) == some .halt && einstrAt cx.c s.e (.w i) == some .halt then [s] else []

inductive Verdict where
  | accept
  | reject (idx : Nat)
  | budget (idx : Nat)
  deriving DecidableEq, Inhabited

def Verdict.show : Verdict → String
  | .accept => "accept"
  | .reject i => s!"reject {i}"
  | .budget i => s!"budget {i}"

def initS (L : Nat) : SSt :=
  { e := einit L, fq := Array.replicate L false, fw := Array.replicate L false, fp := #[], canCancel := false }

/-- per position, every goroutine's next own entry -/
def buildNxt (log : Array Ev) (n : Nat) (sel : Ev → Option Nat) : Array (Array (Option Ev)) :=
  let step := fun (acc : List (Array (Option Ev))) (ev : Ev) =>
    let last := acc.headD (Array.replicate n none)
    (match sel ev with
     | some i => last.setIfInBounds i (some ev)
     | none => last) :: acc
  (log.toList.reverse.foldl step [Array.replicate n none]).toArray

def mkCtx (L Q : Nat) (log : Array Ev) (mode : Mode) : Ctx :=
  let np := (log.toList.filter fun e => e matches .pB ..).length
  { c := cfg L Q, log := log, mode := mode
    nxtQ := buildNxt log L fun e => match e.gid with | some (.q i) => some i | _ => none
    nxtW := buildNxt log L fun e => match e.gid with | some (.w i) => some i | _ => none
    nxtP := buildNxt log np fun e => match e with | .pB .. => none | _ => match e.gid with | some (.p k) => some k | _ => none }

def stateBudget : Nat := 400000

partial def runFrom (cx : Ctx) (pos : Nat) (cur : List SSt) : Verdict :=
  if pos ≥ cx.log.size then .accept
  else
    let seen := closure cx pos stateBudget (Std.HashSet.ofList cur) cur
    if seen.size > stateBudget then .budget pos
    else
      let ev := cx.log[pos]!
      let next := seen.fold (fun (acc : Std.HashSet SSt) s => (consume cx ev s).foldl (fun a x => a.insert x) acc) {}
      if next.isEmpty then .reject pos else runFrom cx (pos + 1) next.toList

def check (L Q : Nat) (log : Array Ev) (mode : Mode) : Verdict :=
  runFrom (mkCtx L Q log mode) 0 [initS L]

/-- how many reference-search confirmations one driver run may spend (each can take seconds) -/
def maxConfirm : Nat := 8

/-- the verdict that is printed for a real log: the pruned search; when it rejects at entry `i`, the
    reference search is run on the prefix `log[0..i]` — if that rejects too, the rejection is
    confirmed; if the reference search explains the prefix (the look-ahead of the pruned search can see
    a dead end before the entry that exposes it, so `i` may be earlier than the reference index), the
    reference search decides the whole log.  `accept (pruned search: reject i)` would mean that the
    pruning lost an execution; the harness expects plain `accept`, so this shows up as a mismatch. -/
def verdict (L Q : Nat) (log : Array Ev) (used : Nat) : Nat × String :=
  match check L Q log .fast with
  | .accept => (used, "accept")
  | .budget i => (used, s!"budget {i}")
  | .reject i =>
    if used ≥ maxConfirm then (used, s!"reject {i} unconfirmed")
    else
      match check L Q (log.extract 0 (i + 1)) .full with
      | .reject j => (used + 1, s!"reject {j}")
      | .budget _ => (used + 1, s!"reject {i} unconfirmed")
      | .accept =>
        -- the look-ahead saw the dead end earlier than the reference rule does: the reference search
        -- names the entry at which the log becomes unexplainable
        match check L Q log .full with
        | .accept => (used + 1, s!"accept (pruned search: reject {i})")
        | .reject j => (used + 1, s!"reject {j}")
        | .budget _ => (used + 1, s!"reject {i} unconfirmed")

def step (used : Nat) : List String → Nat × String
  | [op, l, q, progs, log] =>
    match l.toNat?, q.toNat?, parseProgs progs, parseLog log with
    | some L, some Q, some P, some lg =>
      if !progsConsistent P lg then (used, "reject programs")
      else if op = "trace" then verdict L Q lg used
      else if op = "control" then
        (used, match check L Q lg .fast with | .accept => "accept" | .reject _ => "reject" | .budget _ => "budget")
      else if op = "xcheck" then
        let a := check L Q lg .fast
        let b := check L Q lg .full
        (used, if a = b then "agree" else s!"disagree fast={a.show} full={b.show}")
      else (used, "bad-op")
    | _, _, _, _ => (used, "bad-op")
  | _ => (used, "bad-op")

end Glb.Driver.TaskLaneTrace
