/-
  Driver for the Nano-handler model (C03b), stream `nano`.

  Operation (fields separated by one space, byte strings in hex, `-` = empty):

    rec <src 0|1> <haspc 0|1> <time> <level> <file> <line> <msg> <nchain> CHAIN… <nattrs> ATTR…

    CHAIN = `A <n> ATTR…`  (WithAttrs)  |  `W <name>`  (WithGroup)
    ATTR  = `L <key> <kind> <payload>`  |  `G <key> <n> ATTR…`      kind = str | raw | any | ansi

  Answer: `<model line hex>` or `panic:…`.
-/
import Glb.Driver.Common
import Glb.Model.NanoHandler

namespace Glb.Driver.Nano
open Glb Glb.NanoHandler

def parseLeaf (kind : String) (p : Bytes) : Option Leaf :=
  match kind with
  | "str" => some (.str p)
  | "raw" => some (.raw p)
  | "any" => some (.any p)
  | "ansi" => some (.ansi p)
  | _ => none

mutual
partial def parseAttr : List String → Option (Attr × List String)
  | "L" :: k :: kind :: p :: rest => do
    let k ← ofHex? k
    let p ← ofHex? p
    let v ← parseLeaf kind p
    pure (.leaf k v, rest)
  | "G" :: k :: n :: rest => do
    let k ← ofHex? k
    let n ← n.toNat?
    let (as, rest) ← parseAttrs n rest
    pure (.group k as, rest)
  | _ => none
partial def parseAttrs : Nat → List String → Option (List Attr × List String)
  | 0, rest => some ([], rest)
  | n + 1, toks => do
    let (a, rest) ← parseAttr toks
    let (as, rest) ← parseAttrs n rest
    pure (a :: as, rest)
end

partial def parseChain : Nat → List String → Option (List Deriv × List String)
  | 0, rest => some ([], rest)
  | n + 1, "A" :: m :: rest => do
    let m ← m.toNat?
    let (as, rest) ← parseAttrs m rest
    let (ops, rest) ← parseChain n rest
    pure (.attrs as :: ops, rest)
  | n + 1, "W" :: g :: rest => do
    let g ← ofHex? g
    let (ops, rest) ← parseChain n rest
    pure (.group g :: ops, rest)
  | _, _ => none

def runRec (src haspc time level file line msg : String) (rest : List String) : Option String := do
  let time ← ofHex? time
  let level ← level.toInt?
  let file ← ofHex? file
  let ln ← ofHex? line
  let msg ← ofHex? msg
  match rest with
  | nc :: rest =>
    let (chain, rest) ← parseChain (← nc.toNat?) rest
    match rest with
    | na :: rest =>
      let (attrs, rest) ← parseAttrs (← na.toNat?) rest
      if !rest.isEmpty then none
      let r : Rec := { time := time, level := level, hasPC := haspc == "1", file := file, line := ln,
                       msg := msg, attrs := attrs }
      match handle (src == "1") (deriveAll H.init chain) r with
      | .error p => some p.describe
      | .ok out => some (toHex out)
    | _ => none
  | _ => none

def step (_ : Unit) : List String → Unit × String
  | "rec" :: src :: haspc :: time :: level :: file :: line :: msg :: rest =>
    ((), (runRec src haspc time level file line msg rest).getD "bad-op")
  | _ => ((), "bad-op")

end Glb.Driver.Nano
