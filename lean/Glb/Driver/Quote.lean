/-
  Driver for the strconv.Quote / strconv.Unquote models (C13b), stream `quote`.

  Operations (byte strings in hex, `-` = empty):

    q p:<ptable> <s>      →  `<goQuote s hex> rt=ok sh=ok`
                             rt: goUnquote (goQuote s) = some s;  sh: `"` + well-escaped interior + `"`
    u <literal>           →  `ok <goUnquote literal hex>`  |  `err`

    ptable = `-` | entry(,entry)*    entry = <rune decimal>.<0|1>   (strconv.IsPrint of a rune ≥ 0x80)

  The harness supplies Go's IsPrint verdict for every non-ASCII rune that a decoding step of `s`
  yields; ASCII is decided by the model (`asciiPrint`: 0x20 … 0x7E).  A rune missing from the table
  makes the answer `missing-rune`, so an incomplete table can never make the two sides agree.
-/
import Glb.Driver.Common
import Glb.Model.StrconvQuote
import Glb.Spec.TextTokens

namespace Glb.Driver.Quote
open Glb Glb.Quote

def parseP (f : String) : Option (List (Nat × Nat)) :=
  match f.dropPrefix? "p:" with
  | none => none
  | some body =>
    let body := body.toString
    if body == "-" then some []
    else (body.splitOn ",").mapM fun e =>
      match e.splitOn "." with
      | [r, fl] => do pure (← r.toNat?, ← fl.toNat?)
      | _ => none

/-- the runes ≥ 0x80 the quoting loop asks `IsPrint` about -/
def askedRunes : Nat → Bytes → List Nat
  | _, [] => []
  | k + 1, _ :: rest => askedRunes k rest
  | 0, b :: rest =>
    if b < 0x80 then askedRunes 0 rest
    else
      let d := Utf8.decodeRune (b :: rest)
      if d.2 == 1 then askedRunes 0 rest else d.1 :: askedRunes (d.2 - 1) rest

def tablePrint (t : List (Nat × Nat)) (r : Nat) : Bool :=
  if r < 0x80 then asciiPrint r
  else match t.lookup r with
    | some f => f == 1
    | none => false

def runQ (p s : String) : Option String := do
  let t ← parseP p
  let s ← ofHex? s
  if (askedRunes 0 s).any fun r => (t.lookup r).isNone then some "missing-rune"
  else
    let q := goQuote (tablePrint t) s
    let rt := goUnquote q == some s
    let sh := match q with
      | 0x22 :: rest =>
        (match rest.reverse with
         | 0x22 :: body => TextTokens.interiorOK false body.reverse
         | _ => false)
      | _ => false
    some s!"{toHex q} rt={if rt then "ok" else "FAIL"} sh={if sh then "ok" else "FAIL"}"

def runU (l : String) : Option String := do
  let l ← ofHex? l
  match goUnquote l with
  | none => some "err"
  | some v => some s!"ok {toHex v}"

def step (_ : Unit) : List String → Unit × String
  | ["q", p, s] => ((), (runQ p s).getD "bad-op")
  | ["u", l] => ((), (runU l).getD "bad-op")
  | _ => ((), "bad-op")

end Glb.Driver.Quote
