/- Drivers for package `config`: stream `argv` (C10, model `ArgParse.argParse`). -/
import Glb.Driver.Common
import Glb.Model.ArgParse

namespace Glb.Driver.Config
open Glb Glb.ArgParse

/-! ### stream `argv`

    table <flagtable>                 set the current flag table                    → `ok`
    parse <flagtable|@> <tokhex>*     run `argParse` (`@` = the current table)       → result line

  flagtable: `-` (empty) or comma-separated `<namehex>:b` (boolean flag) / `<namehex>:v`.
  result: `<class> set=[<namehex>=<valuehex>,…] rest=[<tokhex>,…]` where class is `ok`,
  `err:badSyntax:<tokhex>`, `err:undefined:<namehex>`, `err:needsArg:<namehex>`; `set` lists, in
  table order, every flag that has a command-line value together with its effective (last) text
  — exactly what `Lookup(name).ArgValue` shows on the implementation side. -/

abbrev Table := List (Bytes × Bool)

def parseTable (s : String) : Option Table :=
  if s == "-" then some [] else
  (s.splitOn ",").mapM fun e =>
    match e.splitOn ":" with
    | [n, k] => do
      let nb ← ofHex? n
      if k == "b" then some (nb, true) else if k == "v" then some (nb, false) else none
    | _ => none

def tableLookup (t : Table) (n : Bytes) : Option Bool := (t.find? (·.1 = n)).map (·.2)

def showErr : ArgErr → String
  | .badSyntax t => "err:badSyntax:" ++ toHex t
  | .undefined n => "err:undefined:" ++ toHex n
  | .needsArg n => "err:needsArg:" ++ toHex n

def showSt (t : Table) (s : St) : String :=
  let set := t.filterMap fun e => (effective s.assigns e.1).map fun v => toHex e.1 ++ "=" ++ toHex v
  s!"set=[{joinWith "," set}] rest=[{joinWith "," (s.args.map toHex)}]"

def showResult (t : Table) : Except GoPanic Result → String
  | .error p => p.describe
  | .ok (.ok s) => "ok " ++ showSt t s
  | .ok (.err e s) => showErr e ++ " " ++ showSt t s

structure ArgvSt where
  tbl : Table := []

def argvStep (d : ArgvSt) : List String → ArgvSt × String
  | ["table", t] => match parseTable t with
    | some tbl => ({ d with tbl := tbl }, "ok")
    | none => (d, "bad-op")
  | "parse" :: t :: toks =>
    match (if t == "@" then some d.tbl else parseTable t), toks.mapM ofHex? with
    | some tbl, some argv => (d, showResult tbl (argParse (tableLookup tbl) argv))
    | _, _ => (d, "bad-op")
  | _ => (d, "bad-op")

end Glb.Driver.Config
