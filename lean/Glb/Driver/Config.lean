/- Drivers for package `config`: stream `argv` (C10, model `ArgParse.argParse`) and stream `config`
   (C09, model `Config.newFlagSet` / `Config.parse`). -/
import Glb.Driver.Common
import Glb.Model.ArgParse
import Glb.Model.Config

namespace Glb.Driver.Config
open Glb Glb.ArgParse

/-! ### stream `argv`

    table <flagtable>                 set the current flag table                    → `ok`
    parse <flagtable|@> <tokhex>*     run `argParse` (`@` = the current table)       → result line

  flagtable: `-` (empty) or comma-separated `<namehex>:b` (boolean flag) / `<namehex>:v`.
  result: `<class> set=[<namehex>=<valuehex>,…] rest=[<tokhex>,…]` where class is `ok`,
  `err:badSyntax:<tokhex>`, `err:undefined:<namehex>`, `err:needsArg:<namehex>`; `set` lists, in
  table order, every flag that has a command-line value together with its effective (last) text
  — exactly what `Lookup(name).ArgValue` shows on the implementation side. -/

abbrev Table := List (Bytes × Bool)

def parseTable (s : String) : Option Table :=
  if s == "-" then some [] else
  (s.splitOn ",").mapM fun e =>
    match e.splitOn ":" with
    | [n, k] => do
      let nb ← ofHex? n
      if k == "b" then some (nb, true) else if k == "v" then some (nb, false) else none
    | _ => none

def tableLookup (t : Table) (n : Bytes) : Option Bool := (t.find? (·.1 = n)).map (·.2)

def showErr : ArgErr → String
  | .badSyntax t => "err:badSyntax:" ++ toHex t
  | .undefined n => "err:undefined:" ++ toHex n
  | .needsArg n => "err:needsArg:" ++ toHex n

def showSt (t : Table) (s : St) : String :=
  let set := t.filterMap fun e => (effective s.assigns e.1).map fun v => toHex e.1 ++ "=" ++ toHex v
  s!"set=[{joinWith "," set}] rest=[{joinWith "," (s.args.map toHex)}]"

def showResult (t : Table) : Except GoPanic Result → String
  | .error p => p.describe
  | .ok (.ok s) => "ok " ++ showSt t s
  | .ok (.err e s) => showErr e ++ " " ++ showSt t s

structure ArgvSt where
  tbl : Table := []

def argvStep (d : ArgvSt) : List String → ArgvSt × String
  | ["table", t] => match parseTable t with
    | some tbl => ({ d with tbl := tbl }, "ok")
    | none => (d, "bad-op")
  | "parse" :: t :: toks =>
    match (if t == "@" then some d.tbl else parseTable t), toks.mapM ofHex? with
    | some tbl, some argv => (d, showResult tbl (argParse (tableLookup tbl) argv))
    | _, _ => (d, "bad-op")
  | _ => (d, "bad-op")

/-! ### stream `config`

  The harness describes one case with several lines; everything the standard library computes is
  supplied by the harness (it called strconv / time / base64 / encoding/json itself):

    world                                reset all tables                                  → `ok`
    case                                 forget env / file / b64 / json (keep the rest)     → `ok`
    zero <kind> <valhex>                 `World.zero`                                      → `ok`
    pt <kind> <texthex> <valhex|!>       `World.parseText kind text` (`!` = error)         → `ok`
    newfs <field>*                       `newFlagSet`; field = `L <goNameHex> <kind> <tagHex>`
                                         or `G <goNameHex> <n>` followed by n fields       → flag table
    env <keyhex> <valhex>                one environment variable                          → `ok`
    file <pathhex> <datahex|!>           `World.readFile`                                  → `ok`
    b64 <texthex> <datahex|!>            `World.b64Decode`                                 → `ok`
    json <datahex> <overlay|!>           `World.unmarshal`; overlay = `-` or `i=valhex,…`  → `ok`
    run <tokhex>*                        `parse` on the flag set of the last `newfs`       → result

  flag table: `ok name:env:kind:val:usage,…` (all hex) or `err:nameDash:<hex>` / `err:nameEq:<hex>` /
  `err:redefined:<hex>` / `err:badDefault`.
  result: `ok vals=[valhex,…] rest=[tokhex,…]`, `err:arg:<class>:<hex>`, `err:carrier`, `err:badValue`. -/

open Glb.Config in
structure CfgSt where
  zeros : List (Nat × Bytes) := []
  pts : List (Nat × Bytes × Option Bytes) := []
  envs : List (Bytes × Bytes) := []
  files : List (Bytes × Option Bytes) := []
  b64s : List (Bytes × Option Bytes) := []
  jsons : List (Bytes × Option (List (Nat × Bytes))) := []
  flags : List Flag := []

open Glb.Config

def kindOfNat : Nat → Option Kind
  | 0 => some .bool | 1 => some .int | 2 => some .int64 | 3 => some .uint | 4 => some .uint64
  | 5 => some .string | 6 => some .float64 | 7 => some .duration | 8 => some .bytes | _ => none

def natOfKind : Kind → Nat
  | .bool => 0 | .int => 1 | .int64 => 2 | .uint => 3 | .uint64 => 4
  | .string => 5 | .float64 => 6 | .duration => 7 | .bytes => 8

def asciiLower (b : Bytes) : Bytes := b.map fun c => if isUpper c then c + 0x20 else c

def assoc? {β} (l : List (Bytes × β)) (k : Bytes) : Option β := (l.find? (·.1 = k)).map (·.2)

def worldOf (d : CfgSt) : World where
  parseText := fun k t =>
    ((d.pts.find? fun e => e.1 = natOfKind k ∧ e.2.1 = t).map (·.2.2)).getD none
  zero := fun k => ((d.zeros.find? (·.1 = natOfKind k)).map (·.2)).getD []
  lower := asciiLower
  readFile := fun p => (assoc? d.files p).getD none
  b64Decode := fun t => (assoc? d.b64s t).getD none
  unmarshal := fun j => (assoc? d.jsons j).getD none

def optHex (s : String) : Option (Option Bytes) :=
  if s == "!" then some none else (ofHex? s).map some

/-- parse `n` fields from the token list -/
partial def parseFields : Nat → List String → Option (List Field × List String)
  | 0, toks => some ([], toks)
  | n + 1, "L" :: g :: k :: t :: rest => do
    let g ← ofHex? g
    let k ← k.toNat? >>= kindOfNat
    let t ← ofHex? t
    let (fs, rest) ← parseFields n rest
    pure (.leaf g k t :: fs, rest)
  | n + 1, "G" :: g :: c :: rest => do
    let g ← ofHex? g
    let c ← c.toNat?
    let (inner, rest) ← parseFields c rest
    let (fs, rest) ← parseFields n rest
    pure (.group g inner :: fs, rest)
  | _, _ => none

/-- all top-level fields until the tokens run out -/
partial def parseAllFields (toks : List String) : Option (List Field) :=
  if toks.isEmpty then some [] else do
    let (f, rest) ← parseFields 1 toks
    let fs ← parseAllFields rest
    pure (f ++ fs)

def parseOverlay (s : String) : Option (Option (List (Nat × Bytes))) :=
  if s == "!" then some none
  else if s == "-" then some (some [])
  else ((s.splitOn ",").mapM fun (e : String) =>
    match e.splitOn "=" with
    | [i, v] => do
      let i ← String.toNat? i
      let v ← ofHex? v
      pure (i, v)
    | _ => none).map some

def showFlag (f : Flag) : String :=
  s!"{toHex f.name}:{toHex f.env}:{natOfKind f.kind}:{toHex f.val}:{toHex f.usage}"

def showNewErr : NewErr → String
  | .panic p => p.describe
  | .nameDash n => "err:nameDash:" ++ toHex n
  | .nameEq n => "err:nameEq:" ++ toHex n
  | .redefined n => "err:redefined:" ++ toHex n
  | .badDefault _ => "err:badDefault"

def showParse : Except ParseErr PSt → String
  | .ok s => s!"ok vals=[{joinWith "," (s.flags.map fun f => toHex f.val)}] rest=[{joinWith "," (s.args.map toHex)}]"
  | .error (.panic p) => "err:" ++ p.describe
  | .error (.arg e) => "err:arg:" ++ (showErr e).drop 4
  | .error .carrier => "err:carrier"
  | .error (.badValue _) => "err:badValue"
  | .error .unknownStep => "err:unknownStep"

def cfgStep (d : CfgSt) : List String → CfgSt × String
  | ["world"] => ({}, "ok")
  | ["case"] => ({ d with envs := [], files := [], b64s := [], jsons := [] }, "ok")
  | ["zero", k, v] => match k.toNat?, ofHex? v with
    | some k, some v => ({ d with zeros := (k, v) :: d.zeros }, "ok")
    | _, _ => (d, "bad-op")
  | ["pt", k, t, v] => match k.toNat?, ofHex? t, optHex v with
    | some k, some t, some v => ({ d with pts := (k, t, v) :: d.pts }, "ok")
    | _, _, _ => (d, "bad-op")
  | "newfs" :: toks => match parseAllFields toks with
    | none => (d, "bad-op")
    | some fields => match newFlagSet (worldOf d) fields with
      | .error e => ({ d with flags := [] }, showNewErr e)
      | .ok fl => ({ d with flags := fl }, "ok " ++ joinWith "," (fl.map showFlag))
  | ["env", k, v] => match ofHex? k, ofHex? v with
    | some k, some v => ({ d with envs := (k, v) :: d.envs }, "ok")
    | _, _ => (d, "bad-op")
  | ["file", p, v] => match ofHex? p, optHex v with
    | some p, some v => ({ d with files := (p, v) :: d.files }, "ok")
    | _, _ => (d, "bad-op")
  | ["b64", t, v] => match ofHex? t, optHex v with
    | some t, some v => ({ d with b64s := (t, v) :: d.b64s }, "ok")
    | _, _ => (d, "bad-op")
  | ["json", j, o] => match ofHex? j, parseOverlay o with
    | some j, some o => ({ d with jsons := (j, o) :: d.jsons }, "ok")
    | _, _ => (d, "bad-op")
  | "run" :: toks => match toks.mapM ofHex? with
    | none => (d, "bad-op")
    | some argv => (d, showParse (parse (worldOf d) d.flags argv (assoc? d.envs)))
  | _ => (d, "bad-op")

end Glb.Driver.Config
