/- Driver for the supporting models (`Glb.Aux.*`): stream `aux`.

     with  <arg>…                -> the attributes `argsToAttrs` produces, `key=value` tokens (or `-`)
     info  <arg>…                -> the same through slog's Record.Add (empty groups dropped)
           <arg> ::= s:<hex> | a:<hexkey>:<valtok> | o:<valtok>        (valtok: opaque, no space)
     dt    Y M D h m s           -> hex of what appendDateTime appends, or `panic`
     first <hexip> <hexmask>     -> hex | nil
     last  <hexip> <hexmask>     -> hex | panic
     split <hex>                 -> <hexhost> <hexport> | panic
     camel <hex> <0|1>           -> hex
     under <hex> <0|1>           -> hex          (Glb.Config.underscore)
     isdigit <hex>               -> true|false
     contain <hexv> <hex>…       -> true|false
     home  <hexhome> <hexraw>    -> <hex> err=<bool> | panic
     cip   <hexremote> <hexkey>:<hexv>,<hexv>… …   -> hex | panic
     cookie <hexname> <hexn>=<hexv> …              -> hex
-/
import Glb.Driver.Common
import Glb.Model.AuxLogger
import Glb.Model.AuxNetutil
import Glb.Model.AuxStrutil
import Glb.Model.AuxFsutil
import Glb.Model.AuxHttpd
import Glb.Model.Config

namespace Glb.Driver.AuxFns
open Glb

abbrev A := Aux.Args.Arg String (String × String) String
abbrev O := Aux.Args.Out String (String × String) String

def splitFirst (s : String) (c : Char) : Option (String × String) :=
  match s.splitOn (String.singleton c) with
  | [] | [_] => none
  | a :: rest => some (a, (String.singleton c).intercalate rest)

def parseArg (t : String) : Option A :=
  match splitFirst t ':' with
  | some ("s", h) => some (.str h)
  | some ("o", v) => some (.other v)
  | some ("a", kv) => match splitFirst kv ':' with
    | some (k, v) => some (.attr (k, v))
    | none => none
  | _ => none

def parseArgs : List String → Option (List A)
  | [] => some []
  | t :: ts => do
    let a ← parseArg t
    let r ← parseArgs ts
    pure (a :: r)

/-- hex of "!BADKEY" -/
def badKey : String := toHex (strBytes "!BADKEY")

/-- the value token of `slog.Any(k, v)` -/
def anyTok : A → String
  | .str h => "s" ++ h
  | .attr (k, v) => s!"A({k}={v})"
  | .other v => v

def outKV : O → String × String
  | .pair k v => (k, anyTok v)
  | .badStr h => (badKey, "s" ++ h)
  | .pass (k, v) => (k, v)
  | .badAny v => (badKey, v)

def showOuts (os : List O) : String :=
  if os.isEmpty then "-" else joinWith " " (os.map fun o => let (k, v) := outKV o; s!"{k}={v}")

def isEmptyGroup (o : O) : Bool := (outKV o).2 == "g[]"

def parseInt (s : String) : Option Int :=
  s.toInt?

def parseBool : String → Option Bool
  | "0" => some false
  | "1" => some true
  | _ => none

def hexList : List String → Option (List Bytes)
  | [] => some []
  | t :: ts => do
    let a ← ofHex? t
    let r ← hexList ts
    pure (a :: r)

def parseHeader (t : String) : Option (Bytes × List Bytes) :=
  match splitFirst t ':' with
  | some (k, vs) => do
    let k ← ofHex? k
    let vs ← hexList (vs.splitOn ",")
    pure (k, vs)
  | none => none

def parseHeaders : List String → Option Aux.Httpd.Header
  | [] => some []
  | t :: ts => do
    let a ← parseHeader t
    let r ← parseHeaders ts
    pure (a :: r)

def parseCookie (t : String) : Option (Bytes × Bytes) :=
  match splitFirst t '=' with
  | some (n, v) => do
    let n ← ofHex? n
    let v ← ofHex? v
    pure (n, v)
  | none => none

def parseCookies : List String → Option (List (Bytes × Bytes))
  | [] => some []
  | t :: ts => do
    let a ← parseCookie t
    let r ← parseCookies ts
    pure (a :: r)

def step (u : Unit) : List String → Unit × String
  | "with" :: ts => match parseArgs ts with
    | some as => (u, showOuts (Aux.Args.argsToAttrs as))
    | none => (u, "bad-op")
  | "info" :: ts => match parseArgs ts with
    | some as => (u, showOuts (Aux.Args.recordAdd isEmptyGroup as))
    | none => (u, "bad-op")
  | ["dt", y, mo, d, h, mi, s] =>
    match parseInt y, parseInt mo, parseInt d, parseInt h, parseInt mi, parseInt s with
    | some y, some mo, some d, some h, some mi, some s =>
      match Aux.DateTime.appendDateTime [] y mo d h mi s with
      | .ok r => (u, toHex r)
      | .error _ => (u, "panic")
    | _, _, _, _, _, _ => (u, "bad-op")
  | ["first", ip, mask] => match ofHex? ip, ofHex? mask with
    | some ip, some mask => match Aux.Net.firstIP ip mask with
      | some r => (u, toHex r)
      | none => (u, "nil")
    | _, _ => (u, "bad-op")
  | ["last", ip, mask] => match ofHex? ip, ofHex? mask with
    | some ip, some mask => match Aux.Net.lastIP ip mask with
      | .ok (some r) => (u, toHex r)
      | .ok none => (u, "nil")
      | .error _ => (u, "panic")
    | _, _ => (u, "bad-op")
  | ["split", a] => match ofHex? a with
    | some a => match Aux.Net.splitHostPort a with
      | .ok (h, p) => (u, s!"{toHex h} {toHex p}")
      | .error _ => (u, "panic")
    | none => (u, "bad-op")
  | ["camel", s, up] => match ofHex? s, parseBool up with
    | some s, some up => (u, toHex (Aux.Str.camelize s up))
    | _, _ => (u, "bad-op")
  | ["under", s, up] => match ofHex? s, parseBool up with
    | some s, some up => (u, toHex (Config.underscore s up))
    | _, _ => (u, "bad-op")
  | ["isdigit", s] => match ofHex? s with
    | some s => (u, toString (Aux.Str.isDigitString s))
    | none => (u, "bad-op")
  | "contain" :: v :: l => match ofHex? v, hexList l with
    | some v, some l => (u, toString (Aux.Str.sliceContain l v))
    | _, _ => (u, "bad-op")
  | ["home", home, raw] => match ofHex? home, ofHex? raw with
    | some home, some raw => match Aux.Home.expandHomeDir? home raw with
      | .ok (r, err) => (u, s!"{toHex r} err={err}")
      | .error _ => (u, "panic")
    | _, _ => (u, "bad-op")
  | "cip" :: remote :: hs => match ofHex? remote, parseHeaders hs with
    | some remote, some hs => match Aux.Httpd.getClientIP hs remote with
      | .ok r => (u, toHex r)
      | .error _ => (u, "panic")
    | _, _ => (u, "bad-op")
  | "cookie" :: name :: cs => match ofHex? name, parseCookies cs with
    | some name, some cs => (u, toHex (Aux.Httpd.cookieValue cs name))
    | _, _ => (u, "bad-op")
  | _ => (u, "bad-op")

end Glb.Driver.AuxFns
