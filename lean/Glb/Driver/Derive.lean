/-
  Driver for the derivation / slice-aliasing model (C03), stream `derive`.

    root <json|text|nano>                 fresh heap, forest = [root]            → "0"
    attrs <parent> (<chunk> <wrote>)*      WithAttrs; each attribute given as the bytes it renders
                                           to and whether it wrote a member       → "<id> len=<n> <shape>"
    group <parent> <bytes>                 WithGroup; JSON: the bytes it appends, Text: the name,
                                           Nano: ignored                          → "<id> len=<n> <shape>"
    log <handle> <hd> (<chunk> <wrote>)*   Handle                                 → hex of the line

  The model runs on the explicit heap with Go's real growth sequence and the clip flags extracted
  from the source (`codeClips`), so an aliasing bug in the *model's* reading of the code would show
  up as a disagreement with the real lines.
-/
import Glb.Driver.Common
import Glb.Model.DeriveSlices

namespace Glb.Driver.Derive
open Glb Glb.Derive

abbrev A := Bytes × Bool

structure DSt where
  kind : Kind := .nano
  s : St A := St.init .nano

def parseKind : String → Option Kind
  | "json" => some .json
  | "text" => some .text
  | "nano" => some .nano
  | _ => none

def parsePairs : List String → Option (List A)
  | [] => some []
  | c :: w :: rest => do
    let cb ← ofHex? c
    let r ← parsePairs rest
    pure ((cb, w == "1") :: r)
  | _ => none

def showShape : Shape → String
  | .json n s => s!"json:{n}:{s}"
  | .text p => s!"text:{toHex p}"
  | .nano => "nano"

def answerDerive (d : DSt) (p : Nat) (op : DOp A) : DSt × String :=
  match d.s.forest[p]? with
  | none => (d, "bad-handle")
  | some _ =>
    let s' := step rawRenderer (codeClips d.kind) goPolicy d.s (.derive p op)
    match s'.forest.getLast? with
    | none => (d, "bad-state")
    | some (h, _) => ({ d with s := s' }, s!"{s'.forest.length - 1} len={h.pre.len} {showShape h.shape}")

def step (d : DSt) : List String → DSt × String
  | ["root", k] => match parseKind k with
    | some k => ({ kind := k, s := St.init k }, "0")
    | none => (d, "bad-op")
  | "attrs" :: p :: rest => match p.toNat?, parsePairs rest with
    | some p, some as => answerDerive d p (.withAttrs as)
    | _, _ => (d, "bad-op")
  | ["group", p, nm] => match p.toNat?, ofHex? nm with
    | some p, some nm => answerDerive d p (.withGroup nm)
    | _, _ => (d, "bad-op")
  | "log" :: i :: hd :: rest => match i.toNat?, ofHex? hd, parsePairs rest with
    | some i, some hd, some as =>
      match d.s.forest[i]? with
      | none => (d, "bad-handle")
      | some (h, _) => (d, toHex (lineOf rawRenderer (h.pre.bytes d.s.heap) h.shape hd as))
    | _, _, _ => (d, "bad-op")
  | _ => (d, "bad-op")

end Glb.Driver.Derive
