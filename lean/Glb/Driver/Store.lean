/- Driver for the pooled-Store model (C05): stream `store`. -/
import Glb.Driver.Common
import Glb.Driver.Router
import Glb.Model.Store

namespace Glb.Driver.Store
open Glb Glb.Router Glb.Store

/-- the model's Mux; the random 9-byte prefix of the real Mux is not compared (ids are printed
    without it) -/
def pfx0 : Bytes := [88, 88, 88, 88, 88, 88, 88, 88, 45]

def grow0 (c : Nat) : Nat := 2 * c

structure DSt where
  mux : MuxSt := fresh pfx0

def renderObs (o : Obs) (withId : Bool) : String :=
  let tgt := match o.target with
    | .route id => s!"route {id}"
    | .noRoute => "noroute"
  let id := if withId then toHex (o.id.drop 9) else "*"
  s!"{tgt} any={toHex o.any} get={Router.hexList o.gets} status={o.status} id={id}"

def request (d : DSt) (withId : Bool) (k p m code pan : String) (names : List String) : DSt × String :=
  match k.toNat?, ofHex? p, ofHex? m, code.toNat?, Router.allHex? names with
  | some k, some p, some m, some code, some names =>
    let choice : Option Nat :=
      if k = 0 ∨ d.mux.pool.length = 0 then none else some ((k - 1) % d.mux.pool.length)
    let beh : Behaviour := { writeStatus := if code = 0 then none else some code, panics := pan == "1" }
    let (mux', r) := serve grow0 render36 d.mux ⟨p, m⟩ names beh choice
    match r with
    | .error e => ({ mux := mux' }, Router.panicClass e)
    | .ok [o1, o2] =>
      if o1 = o2 then ({ mux := mux' }, renderObs o2 withId)
      else ({ mux := mux' }, "relay-differs " ++ renderObs o1 withId ++ " | " ++ renderObs o2 withId)
    | .ok l => ({ mux := mux' }, s!"observations={l.length}")
  | _, _, _, _, _ => (d, "bad-op")

def step (d : DSt) : List String → DSt × String
  | ["reset"] => ({}, "ok")
  | ["handle", p, m] => match ofHex? p, ofHex? m with
    | some p, some m =>
      match handle d.mux p m with
      | .error e => (d, Router.panicClass e)
      | .ok (mux', .error e) => ({ mux := mux' }, "err " ++ e.describe)
      | .ok (mux', .ok n) => ({ mux := mux' }, s!"ok {n}")
    | _, _ => (d, "bad-op")
  | ["dropall"] => ({ mux := { d.mux with pool := [] } }, "ok")
  | "req" :: k :: p :: m :: code :: pan :: names => request d true k p m code pan names
  | "reqx" :: k :: p :: m :: code :: pan :: names => request d false k p m code pan names
  | _ => (d, "bad-op")

end Glb.Driver.Store
