/- Driver for the router model (C04): stream `router`. -/
import Glb.Driver.Common
import Glb.Model.Router
import Glb.Spec.RouteList

namespace Glb.Driver.Router
open Glb Glb.Router

structure DSt where
  root : Node := Node.empty
  ok : List RouteList.Route := []     -- successfully registered routes, id = position

def hexList (l : List Bytes) : String := joinWith "," (l.map toHex)

def allHex? : List String → Option (List Bytes)
  | [] => some []
  | s :: r => do
    let b ← ofHex? s
    let bs ← allHex? r
    pure (b :: bs)

def pnameKey : RouteList.PName → Bytes
  | .named n => n
  | .star => Generated.routeParamAny

/-- what a handler sees: K, V, RouteParamAny(), RouteParam(name) for the given names -/
def observe (ps : Params) (names : List Bytes) : Except GoPanic String := do
  let any ← paramsGet ps Generated.routeParamAny
  let gets ← names.mapM fun n => do
    let v ← paramsGet ps n
    pure (v.getD [])
  pure s!"K={hexList ps.K} V={hexList ps.V} any={toHex (any.getD [])} get={hexList gets}"

def panicClass : GoPanic → String
  | .sliceBounds .. => "panic:slice"
  | .indexRange .. => "panic:index"
  | .other m => "panic:" ++ m

def step (d : DSt) : List String → DSt × String
  | ["reset"] => ({}, "ok")
  | ["handle", p, m] => match ofHex? p, ofHex? m with
    | some p, some m =>
      match parseRoute d.root p m d.ok.length with
      | .error e => (d, panicClass e)
      | .ok ⟨root', .error e⟩ => ({ d with root := root' }, "err " ++ e.describe)
      | .ok ⟨root', .ok n⟩ => ({ root := root', ok := d.ok ++ [⟨p, m⟩] }, s!"ok {n}")
    | _, _ => (d, "bad-op")
  | "find" :: p :: m :: names => match ofHex? p, ofHex? m, allHex? names with
    | some p, some m, some names =>
      match serveHTTP d.root p m with
      | .error e => (d, panicClass e)
      | .ok [c] =>
        let head := match c.target with
          | .route id =>
            let r := d.ok.getD id ⟨[], []⟩
            s!"route {id} {toHex r.pattern} {toHex r.method}"
          | .noRoute => "noroute - -"
        match observe c.params names with
        | .error e => (d, head ++ " " ++ panicClass e)
        | .ok o => (d, head ++ " " ++ o)
      | .ok l => (d, s!"handlers={l.length}")
    | _, _, _ => (d, "bad-op")
  | ["spec", p, m] => match ofHex? p, ofHex? m with
    | some p, some m =>
      match RouteList.specFind d.ok p m with
      | some r => (d, s!"route {r.id} K={hexList (r.binds.map fun b => pnameKey b.1)} V={hexList (r.binds.map fun b => b.2)}")
      | none => (d, "noroute")
    | _, _ => (d, "bad-op")
  | _ => (d, "bad-op")

end Glb.Driver.Router
