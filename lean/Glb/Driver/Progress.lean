/-
  Driver for the ProgressWriter model (C19), stream `progress`.

    accept  <prog> <trace>     is the observed trace a trace of the model?   → accept | reject
    control <prog> <trace>     same question (lines whose expected answer is `reject`)
    prefix  <prog> <trace>     is it a prefix of a trace of the model?        → accept | reject
    size    <prog>             Size() after each write of the program          → 3,3,5 | -

  <prog>  = comma separated calls: `W<n>[e]` Write, `S<n>[e]` WriteString (n = byte count the
            wrapped writer reports, `e` = it also returns an error), `C` Close; `-` = empty.
  <trace> = comma separated events in log order: `w<n>` a Write/WriteString returned n,
            `r<v>` the consumer logged a received value, `c` Close returned, `x` the consumer
            logged "channel closed"; `-` = empty.

  Acceptance is decided by a subset construction over `Progress.enabled`: internal steps
  (`ptau`, `send`, `ctau`) are closed over, each event must be matched by the corresponding
  observable label.  Ghost history fields are erased so that the state sets stay small.
-/
import Glb.Driver.Common
import Glb.Model.Progress

namespace Glb.Driver.Progress
open Glb Glb.Progress

inductive Ev where
  | w (n : Int) | r (v : Int) | c | x
  deriving DecidableEq, Repr

def parseInt (cs : List Char) : Option Int := (String.ofList cs).toInt?

def parseCall (tok : String) : Option Call :=
  match tok.toList with
  | ['C'] => some .close
  | k :: rest =>
    let (digits, err) := if rest.getLast? = some 'e' then (rest.dropLast, true) else (rest, false)
    match parseInt digits with
    | some n =>
      if k = 'W' then some (.w ⟨n, err, false⟩)
      else if k = 'S' then some (.w ⟨n, err, true⟩)
      else none
    | none => none
  | [] => none

def parseList {α} (f : String → Option α) (s : String) : Option (List α) :=
  if s = "-" then some [] else (s.splitOn ",").mapM f

/-- a program: writes, then at most one Close, which must come last -/
def parseProg (s : String) : Option Prog := do
  let calls ← parseList parseCall s
  let ws := calls.filterMap fun c => match c with | .w o => some o | .close => none
  let nClose := (calls.filter (· == Call.close)).length
  if nClose = 0 then some ⟨ws, false⟩
  else if nClose = 1 ∧ calls.getLast? = some .close then some ⟨ws, true⟩
  else none

def parseEv (tok : String) : Option Ev :=
  match tok.toList with
  | ['c'] => some .c
  | ['x'] => some .x
  | 'w' :: rest => (parseInt rest).map .w
  | 'r' :: rest => (parseInt rest).map .r
  | _ => none

def norm (s : St) : St := { s with recvd := [], reported := [] }

def isTau : Label → Bool
  | .ptau | .send _ | .ctau => true
  | _ => false

def evMatch (e : Ev) : Label → Bool
  | .wdone n => e == .w n
  | .robs v => e == .r v
  | .cdone => e == .c
  | .xobs => e == .x
  | _ => false

def addNew (seen : List St) (xs : List St) : List St × List St :=
  xs.foldl (fun (acc : List St × List St) x =>
    if acc.1.contains x then acc else (x :: acc.1, x :: acc.2)) (seen, [])

/-- τ-closure by breadth-first search (the normalised state space of one program is finite) -/
partial def closure (seen frontier : List St) : List St :=
  if frontier.isEmpty then seen
  else
    let next := frontier.flatMap fun s =>
      (enabled s).filterMap fun (l, s') => if isTau l then some (norm s') else none
    let (seen', fresh) := addNew seen next
    closure seen' fresh

def start (P : Prog) : List St :=
  let s0 := norm (init P)
  closure [s0] [s0]

def stepEv (S : List St) (e : Ev) : List St :=
  let next := S.flatMap fun s =>
    (enabled s).filterMap fun (l, s') => if evMatch e l then some (norm s') else none
  let (seen, fresh) := addNew [] next
  closure seen fresh

/-- everything the consumer received has been logged -/
def quiet (s : St) : Bool :=
  match s.cons with
  | .away | .parked => true
  | _ => false

/-- `accept`/`control` judge *complete* runs (the harness joins producer and consumer before it
    emits the trace): the events must lead to a state in which the program has run to completion
    and no received value is still unlogged. -/
def accepts (P : Prog) (tr : List Ev) : Bool :=
  (tr.foldl stepEv (start P)).any fun s => finished s && quiet s

/-- `prefix`: the events are a prefix of a trace of the model (used for runs cut short) -/
def acceptsPrefix (P : Prog) (tr : List Ev) : Bool :=
  !(tr.foldl stepEv (start P)).isEmpty

/-- sizes after each write when nobody ever receives (the size does not depend on the schedule:
    theorem `size_at_rest`) -/
partial def sizes (s : St) (acc : List Int) : List Int :=
  match prodSteps s with
  | (l, s') :: _ =>
    match l with
    | .wdone _ => sizes (norm s') (acc ++ [s'.size])
    | _ => sizes (norm s') acc
  | [] => acc

def showInts (l : List Int) : String :=
  if l.isEmpty then "-" else joinWith "," (l.map toString)

def step (u : Unit) : List String → Unit × String
  | [op, prog, trace] =>
    if op = "accept" ∨ op = "control" then
      match parseProg prog, parseList parseEv trace with
      | some P, some tr => (u, if accepts P tr then "accept" else "reject")
      | _, _ => (u, "bad-op")
    else if op = "prefix" then
      match parseProg prog, parseList parseEv trace with
      | some P, some tr => (u, if acceptsPrefix P tr then "accept" else "reject")
      | _, _ => (u, "bad-op")
    else (u, "bad-op")
  | ["size", prog] =>
    match parseProg prog with
    | some P => (u, showInts (sizes (norm (init { P with close := false })) []))
    | none => (u, "bad-op")
  | _ => (u, "bad-op")

end Glb.Driver.Progress
