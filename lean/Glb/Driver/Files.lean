/-
  Driver for the file-system model (C18), stream `files`.

    <call> <src> <dst> <names> <inodes>

  call   = copy | move | copypinned | movepinned
  src/dst= name ids
  names  = comma separated `id:kind:dev`, kind = f<ino> (regular file, hard link to inode) |
           d (directory) | l<id> (symlink to name id) | m (missing, parent directory exists) |
           n (missing, parent missing) | t (missing, parent is not a directory)
  inodes = comma separated `ino=<hex>` (`-` = empty content; `-` alone = no inodes)

  answer = `<class>` then, for every listed name in order, ` id:<own><res>[=<k>:<hex>]` where
  own = what the name itself is (f d l m), res = what it resolves to (f d m o=loop); for a
  regular file k = the smallest listed name resolving to the same inode and hex = its bytes.
-/
import Glb.Driver.Common
import Glb.Model.Files

namespace Glb.Driver.Files
open Glb Glb.Files

def parseNat (cs : List Char) : Option Nat := (String.ofList cs).toNat?

def parseKind (s : String) : Option Entry :=
  match s.toList with
  | ['d'] => some .dir
  | ['m'] => some (.missing .ok)
  | ['n'] => some (.missing .noParent)
  | ['t'] => some (.missing .parentNotDir)
  | 'f' :: r => (parseNat r).map .file
  | 'l' :: r => (parseNat r).map .symlink
  | _ => none

def parseName (s : String) : Option (Name × Entry × Nat) :=
  match s.splitOn ":" with
  | [a, k, d] => do
    let a ← a.toNat?
    let k ← parseKind k
    let d ← d.toNat?
    pure (a, k, d)
  | _ => none

def parseIno (s : String) : Option (Ino × Bytes) :=
  match s.splitOn "=" with
  | [a, h] => do
    let a ← a.toNat?
    let b ← ofHex? h
    pure (a, b)
  | _ => none

def parseList {α} (f : String → Option α) (s : String) : Option (List α) :=
  if s = "-" then some [] else (s.splitOn ",").mapM f

def mkFS (names : List (Name × Entry × Nat)) (inos : List (Ino × Bytes)) : FS :=
  let usedE := names.filterMap fun (_, e, _) => match e with | .file i => some i | _ => none
  let used := usedE ++ inos.map (·.1)
  { entry := fun n => match names.find? (·.1 == n) with | some (_, e, _) => e | none => .missing .ok,
    data := fun i => match inos.find? (·.1 == i) with | some (_, b) => b | none => [],
    dev := fun n => match names.find? (·.1 == n) with | some (_, _, d) => d | none => 0,
    next := used.foldl (fun a b => max a (b + 1)) 0 }

def errName : Err → String
  | .enoent => "enoent" | .enotdir => "enotdir" | .eisdir => "eisdir" | .eloop => "eloop"
  | .exdev => "exdev" | .sameFile => "samefile" | .other => "other"

def ownKind : Entry → String
  | .file _ => "f" | .dir => "d" | .symlink _ => "l" | .missing _ => "m"

def describe (fs : FS) (ids : List Name) (n : Name) : String :=
  let own := ownKind (fs.entry n)
  match resolve fs n with
  | .file _ i =>
    let k := (ids.find? fun m => match resolve fs m with | .file _ j => j == i | _ => false).getD n
    s!"{n}:{own}f={k}:{toHex (fs.data i)}"
  | .dir _ => s!"{n}:{own}d"
  | .missing _ _ => s!"{n}:{own}m"
  | .loop => s!"{n}:{own}o"

def step (u : Unit) : List String → Unit × String
  | [call, src, dst, names, inos] =>
    match src.toNat?, dst.toNat?, parseList parseName names, parseList parseIno inos with
    | some src, some dst, some names, some inos =>
      let fs := mkFS names inos
      let ids := names.map (·.1)
      let res : Option (FS × String) :=
        if call = "copy" then
          let r := copyFile fs src dst
          some (r.1, match r.2 with | .ok _ => "ok" | .error e => errName e)
        else if call = "copypinned" then
          let r := copyFilePinned fs src dst
          some (r.1, match r.2 with | .ok _ => "ok" | .error e => errName e)
        else if call = "move" then
          let r := moveFile fs src dst
          some (r.1, match r.2 with | .ok _ => "ok" | .error e => errName e)
        else if call = "movepinned" then
          let r := moveFilePinned fs src dst
          some (r.1, match r.2 with | .ok _ => "ok" | .error e => errName e)
        else none
      match res with
      | some (fs', cls) => (u, joinWith " " (cls :: ids.map (describe fs' ids)))
      | none => (u, "bad-op")
    | _, _, _, _ => (u, "bad-op")
  | _ => (u, "bad-op")

end Glb.Driver.Files
