/- Driver for the launcher/daemon/caller model (C20): acceptance of an observed event order.
   op:  launch <now|pinned> <paused 0|1> <obs,obs,…> <observed outcome>
        obs ∈ done | release | ret | crash   (what the harness can see, in the order it saw it)
        outcome = <ok|err>:<exited|killed|failed|running>:<alive|dead|none>:<orphan|child>
   out: accepted <outcome>            some interleaving of the model (internal steps = launcher
                                      steps, launcher exit, signal delivery, waiter) shows these
                                      observations in this order and ends with this outcome
        rejected model-allows=…       otherwise -/
import Glb.Driver.Common
import Glb.Model.Daemon

namespace Glb.Driver.Daemon
open Glb Glb.Daemon

def tauLabels : List Label := [.lnext, .lexit, .deliver, .waiter]

def closure1 (ss : List St) : List St :=
  (ss ++ ss.flatMap fun s => tauLabels.filterMap (step s)).eraseDups

def closure : Nat → List St → List St
  | 0, ss => ss
  | n + 1, ss =>
    let ss' := closure1 ss
    if ss'.length = ss.length then ss else closure n ss'

def parseObs (s : String) : Option Label :=
  if s = "done" then some .done
  else if s = "release" then some .release
  else if s = "ret" then some .ret
  else if s = "crash" then some .crash
  else none

def outcome (s : St) : String :=
  let r := match s.result with
    | some (.ok _) => "ok"
    | some .err => "err"
    | none => "pending"
  let l := match s.lstatus with
    | .running => "running" | .exited => "exited" | .killed => "killed" | .failed => "failed"
  let d := match s.dstate with
    | .notStarted => "none" | .working => "alive" | .ran => "alive" | .crashed => "dead"
  let p := match s.dparent with
    | .launcher => "child" | .init => "orphan"
  s!"{r}:{l}:{d}:{p}"

def strLe (a b : String) : Bool := a ≤ b

def accepts (order : List LStep) (obs : List Label) (want : String) : String :=
  let start := closure 64 [init order]
  let final := obs.foldl (fun ss l => closure 64 (ss.filterMap fun s => step s l)) start
  let outs := (final.map outcome).eraseDups.mergeSort strLe
  if outs.contains want then "accepted " ++ want
  else "rejected model-allows=" ++ (if outs.isEmpty then "nothing" else joinWith "|" outs)

def step (d : Unit) : List String → Unit × String
  | ["launch", ord, paused, obs, want] =>
    let order := if ord == "pinned" then pinnedOrder else orderNow
    let order := if paused == "1" then withPause order else order
    match (if obs == "-" then some [] else (obs.splitOn ",").mapM parseObs) with
    | some ls => (d, accepts order ls want)
    | none => (d, "bad-op")
  | _ => (d, "bad-op")

end Glb.Driver.Daemon
