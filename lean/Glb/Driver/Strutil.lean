/- Driver for the strutil model and the POSIX word lexer (C16).
     esc  <hex>   -> hex of model shellEscape
     esct <hex>   -> hex of model shellEscapeExceptTilde (or the panic description)
     lex  <hex>   -> words=[w1,w2,…] special=<b> unterminated=<b>
                     a word is rendered as hex of its literal bytes with `~` for the `home`
                     atom, `-` for the empty word -/
import Glb.Driver.Common
import Glb.Model.Strutil
import Glb.Spec.PosixWords

namespace Glb.Driver.Strutil
open Glb Glb.Strutil Glb.PosixWords

def renderWord (w : List Atom) : String :=
  if w.isEmpty then "-" else
  String.ofList (w.flatMap fun a => match a with
    | .home => ['~']
    | .byte b => hexOfByte b)

def renderResult (r : Result) : String :=
  s!"words=[{joinWith "," (r.words.map renderWord)}] special={r.special} unterminated={r.unterminated}"

def step (u : Unit) : List String → Unit × String
  | ["esc", h] => match ofHex? h with
    | some s => (u, toHex (shellEscape s))
    | none => (u, "bad-op")
  | ["esct", h] => match ofHex? h with
    | some s => match shellEscapeExceptTilde s with
      | .ok r => (u, toHex r)
      | .error p => (u, p.describe)
    | none => (u, "bad-op")
  | ["lex", h] => match ofHex? h with
    | some s => (u, renderResult (lex s))
    | none => (u, "bad-op")
  | _ => (u, "bad-op")

end Glb.Driver.Strutil
