/-
  Tie of the TRANSLATED `strutil.Underscore` (Glb/Generated/TrUnderscore.lean, rewritten from
  /repo/util/strutil/strutil.go on every run by tools/extract/golean.go) to the hand model
  `Glb.Config.underscore` that the C09 theorems (`env_key`, `flagset_shape`, `priority`) use for the
  environment-variable name of a flag: translated function = model, for every byte string.
-/
import Glb.Go.Lemmas
import Glb.Generated.TrUnderscore
import Glb.Model.Config

namespace Glb.Tie.TrUnderscore
open Glb.Go Glb.Tr.Strutil
open Glb.Config (isLower isUpper isDigit)

/-! ### Underscore -/

/-- Go's `last` (an int constant 0..3) as the model's enumeration -/
def lastOf (l : Int) : Glb.Config.Last :=
  if l = 1 then .upperLetter else if l = 2 then .lowerLetter else if l = 3 then .notAlphanum
  else .initial

/-- the value of Underscore's `last` variable when its loop ends (not used by the code after the
    loop, needed only to name the loop's final state) -/
def undLastGo : Int → Bytes → Int
  | l, [] => l
  | _, c :: rest =>
    if isLower c then undLastGo 2 rest
    else if isUpper c then undLastGo 1 rest
    else if isDigit c then undLastGo 0 rest
    else undLastGo 3 rest

theorem Underscore_eq (s : Bytes) (upper : Bool) :
    Underscore s upper = .ok (Glb.Config.underscore s upper) := by
  unfold Underscore
  dsimp only
  rw [loop_eq (σ := Bytes × Int × Int) (ρ := Bytes)
    (Inv := fun st => (0 ≤ st.2.2 ∧ st.2.2 ≤ s.length) ∧
      (st.2.1 = 0 ∨ st.2.1 = 1 ∨ st.2.1 = 2 ∨ st.2.1 = 3))
    (measure := fun st => ((s.length : Int) - st.2.2).toNat)
    (model := fun st => .ok (.inl
      (st.1 ++ Glb.Config.underscoreGo upper (lastOf st.2.1) (decide ((st.1.length : Int) > 0))
          (s.drop st.2.2.toNat),
       undLastGo st.2.1 (s.drop st.2.2.toNat),
       (s.length : Int))))]
  · simp [bind, Except.bind, pure, Except.pure, Glb.Config.underscore, Glb.Go.toStr, lastOf]
  · intro ⟨buf, last, i⟩ ⟨⟨h0, hl⟩, hlast⟩
    dsimp only at h0 hl hlast
    obtain ⟨n, rfl⟩ : ∃ n : Nat, i = n := ⟨i.toNat, by omega⟩
    simp only [StepOK, pure, Except.pure, len_eq, Int.toNat_natCast]
    by_cases hn : n < s.length
    · obtain ⟨c, rest, hd⟩ : ∃ c rest, s.drop n = c :: rest := by
        cases h : s.drop n with
        | nil => have := length_of_drop_nil s n h; omega
        | cons c rest => exact ⟨c, rest, rfl⟩
      have hc := idx_drop s n c rest hd
      have hrest := drop_succ_of_drop s n c rest hd
      have hn' : ((n : Int) < (s.length : Int)) := by omega
      have hn1 : ((n : Int) + 1).toNat = n + 1 := by omega
      have hp1 : (0 < (buf.length : Int) + 1) := by omega
      have hp2 : (0 < (buf.length : Int) + 2) := by omega
      simp only [hn', decide_true, hc, bind, Except.bind, hd, Glb.Config.underscoreGo, undLastGo,
        isLower, isUpper, isDigit]
      by_cases h1 : (decide (97 ≤ c) && decide (c ≤ 122)) = true
      · rcases hlast with rfl | rfl | rfl | rfl <;> cases upper <;>
          by_cases hb : 0 < buf.length <;>
          simp [hb, hp1, hp2, h1, hn1, hrest, lastOf, Glb.Config.underscoreByte] <;> omega
      · by_cases h2 : (decide (65 ≤ c) && decide (c ≤ 90)) = true
        · cases hr : rest with
          | nil =>
            have hlen : ¬ ((n : Int) + 1 < (s.length : Int)) := by
              have := length_of_drop_nil s (n + 1) (by rw [hrest, hr]); omega
            rcases hlast with rfl | rfl | rfl | rfl <;> cases upper <;>
              by_cases hb : 0 < buf.length <;>
              simp [hb, hp1, hp2, h1, h2, hn1, hrest, hr, hlen, lastOf, Glb.Config.underscoreByte] <;> omega
          | cons d rest' =>
            have hd1 : s.drop (n + 1) = d :: rest' := by rw [hrest, hr]
            have hlt : ((n : Int) + 1 < (s.length : Int)) := by
              have := lt_length_of_drop_cons s (n + 1) d rest' hd1; omega
            have hidx1 : idx s ((n : Int) + 1) = .ok d := idx_drop s (n + 1) d rest' hd1
            rcases hlast with rfl | rfl | rfl | rfl <;> cases upper <;>
              by_cases hb : 0 < buf.length <;>
              by_cases hd97 : 97 ≤ d <;> by_cases hd122 : d ≤ 122 <;>
              simp [hb, hp1, hp2, h1, h2, hn1, hrest, hr, hlt, hidx1, hd97, hd122, lastOf,
                Glb.Config.underscoreByte] <;> omega
        · by_cases h3 : (decide (48 ≤ c) && decide (c ≤ 57)) = true
          · rcases hlast with rfl | rfl | rfl | rfl <;>
              by_cases hb : 0 < buf.length <;>
              simp [hb, hp1, hp2, h1, h2, h3, hn1, hrest, lastOf, Glb.Config.underscoreByte] <;> omega
          · simp [h1, h2, h3, hn1, hrest, lastOf] <;> omega
    · have hn' : ¬ ((n : Int) < (s.length : Int)) := by omega
      have : s.drop n = [] := List.drop_of_length_le (by omega)
      simp [hn', this, Glb.Config.underscoreGo, undLastGo]
      omega
  · simp
  · simp; omega

end Glb.Tie.TrUnderscore
