/-
  Tie of the TRANSLATED `(*FlagSet).argParse` of `/repo/config/config.go` (Glb/Generated/TrArgs.lean,
  rewritten from the Go source on every run by tools/extract/golean.go) to the hand-written model
  `Glb.ArgParse.argParse` (Glb/Model/ArgParse.lean) that the theorems of Props/C10 are about.
-/
import Glb.Go.Lemmas
import Glb.Generated.TrArgs
import Glb.Model.ArgParse
import Glb.Props.C10

namespace Glb.Tie.TrArgs
open Glb.Go
open Glb.ArgParse (ArgErr St Result Step body scanEq splitEq equals dash trueText stepSpec)
open Glb.ArgvGrammar (breakEq classify classifyBody)

/-! ### rendering of a model result as the translated function's result -/

/-- the `errors.New` message of an error class (byte literals = the string constants of config.go,
    see `msgOf_badSyntax` … below) -/
def msgOf : ArgErr → Bytes
  | .badSyntax tok => ([99, 111, 110, 102, 105, 103, 58, 32, 98, 97, 100, 32, 102, 108, 97, 103, 32, 115, 121, 110, 116, 97, 120, 58, 32] : Bytes) ++ tok
  | .undefined n => ([99, 111, 110, 102, 105, 103, 58, 32, 102, 108, 97, 103, 32, 112, 114, 111, 118, 105, 100, 101, 100, 32, 98, 117, 116, 32, 110, 111, 116, 32, 100, 101, 102, 105, 110, 101, 100, 58, 32] : Bytes) ++ n
  | .needsArg n => ([99, 111, 110, 102, 105, 103, 58, 32, 102, 108, 97, 103, 32, 110, 101, 101, 100, 115, 32, 97, 110, 32, 97, 114, 103, 117, 109, 101, 110, 116, 58, 32] : Bytes) ++ n

theorem msgOf_badSyntax (tok : Bytes) :
    msgOf (.badSyntax tok) = Glb.strBytes "config: bad flag syntax: " ++ tok := by
  have h : Glb.strBytes "config: bad flag syntax: " =
      ([99, 111, 110, 102, 105, 103, 58, 32, 98, 97, 100, 32, 102, 108, 97, 103, 32, 115, 121, 110, 116, 97, 120, 58, 32] : Bytes) := by
    decide +kernel
  rw [h]; rfl

theorem msgOf_undefined (n : Bytes) :
    msgOf (.undefined n) = Glb.strBytes "config: flag provided but not defined: " ++ n := by
  have h : Glb.strBytes "config: flag provided but not defined: " =
      ([99, 111, 110, 102, 105, 103, 58, 32, 102, 108, 97, 103, 32, 112, 114, 111, 118, 105, 100, 101, 100, 32, 98, 117, 116, 32, 110, 111, 116, 32, 100, 101, 102, 105, 110, 101, 100, 58, 32] : Bytes) := by
    decide +kernel
  rw [h]; rfl

theorem msgOf_needsArg (n : Bytes) :
    msgOf (.needsArg n) = Glb.strBytes "config: flag needs an argument: " ++ n := by
  have h : Glb.strBytes "config: flag needs an argument: " =
      ([99, 111, 110, 102, 105, 103, 58, 32, 102, 108, 97, 103, 32, 110, 101, 101, 100, 115, 32, 97, 110, 32, 97, 114, 103, 117, 109, 101, 110, 116, 58, 32] : Bytes) := by
    decide +kernel
  rw [h]; rfl

/-- state of the translated outer loop: `(f.args, assigns)` -/
abbrev LoopSt := List Bytes × List (Bytes × Bytes)
/-- result of the translated function: `(f.args, assigns, err)` -/
abbrev Res := List Bytes × List (Bytes × Bytes) × Option Bytes

/-- a model result as the translated function returns it: final `f.args`, the recorded stores, the
    error (`none` = nil, `some msg` = `errors.New(msg)`) -/
def render : Result → Res
  | .ok s => (s.args, s.assigns, none)
  | .err e s => (s.args, s.assigns, some (msgOf e))

/-- outcome of one model iteration as the outcome of one translated iteration -/
def ctlOf : Step → Ctl LoopSt Res
  | .ret r => .ret (render r)
  | .cont s => .next (s.args, s.assigns)

/-! ### the model's outer loop with the exit state of the translated loop -/

/-- The model's `loop` telling how the translated loop is left: `.inl (args, assigns)` when the
    condition `len(f.args) > 0` fails, `.inr r` for a `return` in the body. -/
def exitLoop (lookup : Bytes → Option Bool) : Nat → St → Except GoPanic (Sum LoopSt Res)
  | 0, _ => .error (.other "fuel")
  | fuel + 1, s =>
    if s.args.length > 0 then do
      match ← body lookup s with
      | .ret r => pure (.inr (render r))
      | .cont s' => exitLoop lookup fuel s'
    else pure (.inl (s.args, s.assigns))

/-- what the code after the translated loop makes of the loop's outcome -/
def finish : Sum LoopSt Res → Res
  | .inl st => (st.1, st.2, none)
  | .inr v => v

theorem exitLoop_loop (lookup : Bytes → Option Bool) : ∀ (fuel : Nat) (s : St),
    (exitLoop lookup fuel s).map finish = (Glb.ArgParse.loop lookup fuel s).map render := by
  intro fuel
  induction fuel with
  | zero => intro s; rfl
  | succ f ih =>
    intro s
    rw [exitLoop, Glb.ArgParse.loop]
    by_cases h : s.args.length > 0
    · simp only [h, if_true, bind, Except.bind]
      cases hb : body lookup s with
      | error e => rfl
      | ok st =>
        cases st with
        | ret r => rfl
        | cont s' => exact ih s'
    · simp only [h, if_false]
      rfl

/-- a continuing iteration consumes at least one token -/
theorem body_cont_lt (lookup : Bytes → Option Bool) (s s' : St)
    (h : body lookup s = .ok (.cont s')) : s'.args.length < s.args.length := by
  obtain ⟨as, args⟩ := s
  cases args with
  | nil => simp [body, Glb.idx?, bind, Except.bind] at h
  | cons tok rest =>
    rw [Glb.ArgParse.body_spec] at h
    injection h with h
    unfold stepSpec at h
    split at h
    · cases h
    · cases h
    · cases h
    · split at h
      · cases h
      · split at h
        · cases h; simp
        · split at h
          · cases h; simp
          · split at h
            · cases h
            · cases h; simp; omega

theorem exitLoop_fuel (lookup : Bytes → Option Bool) : ∀ (f1 f2 : Nat) (s : St),
    s.args.length < f1 → s.args.length < f2 → exitLoop lookup f1 s = exitLoop lookup f2 s := by
  intro f1
  induction f1 with
  | zero => intro f2 s h; omega
  | succ a ih =>
    intro f2 s h1 h2
    obtain ⟨b, rfl⟩ : ∃ b, f2 = b + 1 := ⟨f2 - 1, by omega⟩
    rw [exitLoop, exitLoop]
    by_cases h : s.args.length > 0
    · simp only [h, if_true, bind, Except.bind]
      cases hb : body lookup s with
      | error e => rfl
      | ok st =>
        cases st with
        | ret r => rfl
        | cont s' =>
          have := body_cont_lt lookup s s' hb
          exact ih b s' (by omega) (by omega)
    · simp only [h, if_false]

/-! ### the `=` scan with the exit state of the translated inner loop -/

/-- state of the translated inner loop: `(argValue, name, hasValue, i)` -/
abbrev ScanSt := Bytes × Bytes × Bool × Int

/-- The model's `scanEq` followed by the two slice expressions of `splitEq`, telling the state in
    which the translated `for i := 1; i < len(name); i++` is left. -/
def scanExit {ρ : Type} (name : Bytes) : Nat → Nat → Except GoPanic (Sum ScanSt ρ)
  | 0, _ => .error (.other "fuel")
  | fuel + 1, i =>
    if i < name.length then do
      let c ← Glb.idx? name i
      if c = equals then do
        let v ← Glb.slice? name (i + 1) name.length
        let n ← Glb.slice? name 0 i
        pure (.inl (v, n, true, (i : Int)))
      else scanExit name fuel (i + 1)
    else pure (.inl ([], name, false, (i : Int)))

theorem scanExit_scanEq {ρ : Type} (name : Bytes) : ∀ (fuel i : Nat),
    match scanEq name fuel i with
    | .error e => scanExit (ρ := ρ) name fuel i = .error e
    | .ok none => ∃ j : Int, scanExit (ρ := ρ) name fuel i = .ok (.inl ([], name, false, j))
    | .ok (some k) => scanExit (ρ := ρ) name fuel i =
        (do let v ← Glb.slice? name (k + 1) name.length
            let n ← Glb.slice? name 0 k
            pure (.inl (v, n, true, (k : Int)))) := by
  intro fuel
  induction fuel with
  | zero => intro i; simp only [scanEq, scanExit]
  | succ f ih =>
    intro i
    rw [scanEq, scanExit]
    by_cases h : i < name.length
    · simp only [h, if_true, bind, Except.bind]
      cases hc : Glb.idx? name i with
      | error e => simp only
      | ok c =>
        simp only
        by_cases he : c = equals
        · simp only [he, if_true, pure, Except.pure]
        · simp only [he, if_false]
          exact ih (i + 1)
    · simp only [h, if_false, pure, Except.pure]
      exact ⟨_, rfl⟩

/-- the translated scan of a non-empty name ends in the state the model's `splitEq` describes -/
theorem scanExit_cons {ρ : Type} (b : UInt8) (t : Bytes) :
    ∃ j : Int, scanExit (ρ := ρ) (b :: t) ((b :: t).length + 1) 1 =
      .ok (.inl (match (breakEq t).2 with
                 | none => ([], b :: (breakEq t).1, false, j)
                 | some v => (v, b :: (breakEq t).1, true, j))) := by
  have hs := Glb.ArgParse.splitEq_spec b t
  have hx := scanExit_scanEq (ρ := ρ) (b :: t) ((b :: t).length + 1) 1
  unfold splitEq at hs
  cases hq : scanEq (b :: t) ((b :: t).length + 1) 1 with
  | error e => rw [hq] at hs; simp [bind, Except.bind] at hs
  | ok o =>
    rw [hq] at hs hx
    cases o with
    | none =>
      simp only [bind, Except.bind, pure, Except.pure] at hs
      injection hs with hs
      injection hs with h1 h2
      obtain ⟨j, hx⟩ := hx
      refine ⟨j, ?_⟩
      rw [hx, ← h2, ← h1]
    | some k =>
      simp only [bind, Except.bind, pure, Except.pure] at hs hx
      refine ⟨(k : Int), ?_⟩
      rw [hx]
      cases hv : Glb.slice? (b :: t) (k + 1) (b :: t).length with
      | error e => rw [hv] at hs; simp at hs
      | ok v =>
        rw [hv] at hs
        simp only at hs ⊢
        cases hn : Glb.slice? (b :: t) 0 k with
        | error e => rw [hn] at hs; simp at hs
        | ok n =>
          rw [hn] at hs
          simp only at hs ⊢
          injection hs with hs
          injection hs with h1 h2
          rw [← h2, ← h1]

/-! ### helpers for translated code -/

theorem idx_zero {α} (s : List α) : Glb.Go.idx s (0 : Nat) = Glb.idx? s 0 := by
  simp [Glb.Go.idx, ToInt.toInt, idxI]

theorem sliceFrom_one {α} (s : List α) : sliceFrom s 1 = Glb.slice? s 1 s.length := by
  simp [sliceFrom, slice, len]

theorem slice_zero {α} (s : List α) (k : Nat) : slice s 0 (k : Int) = Glb.slice? s 0 k := by
  simp [slice]

/-- `StepOK` for a state in which the condition holds and the body does not panic -/
theorem stepOK_body {σ ρ} {cond : σ → M Bool} {body : σ → M (Ctl σ ρ)} {post : σ → M σ}
    {Inv : σ → Prop} {measure : σ → Nat} {model : σ → M (Sum σ ρ)} (st : σ) (c : Ctl σ ρ)
    (hc : cond st = .ok true) (hb : body st = .ok c)
    (h : match (generalizing := false) c with
         | .ret r => model st = .ok (.inr r)
         | .brk s => model st = .ok (.inl s)
         | .next s =>
           match post s with
           | .error e => model st = .error e
           | .ok s' => Inv s' ∧ measure s' < measure st ∧ model st = model s') :
    StepOK cond body post Inv measure model st := by
  unfold StepOK
  rw [hc]
  simp only
  rw [hb]
  cases c <;> exact h

/-! ### the translated inner loop -/

def ScanInv (nm : Bytes) (st : ScanSt) : Prop :=
  st.1 = [] ∧ st.2.1 = nm ∧ st.2.2.1 = false ∧ 0 ≤ st.2.2.2 ∧ st.2.2.2 ≤ (nm.length : Int) + 1

def scanMeasure (nm : Bytes) (st : ScanSt) : Nat := ((nm.length : Int) + 1 - st.2.2.2).toNat

def scanModel {ρ : Type} (nm : Bytes) (st : ScanSt) : M (Sum ScanSt ρ) :=
  scanExit nm ((nm.length : Int) + 2 - st.2.2.2).toNat st.2.2.2.toNat

/-- the loop rule instantiated for the `=` scan: whatever the generated condition / body / post
    lambdas are, if one evaluation of them agrees with `scanExit` (`scan_step` proves this for the
    lambdas found in the goal), the whole loop is `scanExit` with the fuel of the model's `splitEq` -/
theorem scan_loop_eq {ρ : Type} {C : ScanSt → M Bool} {B : ScanSt → M (Ctl ScanSt ρ)}
    {P : ScanSt → M ScanSt} (nm : Bytes)
    (hstep : ∀ nm st, ScanInv nm st → StepOK C B P (ScanInv nm) (scanMeasure nm) (scanModel nm) st) :
    loop ([], nm, false, 1) ((nm.length : Int) - 1 + 2).toNat C B P = scanExit nm (nm.length + 1) 1 := by
  rw [loop_eq (ScanInv nm) (scanMeasure nm) (scanModel nm) (hstep nm)]
  · simp only [scanModel]
    have h1 : ((nm.length : Int) + 2 - 1).toNat = nm.length + 1 := by omega
    have h2 : (1 : Int).toNat = 1 := rfl
    rw [h1, h2]
  · refine ⟨rfl, rfl, rfl, ?_, ?_⟩ <;> dsimp only <;> omega
  · simp only [scanMeasure]; omega

-- one evaluation of the translated `=` scan (for the lambdas found in the goal)
set_option hygiene false in
local macro "scan_step" : tactic => `(tactic| (
  intro nm ⟨av, n, hv, i⟩ ⟨h1, h2, h3, h0, hle⟩
  dsimp only at h1 h2 h3 h0 hle
  subst h2
  subst h1 h3
  obtain ⟨k, rfl⟩ : ∃ k : Nat, i = k := ⟨i.toNat, by omega⟩
  simp only [StepOK, scanModel, scanMeasure, ScanInv, idx_int, idxI_nat, Int.toNat_natCast]
  by_cases hlt : k < (List.length n)
  · have hlt' : (k : Int) < (List.length n : Int) := by omega
    have hf : ((List.length n : Int) + 2 - k).toNat = ((List.length n) - k + 1) + 1 := by omega
    have hk1 : (k : Int) + 1 = ((k + 1 : Nat) : Int) := by omega
    rw [hf, scanExit]
    simp only [hlt, hlt', decide_true, if_true, hk1, sliceFrom_nat, slice_zero, bind, Except.bind]
    cases hc : Glb.idx? n k with
    | error e => simp only
    | ok c =>
      simp only
      by_cases he : c = equals
      · subst he
        have he' : (equals == 61) = true := by decide
        simp only [he', if_true]
        cases Glb.slice? n (k + 1) (List.length n) with
        | error e => simp only
        | ok v => cases Glb.slice? n 0 k <;> simp only [pure, Except.pure]
      · have he' : (c == 61) = false := by
          simp only [beq_eq_false_iff_ne, ne_eq]; exact he
        simp only [he', he, if_false, Bool.false_eq_true]
        refine ⟨⟨trivial, trivial, trivial, by omega, by omega⟩, by omega, ?_⟩
        have e1 : ((List.length n : Int) + 2 - ((k : Int) + 1)).toNat = (List.length n) - k + 1 := by omega
        have e2 : ((k : Int) + 1).toNat = k + 1 := by omega
        rw [e1, e2]
  · have hlt' : ¬ (k : Int) < (List.length n : Int) := by omega
    have hf : ((List.length n : Int) + 2 - k).toNat = ((List.length n) + 1 - k) + 1 := by omega
    rw [hf, scanExit]
    simp only [hlt, hlt', decide_false, if_false, pure, Except.pure]))

-- The iteration from the `=` scan on, for a name `b :: t` whose first byte is not '-' (`hb`), in a
-- token `tok` with `hcl : classify tok = classifyBody (b :: t)`; the goal starts at the test
-- `name[0] == '='` of the translated body.
set_option hygiene false in
local macro "flag_tail" : tactic => `(tactic| (
  rw [scan_loop_eq (b :: t) (by scan_step)]
  obtain ⟨j, hj⟩ := scanExit_cons (ρ := Res) b t
  rw [hj]
  have hrest0 : ∀ (v : Bytes) (r : List Bytes), Glb.Go.idx (v :: r) (0 : Nat) = .ok v :=
    fun _ _ => rfl
  have hrest1 : ∀ (v : Bytes) (r : List Bytes), sliceFrom (v :: r) 1 = .ok r := by
    intro v r; simp [sliceFrom_one, Glb.slice?]
  by_cases hbe : b = equals
  · subst hbe
    have hb61 : (equals == 61) = true := by decide
    simp [hb61, stepSpec, hcl, classifyBody, ctlOf, render, msgOf]
  · have hb61 : (b == 61) = false := by
      simp only [beq_eq_false_iff_ne, ne_eq]; exact hbe
    simp only [hb61, Bool.false_eq_true, if_false]
    cases hl : lookup (b :: (breakEq t).1) with
    | none =>
      cases hv : (breakEq t).2 <;>
        simp [hl, hv, stepSpec, hcl, classifyBody, ctlOf, render, msgOf, hb, hbe]
    | some isBool =>
      cases hv : (breakEq t).2 with
      | some v =>
        simp [hl, hv, stepSpec, hcl, classifyBody, ctlOf, hb, hbe]
      | none =>
        cases isBool with
        | true =>
          simp [hl, hv, stepSpec, hcl, classifyBody, ctlOf, hb, hbe, trueText]
        | false =>
          cases rest with
          | nil =>
            simp [hl, hv, stepSpec, hcl, classifyBody, ctlOf, render, msgOf, hb, hbe]
          | cons v r =>
            simp [hl, hv, stepSpec, hcl, classifyBody, ctlOf, hb, hbe, hrest0, hrest1]))

/-! ### the tie -/

theorem argParse_exit (lookup : Bytes → Option Bool) (args : List Bytes) (assigns : List (Bytes × Bytes)) :
    Glb.Tr.Config.argParse lookup args assigns
      = (exitLoop lookup (args.length + 1) ⟨assigns, args⟩).map finish := by
  unfold Glb.Tr.Config.argParse
  dsimp only
  rw [loop_eq (σ := LoopSt) (ρ := Res)
    (Inv := fun _ => True)
    (measure := fun st => st.1.length)
    (model := fun st => exitLoop lookup (st.1.length + 1) ⟨st.2, st.1⟩)]
  · -- the code after the loop
    dsimp only
    cases exitLoop lookup (args.length + 1) ⟨assigns, args⟩ with
    | error e => rfl
    | ok x => cases x <;> rfl
  · -- one evaluation of the outer loop
    intro ⟨args, as⟩ _
    cases args with
    | nil => simp [StepOK, exitLoop, pure, Except.pure]
    | cons tok rest =>
      refine stepOK_body _ (ctlOf (stepSpec lookup as tok rest)) ?_ ?_ ?_
      · simp [pure, Except.pure]
      · dsimp only
        have hargs : Glb.Go.idx (tok :: rest) (0 : Nat) = .ok tok := rfl
        have hrest : sliceFrom (tok :: rest) 1 = .ok rest := by
          simp [sliceFrom_one, Glb.slice?]
        match tok with
        | [] =>
          simp [hargs, stepSpec, classify, ctlOf, render, bind, Except.bind, pure, Except.pure]
        | [a] =>
          simp [hargs, stepSpec, classify, ctlOf, render, bind, Except.bind, pure, Except.pure]
        | c :: b :: t =>
          have hlen : ¬ (((t.length + 1 + 1 : Nat) : Int) < 2) := by omega
          have hc0 : Glb.Go.idx (c :: b :: t) (0 : Nat) = .ok c := rfl
          simp only [hargs, hrest, len_eq, List.length_cons, hlen, hc0, bind, Except.bind, pure, Except.pure,
            decide_false, Bool.false_eq_true, if_false]
          by_cases hc : c = dash
          · subst hc
            have hd1 : sliceFrom (dash :: b :: t) 1 = .ok (b :: t) := by
              simp [sliceFrom_one, Glb.slice?]
            have hd0 : Glb.Go.idx (b :: t) (0 : Nat) = .ok b := rfl
            have h45 : (dash != 45) = false := by decide
            simp only [h45, Bool.false_eq_true, if_false, hd1, hd0]
            by_cases hb : b = dash
            · -- "--…"
              subst hb
              have hd45 : (dash == 45) = true := by decide
              simp only [hd45, if_true]
              cases t with
              | nil =>
                simp [stepSpec, classify, ctlOf, render]
              | cons b t =>
                have hl1 : ((((dash :: b :: t).length : Nat) : Int) == 1) = false := by
                  simp only [beq_eq_false_iff_ne, ne_eq, List.length_cons]; omega
                have hs : sliceFrom (dash :: b :: t) 1 = .ok (b :: t) := by
                  simp [sliceFrom_one, Glb.slice?]
                have hl0 : ((((b :: t).length : Nat) : Int) == 0) = false := by
                  simp only [beq_eq_false_iff_ne, ne_eq, List.length_cons]; omega
                have hb0 : Glb.Go.idx (b :: t) (0 : Nat) = .ok b := rfl
                simp only [hl1, hs, hl0, hb0, Bool.false_eq_true, if_false]
                by_cases hb : b = dash
                · subst hb
                  simp [hd45, stepSpec, classify, classifyBody, ctlOf, render, msgOf]
                · have hb45 : (b == 45) = false := by
                    simp only [beq_eq_false_iff_ne, ne_eq]; exact hb
                  have hcl : classify (dash :: dash :: b :: t) = classifyBody (b :: t) := by
                    simp [classify]
                  simp only [hb45, Bool.false_eq_true, if_false]
                  flag_tail
            · -- "-…"
              have hb45 : (b == 45) = false := by
                simp only [beq_eq_false_iff_ne, ne_eq]; exact hb
              have hl0 : ((((b :: t).length : Nat) : Int) == 0) = false := by
                simp only [beq_eq_false_iff_ne, ne_eq, List.length_cons]; omega
              have hcl : classify (dash :: b :: t) = classifyBody (b :: t) := by
                simp [classify, hb]
              simp only [hb45, hl0, Bool.false_eq_true, if_false]
              flag_tail
          · have h45 : (c != 45) = true := by
              simp only [bne_iff_ne, ne_eq]; exact hc
            simp [h45, stepSpec, classify, ctlOf, render, hc]
      · -- the model side of the same iteration
        dsimp only
        have hm : exitLoop lookup ((tok :: rest).length + 1) ⟨as, tok :: rest⟩ =
            match stepSpec lookup as tok rest with
            | .ret r => .ok (.inr (render r))
            | .cont s' => exitLoop lookup (rest.length + 1) s' := by
          rw [List.length_cons, exitLoop]
          simp only [List.length_cons, Nat.zero_lt_succ, if_true, Glb.ArgParse.body_spec, bind,
            Except.bind, gt_iff_lt]
          cases stepSpec lookup as tok rest <;> rfl
        rw [hm]
        have hlt := body_cont_lt lookup ⟨as, tok :: rest⟩
        rw [Glb.ArgParse.body_spec] at hlt
        cases hsp : stepSpec lookup as tok rest with
        | ret r => simp only [ctlOf]
        | cont s' =>
          have hlt' := hlt s' (by rw [hsp])
          simp only [ctlOf, pure, Except.pure, true_and]
          refine ⟨hlt', ?_⟩
          exact exitLoop_fuel lookup _ _ s' (by simpa using hlt') (by omega)
  · trivial
  · simp only [len_eq]; omega

/-- `(*FlagSet).argParse` of config/config.go, as translated, started with `f.args = args` and the
    stores `assigns` already recorded, is the model's loop from that state (with the fuel the model
    gives itself), rendered as `(f.args, stores, error)`.  Panics included: both sides perform the
    same index / slice expressions with the same helpers (and, by `never_panics`, none fails). -/
theorem argParse_loop_eq (lookup : Bytes → Option Bool) (args : List Bytes) (assigns : List (Bytes × Bytes)) :
    Glb.Tr.Config.argParse lookup args assigns
      = (Glb.ArgParse.loop lookup (args.length + 1) ⟨assigns, args⟩).map render := by
  rw [argParse_exit, exitLoop_loop]

/-- The translated command-line scanner equals the hand model the C10 theorems are about, for every
    flag table and every argument vector (full equality in `Except GoPanic`, payloads included). -/
theorem argParse_eq (lookup : Bytes → Option Bool) (argv : List Bytes) :
    Glb.Tr.Config.argParse lookup argv [] = (Glb.ArgParse.argParse lookup argv).map render := by
  rw [argParse_loop_eq]
  rfl

/-! ### the C10 theorems, restated about the translated code -/

/-- no index or slice expression of the translated `argParse` panics, and its loops never run out
    of the fuel the translator gave them -/
theorem argParse_translated_never_panics (lookup : Bytes → Option Bool) (argv : List Bytes) :
    ∃ r, Glb.Tr.Config.argParse lookup argv [] = .ok r := by
  obtain ⟨r, h⟩ := Glb.C10.never_panics lookup argv
  exact ⟨render r, by rw [argParse_eq, h]; rfl⟩

/-- the `f.args` the translated code leaves behind (also after an error) is a suffix of argv -/
theorem argParse_translated_args_suffix (lookup : Bytes → Option Bool) (argv : List Bytes)
    (r : Res) (h : Glb.Tr.Config.argParse lookup argv [] = .ok r) : r.1 <:+ argv := by
  obtain ⟨m, hm⟩ := Glb.C10.never_panics lookup argv
  have hs := Glb.C10.args_is_suffix lookup argv m hm
  rw [argParse_eq, hm] at h
  injection h with h
  subst h
  cases m <;> exact hs

/-- the translated code returns exactly what the documented grammar (`ArgvGrammar.parse`) says:
    `nil` with the same stores and remaining arguments, or the error message of the same class -/
theorem argParse_translated_refines_grammar (lookup : Bytes → Option Bool) (argv : List Bytes) :
    ∃ r : Res, Glb.Tr.Config.argParse lookup argv [] = .ok r ∧
      match Glb.ArgvGrammar.parse lookup argv with
      | .ok as rest => r = (rest, as, none)
      | .err e => r.2.2 = some (msgOf e) := by
  obtain ⟨m, hm, hspec⟩ := Glb.C10.argParse_refines_grammar lookup argv
  refine ⟨render m, by rw [argParse_eq, hm]; rfl, ?_⟩
  rw [← hspec]
  cases m <;> rfl

/-- the translated code returns `nil` exactly on the vectors the grammar accepts -/
theorem argParse_translated_success_exactly (lookup : Bytes → Option Bool) (argv : List Bytes)
    (as : List (Bytes × Bytes)) (rest : List Bytes) :
    Glb.Tr.Config.argParse lookup argv [] = .ok (rest, as, none) ↔
      ∃ pre tail, argv = pre ++ tail ∧ Glb.ArgvGrammar.WellFormed lookup pre as ∧
        Glb.ArgvGrammar.Ends tail rest := by
  rw [← Glb.C10.success_exactly, argParse_eq]
  obtain ⟨m, hm⟩ := Glb.C10.never_panics lookup argv
  rw [hm]
  cases m with
  | ok s =>
    obtain ⟨a, b⟩ := s
    simp [Except.map, render]
    constructor
    · rintro ⟨rfl, rfl⟩; exact ⟨rfl, rfl⟩
    · rintro ⟨rfl, rfl⟩; exact ⟨rfl, rfl⟩
  | err e s => simp [Except.map, render]

/-- the three messages are pairwise distinct and determine the offending token / name -/
theorem msgOf_injective (e e' : ArgErr) (h : msgOf e = msgOf e') : e = e' := by
  cases e <;> cases e' <;> simp [msgOf] at h <;> simp [h]

/-- the translated code fails with the message of class `e` exactly when, after a well-formed
    prefix, the next token is the violation `e` (C10 `errors_exactly`) -/
theorem argParse_translated_errors_exactly (lookup : Bytes → Option Bool) (argv : List Bytes) (e : ArgErr) :
    (∃ args as, Glb.Tr.Config.argParse lookup argv [] = .ok (args, as, some (msgOf e))) ↔
      ∃ pre as tok rest, argv = pre ++ tok :: rest ∧ Glb.ArgvGrammar.WellFormed lookup pre as ∧
        Glb.ArgvGrammar.Offends lookup tok rest e := by
  rw [← Glb.C10.errors_exactly, argParse_eq]
  obtain ⟨m, hm⟩ := Glb.C10.never_panics lookup argv
  rw [hm]
  cases m with
  | ok s => simp [Except.map, render]
  | err e' s =>
    simp only [Except.map, render, Except.ok.injEq, Prod.mk.injEq, Option.some.injEq, Result.err.injEq]
    constructor
    · rintro ⟨_, _, _, _, h⟩
      exact ⟨s, msgOf_injective _ _ h, rfl⟩
    · rintro ⟨_, rfl, rfl⟩
      exact ⟨_, _, rfl, rfl, rfl⟩

end Glb.Tie.TrArgs
