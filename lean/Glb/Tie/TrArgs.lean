/-
  Tie of the TRANSLATED `(*FlagSet).argParse` of `/repo/config/config.go` (Glb/Generated/TrArgs.lean,
  rewritten from the Go source on every run by tools/extract/golean.go) to the hand-written model
  `Glb.ArgParse.argParse` (Glb/Model/ArgParse.lean) that the theorems of Props/C10 are about.
-/
import Glb.Go.Lemmas
import Glb.Generated.TrArgs
import Glb.Model.ArgParse
import Glb.Props.C10

namespace Glb.Tie.TrArgs
open Glb.Go
open Glb.ArgParse (ArgErr St Result Step body scanEq splitEq equals dash trueText stepSpec)
open Glb.ArgvGrammar (breakEq classify classifyBody)

/-! ### rendering of a model result as the translated function's result -/

/-- the `errors.New` message of an error class (byte literals = the string constants of config.go,
    see `msgOf_badSyntax` … below) -/
def msgOf : ArgErr → Bytes
  | .badSyntax tok => ([99, 111, 110, 102, 105, 103, 58, 32, 98, 97, 100, 32, 102, 108, 97, 103, 32, 115, 121, 110, 116, 97, 120, 58, 32] : Bytes) ++ tok
  | .undefined n => ([99, 111, 110, 102, 105, 103, 58, 32, 102, 108, 97, 103, 32, 112, 114, 111, 118, 105, 100, 101, 100, 32, 98, 117, 116, 32, 110, 111, 116, 32, 100, 101, 102, 105, 110, 101, 100, 58, 32] : Bytes) ++ n
  | .needsArg n => ([99, 111, 110, 102, 105, 103, 58, 32, 102, 108, 97, 103, 32, 110, 101, 101, 100, 115, 32, 97, 110, 32, 97, 114, 103, 117, 109, 101, 110, 116, 58, 32] : Bytes) ++ n

theorem msgOf_badSyntax (tok : Bytes) :
    msgOf (.badSyntax tok) = Glb.strBytes "config: bad flag syntax: " ++ tok := by
  have h : Glb.strBytes "config: bad flag syntax: " =
      ([99, 111, 110, 102, 105, 103, 58, 32, 98, 97, 100, 32, 102, 108, 97, 103, 32, 115, 121, 110, 116, 97, 120, 58, 32] : Bytes) := by
    decide +kernel
  rw [h]; rfl

theorem msgOf_undefined (n : Bytes) :
    msgOf (.undefined n) = Glb.strBytes "config: flag provided but not defined: " ++ n := by
  have h : Glb.strBytes "config: flag provided but not defined: " =
      ([99, 111, 110, 102, 105, 103, 58, 32, 102, 108, 97, 103, 32, 112, 114, 111, 118, 105, 100, 101, 100, 32, 98, 117, 116, 32, 110, 111, 116, 32, 100, 101, 102, 105, 110, 101, 100, 58, 32] : Bytes) := by
    decide +kernel
  rw [h]; rfl

theorem msgOf_needsArg (n : Bytes) :
    msgOf (.needsArg n) = Glb.strBytes "config: flag needs an argument: " ++ n := by
  have h : Glb.strBytes "config: flag needs an argument: " =
      ([99, 111, 110, 102, 105, 103, 58, 32, 102, 108, 97, 103, 32, 110, 101, 101, 100, 115, 32, 97, 110, 32, 97, 114, 103, 117, 109, 101, 110, 116, 58, 32] : Bytes) := by
    decide +kernel
  rw [h]; rfl

/-- state of the translated outer loop: `(f.args, assigns)` -/
abbrev LoopSt := List Bytes × List (Bytes × Bytes)
/-- result of the translated function: `(f.args, assigns, err)` -/
abbrev Res := List Bytes × List (Bytes × Bytes) × Option Bytes

/-- a model result as the translated function returns it: final `f.args`, the recorded stores, the
    error (`none` = nil, `some msg` = `errors.New(msg)`) -/
def render : Result → Res
  | .ok s => (s.args, s.assigns, none)
  | .err e s => (s.args, s.assigns, some (msgOf e))

/-- outcome of one model iteration as the outcome of one translated iteration -/
def ctlOf : Step → Ctl LoopSt Res
  | .ret r => .ret (render r)
  | .cont s => .next (s.args, s.assigns)

/-! ### the model's outer loop with the exit state of the translated loop -/

/-- The model's `loop` telling how the translated loop is left: `.inl (args, assigns)` when the
    condition `len(f.args) > 0` fails, `.inr r` for a `return` in the body. -/
def exitLoop (lookup : Bytes → Option Bool) : Nat → St → Except GoPanic (Sum LoopSt Res)
  | 0, _ => .error (.other "fuel")
  | fuel + 1, s =>
    if s.args.length > 0 then do
      match ← body lookup s with
      | .ret r => pure (.inr (render r))
      | .cont s' => exitLoop lookup fuel s'
    else pure (.inl (s.args, s.assigns))

/-- what the code after the translated loop makes of the loop's outcome -/
def finish : Sum LoopSt Res → Res
  | .inl st => (st.1, st.2, none)
  | .inr v => v

theorem exitLoop_loop (lookup : Bytes → Option Bool) : ∀ (fuel : Nat) (s : St),
    (exitLoop lookup fuel s).map finish = (Glb.ArgParse.loop lookup fuel s).map render := by
  intro fuel
  induction fuel with
  | zero => intro s; rfl
  | succ f ih =>
    intro s
    rw [exitLoop, Glb.ArgParse.loop]
    by_cases h : s.args.length > 0
    · simp only [h, if_true, bind, Except.bind]
      cases hb : body lookup s with
      | error e => rfl
      | ok st =>
        cases st with
        | ret r => rfl
        | cont s' => exact ih s'
    · simp only [h, if_false]
      rfl

/-- a continuing iteration consumes at least one token -/
theorem body_cont_lt (lookup : Bytes → Option Bool) (s s' : St)
    (h : body lookup s = .ok (.cont s')) : s'.args.length < s.args.length := by
  obtain ⟨as, args⟩ := s
  cases args with
  | nil => simp [body, Glb.idx?, bind, Except.bind] at h
  | cons tok rest =>
    rw [Glb.ArgParse.body_spec] at h
    injection h with h
    unfold stepSpec at h
    split at h
    · cases h
    · cases h
    · cases h
    · split at h
      · cases h
      · split at h
        · cases h; simp
        · split at h
          · cases h; simp
          · split at h
            · cases h
            · cases h; simp; omega

theorem exitLoop_fuel (lookup : Bytes → Option Bool) : ∀ (f1 f2 : Nat) (s : St),
    s.args.length < f1 → s.args.length < f2 → exitLoop lookup f1 s = exitLoop lookup f2 s := by
  intro f1
  induction f1 with
  | zero => intro f2 s h; omega
  | succ a ih =>
    intro f2 s h1 h2
    obtain ⟨b, rfl⟩ : ∃ b, f2 = b + 1 := ⟨f2 - 1, by omega⟩
    rw [exitLoop, exitLoop]
    by_cases h : s.args.length > 0
    · simp only [h, if_true, bind, Except.bind]
      cases hb : body lookup s with
      | error e => rfl
      | ok st =>
        cases st with
        | ret r => rfl
        | cont s' =>
          have := body_cont_lt lookup s s' hb
          exact ih b s' (by omega) (by omega)
    · simp only [h, if_false]

/-! ### the `=` scan with the exit state of the translated inner loop -/

/-- state of the translated inner loop: `(argValue, name, hasValue, i)` -/
abbrev ScanSt := Bytes × Bytes × Bool × Int

/-- The model's `scanEq` followed by the two slice expressions of `splitEq`, telling the state in
    which the translated `for i := 1; i < len(name); i++` is left. -/
def scanExit {ρ : Type} (name : Bytes) : Nat → Nat → Except GoPanic (Sum ScanSt ρ)
  | 0, _ => .error (.other "fuel")
  | fuel + 1, i =>
    if i < name.length then do
      let c ← Glb.idx? name i
      if c = equals then do
        let v ← Glb.slice? name (i + 1) name.length
        let n ← Glb.slice? name 0 i
        pure (.inl (v, n, true, (i : Int)))
      else scanExit name fuel (i + 1)
    else pure (.inl ([], name, false, (i : Int)))

theorem scanExit_scanEq {ρ : Type} (name : Bytes) : ∀ (fuel i : Nat),
    match scanEq name fuel i with
    | .error e => scanExit (ρ := ρ) name fuel i = .error e
    | .ok none => ∃ j : Int, scanExit (ρ := ρ) name fuel i = .ok (.inl ([], name, false, j))
    | .ok (some k) => scanExit (ρ := ρ) name fuel i =
        (do let v ← Glb.slice? name (k + 1) name.length
            let n ← Glb.slice? name 0 k
            pure (.inl (v, n, true, (k : Int)))) := by
  intro fuel
  induction fuel with
  | zero => intro i; simp only [scanEq, scanExit]
  | succ f ih =>
    intro i
    rw [scanEq, scanExit]
    by_cases h : i < name.length
    · simp only [h, if_true, bind, Except.bind]
      cases hc : Glb.idx? name i with
      | error e => simp only
      | ok c =>
        simp only
        by_cases he : c = equals
        · simp only [he, if_true, pure, Except.pure]
        · simp only [he, if_false]
          exact ih (i + 1)
    · simp only [h, if_false, pure, Except.pure]
      exact ⟨_, rfl⟩

/-- the translated scan of a non-empty name ends in the state the model's `splitEq` describes -/
theorem scanExit_cons {ρ : Type} (b : UInt8) (t : Bytes) :
    ∃ j : Int, scanExit (ρ := ρ) (b :: t) ((b :: t).length + 1) 1 =
      .ok (.inl (match (breakEq t).2 with
                 | none => ([], b :: (breakEq t).1, false, j)
                 | some v => (v, b :: (breakEq t).1, true, j))) := by
  have hs := Glb.ArgParse.splitEq_spec b t
  have hx := scanExit_scanEq (ρ := ρ) (b :: t) ((b :: t).length + 1) 1
  unfold splitEq at hs
  cases hq : scanEq (b :: t) ((b :: t).length + 1) 1 with
  | error e => rw [hq] at hs; simp [bind, Except.bind] at hs
  | ok o =>
    rw [hq] at hs hx
    cases o with
    | none =>
      simp only [bind, Except.bind, pure, Except.pure] at hs
      injection hs with hs
      injection hs with h1 h2
      obtain ⟨j, hx⟩ := hx
      refine ⟨j, ?_⟩
      rw [hx, ← h2, ← h1]
    | some k =>
      simp only [bind, Except.bind, pure, Except.pure] at hs hx
      refine ⟨(k : Int), ?_⟩
      rw [hx]
      cases hv : Glb.slice? (b :: t) (k + 1) (b :: t).length with
      | error e => rw [hv] at hs; simp at hs
      | ok v =>
        rw [hv] at hs
        simp only at hs ⊢
        cases hn : Glb.slice? (b :: t) 0 k with
        | error e => rw [hn] at hs; simp at hs
        | ok n =>
          rw [hn] at hs
          simp only at hs ⊢
          injection hs with hs
          injection hs with h1 h2
          rw [← h2, ← h1]

/-! ### helpers for translated code -/

theorem idx_zero {α} (s : List α) : Glb.Go.idx s (0 : Nat) = Glb.idx? s 0 := by
  simp [Glb.Go.idx, ToInt.toInt, idxI]

theorem sliceFrom_one {α} (s : List α) : sliceFrom s 1 = Glb.slice? s 1 s.length := by
  simp [sliceFrom, slice, len]

theorem slice_zero {α} (s : List α) (k : Nat) : slice s 0 (k : Int) = Glb.slice? s 0 k := by
  simp [slice]

/-- `StepOK` for a state in which the condition holds and the body does not panic -/
theorem stepOK_body {σ ρ} {cond : σ → M Bool} {body : σ → M (Ctl σ ρ)} {post : σ → M σ}
    {Inv : σ → Prop} {measure : σ → Nat} {model : σ → M (Sum σ ρ)} (st : σ) (c : Ctl σ ρ)
    (hc : cond st = .ok true) (hb : body st = .ok c)
    (h : match c with
         | .ret r => model st = .ok (.inr r)
         | .brk s => model st = .ok (.inl s)
         | .next s =>
           match post s with
           | .error e => model st = .error e
           | .ok s' => Inv s' ∧ measure s' < measure st ∧ model st = model s') :
    StepOK cond body post Inv measure model st := by
  unfold StepOK
  rw [hc]
  simp only
  rw [hb]
  cases c <;> exact h

end Glb.Tie.TrArgs
