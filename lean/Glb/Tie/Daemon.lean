/-
  Regenerated tie for C20: what `tools/extract` read from /repo/daemon/daemon.go satisfies the
  ordering facts `launch_ok` rests on.  Re-proved by `decide` on every run.
-/
import Glb.Generated.StatusDaemon
import Glb.Proofs.Daemon

namespace Glb.Tie.Daemon
open Glb.Daemon Glb.Generated

def before (l : List String) (a b : String) : Bool :=
  match l.idxOf? a, l.idxOf? b with
  | some i, some j => i < j
  | _, _ => false

/-- `signal.Notify` precedes `cmd.Start()` in `launch` (the repair of F7) -/
theorem notify_before_start : before launchOrder "notify" "start" = true := by decide

/-- the whole order is one `launch_ok` applies to — also with the `verifPause` hook after Start -/
theorem order_now_good : GoodOrder orderNow := by decide
theorem order_now_paused_good : GoodOrder (withPause orderNow) := by decide

/-- no step the extractor could not classify -/
theorem order_fully_classified : orderNow.all (fun s => s != .other) = true := by decide

/-- the final select waits for exactly the daemon's exit and the signal (two cases with empty
    bodies — a case with a body is listed as a third entry), without default -/
theorem select_cases :
    "finished" ∈ launchSelect ∧ "interrupt" ∈ launchSelect ∧ "default" ∉ launchSelect
    ∧ launchSelect.length = 2 := by decide

/-- the signal `Done()` sends to its parent is the one the launcher listens for -/
theorem done_signals_parent :
    "find:os.Getppid()" ∈ doneEvents ∧ ("signal:" ++ launchNotifySignal) ∈ doneEvents := by decide

/-- `Launch` captures stdout and stderr, reads stdout only after `cmd.Run()` has returned, and
    treats non-empty stderr as failure before looking at stdout -/
theorem caller_reads_after_run :
    before callerEvents "captureStdout" "run" = true
    ∧ before callerEvents "captureStderr" "run" = true
    ∧ before callerEvents "run" "checkStderr" = true
    ∧ before callerEvents "checkStderr" "readStdout" = true
    ∧ "stderrIsError" ∈ callerEvents
    ∧ callerEvents.count "run" = 1
    ∧ (∀ e ∈ ["other:cmd.Start", "other:cmd.Wait", "other:cmd.Output", "other:cmd.CombinedOutput"],
        e ∉ callerEvents) := by decide

/-- the launcher reports a failed start and a failed wait on stderr -/
theorem launcher_reports_on_stderr : "launch" ∈ launchStderr ∧ "waiter" ∈ launchStderr := by decide

/-- the extractor of this area recognised the source as it is on this run (a refusal removes `ok`) -/
theorem extractor_ok : Glb.Generated.StatusDaemon.ok = () := rfl

end Glb.Tie.Daemon
