/-
  Regenerated tie for C09: what tools/extract read from /repo/config/config.go IS what the model
  and the theorems assume.  Re-proved by `decide` on every run.  (`Glb.Model.Config.parse`
  interprets `Generated.parseSteps` itself, so the theorems of Props/C09 are about the extracted
  order; these lemmas make a change visible as a named failure rather than as a broken proof.)
-/
import Glb.Generated.StatusConfig
import Glb.Model.Config

namespace Glb.Tie.Config
open Glb.Config

/-- Parse = argParse; envParse; Set(config path) from the command line only; parseConfigJson;
    then per flag: ArgValue tested before EnvValue. -/
theorem parse_steps :
    Generated.parseSteps =
      [.argParse, .envParse, .setConfigPathFromArg, .parseConfigJson, .flagLoop [.arg, .env]] := by decide

/-- no statement of Parse was left uninterpreted by the extractor -/
theorem no_unknown_step :
    Generated.parseSteps.all (fun st => match st with | .unknown _ => false | _ => true) = true := by decide

/-- "CFG_" -/
theorem env_key_prefix : Generated.envKeyPrefix = [0x43, 0x46, 0x47, 0x5f] := by decide

/-- "CFG_CONFIG_B64" -/
theorem b64_config_env :
    Generated.b64ConfigEnv = [0x43, 0x46, 0x47, 0x5f, 0x43, 0x4f, 0x4e, 0x46, 0x49, 0x47, 0x5f, 0x42, 0x36, 0x34] := by
  decide

/-- the built-in flags are called "help" and "config", as in the model -/
theorem builtin_names :
    Generated.flagNameShowUsage = helpName ∧ Generated.flagNameConfigPath = configName := by decide

/-- `Env: strutil.Underscore(f.envKeyPrefix+group+field.Name, true)`, nested structs recurse with
    `group+field.Name+"_"`, and parseConfigJson tries the `-config` path, then CFG_CONFIG_B64 -/
theorem source_shapes :
    Generated.envExprOK = true ∧ Generated.groupExprOK = true ∧ Generated.carrierOrderOK = true := by decide

/-- the extractor of this area recognised the source as it is on this run (a refusal removes `ok`) -/
theorem extractor_ok : Glb.Generated.StatusConfig.ok = () := rfl

end Glb.Tie.Config
