/-
  Regenerated tie for C12: the lock discipline the concurrency model of Glb.Props.C12 assumes.
  Writers hold the exclusive lock, the reader the shared lock, for everything that touches
  mode / index / ipList / ipMaps; the unlock is deferred right after the lock; nothing guarded is
  touched before the lock; `matchAll` is an atomic.Bool used only through Load/Store.
-/
import Glb.Generated.StatusFilterLock
import Glb.Generated.FilterLock

namespace Glb.Tie.FilterLock
open Glb.Generated

theorem writers_exclusive : addLockKind = "Lock" ∧ removeLockKind = "Lock" := by decide
theorem reader_shared : containsLockKind = "RLock" := by decide
theorem unlock_deferred : addDeferUnlock = true ∧ removeDeferUnlock = true ∧ containsDeferUnlock = true := by
  decide
theorem nothing_guarded_before_lock :
    addGuardedBeforeLock = 0 ∧ removeGuardedBeforeLock = 0 ∧ containsGuardedBeforeLock = 0 := by decide
theorem no_other_lock_ops : addExtraLockOps = 0 ∧ removeExtraLockOps = 0 ∧ containsExtraLockOps = 0 := by
  decide
theorem matchAll_atomic :
    addMatchAllPlainUses = 0 ∧ removeMatchAllPlainUses = 0 ∧ containsMatchAllPlainUses = 0 ∧
    matchAllType = "*atomic.Bool" ∧ mutexType = "sync.RWMutex" := by decide

/-- the filter has exactly the state the model has (no cache, no second index) and no method
    besides the three the lock discipline was extracted from -/
theorem state_and_methods :
    filterFields = ["mutex sync.RWMutex", "matchAll *atomic.Bool", "mode uint32", "index int",
      "ipList [listSize][2]uint32", "ipMaps [32]map[uint32]bool"] ∧
    filterMethods = ["Add", "Remove", "Contains"] := by decide

/-- the extractor of this area recognised the source as it is on this run (a refusal removes `ok`) -/
theorem extractor_ok : Glb.Generated.StatusFilterLock.ok = () := rfl

end Glb.Tie.FilterLock
