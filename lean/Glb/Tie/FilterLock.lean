/-
  Regenerated tie for C12: the lock discipline the concurrency model of Glb.Props.C12 assumes.
  Writers hold the exclusive lock, the reader the shared lock, for everything that touches
  mode / index / ipList / ipMaps; the unlock is deferred right after the lock; nothing guarded is
  touched before the lock; `matchAll` is an atomic.Bool used only through Load/Store.
-/
import Glb.Generated.FilterLock

namespace Glb.Tie.FilterLock
open Glb.Generated

theorem writers_exclusive : addLockKind = "Lock" ∧ removeLockKind = "Lock" := by decide
theorem reader_shared : containsLockKind = "RLock" := by decide
theorem unlock_deferred : addDeferUnlock = true ∧ removeDeferUnlock = true ∧ containsDeferUnlock = true := by
  decide
theorem nothing_guarded_before_lock :
    addGuardedBeforeLock = 0 ∧ removeGuardedBeforeLock = 0 ∧ containsGuardedBeforeLock = 0 := by decide
theorem no_other_lock_ops : addExtraLockOps = 0 ∧ removeExtraLockOps = 0 ∧ containsExtraLockOps = 0 := by
  decide
theorem matchAll_atomic :
    addMatchAllPlainUses = 0 ∧ removeMatchAllPlainUses = 0 ∧ containsMatchAllPlainUses = 0 ∧
    matchAllType = "*atomic.Bool" ∧ mutexType = "sync.RWMutex" := by decide

end Glb.Tie.FilterLock
