/-
  Regenerated tie for C06/C07/C08/C14: the select-programs compiled from the current source of
  /repo/tasklane/tasklane.go are exactly the programs the theorems are proved for, and `New`,
  `Wait`, `Status` have the shape the model assumes.  A removed `ctx.Done()` case, a dropped
  `universalQueue` case, a second send, a reordered counter update, a non-deferred `wg.Done()`,
  a plain `lastPanic` field … all break a `decide` here.
-/
import Glb.Generated.StatusTaskLane
import Glb.Generated.TaskLane

namespace Glb.Tie.TaskLane
open Glb.TaskLane

theorem queueProg_eq : Generated.TaskLane.queueProg = queueProg := by decide
theorem workerProg_eq : Generated.TaskLane.workerProg = workerProg := by decide
theorem pushProg_eq : Generated.TaskLane.pushProg = pushProg := by decide

/-- both goroutine bodies `defer tl.wg.Done()`, so reaching `halt` is what `Wait` waits for -/
theorem bodies_defer_done :
    Generated.TaskLane.startQueueDefersWgDone = true ∧ Generated.TaskLane.startWorkerDefersWgDone = true := by
  decide

/-- `New` starts exactly one queue goroutine and one worker per lane and counts 2·laneSize of them -/
theorem new_shape :
    Generated.TaskLane.newSpawns = ["tl.startQueue(i)", "tl.startWorker(i)"] ∧
    Generated.TaskLane.newWgAdd = "laneSize * 2" ∧
    Generated.TaskLane.newBufferedChan = "make(chan Task, queueSize)" ∧
    Generated.TaskLane.newBlockingChan = "make(chan Task)" ∧
    Generated.TaskLane.newUniversalChan = "make(chan Task)" ∧
    Generated.TaskLane.waitBody = "{ tl.wg.Wait() }" := by decide

/-- `Status` adds one buffer length per lane and the counter; `lastPanic` is only accessed atomically -/
theorem status_shape :
    Generated.TaskLane.statusReadsLenPerLane = true ∧ Generated.TaskLane.statusReadsCounter = true ∧
    Generated.TaskLane.statusLoadsLastPanic = true ∧
    Generated.TaskLane.lastPanicType = "atomic.Pointer[any]" := by decide

/-- where the `verifAt` hook calls sit: the trace acceptor (Glb/Driver/TaskLaneTrace.lean) reads a logged
    point as "this goroutine has reached instruction n" with exactly this mapping -/
theorem hook_points :
    Generated.TaskLane.queueProgHooks = [("q.took", 1), ("q.counted", 2), ("q.blocking", 4), ("q.handed", 5)] ∧
    Generated.TaskLane.workerProgHooks = [("w.got", 3)] ∧
    Generated.TaskLane.pushProgHooks = [("p.enter", 0), ("p.inner", 1)] := by decide

/-- the extractor of this area recognised the source as it is on this run (a refusal removes `ok`) -/
theorem extractor_ok : Glb.Generated.StatusTaskLane.ok = () := rfl

end Glb.Tie.TaskLane
