/-
  Tie of the TRANSLATED `appendFullLevel` (Glb/Generated/TrLevel.lean, rewritten from /repo/logger/level.go
  on every run by tools/extract/golean.go) to the level-label functions of the JSON and Text models
  (`JsonHandler.fullLevel`, `TextHandler.fullLevel`): shared by the C01 and C13 handler ties, so it
  depends on level.go and the label table only.
  Payload convention: the translator's `idxI`/`slice` and the models' own helpers name a panic on a
  NEGATIVE index differently; `X_eq` is equality after `Except.toOption` for all inputs, `X_exact`
  is exact equality under the weakest hypothesis that avoids a negative index.
-/
import Glb.Go.Lemmas
import Glb.Generated.TrLevel
import Glb.Model.AuxLogger
import Glb.Model.JsonHandler
import Glb.Model.NanoHandler
import Glb.Model.TextHandler
import Glb.Spec.Json

namespace Glb.Tie.TrLevel
open Glb.Go

/-! ### payload erasure

`Glb.Go.idxI` / `Glb.Go.slice` and the models' own `idxI?` / `sliceI?` panic on exactly the same
inputs, but the payload of the panic for a NEGATIVE index differs (`.other "index<0"` vs
`.other "index out of range (negative)"`, `.other "slice<0"` vs `.other "slice bounds out of range
(negative)"`).  So every comparison below comes in two forms:
  * `…_eq`     : for ALL inputs, equality after `Except.toOption` (ok-results agree, and one side
                 errs iff the other errs);
  * `…_exact`  : exact equality (payloads included) whenever no negative index is formed. -/

theorem toOption_bind_congr {α β} {a a' : M α} {f f' : α → M β}
    (h : a.toOption = a'.toOption) (hf : ∀ x, (f x).toOption = (f' x).toOption) :
    (a >>= f).toOption = (a' >>= f').toOption := by
  cases a <;> cases a' <;> simp_all [Except.toOption, bind, Except.bind]

theorem idxI_toOption (s : Bytes) (i : Int) :
    (idxI s i).toOption = (Glb.Aux.DateTime.idxI? s i).toOption := by
  unfold idxI Glb.Aux.DateTime.idxI?
  by_cases h : 0 ≤ i
  · have h' : ¬ i < 0 := by omega
    simp [h, h']
  · have h' : i < 0 := by omega
    simp [h, h', Except.toOption]

theorem idxI_exact (s : Bytes) (i : Int) (h : 0 ≤ i) :
    idxI s i = Glb.Aux.DateTime.idxI? s i := by
  have h' : ¬ i < 0 := by omega
  simp [idxI, Glb.Aux.DateTime.idxI?, h, h']

theorem slice_toOption (s : Bytes) (lo hi : Int) :
    (slice s lo hi).toOption = (Glb.Aux.DateTime.sliceI? s lo hi).toOption := by
  unfold slice Glb.Aux.DateTime.sliceI?
  by_cases h : 0 ≤ lo ∧ 0 ≤ hi
  · have h' : ¬ (lo < 0 ∨ hi < 0) := by omega
    simp [h, h']
  · have h' : lo < 0 ∨ hi < 0 := by omega
    simp [h, h', Except.toOption]

theorem slice_exact (s : Bytes) (lo hi : Int) (h : 0 ≤ lo) (h2 : 0 ≤ hi) :
    slice s lo hi = Glb.Aux.DateTime.sliceI? s lo hi := by
  have h' : ¬ (lo < 0 ∨ hi < 0) := by omega
  simp [slice, Glb.Aux.DateTime.sliceI?, h, h2, h']

/-! ### appendFullLevel / appendShortLevel (colour off)

The models (`JsonHandler.fullLevel`, `TextHandler.fullLevel`, `NanoHandler.shortLevel`) return the
label; the translated functions return `buf ++ label`.  Payloads differ only for a negative index
(`l + 2 < 0`, resp. `l < 0`): `…_eq` is the `toOption` form for all inputs, `…_exact` the exact
equality when the index is non-negative (out-of-range panics included). -/

theorem map_toOption_congr {α β} {a a' : M α} (f : α → β)
    (h : a.toOption = a'.toOption) : (a >>= fun x => pure (f x)).toOption = (Except.map f a').toOption := by
  cases a <;> cases a' <;> simp_all [Except.toOption, Except.map, bind, Except.bind, pure, Except.pure]

theorem bind_pure_eq_map {α β} (a : M α) (f : α → β) :
    (a >>= fun x => pure (f x)) = Except.map f a := by
  cases a <;> rfl

theorem idxI_fullLevel_toOption (l : Int) :
    (idxI Glb.Generated.labelList (l + 2)).toOption = (Glb.JsonHandler.fullLevel l).toOption := by
  unfold idxI Glb.JsonHandler.fullLevel
  by_cases h : 0 ≤ l + 2
  · have h' : ¬ l + 2 < 0 := by omega
    simp [h, h']
  · have h' : l + 2 < 0 := by omega
    simp [h, h', Except.toOption]

theorem idxI_fullLevel_exact (l : Int) (h : 0 ≤ l + 2) :
    idxI Glb.Generated.labelList (l + 2) = Glb.JsonHandler.fullLevel l := by
  have h' : ¬ l + 2 < 0 := by omega
  simp [idxI, Glb.JsonHandler.fullLevel, h, h']

theorem appendFullLevel_eq (buf : Bytes) (l : Int) :
    (Glb.Tr.Logger.appendFullLevel buf l false).toOption
      = (Except.map (fun x => buf ++ x) (Glb.JsonHandler.fullLevel l)).toOption := by
  unfold Glb.Tr.Logger.appendFullLevel
  simp only [idx_int, Bool.false_eq_true, if_false, bind_assoc, pure_bind]
  exact map_toOption_congr _ (idxI_fullLevel_toOption l)

theorem appendFullLevel_exact (buf : Bytes) (l : Int) (h : -2 ≤ l) :
    Glb.Tr.Logger.appendFullLevel buf l false
      = Except.map (fun x => buf ++ x) (Glb.JsonHandler.fullLevel l) := by
  unfold Glb.Tr.Logger.appendFullLevel
  simp only [idx_int, Bool.false_eq_true, if_false, bind_assoc, pure_bind]
  rw [idxI_fullLevel_exact l (by omega), bind_pure_eq_map]

/-- `TextHandler.fullLevel` has a third payload for the negative index (`.indexRange 0 len`) -/
theorem fullLevel_text_json (l : Int) :
    (Glb.TextHandler.fullLevel l).toOption = (Glb.JsonHandler.fullLevel l).toOption ∧
    (-2 ≤ l → Glb.TextHandler.fullLevel l = Glb.JsonHandler.fullLevel l) := by
  unfold Glb.TextHandler.fullLevel Glb.JsonHandler.fullLevel
  by_cases h : l + 2 < 0
  · exact ⟨by simp [h, Except.toOption], by omega⟩
  · simp [h]

theorem appendFullLevel_text_eq (buf : Bytes) (l : Int) :
    (Glb.Tr.Logger.appendFullLevel buf l false).toOption
      = (Except.map (fun x => buf ++ x) (Glb.TextHandler.fullLevel l)).toOption := by
  rw [appendFullLevel_eq]
  have := (fullLevel_text_json l).1
  cases h1 : Glb.TextHandler.fullLevel l <;> cases h2 : Glb.JsonHandler.fullLevel l <;>
    simp_all [Except.toOption, Except.map]

theorem appendFullLevel_text_exact (buf : Bytes) (l : Int) (h : -2 ≤ l) :
    Glb.Tr.Logger.appendFullLevel buf l false
      = Except.map (fun x => buf ++ x) (Glb.TextHandler.fullLevel l) := by
  rw [appendFullLevel_exact buf l h, (fullLevel_text_json l).2 h]

/-! closed forms for the five valid levels -/

/-- colour off, valid level: the level's name (`Json.levelName`) is appended, no panic -/
theorem appendFullLevel_valid (buf : Bytes) (l : Int) (h : l = 0 ∨ l = 4 ∨ l = 8 ∨ l = 12 ∨ l = 16) :
    Glb.Tr.Logger.appendFullLevel buf l false = .ok (buf ++ Glb.Json.levelName l) := by
  rw [appendFullLevel_exact buf l (by omega)]
  rcases h with h | h | h | h | h <;> subst h <;> rfl

theorem appendFullLevel_debug (buf : Bytes) :
    Glb.Tr.Logger.appendFullLevel buf Glb.Generated.levelDebug false
      = .ok (buf ++ [0x44, 0x45, 0x42, 0x55, 0x47]) :=   -- DEBUG
  appendFullLevel_valid buf 0 (by omega)
theorem appendFullLevel_info (buf : Bytes) :
    Glb.Tr.Logger.appendFullLevel buf Glb.Generated.levelInfo false
      = .ok (buf ++ [0x49, 0x4E, 0x46, 0x4F]) :=         -- INFO
  appendFullLevel_valid buf 4 (by omega)
theorem appendFullLevel_warn (buf : Bytes) :
    Glb.Tr.Logger.appendFullLevel buf Glb.Generated.levelWarn false
      = .ok (buf ++ [0x57, 0x41, 0x52, 0x4E]) :=         -- WARN
  appendFullLevel_valid buf 8 (by omega)
theorem appendFullLevel_error (buf : Bytes) :
    Glb.Tr.Logger.appendFullLevel buf Glb.Generated.levelError false
      = .ok (buf ++ [0x45, 0x52, 0x52, 0x4F, 0x52]) :=   -- ERROR
  appendFullLevel_valid buf 12 (by omega)
theorem appendFullLevel_fatal (buf : Bytes) :
    Glb.Tr.Logger.appendFullLevel buf Glb.Generated.levelFatal false
      = .ok (buf ++ [0x46, 0x41, 0x54, 0x41, 0x4C]) :=   -- FATAL
  appendFullLevel_valid buf 16 (by omega)

theorem appendFullLevel_panics (buf : Bytes) (l : Int) (h : l < -2 ∨ 17 < l) :
    (Glb.Tr.Logger.appendFullLevel buf l false).toOption = none := by
  rw [appendFullLevel_eq]
  unfold Glb.JsonHandler.fullLevel
  by_cases h' : l + 2 < 0
  · simp [h', Except.map, Except.toOption]
  · have : Glb.Generated.labelList[(l + 2).toNat]? = none := by
      have : Glb.Generated.labelList.length = 20 := by decide
      simp; omega
    simp [h', Glb.idx?, this, Except.map, Except.toOption]


end Glb.Tie.TrLevel
