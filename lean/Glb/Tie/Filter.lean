/-
  Regenerated tie for C11/C12: the mask table read from /repo/util/netutil/filter.go *is* the
  prefix-mask function the theorems talk about.  Re-proved by `decide` on every run; a changed
  table entry breaks this file.
-/
import Glb.Generated.StatusFilter
import Glb.Proofs.Filter

namespace Glb.Tie.Filter
open Glb.Filter

theorem masks_length : Generated.ipv4Masks.length = 32 := by decide

theorem mask_table : ∀ i ∈ List.range 32,
    Generated.ipv4Masks[i]? = some (BitVec.allOnes 32 <<< (31 - i)) := by decide

theorem maskOf_is_prefixMask : ∀ n ∈ List.range' 1 32, maskOf n = prefixMask n := maskTable

theorem listSize_pos : 0 < Generated.listSize := by decide

/-- the extractor of this area recognised the source as it is on this run (a refusal removes `ok`) -/
theorem extractor_ok : Glb.Generated.StatusFilter.ok = () := rfl

end Glb.Tie.Filter
