/-
  Tie of the TRANSLATED, RECURSIVE `appendJsonAttr` (/repo/logger/json_handler.go:149, regenerated into
  Glb/Generated/TrJsonAttr.lean on every run; fuel-indexed: fuel 0 is the error `.other "fuel"`, every
  self-call passes the remaining fuel) to the hand model `Glb.JsonHandler.appendJsonAttr` / `attrLoop`
  (mutual structural functions of Glb/Model/JsonHandler.lean) that the C01 theorems are about.

      appendJsonAttr_eq : depth a ≤ fuel →
        Tr.Logger.appendJsonAttr fuel buf a addSep colorful = .ok (JsonHandler.appendJsonAttr buf a addSep)

  for EVERY attribute tree `a` (nested / inline / empty groups), buffer and flags; `depth` is the nesting
  depth of the tree (leaf 1, group 1 + deepest child), so the hypothesis only says that the fuel does
  not run out (full strength otherwise: no panic, `colorful` is irrelevant).

  Proof: induction on the fuel (no structural induction on the nested inductive `Attr`).  Each of
  the two `for _, aa := range a.Value.Group()` loops is rewritten with `loop_eq`; the model of the
  rest of the loop from index `i` in state `(buf, addSep[, wrote])` is the model's
  `attrLoop buf (as.drop i) addSep wrote`; the recursive call on the child `as[i]` is rewritten with the
  induction hypothesis (`depth as[i] ≤ fuel` because `depth (.group k as) ≤ fuel + 1`).  The keyed-group
  loop does not carry `wrote`: `attrLoop_wrote` (buffer and separator flag do not depend on it).
  `appendJsonString` calls are rewritten with Tie/TrJsonString first.

      appendJsonAttr_translated_render : the same composed with `C01.attr_render` (canonical `,`-join).
-/
import Glb.Go.Lemmas
import Glb.Go.LibJson
import Glb.Generated.TrJsonAttr
import Glb.Model.JsonHandler
import Glb.Tie.TrJsonString
import Glb.Props.C01

namespace Glb.Tie.TrJsonAttr
open Glb.Go Glb.JsonHandler Glb.Go.LibJson

/-! ### depth of an attribute tree -/

mutual
/-- nesting depth of an attribute tree: a leaf is 1, a group is 1 + the deepest child -/
def depth : Attr → Nat
  | .leaf _ _ => 1
  | .group _ as => 1 + depthList as
/-- the deepest member of a list (0 for the empty list) -/
def depthList : List Attr → Nat
  | [] => 0
  | a :: as => max (depth a) (depthList as)
end

theorem depth_pos (a : Attr) : 1 ≤ depth a := by
  cases a <;> simp [depth]

theorem depth_mem (as : List Attr) (a : Attr) (h : a ∈ as) : depth a ≤ depthList as := by
  induction as with
  | nil => cases h
  | cons b bs ih =>
    simp only [depthList]
    rcases List.mem_cons.1 h with h | h
    · subst h; omega
    · have := ih h; omega

/-- the `wrote` flag does not influence the buffer and the separator flag -/
theorem attrLoop_wrote (as : List Attr) : ∀ (buf : Bytes) (s w w' : Bool),
    (attrLoop buf as s w).1 = (attrLoop buf as s w').1 ∧
    (attrLoop buf as s w).2.1 = (attrLoop buf as s w').2.1 := by
  induction as with
  | nil => intro buf s w w'; simp [attrLoop]
  | cons a as ih =>
    intro buf s w w'
    simp only [attrLoop]
    split
    · exact ⟨rfl, rfl⟩
    · exact ih _ _ _ _

/-- **the translated, recursive `appendJsonAttr` is the hand model**, for every attribute tree, buffer
    and flags, whenever the fuel is at least the nesting depth of the tree (so the fuel never runs
    out); the `colorful` flag does not influence the translated code (colour off in the model). -/
theorem appendJsonAttr_eq (fuel : Nat) (buf : Bytes) (a : Attr) (addSep colorful : Bool)
    (h : depth a ≤ fuel) :
    Glb.Tr.Logger.appendJsonAttr fuel buf a addSep colorful
      = .ok (Glb.JsonHandler.appendJsonAttr buf a addSep) := by
  induction fuel generalizing buf a addSep colorful with
  | zero => have := depth_pos a; omega
  | succ fuel ih =>
    rw [Glb.Tr.Logger.appendJsonAttr]
    dsimp only
    cases a with
    | leaf k v =>
      simp only [isGroup, keyOf, valueBytes, Glb.Tie.TrJsonString.appendJsonString_eq,
        Glb.JsonHandler.appendJsonAttr, bind, Except.bind, pure, Except.pure]
      cases addSep <;> simp
    | group k as =>
      simp only [isGroup, keyOf, groupOf, beq_self_eq_true, if_true,
        Glb.Tie.TrJsonString.appendJsonString_eq]
      have hch : ∀ c ∈ as, depth c ≤ fuel := by
        intro c hc
        have := depth_mem as c hc
        simp only [depth] at h
        omega
      by_cases hk : k = []
      · subst hk
        simp only [len_eq, List.length_nil, Int.natCast_zero, beq_self_eq_true, if_true]
        rw [loop_eq (σ := Int × Bytes × Bool × Bool) (ρ := Bytes × Bool)
          (Inv := fun st => 0 ≤ st.1 ∧ st.1 ≤ as.length)
          (measure := fun st => ((as.length : Int) - st.1).toNat)
          (model := fun st => .ok (.inl ((as.length : Int),
            attrLoop st.2.1 (as.drop st.1.toNat) st.2.2.1 st.2.2.2)))]
        · simp [bind, Except.bind, pure, Except.pure, Glb.JsonHandler.appendJsonAttr]
        · intro ⟨i, b, s, w⟩ ⟨h0, hl⟩
          dsimp only at h0 hl
          obtain ⟨n, rfl⟩ : ∃ n : Nat, i = n := ⟨i.toNat, by omega⟩
          simp only [StepOK, pure, Except.pure, Int.toNat_natCast]
          by_cases hn : n < as.length
          · obtain ⟨c, rest, hd⟩ : ∃ c rest, as.drop n = c :: rest := by
              cases hdn : as.drop n with
              | nil => have := length_of_drop_nil as n hdn; omega
              | cons c rest => exact ⟨c, rest, rfl⟩
            have hc := idx_drop as n c rest hd
            have hrest := drop_succ_of_drop as n c rest hd
            have hn' : ((n : Int) < (as.length : Int)) := by omega
            have hn1 : ((n : Int) + 1).toNat = n + 1 := by omega
            have hmem : c ∈ as := List.mem_of_mem_drop (by rw [hd]; simp)
            simp only [hn', decide_true, hc, bind, Except.bind, hd, ih _ c _ colorful (hch c hmem),
              attrLoop]
            cases hr : (Glb.JsonHandler.appendJsonAttr b c s).2
            · simp only [Bool.false_eq_true, if_false, hn1, hrest]
              exact ⟨⟨by omega, by omega⟩, by omega, trivial⟩
            · simp only [if_true, hn1, hrest]
              exact ⟨⟨by omega, by omega⟩, by omega, trivial⟩
          · have hn' : ¬ ((n : Int) < (as.length : Int)) := by omega
            have : as.drop n = [] := List.drop_of_length_le (by omega)
            simp [hn', this, attrLoop]
            omega
        · simp
        · simp; omega
      · have hk0 : ((k.length : Int) == 0) = false := by
          cases k with
          | nil => exact absurd rfl hk
          | cons x xs => simp; omega
        have hke : k.isEmpty = false := by cases k <;> simp at hk ⊢
        simp only [len_eq, hk0, Bool.false_eq_true, if_false]
        cases addSep <;>
        ( simp only [Bool.false_eq_true, if_false, if_true, bind, Except.bind]
          rw [loop_eq (σ := Int × Bytes × Bool) (ρ := Bytes × Bool)
            (Inv := fun st => 0 ≤ st.1 ∧ st.1 ≤ as.length)
            (measure := fun st => ((as.length : Int) - st.1).toNat)
            (model := fun st => .ok (.inl ((as.length : Int),
              (attrLoop st.2.1 (as.drop st.1.toNat) st.2.2 false).1,
              (attrLoop st.2.1 (as.drop st.1.toNat) st.2.2 false).2.1)))]
          · simp [pure, Except.pure, Glb.JsonHandler.appendJsonAttr, hke]
          · intro ⟨i, b, s⟩ ⟨h0, hl⟩
            dsimp only at h0 hl
            obtain ⟨n, rfl⟩ : ∃ n : Nat, i = n := ⟨i.toNat, by omega⟩
            simp only [StepOK, pure, Except.pure, Int.toNat_natCast]
            by_cases hn : n < as.length
            · obtain ⟨c, rest, hd⟩ : ∃ c rest, as.drop n = c :: rest := by
                cases hdn : as.drop n with
                | nil => have := length_of_drop_nil as n hdn; omega
                | cons c rest => exact ⟨c, rest, rfl⟩
              have hc := idx_drop as n c rest hd
              have hrest := drop_succ_of_drop as n c rest hd
              have hn' : ((n : Int) < (as.length : Int)) := by omega
              have hn1 : ((n : Int) + 1).toNat = n + 1 := by omega
              have hmem : c ∈ as := List.mem_of_mem_drop (by rw [hd]; simp)
              simp only [hn', decide_true, hc, hd, ih _ c _ colorful (hch c hmem), attrLoop]
              cases hr : (Glb.JsonHandler.appendJsonAttr b c s).2
              · simp only [Bool.false_eq_true, if_false, hn1, hrest]
                exact ⟨⟨by omega, by omega⟩, by omega, trivial⟩
              · have hw := attrLoop_wrote rest (Glb.JsonHandler.appendJsonAttr b c s).1 true true false
                simp only [if_true, hn1, hrest, hw.1, hw.2]
                exact ⟨⟨by omega, by omega⟩, by omega, trivial⟩
            · have hn' : ¬ ((n : Int) < (as.length : Int)) := by omega
              have : as.drop n = [] := List.drop_of_length_le (by omega)
              simp [hn', this, attrLoop]
              omega
          · simp
          · simp; omega )

/-- with the canonical fuel `depth a` -/
theorem appendJsonAttr_eq_depth (buf : Bytes) (a : Attr) (addSep colorful : Bool) :
    Glb.Tr.Logger.appendJsonAttr (depth a) buf a addSep colorful
      = .ok (Glb.JsonHandler.appendJsonAttr buf a addSep) :=
  appendJsonAttr_eq (depth a) buf a addSep colorful (Nat.le_refl _)

/-- too little fuel is the only way to fail: with fuel 0 the translated function reports `fuel` -/
theorem appendJsonAttr_fuel0 (buf : Bytes) (a : Attr) (addSep colorful : Bool) :
    Glb.Tr.Logger.appendJsonAttr 0 buf a addSep colorful = .error (.other "fuel") := by
  rw [Glb.Tr.Logger.appendJsonAttr]

/-! ### composition with C01 -/

open Glb.Json in
/-- **C01 `attr_render` for the translated code**: for an attribute tree satisfying the stdlib contract
    `AttrOk`, the translated `appendJsonAttr` appends exactly the canonical `,`-join of the flattened
    member list (`serSep`), for both values of `addSep`, and returns "wrote at least one member". -/
theorem appendJsonAttr_translated_render (fuel : Nat) (a : Attr) (ha : AttrOk a) (buf : Bytes)
    (addSep colorful : Bool) (h : depth a ≤ fuel) :
    Glb.Tr.Logger.appendJsonAttr fuel buf a addSep colorful =
      .ok (buf ++ serSep Glb.JsonHandler.appendJsonString addSep (membersSrc a),
           !(membersSrc a).isEmpty) := by
  rw [appendJsonAttr_eq fuel buf a addSep colorful h, Glb.C01.attr_render a ha buf addSep]

end Glb.Tie.TrJsonAttr
