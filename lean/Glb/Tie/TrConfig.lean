/-
  Tie of the TRANSLATED `/repo/config/config.go: parseStructFieldTag` (Glb/Generated/TrConfig.lean,
  rewritten from the Go source on every run by tools/extract/golean.go) to the hand model
  `Glb.Config.parseTag` that the C09 theorems (`tag_syntaxes`, `flagset_shape`, …) are about.
-/
import Glb.Go.Lemmas
import Glb.Generated.TrConfig
import Glb.Model.Config

namespace Glb.Tie.TrConfig
open Glb.Go

/-- the translator's `strings.IndexByte` (a Go int, -1 = absent) vs the model's `Option Nat` -/
theorem indexByteFrom_eq (c : UInt8) (s : Bytes) (k : Nat) :
    Lib.indexByteFrom c s k =
      match Glb.Config.indexByte s c with
      | some p => ((k + p : Nat) : Int)
      | none => -1 := by
  induction s generalizing k with
  | nil => simp [Lib.indexByteFrom, Glb.Config.indexByte]
  | cons b rest ih =>
    simp only [Lib.indexByteFrom, Glb.Config.indexByte]
    by_cases h : b = c
    · simp [h]
    · have h' : (b == c) = false := by simpa using h
      simp only [h', h, if_false, Bool.false_eq_true]
      rw [ih (k + 1)]
      cases Glb.Config.indexByte rest c with
      | none => simp
      | some q => simp; rw [Int.add_assoc, Int.add_comm 1]

theorem indexByte_eq (s : Bytes) (c : UInt8) :
    Lib.indexByte s c =
      match Glb.Config.indexByte s c with
      | some p => (p : Int)
      | none => -1 := by
  have := indexByteFrom_eq c s 0
  simp only [Nat.zero_add] at this
  exact this

theorem indexByte_lt (s : Bytes) (c : UInt8) (p : Nat) (h : Glb.Config.indexByte s c = some p) :
    p < s.length := by
  induction s generalizing p with
  | nil => simp [Glb.Config.indexByte] at h
  | cons b rest ih =>
    simp only [Glb.Config.indexByte] at h
    by_cases hb : b = c
    · simp [hb] at h; subst h; simp
    · simp only [hb, if_false] at h
      cases hr : Glb.Config.indexByte rest c with
      | none => simp [hr] at h
      | some q =>
        simp [hr] at h; subst h
        have := ih q hr
        simp; omega

/-- `s[p+1:]` for a position found by `IndexByte` -/
theorem sliceFrom_succ_ok (s : Bytes) (p : Nat) (h : p < s.length) :
    sliceFrom s ((p : Int) + 1) = .ok (s.drop (p + 1)) := by
  have : ((p : Int) + 1) = ((p + 1 : Nat) : Int) := by omega
  rw [this, sliceFrom_nat]
  have hl : p + 1 ≤ s.length := by omega
  simp only [Glb.slice?, hl, Nat.le_refl, and_self, if_true]
  rw [List.take_of_length_le (by simp)]

/-- `s[:p]` for a position found by `IndexByte` -/
theorem sliceTo_ok (s : Bytes) (p : Nat) (h : p < s.length) :
    sliceTo s (p : Int) = .ok (s.take p) := by
  have : sliceTo s (p : Int) = Glb.slice? s 0 p := by simp [sliceTo, slice]
  rw [this]
  have hl : p ≤ s.length := by omega
  simp [Glb.slice?, hl]

theorem slice?_succ_ok (s : Bytes) (p : Nat) (h : p < s.length) :
    Glb.slice? s (p + 1) s.length = .ok (s.drop (p + 1)) := by
  have hl : p + 1 ≤ s.length := by omega
  simp only [Glb.slice?, hl, Nat.le_refl, and_self, if_true]
  rw [List.take_of_length_le (by simp)]

theorem slice?_to_ok (s : Bytes) (p : Nat) (h : p < s.length) :
    Glb.slice? s 0 p = .ok (s.take p) := by
  have hl : p ≤ s.length := by omega
  simp [Glb.slice?, hl]

/-- the separator search once `name` and `sep` are known: case split on the (at most two) results of
    `IndexByte`; every slice is in range because the positions come from `IndexByte` -/
local macro "split_tail " n:term:max s:term:max : tactic => `(tactic| (
  cases h1 : Glb.Config.indexByte $n $s with
  | none => by_cases hn : $n = [] <;> first | (simp [hn]; done) | simp_all
  | some p =>
    have hp := indexByte_lt $n $s p h1
    simp only [sliceFrom_succ_ok $n p hp, sliceTo_ok $n p hp, slice?_succ_ok $n p hp,
      slice?_to_ok $n p hp]
    cases h2 : Glb.Config.indexByte (List.drop (p + 1) $n) $s with
    | none => by_cases hn : List.take p $n = [] <;> simp [hn]
    | some q =>
      have hq := indexByte_lt _ $s q h2
      simp only [sliceFrom_succ_ok _ q hq, sliceTo_ok _ q hq, slice?_succ_ok _ q hq,
        slice?_to_ok _ q hq]
      by_cases hn : List.take p $n = [] <;> simp [hn]))

/-- **Tie.** The translated `parseStructFieldTag` is the model `parseTag` for every tag text, every
    field name and every lower-casing function (the result of `strings.ToLower(field.Name)` is a
    parameter of the translated function). -/
theorem parseStructFieldTag_eq (lower : Bytes → Bytes) (goName tag : Bytes) :
    Glb.Tr.Config.parseStructFieldTag tag (lower goName) = Glb.Config.parseTag lower goName tag := by
  unfold Glb.Tr.Config.parseStructFieldTag Glb.Config.parseTag Glb.Config.tagSplit
  simp only [indexByte_eq]
  cases tag with
  | nil =>
    simp [Glb.Config.indexByte, bind, Except.bind, pure, Except.pure]
  | cons b rest =>
    by_cases hb : b = 124
    · subst hb
      have h1 : sliceFrom (124 :: rest) 1 = .ok rest := by
        have := sliceFrom_succ_ok (124 :: rest) 0 (by simp)
        simpa using this
      have h2 : Glb.slice? (124 :: rest) 1 (124 :: rest).length = .ok rest := by
        have := slice?_succ_ok (124 :: rest) 0 (by simp)
        simpa using this
      simp only [h1, h2]
      simp only [idx_natlit, idxI, Glb.idx?, Glb.Config.bar, bind, Except.bind, pure, Except.pure]
      simp
      split_tail rest 124
    · have hne : b :: rest ≠ [] := by simp
      have hi1 : idx (b :: rest) (0 : Nat) = .ok b := by simp [idxI, Glb.idx?]
      have hi2 : Glb.idx? (b :: rest) 0 = .ok b := by simp [Glb.idx?]
      generalize b :: rest = name at hne hi1 hi2 ⊢
      simp only [hi1, hi2, Glb.Config.bar, Glb.Config.comma, bind, Except.bind, pure, Except.pure]
      simp [hb, hne]
      split_tail name 44

end Glb.Tie.TrConfig
