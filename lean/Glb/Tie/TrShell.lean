/-
  Tie of the TRANSLATED `ShellEscape` / `ShellEscapeExceptTilde` (Glb/Generated/TrShell.lean, rewritten from
  /repo/util/strutil/strutil.go on every run by tools/extract/golean.go) to the hand model the C16
  theorems (`escape_one_word`, `tilde_variant`, …) are about: translated function = model, for every
  byte string.  A change of the Go source changes the generated definitions and these proofs stop
  checking; the theorems of Props/C16 therefore hold of the code as it is now.
-/
import Glb.Go.Lemmas
import Glb.Generated.TrShell
import Glb.Model.Strutil

namespace Glb.Tie.TrShell
open Glb.Go Glb.Tr.Strutil

/-! ### ShellEscape, ShellEscapeExceptTilde -/

/-- the translator's `strings.Replace(s, old, new, -1)` is the model's `replaceGo … (-1)` when `old`
    is a single byte (enough fuel: more than `len s`) -/
private theorem replaceAllAux_single (q : UInt8) (new : Bytes) :
    ∀ (s : Bytes) (f : Nat), s.length < f →
      Lib.replaceAllAux [q] new f s = Glb.Strutil.replaceGo [q] new (-1) 0 s := by
  intro s
  induction s with
  | nil =>
    intro f hf
    cases f with
    | zero => omega
    | succ f => simp [Lib.replaceAllAux, Glb.Strutil.replaceGo]
  | cons c rest ih =>
    intro f hf
    cases f with
    | zero => omega
    | succ f =>
      have := ih f (by simp at hf; omega)
      simp [Lib.replaceAllAux, Glb.Strutil.replaceGo, this]

theorem replaceAll_single (q : UInt8) (new s : Bytes) :
    Lib.replaceAll s [q] new = Glb.Strutil.replaceGo [q] new (-1) 0 s := by
  unfold Lib.replaceAll
  exact replaceAllAux_single q new s _ (by omega)

theorem ShellEscape_eq (s : Bytes) : ShellEscape s = .ok (Glb.Strutil.shellEscape s) := by
  unfold ShellEscape
  simp [pure, Except.pure, replaceAll_single, Glb.Strutil.shellEscape, Glb.Strutil.shellEscapeWith,
    Glb.Strutil.shellEscapeGen, Glb.Generated.shellEscapePrefix, Glb.Generated.shellEscapeOld,
    Glb.Generated.shellEscapeNew, Glb.Generated.shellEscapeSuffix, Glb.Generated.shellEscapeCount]

/-- plain equality, panics included: both sides take `s[2:]` with the same bounds check and the same
    payload (no panic is reachable anyway: the prefix test gives `len s ≥ 2`) -/
theorem ShellEscapeExceptTilde_eq (s : Bytes) :
    ShellEscapeExceptTilde s = Glb.Strutil.shellEscapeExceptTilde s := by
  unfold ShellEscapeExceptTilde
  have h2 : (2 : Int) = ((2 : Nat) : Int) := rfl
  simp only [ShellEscape_eq, h2, sliceFrom_nat, Glb.Strutil.shellEscapeExceptTilde,
    Glb.Strutil.shellEscapeExceptTildeGen, Glb.Strutil.hasPrefix, Lib.hasPrefix,
    Glb.Generated.tildePrefix, Glb.Generated.tildeKeep, Glb.Generated.tildeSliceLow]
  by_cases h : ([126, 47] : Bytes).isPrefixOf s = true
  · simp only [h, if_true, bind, Except.bind, pure, Except.pure]
    cases slice? s 2 s.length <;> simp
  · simp [h, pure, Except.pure]


end Glb.Tie.TrShell
