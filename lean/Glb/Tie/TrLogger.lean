/-
  Ties of TRANSLATED logger helpers that no listed property speaks about (supporting code; attached
  to a check as `support`): `appendIntWidth1..4`, `appendDateTime`, `ValidLevel`, `appendShortLevel`,
  `appendNanoSource` (Glb/Generated/TrLogger.lean, rewritten from /repo/logger/{buffer,level,nano_handler}.go
  on every run) = the hand models of Glb/Model/AuxLogger.lean / NanoHandler.lean.
-/
import Glb.Go.Lemmas
import Glb.Generated.TrLogger
import Glb.Tie.TrJson

namespace Glb.Tie.TrLogger
open Glb.Go Glb.Tie.TrJson Glb.Tie.TrLevel

/-- Go's truncating division: the model's `goDiv` is the translator's `idiv` (= `Int.tdiv`) -/
theorem goDiv_eq_idiv (a : Int) : Glb.Aux.DateTime.goDiv a 100 = idiv a 100 := by
  unfold Glb.Aux.DateTime.goDiv idiv
  by_cases h : 0 ≤ a
  · simp [h, Int.tdiv_eq_ediv_of_nonneg h]
  · have hn : 0 ≤ -a := by omega
    have : a = -(-a) := by omega
    rw [if_neg h]
    conv => rhs; rw [this, Int.neg_tdiv, Int.tdiv_eq_ediv_of_nonneg hn]

/-! ### appendIntWidth1 … 4 -/

theorem appendIntWidth1_eq (buf : Bytes) (i : Int) :
    (Glb.Tr.Logger.appendIntWidth1 buf i).toOption
      = (Glb.Aux.DateTime.appendIntWidth1 buf i).toOption := by
  unfold Glb.Tr.Logger.appendIntWidth1 Glb.Aux.DateTime.appendIntWidth1
  simp only [idx_int, bind_assoc, pure_bind]
  exact toOption_bind_congr (idxI_toOption _ _) (fun _ => rfl)

theorem appendIntWidth1_exact (buf : Bytes) (i : Int) (h : 0 ≤ i) :
    Glb.Tr.Logger.appendIntWidth1 buf i = Glb.Aux.DateTime.appendIntWidth1 buf i := by
  unfold Glb.Tr.Logger.appendIntWidth1 Glb.Aux.DateTime.appendIntWidth1
  simp only [idx_int, bind_assoc, pure_bind]
  rw [idxI_exact _ _ (by omega)]

theorem appendIntWidth2_eq (buf : Bytes) (i : Int) :
    (Glb.Tr.Logger.appendIntWidth2 buf i).toOption
      = (Glb.Aux.DateTime.appendIntWidth2 buf i).toOption := by
  unfold Glb.Tr.Logger.appendIntWidth2 Glb.Aux.DateTime.appendIntWidth2
  simp only [bind_assoc, pure_bind]
  exact toOption_bind_congr (slice_toOption _ _ _) (fun _ => rfl)

theorem appendIntWidth2_exact (buf : Bytes) (i : Int) (h : 0 ≤ i) :
    Glb.Tr.Logger.appendIntWidth2 buf i = Glb.Aux.DateTime.appendIntWidth2 buf i := by
  unfold Glb.Tr.Logger.appendIntWidth2 Glb.Aux.DateTime.appendIntWidth2
  simp only [bind_assoc, pure_bind]
  rw [slice_exact _ _ _ (by omega) (by omega)]

theorem appendIntWidth3_eq (buf : Bytes) (i : Int) :
    (Glb.Tr.Logger.appendIntWidth3 buf i).toOption
      = (Glb.Aux.DateTime.appendIntWidth3 buf i).toOption := by
  unfold Glb.Tr.Logger.appendIntWidth3 Glb.Aux.DateTime.appendIntWidth3
  simp only [idx_int, bind_assoc, pure_bind, goDiv_eq_idiv]
  exact toOption_bind_congr (idxI_toOption _ _)
    (fun _ => toOption_bind_congr (slice_toOption _ _ _) (fun _ => rfl))

private theorem idiv100_nonneg (i : Int) (h : 0 ≤ i) :
    0 ≤ idiv i 100 ∧ 0 ≤ i - idiv i 100 * 100 := by
  unfold idiv
  rw [Int.tdiv_eq_ediv_of_nonneg h]
  omega

theorem appendIntWidth3_exact (buf : Bytes) (i : Int) (h : 0 ≤ i) :
    Glb.Tr.Logger.appendIntWidth3 buf i = Glb.Aux.DateTime.appendIntWidth3 buf i := by
  obtain ⟨h1, h2⟩ := idiv100_nonneg i h
  unfold Glb.Tr.Logger.appendIntWidth3 Glb.Aux.DateTime.appendIntWidth3
  simp only [idx_int, bind_assoc, pure_bind, goDiv_eq_idiv]
  rw [idxI_exact _ _ (by omega), slice_exact _ _ _ (by omega) (by omega)]

theorem appendIntWidth4_eq (buf : Bytes) (i : Int) :
    (Glb.Tr.Logger.appendIntWidth4 buf i).toOption
      = (Glb.Aux.DateTime.appendIntWidth4 buf i).toOption := by
  unfold Glb.Tr.Logger.appendIntWidth4 Glb.Aux.DateTime.appendIntWidth4
  simp only [bind_assoc, pure_bind, goDiv_eq_idiv]
  exact toOption_bind_congr (slice_toOption _ _ _)
    (fun _ => toOption_bind_congr (slice_toOption _ _ _) (fun _ => rfl))

theorem appendIntWidth4_exact (buf : Bytes) (i : Int) (h : 0 ≤ i) :
    Glb.Tr.Logger.appendIntWidth4 buf i = Glb.Aux.DateTime.appendIntWidth4 buf i := by
  obtain ⟨h1, h2⟩ := idiv100_nonneg i h
  unfold Glb.Tr.Logger.appendIntWidth4 Glb.Aux.DateTime.appendIntWidth4
  simp only [bind_assoc, pure_bind, goDiv_eq_idiv]
  rw [slice_exact _ _ _ (by omega) (by omega), slice_exact _ _ _ (by omega) (by omega)]

/-! ### appendDateTime -/

theorem appendDateTime_eq (buf : Bytes) (y mo d h mi s : Int) :
    (Glb.Tr.Logger.appendDateTime buf y mo d h mi s).toOption
      = (Glb.Aux.DateTime.appendDateTime buf y mo d h mi s).toOption := by
  unfold Glb.Tr.Logger.appendDateTime Glb.Aux.DateTime.appendDateTime
  simp only [ToInt.toInt, id]
  refine toOption_bind_congr (appendIntWidth4_eq _ _) (fun _ => ?_)
  refine toOption_bind_congr (appendIntWidth2_eq _ _) (fun _ => ?_)
  refine toOption_bind_congr (appendIntWidth2_eq _ _) (fun _ => ?_)
  refine toOption_bind_congr (appendIntWidth2_eq _ _) (fun _ => ?_)
  refine toOption_bind_congr (appendIntWidth2_eq _ _) (fun _ => ?_)
  exact appendIntWidth2_eq _ _

theorem appendDateTime_exact (buf : Bytes) (y mo d h mi s : Int)
    (hy : 0 ≤ y) (hmo : 0 ≤ mo) (hd : 0 ≤ d) (hh : 0 ≤ h) (hmi : 0 ≤ mi) (hs : 0 ≤ s) :
    Glb.Tr.Logger.appendDateTime buf y mo d h mi s
      = Glb.Aux.DateTime.appendDateTime buf y mo d h mi s := by
  unfold Glb.Tr.Logger.appendDateTime Glb.Aux.DateTime.appendDateTime
  simp only [ToInt.toInt, id, appendIntWidth4_exact _ _ hy,
    appendIntWidth2_exact _ _ hmo, appendIntWidth2_exact _ _ hd, appendIntWidth2_exact _ _ hh,
    appendIntWidth2_exact _ _ hmi, appendIntWidth2_exact _ _ hs]

/-! ### ValidLevel -/

/-- `n & 3 == 0` on `0 … 16` picks the multiples of four -/
private theorem iand3_small (n : Nat) (h : n ≤ 16) :
    (band (n : Int) 3 == 0) = decide (n = 0 ∨ n = 4 ∨ n = 8 ∨ n = 12 ∨ n = 16) := by
  have : n = 0 ∨ n = 1 ∨ n = 2 ∨ n = 3 ∨ n = 4 ∨ n = 5 ∨ n = 6 ∨ n = 7 ∨ n = 8 ∨ n = 9 ∨ n = 10
      ∨ n = 11 ∨ n = 12 ∨ n = 13 ∨ n = 14 ∨ n = 15 ∨ n = 16 := by omega
  rcases this with h | h | h | h | h | h | h | h | h | h | h | h | h | h | h | h | h <;> subst h <;> decide

/-- the bit test `l&3 == 0 && l >= 0 && l <= 16` accepts exactly the five named levels -/
theorem ValidLevel_eq (l : Int) :
    Glb.Tr.Logger.ValidLevel l = .ok (decide (l = 0 ∨ l = 4 ∨ l = 8 ∨ l = 12 ∨ l = 16)) := by
  unfold Glb.Tr.Logger.ValidLevel
  simp only [pure, Except.pure]
  congr 1
  by_cases h : 0 ≤ l ∧ l ≤ 16
  · obtain ⟨n, rfl⟩ : ∃ n : Nat, l = n := ⟨l.toNat, by omega⟩
    rw [iand3_small n (by omega)]
    have h1 : (n : Int) ≥ 0 := by omega
    have h2 : (n : Int) ≤ 16 := by omega
    simp only [h1, h2, decide_true, Bool.and_true]
    congr 1
    apply propext
    omega
  · have : ¬ (l = 0 ∨ l = 4 ∨ l = 8 ∨ l = 12 ∨ l = 16) := by omega
    simp only [this, decide_false]
    by_cases h1 : l ≥ 0
    · have h2 : ¬ l ≤ 16 := by omega
      simp [h2]
    · simp [h1]

/-- the same, in terms of the regenerated level constants -/
theorem ValidLevel_consts (l : Int) :
    Glb.Tr.Logger.ValidLevel l = .ok (decide (l ∈ [Glb.Generated.levelDebug, Glb.Generated.levelInfo,
      Glb.Generated.levelWarn, Glb.Generated.levelError, Glb.Generated.levelFatal])) := by
  rw [ValidLevel_eq]
  simp [Glb.Generated.levelDebug, Glb.Generated.levelInfo, Glb.Generated.levelWarn,
    Glb.Generated.levelError, Glb.Generated.levelFatal]

private theorem int_beq (a b : Int) : (a == b) = decide (a = b) := by
  by_cases h : a = b <;> simp [h]

/-- the same, as the specification's `Json.validLevel` -/
theorem ValidLevel_spec (l : Int) :
    Glb.Tr.Logger.ValidLevel l = .ok (Glb.Json.validLevel l) := by
  rw [ValidLevel_eq]
  simp [Glb.Json.validLevel, int_beq, Bool.or_assoc]

theorem appendShortLevel_eq (buf : Bytes) (l : Int) :
    (Glb.Tr.Logger.appendShortLevel buf l false).toOption
      = (Except.map (fun x => buf ++ x) (Glb.NanoHandler.shortLevel l)).toOption := by
  unfold Glb.Tr.Logger.appendShortLevel
  simp only [idx_int, Bool.false_eq_true, if_false, bind_assoc, pure_bind]
  refine map_toOption_congr _ ?_
  unfold idxI Glb.NanoHandler.shortLevel
  by_cases h : 0 ≤ l
  · have h' : ¬ l < 0 := by omega
    simp [h, h']
  · have h' : l < 0 := by omega
    simp [h, h', Except.toOption]

theorem appendShortLevel_exact (buf : Bytes) (l : Int) (h : 0 ≤ l) :
    Glb.Tr.Logger.appendShortLevel buf l false
      = Except.map (fun x => buf ++ x) (Glb.NanoHandler.shortLevel l) := by
  unfold Glb.Tr.Logger.appendShortLevel
  simp only [idx_int, Bool.false_eq_true, if_false, bind_assoc, pure_bind]
  have h' : ¬ l < 0 := by omega
  rw [bind_pure_eq_map]
  simp [idxI, Glb.NanoHandler.shortLevel, h, h']

/-- the short label `[D] [I] [W] [E] [F]` of a valid level -/
def shortName (l : Int) : Bytes :=
  [0x5B, (if l = 0 then 0x44 else if l = 4 then 0x49 else if l = 8 then 0x57
          else if l = 12 then 0x45 else 0x46), 0x5D]

theorem appendShortLevel_valid (buf : Bytes) (l : Int) (h : l = 0 ∨ l = 4 ∨ l = 8 ∨ l = 12 ∨ l = 16) :
    Glb.Tr.Logger.appendShortLevel buf l false = .ok (buf ++ shortName l) := by
  rw [appendShortLevel_exact buf l (by omega)]
  rcases h with h | h | h | h | h <;> subst h <;> rfl

theorem appendShortLevel_debug (buf : Bytes) :
    Glb.Tr.Logger.appendShortLevel buf Glb.Generated.levelDebug false = .ok (buf ++ [0x5B, 0x44, 0x5D]) :=
  appendShortLevel_valid buf 0 (by omega)
theorem appendShortLevel_info (buf : Bytes) :
    Glb.Tr.Logger.appendShortLevel buf Glb.Generated.levelInfo false = .ok (buf ++ [0x5B, 0x49, 0x5D]) :=
  appendShortLevel_valid buf 4 (by omega)
theorem appendShortLevel_warn (buf : Bytes) :
    Glb.Tr.Logger.appendShortLevel buf Glb.Generated.levelWarn false = .ok (buf ++ [0x5B, 0x57, 0x5D]) :=
  appendShortLevel_valid buf 8 (by omega)
theorem appendShortLevel_error (buf : Bytes) :
    Glb.Tr.Logger.appendShortLevel buf Glb.Generated.levelError false = .ok (buf ++ [0x5B, 0x45, 0x5D]) :=
  appendShortLevel_valid buf 12 (by omega)
theorem appendShortLevel_fatal (buf : Bytes) :
    Glb.Tr.Logger.appendShortLevel buf Glb.Generated.levelFatal false = .ok (buf ++ [0x5B, 0x46, 0x5D]) :=
  appendShortLevel_valid buf 16 (by omega)

/-- no level outside `-2 … 17` (full) / `0 … 19` (short) survives: the call panics -/
theorem appendNanoSource_eq (buf file : Bytes) (line : Int) :
    Glb.Tr.Logger.appendNanoSource buf file line
      = .ok (buf ++ Glb.NanoHandler.appendNanoSource file (Lib.itoa line)) := by
  unfold Glb.Tr.Logger.appendNanoSource
  dsimp only
  rw [loop_eq (σ := Bool × Int) (ρ := Bytes)
    (Inv := fun st => -1 ≤ st.2 ∧ st.2 < file.length)
    (measure := fun st => (st.2 + 1).toNat)
    (model := fun st => if st.2 < 0 then .ok (.inl st) else
        .ok (.inl (finalFirst file st.2.toNat st.1,
                   (Glb.JsonHandler.sourceLoop file st.2.toNat st.1 : Int))))]
  · -- after the loop
    simp only [len_eq]
    have key := sliceFrom_trim file
    by_cases h : ((file.length : Int) - 1) < 0
    · simp only [h, ↓reduceIte] at key ⊢
      simp only [bind, Except.bind, pure, Except.pure, key, Lib.appendInt10,
        Glb.NanoHandler.appendNanoSource, ToInt.toInt, id]
      simp
    · have h2 : ((file.length : Int) - 1).toNat = file.length - 1 := by omega
      simp only [h, ↓reduceIte, h2] at key ⊢
      simp only [bind, Except.bind, pure, Except.pure, key, Lib.appendInt10,
        Glb.NanoHandler.appendNanoSource, ToInt.toInt, id]
      simp
  · source_loop_step
  · refine ⟨?_, ?_⟩ <;> (try simp) <;> omega
  · simp; omega


end Glb.Tie.TrLogger
