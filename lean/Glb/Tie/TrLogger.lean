/-
  Tie of the TRANSLATED `/repo/logger/{buffer,level,nano_handler,json_handler}.go`
  (Glb/Generated/TrLogger.lean, rewritten from the Go source on every run by tools/extract/golean.go)
  to the hand-written models the property theorems are about.
-/
import Glb.Go.Lemmas
import Glb.Generated.TrLogger
import Glb.Model.AuxLogger
import Glb.Model.JsonHandler
import Glb.Model.NanoHandler
import Glb.Model.TextHandler

namespace Glb.Tie.TrLogger
open Glb.Go

/-! ### payload erasure

`Glb.Go.idxI` / `Glb.Go.slice` and the models' own `idxI?` / `sliceI?` panic on exactly the same
inputs, but the payload of the panic for a NEGATIVE index differs (`.other "index<0"` vs
`.other "index out of range (negative)"`, `.other "slice<0"` vs `.other "slice bounds out of range
(negative)"`).  So every comparison below comes in two forms:
  * `…_eq`     : for ALL inputs, equality after `Except.toOption` (ok-results agree, and one side
                 errs iff the other errs);
  * `…_exact`  : exact equality (payloads included) whenever no negative index is formed. -/

theorem toOption_bind_congr {α β} {a a' : M α} {f f' : α → M β}
    (h : a.toOption = a'.toOption) (hf : ∀ x, (f x).toOption = (f' x).toOption) :
    (a >>= f).toOption = (a' >>= f').toOption := by
  cases a <;> cases a' <;> simp_all [Except.toOption, bind, Except.bind]

theorem idxI_toOption (s : Bytes) (i : Int) :
    (idxI s i).toOption = (Glb.Aux.DateTime.idxI? s i).toOption := by
  unfold idxI Glb.Aux.DateTime.idxI?
  by_cases h : 0 ≤ i
  · have h' : ¬ i < 0 := by omega
    simp [h, h']
  · have h' : i < 0 := by omega
    simp [h, h', Except.toOption]

theorem idxI_exact (s : Bytes) (i : Int) (h : 0 ≤ i) :
    idxI s i = Glb.Aux.DateTime.idxI? s i := by
  have h' : ¬ i < 0 := by omega
  simp [idxI, Glb.Aux.DateTime.idxI?, h, h']

theorem slice_toOption (s : Bytes) (lo hi : Int) :
    (slice s lo hi).toOption = (Glb.Aux.DateTime.sliceI? s lo hi).toOption := by
  unfold slice Glb.Aux.DateTime.sliceI?
  by_cases h : 0 ≤ lo ∧ 0 ≤ hi
  · have h' : ¬ (lo < 0 ∨ hi < 0) := by omega
    simp [h, h']
  · have h' : lo < 0 ∨ hi < 0 := by omega
    simp [h, h', Except.toOption]

theorem slice_exact (s : Bytes) (lo hi : Int) (h : 0 ≤ lo) (h2 : 0 ≤ hi) :
    slice s lo hi = Glb.Aux.DateTime.sliceI? s lo hi := by
  have h' : ¬ (lo < 0 ∨ hi < 0) := by omega
  simp [slice, Glb.Aux.DateTime.sliceI?, h, h2, h']

/-- Go's truncating division: the model's `goDiv` is the translator's `idiv` (= `Int.tdiv`) -/
theorem goDiv_eq_idiv (a : Int) : Glb.Aux.DateTime.goDiv a 100 = idiv a 100 := by
  unfold Glb.Aux.DateTime.goDiv idiv
  by_cases h : 0 ≤ a
  · simp [h, Int.tdiv_eq_ediv_of_nonneg h]
  · have hn : 0 ≤ -a := by omega
    have : a = -(-a) := by omega
    rw [if_neg h]
    conv => rhs; rw [this, Int.neg_tdiv, Int.tdiv_eq_ediv_of_nonneg hn]

/-! ### appendIntWidth1 … 4 -/

theorem appendIntWidth1_eq (buf : Bytes) (i : Int) :
    (Glb.Tr.Logger.appendIntWidth1 buf i).toOption
      = (Glb.Aux.DateTime.appendIntWidth1 buf i).toOption := by
  unfold Glb.Tr.Logger.appendIntWidth1 Glb.Aux.DateTime.appendIntWidth1
  simp only [idx_int, bind_assoc, pure_bind]
  exact toOption_bind_congr (idxI_toOption _ _) (fun _ => rfl)

theorem appendIntWidth1_exact (buf : Bytes) (i : Int) (h : 0 ≤ i) :
    Glb.Tr.Logger.appendIntWidth1 buf i = Glb.Aux.DateTime.appendIntWidth1 buf i := by
  unfold Glb.Tr.Logger.appendIntWidth1 Glb.Aux.DateTime.appendIntWidth1
  simp only [idx_int, bind_assoc, pure_bind]
  rw [idxI_exact _ _ (by omega)]

theorem appendIntWidth2_eq (buf : Bytes) (i : Int) :
    (Glb.Tr.Logger.appendIntWidth2 buf i).toOption
      = (Glb.Aux.DateTime.appendIntWidth2 buf i).toOption := by
  unfold Glb.Tr.Logger.appendIntWidth2 Glb.Aux.DateTime.appendIntWidth2
  simp only [bind_assoc, pure_bind]
  exact toOption_bind_congr (slice_toOption _ _ _) (fun _ => rfl)

theorem appendIntWidth2_exact (buf : Bytes) (i : Int) (h : 0 ≤ i) :
    Glb.Tr.Logger.appendIntWidth2 buf i = Glb.Aux.DateTime.appendIntWidth2 buf i := by
  unfold Glb.Tr.Logger.appendIntWidth2 Glb.Aux.DateTime.appendIntWidth2
  simp only [bind_assoc, pure_bind]
  rw [slice_exact _ _ _ (by omega) (by omega)]

theorem appendIntWidth3_eq (buf : Bytes) (i : Int) :
    (Glb.Tr.Logger.appendIntWidth3 buf i).toOption
      = (Glb.Aux.DateTime.appendIntWidth3 buf i).toOption := by
  unfold Glb.Tr.Logger.appendIntWidth3 Glb.Aux.DateTime.appendIntWidth3
  simp only [idx_int, bind_assoc, pure_bind, goDiv_eq_idiv]
  exact toOption_bind_congr (idxI_toOption _ _)
    (fun _ => toOption_bind_congr (slice_toOption _ _ _) (fun _ => rfl))

private theorem idiv100_nonneg (i : Int) (h : 0 ≤ i) :
    0 ≤ idiv i 100 ∧ 0 ≤ i - idiv i 100 * 100 := by
  unfold idiv
  rw [Int.tdiv_eq_ediv_of_nonneg h]
  omega

theorem appendIntWidth3_exact (buf : Bytes) (i : Int) (h : 0 ≤ i) :
    Glb.Tr.Logger.appendIntWidth3 buf i = Glb.Aux.DateTime.appendIntWidth3 buf i := by
  obtain ⟨h1, h2⟩ := idiv100_nonneg i h
  unfold Glb.Tr.Logger.appendIntWidth3 Glb.Aux.DateTime.appendIntWidth3
  simp only [idx_int, bind_assoc, pure_bind, goDiv_eq_idiv]
  rw [idxI_exact _ _ (by omega), slice_exact _ _ _ (by omega) (by omega)]

theorem appendIntWidth4_eq (buf : Bytes) (i : Int) :
    (Glb.Tr.Logger.appendIntWidth4 buf i).toOption
      = (Glb.Aux.DateTime.appendIntWidth4 buf i).toOption := by
  unfold Glb.Tr.Logger.appendIntWidth4 Glb.Aux.DateTime.appendIntWidth4
  simp only [bind_assoc, pure_bind, goDiv_eq_idiv]
  exact toOption_bind_congr (slice_toOption _ _ _)
    (fun _ => toOption_bind_congr (slice_toOption _ _ _) (fun _ => rfl))

theorem appendIntWidth4_exact (buf : Bytes) (i : Int) (h : 0 ≤ i) :
    Glb.Tr.Logger.appendIntWidth4 buf i = Glb.Aux.DateTime.appendIntWidth4 buf i := by
  obtain ⟨h1, h2⟩ := idiv100_nonneg i h
  unfold Glb.Tr.Logger.appendIntWidth4 Glb.Aux.DateTime.appendIntWidth4
  simp only [bind_assoc, pure_bind, goDiv_eq_idiv]
  rw [slice_exact _ _ _ (by omega) (by omega), slice_exact _ _ _ (by omega) (by omega)]

/-! ### appendDateTime -/

theorem appendDateTime_eq (buf : Bytes) (y mo d h mi s : Int) :
    (Glb.Tr.Logger.appendDateTime buf y mo d h mi s).toOption
      = (Glb.Aux.DateTime.appendDateTime buf y mo d h mi s).toOption := by
  unfold Glb.Tr.Logger.appendDateTime Glb.Aux.DateTime.appendDateTime
  simp only [ToInt.toInt, id]
  refine toOption_bind_congr (appendIntWidth4_eq _ _) (fun _ => ?_)
  refine toOption_bind_congr (appendIntWidth2_eq _ _) (fun _ => ?_)
  refine toOption_bind_congr (appendIntWidth2_eq _ _) (fun _ => ?_)
  refine toOption_bind_congr (appendIntWidth2_eq _ _) (fun _ => ?_)
  refine toOption_bind_congr (appendIntWidth2_eq _ _) (fun _ => ?_)
  exact appendIntWidth2_eq _ _

theorem appendDateTime_exact (buf : Bytes) (y mo d h mi s : Int)
    (hy : 0 ≤ y) (hmo : 0 ≤ mo) (hd : 0 ≤ d) (hh : 0 ≤ h) (hmi : 0 ≤ mi) (hs : 0 ≤ s) :
    Glb.Tr.Logger.appendDateTime buf y mo d h mi s
      = Glb.Aux.DateTime.appendDateTime buf y mo d h mi s := by
  unfold Glb.Tr.Logger.appendDateTime Glb.Aux.DateTime.appendDateTime
  simp only [ToInt.toInt, id, appendIntWidth4_exact _ _ hy,
    appendIntWidth2_exact _ _ hmo, appendIntWidth2_exact _ _ hd, appendIntWidth2_exact _ _ hh,
    appendIntWidth2_exact _ _ hmi, appendIntWidth2_exact _ _ hs]

/-! ### ValidLevel -/

/-- `n & 3 == 0` on `0 … 16` picks the multiples of four -/
private theorem iand3_small (n : Nat) (h : n ≤ 16) :
    (band (n : Int) 3 == 0) = decide (n = 0 ∨ n = 4 ∨ n = 8 ∨ n = 12 ∨ n = 16) := by
  have : n = 0 ∨ n = 1 ∨ n = 2 ∨ n = 3 ∨ n = 4 ∨ n = 5 ∨ n = 6 ∨ n = 7 ∨ n = 8 ∨ n = 9 ∨ n = 10
      ∨ n = 11 ∨ n = 12 ∨ n = 13 ∨ n = 14 ∨ n = 15 ∨ n = 16 := by omega
  rcases this with h | h | h | h | h | h | h | h | h | h | h | h | h | h | h | h | h <;> subst h <;> decide

/-- the bit test `l&3 == 0 && l >= 0 && l <= 16` accepts exactly the five named levels -/
theorem ValidLevel_eq (l : Int) :
    Glb.Tr.Logger.ValidLevel l = .ok (decide (l = 0 ∨ l = 4 ∨ l = 8 ∨ l = 12 ∨ l = 16)) := by
  unfold Glb.Tr.Logger.ValidLevel
  simp only [pure, Except.pure]
  congr 1
  by_cases h : 0 ≤ l ∧ l ≤ 16
  · obtain ⟨n, rfl⟩ : ∃ n : Nat, l = n := ⟨l.toNat, by omega⟩
    rw [iand3_small n (by omega)]
    have h1 : (n : Int) ≥ 0 := by omega
    have h2 : (n : Int) ≤ 16 := by omega
    simp only [h1, h2, decide_true, Bool.and_true]
    congr 1
    apply propext
    omega
  · have : ¬ (l = 0 ∨ l = 4 ∨ l = 8 ∨ l = 12 ∨ l = 16) := by omega
    simp only [this, decide_false]
    by_cases h1 : l ≥ 0
    · have h2 : ¬ l ≤ 16 := by omega
      simp [h2]
    · simp [h1]

/-- the same, in terms of the regenerated level constants -/
theorem ValidLevel_consts (l : Int) :
    Glb.Tr.Logger.ValidLevel l = .ok (decide (l ∈ [Glb.Generated.levelDebug, Glb.Generated.levelInfo,
      Glb.Generated.levelWarn, Glb.Generated.levelError, Glb.Generated.levelFatal])) := by
  rw [ValidLevel_eq]
  simp [Glb.Generated.levelDebug, Glb.Generated.levelInfo, Glb.Generated.levelWarn,
    Glb.Generated.levelError, Glb.Generated.levelFatal]

end Glb.Tie.TrLogger
