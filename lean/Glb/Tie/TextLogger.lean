/-
  Regenerated tie for C13: the tables read from /repo/logger/{json_handler,level}.go have the
  properties the Text-handler theorems rely on.  Re-proved by `decide` on every run.
-/
import Glb.Generated.StatusLogger
import Glb.Model.TextHandler
import Glb.Spec.TextExpected

namespace Glb.Tie.TextLogger
open Glb Glb.TextHandler

set_option maxRecDepth 100000

/-- the Go array type is `[utf8.RuneSelf]bool`: indexing with a byte < 0x80 cannot panic -/
theorem safeSet_length : Generated.safeSet.length = 128 := by decide

/-- `safeSet[b]` ↔ printable ASCII (DEL included) other than '"' and '\\' -/
theorem safeSet_spec : ∀ i ∈ List.range 128,
    Generated.safeSet.getD i false = (decide (0x20 ≤ i) && i != 0x22 && i != 0x5c) := by decide

/-- what `appendTextString` leaves unquoted among ASCII bytes: exactly the bytes above ' ' other than
    '=' and '"' -/
theorem ascii_bare_class : ∀ i ∈ List.range 128,
    (i != 0x5c && (i == 0x20 || i == 0x3d || !Generated.safeSet.getD i false))
      = !(decide (0x20 < i) && i != 0x3d && i != 0x22) := by decide

/-- `labelList[l+2]` (appendFullLevel, colour off) is the level's name for the five valid levels -/
theorem fullLevel_valid (l : Int) (h : TextExpected.validLevel l) :
    fullLevel l = .ok (TextExpected.levelName l) := by
  rcases h with h | h | h | h | h <;> subst h <;> rfl

/-- the extractor of this area recognised the source as it is on this run (a refusal removes `ok`) -/
theorem extractor_ok : Glb.Generated.StatusLogger.ok = () := rfl

end Glb.Tie.TextLogger
