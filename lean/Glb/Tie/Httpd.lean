/-
  Regenerated tie for C04/C05: the facts about `methodTagMap`, `routeParam`, `routeParamAny`
  (read from /repo/httpd/httpd.go and tree.go on every run) on which the router theorems rest.
  All keys of a `treeNode.next` map live in ONE namespace; the leading '/' of the reserved keys
  and of the method tags is what keeps them apart from path fragments (which never contain '/').
  A tag without the slash, two methods sharing a tag, or a tag equal to a reserved key breaks
  this file.  Adding a further method with a fresh "/tag" does not (only `methods_known` would
  then have to be extended, because the specification lists the methods it knows).
-/
import Glb.Generated.Httpd
import Glb.Spec.RouteList

namespace Glb.Tie.Httpd
open Glb.Generated

theorem reserved_slash : routeParam.head? = some 47 ∧ routeParamAny.head? = some 47 := by decide

theorem reserved_distinct : routeParam ≠ routeParamAny := by decide

theorem tags_slash : ∀ e ∈ methodTagMap, e.2.head? = some 47 := by decide

theorem tags_nodup : (methodTagMap.map (·.2)).Nodup := by decide

theorem methods_nodup : (methodTagMap.map (·.1)).Nodup := by decide

theorem tags_not_reserved : ∀ e ∈ methodTagMap, e.2 ≠ routeParam ∧ e.2 ≠ routeParamAny := by decide

theorem methodAll_star : methodAll = RouteList.methodAll := by decide

theorem methods_known :
    (∀ e ∈ methodTagMap, e.1 ∈ RouteList.knownMethods) ∧
    (∀ m ∈ RouteList.knownMethods, m ∈ methodTagMap.map (·.1)) := by decide

end Glb.Tie.Httpd
