/-
  Regenerated tie for C04/C05: the facts about `methodTagMap`, `routeParam`, `routeParamAny`
  (read from /repo/httpd/httpd.go and tree.go on every run) on which the router theorems rest.
  All keys of a `treeNode.next` map live in ONE namespace; the leading '/' of the reserved keys
  and of the method tags is what keeps them apart from path fragments (which never contain '/').
  A tag without the slash, two methods sharing a tag, or a tag equal to a reserved key breaks
  this file.  Adding a further method with a fresh "/tag" does not (only `methods_known` would
  then have to be extended, because the specification lists the methods it knows).
-/
import Glb.Generated.StatusHttpd
import Glb.Generated.Httpd
import Glb.Spec.RouteList

namespace Glb.Tie.Httpd
open Glb.Generated

theorem reserved_slash : routeParam.head? = some 47 ∧ routeParamAny.head? = some 47 := by decide

theorem reserved_distinct : routeParam ≠ routeParamAny := by decide

theorem tags_slash : ∀ e ∈ methodTagMap, e.2.head? = some 47 := by decide

theorem tags_nodup : (methodTagMap.map (·.2)).Nodup := by decide

theorem methods_nodup : (methodTagMap.map (·.1)).Nodup := by decide

theorem tags_not_reserved : ∀ e ∈ methodTagMap, e.2 ≠ routeParam ∧ e.2 ≠ routeParamAny := by decide

theorem methodAll_star : methodAll = RouteList.methodAll := by decide

theorem methods_known :
    (∀ e ∈ methodTagMap, e.1 ∈ RouteList.knownMethods) ∧
    (∀ m ∈ RouteList.knownMethods, m ∈ methodTagMap.map (·.1)) := by decide

/-! ### the request counter behind the Store ids (C05)

`Props/C05` counts requests in `Nat` and writes the number with `render36`.  The code counts in a
fixed-width unsigned field; the two agree as long as the counter has not wrapped, which for the
extracted width is `2^64` requests of one Mux (an explicit assumption of C05, not checkable by running).
A narrower field, another step or another base breaks this file. -/

theorem id_counter_shape :
    storeIDBits = 64 ∧ storeIDAddBits = storeIDBits ∧ storeIDStep = 1 ∧ storeIDBase = 36 := by decide

/-- below the width of the field the machine counter IS the natural number the model counts with -/
theorem id_counter_exact (n : Nat) (h : n < 2 ^ storeIDBits) : n % 2 ^ storeIDBits = n :=
  Nat.mod_eq_of_lt h

/-- the extractor of this area recognised the source as it is on this run (a refusal removes `ok`) -/
theorem extractor_ok : Glb.Generated.StatusHttpd.ok = () := rfl

end Glb.Tie.Httpd
