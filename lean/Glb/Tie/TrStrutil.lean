/-
  Tie of the TRANSLATED `/repo/util/strutil/strutil.go` (Glb/Generated/TrStrutil.lean, rewritten from
  the Go source on every run by tools/extract/golean.go) to the hand-written models the property
  theorems are about.  Every theorem here is `translated function = model`, for every input, so the
  theorems of Props/AuxFns and Props/C09 (Underscore) hold of the code as it is now; a change of the Go source
  changes the generated definitions and these proofs stop checking.
-/
import Glb.Go.Lemmas
import Glb.Generated.TrStrutil
import Glb.Model.AuxStrutil
import Glb.Model.Strutil

namespace Glb.Tie.TrStrutil
open Glb.Go Glb.Tr.Strutil
open Glb.Config (isLower isUpper isDigit)

/-! ### IsDigitString -/

theorem IsDigitString_eq (s : Bytes) :
    IsDigitString s = .ok (Glb.Aux.Str.isDigitString s) := by
  unfold IsDigitString
  dsimp only
  rw [loop_eq (σ := Int) (ρ := Bool)
    (Inv := fun i => 0 ≤ i ∧ i ≤ s.length)
    (measure := fun i => ((s.length : Int) - i).toNat)
    (model := fun i => .ok (if Glb.Aux.Str.allDigitsGo (s.drop i.toNat) then .inl (s.length : Int) else .inr false))]
  · -- after the loop
    simp only [bind, Except.bind, pure, Except.pure, Glb.Aux.Str.isDigitString, Int.toNat_zero, List.drop_zero]
    cases h : Glb.Aux.Str.allDigitsGo s
    · simp
    · cases s <;> simp
  · -- one evaluation
    intro i ⟨h0, hl⟩
    obtain ⟨n, rfl⟩ : ∃ n : Nat, i = n := ⟨i.toNat, by omega⟩
    simp only [StepOK, pure, Except.pure, len_eq, Int.toNat_natCast]
    by_cases hn : n < s.length
    · obtain ⟨c, rest, hd⟩ : ∃ c rest, s.drop n = c :: rest := by
        cases h : s.drop n with
        | nil => have := length_of_drop_nil s n h; omega
        | cons c rest => exact ⟨c, rest, rfl⟩
      have hc := idx_drop s n c rest hd
      have hrest := drop_succ_of_drop s n c rest hd
      have hn' : ((n : Int) < (s.length : Int)) := by omega
      simp only [hn', decide_true, hc, bind, Except.bind, hd, Glb.Aux.Str.allDigitsGo]
      by_cases h1 : c < 48
      · simp [h1]
      · by_cases h2 : c > 57
        · simp [h1, h2]
        · have h2' : ¬ 57 < c := h2
          simp only [h1, h2, decide_false, Bool.false_eq_true, if_false, Bool.or_self]
          refine ⟨⟨by omega, by omega⟩, by omega, ?_⟩
          have : ((n : Int) + 1).toNat = n + 1 := by omega
          rw [this, hrest]
    · have hn' : ¬ ((n : Int) < (s.length : Int)) := by omega
      have : s.drop n = [] := List.drop_of_length_le (by omega)
      simp [hn', this, Glb.Aux.Str.allDigitsGo]
      omega
  · simp
  · simp; omega

/-! ### SliceContain -/

theorem SliceContain_eq (slice : List Bytes) (value : Bytes) :
    SliceContain slice value = .ok (Glb.Aux.Str.sliceContain slice value) := by
  unfold SliceContain
  dsimp only
  rw [loop_eq (σ := Int) (ρ := Bool)
    (Inv := fun i => 0 ≤ i ∧ i ≤ slice.length)
    (measure := fun i => ((slice.length : Int) - i).toNat)
    (model := fun i => .ok (if Glb.Aux.Str.sliceContain (slice.drop i.toNat) value then .inr true
                            else .inl (slice.length : Int)))]
  · simp only [bind, Except.bind, pure, Except.pure, Int.toNat_zero, List.drop_zero]
    cases h : Glb.Aux.Str.sliceContain slice value <;> simp
  · intro i ⟨h0, hl⟩
    obtain ⟨n, rfl⟩ : ∃ n : Nat, i = n := ⟨i.toNat, by omega⟩
    simp only [StepOK, pure, Except.pure, len_eq, Int.toNat_natCast]
    by_cases hn : n < slice.length
    · obtain ⟨c, rest, hd⟩ : ∃ c rest, slice.drop n = c :: rest := by
        cases h : slice.drop n with
        | nil => have := length_of_drop_nil slice n h; omega
        | cons c rest => exact ⟨c, rest, rfl⟩
      have hc := idx_drop slice n c rest hd
      have hrest := drop_succ_of_drop slice n c rest hd
      have hn' : ((n : Int) < (slice.length : Int)) := by omega
      simp only [hn', decide_true, hc, bind, Except.bind, hd, Glb.Aux.Str.sliceContain]
      by_cases h1 : value = c
      · simp [h1]
      · simp only [h1, beq_iff_eq, if_false]
        refine ⟨⟨by omega, by omega⟩, by omega, ?_⟩
        have : ((n : Int) + 1).toNat = n + 1 := by omega
        rw [this, hrest]
    · have hn' : ¬ ((n : Int) < (slice.length : Int)) := by omega
      have : slice.drop n = [] := List.drop_of_length_le (by omega)
      simp [hn', this, Glb.Aux.Str.sliceContain]
      omega
  · simp
  · simp; omega

/-! ### Camelize -/

/-- the value of Camelize's `upper` variable when its loop ends (not used by the code after the
    loop, needed only to name the loop's final state) -/
def camUpperGo : Bool → Bool → Bytes → Bool
  | u, _, [] => u
  | upper, ne, c :: rest =>
    if isLower c then camUpperGo false true rest
    else if isUpper c then camUpperGo false true rest
    else if isDigit c then camUpperGo upper true rest
    else camUpperGo (ne || upper) ne rest

theorem Camelize_eq (s : Bytes) (upper : Bool) :
    Camelize s upper = .ok (Glb.Aux.Str.camelize s upper) := by
  unfold Camelize
  dsimp only
  rw [loop_eq (σ := Bool × Bytes × Int) (ρ := Bytes)
    (Inv := fun st => 0 ≤ st.2.2 ∧ st.2.2 ≤ s.length)
    (measure := fun st => ((s.length : Int) - st.2.2).toNat)
    (model := fun st => .ok (.inl
      (camUpperGo st.1 (decide ((st.2.1.length : Int) > 0)) (s.drop st.2.2.toNat),
       st.2.1 ++ Glb.Aux.Str.camelizeGo st.1 (decide ((st.2.1.length : Int) > 0)) (s.drop st.2.2.toNat),
       (s.length : Int))))]
  · simp [bind, Except.bind, pure, Except.pure, Glb.Aux.Str.camelize, Glb.Go.toStr]
  · intro ⟨u, buf, i⟩ ⟨h0, hl⟩
    dsimp only at h0 hl
    obtain ⟨n, rfl⟩ : ∃ n : Nat, i = n := ⟨i.toNat, by omega⟩
    simp only [StepOK, pure, Except.pure, len_eq, Int.toNat_natCast]
    by_cases hn : n < s.length
    · obtain ⟨c, rest, hd⟩ : ∃ c rest, s.drop n = c :: rest := by
        cases h : s.drop n with
        | nil => have := length_of_drop_nil s n h; omega
        | cons c rest => exact ⟨c, rest, rfl⟩
      have hc := idx_drop s n c rest hd
      have hrest := drop_succ_of_drop s n c rest hd
      have hn' : ((n : Int) < (s.length : Int)) := by omega
      have hn1 : ((n : Int) + 1).toNat = n + 1 := by omega
      simp only [hn', decide_true, hc, bind, Except.bind, hd, Glb.Aux.Str.camelizeGo, camUpperGo,
        isLower, isUpper, isDigit]
      by_cases h1 : (decide (97 ≤ c) && decide (c ≤ 122)) = true
      · cases u <;>
          simp [h1, hn1, hrest] <;> omega
      · by_cases h2 : (decide (65 ≤ c) && decide (c ≤ 90)) = true
        · cases u <;>
            simp [h1, h2, hn1, hrest] <;> omega
        · by_cases h3 : (decide (48 ≤ c) && decide (c ≤ 57)) = true
          · simp [h1, h2, h3, hn1, hrest] <;> omega
          · simp [h1, h2, h3, hn1, hrest] <;> omega
    · have hn' : ¬ ((n : Int) < (s.length : Int)) := by omega
      have : s.drop n = [] := List.drop_of_length_le (by omega)
      simp [hn', this, Glb.Aux.Str.camelizeGo, camUpperGo]
      omega
  · simp
  · simp; omega

end Glb.Tie.TrStrutil
