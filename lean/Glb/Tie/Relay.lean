/-
  Regenerated tie for C15: what `tools/extract` read from /repo/logger/httpd.go and
  /repo/httpd/store.go satisfies the ordering facts the theorems of Props/C15 rest on.
  Re-proved by `decide` on every run.  Predicates over the extracted event lists, so that
  harmless rewrites (more attributes, extra local computation) keep passing; the one equality
  (`prog_is`) says that the interpreted parameters are those the theorems were proved for.
-/
import Glb.Generated.StatusRelay
import Glb.Proofs.Relay

namespace Glb.Tie.Relay
open Glb.Relay Glb.Generated

/-- position of the first occurrence -/
def pos (l : List String) (s : String) : Option Nat := l.idxOf? s

/-- `a` occurs, `b` occurs, and the first `a` is before the first `b` -/
def before (l : List String) (a b : String) : Bool :=
  match pos l a, pos l b with
  | some i, some j => i < j
  | _, _ => false

def once (l : List String) (s : String) : Bool := l.count s == 1

/-- the model interprets exactly the program the theorems of C15 were proved for -/
theorem prog_is : prog = progNow := prog_eq

/-- REQ_BEG is written before the handler runs, under `Enabled(LevelInfo)`; the handler is called
    once, unconditionally, after both `defer`s -/
theorem beg_then_defers_then_handler :
    before relayEvents "log:4:REQ_BEG" "defer:end" = true
    ∧ before relayEvents "defer:recover" "callHandler" = true
    ∧ once relayEvents "callHandler" = true
    ∧ relayBody.getLast? = some "callHandler" := by decide

/-- the recover function is registered AFTER the REQ_END function, hence (LIFO) runs first: the
    500 it may send is visible to REQ_END -/
theorem recover_runs_first :
    before relayEvents "defer:end" "defer:recover" = true
    ∧ once relayEvents "defer:end" = true ∧ once relayEvents "defer:recover" = true := by decide

/-- REQ_END is deferred (not written inline), guarded by `Enabled(LevelInfo)`, defaults
    `Status 0 → 200` before it logs `code = Status` -/
theorem req_end_deferred :
    relayEvents.all (fun e => e != "log:4:REQ_END") = true
    ∧ before relayEndEvents "guard:Enabled:4" "log:4:REQ_END" = true
    ∧ before relayEndEvents "set:Status=200" "log:4:REQ_END" = true
    ∧ relayEndDefault = some (0, 200) ∧ relayEndLogsStatus = true := by decide

/-- `recover()` is called by the deferred function itself; the handled values are exactly
    `err != nil && err != http.ErrAbortHandler` -/
theorem recover_condition :
    relayRecoverEvents.take 3 = ["recover", "cond:err!=nil", "cond:err!=http.ErrAbortHandler"]
    ∧ relayRecoverEvents.all (fun e => e != "recover-in-nested-func") = true
    ∧ relayRecovers = true ∧ relayNilExcluded = true ∧ relayAbortExcluded = true := by decide

/-- `http.Error(…, 500)` only under `if store.W.Status == 0` -/
theorem error500_only_when_unset :
    relay500Code = some 500 ∧ relay500Guard = some 0
    ∧ before relayRecoverEvents "if:Status==0" "httpError:500" = true
    ∧ once relayRecoverEvents "httpError:500" = true := by decide

/-- the Error record: level Error, guarded by `Enabled(LevelError)`, carries the recovered value
    and the request id -/
theorem error_record :
    before relayRecoverEvents "guard:Enabled:12" "log:12:" = true
    ∧ "panic=err" ∈ relayErrAttrs ∧ "tid=store.GetID()" ∈ relayErrAttrs
    ∧ relayErrHasValueAndID = true := by decide

/-- REQ_BEG and REQ_END carry the same four request attributes (same expressions) -/
theorem same_request_fields :
    ∀ a ∈ ["ip=remoteIP", "method=store.R.Method", "path=store.R.RequestURI", "tid=store.GetID()"],
      a ∈ relayBegAttrs ∧ a ∈ relayEndAttrs := by decide

/-- the level gates are the logger's own constants -/
theorem level_gates :
    relayBegLevel = some Relay.levelInfo ∧ relayEndLevel = some Relay.levelInfo
    ∧ relayErrLevel = some Relay.levelError := by decide

/-- `ResponseWriter.Write` sends the implicit 200 through `WriteHeader` when `Status == 0`;
    `WriteHeader` forwards to the origin and records the code -/
theorem store_records_status :
    storeWriteImplicit = some (0, 200) ∧ storeWriteHeaderRecords = true
    ∧ before storeWriteEvents "WriteHeader:200" "origin.Write" = true
    ∧ "origin.WriteHeader:code" ∈ storeWriteHeaderEvents
    ∧ "set:Status=code" ∈ storeWriteHeaderEvents := by decide

/-- `Flush` and `FlushError` record the implicit 200 (`if Status == 0 { WriteHeader(200) }`, via
    `markFlushed`) in every branch BEFORE the origin flushes and sends it -/
theorem flush_records_status :
    storeFlushImplicit = some (0, 200)
    ∧ prog.flushImplicit = prog.writeImplicit
    ∧ storeFlushEvents.count "origin.Flush" = 1
    ∧ (storeFlushErrorEvents.count "origin.Flush" + storeFlushErrorEvents.count "origin.FlushError"
        = storeFlushErrorEvents.count "markFlushed" + storeFlushErrorEvents.count "WriteHeader:200") := by
  decide

/-- The model's `RW` has exactly three status-relevant entry points: `WriteHeader`, `Write` and
    the flushes (through `markFlushed`).  That is sound only while `ResponseWriter` has no other
    way to put a header on the wire: this lemma pins the COMPLETE method set declared in package
    httpd (all non-test files) to `Header, Write, WriteHeader, Flush, markFlushed, FlushError`
    and demands that the struct embeds nothing (an embedded http.ResponseWriter would promote the
    origin's methods).  Any further method — `ReadFrom`, `WriteString`, `Unwrap`, `Hijack`,
    `Push`, … — can reach `w.Origin` without going through `Write`/`WriteHeader`/`markFlushed`
    (io.Copy, io.WriteString and http.ResponseController look for exactly such methods) and so
    breaks the assumption under which `relay_contract` speaks about the code; it must be added
    to the model (as `flush` was) before this lemma may be changed.  `Header` only exposes the
    header map and sends nothing. -/
theorem response_writer_method_set :
    storeRWMethodsSorted = ["Flush", "FlushError", "Header", "Write", "WriteHeader", "markFlushed"]
    ∧ storeRWMethods.length = 6
    ∧ storeRWEmbedded = []
    ∧ storeRWFields = ["Origin http.ResponseWriter", "Status int"] := by decide

/-- the extractor of this area recognised the source as it is on this run (a refusal removes `ok`) -/
theorem extractor_ok : Glb.Generated.StatusRelay.ok = () := rfl

end Glb.Tie.Relay
