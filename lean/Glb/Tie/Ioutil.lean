/-
  Regenerated tie for C19: the statement lists the extractor reads from
  /repo/util/ioutil/progress.go *are* the lists `Progress.prodSteps` interprets.  Re-proved by
  `decide` on every run.  A blocking send in `sum` (`.sendSize` instead of `.trySendSize`), a
  missing final send or `close` in `Close`, `pw.size += n` after the send, a buffered status
  channel, a `sum` that is not called on the error path (an `if err == nil` → `.unknown`) … each
  changes a generated list and breaks one of these lemmas.
-/
import Glb.Generated.StatusIoutil
import Glb.Model.Progress

namespace Glb.Tie.Ioutil
open Glb.Progress

theorem sum_tie : Generated.pwSum = sumProg := by decide

theorem close_tie : Generated.pwClose = closeProg := by decide

theorem write_tie : Generated.pwWrite = writeProg := by decide

theorem writeString_tie : Generated.pwWriteString = writeStringProg := by decide

/-- `status: make(chan int)`: unbuffered, as the model's rendezvous semantics assumes -/
theorem status_unbuffered : Generated.pwStatusCap = some 0 := by decide

/-- order facts the theorems rest on, stated as predicates over the generated lists (they follow
    from the equalities above; kept separately so that the evidence names them) -/
theorem sum_adds_before_offering :
    Generated.pwSum.idxOf .addSize < Generated.pwSum.idxOf .trySendSize ∧
    ¬ Generated.IoAct.sendSize ∈ Generated.pwSum := by decide

theorem close_sends_then_closes :
    Generated.pwClose.idxOf .sendSize < Generated.pwClose.idxOf .closeStatus ∧
    Generated.pwClose.idxOf .closeStatus < Generated.pwClose.length := by decide

theorem write_always_sums :
    Generated.pwWrite.idxOf .callSum = 1 ∧ Generated.pwWriteString.idxOf .callSum = 1 := by decide

/-- the extractor of this area recognised the source as it is on this run (a refusal removes `ok`) -/
theorem extractor_ok : Glb.Generated.StatusIoutil.ok = () := rfl

end Glb.Tie.Ioutil
