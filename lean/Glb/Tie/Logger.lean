/-
  Regenerated tie for the logger properties (C01, C13, …): the tables read from
  /repo/logger/{json_handler,level}.go are what the theorems assume them to be.
  Re-proved by `decide` on every run; a changed table entry breaks this file.
-/
import Glb.Generated.StatusLogger
import Glb.Model.JsonHandler
import Glb.Spec.Json

namespace Glb.Tie.Logger
open Glb Glb.JsonHandler

set_option maxRecDepth 8000 in
/-- `safeSet` is a `[utf8.RuneSelf]bool`: every index `b < 0x80` is in range -/
theorem safeSet_length : Generated.safeSet.length = 128 := by decide

set_option maxRecDepth 8000 in
/-- `safeSet[b]` ⇔ `0x20 ≤ b < 0x80 ∧ b ≠ '"' ∧ b ≠ '\\'` — all 128 entries -/
theorem safeSet_spec : ∀ n ∈ List.range 128,
    Generated.safeSet[n]? = some (decide (0x20 ≤ n ∧ n ≠ 0x22 ∧ n ≠ 0x5C)) := by decide

/-- `hex = "0123456789abcdef"` -/
theorem hex_spec : Generated.hex =
    [0x30, 0x31, 0x32, 0x33, 0x34, 0x35, 0x36, 0x37, 0x38, 0x39, 0x61, 0x62, 0x63, 0x64, 0x65, 0x66] := by
  decide

theorem hex_length : Generated.hex.length = 16 := by decide

/-- the five level constants -/
theorem level_constants : Generated.levelDebug = 0 ∧ Generated.levelInfo = 4 ∧ Generated.levelWarn = 8 ∧
    Generated.levelError = 12 ∧ Generated.levelFatal = 16 := by decide

/-- uncoloured full labels: `labelList[level+2]` is DEBUG / INFO / WARN / ERROR / FATAL, so
    `appendFullLevel(buf, l, false)` never panics for a valid level and writes the level's name -/
theorem labelList_full :
    fullLevel Generated.levelDebug = .ok (Json.levelName Generated.levelDebug) ∧
    fullLevel Generated.levelInfo = .ok (Json.levelName Generated.levelInfo) ∧
    fullLevel Generated.levelWarn = .ok (Json.levelName Generated.levelWarn) ∧
    fullLevel Generated.levelError = .ok (Json.levelName Generated.levelError) ∧
    fullLevel Generated.levelFatal = .ok (Json.levelName Generated.levelFatal) := ⟨rfl, rfl, rfl, rfl, rfl⟩

/-- uncoloured short labels: `labelList[level]` is `[D] [I] [W] [E] [F]` (Text/Nano handlers) -/
theorem labelList_short :
    Generated.labelList[0]? = some [0x5B, 0x44, 0x5D] ∧ Generated.labelList[4]? = some [0x5B, 0x49, 0x5D] ∧
    Generated.labelList[8]? = some [0x5B, 0x57, 0x5D] ∧ Generated.labelList[12]? = some [0x5B, 0x45, 0x5D] ∧
    Generated.labelList[16]? = some [0x5B, 0x46, 0x5D] := by decide

/-- `Spec.validLevel` is exactly the set of the five constants -/
theorem validLevel_iff (l : Int) : Json.validLevel l = true ↔
    l ∈ [Generated.levelDebug, Generated.levelInfo, Generated.levelWarn, Generated.levelError,
         Generated.levelFatal] := by
  simp [Json.validLevel, Generated.levelDebug, Generated.levelInfo, Generated.levelWarn,
    Generated.levelError, Generated.levelFatal]
  omega

/-- the extractor of this area recognised the source as it is on this run (a refusal removes `ok`) -/
theorem extractor_ok : Glb.Generated.StatusLogger.ok = () := rfl

end Glb.Tie.Logger
