/-
  Specification of the TRANSLATED `ReadRand` (`/repo/util/ioutil/ioutil.go`,
  Glb/Generated/TrIoutil.lean, rewritten from the Go source on every run by tools/extract/golean.go).
  There is no hand model for this function: the specification (`leBytes`, `stream`, `fill`) is
  written here.  `draws` = the successive results of `r.Uint64()` (an exhausted list yields 0).
-/
import Glb.Go.Lemmas
import Glb.Go.LemmasJsonString
import Glb.Generated.TrIoutil

namespace Glb.Tie.TrIoutil
open Glb.Go Glb.Tr.Ioutil

/-- the 8 little-endian bytes of a 64-bit word -/
def leBytes (w : UInt64) : Bytes :=
  [w.toUInt8, (w >>> 8).toUInt8, (w >>> 16).toUInt8, (w >>> 24).toUInt8,
   (w >>> 32).toUInt8, (w >>> 40).toUInt8, (w >>> 48).toUInt8, (w >>> 56).toUInt8]

/-- byte `i` of the concatenation of `leBytes` of the draws (an exhausted source draws 0):
    byte `i % 8` (little-endian) of draw `i / 8` -/
def stream (draws : List UInt64) (i : Nat) : UInt8 :=
  (leBytes (draws.getD (i / 8) 0)).getD (i % 8) 0

/-- the first `n` bytes of the stream -/
def fill (draws : List UInt64) (n : Nat) : Bytes := (List.range n).map (stream draws)

@[simp] theorem fill_length (draws : List UInt64) (n : Nat) : (fill draws n).length = n := by
  simp [fill]

theorem fill_succ (draws : List UInt64) (n : Nat) :
    fill draws (n + 1) = fill draws n ++ [stream draws n] := by
  simp [fill, List.range_succ]

theorem fill_getElem? (draws : List UInt64) (n i : Nat) (h : i < n) :
    (fill draws n)[i]? = some (stream draws i) := by
  simp [fill, h]

private theorem leBytes_getD (w : UInt64) (j : Nat) (hj : j < 8) :
    ((leBytes w).getD j 0).toNat = (w.toNat >>> (8 * j)) % 256 := by
  match j, hj with
  | 0, _ => simp [leBytes]
  | 1, _ => simp [leBytes, UInt64.toNat_shiftRight]
  | 2, _ => simp [leBytes, UInt64.toNat_shiftRight]
  | 3, _ => simp [leBytes, UInt64.toNat_shiftRight]
  | 4, _ => simp [leBytes, UInt64.toNat_shiftRight]
  | 5, _ => simp [leBytes, UInt64.toNat_shiftRight]
  | 6, _ => simp [leBytes, UInt64.toNat_shiftRight]
  | 7, _ => simp [leBytes, UInt64.toNat_shiftRight]
  | n + 8, h => omega

/-- the loop invariant of `ReadRand` for the state `(val, draws, pos, buf, n)` -/
private def RInv (draws0 : List UInt64) (buf0 : Bytes)
    (st : UInt64 × List UInt64 × UInt64 × Bytes × Int) : Prop :=
  ∃ k : Nat, st.2.2.2.2 = (k : Int) ∧ k ≤ buf0.length ∧
    st.2.2.2.1 = fill draws0 k ++ buf0.drop k ∧
    st.2.1 = draws0.drop ((k + 7) / 8) ∧
    st.2.2.1.toNat = (8 - k % 8) % 8 ∧
    (k % 8 ≠ 0 → st.1.toNat = (draws0.getD (k / 8) 0).toNat >>> (8 * (k % 8)))

theorem ReadRand_spec (draws : List UInt64) (buf : Bytes) :
    ReadRand draws buf =
      .ok (fill draws buf.length, draws.drop ((buf.length + 7) / 8), (buf.length : Int), false) := by
  unfold ReadRand
  dsimp only
  refine loop_inv_bind (RInv draws buf)
    (fun st => ((buf.length : Int) - st.2.2.2.2).toNat) ?_ ?_ ?_ ?_
  · -- one evaluation
    intro ⟨val, ds, pos, b, n⟩ ⟨k, hn, hk, hb, hds, hpos, hval⟩
    dsimp only at hn hk hb hds hpos hval
    subst hn hb hds
    simp only [StepInv, pure, Except.pure, len_eq]
    have hlen : (fill draws k ++ List.drop k buf).length = buf.length := by
      simp; omega
    simp only [hlen]
    by_cases hlt : k < buf.length
    · have hlt' : ((k : Int) < (buf.length : Int)) := by omega
      have hset : ∀ v, Glb.Go.set (fill draws k ++ List.drop k buf) (k : Int) v =
          .ok (fill draws k ++ v :: List.drop (k + 1) buf) := by
        intro v
        have h1 : (0 : Int) ≤ (k : Int) ∧ (k : Int).toNat < (fill draws k ++ List.drop k buf).length := by
          rw [hlen]; exact ⟨by omega, by simpa using hlt⟩
        rw [Glb.Go.set, if_pos h1, Int.toNat_natCast,
          List.set_append_right k v (by simp), fill_length, Nat.sub_self,
          List.drop_eq_getElem_cons hlt, List.set_cons_zero]
      have hbyte : ∀ v : UInt64,
          v.toNat = (draws.getD (k / 8) 0).toNat >>> (8 * (k % 8)) → v.toUInt8 = stream draws k := by
        intro v hv
        apply UInt8.toNat_inj.mp
        rw [UInt64.toNat_toUInt8, stream, leBytes_getD _ _ (Nat.mod_lt _ (by omega)), hv]
      have hmeas : ((buf.length : Int) - ((k : Int) + 1)).toNat < ((buf.length : Int) - (k : Int)).toNat := by
        omega
      simp only [hlt', decide_true, hset, bind, Except.bind, beq_iff_eq]
      by_cases hp0 : pos = 0
      · subst hp0
        have hk8 : k % 8 = 0 := by
          have : (0 : UInt64).toNat = 0 := rfl
          omega
        have hhd : (List.drop ((k + 7) / 8) draws).headD 0 = draws.getD (k / 8) 0 := by
          have : (k + 7) / 8 = k / 8 := by omega
          rw [this, List.headD_eq_head?_getD, List.head?_drop, List.getD_eq_getElem?_getD]
        simp only [if_true, hhd]
        refine ⟨⟨k + 1, by push_cast; rfl, by omega, ?_, ?_, ?_, ?_⟩, hmeas⟩
        · dsimp only
          have : (ToByte.toByte (draws.getD (k / 8) 0) : UInt8) = stream draws k :=
            hbyte _ (by simp [hk8])
          rw [this, fill_succ]; simp
        · dsimp only
          have : (k + 1 + 7) / 8 = (k + 7) / 8 + 1 := by omega
          rw [this, List.tail_drop]
        · dsimp only
          have : ((8 : UInt64) - 1).toNat = 7 := rfl
          omega
        · dsimp only
          intro _
          have : (k + 1) % 8 = 1 := by omega
          have h2 : (k + 1) / 8 = k / 8 := by omega
          rw [this, h2, shr, UInt64.toNat_shiftRight]
          rfl
      · have hp1 : pos.toNat ≠ 0 := by
          intro h
          apply hp0
          apply UInt64.toNat_inj.mp
          simpa using h
        have hk8 : k % 8 ≠ 0 := by omega
        have hv := hval hk8
        simp only [hp0, if_false]
        refine ⟨⟨k + 1, by push_cast; rfl, by omega, ?_, ?_, ?_, ?_⟩, hmeas⟩
        · dsimp only
          have : (ToByte.toByte val : UInt8) = stream draws k := hbyte _ hv
          rw [this, fill_succ]; simp
        · dsimp only
          have : (k + 1 + 7) / 8 = (k + 7) / 8 := by omega
          rw [this]
        · dsimp only
          have h1 : (1 : UInt64) ≤ pos := by
            rw [UInt64.le_iff_toNat_le]
            have : (1 : UInt64).toNat = 1 := rfl
            omega
          rw [UInt64.toNat_sub_of_le _ _ h1]
          have : (1 : UInt64).toNat = 1 := rfl
          omega
        · dsimp only
          intro h8
          have h1 : (k + 1) % 8 = k % 8 + 1 := by omega
          have h2 : (k + 1) / 8 = k / 8 := by omega
          rw [h1, h2, shr, UInt64.toNat_shiftRight, hv, Nat.mul_add, Nat.shiftRight_add]
          rfl
    · have hlt' : ¬ ((k : Int) < (buf.length : Int)) := by omega
      simp only [hlt', decide_false]
  · -- the invariant holds initially
    exact ⟨0, rfl, by omega, by simp [fill], by simp, by simp, by simp⟩
  · -- the fuel suffices
    simp; omega
  · -- after the loop
    intro ⟨val, ds, pos, b, n⟩ ⟨k, hn, hk, hb, hds, hpos, hval⟩ hc
    dsimp only at hn hk hb hds hpos hval hc
    subst hn hb hds
    have hlen : (fill draws k ++ List.drop k buf).length = buf.length := by
      simp; omega
    simp only [pure, Except.pure, len_eq, hlen] at hc
    have hge : ¬ ((k : Int) < (buf.length : Int)) := by
      intro h
      simp [h] at hc
    have hkl : k = buf.length := by omega
    subst hkl
    simp [pure, Except.pure]

/-! ### corollaries (each also says that `ReadRand` does not panic) -/

/-- the result buffer has the length of `buf` -/
theorem ReadRand_length (draws : List UInt64) (buf : Bytes) :
    ∃ r, ReadRand draws buf = .ok r ∧ r.1.length = buf.length :=
  ⟨_, ReadRand_spec draws buf, by simp⟩

/-- "It always returns len(buf)" -/
theorem ReadRand_n (draws : List UInt64) (buf : Bytes) :
    ∃ r, ReadRand draws buf = .ok r ∧ r.2.2.1 = (buf.length : Int) :=
  ⟨_, ReadRand_spec draws buf, rfl⟩

/-- "… and a nil error" -/
theorem ReadRand_nil_err (draws : List UInt64) (buf : Bytes) :
    ∃ r, ReadRand draws buf = .ok r ∧ r.2.2.2 = false :=
  ⟨_, ReadRand_spec draws buf, rfl⟩

/-- exactly ⌈len(buf)/8⌉ draws are consumed -/
theorem ReadRand_draws (draws : List UInt64) (buf : Bytes) :
    ∃ r, ReadRand draws buf = .ok r ∧ r.2.1 = draws.drop ((buf.length + 7) / 8) :=
  ⟨_, ReadRand_spec draws buf, rfl⟩

/-- every byte of `buf` is overwritten: byte `i` of the result is byte `i % 8` of draw `i / 8` -/
theorem ReadRand_byte (draws : List UInt64) (buf : Bytes) (i : Nat) (h : i < buf.length) :
    ∃ r, ReadRand draws buf = .ok r ∧ r.1[i]? = some (stream draws i) :=
  ⟨_, ReadRand_spec draws buf, fill_getElem? draws buf.length i h⟩

/-! ### the specification functions in closed form -/

/-- the numeric value of stream byte `i` -/
theorem stream_toNat (draws : List UInt64) (i : Nat) :
    (stream draws i).toNat = ((draws.getD (i / 8) 0).toNat >>> (8 * (i % 8))) % 256 := by
  rw [stream, leBytes_getD _ _ (Nat.mod_lt _ (by omega))]

@[simp] theorem leBytes_length (w : UInt64) : (leBytes w).length = 8 := rfl

private theorem flatMap_leBytes_getElem? (l : List UInt64) (i : Nat) (h : i < 8 * l.length) :
    (l.flatMap leBytes)[i]? = some ((leBytes (l.getD (i / 8) 0)).getD (i % 8) 0) := by
  induction l generalizing i with
  | nil => simp at h
  | cons w rest ih =>
    rw [List.flatMap_cons]
    by_cases hi : i < 8
    · have h0 : i / 8 = 0 := by omega
      have h1 : i % 8 = i := by omega
      rw [List.getElem?_append_left (by simpa using hi), h0, h1]
      have hl : i < (leBytes w).length := by simpa using hi
      simp [List.getD_eq_getElem?_getD, List.getElem?_eq_getElem hl]
    · have h0 : i / 8 = (i - 8) / 8 + 1 := by omega
      have h1 : i % 8 = (i - 8) % 8 := by omega
      rw [List.getElem?_append_right (by simp; omega), leBytes_length,
        ih (i - 8) (by simp at h; omega), h0, h1]
      simp [List.getD_eq_getElem?_getD]

/-- `fill draws n` is the first `n` bytes of the concatenation of the little-endian encodings of
    the draws, the source being continued with zeros when it is exhausted -/
theorem fill_eq_take_flatMap (draws : List UInt64) (n : Nat) :
    fill draws n = ((draws ++ List.replicate n 0).flatMap leBytes).take n := by
  apply List.ext_getElem?
  intro i
  by_cases hi : i < n
  · rw [fill_getElem? draws n i hi, List.getElem?_take_of_lt hi,
      flatMap_leBytes_getElem? _ i (by simp; omega), stream]
    congr 3
    simp only [List.getD_eq_getElem?_getD]
    by_cases hd : i / 8 < draws.length
    · rw [List.getElem?_append_left hd]
    · rw [List.getElem?_append_right (by omega), List.getElem?_eq_none (by omega)]
      simp [List.getElem?_replicate]
      split <;> rfl
  · rw [List.getElem?_eq_none (by simp; omega), List.getElem?_eq_none (by simp; omega)]

end Glb.Tie.TrIoutil
