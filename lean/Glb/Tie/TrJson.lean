/-
  Tie of the TRANSLATED JSON-handler helpers (Glb/Generated/TrJson.lean, rewritten from
  /repo/logger/{level,json_handler}.go on every run by tools/extract/golean.go) to the hand model
  of Glb/Model/JsonHandler.lean that the C01 theorems are about:
    * `appendFullLevel` (colour off) = `JsonHandler.fullLevel`  (the level label / its index panic),
    * `appendJsonSource` = `JsonHandler.appendJsonSource` (last-two-path-components loop, then the
      string escaper, whose own tie is Tie/TrJsonString.lean).
  Payload convention: the translator's `idxI`/`slice` and the models' own helpers name a panic on a
  NEGATIVE index differently; `X_eq` is equality after `Except.toOption` for all inputs, `X_exact`
  is exact equality under the weakest hypothesis that avoids a negative index.
-/
import Glb.Go.Lemmas
import Glb.Generated.TrJson
import Glb.Model.AuxLogger
import Glb.Model.JsonHandler
import Glb.Model.NanoHandler
import Glb.Model.TextHandler
import Glb.Spec.Json
import Glb.Tie.TrJsonString
import Glb.Tie.TrLevel

namespace Glb.Tie.TrJson
open Glb.Go Glb.Tie.TrLevel

-- the level-label lemmas moved to Tie/TrLevel.lean; their old names stay available here
export Glb.Tie.TrLevel (toOption_bind_congr idxI_toOption idxI_exact slice_toOption slice_exact map_toOption_congr bind_pure_eq_map idxI_fullLevel_toOption idxI_fullLevel_exact appendFullLevel_eq appendFullLevel_exact fullLevel_text_json appendFullLevel_text_eq appendFullLevel_text_exact appendFullLevel_valid appendFullLevel_debug appendFullLevel_info appendFullLevel_warn appendFullLevel_error appendFullLevel_fatal appendFullLevel_panics)

/-! ### the source-trimming loop of appendNanoSource / appendJsonSource -/

/-- the value of `first` when the loop ends (the code after the loop does not read it, but the loop
    rule wants the whole final state) -/
def finalFirst (file : Bytes) : Nat → Bool → Bool
  | 0, first => first
  | idx + 1, first =>
    if file[idx + 1]? == some 0x2F then
      if first then true else finalFirst file idx true
    else finalFirst file idx first

theorem sourceLoop_le (file : Bytes) (n : Nat) (first : Bool) :
    Glb.JsonHandler.sourceLoop file n first ≤ n := by
  induction n generalizing first with
  | zero => simp [Glb.JsonHandler.sourceLoop]
  | succ n ih =>
    unfold Glb.JsonHandler.sourceLoop
    split
    · split
      · omega
      · have := ih true; omega
    · have := ih first; omega

/-- `file[idx+1:]` for the final `idx` of the loop, as the model's `trimSource` -/
theorem sliceFrom_trim (file : Bytes) :
    sliceFrom file ((if ((file.length : Int) - 1) < 0 then ((file.length : Int) - 1)
        else (Glb.JsonHandler.sourceLoop file ((file.length : Int) - 1).toNat false : Int)) + 1)
      = .ok (Glb.JsonHandler.trimSource file) := by
  cases hf : file with
  | nil => simp [Glb.JsonHandler.trimSource, sliceFrom, slice, Glb.slice?]
  | cons c rest =>
    rw [← hf]
    have hlen : file.length = rest.length + 1 := by simp [hf]
    have h1 : ¬ ((file.length : Int) - 1) < 0 := by omega
    have h2 : ((file.length : Int) - 1).toNat = file.length - 1 := by omega
    have hle := sourceLoop_le file (file.length - 1) false
    rw [if_neg h1, h2]
    have : ((Glb.JsonHandler.sourceLoop file (file.length - 1) false : Nat) : Int) + 1
        = ((Glb.JsonHandler.sourceLoop file (file.length - 1) false + 1 : Nat) : Int) := by omega
    rw [this, sliceFrom_nat]
    have hne : file.isEmpty = false := by simp [hf]
    simp only [Glb.slice?, Glb.JsonHandler.trimSource, hne]
    rw [if_pos (by omega)]
    congr 1
    apply List.take_of_length_le
    simp

/- one symbolic evaluation of the loop `for idx = len(file)-1; idx > 0; idx-- {…}` (the same loop in
   `appendNanoSource` and `appendJsonSource`); refers to the variable `file` of the goal -/
set_option hygiene false in
macro "source_loop_step" : tactic => `(tactic|
  (
   intro ⟨first, idx⟩ ⟨h0, hl⟩
   simp only [StepOK, pure, Except.pure] at h0 hl ⊢
   by_cases hpos : idx > 0
   · obtain ⟨n, rfl⟩ : ∃ n : Nat, idx = (n : Int) + 1 := ⟨(idx - 1).toNat, by omega⟩
     have hn : n + 1 < file.length := by omega
     have hidx : Go.idx file ((n : Int) + 1) = .ok file[n + 1] := by
       have := idx_ok file (n + 1) hn
       simpa using this
     have hneg : ¬ ((n : Int) + 1 < 0) := by omega
     have htn : ((n : Int) + 1).toNat = n + 1 := by omega
     have hget : file[n + 1]? = some file[n + 1] := List.getElem?_eq_getElem hn
     simp only [hpos, decide_true, hidx, bind, Except.bind, hneg, if_false, htn,
       Glb.JsonHandler.sourceLoop, finalFirst, hget]
     by_cases hc : (file[n + 1] == 47) = true
     · cases first
       · simp only [hc, if_true, Option.some_beq_some, Bool.false_eq_true, if_false]
         refine ⟨⟨by omega, by omega⟩, by omega, ?_⟩
         have e1 : ¬ ((n : Int) + 1 - 1 < 0) := by omega
         have e2 : ((n : Int) + 1 - 1).toNat = n := by omega
         simp only [e1, if_false, e2]
       · simp [hc]
     · simp only [hc, if_false, Option.some_beq_some, Bool.false_eq_true]
       refine ⟨⟨by omega, by omega⟩, by omega, ?_⟩
       have e1 : ¬ ((n : Int) + 1 - 1 < 0) := by omega
       have e2 : ((n : Int) + 1 - 1).toNat = n := by omega
       simp only [e1, if_false, e2]
   · simp only [hpos, decide_false]
     by_cases hneg : idx < 0
     · simp [hneg]
     · have : idx = 0 := by omega
       subst this
       simp [finalFirst, Glb.JsonHandler.sourceLoop]))

/-- `appendJsonSource`, RELATIVE to the translated `appendJsonString` (tied to its model elsewhere):
    `"file":"` ++ escaped trimmed file name ++ `","line":` ++ decimal line -/
theorem appendJsonSource_rel (buf file : Bytes) (line : Int) :
    Glb.Tr.Logger.appendJsonSource buf file line
      = (do let b ← Glb.Tr.Logger.appendJsonString (buf ++ [34, 102, 105, 108, 101, 34, 58, 34])
                      (Glb.JsonHandler.trimSource file)
            pure (b ++ [34, 44, 34, 108, 105, 110, 101, 34, 58] ++ Lib.itoa line)) := by
  unfold Glb.Tr.Logger.appendJsonSource
  dsimp only
  rw [loop_eq (σ := Bool × Int) (ρ := Bytes)
    (Inv := fun st => -1 ≤ st.2 ∧ st.2 < file.length)
    (measure := fun st => (st.2 + 1).toNat)
    (model := fun st => if st.2 < 0 then .ok (.inl st) else
        .ok (.inl (finalFirst file st.2.toNat st.1,
                   (Glb.JsonHandler.sourceLoop file st.2.toNat st.1 : Int))))]
  · -- after the loop
    simp only [len_eq]
    have key := sliceFrom_trim file
    by_cases h : ((file.length : Int) - 1) < 0
    · simp only [h, ↓reduceIte] at key ⊢
      simp only [bind, Except.bind, pure, Except.pure, key, Lib.appendInt10, ToInt.toInt, id]
    · have h2 : ((file.length : Int) - 1).toNat = file.length - 1 := by omega
      simp only [h, ↓reduceIte, h2] at key ⊢
      simp only [bind, Except.bind, pure, Except.pure, key, Lib.appendInt10, ToInt.toInt, id]
  · source_loop_step
  · refine ⟨?_, ?_⟩ <;> (try simp) <;> omega
  · simp; omega

/-- with the tie of `appendJsonString` as a hypothesis (proved in its own file), `appendJsonSource` is
    the model `JsonHandler.appendJsonSource` -/
theorem appendJsonSource_eq_of
    (hjs : ∀ b s, Glb.Tr.Logger.appendJsonString b s = .ok (b ++ Glb.JsonHandler.appendJsonString s))
    (buf file : Bytes) (line : Int) :
    Glb.Tr.Logger.appendJsonSource buf file line
      = .ok (buf ++ Glb.JsonHandler.appendJsonSource file (Lib.itoa line)) := by
  rw [appendJsonSource_rel, hjs]
  simp [bind, Except.bind, pure, Except.pure, Glb.JsonHandler.appendJsonSource, Glb.JsonHandler.kFile,
    Glb.JsonHandler.kLine]

/-- **Tie.** The translated `appendJsonSource` writes exactly what the model says, for every file
    name and line number (`Lib.itoa` = the translator's `strconv.AppendInt(…, 10)`). -/
theorem appendJsonSource_eq (buf file : Bytes) (line : Int) :
    Glb.Tr.Logger.appendJsonSource buf file line
      = .ok (buf ++ Glb.JsonHandler.appendJsonSource file (Glb.Go.Lib.itoa line)) :=
  appendJsonSource_eq_of Glb.Tie.TrJsonString.appendJsonString_eq buf file line

end Glb.Tie.TrJson
