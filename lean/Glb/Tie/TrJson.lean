/-
  Tie of the TRANSLATED JSON-handler helpers (Glb/Generated/TrJson.lean, rewritten from
  /repo/logger/{level,json_handler}.go on every run by tools/extract/golean.go) to the hand model
  of Glb/Model/JsonHandler.lean that the C01 theorems are about:
    * `appendFullLevel` (colour off) = `JsonHandler.fullLevel`  (the level label / its index panic),
    * `appendJsonSource` = `JsonHandler.appendJsonSource` (last-two-path-components loop, then the
      string escaper, whose own tie is Tie/TrJsonString.lean).
  Payload convention: the translator's `idxI`/`slice` and the models' own helpers name a panic on a
  NEGATIVE index differently; `X_eq` is equality after `Except.toOption` for all inputs, `X_exact`
  is exact equality under the weakest hypothesis that avoids a negative index.
-/
import Glb.Go.Lemmas
import Glb.Generated.TrJson
import Glb.Model.AuxLogger
import Glb.Model.JsonHandler
import Glb.Model.NanoHandler
import Glb.Model.TextHandler
import Glb.Spec.Json
import Glb.Tie.TrJsonString

namespace Glb.Tie.TrJson
open Glb.Go

/-! ### payload erasure

`Glb.Go.idxI` / `Glb.Go.slice` and the models' own `idxI?` / `sliceI?` panic on exactly the same
inputs, but the payload of the panic for a NEGATIVE index differs (`.other "index<0"` vs
`.other "index out of range (negative)"`, `.other "slice<0"` vs `.other "slice bounds out of range
(negative)"`).  So every comparison below comes in two forms:
  * `…_eq`     : for ALL inputs, equality after `Except.toOption` (ok-results agree, and one side
                 errs iff the other errs);
  * `…_exact`  : exact equality (payloads included) whenever no negative index is formed. -/

theorem toOption_bind_congr {α β} {a a' : M α} {f f' : α → M β}
    (h : a.toOption = a'.toOption) (hf : ∀ x, (f x).toOption = (f' x).toOption) :
    (a >>= f).toOption = (a' >>= f').toOption := by
  cases a <;> cases a' <;> simp_all [Except.toOption, bind, Except.bind]

theorem idxI_toOption (s : Bytes) (i : Int) :
    (idxI s i).toOption = (Glb.Aux.DateTime.idxI? s i).toOption := by
  unfold idxI Glb.Aux.DateTime.idxI?
  by_cases h : 0 ≤ i
  · have h' : ¬ i < 0 := by omega
    simp [h, h']
  · have h' : i < 0 := by omega
    simp [h, h', Except.toOption]

theorem idxI_exact (s : Bytes) (i : Int) (h : 0 ≤ i) :
    idxI s i = Glb.Aux.DateTime.idxI? s i := by
  have h' : ¬ i < 0 := by omega
  simp [idxI, Glb.Aux.DateTime.idxI?, h, h']

theorem slice_toOption (s : Bytes) (lo hi : Int) :
    (slice s lo hi).toOption = (Glb.Aux.DateTime.sliceI? s lo hi).toOption := by
  unfold slice Glb.Aux.DateTime.sliceI?
  by_cases h : 0 ≤ lo ∧ 0 ≤ hi
  · have h' : ¬ (lo < 0 ∨ hi < 0) := by omega
    simp [h, h']
  · have h' : lo < 0 ∨ hi < 0 := by omega
    simp [h, h', Except.toOption]

theorem slice_exact (s : Bytes) (lo hi : Int) (h : 0 ≤ lo) (h2 : 0 ≤ hi) :
    slice s lo hi = Glb.Aux.DateTime.sliceI? s lo hi := by
  have h' : ¬ (lo < 0 ∨ hi < 0) := by omega
  simp [slice, Glb.Aux.DateTime.sliceI?, h, h2, h']

/-! ### appendFullLevel / appendShortLevel (colour off)

The models (`JsonHandler.fullLevel`, `TextHandler.fullLevel`, `NanoHandler.shortLevel`) return the
label; the translated functions return `buf ++ label`.  Payloads differ only for a negative index
(`l + 2 < 0`, resp. `l < 0`): `…_eq` is the `toOption` form for all inputs, `…_exact` the exact
equality when the index is non-negative (out-of-range panics included). -/

theorem map_toOption_congr {α β} {a a' : M α} (f : α → β)
    (h : a.toOption = a'.toOption) : (a >>= fun x => pure (f x)).toOption = (Except.map f a').toOption := by
  cases a <;> cases a' <;> simp_all [Except.toOption, Except.map, bind, Except.bind, pure, Except.pure]

theorem bind_pure_eq_map {α β} (a : M α) (f : α → β) :
    (a >>= fun x => pure (f x)) = Except.map f a := by
  cases a <;> rfl

theorem idxI_fullLevel_toOption (l : Int) :
    (idxI Glb.Generated.labelList (l + 2)).toOption = (Glb.JsonHandler.fullLevel l).toOption := by
  unfold idxI Glb.JsonHandler.fullLevel
  by_cases h : 0 ≤ l + 2
  · have h' : ¬ l + 2 < 0 := by omega
    simp [h, h']
  · have h' : l + 2 < 0 := by omega
    simp [h, h', Except.toOption]

theorem idxI_fullLevel_exact (l : Int) (h : 0 ≤ l + 2) :
    idxI Glb.Generated.labelList (l + 2) = Glb.JsonHandler.fullLevel l := by
  have h' : ¬ l + 2 < 0 := by omega
  simp [idxI, Glb.JsonHandler.fullLevel, h, h']

theorem appendFullLevel_eq (buf : Bytes) (l : Int) :
    (Glb.Tr.Logger.appendFullLevel buf l false).toOption
      = (Except.map (fun x => buf ++ x) (Glb.JsonHandler.fullLevel l)).toOption := by
  unfold Glb.Tr.Logger.appendFullLevel
  simp only [idx_int, Bool.false_eq_true, if_false, bind_assoc, pure_bind]
  exact map_toOption_congr _ (idxI_fullLevel_toOption l)

theorem appendFullLevel_exact (buf : Bytes) (l : Int) (h : -2 ≤ l) :
    Glb.Tr.Logger.appendFullLevel buf l false
      = Except.map (fun x => buf ++ x) (Glb.JsonHandler.fullLevel l) := by
  unfold Glb.Tr.Logger.appendFullLevel
  simp only [idx_int, Bool.false_eq_true, if_false, bind_assoc, pure_bind]
  rw [idxI_fullLevel_exact l (by omega), bind_pure_eq_map]

/-- `TextHandler.fullLevel` has a third payload for the negative index (`.indexRange 0 len`) -/
theorem fullLevel_text_json (l : Int) :
    (Glb.TextHandler.fullLevel l).toOption = (Glb.JsonHandler.fullLevel l).toOption ∧
    (-2 ≤ l → Glb.TextHandler.fullLevel l = Glb.JsonHandler.fullLevel l) := by
  unfold Glb.TextHandler.fullLevel Glb.JsonHandler.fullLevel
  by_cases h : l + 2 < 0
  · exact ⟨by simp [h, Except.toOption], by omega⟩
  · simp [h]

theorem appendFullLevel_text_eq (buf : Bytes) (l : Int) :
    (Glb.Tr.Logger.appendFullLevel buf l false).toOption
      = (Except.map (fun x => buf ++ x) (Glb.TextHandler.fullLevel l)).toOption := by
  rw [appendFullLevel_eq]
  have := (fullLevel_text_json l).1
  cases h1 : Glb.TextHandler.fullLevel l <;> cases h2 : Glb.JsonHandler.fullLevel l <;>
    simp_all [Except.toOption, Except.map]

theorem appendFullLevel_text_exact (buf : Bytes) (l : Int) (h : -2 ≤ l) :
    Glb.Tr.Logger.appendFullLevel buf l false
      = Except.map (fun x => buf ++ x) (Glb.TextHandler.fullLevel l) := by
  rw [appendFullLevel_exact buf l h, (fullLevel_text_json l).2 h]

/-! closed forms for the five valid levels -/

/-- colour off, valid level: the level's name (`Json.levelName`) is appended, no panic -/
theorem appendFullLevel_valid (buf : Bytes) (l : Int) (h : l = 0 ∨ l = 4 ∨ l = 8 ∨ l = 12 ∨ l = 16) :
    Glb.Tr.Logger.appendFullLevel buf l false = .ok (buf ++ Glb.Json.levelName l) := by
  rw [appendFullLevel_exact buf l (by omega)]
  rcases h with h | h | h | h | h <;> subst h <;> rfl

theorem appendFullLevel_debug (buf : Bytes) :
    Glb.Tr.Logger.appendFullLevel buf Glb.Generated.levelDebug false
      = .ok (buf ++ [0x44, 0x45, 0x42, 0x55, 0x47]) :=   -- DEBUG
  appendFullLevel_valid buf 0 (by omega)
theorem appendFullLevel_info (buf : Bytes) :
    Glb.Tr.Logger.appendFullLevel buf Glb.Generated.levelInfo false
      = .ok (buf ++ [0x49, 0x4E, 0x46, 0x4F]) :=         -- INFO
  appendFullLevel_valid buf 4 (by omega)
theorem appendFullLevel_warn (buf : Bytes) :
    Glb.Tr.Logger.appendFullLevel buf Glb.Generated.levelWarn false
      = .ok (buf ++ [0x57, 0x41, 0x52, 0x4E]) :=         -- WARN
  appendFullLevel_valid buf 8 (by omega)
theorem appendFullLevel_error (buf : Bytes) :
    Glb.Tr.Logger.appendFullLevel buf Glb.Generated.levelError false
      = .ok (buf ++ [0x45, 0x52, 0x52, 0x4F, 0x52]) :=   -- ERROR
  appendFullLevel_valid buf 12 (by omega)
theorem appendFullLevel_fatal (buf : Bytes) :
    Glb.Tr.Logger.appendFullLevel buf Glb.Generated.levelFatal false
      = .ok (buf ++ [0x46, 0x41, 0x54, 0x41, 0x4C]) :=   -- FATAL
  appendFullLevel_valid buf 16 (by omega)

theorem appendFullLevel_panics (buf : Bytes) (l : Int) (h : l < -2 ∨ 17 < l) :
    (Glb.Tr.Logger.appendFullLevel buf l false).toOption = none := by
  rw [appendFullLevel_eq]
  unfold Glb.JsonHandler.fullLevel
  by_cases h' : l + 2 < 0
  · simp [h', Except.map, Except.toOption]
  · have : Glb.Generated.labelList[(l + 2).toNat]? = none := by
      have : Glb.Generated.labelList.length = 20 := by decide
      simp; omega
    simp [h', Glb.idx?, this, Except.map, Except.toOption]

/-! ### the source-trimming loop of appendNanoSource / appendJsonSource -/

/-- the value of `first` when the loop ends (the code after the loop does not read it, but the loop
    rule wants the whole final state) -/
def finalFirst (file : Bytes) : Nat → Bool → Bool
  | 0, first => first
  | idx + 1, first =>
    if file[idx + 1]? == some 0x2F then
      if first then true else finalFirst file idx true
    else finalFirst file idx first

theorem sourceLoop_le (file : Bytes) (n : Nat) (first : Bool) :
    Glb.JsonHandler.sourceLoop file n first ≤ n := by
  induction n generalizing first with
  | zero => simp [Glb.JsonHandler.sourceLoop]
  | succ n ih =>
    unfold Glb.JsonHandler.sourceLoop
    split
    · split
      · omega
      · have := ih true; omega
    · have := ih first; omega

/-- `file[idx+1:]` for the final `idx` of the loop, as the model's `trimSource` -/
theorem sliceFrom_trim (file : Bytes) :
    sliceFrom file ((if ((file.length : Int) - 1) < 0 then ((file.length : Int) - 1)
        else (Glb.JsonHandler.sourceLoop file ((file.length : Int) - 1).toNat false : Int)) + 1)
      = .ok (Glb.JsonHandler.trimSource file) := by
  cases hf : file with
  | nil => simp [Glb.JsonHandler.trimSource, sliceFrom, slice, Glb.slice?]
  | cons c rest =>
    rw [← hf]
    have hlen : file.length = rest.length + 1 := by simp [hf]
    have h1 : ¬ ((file.length : Int) - 1) < 0 := by omega
    have h2 : ((file.length : Int) - 1).toNat = file.length - 1 := by omega
    have hle := sourceLoop_le file (file.length - 1) false
    rw [if_neg h1, h2]
    have : ((Glb.JsonHandler.sourceLoop file (file.length - 1) false : Nat) : Int) + 1
        = ((Glb.JsonHandler.sourceLoop file (file.length - 1) false + 1 : Nat) : Int) := by omega
    rw [this, sliceFrom_nat]
    have hne : file.isEmpty = false := by simp [hf]
    simp only [Glb.slice?, Glb.JsonHandler.trimSource, hne]
    rw [if_pos (by omega)]
    congr 1
    apply List.take_of_length_le
    simp

/- one symbolic evaluation of the loop `for idx = len(file)-1; idx > 0; idx-- {…}` (the same loop in
   `appendNanoSource` and `appendJsonSource`); refers to the variable `file` of the goal -/
set_option hygiene false in
macro "source_loop_step" : tactic => `(tactic|
  (
   intro ⟨first, idx⟩ ⟨h0, hl⟩
   simp only [StepOK, pure, Except.pure] at h0 hl ⊢
   by_cases hpos : idx > 0
   · obtain ⟨n, rfl⟩ : ∃ n : Nat, idx = (n : Int) + 1 := ⟨(idx - 1).toNat, by omega⟩
     have hn : n + 1 < file.length := by omega
     have hidx : Go.idx file ((n : Int) + 1) = .ok file[n + 1] := by
       have := idx_ok file (n + 1) hn
       simpa using this
     have hneg : ¬ ((n : Int) + 1 < 0) := by omega
     have htn : ((n : Int) + 1).toNat = n + 1 := by omega
     have hget : file[n + 1]? = some file[n + 1] := List.getElem?_eq_getElem hn
     simp only [hpos, decide_true, hidx, bind, Except.bind, hneg, if_false, htn,
       Glb.JsonHandler.sourceLoop, finalFirst, hget]
     by_cases hc : (file[n + 1] == 47) = true
     · cases first
       · simp only [hc, if_true, Option.some_beq_some, Bool.false_eq_true, if_false]
         refine ⟨⟨by omega, by omega⟩, by omega, ?_⟩
         have e1 : ¬ ((n : Int) + 1 - 1 < 0) := by omega
         have e2 : ((n : Int) + 1 - 1).toNat = n := by omega
         simp only [e1, if_false, e2]
       · simp [hc]
     · simp only [hc, if_false, Option.some_beq_some, Bool.false_eq_true]
       refine ⟨⟨by omega, by omega⟩, by omega, ?_⟩
       have e1 : ¬ ((n : Int) + 1 - 1 < 0) := by omega
       have e2 : ((n : Int) + 1 - 1).toNat = n := by omega
       simp only [e1, if_false, e2]
   · simp only [hpos, decide_false]
     by_cases hneg : idx < 0
     · simp [hneg]
     · have : idx = 0 := by omega
       subst this
       simp [finalFirst, Glb.JsonHandler.sourceLoop]))

/-- `appendJsonSource`, RELATIVE to the translated `appendJsonString` (tied to its model elsewhere):
    `"file":"` ++ escaped trimmed file name ++ `","line":` ++ decimal line -/
theorem appendJsonSource_rel (buf file : Bytes) (line : Int) :
    Glb.Tr.Logger.appendJsonSource buf file line
      = (do let b ← Glb.Tr.Logger.appendJsonString (buf ++ [34, 102, 105, 108, 101, 34, 58, 34])
                      (Glb.JsonHandler.trimSource file)
            pure (b ++ [34, 44, 34, 108, 105, 110, 101, 34, 58] ++ Lib.itoa line)) := by
  unfold Glb.Tr.Logger.appendJsonSource
  dsimp only
  rw [loop_eq (σ := Bool × Int) (ρ := Bytes)
    (Inv := fun st => -1 ≤ st.2 ∧ st.2 < file.length)
    (measure := fun st => (st.2 + 1).toNat)
    (model := fun st => if st.2 < 0 then .ok (.inl st) else
        .ok (.inl (finalFirst file st.2.toNat st.1,
                   (Glb.JsonHandler.sourceLoop file st.2.toNat st.1 : Int))))]
  · -- after the loop
    simp only [len_eq]
    have key := sliceFrom_trim file
    by_cases h : ((file.length : Int) - 1) < 0
    · simp only [h, ↓reduceIte] at key ⊢
      simp only [bind, Except.bind, pure, Except.pure, key, Lib.appendInt10, ToInt.toInt, id]
    · have h2 : ((file.length : Int) - 1).toNat = file.length - 1 := by omega
      simp only [h, ↓reduceIte, h2] at key ⊢
      simp only [bind, Except.bind, pure, Except.pure, key, Lib.appendInt10, ToInt.toInt, id]
  · source_loop_step
  · refine ⟨?_, ?_⟩ <;> (try simp) <;> omega
  · simp; omega

/-- with the tie of `appendJsonString` as a hypothesis (proved in its own file), `appendJsonSource` is
    the model `JsonHandler.appendJsonSource` -/
theorem appendJsonSource_eq_of
    (hjs : ∀ b s, Glb.Tr.Logger.appendJsonString b s = .ok (b ++ Glb.JsonHandler.appendJsonString s))
    (buf file : Bytes) (line : Int) :
    Glb.Tr.Logger.appendJsonSource buf file line
      = .ok (buf ++ Glb.JsonHandler.appendJsonSource file (Lib.itoa line)) := by
  rw [appendJsonSource_rel, hjs]
  simp [bind, Except.bind, pure, Except.pure, Glb.JsonHandler.appendJsonSource, Glb.JsonHandler.kFile,
    Glb.JsonHandler.kLine]

/-- **Tie.** The translated `appendJsonSource` writes exactly what the model says, for every file
    name and line number (`Lib.itoa` = the translator's `strconv.AppendInt(…, 10)`). -/
theorem appendJsonSource_eq (buf file : Bytes) (line : Int) :
    Glb.Tr.Logger.appendJsonSource buf file line
      = .ok (buf ++ Glb.JsonHandler.appendJsonSource file (Glb.Go.Lib.itoa line)) :=
  appendJsonSource_eq_of Glb.Tie.TrJsonString.appendJsonString_eq buf file line

end Glb.Tie.TrJson
