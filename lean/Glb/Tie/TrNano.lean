import Glb.Go.Lemmas
import Glb.Go.LibNano
import Glb.Generated.TrNano
import Glb.Model.NanoHandler
import Glb.Tie.TrLogger

namespace Glb.Tie.TrNano
open Glb.Go Glb.NanoHandler Glb.Go.LibNano

/-! ### depth of an attribute tree -/

mutual
/-- nesting depth of an attribute tree: a leaf is 1, a group is 1 + the deepest child -/
def depth : Attr → Nat
  | .leaf _ _ => 1
  | .group _ as => 1 + depthList as
/-- the deepest member of a list (0 for the empty list) -/
def depthList : List Attr → Nat
  | [] => 0
  | a :: as => max (depth a) (depthList as)
end

theorem depth_pos (a : Attr) : 1 ≤ depth a := by
  cases a <;> simp [depth]

theorem depth_mem (as : List Attr) (a : Attr) (h : a ∈ as) : depth a ≤ depthList as := by
  induction as with
  | nil => cases h
  | cons b bs ih =>
    simp only [depthList]
    rcases List.mem_cons.1 h with h | h
    · subst h; omega
    · have := ih h; omega

/- one symbolic iteration of the loop `for _, a := range as { buf = appendNanoValue(buf, a.Value, …) }`
   (group members, `WithAttrs`, `Handle`), state `(i, buf)`; refers to the variables `as` and the
   hypothesis `hrec : ∀ b c, c ∈ as → Tr.appendNanoValue fuel b c colorful = .ok (model b c)` -/
set_option hygiene false in
macro "nano_loop_step" : tactic => `(tactic|
  (
   intro ⟨i, b⟩ ⟨h0, hl⟩
   dsimp only at h0 hl
   obtain ⟨n, rfl⟩ : ∃ n : Nat, i = n := ⟨i.toNat, by omega⟩
   simp only [StepOK, pure, Except.pure, Int.toNat_natCast, len_eq]
   by_cases hn : n < as.length
   · obtain ⟨c, rest, hd⟩ : ∃ c rest, as.drop n = c :: rest := by
       cases hdn : as.drop n with
       | nil => have := length_of_drop_nil as n hdn; omega
       | cons c rest => exact ⟨c, rest, rfl⟩
     have hc := idx_drop as n c rest hd
     have hrest := drop_succ_of_drop as n c rest hd
     have hn' : ((n : Int) < (as.length : Int)) := by omega
     have hn1 : ((n : Int) + 1).toNat = n + 1 := by omega
     have hmem : c ∈ as := List.mem_of_mem_drop (by rw [hd]; simp)
     simp only [hn', decide_true, hc, bind, Except.bind, hd, hrec _ c hmem, appendNanoValues,
       hn1, hrest]
     exact ⟨⟨by omega, by omega⟩, by omega, trivial⟩
   · have hn' : ¬ ((n : Int) < (as.length : Int)) := by omega
     have : as.drop n = [] := List.drop_of_length_le (by omega)
     simp [hn', this, appendNanoValues]
     omega))

/-- **the translated, recursive `appendNanoValue` is the hand model** -/
theorem appendNanoValue_eq (fuel : Nat) (buf : Bytes) (a : Attr) (colorful : Bool)
    (h : depth a ≤ fuel) :
    Glb.Tr.Logger.appendNanoValue fuel buf a colorful
      = .ok (Glb.NanoHandler.appendNanoValue buf a) := by
  induction fuel generalizing buf a colorful with
  | zero => have := depth_pos a; omega
  | succ fuel ih =>
    rw [Glb.Tr.Logger.appendNanoValue]
    dsimp only
    cases a with
    | leaf k v =>
      simp [isGroup, leafBytes, Glb.NanoHandler.appendNanoValue, pure, Except.pure]
    | group k as =>
      simp only [isGroup, groupOf, beq_self_eq_true, if_true]
      have hrec : ∀ (b : Bytes) (c : Attr), c ∈ as →
          Glb.Tr.Logger.appendNanoValue fuel b c colorful
            = .ok (Glb.NanoHandler.appendNanoValue b c) := by
        intro b c hc
        have := depth_mem as c hc
        simp only [depth] at h
        exact ih b c colorful (by omega)
      rw [loop_eq (σ := Int × Bytes) (ρ := Bytes)
        (Inv := fun st => 0 ≤ st.1 ∧ st.1 ≤ as.length)
        (measure := fun st => ((as.length : Int) - st.1).toNat)
        (model := fun st => .ok (.inl ((as.length : Int),
          appendNanoValues st.2 (as.drop st.1.toNat))))]
      · simp [bind, Except.bind, pure, Except.pure, Glb.NanoHandler.appendNanoValue]
      · nano_loop_step
      · simp
      · simp; omega

end Glb.Tie.TrNano
