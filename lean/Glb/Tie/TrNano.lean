/-
  Tie of the TRANSLATED Nano handler code (/repo/logger/nano_handler.go: the recursive, fuel-indexed
  `appendNanoValue` :107, `WithAttrs` :47, `Handle` :69; regenerated into Glb/Generated/TrNano.lean on
  every run, at the level of values: the handler state is `pre`, `buf` starts as a parameter, clone /
  pool / lock / Write are left out; `slog.Value` accessors in Glb/Go/LibNano.lean) to the hand model
  of Glb/Model/NanoHandler.lean (`appendNanoValue` / `appendNanoValues` mutual structural, `H`,
  `withAttrs`, `handle`, `Rec`, `shortLevel`, `appendNanoSource`).

      appendNanoValue_eq : depth a ≤ fuel →
                           Tr.appendNanoValue fuel buf a colorful = .ok (appendNanoValue buf a)
      Nano_WithAttrs_eq  : depthList as ≤ fuel →
                           Nano_WithAttrs fuel h.pre as = .ok ((withAttrs h as).pre, ())
      Nano_Handle_exact  : r.hasPC = decide (pc > 0) → r.line = itoa lineNo → depthList r.attrs ≤ fuel →
                           0 ≤ r.level →
                           (Nano_Handle fuel [] addSource h.pre … r.attrs).map (·.1) = handle addSource h r
      Nano_Handle_eq     : the same for ALL levels after `Except.toOption`

  `depth` is the nesting depth of the tree (leaf 1, group 1 + deepest child), so the fuel hypotheses
  only say that the fuel does not run out; `Nano_WithAttrs fuel` / `Nano_Handle fuel` pass `fuel`
  itself to `appendNanoValue`.  Full strength otherwise: every buffer, attribute tree (nested / empty
  groups), handler state, record, `addSource`, `pc`; `colorful` does not influence the translated
  `appendNanoValue` (colour off in the model; `Handle`/`WithAttrs` pass `false`).

  Panics: the only possible one is the level-label index of `appendShortLevel` (`labelList[level]`).
  Translated code and model panic on exactly the same levels (`level < 0 ∨ 19 < level`), but for
  `level < 0` the PAYLOAD differs (`.other "index<0"` of `Glb.Go.idxI` vs the model's
  `.other "index out of range (negative)"`), so `Nano_Handle_exact` is exact equality (ok-results and
  out-of-range panics with payload) under `0 ≤ r.level`, and `Nano_Handle_eq` is equality after
  `Except.toOption` for every level (ok-results agree, one side errs iff the other errs).

  Proof: `appendNanoValue_eq` by induction on the fuel (no structural induction on the nested
  inductive `Attr`); the range loop over attributes (the same loop for group members, `WithAttrs`
  and `Handle`, state `(i, buf)`) is rewritten with `loop_eq`; the rest of the loop from index `i`
  is the model's `appendNanoValues buf (as.drop i)`; each element's call is rewritten with the
  induction hypothesis / `appendNanoValue_eq`.  The guards (`addSource && pc > 0`, `len(msg) > 0`,
  `len(pre) > 0`, `len(attrs) > 0` / `== 0`) are case splits.

      trDeriveAll_eq           : a chain of translated `WithAttrs` (`WithGroup` is `return h`) = `deriveAll`
      nano_with_law_translated : C03b `nano_with_law` for the translated `WithAttrs` + `Handle`
-/
import Glb.Go.Lemmas
import Glb.Go.LibNano
import Glb.Generated.TrNano
import Glb.Model.NanoHandler
import Glb.Tie.TrLogger
import Glb.Props.C03b

namespace Glb.Tie.TrNano
open Glb.Go Glb.NanoHandler Glb.Go.LibNano

/-! ### depth of an attribute tree -/

mutual
/-- nesting depth of an attribute tree: a leaf is 1, a group is 1 + the deepest child -/
def depth : Attr → Nat
  | .leaf _ _ => 1
  | .group _ as => 1 + depthList as
/-- the deepest member of a list (0 for the empty list) -/
def depthList : List Attr → Nat
  | [] => 0
  | a :: as => max (depth a) (depthList as)
end

theorem depth_pos (a : Attr) : 1 ≤ depth a := by
  cases a <;> simp [depth]

theorem depth_mem (as : List Attr) (a : Attr) (h : a ∈ as) : depth a ≤ depthList as := by
  induction as with
  | nil => cases h
  | cons b bs ih =>
    simp only [depthList]
    rcases List.mem_cons.1 h with h | h
    · subst h; omega
    · have := ih h; omega

/- one symbolic iteration of the loop `for _, a := range as { buf = appendNanoValue(buf, a.Value, …) }`
   (group members, `WithAttrs`, `Handle`), state `(i, buf)`; refers to the variables `as` and the
   hypothesis `hrec : ∀ b c, c ∈ as → Tr.appendNanoValue fuel b c colorful = .ok (model b c)` -/
set_option hygiene false in
macro "nano_loop_step" : tactic => `(tactic|
  (
   intro ⟨i, b⟩ ⟨h0, hl⟩
   dsimp only at h0 hl
   obtain ⟨n, rfl⟩ : ∃ n : Nat, i = n := ⟨i.toNat, by omega⟩
   simp only [StepOK, pure, Except.pure, Int.toNat_natCast, len_eq]
   by_cases hn : n < as.length
   · obtain ⟨c, rest, hd⟩ : ∃ c rest, as.drop n = c :: rest := by
       cases hdn : as.drop n with
       | nil => have := length_of_drop_nil as n hdn; omega
       | cons c rest => exact ⟨c, rest, rfl⟩
     have hc := idx_drop as n c rest hd
     have hrest := drop_succ_of_drop as n c rest hd
     have hn' : ((n : Int) < (as.length : Int)) := by omega
     have hn1 : ((n : Int) + 1).toNat = n + 1 := by omega
     have hmem : c ∈ as := List.mem_of_mem_drop (by rw [hd]; simp)
     simp only [hn', decide_true, hc, bind, Except.bind, hd, hrec _ c hmem, appendNanoValues,
       hn1, hrest]
     exact ⟨⟨by omega, by omega⟩, by omega, trivial⟩
   · have hn' : ¬ ((n : Int) < (as.length : Int)) := by omega
     have : as.drop n = [] := List.drop_of_length_le (by omega)
     simp [hn', this, appendNanoValues]
     omega))

/-- **the translated, recursive `appendNanoValue` is the hand model** -/
theorem appendNanoValue_eq (fuel : Nat) (buf : Bytes) (a : Attr) (colorful : Bool)
    (h : depth a ≤ fuel) :
    Glb.Tr.Logger.appendNanoValue fuel buf a colorful
      = .ok (Glb.NanoHandler.appendNanoValue buf a) := by
  induction fuel generalizing buf a colorful with
  | zero => have := depth_pos a; omega
  | succ fuel ih =>
    rw [Glb.Tr.Logger.appendNanoValue]
    dsimp only
    cases a with
    | leaf k v =>
      simp [isGroup, leafBytes, Glb.NanoHandler.appendNanoValue, pure, Except.pure]
    | group k as =>
      simp only [isGroup, groupOf, beq_self_eq_true, if_true]
      have hrec : ∀ (b : Bytes) (c : Attr), c ∈ as →
          Glb.Tr.Logger.appendNanoValue fuel b c colorful
            = .ok (Glb.NanoHandler.appendNanoValue b c) := by
        intro b c hc
        have := depth_mem as c hc
        simp only [depth] at h
        exact ih b c colorful (by omega)
      rw [loop_eq (σ := Int × Bytes) (ρ := Bytes)
        (Inv := fun st => 0 ≤ st.1 ∧ st.1 ≤ as.length)
        (measure := fun st => ((as.length : Int) - st.1).toNat)
        (model := fun st => .ok (.inl ((as.length : Int),
          appendNanoValues st.2 (as.drop st.1.toNat))))]
      · simp [bind, Except.bind, pure, Except.pure, Glb.NanoHandler.appendNanoValue]
      · nano_loop_step
      · simp
      · simp; omega

/-- with the canonical fuel `depth a` -/
theorem appendNanoValue_eq_depth (buf : Bytes) (a : Attr) (colorful : Bool) :
    Glb.Tr.Logger.appendNanoValue (depth a) buf a colorful
      = .ok (Glb.NanoHandler.appendNanoValue buf a) :=
  appendNanoValue_eq (depth a) buf a colorful (Nat.le_refl _)

/-- too little fuel is the only way to fail: with fuel 0 the translated function reports `fuel` -/
theorem appendNanoValue_fuel0 (buf : Bytes) (a : Attr) (colorful : Bool) :
    Glb.Tr.Logger.appendNanoValue 0 buf a colorful = .error (.other "fuel") := by
  rw [Glb.Tr.Logger.appendNanoValue]

/-- **the translated `WithAttrs` is the model's `withAttrs`** on the handler state `pre`, for every
    handler state and attribute list (no panic), whenever the fuel covers the deepest tree -/
theorem Nano_WithAttrs_eq (fuel : Nat) (h : H) (as : List Attr) (hf : depthList as ≤ fuel) :
    Glb.Tr.Logger.Nano_WithAttrs fuel h.pre as = .ok ((withAttrs h as).pre, ()) := by
  unfold Glb.Tr.Logger.Nano_WithAttrs
  dsimp only
  by_cases has : as = []
  · subst has
    simp [withAttrs, pure, Except.pure]
  · have hne : ((as.length : Int) == 0) = false := by
      cases as with
      | nil => exact absurd rfl has
      | cons x xs => simp; omega
    have hne' : (as.length == 0) = false := by
      cases as with
      | nil => exact absurd rfl has
      | cons x xs => simp
    simp only [len_eq, hne, Bool.false_eq_true, if_false]
    have hrec : ∀ (b : Bytes) (c : Attr), c ∈ as →
        Glb.Tr.Logger.appendNanoValue fuel b c false
          = .ok (Glb.NanoHandler.appendNanoValue b c) :=
      fun b c hc => appendNanoValue_eq fuel b c false (Nat.le_trans (depth_mem as c hc) hf)
    rw [loop_eq (σ := Int × Bytes) (ρ := Bytes × Unit)
      (Inv := fun st => 0 ≤ st.1 ∧ st.1 ≤ as.length)
      (measure := fun st => ((as.length : Int) - st.1).toNat)
      (model := fun st => .ok (.inl ((as.length : Int),
        appendNanoValues st.2 (as.drop st.1.toNat))))]
    · simp [bind, Except.bind, pure, Except.pure, withAttrs, hne']
    · nano_loop_step
    · simp
    · simp; omega

/-- **the translated `Handle` is the model's `handle`**, exact equality (bytes, and the out-of-range
    panic of the level label with its payload) for every handler state, record and `addSource`, under
    `0 ≤ r.level` (below that both sides panic, with different payloads: see `Nano_Handle_eq`);
    `r.hasPC` is the translated code's `pc > 0`, `r.line` the decimal text of its line number -/
theorem Nano_Handle_exact (fuel : Nat) (addSource : Bool) (h : H) (r : Rec) (pc lineNo : Int)
    (hpc : r.hasPC = decide (pc > 0)) (hline : r.line = Glb.Go.Lib.itoa lineNo)
    (hf : depthList r.attrs ≤ fuel) (hlevel : 0 ≤ r.level) :
    (Glb.Tr.Logger.Nano_Handle fuel [] addSource h.pre r.time r.level pc r.file lineNo r.msg
        r.attrs).map (·.1)
      = handle addSource h r := by
  obtain ⟨pre⟩ := h
  obtain ⟨time, level, hasPC, file, line, msg, as⟩ := r
  dsimp only at hpc hline hf hlevel ⊢
  subst hline
  subst hpc
  unfold Glb.Tr.Logger.Nano_Handle
  dsimp only
  rw [Glb.Tie.TrLogger.appendShortLevel_exact _ _ hlevel]
  unfold handle
  dsimp only
  cases hlv : shortLevel level with
  | error e => simp [Except.map, bind, Except.bind]
  | ok lvl =>
    have hrec : ∀ (b : Bytes) (c : Attr), c ∈ as →
        Glb.Tr.Logger.appendNanoValue fuel b c false
          = .ok (Glb.NanoHandler.appendNanoValue b c) :=
      fun b c hc => appendNanoValue_eq fuel b c false (Nat.le_trans (depth_mem as c hc) hf)
    have hp0 : decide (len ([] : Bytes) > 0) = false := by simp
    have hp1 : ∀ (x : UInt8) (xs : Bytes), decide (len (x :: xs) > 0) = true := by
      intro x xs; simp
    have ha0 : decide (len ([] : List Attr) > 0) = false := by simp
    have ha1 : as ≠ [] → decide (len as > 0) = true := by
      intro hne
      cases as with
      | nil => exact absurd rfl hne
      | cons x xs => simp
    by_cases has : as = []
    · subst has
      cases addSource <;> cases hpcv : decide (pc > 0) <;> cases pre <;> cases msg <;>
        simp [Except.map, bind, Except.bind, pure, Except.pure,
          Glb.Tie.TrLogger.appendNanoSource_eq]
    · have ha1' := ha1 has
      have hlen : as.length > 0 := by
        cases as with
        | nil => exact absurd rfl has
        | cons x xs => simp
      cases addSource <;> cases hpcv : decide (pc > 0) <;> cases pre <;> cases msg <;>
      ( simp only [Except.map, bind, Except.bind, pure, Except.pure, hp0, hp1, ha1',
          Glb.Tie.TrLogger.appendNanoSource_eq, Bool.and_true, Bool.and_false,
          Bool.false_eq_true, if_false, if_true]
        rw [loop_eq (σ := Int × Bytes) (ρ := Bytes × Unit)
          (Inv := fun st => 0 ≤ st.1 ∧ st.1 ≤ as.length)
          (measure := fun st => ((as.length : Int) - st.1).toNat)
          (model := fun st => .ok (.inl ((as.length : Int),
            appendNanoValues st.2 (as.drop st.1.toNat))))]
        · simp [hlen]
        · nano_loop_step
        · simp
        · simp; omega )

private theorem toOption_bind_none {α β} (x : M α) (f : α → M β) (hx : x.toOption = none) :
    (x >>= f).toOption = none := by
  cases x with
  | ok v => simp [Except.toOption] at hx
  | error e => simp [bind, Except.bind, Except.toOption]

/-- when `appendShortLevel` panics (negative level: `labelList[l]`), so does the translated `Handle`
    (first effectful statement) -/
theorem Nano_Handle_level_panics (fuel : Nat) (addSource : Bool) (pre time : Bytes) (level pc : Int)
    (file : Bytes) (lineNo : Int) (msg : Bytes) (as : List Attr) (hl : level < 0) :
    (Glb.Tr.Logger.Nano_Handle fuel [] addSource pre time level pc file lineNo msg as).toOption
      = none := by
  unfold Glb.Tr.Logger.Nano_Handle
  dsimp only
  refine toOption_bind_none _ _ ?_
  rw [Glb.Tie.TrLogger.appendShortLevel_eq]
  simp [shortLevel, hl, Except.map, Except.toOption]

/-- **the translated `Handle` is the model's `handle`** for ALL inputs (every level), as equality after
    `Except.toOption`: ok-results agree, and one side panics iff the other does (payload erased) -/
theorem Nano_Handle_eq (fuel : Nat) (addSource : Bool) (h : H) (r : Rec) (pc lineNo : Int)
    (hpc : r.hasPC = decide (pc > 0)) (hline : r.line = Glb.Go.Lib.itoa lineNo)
    (hf : depthList r.attrs ≤ fuel) :
    ((Glb.Tr.Logger.Nano_Handle fuel [] addSource h.pre r.time r.level pc r.file lineNo r.msg
        r.attrs).map (·.1)).toOption
      = (handle addSource h r).toOption := by
  by_cases hlevel : 0 ≤ r.level
  · rw [Nano_Handle_exact fuel addSource h r pc lineNo hpc hline hf hlevel]
  · have h1 := Nano_Handle_level_panics fuel addSource h.pre r.time r.level pc r.file lineNo r.msg
      r.attrs (by omega)
    have h2 : shortLevel r.level = .error (.other "index out of range (negative)") := by
      unfold shortLevel
      rw [if_pos (by omega)]
    cases hj : Glb.Tr.Logger.Nano_Handle fuel [] addSource h.pre r.time r.level pc r.file lineNo
        r.msg r.attrs with
    | ok v => rw [hj] at h1; simp [Except.toOption] at h1
    | error e => simp [handle, h2, bind, Except.bind, Except.map, Except.toOption]

/-! ### derivation chains and the `with` law for the translated methods -/

/-- deepest attribute tree of a derivation chain (the fuel the translated `WithAttrs` calls need) -/
def chainDepth : List Deriv → Nat
  | [] => 0
  | .attrs as :: ds => max (depthList as) (chainDepth ds)
  | .group _ :: ds => chainDepth ds

/-- one derivation step with the TRANSLATED methods, on the handler state `pre`
    (`WithGroup` is `return h` in nano_handler.go: nothing to translate) -/
def trDerive (fuel : Nat) (pre : Bytes) : Deriv → M Bytes
  | .attrs as => (Glb.Tr.Logger.Nano_WithAttrs fuel pre as).map (·.1)
  | .group _ => pure pre

/-- a chain of `WithAttrs` / `WithGroup` with the translated methods -/
def trDeriveAll (fuel : Nat) (pre : Bytes) : List Deriv → M Bytes
  | [] => pure pre
  | d :: ds => trDerive fuel pre d >>= fun pre' => trDeriveAll fuel pre' ds

theorem trDerive_eq (fuel : Nat) (h : H) (d : Deriv) (hf : chainDepth [d] ≤ fuel) :
    trDerive fuel h.pre d = .ok (derive h d).pre := by
  cases d with
  | attrs as =>
    have hf' : depthList as ≤ fuel := by simp only [chainDepth] at hf; omega
    simp only [trDerive, Nano_WithAttrs_eq fuel h as hf', Except.map, derive]
  | group g => rfl

theorem trDeriveAll_eq (fuel : Nat) (h : H) (ds : List Deriv) (hf : chainDepth ds ≤ fuel) :
    trDeriveAll fuel h.pre ds = .ok (deriveAll h ds).pre := by
  induction ds generalizing h with
  | nil => rfl
  | cons d ds ih =>
    have h1 : chainDepth [d] ≤ fuel ∧ chainDepth ds ≤ fuel := by
      cases d <;> simp only [chainDepth] at hf ⊢ <;> omega
    simp only [trDeriveAll, trDerive_eq fuel h d h1.1, bind, Except.bind]
    rw [ih (derive h d) h1.2]
    simp [deriveAll]

theorem depthList_append (as bs : List Attr) :
    depthList (as ++ bs) = max (depthList as) (depthList bs) := by
  induction as with
  | nil => simp [depthList]
  | cons a as ih => simp only [List.cons_append, depthList, ih]; omega

/-- **C03b `nano_with_law` for the translated code**: the translated `WithAttrs` followed by the
    translated `Handle` writes what the translated `Handle` of the original handler writes for the
    record with the attributes prepended (every handler state, attribute list, record; level ≥ 0 for
    the exact form — for negative levels both sides panic). -/
theorem nano_with_law_translated (fuel : Nat) (addSource : Bool) (h : H) (as : List Attr) (r : Rec)
    (pc lineNo : Int) (hpc : r.hasPC = decide (pc > 0)) (hline : r.line = Glb.Go.Lib.itoa lineNo)
    (hfa : depthList as ≤ fuel) (hf : depthList r.attrs ≤ fuel) (hlevel : 0 ≤ r.level) :
    (Glb.Tr.Logger.Nano_WithAttrs fuel h.pre as >>= fun st =>
        (Glb.Tr.Logger.Nano_Handle fuel [] addSource st.1 r.time r.level pc r.file lineNo r.msg
          r.attrs).map (·.1))
      = (Glb.Tr.Logger.Nano_Handle fuel [] addSource h.pre r.time r.level pc r.file lineNo r.msg
          (as ++ r.attrs)).map (·.1) := by
  rw [Nano_WithAttrs_eq fuel h as hfa]
  simp only [bind, Except.bind]
  rw [Nano_Handle_exact fuel addSource (withAttrs h as) r pc lineNo hpc hline hf hlevel]
  have hf2 : depthList ({ r with attrs := as ++ r.attrs } : Rec).attrs ≤ fuel := by
    simp only [depthList_append]; omega
  have := Nano_Handle_exact fuel addSource h { r with attrs := as ++ r.attrs } pc lineNo hpc hline
    hf2 hlevel
  dsimp only at this
  rw [this, Glb.C03b.nano_with_law]

end Glb.Tie.TrNano
