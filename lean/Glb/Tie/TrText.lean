/-
  Tie of the TRANSLATED `appendTextString` (/repo/logger/text_handler.go:247, regenerated into
  Glb/Generated/TrText.lean on every run) to the hand model `Glb.TextHandler.appendTextString`
  (Glb/Model/TextHandler.lean) the C13 property theorems are about.

      appendTextString_eq : Tr.Logger.appendTextString P buf str = .ok (TextHandler.appendTextString P buf str)

  for every record `P` of library functions, every `buf`, `str` (full strength: the translated code
  never panics and never runs out of fuel).

  The buffer is not changed inside the loop, so `loop_eq` applies with state `(buf, i)` and the model
  "`needsQuoteLoop P 0 str[i:]` ? return buf ++ quote str : leave in state (buf, len str)".  The
  model's skip counter (`needsQuoteLoop P k`, `k` bytes still to step over) is related to Go's
  `i += size` by `nql_drop`; a rune never extends past the end of the string (`decodeRune_size_le`).
-/
import Glb.Go.Lemmas
import Glb.Go.LemmasJsonString
import Glb.Generated.TrText
import Glb.Model.TextHandler
import Glb.Tie.Logger
import Glb.Go.LemmasTables

namespace Glb.Tie.TrText
open Glb.Go Glb.TextHandler

theorem idx_safeSet (c : UInt8) (hc : c < 128) : idx Generated.safeSet c = .ok (safe c) := by
  rw [Glb.Go.Tables.idx_safeSet c hc]
  simp [safe, Glb.JsonHandler.safe]

theorem nql_nil (P : Std) (k : Nat) : needsQuoteLoop P k [] = false := by
  cases k <;> rfl

theorem nql_succ (P : Std) (k : Nat) (b : UInt8) (rest : Bytes) :
    needsQuoteLoop P (k + 1) (b :: rest) = needsQuoteLoop P k rest := by
  rw [needsQuoteLoop]

theorem nql_zero (P : Std) (b : UInt8) (rest : Bytes) :
    needsQuoteLoop P 0 (b :: rest) =
      if b < 0x80 then
        if asciiNeedsQuote b then true else needsQuoteLoop P 0 rest
      else
        if runeNeedsQuote P (Utf8.decodeRune (b :: rest)).1 then true
        else needsQuoteLoop P ((Utf8.decodeRune (b :: rest)).2 - 1) rest := by
  rw [needsQuoteLoop]

theorem nql_drop (P : Std) : ∀ (k : Nat) (rest : Bytes),
    needsQuoteLoop P k rest = needsQuoteLoop P 0 (rest.drop k)
  | 0, rest => by simp
  | k + 1, [] => by simp [nql_nil]
  | k + 1, b :: rest => by
    rw [nql_succ, List.drop_succ_cons]
    exact nql_drop P k rest

theorem appendTextString_eq (P : Std) (buf str : Bytes) :
    Glb.Tr.Logger.appendTextString P buf str = .ok (Glb.TextHandler.appendTextString P buf str) := by
  unfold Glb.Tr.Logger.appendTextString
  dsimp only
  by_cases h0 : str.length = 0
  · simp [Glb.TextHandler.appendTextString, h0, pure, Except.pure]
  have h0' : ¬ ((str.length : Int) == 0) = true := by
    intro h
    have : (str.length : Int) = 0 := by simpa using h
    omega
  rw [len_eq, if_neg h0']
  rw [loop_eq (σ := Bytes × Int) (ρ := Bytes)
    (Inv := fun st => 0 ≤ st.2 ∧ st.2 ≤ str.length)
    (measure := fun st => ((str.length : Int) - st.2).toNat)
    (model := fun st => .ok (if needsQuoteLoop P 0 (str.drop st.2.toNat)
        then .inr (st.1 ++ P.quote str) else .inl (st.1, (str.length : Int))))]
  · -- after the loop
    simp only [bind, Except.bind, pure, Except.pure, Glb.TextHandler.appendTextString,
      Int.toNat_zero, List.drop_zero]
    cases h : needsQuoteLoop P 0 str <;> simp [h0]
  · -- one evaluation
    intro ⟨b, i⟩ ⟨hi0, hil⟩
    dsimp only at hi0 hil
    obtain ⟨n, rfl⟩ : ∃ n : Nat, i = n := ⟨i.toNat, by omega⟩
    simp only [StepOK, pure, Except.pure, Int.toNat_natCast]
    by_cases hn : n < str.length
    · obtain ⟨c, rest, hd⟩ : ∃ c rest, str.drop n = c :: rest := by
        cases h : str.drop n with
        | nil => have := length_of_drop_nil str n h; omega
        | cons c rest => exact ⟨c, rest, rfl⟩
      have hc := idx_drop str n c rest hd
      have hn' : ((n : Int) < (str.length : Int)) := by omega
      have hdk : ∀ k, 1 ≤ k → str.drop (n + k) = rest.drop (k - 1) := by
        intro k hk
        have : str.drop (n + k) = (str.drop n).drop k := by simp [List.drop_drop]
        rw [this, hd]
        cases k with
        | zero => omega
        | succ k => simp
      simp only [hn', decide_true, hc, bind, Except.bind, hd, nql_zero]
      by_cases hb : c < 128
      · simp only [hb, decide_true, if_true]
        have hn1 : ((n : Int) + 1).toNat = n + 1 := by omega
        have hr1 : str.drop (n + 1) = rest := by simpa using hdk 1 (Nat.le_refl 1)
        by_cases e1 : (c != 92) = true
        · by_cases e2 : (c == 32 || c == 61) = true
          · have ha : asciiNeedsQuote c = true := by
              simp only [asciiNeedsQuote, Bool.and_eq_true, Bool.or_eq_true] at e1 e2 ⊢
              exact ⟨e1, by rcases e2 with e | e <;> simp [e]⟩
            simp [e1, e2, ha, LibText.appendQuote]
          · simp only [e1, e2, if_true, idx_safeSet c hb]
            cases hs : safe c
            · have ha : asciiNeedsQuote c = true := by
                simp only [asciiNeedsQuote, hs, e1]; simp
              simp [ha, LibText.appendQuote]
            · have ha : asciiNeedsQuote c = false := by
                have e2' : (c == 32 || c == 61) = false := by simpa using e2
                simp only [asciiNeedsQuote, hs, e1, Bool.or_assoc]
                rw [← Bool.or_assoc, e2']; simp
              simp only [ha, Bool.not_true, Bool.false_eq_true, if_false, hn1, hr1]
              exact ⟨⟨by omega, by omega⟩, by omega, trivial⟩
        · have ha : asciiNeedsQuote c = false := by
            have : (c != 92) = false := by simpa using e1
            simp only [asciiNeedsQuote, this, Bool.false_and]
          simp only [e1, ha, Bool.false_eq_true, if_false, hn1, hr1]
          exact ⟨⟨by omega, by omega⟩, by omega, trivial⟩
      · have hsf := Glb.Go.Tables.sliceFrom_ok str n (by omega)
        simp only [hb, decide_false, Bool.false_eq_true, if_false, hsf, hd,
          LibUtf8.decodeRuneInString, LibText.isSpace, LibText.isPrint, LibText.appendQuote,
          Int.toNat_natCast]
        have hpos := Glb.Utf8.decodeRune_size_pos c rest
        have hle := Glb.Utf8.decodeRune_size_le (c :: rest)
        have hlen : (c :: rest).length = str.length - n := by rw [← hd]; simp
        generalize Glb.Utf8.decodeRune (c :: rest) = cs at hpos hle ⊢
        have hr : ((cs.1 : Int) == 65533) = (cs.1 == Utf8.runeError) := by
          rw [Bool.eq_iff_iff]; simp [Utf8.runeError]; omega
        have hcond : ((cs.1 : Int) == 65533 || P.isSpace cs.1 || !P.isPrint cs.1)
            = runeNeedsQuote P cs.1 := by
          rw [hr]; rfl
        simp only [hcond]
        cases hq : runeNeedsQuote P cs.1
        · simp only [Bool.false_eq_true, if_false]
          have hn1 : ((n : Int) + (cs.2 : Int)).toNat = n + cs.2 := by omega
          rw [hn1, hdk _ hpos, ← nql_drop]
          exact ⟨⟨by omega, by omega⟩, by omega, rfl⟩
        · simp
    · have hn' : ¬ ((n : Int) < (str.length : Int)) := by omega
      have : str.drop n = [] := List.drop_of_length_le (by omega)
      simp [hn', this, nql_nil]
      omega
  · simp
  · simp

/-- The decision the translated code takes (used by property C13, cf. `appendTextString_cases` of
    Props/C13.lean): the string as it stands when `quotes P str = false`, `""` for the empty string,
    `strconv.Quote` otherwise. -/
theorem appendTextString_decision (P : Std) (buf str : Bytes) :
    Glb.Tr.Logger.appendTextString P buf str =
      .ok (if Glb.TextHandler.quotes P str then
             (if str = [] then buf ++ [0x22, 0x22] else buf ++ P.quote str)
           else buf ++ str) := by
  rw [appendTextString_eq]
  unfold Glb.TextHandler.appendTextString Glb.TextHandler.quotes
  cases str with
  | nil => simp
  | cons b s => simp

theorem appendTextString_bare (P : Std) (buf str : Bytes)
    (h : Glb.TextHandler.quotes P str = false) :
    Glb.Tr.Logger.appendTextString P buf str = .ok (buf ++ str) := by
  rw [appendTextString_decision, h]; simp

theorem appendTextString_empty (P : Std) (buf : Bytes) :
    Glb.Tr.Logger.appendTextString P buf [] = .ok (buf ++ [0x22, 0x22]) := by
  rw [appendTextString_decision]; simp [Glb.TextHandler.quotes]

theorem appendTextString_quoted (P : Std) (buf str : Bytes)
    (h : Glb.TextHandler.quotes P str = true) (hne : str ≠ []) :
    Glb.Tr.Logger.appendTextString P buf str = .ok (buf ++ P.quote str) := by
  rw [appendTextString_decision, h]; simp [hne]

end Glb.Tie.TrText
