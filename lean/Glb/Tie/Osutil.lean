/-
  Regenerated tie for C18: the call order the extractor reads from /repo/util/osutil/file.go is
  the order `Files.copyFile` / `Files.moveFile` interpret.  Re-proved by `decide` on every run.
  Removing the same-file guard, moving it behind `os.Create`, calling `os.Remove` before the copy
  error is checked, removing on the error path, … change a generated list and break these lemmas.
-/
import Glb.Model.Files

namespace Glb.Tie.Osutil
open Glb.Files Glb.Generated

theorem copy_tie : Generated.copyFileEvents = copyProg := by decide

theorem move_tie : Generated.moveFileEvents = moveProg := by decide

/-- the source is opened and identified, the destination is looked up, and the same-file guard
    returns — all before `os.Create` can truncate anything -/
theorem guard_precedes_create :
    copyFileEvents.idxOf .openSrc < copyFileEvents.idxOf .fstatSrc ∧
    copyFileEvents.idxOf .fstatSrc < copyFileEvents.idxOf .statDst ∧
    copyFileEvents.idxOf .statDst < copyFileEvents.idxOf .guardSameFile ∧
    copyFileEvents.idxOf .guardSameFile < copyFileEvents.idxOf .createDst ∧
    copyFileEvents.idxOf .createDst < copyFileEvents.idxOf .copyDstSrc ∧
    copyFileEvents.count .createDst = 1 ∧ .unknown ∉ copyFileEvents := by decide

/-- `os.Remove(src)` is the last event, it occurs once, and it is directly preceded by the
    CopyFile call and the `if err != nil { return err }` that follows it -/
theorem remove_only_after_successful_copy :
    moveFileEvents.count .removeSrc = 1 ∧
    moveFileEvents.getLast? = some .removeSrc ∧
    (moveFileEvents.dropLast.reverse.take 2).reverse = [.callCopyFile, .retIfErr] ∧
    moveFileEvents.take 2 = [.renameSrcDst, .retNilIfOk] ∧ .unknown ∉ moveFileEvents := by decide

/-- the pinned order is the current order minus the four guard events
    (`fstatSrc, retIfErr, statDst, guardSameFile`) -/
theorem pinned_is_unguarded : pinnedCopyProg = copyProg.take 3 ++ copyProg.drop 7 := by decide

end Glb.Tie.Osutil
