/-
  Regenerated tie for C18: the call order the extractor reads from /repo/util/osutil/file.go is
  the order `Files.copyFile` / `Files.moveFile` interpret.  Re-proved by `decide` on every run.
  Removing a same-file guard, moving it behind `os.Create` / `os.Rename`, calling `os.Remove` before the copy
  error is checked, removing on the error path, … change a generated list and break these lemmas.
-/
import Glb.Generated.StatusOsutil
import Glb.Model.Files

namespace Glb.Tie.Osutil
open Glb.Files Glb.Generated

theorem copy_tie : Generated.copyFileEvents = copyProg := by decide

theorem move_tie : Generated.moveFileEvents = moveProg := by decide

/-- the source is opened and identified, the destination is looked up, and the same-file guard
    returns — all before `os.Create` can truncate anything -/
theorem guard_precedes_create :
    copyFileEvents.idxOf .openSrc < copyFileEvents.idxOf .fstatSrc ∧
    copyFileEvents.idxOf .fstatSrc < copyFileEvents.idxOf .statDst ∧
    copyFileEvents.idxOf .statDst < copyFileEvents.idxOf .guardSameFile ∧
    copyFileEvents.idxOf .guardSameFile < copyFileEvents.idxOf .createDst ∧
    copyFileEvents.idxOf .createDst < copyFileEvents.idxOf .copyDstSrc ∧
    copyFileEvents.count .createDst = 1 ∧ .unknown ∉ copyFileEvents := by decide

/-- MoveFile identifies source and destination and returns on `os.SameFile` — all before
    `os.Rename` (which would otherwise replace a destination the source is a symlink to) and
    before the CopyFile fall-back -/
theorem move_guard_precedes_rename :
    moveFileEvents.idxOf .statSrc < moveFileEvents.idxOf .statDst ∧
    moveFileEvents.idxOf .statDst < moveFileEvents.idxOf .guardSameFile ∧
    moveFileEvents.idxOf .guardSameFile < moveFileEvents.idxOf .renameSrcDst ∧
    moveFileEvents.idxOf .renameSrcDst < moveFileEvents.idxOf .callCopyFile ∧
    moveFileEvents.count .renameSrcDst = 1 := by decide

/-- `os.Remove(src)` is the last event, it occurs once, and it is directly preceded by the
    CopyFile call and the `if err != nil { return err }` that follows it; the rename is directly
    followed by `if err == nil { return nil }` -/
theorem remove_only_after_successful_copy :
    moveFileEvents.count .removeSrc = 1 ∧
    moveFileEvents.getLast? = some .removeSrc ∧
    (moveFileEvents.dropLast.reverse.take 2).reverse = [.callCopyFile, .retIfErr] ∧
    (moveFileEvents.drop (moveFileEvents.idxOf .renameSrcDst)).take 2 =
      [.renameSrcDst, .retNilIfOk] ∧ .unknown ∉ moveFileEvents := by decide

/-- the pinned orders are the current orders minus the guard events
    (CopyFile: `fstatSrc, retIfErr, statDst, guardSameFile`; MoveFile: `statSrc, statDst,
    guardSameFile`) -/
theorem pinned_is_unguarded :
    pinnedCopyProg = copyProg.take 3 ++ copyProg.drop 7 ∧ pinnedMoveProg = moveProg.drop 3 := by
  decide

/-- the extractor of this area recognised the source as it is on this run (a refusal removes `ok`) -/
theorem extractor_ok : Glb.Generated.StatusOsutil.ok = () := rfl

end Glb.Tie.Osutil
