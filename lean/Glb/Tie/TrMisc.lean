/-
  Tie of translated functions of `/repo/util/fsutil/path.go`, `/repo/util/netutil/ip.go`,
  `/repo/httpd/store.go`, `/repo/httpd/…` (GetClientIP) and the ansi helpers
  (Glb/Generated/Tr{Fsutil,Netutil,Httpd,Ansi}.lean, regenerated from the Go source on every run) to the
  hand-written models.  Every theorem is `translated function = model` for every input.
-/
import Glb.Go.Lemmas
import Glb.Go.LibPath
import Glb.Generated.TrFsutil
import Glb.Generated.TrNetutil
import Glb.Model.PathCleanBytes
import Glb.Model.AuxNetutil

namespace Glb.Tie.TrMisc
open Glb.Go

/-! ### fsutil.ResolveUrlPath -/

theorem ResolveUrlPath_eq (base url : Bytes) :
    Glb.Tr.Fsutil.ResolveUrlPath base url = .ok (Glb.PathCleanBytes.resolveUrlPathB base url) := by
  unfold Glb.Tr.Fsutil.ResolveUrlPath
  cases url with
  | nil =>
    simp [bind, Except.bind, pure, Except.pure, Glb.PathCleanBytes.resolveUrlPathB,
      Glb.PathClean.forceSlash, Glb.PathClean.fromSlash, LibPath.join2, LibPath.fromSlash, LibPath.clean,
      Glb.PathClean.slash]
  | cons c t =>
    by_cases h : c = 47
    · simp [bind, Except.bind, pure, Except.pure, Glb.PathCleanBytes.resolveUrlPathB,
        Glb.PathClean.forceSlash, Glb.PathClean.fromSlash, LibPath.join2, LibPath.fromSlash, LibPath.clean,
        Glb.PathClean.slash, idxI, Glb.idx?, h]
    · simp [bind, Except.bind, pure, Except.pure, Glb.PathCleanBytes.resolveUrlPathB,
        Glb.PathClean.forceSlash, Glb.PathClean.fromSlash, LibPath.join2, LibPath.fromSlash, LibPath.clean,
        Glb.PathClean.slash, idxI, Glb.idx?, h]

end Glb.Tie.TrMisc
