/-
  Tie of translated functions of `/repo/util/fsutil/path.go`, `/repo/util/netutil/ip.go`,
  `/repo/httpd/store.go` (`Params.Get`, `GetClientIP`) and `/repo/ansi/terminfo.go` (`ScrollUpN/DownN`)
  (Glb/Generated/Tr{Fsutil,Netutil,Httpd,Ansi}.lean, regenerated from the Go source on every run) to the
  hand-written models.  Every theorem is `translated function = model` for every input.
-/
import Glb.Go.Lemmas
import Glb.Go.LibPath
import Glb.Generated.TrFsutil
import Glb.Generated.TrNetutil
import Glb.Model.PathCleanBytes
import Glb.Model.AuxNetutil
import Glb.Generated.TrHttpd
import Glb.Model.Router
import Glb.Model.AuxHttpd
import Glb.Generated.TrAnsi
import Glb.Model.AuxFsutil
import Glb.Proofs.AuxFsutil
import Glb.Proofs.PathCleanBytes

namespace Glb.Tie.TrMisc
open Glb.Go

/-! ### netutil.SplitHostPort

  Exact equality, panic payloads included: the only places where the payloads of `Glb.Go.idxI`/`slice`
  and of the model's `idxPred?`/`slicePred?` differ are `addr[i-1]` / `addr[1:i-1]` with `i = 0`, and
  these are only evaluated when `addr[0] == '['` and `addr[i] == ':'`, hence `i ≠ 0`.  (Neither side
  ever panics: `Glb.Aux.Net.split_total`.) -/

section SplitHostPort
open Glb.Aux.Net

private theorem lastColon_concat (l : Bytes) (c : UInt8) :
    lastColon (l ++ [c]) = if c = colon then some l.length else lastColon l := by
  induction l with
  | nil => simp [lastColon]
  | cons d l ih =>
    simp only [List.cons_append, lastColon, ih, List.length_cons]
    by_cases h : c = colon
    · simp [h]
    · simp [h]

theorem SplitHostPort_eq (addr : Bytes) :
    Glb.Tr.Netutil.SplitHostPort addr = Glb.Aux.Net.splitHostPort addr := by
  unfold Glb.Tr.Netutil.SplitHostPort
  dsimp only
  rw [loop_eq (σ := Int) (ρ := Bytes × Bytes)
    (Inv := fun i => -1 ≤ i ∧ i < addr.length ∧ lastColon addr = lastColon (addr.take (i + 1).toNat))
    (measure := fun i => (i + 1).toNat)
    (model := fun _ => match lastColon addr with
      | none => .ok (.inl (-1))
      | some _ => match splitHostPort addr with
        | .ok r => .ok (.inr r)
        | .error e => .error e)]
  · simp only [bind, Except.bind, pure, Except.pure]
    cases hlc : lastColon addr with
    | none => simp [splitHostPort, hlc]
    | some j =>
      simp only []
      cases splitHostPort addr <;> rfl
  · intro i ⟨h0, hl, hinv⟩
    simp only [StepOK, pure, Except.pure]
    by_cases hi : i ≥ 0
    · obtain ⟨n, rfl⟩ : ∃ n : Nat, i = n := ⟨i.toNat, by omega⟩
      have hn : n < addr.length := by omega
      have e1 : ((n : Int) + 1).toNat = n + 1 := by omega
      rw [e1, List.take_succ_eq_append_getElem hn, lastColon_concat] at hinv
      simp only [hi, decide_true, idx_int, idxI_ok addr n hn, bind, Except.bind]
      by_cases hc : addr[n] = colon
      · have hc' : addr[n] = 58 := hc
        simp only [hc, if_true, List.length_take, Nat.min_eq_left (Nat.le_of_lt hn)] at hinv
        have hpos : 0 < addr.length := by omega
        have ha0 : Glb.idx? addr 0 = .ok addr[0] := idx?_ok addr 0 hpos
        have hI0 : idxI addr ((0 : Nat) : Int) = .ok addr[0] := idxI_ok addr 0 hpos
        have hsf : sliceFrom addr ((n : Int) + 1) = Glb.slice? addr (n + 1) addr.length := by
          have := sliceFrom_nat addr (n + 1)
          simpa using this
        simp only [hc', hinv, splitHostPort, idx_natlit, ha0, hI0, hsf, bind, Except.bind, pure, Except.pure,
          beq_self_eq_true, if_true]
        by_cases hb : addr[0] = lbr
        · have hb' : addr[0] = 91 := hb
          obtain ⟨m, rfl⟩ : ∃ m, n = m + 1 := by
            cases n with
            | zero => rw [hb'] at hc'; exact absurd hc' (by decide)
            | succ m => exact ⟨m, rfl⟩
          have e2 : ((m + 1 : Nat) : Int) - 1 = (m : Int) := by omega
          have hs1 : slice addr 1 (m : Int) = Glb.slice? addr 1 m := by
            simpa using slice_nat addr 1 m
          have hs0 : slice addr 0 ((m + 1 : Nat) : Int) = Glb.slice? addr 0 (m + 1) := by
            simpa using slice_nat addr 0 (m + 1)
          simp only [hb, e2, idxI_nat, hs1, hs0, idxPred?, slicePred?, if_true, Nat.add_sub_cancel,
            Nat.succ_ne_zero, if_false]
          generalize Glb.idx? addr m = x1
          generalize Glb.slice? addr 1 m = x2
          generalize Glb.slice? addr 0 (m + 1) = x3
          generalize Glb.slice? addr (m + 1 + 1) (List.length addr) = x4
          rcases x1 with _ | v
          · simp [lbr]
          · by_cases hv : v = 93
            · rcases x2 with _ | _ <;> rcases x4 with _ | _ <;> simp [hv, rbr, lbr]
            · rcases x3 with _ | _ <;> rcases x4 with _ | _ <;> simp [hv, rbr, lbr]
        · have hb' : ¬ addr[0] = 91 := hb
          have hs0 : slice addr 0 (n : Int) = Glb.slice? addr 0 n := by
            simpa using slice_nat addr 0 n
          simp only [hb, hb', hs0, if_false, beq_iff_eq, Bool.false_eq_true]
          generalize Glb.slice? addr 0 n = x3
          generalize Glb.slice? addr (n + 1) (List.length addr) = x4
          rcases x3 with _ | _ <;> rcases x4 with _ | _ <;> simp
      · have hc' : ¬ addr[n] = 58 := hc
        simp only [hc, if_false] at hinv
        simp [hc']
        exact ⟨by omega, by omega, hinv⟩
    · have : i = -1 := by omega
      subst this
      simp at hinv
      simp [hinv, lastColon]
  · refine ⟨by simp only [len_eq]; omega, by simp only [len_eq]; omega, ?_⟩
    simp
  · simp only [len_eq]; omega

end SplitHostPort

/-! ### httpd.(*Params).Get

  Exact equality (panic payloads included) with the specification `paramsGetSpec` below and with the
  existing model `Glb.Router.paramsGet` (which returns an `Option` instead of `(value, found)`). -/

/-- `(*Params).Get` returns `(value, found)`; the model `Glb.Router.paramsGet` an `Option` -/
def optPair : Option Bytes → Bytes × Bool
  | some v => (v, true)
  | none => ([], false)

/-- specification of `(*Params).Get`, self-contained -/
def paramsGetSpec (K V : List Bytes) (key : Bytes) : M (Bytes × Bool) :=
  match Glb.Router.firstIdx key K with
  | some i => match Glb.idx? V i with
    | .ok v => .ok (v, true)
    | .error e => .error e
  | none => .ok ([], false)

theorem Params_Get_eq (K V : List Bytes) (key : Bytes) :
    Glb.Tr.Httpd.Params_Get K V key = paramsGetSpec K V key := by
  unfold Glb.Tr.Httpd.Params_Get
  dsimp only
  rw [loop_eq (σ := Int) (ρ := Bytes × Bool)
    (Inv := fun i => 0 ≤ i ∧ i ≤ K.length)
    (measure := fun i => ((K.length : Int) - i).toNat)
    (model := fun i => match Glb.Router.firstIdx key (K.drop i.toNat) with
      | none => .ok (.inl (K.length : Int))
      | some j => match Glb.idx? V (i.toNat + j) with
        | .ok v => .ok (.inr (v, true))
        | .error e => .error e)]
  · simp only [bind, Except.bind, pure, Except.pure, Int.toNat_zero, List.drop_zero, paramsGetSpec, Nat.zero_add]
    cases Glb.Router.firstIdx key K with
    | none => rfl
    | some j => simp only []; cases Glb.idx? V j <;> rfl
  · intro i ⟨h0, hl⟩
    obtain ⟨n, rfl⟩ : ∃ n : Nat, i = n := ⟨i.toNat, by omega⟩
    simp only [StepOK, pure, Except.pure, len_eq, Int.toNat_natCast]
    by_cases hn : n < K.length
    · obtain ⟨c, rest, hd⟩ : ∃ c rest, K.drop n = c :: rest := by
        cases h : K.drop n with
        | nil => have := length_of_drop_nil K n h; omega
        | cons c rest => exact ⟨c, rest, rfl⟩
      have hc := idx_drop K n c rest hd
      have hrest := drop_succ_of_drop K n c rest hd
      have hn' : ((n : Int) < (K.length : Int)) := by omega
      simp only [hn', decide_true, hc, bind, Except.bind, hd, Glb.Router.firstIdx, beq_iff_eq]
      by_cases h1 : c = key
      · simp only [h1, if_true, idx_int, idxI_nat, Nat.add_zero]
        cases Glb.idx? V n <;> rfl
      · have : ((n : Int) + 1).toNat = n + 1 := by omega
        simp only [h1, if_false, this, hrest]
        refine ⟨⟨by omega, by omega⟩, by omega, ?_⟩
        cases Glb.Router.firstIdx key rest with
        | none => rfl
        | some j => simp only [Option.map]; rw [show n + (j + 1) = n + 1 + j by omega]
    · have hn' : ¬ ((n : Int) < (K.length : Int)) := by omega
      have : K.drop n = [] := List.drop_of_length_le (by omega)
      simp [hn', this, Glb.Router.firstIdx]
      omega
  · simp
  · simp; omega

/-- the same, against the existing model `Glb.Router.paramsGet` (Model/Router.lean) -/
theorem Params_Get_eq_model (K V : List Bytes) (key : Bytes) :
    Glb.Tr.Httpd.Params_Get K V key = optPair <$> Glb.Router.paramsGet ⟨K, V⟩ key := by
  rw [Params_Get_eq]
  unfold paramsGetSpec Glb.Router.paramsGet
  cases Glb.Router.firstIdx key K with
  | none => rfl
  | some i => simp only []; cases Glb.idx? V i <;> rfl

theorem firstIdx_of_first (key : Bytes) (K : List Bytes) (i : Nat) (hi : i < K.length) (hk : K[i] = key)
    (hmin : ∀ j, j < i → K[j]? ≠ some key) : Glb.Router.firstIdx key K = some i := by
  induction K generalizing i with
  | nil => simp at hi
  | cons k r ih =>
    cases i with
    | zero => simp at hk; simp [Glb.Router.firstIdx, hk]
    | succ i =>
      have h0 : k ≠ key := by simpa using hmin 0 (by omega)
      simp only [Glb.Router.firstIdx, h0, if_false]
      rw [ih i (by simpa using hi) (by simpa using hk) (fun j hj => by simpa using hmin (j + 1) (by omega))]
      rfl

theorem firstIdx_none (key : Bytes) (K : List Bytes) (h : key ∉ K) : Glb.Router.firstIdx key K = none := by
  induction K with
  | nil => rfl
  | cons k r ih =>
    simp only [List.mem_cons, not_or] at h
    simp [Glb.Router.firstIdx, Ne.symm h.1, ih h.2]

theorem firstIdx_lt (key : Bytes) (K : List Bytes) (i : Nat) (h : Glb.Router.firstIdx key K = some i) :
    i < K.length := by
  induction K generalizing i with
  | nil => simp [Glb.Router.firstIdx] at h
  | cons k r ih =>
    simp only [Glb.Router.firstIdx] at h
    by_cases hk : k = key
    · simp [hk] at h; subst h; simp
    · simp only [hk, if_false] at h
      cases hr : Glb.Router.firstIdx key r with
      | none => simp [hr] at h
      | some j => simp [hr] at h; subst h; have := ih j hr; simp; omega

/-- found: `i` is the first index with `K[i] = key`; the result is `V[i]`, a panic when `V` is too short -/
theorem Params_Get_found (K V : List Bytes) (key : Bytes) (i : Nat) (hi : i < K.length) (hk : K[i] = key)
    (hmin : ∀ j, j < i → K[j]? ≠ some key) :
    Glb.Tr.Httpd.Params_Get K V key =
      if h : i < V.length then .ok (V[i], true) else .error (.indexRange i V.length) := by
  rw [Params_Get_eq, paramsGetSpec, firstIdx_of_first key K i hi hk hmin]
  by_cases h : i < V.length
  · simp [h, Glb.idx?]
  · simp [h, Glb.idx?]

/-- not found -/
theorem Params_Get_absent (K V : List Bytes) (key : Bytes) (h : key ∉ K) :
    Glb.Tr.Httpd.Params_Get K V key = .ok ([], false) := by
  rw [Params_Get_eq, paramsGetSpec, firstIdx_none key K h]

/-- `len(K) ≤ len(V)`: no panic -/
theorem Params_Get_nopanic (K V : List Bytes) (key : Bytes) (h : K.length ≤ V.length) :
    ∃ r, Glb.Tr.Httpd.Params_Get K V key = .ok r := by
  rw [Params_Get_eq, paramsGetSpec]
  cases hf : Glb.Router.firstIdx key K with
  | none => exact ⟨_, rfl⟩
  | some i =>
    have := firstIdx_lt key K i hf
    have hv : i < V.length := by omega
    exact ⟨(V[i], true), by simp [Glb.idx?, hv]⟩

/-! ### httpd.(*Store).GetClientIP

  The translated function takes the three `Header.Get` results as parameters; the model reads them
  from a `Header`.  Exact equality (the only possible panics are those of `SplitHostPort`/`ip[:i]`,
  which never happen, and their payloads agree anyway). -/

section GetClientIP
open Glb.Aux.Httpd

private theorem indexByteFrom_eq (c : UInt8) (s : Bytes) (k : Nat) :
    Lib.indexByteFrom c s k =
      match Glb.Aux.Httpd.indexByte s c with
      | some i => ((k + i : Nat) : Int)
      | none => -1 := by
  induction s generalizing k with
  | nil => rfl
  | cons x rest ih =>
    simp only [Lib.indexByteFrom, Glb.Aux.Httpd.indexByte, beq_iff_eq]
    by_cases h : x = c
    · simp [h]
    · simp only [h, if_false, ih]
      cases Glb.Aux.Httpd.indexByte rest c with
      | none => rfl
      | some i => simp only [Option.map]; congr 1; omega

theorem GetClientIP_eq (h : Header) (remote : Bytes) :
    Glb.Tr.Httpd.GetClientIP (get h xClientIP) (get h xForwardedFor) (get h xRealIP) remote
      = getClientIP h remote := by
  unfold Glb.Tr.Httpd.GetClientIP getClientIP
  rw [SplitHostPort_eq]
  simp only [Lib.indexByte, indexByteFrom_eq, bind, Except.bind, pure, Except.pure, bne_iff_ne, ne_eq]
  by_cases h1 : get h xClientIP = []
  · by_cases h2 : get h xForwardedFor = []
    · by_cases h3 : get h xRealIP = []
      · simp [h1, h2, h3]
      · simp [h1, h2, h3]
    · have e44 : (44 : UInt8) = comma := rfl
      simp only [h1, h2, not_true_eq_false, not_false_eq_true, if_true, if_false, e44]
      cases hix : Glb.Aux.Httpd.indexByte (get h xForwardedFor) comma with
      | none => simp
      | some i =>
        have : ¬ ((i : Int) = -1) := by omega
        simp only [Nat.zero_add, this, not_false_eq_true, if_true, sliceTo]
        simpa using slice_nat (get h xForwardedFor) 0 i
  · simp [h1]
end GetClientIP

/-! ### netutil.LastIP

  The translated function takes `masked` = the (non-nil) result of `cidr.IP.Mask(cidr.Mask)` as a
  parameter.  Exact equality with the model's loop, index panics (and their payloads) included. -/

section LastIP
open Glb.Aux.Net

private theorem lt_of_idx?_ok {α} (s : List α) (n : Nat) (b : α) (h : Glb.idx? s n = .ok b) : n < s.length := by
  rcases Nat.lt_or_ge n s.length with h1 | h1
  · exact h1
  · have : s[n]? = none := by simp; omega
    simp [Glb.idx?, this] at h

theorem LastIP_eq (masked mask : Bytes) :
    Glb.Tr.Netutil.LastIP masked mask = lastIPLoop mask mask.length masked := by
  unfold Glb.Tr.Netutil.LastIP
  dsimp only
  rw [loop_eq (σ := Bytes × Int) (ρ := Bytes)
    (Inv := fun st => -1 ≤ st.2)
    (measure := fun st => (st.2 + 1).toNat)
    (model := fun st => match lastIPLoop mask (st.2 + 1).toNat st.1 with
      | .ok r => .ok (.inl (r, -1))
      | .error e => .error e)]
  · simp only [bind, Except.bind, pure, Except.pure, len_eq]
    have : ((mask.length : Int) - 1 + 1).toNat = mask.length := by omega
    rw [this]
    cases lastIPLoop mask mask.length masked <;> rfl
  · intro ⟨ip, i⟩ h0
    simp only at h0
    simp only [StepOK, pure, Except.pure]
    by_cases hi : i ≥ 0
    · obtain ⟨n, rfl⟩ : ∃ n : Nat, i = n := ⟨i.toNat, by omega⟩
      have e1 : ((n : Int) + 1).toNat = n + 1 := by omega
      have e2 : ((n : Int) - 1 + 1).toNat = n := by omega
      simp only [hi, decide_true, idx_int, idxI_nat, bind, Except.bind, e1, lastIPLoop]
      cases hb : Glb.idx? ip n with
      | error e => simp
      | ok b =>
        cases hm : Glb.idx? mask n with
        | error e => simp
        | ok m =>
          have hn := lt_of_idx?_ok ip n b hb
          simp [Glb.Go.set, hn]
          omega
    · have : i = -1 := by omega
      subst this
      simp [lastIPLoop]
  · simp only [len_eq]; omega
  · simp only [len_eq]; omega

/-- `Glb.Aux.Net.lastIP` (the whole `LastIP(cidr)`, with `cidr.IP.Mask(cidr.Mask)` modelled by `ipMask`;
    a nil result of `Mask` is the empty slice for the loop) expressed with the translated loop -/
theorem lastIP_eq (ip mask : Bytes) :
    lastIP ip mask =
      match ipMask ip mask with
      | none => (fun _ => none) <$> Glb.Tr.Netutil.LastIP [] mask
      | some r => some <$> Glb.Tr.Netutil.LastIP r mask := by
  unfold lastIP
  simp only [LastIP_eq]
  cases ipMask ip mask with
  | none => simp only []; cases lastIPLoop mask mask.length [] <;> rfl
  | some r => simp only []; cases lastIPLoop mask mask.length r <;> rfl
end LastIP

/-! ### fsutil.ExpandHomeDir

  The translated function takes the result of `os.UserHomeDir()` as the parameters `home`, `homeErr`
  (`homeErr` = "err != nil"); the model computes it from `$HOME` (`userHomeDir`).  `filepath.Clean/Join`
  of the translated code are the byte algorithm (`Glb.Go.LibPath`), those of the model the segment
  model; they are equal by `cleanBytes_eq` / `joinB_eq` (Proofs/PathCleanBytes).  Exact equality;
  neither side panics. -/

section ExpandHomeDir
open Glb.Aux.Home

theorem ExpandHomeDir_eq_cases (home raw : Bytes) :
    Glb.Tr.Fsutil.ExpandHomeDir raw (userHomeDir home).1 (userHomeDir home).2
      = .ok (expandHomeDir home raw) := by
  unfold Glb.Tr.Fsutil.ExpandHomeDir expandHomeDir userHomeDir
  simp only [LibPath.clean, LibPath.join2, Glb.PathCleanBytes.cleanBytes_eq, Glb.PathCleanBytes.joinB_eq]
  match raw with
  | [] => simp [bind, Except.bind, pure, Except.pure, expands]
  | [c] =>
    by_cases hc : c = 126
    · by_cases hh : home = []
      · simp [bind, Except.bind, pure, Except.pure, expands, idxI, Glb.idx?, hc, hh, tilde]
      · simp [bind, Except.bind, pure, Except.pure, expands, idxI, Glb.idx?, hc, hh, tilde]
    · simp [bind, Except.bind, pure, Except.pure, expands, idxI, Glb.idx?, hc, tilde]
  | c :: d :: t =>
    have hsf : sliceFrom (c :: d :: t) 1 = .ok (d :: t) := by
      have := sliceFrom_nat (c :: d :: t) 1
      simp [Glb.slice?] at this
      simpa using this
    have hlen : (1 : Int) < (t.length : Int) + 1 + 1 := by omega
    have hlen1 : ¬ ((t.length : Int) + 1 + 1 = 1) := by omega
    have hlen0 : ¬ ((t.length : Int) + 1 + 1 = 0) := by omega
    by_cases hc : c = 126
    · subst hc
      by_cases hd : d = 47
      · subst hd
        by_cases hh : home = []
        · simp [bind, Except.bind, pure, Except.pure, expands, idxI, Glb.idx?, hh, tilde, hlen, hlen0, Glb.PathClean.slash]
        · simp [bind, Except.bind, pure, Except.pure, expands, idxI, Glb.idx?, hh, tilde, hsf, hlen, hlen1, hlen0, Glb.PathClean.slash]
      · by_cases hd2 : d = 92
        · subst hd2
          by_cases hh : home = []
          · simp [bind, Except.bind, pure, Except.pure, expands, idxI, Glb.idx?, hh, tilde, hlen, hlen0, Glb.PathClean.slash, backslash]
          · simp [bind, Except.bind, pure, Except.pure, expands, idxI, Glb.idx?, hh, tilde, hsf, hlen, hlen1, hlen0, Glb.PathClean.slash, backslash]
        · simp [bind, Except.bind, pure, Except.pure, expands, idxI, Glb.idx?, hd, hd2, tilde, hlen, hlen0, Glb.PathClean.slash, backslash]
    · simp [bind, Except.bind, pure, Except.pure, expands, idxI, Glb.idx?, hc, tilde, hlen0]

/-- against the literal model (checked indices): neither side panics -/
theorem ExpandHomeDir_eq (home raw : Bytes) :
    Glb.Tr.Fsutil.ExpandHomeDir raw (userHomeDir home).1 (userHomeDir home).2
      = expandHomeDir? home raw := by
  rw [ExpandHomeDir_eq_cases, Glb.Aux.Home.expandHomeDir_eq]
end ExpandHomeDir

/-! ### ansi.ScrollUpN / ScrollDownN

  Total: `n.toNat` copies of ESC M / ESC D for every `n` (the guard `n <= 0` keeps
  `strings.Repeat` from its negative-count panic). -/

section Ansi

/-- `n` copies of the two-byte sequence `[a, b]` -/
def copies (a b : UInt8) (n : Nat) : Bytes := (List.replicate n ([a, b] : Bytes)).flatten

theorem copies_length (a b : UInt8) (n : Nat) : (copies a b n).length = 2 * n := by
  induction n with
  | zero => rfl
  | succ n ih =>
    have : copies a b (n + 1) = a :: b :: copies a b n := by simp [copies, List.replicate_succ]
    rw [this]; simp [ih]; omega

/-- never panics; `n.toNat` copies of ESC M (none for `n ≤ 0`) -/
theorem ScrollUpN_eq (n : Int) : Glb.Tr.Ansi.ScrollUpN n = .ok (copies 27 77 n.toNat) := by
  unfold Glb.Tr.Ansi.ScrollUpN
  by_cases h : n ≤ 0
  · have : n.toNat = 0 := by omega
    simp [h, this, copies, pure, Except.pure]
  · have h' : ¬ n < 0 := by omega
    simp [h, h', Lib.repeatBytes, copies]

theorem ScrollDownN_eq (n : Int) : Glb.Tr.Ansi.ScrollDownN n = .ok (copies 27 68 n.toNat) := by
  unfold Glb.Tr.Ansi.ScrollDownN
  by_cases h : n ≤ 0
  · have : n.toNat = 0 := by omega
    simp [h, this, copies, pure, Except.pure]
  · have h' : ¬ n < 0 := by omega
    simp [h, h', Lib.repeatBytes, copies]

theorem ScrollUpN_nonpos (n : Int) (h : n ≤ 0) : Glb.Tr.Ansi.ScrollUpN n = .ok [] := by
  rw [ScrollUpN_eq, show n.toNat = 0 by omega]; rfl

theorem ScrollDownN_nonpos (n : Int) (h : n ≤ 0) : Glb.Tr.Ansi.ScrollDownN n = .ok [] := by
  rw [ScrollDownN_eq, show n.toNat = 0 by omega]; rfl

/-- for `n ≥ 0` the result is `n` copies of ESC M and has length `2 * n` -/
theorem ScrollUpN_nat (n : Nat) :
    ∃ r, Glb.Tr.Ansi.ScrollUpN (n : Int) = .ok r ∧ r = copies 27 77 n ∧ r.length = 2 * n :=
  ⟨_, by rw [ScrollUpN_eq]; rfl, rfl, copies_length _ _ _⟩

theorem ScrollDownN_nat (n : Nat) :
    ∃ r, Glb.Tr.Ansi.ScrollDownN (n : Int) = .ok r ∧ r = copies 27 68 n ∧ r.length = 2 * n :=
  ⟨_, by rw [ScrollDownN_eq]; rfl, rfl, copies_length _ _ _⟩

end Ansi

end Glb.Tie.TrMisc
