/-
  Tie of the TRANSLATED `appendJsonString` (/repo/logger/json_handler.go:279, regenerated into
  Glb/Generated/TrLogger.lean on every run) to the hand model `Glb.JsonHandler.appendJsonString`
  (= `ajsGo 0 true`, Glb/Model/JsonHandler.lean) the C01 property theorems are about.

      appendJsonString_eq : Tr.Logger.appendJsonString buf str = .ok (buf ++ JsonHandler.appendJsonString str)

  for every `buf`, `str` (full strength: the translated code never panics and never runs out of fuel).

  The Go loop copies runs `str[start:i]` lazily, the model emits byte by byte, so the final loop state
  is not a handy function of the start state; instead of `loop_eq` the proof uses the Hoare-style rule
  `loop_inv_bind` (Glb/Go/LemmasJsonString.lean) with the relational invariant

      start ≤ i ≤ len str  ∧  buf ++ str[start:i] ++ model (str[i:]) = buf0 ++ model str.

  Every iteration advances `i` by `k ≥ 1` bytes with `model str[i:] = E ++ model str[i+k:]` and either
  leaves `buf`/`start` alone with `E = str[i:i+k]` (`inv_copy`) or flushes the run and appends the escape
  `E` (`inv_esc`).  The model-side equations are `ajs_ascii` / `ajs_multi` of Proofs/JsonString.lean; the
  tables `safeSet` (128 entries) and `hex` (16 entries) come from Tie/Logger.lean.
-/
import Glb.Go.Lemmas
import Glb.Go.LemmasJsonString
import Glb.Generated.TrJson
import Glb.Model.JsonHandler
import Glb.Tie.Logger
import Glb.Proofs.JsonString

namespace Glb.Tie.TrJsonString
open Glb.Go Glb.JsonHandler

/-! ### table and slice access -/

theorem idx_safeSet (c : UInt8) (hc : c < 128) : idx Generated.safeSet c = .ok (safe c) := by
  have hn : c.toNat < 128 := by simpa [UInt8.lt_iff_toNat_lt] using hc
  have hl := Tie.Logger.safeSet_length
  rw [idx_u8, idxI_nat, idx?_ok _ _ (by omega)]
  simp [safe, List.getElem?_eq_getElem (show c.toNat < Generated.safeSet.length by omega)]

theorem idxI_hex (n : Nat) (h : n < 16) : idxI Generated.hex (n : Int) = .ok (hexAt n) := by
  have hl := Tie.Logger.hex_length
  rw [idxI_nat, idx?_ok _ _ (by omega)]
  simp [hexAt, List.getElem?_eq_getElem (show n < Generated.hex.length by omega)]

theorem idx_hex_hi (c : UInt8) : idx Generated.hex (shr c 4) = .ok (hexAt (c.toNat / 16)) := by
  have : (c >>> 4).toNat = c.toNat / 16 := by
    simp [UInt8.toNat_shiftRight, Nat.shiftRight_eq_div_pow]
  rw [idx_u8, this]
  exact idxI_hex _ (by have := c.toNat_lt; omega)

theorem idx_hex_lo (c : UInt8) : idx Generated.hex (band c 15) = .ok (hexAt (c.toNat % 16)) := by
  have : (c &&& 15).toNat = c.toNat % 16 := by
    simp [UInt8.toNat_and]
    exact Nat.and_two_pow_sub_one_eq_mod c.toNat 4
  rw [idx_u8, this]
  exact idxI_hex _ (by omega)

theorem slice_ok (str : Bytes) (a b : Nat) (h1 : a ≤ b) (h2 : b ≤ str.length) :
    slice str (a : Int) (b : Int) = .ok ((str.drop a).take (b - a)) := by
  simp [Glb.slice?, h1, h2]

theorem sliceFrom_ok (str : Bytes) (a : Nat) (h : a ≤ str.length) :
    sliceFrom str (a : Int) = .ok (str.drop a) := by
  have : List.take (str.length - a) (List.drop a str) = List.drop a str :=
    List.take_of_length_le (by simp)
  simp [Glb.slice?, h, this]

/-! ### the invariant -/

/-- invariant on naturals -/
def InvN (buf0 str : Bytes) (i : Nat) (buf : Bytes) (start : Nat) : Prop :=
  start ≤ i ∧ i ≤ str.length ∧
    buf ++ (str.drop start).take (i - start) ++ appendJsonString (str.drop i) = buf0 ++ appendJsonString str

def Inv (buf0 str : Bytes) (st : Int × Bytes × Int) : Prop :=
  ∃ (i start : Nat) (buf : Bytes), st = ((i : Int), buf, (start : Int)) ∧ InvN buf0 str i buf start

theorem inv_esc {buf0 str : Bytes} {i start : Nat} {buf : Bytes} (h : InvN buf0 str i buf start)
    (k : Nat) (E : Bytes) (i' : Int) (hi : i' = (i : Int) + (k : Int)) (hk : i + k ≤ str.length)
    (hE : appendJsonString (str.drop i) = E ++ appendJsonString (str.drop (i + k))) :
    Inv buf0 str (i', buf ++ (str.drop start).take (i - start) ++ E, i') := by
  obtain ⟨h1, h2, h3⟩ := h
  subst hi
  refine ⟨i + k, i + k, buf ++ (str.drop start).take (i - start) ++ E, by simp, Nat.le_refl _, hk, ?_⟩
  rw [← h3, hE]
  simp [List.append_assoc]

theorem inv_copy {buf0 str : Bytes} {i start : Nat} {buf : Bytes} (h : InvN buf0 str i buf start)
    (k : Nat) (i' : Int) (hi : i' = (i : Int) + (k : Int)) (hk : i + k ≤ str.length)
    (hE : appendJsonString (str.drop i) = (str.drop i).take k ++ appendJsonString (str.drop (i + k))) :
    Inv buf0 str (i', buf, (start : Int)) := by
  obtain ⟨h1, h2, h3⟩ := h
  subst hi
  refine ⟨i + k, start, buf, by simp, by omega, hk, ?_⟩
  rw [← h3, hE]
  have e : i + k - start = (i - start) + k := by omega
  have e2 : start + (i - start) = i := by omega
  rw [e, List.take_add, List.drop_drop, e2]
  simp [List.append_assoc]

theorem appendJsonString_eq (buf str : Bytes) :
    Glb.Tr.Logger.appendJsonString buf str = .ok (buf ++ Glb.JsonHandler.appendJsonString str) := by
  unfold Glb.Tr.Logger.appendJsonString
  dsimp only
  refine loop_inv_bind (Inv buf str) (fun st => ((str.length : Int) - st.1).toNat) ?_ ?_ ?_ ?_
  · rintro _ ⟨i, start, b, rfl, hI⟩
    have ⟨h1, h2, h3⟩ := hI
    simp only [StepInv, pure, Except.pure, len_eq]
    by_cases hn : i < str.length
    · have hn' : ((i : Int) < (str.length : Int)) := by omega
      obtain ⟨c, rest, hd⟩ : ∃ c rest, str.drop i = c :: rest := by
        cases h : str.drop i with
        | nil => have := length_of_drop_nil str i h; omega
        | cons c rest => exact ⟨c, rest, rfl⟩
      have hc := idx_drop str i c rest hd
      have hdk : ∀ k, 1 ≤ k → str.drop (i + k) = rest.drop (k - 1) := by
        intro k hk
        have : str.drop (i + k) = (str.drop i).drop k := by simp [List.drop_drop]
        rw [this, hd]
        cases k with
        | zero => omega
        | succ k => simp
      have hsl := slice_ok str start i h1 h2
      simp only [hn', decide_true, hc, bind, Except.bind, hsl]
      by_cases hb : c < 128
      · simp only [hb, decide_true, if_true, idx_safeSet c hb]
        have hajs := Glb.JsonString.ajs_ascii c rest hb
        by_cases hs : safe c = true
        · simp only [hs, if_true]
          refine ⟨inv_copy hI 1 _ rfl (by omega) ?_, by omega⟩
          rw [hdk 1 (by omega), hd, hajs]; simp [hs]
        · simp only [hs, idx_hex_hi, idx_hex_lo]
          simp only [Bool.false_eq_true, if_false]
          have fin : ∀ E, escAscii c = E →
              (Inv buf str ((i : Int) + 1, b ++ List.take (i - start) (List.drop start str) ++ E, (i : Int) + 1) ∧
                ((str.length : Int) - ((i : Int) + 1)).toNat < ((str.length : Int) - (i : Int)).toNat) := by
            intro E hE
            refine ⟨inv_esc hI 1 E _ rfl (by omega) ?_, by omega⟩
            rw [hdk 1 (by omega), hd, hajs]; simp [hs, hE]
          by_cases e1 : (c == 92 || c == 34) = true
          · simp only [e1, if_true]; exact fin _ (by simp [escAscii, e1])
          · by_cases e2 : (c == 10) = true
            · simp only [e1, e2, if_true]; exact fin _ (by simp [escAscii, e1, e2])
            · by_cases e3 : (c == 13) = true
              · simp only [e1, e2, e3, if_true]
                exact fin _ (by simp [escAscii, e1, e2, e3])
              · by_cases e4 : (c == 9) = true
                · simp only [e1, e2, e3, e4, if_true]
                  exact fin _ (by simp [escAscii, e1, e2, e3, e4])
                · simp only [e1, e2, e3, e4]
                  exact fin _ (by simp [escAscii, e1, e2, e3, e4])
      · have hsf := sliceFrom_ok str i h2
        simp only [hb, decide_false, Bool.false_eq_true, if_false, hsf, hd, LibUtf8.decodeRuneInString]
        have hm := Glb.JsonString.ajs_multi c rest hb
        have hpos := Glb.Utf8.decodeRune_size_pos c rest
        have hle := Glb.Utf8.decodeRune_size_le (c :: rest)
        have hlen : (c :: rest).length = str.length - i := by rw [← hd]; simp
        generalize Glb.Utf8.decodeRune (c :: rest) = cs at hm hpos hle ⊢
        simp only at hm
        by_cases hA : (((cs.1 : Int) == 65533) && ((cs.2 : Int) == 1)) = true
        · have hA' : cs.1 = 65533 ∧ cs.2 = 1 := by simp at hA; omega
          have hA2 : (cs.fst == Utf8.runeError && cs.snd == 1) = true := by
            simpa [Glb.Utf8.runeError] using hA'
          rw [if_pos hA2] at hm
          simp only [hA, if_true]
          refine ⟨inv_esc hI cs.2 _ _ rfl (by omega) ?_, by omega⟩
          rw [hdk _ hpos, hd, hm, hA'.2]; rfl
        · have hA' : ¬ (cs.1 = 65533 ∧ cs.2 = 1) := by simp at hA; omega
          have hA2 : ¬ ((cs.fst == Utf8.runeError && cs.snd == 1) = true) := by
            simpa [Glb.Utf8.runeError] using hA'
          rw [if_neg hA2] at hm
          simp only [hA]
          by_cases hB : (((cs.1 : Int) == 8232) || ((cs.1 : Int) == 8233)) = true
          · have hB' : cs.1 = 8232 ∨ cs.1 = 8233 := by simp at hB; omega
            have hB2 : (cs.fst == 8232 || cs.fst == 8233) = true := by simpa using hB'
            rw [if_pos hB2] at hm
            have hx : idx Generated.hex (band (cs.1 : Int) 15) = .ok (hexAt (cs.1 % 16)) := by
              rcases hB' with e | e <;> rw [e] <;> rfl
            simp only [hB, if_true, hx]
            refine ⟨inv_esc hI cs.2 _ _ rfl (by omega) ?_, by omega⟩
            rw [hdk _ hpos, hd, hm]; rfl
          · have hB' : ¬ (cs.1 = 8232 ∨ cs.1 = 8233) := by simp at hB; omega
            have hB2 : ¬ ((cs.fst == 8232 || cs.fst == 8233) = true) := by simpa using hB'
            rw [if_neg hB2] at hm
            simp only [hB]
            refine ⟨inv_copy hI cs.2 _ rfl (by omega) ?_, by omega⟩
            rw [hdk _ hpos, hd, hm]
            obtain ⟨k, hk⟩ : ∃ k, cs.2 = k + 1 := ⟨cs.2 - 1, by omega⟩
            simp [hk]
    · have hn' : ¬ ((i : Int) < (str.length : Int)) := by omega
      simp [hn']
  · exact ⟨0, 0, buf, rfl, by simp [InvN]⟩
  · simp
  · rintro _ ⟨i, start, b, rfl, h1, h2, h3⟩ hc
    simp only [pure, Except.pure, len_eq] at hc
    have hge : ¬ ((i : Int) < (str.length : Int)) := by simpa using hc
    have e1 : str.drop i = [] := List.drop_of_length_le (by omega)
    have e2 : (str.drop start).take (i - start) = str.drop start :=
      List.take_of_length_le (by simp; omega)
    rw [e1, e2, Glb.JsonString.ajs_nil, List.append_nil] at h3
    simp only [bind, Except.bind, pure, Except.pure, sliceFrom_ok str start (by omega), h3]

end Glb.Tie.TrJsonString
