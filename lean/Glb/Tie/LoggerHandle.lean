/-
  Regenerated tie for C02: what `tools/extract` read from the three `Handle` methods, the
  constructors, `clone()`, `Logger.log/logf/logAttrs`, `Options.Enabled`, `freeBuffer`,
  `newBuffer` and `bufferPool.New` in /repo is the step sequence of `Glb/Model/LogSys.lean`:

    * per `Handle`: the buffer comes from `newBuffer()` with `defer freeBuffer(buf)`; there is
      exactly one `h.out.Write`, its argument is `*buf`, it comes lexically after the single
      `h.outMu.Lock()`; the unlock is deferred (or explicit after the write); lock and write are
      unconditional statements of the body; the writer is not used in any other way;
    * one mutex per root: the constructor allocates it, `clone()` copies the pointer and the writer;
    * `Logger.log/logf/logAttrs` test `Enabled` before anything else; `Enabled` is `l >= opts.level`;
    * `freeBuffer`: `cap(*buf) <= maxBufferSize` → reset to length 0, then `Put`; nothing else;
      fresh pool buffers have length 0.

  Re-proved by `decide` on every run: writing the line and the newline in two Writes, writing
  before the lock, allocating a new mutex in `clone()`, dropping the `[:0]` … break this file.
-/
import Glb.Generated.StatusLoggerHandle
import Glb.Generated.LoggerHandle
import Glb.Generated.LoggerClone

namespace Glb.Tie.LoggerHandle
open Glb.Generated.LoggerHandle Glb.Generated.LoggerClone

def allowedEvents : List String :=
  ["newBuffer", "deferFreeBuffer", "lock", "deferUnlock", "unlock", "write:*buf"]

def before (evs : List String) (a b : String) : Bool :=
  evs.contains a && evs.contains b && evs.idxOf a < evs.idxOf b

def handleOK (f : HandleFact) : Bool :=
  f.events.all (fun e => allowedEvents.contains e) &&
  f.events.count "write:*buf" == 1 && f.events.count "lock" == 1 &&
  f.events.count "newBuffer" == 1 && f.events.count "deferFreeBuffer" == 1 &&
  before f.events "newBuffer" "deferFreeBuffer" && before f.events "newBuffer" "write:*buf" &&
  before f.events "lock" "write:*buf" &&
  ((f.events.count "deferUnlock" == 1 && f.events.count "unlock" == 0 && before f.events "lock" "deferUnlock") ||
   (f.events.count "deferUnlock" == 0 && f.events.count "unlock" == 1 && before f.events "write:*buf" "unlock")) &&
  f.lockTopLevel && f.writeTopLevel

def sharedMutex (f : HandleFact) : Bool :=
  f.newAllocatesMutex && f.cloneCopiesOutMu && f.cloneCopiesOut

theorem json_handle_protocol : handleOK jsonHandle = true ∧ sharedMutex jsonHandle = true := by decide
theorem text_handle_protocol : handleOK textHandle = true ∧ sharedMutex textHandle = true := by decide
theorem nano_handle_protocol : handleOK nanoHandle = true ∧ sharedMutex nanoHandle = true := by decide

/-- the clone is a fresh struct whose other fields are copies (no second place a mutex could come from) -/
theorem clones_copy_fields :
    jsonClone.singleReturn = true ∧ jsonClone.other = [] ∧
    textClone.singleReturn = true ∧ textClone.other = [] ∧
    nanoClone.singleReturn = true ∧ nanoClone.other = [] := by decide

theorem level_gate_first :
    logGateFirst = true ∧ logfGateFirst = true ∧ logAttrsGateFirst = true ∧
    optionsEnabledBody = "return l >= opts.level" := by decide

theorem free_buffer_structure :
    freeBufferCond = "cap(*buf) <= maxBufferSize" ∧
    freeBufferThen = ["*buf = (*buf)[:0]", "bufferPool.Put(buf)"] ∧
    freeBufferHasElse = false ∧ freeBufferOther = [] := by decide

theorem new_buffer_structure :
    newBufferBody = ["return bufferPool.Get().(*[]byte)"] ∧ freshBufferLenArg = "0" := by decide

/-- the extractor of this area recognised the source as it is on this run (a refusal removes `ok`) -/
theorem extractor_ok : Glb.Generated.StatusLoggerHandle.ok = () := rfl

end Glb.Tie.LoggerHandle
