/-
  Tie of the TRANSLATED `/repo/httpd/tree.go` (Glb/Generated/TrRouter.lean, rewritten from the Go
  source on every run by tools/extract/golean.go) to the hand-written router model
  (Glb/Model/Router.lean) that the refinement theorems of Props/C04 are about.
-/
import Glb.Go.Lemmas
import Glb.Generated.TrRouter
import Glb.Model.Router

namespace Glb.Tie.TrRouter
open Glb.Go
open Glb.Router (Node RouteId Params findLoop normPath notSlashAt)

/-! ### Go maps: the translator's `mapGet` is the model's `assocGet` -/

theorem mapGet_eq_assocGet {α} (m : List (Bytes × α)) (k : Bytes) :
    Glb.Go.mapGet m k = Glb.Router.assocGet m k := by
  induction m with
  | nil => rfl
  | cons kv r ih =>
    obtain ⟨k', v⟩ := kv
    simp only [Glb.Go.mapGet, Glb.Router.assocGet, ih]

theorem mapGet_next (n : Node) (k : Bytes) :
    Glb.Go.mapGet n.next k = n.child k := by
  simp only [Glb.Router.Node.child, mapGet_eq_assocGet]

theorem mapGetD_tagOf (m : Bytes) :
    Glb.Go.mapGetD Glb.Generated.methodTagMap m = Glb.Router.tagOf m := by
  simp only [Glb.Go.mapGetD, Glb.Router.tagOf, Glb.Router.methodTag?, mapGet_eq_assocGet]

/-! ### methodNodeOrNil -/

theorem methodNodeOrNil_eq (n : Node) (method : Bytes) :
    Glb.Tr.Router.methodNodeOrNil n method = .ok (Glb.Router.methodNodeOrNil n method) := by
  unfold Glb.Tr.Router.methodNodeOrNil Glb.Router.methodNodeOrNil
  simp only [mapGet_next, mapGetD_tagOf]
  cases h : n.child (Glb.Router.tagOf method) <;> simp [pure, Except.pure]

/-! ### findRoute -/

/-- The loop of `findRoute` with its complete exit state: `.inl (node, pV, left, right)` when the loop
    is left normally (condition false, or `break`), `.inr r` for the `return` inside the loop.
    Same recursion as the model's `findLoop`; it only adds the `left`/`right` components, which the
    code after the loop does not read (`exitLoop_spec`). -/
def exitLoop (path : Bytes) (pK : List Bytes) :
    (fuel left right : Nat) → Node → List Bytes →
      Except GoPanic (Sum (Node × List Bytes × Int × Int) (List Bytes × List Bytes × Option RouteId))
  | 0, left, right, node, V => .ok (.inl (node, V, (left : Int), (right : Int)))
  | fuel + 1, left, right, node, V =>
    if notSlashAt path right then exitLoop path pK fuel left (right + 1) node V
    else if right - left < 2 ∧ right < path.length then
      exitLoop path pK fuel right (right + 1) node V
    else do
      let seg ← slice? path (left + 1) right
      match node.child seg with
      | some res => exitLoop path pK fuel right (right + 1) res V
      | none =>
        match node.child Generated.routeParam with
        | some res => exitLoop path pK fuel right (right + 1) res (V ++ [seg])
        | none =>
          match node.child Generated.routeParamAny with
          | some res => do
            let rest ← slice? path (left + 1) path.length
            .ok (.inl (res, V ++ [rest], (left : Int), (right : Int)))
          | none => .ok (.inr (pK, V, none))

/-- `exitLoop` is the model's `findLoop` plus the unread `left`/`right` -/
theorem exitLoop_spec (path : Bytes) (pK : List Bytes) :
    ∀ (fuel left right : Nat) (node : Node) (V : List Bytes),
      match findLoop path fuel left right node V with
      | .error e => exitLoop path pK fuel left right node V = .error e
      | .ok (some n, V') => ∃ l r : Int, exitLoop path pK fuel left right node V = .ok (.inl (n, V', l, r))
      | .ok (none, V') => exitLoop path pK fuel left right node V = .ok (.inr (pK, V', none)) := by
  intro fuel
  induction fuel with
  | zero =>
    intro left right node V
    simp only [findLoop, exitLoop]
    exact ⟨_, _, rfl⟩
  | succ f ih =>
    intro left right node V
    rw [findLoop, exitLoop]
    by_cases h1 : notSlashAt path right = true
    · simp only [h1, if_true]
      exact ih _ _ _ _
    · simp only [h1, Bool.false_eq_true, if_false]
      by_cases h2 : right - left < 2 ∧ right < path.length
      · simp only [h2, and_self, if_true]
        exact ih _ _ _ _
      · simp only [h2, if_false]
        cases hs : slice? path (left + 1) right with
        | error e => simp only [bind, Except.bind]
        | ok seg =>
          simp only [bind, Except.bind]
          cases hc1 : node.child seg with
          | some res => exact ih _ _ _ _
          | none =>
            cases hc2 : node.child Generated.routeParam with
            | some res => exact ih _ _ _ _
            | none =>
              cases hc3 : node.child Generated.routeParamAny with
              | none => simp only
              | some res =>
                cases hr : slice? path (left + 1) path.length with
                | error e => simp only
                | ok rest => exact ⟨_, _, rfl⟩

theorem notSlashAt_lt (p : Bytes) (r : Nat) (h : r < p.length) : notSlashAt p r = (p[r] != 47) := by
  simp [notSlashAt, h]

theorem notSlashAt_ge (p : Bytes) (r : Nat) (h : p.length ≤ r) : notSlashAt p r = false := by
  simp [notSlashAt, h]

theorem normPath_idem (path : Bytes) : normPath (normPath path) = normPath path := by
  cases path with
  | nil => simp [normPath]
  | cons b rest =>
    by_cases hb : b = 47
    · simp [normPath, hb]
    · simp [normPath, hb]

theorem normPath_fix (p : Bytes) (hp : normPath p = p) : ∃ rest, p = 47 :: rest := by
  cases p with
  | nil => simp [normPath] at hp
  | cons b rest =>
    by_cases hb : b = 47
    · exact ⟨rest, by rw [hb]⟩
    · simp [normPath, hb] at hp

/-- the tie for a path that already starts with `/` -/
private theorem findRoute_core (root : Node) (p method : Bytes) (K V : List Bytes) (hp : normPath p = p) :
    Glb.Tr.Router.findRoute root p method K V
      = (Glb.Router.findRoute root p method ⟨K, V⟩).map (fun r => (r.2.K, r.2.V, r.1)) := by
  unfold Glb.Router.findRoute
  dsimp only
  rw [hp]
  obtain ⟨rest, rfl⟩ := normPath_fix p hp
  clear hp
  unfold Glb.Tr.Router.findRoute
  dsimp only
  have h0 : ((47 :: rest : Bytes) == []) = false := rfl
  have h1 : Glb.idx? (47 :: rest : Bytes) 0 = .ok 47 := rfl
  simp only [h0, Bool.false_eq_true, if_false, idx_natlit, idxI_nat, h1, bind, Except.bind, pure, Except.pure,
    bne_self_eq_false]
  clear h0 h1
  generalize (47 :: rest : Bytes) = q
  clear rest
  rw [loop_eq (σ := Node × List Bytes × Int × Int) (ρ := List Bytes × List Bytes × Option RouteId)
    (Inv := fun st => 0 ≤ st.2.2.1 ∧ 0 ≤ st.2.2.2 ∧ st.2.2.2 ≤ (q.length : Int) + 1)
    (measure := fun st => ((q.length : Int) + 1 - st.2.2.2).toNat)
    (model := fun st => exitLoop q K ((q.length : Int) + 1 - st.2.2.2).toNat st.2.2.1.toNat st.2.2.2.toNat
      st.1 st.2.1)]
  · -- the code around the loop
    have hfuel : ((q.length : Int) + 1 - 0).toNat = q.length + 1 := by omega
    have hspec := exitLoop_spec q K (q.length + 1) 0 0 root V
    simp only [methodNodeOrNil_eq, len_eq, hfuel, Int.toNat_zero]
    have hbeq : ((q.length : Int) == 1) = decide (q.length = 1) := by
      by_cases h : q.length = 1
      · simp [h]
      · simp only [h, decide_false, beq_eq_false_iff_ne, ne_eq]; omega
    rw [hbeq]
    cases hf : findLoop q (q.length + 1) 0 0 root V with
    | error e =>
      rw [hf] at hspec
      dsimp only at hspec
      rw [hspec]
      by_cases hlen : q.length = 1 <;> cases hm : Glb.Router.methodNodeOrNil root method <;>
        simp [hlen, Except.map]
    | ok res =>
      obtain ⟨on, V'⟩ := res
      rw [hf] at hspec
      cases on with
      | none =>
        dsimp only at hspec
        rw [hspec]
        by_cases hlen : q.length = 1 <;> cases hm : Glb.Router.methodNodeOrNil root method <;>
          simp [hlen, Except.map]
      | some n =>
        dsimp only at hspec
        obtain ⟨l', r', hspec⟩ := hspec
        rw [hspec]
        by_cases hlen : q.length = 1 <;> cases hm : Glb.Router.methodNodeOrNil root method <;>
          cases hm2 : Glb.Router.methodNodeOrNil n method <;> simp [hlen, Except.map, hm2]
  · -- one evaluation of the loop
    intro ⟨node, pV, l, r⟩ ⟨hl, hr, hr2⟩
    dsimp only at hl hr hr2
    obtain ⟨l, rfl⟩ : ∃ n : Nat, l = n := ⟨l.toNat, by omega⟩
    obtain ⟨r, rfl⟩ : ∃ n : Nat, r = n := ⟨r.toNat, by omega⟩
    simp only [StepOK, len_eq, Int.toNat_natCast, idx_int, idxI_nat, mapGet_next]
    have hl1 : (l : Int) + 1 = ((l + 1 : Nat) : Int) := by omega
    have hr1 : ((r : Int) + 1).toNat = r + 1 := by omega
    rw [hl1]
    simp only [slice_nat, sliceFrom_nat]
    by_cases hle : r ≤ q.length
    · have hle' : (r : Int) ≤ (q.length : Int) := by omega
      have hfuel : ((q.length : Int) + 1 - r).toNat = (q.length - r) + 1 := by omega
      have hfuel' : ((q.length : Int) + 1 - (r + 1)).toNat = q.length - r := by omega
      rw [hfuel, exitLoop]
      simp only [hle', decide_true]
      by_cases hlt : r < q.length
      · have hlt' : (r : Int) < (q.length : Int) := by omega
        simp only [hlt', decide_true, idx?_ok q r hlt, notSlashAt_lt q r hlt, if_true, Bool.and_true]
        by_cases hb : (q[r] != 47) = true
        · simp only [hb, if_true, hfuel', hr1, Int.toNat_natCast]
          exact ⟨⟨by omega, by omega, by omega⟩, by omega, trivial⟩
        · simp only [hb, Bool.false_eq_true, if_false]
          by_cases h2 : r - l < 2
          · have h2' : (r : Int) - (l : Int) < 2 := by omega
            simp only [h2, h2', hlt, decide_true, and_self, if_true, hfuel', hr1, Int.toNat_natCast]
            exact ⟨⟨by omega, by omega, by omega⟩, by omega, trivial⟩
          · have h2' : ¬ (r : Int) - (l : Int) < 2 := by omega
            simp only [h2, h2', decide_false, false_and, Bool.false_eq_true, if_false]
            cases hs : slice? q (l + 1) r with
            | error e => simp only [bind, Except.bind]
            | ok seg =>
              simp only [bind, Except.bind]
              cases hc1 : node.child seg with
              | some res =>
                simp only [hfuel', hr1, Int.toNat_natCast]
                exact ⟨⟨by omega, by omega, by omega⟩, by omega, trivial⟩
              | none =>
                simp only
                cases hc2 : node.child Generated.routeParam with
                | some res =>
                  simp only [hfuel', hr1, Int.toNat_natCast]
                  exact ⟨⟨by omega, by omega, by omega⟩, by omega, trivial⟩
                | none =>
                  simp only
                  cases hc3 : node.child Generated.routeParamAny with
                  | none => simp only
                  | some res => cases hrest : slice? q (l + 1) q.length <;> simp only
      · have hlt' : ¬ (r : Int) < (q.length : Int) := by omega
        simp only [hlt', hlt, decide_false, notSlashAt_ge q r (by omega), Bool.and_false, and_false,
          Bool.false_eq_true, if_false]
        cases hs : slice? q (l + 1) r with
        | error e => simp only [bind, Except.bind]
        | ok seg =>
          simp only [bind, Except.bind]
          cases hc1 : node.child seg with
          | some res =>
            simp only [hfuel', hr1, Int.toNat_natCast]
            exact ⟨⟨by omega, by omega, by omega⟩, by omega, trivial⟩
          | none =>
            simp only
            cases hc2 : node.child Generated.routeParam with
            | some res =>
              simp only [hfuel', hr1, Int.toNat_natCast]
              exact ⟨⟨by omega, by omega, by omega⟩, by omega, trivial⟩
            | none =>
              simp only
              cases hc3 : node.child Generated.routeParamAny with
              | none => simp only
              | some res => cases hrest : slice? q (l + 1) q.length <;> simp only
    · have hle' : ¬ (r : Int) ≤ (q.length : Int) := by omega
      have hfuel : ((q.length : Int) + 1 - r).toNat = 0 := by omega
      simp only [hle', decide_false, hfuel, exitLoop]
  · simp only [Int.le_refl, true_and]; omega
  · simp only [len_eq]; omega

/-- the translated function only looks at the normalised path -/
private theorem findRoute_norm (root : Node) (path method : Bytes) (K V : List Bytes) :
    Glb.Tr.Router.findRoute root path method K V
      = Glb.Tr.Router.findRoute root (normPath path) method K V := by
  cases path with
  | nil => rfl
  | cons b rest =>
    by_cases hb : b = 47
    · simp [normPath, hb]
    · have hn : normPath (b :: rest) = 47 :: b :: rest := by simp [normPath, hb]
      rw [hn]
      unfold Glb.Tr.Router.findRoute
      dsimp only
      have h0 : ((b :: rest : Bytes) == []) = false := rfl
      have h0' : ((47 :: b :: rest : Bytes) == []) = false := rfl
      have h1 : Glb.idx? (b :: rest) 0 = .ok b := rfl
      have h2 : Glb.idx? (47 :: b :: rest : Bytes) 0 = .ok 47 := rfl
      have h3 : (b != 47) = true := by simp [hb]
      simp only [h0, h0', Bool.false_eq_true, if_false, if_true, idx_natlit, idxI_nat, h1, h2, h3, bind,
        Except.bind, pure, Except.pure, bne_self_eq_false, add_bytes, List.cons_append, List.nil_append]

/-- the model only looks at the normalised path -/
private theorem model_findRoute_norm (root : Node) (path method : Bytes) (ps : Params) :
    Glb.Router.findRoute root (normPath path) method ps = Glb.Router.findRoute root path method ps := by
  unfold Glb.Router.findRoute
  simp only [normPath_idem]

/-- `findRoute` of httpd/tree.go, as translated, is the model's `findRoute`, for every trie, path,
    method and `Params`, panics included (both sides take the same slices with the same bounds
    checks, hence the same payloads). The translated function returns the updated `(K, V)` of
    `*params` and the `*RouteInfo`. -/
theorem findRoute_eq (root : Node) (path method : Bytes) (ps : Params) :
    Glb.Tr.Router.findRoute root path method ps.K ps.V
      = (Glb.Router.findRoute root path method ps).map (fun r => (r.2.K, r.2.V, r.1)) := by
  rw [findRoute_norm, findRoute_core root (normPath path) method ps.K ps.V (normPath_idem path),
    model_findRoute_norm]

/-- what `findRoute_eq` says when the model returns (with Props/C04 `findRoute_never_panics`: always) -/
theorem findRoute_ok (root : Node) (path method : Bytes) (ps ps' : Params) (info : Option RouteId)
    (h : Glb.Router.findRoute root path method ps = .ok (info, ps')) :
    Glb.Tr.Router.findRoute root path method ps.K ps.V = .ok (ps'.K, ps'.V, info) := by
  rw [findRoute_eq, h]
  rfl

end Glb.Tie.TrRouter
