/-
  Tie of the TRANSLATED `fsutil.ResolveUrlPath` (Glb/Generated/TrResolve.lean, rewritten from
  /repo/util/fsutil/path.go on every run by tools/extract/golean.go) to the byte-level model
  `PathCleanBytes.resolveUrlPathB`, which Props/C17b proves equal to the segment model the C17
  containment theorems are about: translated function = model, for every base and every URL path.
  (`path.Clean`, `filepath.Join/FromSlash` are the library transcriptions of Glb/Go/LibPath.lean,
  compared exhaustively with the real functions by the stream `fsutil` on every run.)
-/
import Glb.Go.Lemmas
import Glb.Go.LibPath
import Glb.Generated.TrResolve
import Glb.Model.PathCleanBytes

namespace Glb.Tie.TrResolve
open Glb.Go

/-! ### fsutil.ResolveUrlPath -/

theorem ResolveUrlPath_eq (base url : Bytes) :
    Glb.Tr.Fsutil.ResolveUrlPath base url = .ok (Glb.PathCleanBytes.resolveUrlPathB base url) := by
  unfold Glb.Tr.Fsutil.ResolveUrlPath
  cases url with
  | nil =>
    simp [bind, Except.bind, pure, Except.pure, Glb.PathCleanBytes.resolveUrlPathB,
      Glb.PathClean.forceSlash, Glb.PathClean.fromSlash, LibPath.join2, LibPath.fromSlash, LibPath.clean,
      Glb.PathClean.slash]
  | cons c t =>
    by_cases h : c = 47
    · simp [bind, Except.bind, pure, Except.pure, Glb.PathCleanBytes.resolveUrlPathB,
        Glb.PathClean.forceSlash, Glb.PathClean.fromSlash, LibPath.join2, LibPath.fromSlash, LibPath.clean,
        Glb.PathClean.slash, idxI, Glb.idx?, h]
    · simp [bind, Except.bind, pure, Except.pure, Glb.PathCleanBytes.resolveUrlPathB,
        Glb.PathClean.forceSlash, Glb.PathClean.fromSlash, LibPath.join2, LibPath.fromSlash, LibPath.clean,
        Glb.PathClean.slash, idxI, Glb.idx?, h]


end Glb.Tie.TrResolve
