import Glb.Go.Lemmas
import Glb.Generated.TrTextHandler
import Glb.Generated.TrTextSource
import Glb.Model.TextHandler
import Glb.Tie.TrText
import Glb.Tie.TrTextAttr
import Glb.Tie.TrLevel
import Glb.Tie.TrJson

namespace Glb.Tie.TrTextHandler
open Glb.Go Glb.TextHandler Glb.Tie.TrTextAttr

/-! ### WithGroup -/

theorem Text_WithGroup_eq (h : Handler) (name : Bytes) :
    Glb.Tr.Logger.Text_WithGroup h.pre h.groupPrefix name
      = .ok ((withGroup h name).pre, (withGroup h name).groupPrefix, ()) := by
  unfold Glb.Tr.Logger.Text_WithGroup
  simp only [withGroup, len_eq, pure, Except.pure]
  by_cases hg : h.groupPrefix.length = 0
  · simp [hg]
  · have hne : ((h.groupPrefix.length : Int) == 0) = false := by
      rw [beq_eq_false_iff_ne]; omega
    simp [hg, hne, add_bytes]

/-! ### the attribute loop shared by WithAttrs and Handle -/

/- one symbolic iteration of the loop `for _, a := range attrs { prefix := h.prefix(); appendTextAttr(buf, a,
   prefix, false) }`, state `(i, buf)`; refers to the variables `as`, `fuel`, `P`, `gp` and the hypothesis
   `hch : ∀ c ∈ as, depth c ≤ fuel` of the goal -/
set_option hygiene false in
macro "text_attr_loop_step" : tactic => `(tactic|
  (
   intro ⟨i, b⟩ ⟨h0, hl⟩
   dsimp only at h0 hl
   obtain ⟨n, rfl⟩ : ∃ n : Nat, i = n := ⟨i.toNat, by omega⟩
   simp only [StepOK, pure, Except.pure, Int.toNat_natCast]
   by_cases hn : n < as.length
   · obtain ⟨c, rest, hd⟩ : ∃ c rest, as.drop n = c :: rest := by
       cases hdn : as.drop n with
       | nil => have := length_of_drop_nil as n hdn; omega
       | cons c rest => exact ⟨c, rest, rfl⟩
     have hc := idx_drop as n c rest hd
     have hrest := drop_succ_of_drop as n c rest hd
     have hn' : ((n : Int) < (as.length : Int)) := by omega
     have hn1 : ((n : Int) + 1).toNat = n + 1 := by omega
     have hmem : c ∈ as := List.mem_of_mem_drop (by rw [hd]; simp)
     simp only [len_eq, hn', decide_true, hc, bind, Except.bind, hd,
       appendTextAttr_eq fuel P _ _ c false (hch c hmem), appendAttrs, hn1, hrest]
     exact ⟨⟨by omega, by omega⟩, by omega, trivial⟩
   · have hn' : ¬ ((n : Int) < (as.length : Int)) := by omega
     have : as.drop n = [] := List.drop_of_length_le (by omega)
     simp [hn', this, appendAttrs]
     omega))

theorem Text_WithAttrs_eq (fuel : Nat) (P : Std) (h : Handler) (as : List Attr)
    (hf : depthList as ≤ fuel) :
    Glb.Tr.Logger.Text_WithAttrs fuel P h.pre h.groupPrefix as
      = .ok ((withAttrs P h as).pre, (withAttrs P h as).groupPrefix, ()) := by
  unfold Glb.Tr.Logger.Text_WithAttrs
  dsimp only
  by_cases has : as = []
  · subst has
    simp [withAttrs, pure, Except.pure]
  · have hne : ((as.length : Int) == 0) = false := by
      cases as with
      | nil => exact absurd rfl has
      | cons x xs => simp; omega
    have hne' : (as.length == 0) = false := by
      cases as with
      | nil => exact absurd rfl has
      | cons x xs => simp
    simp only [len_eq, hne, Bool.false_eq_true, if_false]
    have hch : ∀ c ∈ as, depth c ≤ fuel := fun c hc => Nat.le_trans (depth_mem as c hc) hf
    rw [loop_eq (σ := Int × Bytes) (ρ := Bytes × Bytes × Unit)
      (Inv := fun st => 0 ≤ st.1 ∧ st.1 ≤ as.length)
      (measure := fun st => ((as.length : Int) - st.1).toNat)
      (model := fun st => .ok (.inl ((as.length : Int),
        appendAttrs P st.2 h.groupPrefix (as.drop st.1.toNat))))]
    · simp [bind, Except.bind, pure, Except.pure, withAttrs, hne']
    · text_attr_loop_step
    · simp
    · simp; omega

/-! ### appendTextSource

The Go loop is the one of `appendJsonSource` (`Tie/TrJson.lean`: `source_loop_step`, `finalFirst`,
`sliceFrom_trim`); the Text model writes the result as a scan over the reversed tail
(`sourceScan`), the JSON model as an index computation (`sourceLoop`): `trimSource_text_json` shows
they are the same function. -/

/-- the Text model's scan over the reversed first `n` bytes of the tail `t` of the file name is the
    JSON model's index loop started at index `n` -/
theorem sourceScan_sourceLoop (c : UInt8) (t : Bytes) : ∀ (n : Nat) (first : Bool), n ≤ t.length →
    sourceScan (t.take n).reverse first (t.drop n)
      = t.drop (Glb.JsonHandler.sourceLoop (c :: t) n first) := by
  intro n
  induction n with
  | zero => intro first _; simp [sourceScan, Glb.JsonHandler.sourceLoop]
  | succ k ih =>
    intro first hk
    have hk' : k < t.length := by omega
    have hget : (c :: t)[k + 1]? = some t[k] := by
      simp [List.getElem?_eq_getElem hk']
    rw [List.take_succ_eq_append_getElem hk', List.reverse_append]
    simp only [List.reverse_cons, List.reverse_nil, List.nil_append, List.cons_append, sourceScan,
      Glb.JsonHandler.sourceLoop, hget, Option.some_beq_some, List.getElem_cons_drop hk']
    by_cases hc : (t[k] == 0x2f) = true
    · cases first
      · simp only [hc, if_true, Bool.false_eq_true, if_false]
        exact ih true (by omega)
      · simp [hc]
    · simp only [hc, Bool.false_eq_true, if_false]
      exact ih first (by omega)

/-- the two models of `f.File[idx+1:]` agree -/
theorem trimSource_text_json (file : Bytes) :
    Glb.TextHandler.trimSource file = Glb.JsonHandler.trimSource file := by
  cases file with
  | nil => simp [Glb.TextHandler.trimSource, Glb.JsonHandler.trimSource]
  | cons c t =>
    have := sourceScan_sourceLoop c t t.length false (Nat.le_refl _)
    simp only [List.take_length, List.drop_length] at this
    simp [Glb.TextHandler.trimSource, Glb.JsonHandler.trimSource, this]

/-- **Tie.** `appendTextSource`, as translated, hands `trimSource file ++ ":" ++ itoa line` to
    `appendTextString`, for every file name and line number; it never panics. -/
theorem appendTextSource_eq (P : Std) (buf file : Bytes) (line : Int) :
    Glb.Tr.Logger.appendTextSource P buf file line
      = .ok (Glb.TextHandler.appendTextString P buf
          (Glb.TextHandler.trimSource file ++ [0x3a] ++ Glb.Go.Lib.itoa line)) := by
  unfold Glb.Tr.Logger.appendTextSource
  dsimp only
  rw [loop_eq (σ := Bool × Int) (ρ := Bytes)
    (Inv := fun st => -1 ≤ st.2 ∧ st.2 < file.length)
    (measure := fun st => (st.2 + 1).toNat)
    (model := fun st => if st.2 < 0 then .ok (.inl st) else
        .ok (.inl (Glb.Tie.TrJson.finalFirst file st.2.toNat st.1,
                   (Glb.JsonHandler.sourceLoop file st.2.toNat st.1 : Int))))]
  · -- after the loop
    simp only [len_eq]
    have key := Glb.Tie.TrJson.sliceFrom_trim file
    rw [trimSource_text_json]
    by_cases h : ((file.length : Int) - 1) < 0
    · simp only [h, ↓reduceIte] at key ⊢
      simp only [bind, Except.bind, pure, Except.pure, key, ToInt.toInt, id, add_bytes,
        Glb.Tie.TrText.appendTextString_eq]
    · have h2 : ((file.length : Int) - 1).toNat = file.length - 1 := by omega
      simp only [h, ↓reduceIte, h2] at key ⊢
      simp only [bind, Except.bind, pure, Except.pure, key, ToInt.toInt, id, add_bytes,
        Glb.Tie.TrText.appendTextString_eq]
  · open Glb.Tie.TrJson in source_loop_step
  · refine ⟨?_, ?_⟩ <;> (try simp) <;> omega
  · simp; omega

end Glb.Tie.TrTextHandler
