/-
  Tie of the TRANSLATED `TextHandler` methods (/repo/logger/text_handler.go, regenerated into
  Glb/Generated/TrTextSource.lean and Glb/Generated/TrTextHandler.lean on every run) to the hand model
  of Glb/Model/TextHandler.lean that the C13 theorems (`text_roundtrip`) are about.  The handler state
  is the pair `(pre, gp)` = (preformatted, groupPrefix); clone/pools/lock/Write are outside the model.

      Text_WithGroup_eq   : Tr.Text_WithGroup h.pre h.groupPrefix name = .ok (withGroup h name as a pair)
      Text_WithAttrs_eq   : depthList as ≤ fuel → Tr.Text_WithAttrs fuel P h.pre h.groupPrefix as = .ok (withAttrs P h as …)
      appendTextSource_eq : Tr.appendTextSource P buf file line
                              = .ok (appendTextString P buf (trimSource file ++ ":" ++ itoa line))
      Text_Handle_exact   : -2 ≤ r.level → (Tr.Text_Handle … ).map (·.1) = handle P addSource h r
      Text_Handle_eq      : the same for ALL levels after `Except.toOption` (payload of the negative
                            level index differs: `Text_Handle_neg` / `handle_neg`)

  The `range attrs` loop (the same in `WithAttrs` and `Handle`) from index `i` in state `(i, buf)` is
  the model's `appendAttrs P buf gp (as.drop i)`; each element by `TrTextAttr.appendTextAttr_eq`.
  The source loop is the one of `appendJsonSource` (Tie/TrJson.lean); the Text model's `trimSource`
  (scan over the reversed tail) equals the JSON model's (`trimSource_text_json`).
-/
import Glb.Go.Lemmas
import Glb.Generated.TrTextHandler
import Glb.Generated.TrTextSource
import Glb.Model.TextHandler
import Glb.Tie.TrText
import Glb.Tie.TrTextAttr
import Glb.Tie.TrLevel
import Glb.Tie.TrJson

namespace Glb.Tie.TrTextHandler
open Glb.Go Glb.TextHandler Glb.Tie.TrTextAttr

/-! ### WithGroup -/

/-- **Tie.** `WithGroup`: the new group prefix is `name`, or `groupPrefix ++ "." ++ name` -/
theorem Text_WithGroup_eq (h : Handler) (name : Bytes) :
    Glb.Tr.Logger.Text_WithGroup h.pre h.groupPrefix name
      = .ok ((withGroup h name).pre, (withGroup h name).groupPrefix, ()) := by
  unfold Glb.Tr.Logger.Text_WithGroup
  simp only [withGroup, len_eq, pure, Except.pure]
  by_cases hg : h.groupPrefix.length = 0
  · simp [hg]
  · have hne : ((h.groupPrefix.length : Int) == 0) = false := by
      rw [beq_eq_false_iff_ne]; omega
    simp [hg, hne, add_bytes]

/-! ### the attribute loop shared by WithAttrs and Handle -/

/- one symbolic iteration of the loop `for _, a := range attrs { prefix := h.prefix(); appendTextAttr(buf, a,
   prefix, false) }`, state `(i, buf)`; refers to the variables `as`, `fuel`, `P`, `gp` and the hypothesis
   `hch : ∀ c ∈ as, depth c ≤ fuel` of the goal -/
set_option hygiene false in
macro "text_attr_loop_step" : tactic => `(tactic|
  (
   intro ⟨i, b⟩ ⟨h0, hl⟩
   dsimp only at h0 hl
   obtain ⟨n, rfl⟩ : ∃ n : Nat, i = n := ⟨i.toNat, by omega⟩
   simp only [StepOK, pure, Except.pure, Int.toNat_natCast]
   by_cases hn : n < as.length
   · obtain ⟨c, rest, hd⟩ : ∃ c rest, as.drop n = c :: rest := by
       cases hdn : as.drop n with
       | nil => have := length_of_drop_nil as n hdn; omega
       | cons c rest => exact ⟨c, rest, rfl⟩
     have hc := idx_drop as n c rest hd
     have hrest := drop_succ_of_drop as n c rest hd
     have hn' : ((n : Int) < (as.length : Int)) := by omega
     have hn1 : ((n : Int) + 1).toNat = n + 1 := by omega
     have hmem : c ∈ as := List.mem_of_mem_drop (by rw [hd]; simp)
     simp only [len_eq, hn', decide_true, hc, bind, Except.bind, hd,
       appendTextAttr_eq fuel P _ _ c false (hch c hmem), appendAttrs, hn1, hrest]
     exact ⟨⟨by omega, by omega⟩, by omega, trivial⟩
   · have hn' : ¬ ((n : Int) < (as.length : Int)) := by omega
     have : as.drop n = [] := List.drop_of_length_le (by omega)
     simp [hn', this, appendAttrs]
     omega))

/-- **Tie.** `WithAttrs`: `preformatted` grows by the rendering of every attribute under the group
    prefix (nothing changes for an empty list), whenever the fuel covers the nesting depth; no panic. -/
theorem Text_WithAttrs_eq (fuel : Nat) (P : Std) (h : Handler) (as : List Attr)
    (hf : depthList as ≤ fuel) :
    Glb.Tr.Logger.Text_WithAttrs fuel P h.pre h.groupPrefix as
      = .ok ((withAttrs P h as).pre, (withAttrs P h as).groupPrefix, ()) := by
  unfold Glb.Tr.Logger.Text_WithAttrs
  dsimp only
  by_cases has : as = []
  · subst has
    simp [withAttrs, pure, Except.pure]
  · have hne : ((as.length : Int) == 0) = false := by
      cases as with
      | nil => exact absurd rfl has
      | cons x xs => simp; omega
    have hne' : (as.length == 0) = false := by
      cases as with
      | nil => exact absurd rfl has
      | cons x xs => simp
    simp only [len_eq, hne, Bool.false_eq_true, if_false]
    have hch : ∀ c ∈ as, depth c ≤ fuel := fun c hc => Nat.le_trans (depth_mem as c hc) hf
    rw [loop_eq (σ := Int × Bytes) (ρ := Bytes × Bytes × Unit)
      (Inv := fun st => 0 ≤ st.1 ∧ st.1 ≤ as.length)
      (measure := fun st => ((as.length : Int) - st.1).toNat)
      (model := fun st => .ok (.inl ((as.length : Int),
        appendAttrs P st.2 h.groupPrefix (as.drop st.1.toNat))))]
    · simp [bind, Except.bind, pure, Except.pure, withAttrs, hne']
    · text_attr_loop_step
    · simp
    · simp; omega

/-! ### appendTextSource

The Go loop is the one of `appendJsonSource` (`Tie/TrJson.lean`: `source_loop_step`, `finalFirst`,
`sliceFrom_trim`); the Text model writes the result as a scan over the reversed tail
(`sourceScan`), the JSON model as an index computation (`sourceLoop`): `trimSource_text_json` shows
they are the same function. -/

/-- the Text model's scan over the reversed first `n` bytes of the tail `t` of the file name is the
    JSON model's index loop started at index `n` -/
theorem sourceScan_sourceLoop (c : UInt8) (t : Bytes) : ∀ (n : Nat) (first : Bool), n ≤ t.length →
    sourceScan (t.take n).reverse first (t.drop n)
      = t.drop (Glb.JsonHandler.sourceLoop (c :: t) n first) := by
  intro n
  induction n with
  | zero => intro first _; simp [sourceScan, Glb.JsonHandler.sourceLoop]
  | succ k ih =>
    intro first hk
    have hk' : k < t.length := by omega
    have hget : (c :: t)[k + 1]? = some t[k] := by
      simp [List.getElem?_eq_getElem hk']
    rw [List.take_succ_eq_append_getElem hk', List.reverse_append]
    simp only [List.reverse_cons, List.reverse_nil, List.nil_append, List.cons_append, sourceScan,
      Glb.JsonHandler.sourceLoop, hget, Option.some_beq_some, List.getElem_cons_drop hk']
    by_cases hc : (t[k] == 0x2f) = true
    · cases first
      · simp only [hc, if_true, Bool.false_eq_true, if_false]
        exact ih true (by omega)
      · simp [hc]
    · simp only [hc, Bool.false_eq_true, if_false]
      exact ih first (by omega)

/-- the two models of `f.File[idx+1:]` agree -/
theorem trimSource_text_json (file : Bytes) :
    Glb.TextHandler.trimSource file = Glb.JsonHandler.trimSource file := by
  cases file with
  | nil => simp [Glb.TextHandler.trimSource, Glb.JsonHandler.trimSource]
  | cons c t =>
    have := sourceScan_sourceLoop c t t.length false (Nat.le_refl _)
    simp only [List.take_length, List.drop_length] at this
    simp [Glb.TextHandler.trimSource, Glb.JsonHandler.trimSource, this]

/-- **Tie.** `appendTextSource`, as translated, hands `trimSource file ++ ":" ++ itoa line` to
    `appendTextString`, for every file name and line number; it never panics. -/
theorem appendTextSource_eq (P : Std) (buf file : Bytes) (line : Int) :
    Glb.Tr.Logger.appendTextSource P buf file line
      = .ok (Glb.TextHandler.appendTextString P buf
          (Glb.TextHandler.trimSource file ++ [0x3a] ++ Glb.Go.Lib.itoa line)) := by
  unfold Glb.Tr.Logger.appendTextSource
  dsimp only
  rw [loop_eq (σ := Bool × Int) (ρ := Bytes)
    (Inv := fun st => -1 ≤ st.2 ∧ st.2 < file.length)
    (measure := fun st => (st.2 + 1).toNat)
    (model := fun st => if st.2 < 0 then .ok (.inl st) else
        .ok (.inl (Glb.Tie.TrJson.finalFirst file st.2.toNat st.1,
                   (Glb.JsonHandler.sourceLoop file st.2.toNat st.1 : Int))))]
  · -- after the loop
    simp only [len_eq]
    have key := Glb.Tie.TrJson.sliceFrom_trim file
    rw [trimSource_text_json]
    by_cases h : ((file.length : Int) - 1) < 0
    · simp only [h, ↓reduceIte] at key ⊢
      simp only [bind, Except.bind, pure, Except.pure, key, ToInt.toInt, id, add_bytes,
        Glb.Tie.TrText.appendTextString_eq]
    · have h2 : ((file.length : Int) - 1).toNat = file.length - 1 := by omega
      simp only [h, ↓reduceIte, h2] at key ⊢
      simp only [bind, Except.bind, pure, Except.pure, key, ToInt.toInt, id, add_bytes,
        Glb.Tie.TrText.appendTextString_eq]
  · open Glb.Tie.TrJson in source_loop_step
  · refine ⟨?_, ?_⟩ <;> (try simp) <;> omega
  · simp; omega

/-! ### Handle

Payload convention (as in Tie/TrLevel.lean): for `r.level < -2` both sides panic in the level-table
lookup `labelList[l+2]`, but the payload names differ (translated `idxI`: `.other "index<0"`, model
`TextHandler.fullLevel`: `.indexRange 0 len`), see `Text_Handle_neg` / `handle_neg`.  So:
  * `Text_Handle_exact` : exact equality (out-of-range panic for `17 < level` included) under `-2 ≤ r.level`;
  * `Text_Handle_eq`    : for ALL levels, equality after `Except.toOption`.
`r.line` is the decimal text of the frame's line number (`hline`), the translated function gets the
number itself.  The buffer starts empty (`newBuffer()`); the result is the byte string passed to the
single `out.Write`. -/

/-- **Tie.** `Handle` (exact, `-2 ≤ level`): the bytes written, or the out-of-range panic of the level
    table for `17 < level`, are the model's `handle`. -/
theorem Text_Handle_exact (fuel : Nat) (P : Std) (addSource : Bool) (h : Handler) (r : Record)
    (lineNo : Int) (hline : r.line = Glb.Go.Lib.itoa lineNo) (hf : depthList r.attrs ≤ fuel)
    (hl : -2 ≤ r.level) :
    (Glb.Tr.Logger.Text_Handle fuel P [] addSource h.pre h.groupPrefix r.time r.level r.file lineNo
        r.msg r.attrs).map (·.1) = handle P addSource h r := by
  obtain ⟨time, level, file, line, msg, as⟩ := r
  dsimp only at hline hf hl
  subst hline
  unfold Glb.Tr.Logger.Text_Handle handle
  dsimp only
  rw [Glb.Tie.TrLevel.appendFullLevel_text_exact _ _ hl]
  cases hfl : fullLevel level with
  | error e => simp [Except.map, bind, Except.bind]
  | ok lab =>
    have hch : ∀ c ∈ as, depth c ≤ fuel := fun c hc => Nat.le_trans (depth_mem as c hc) hf
    have hp' : ((h.pre.length : Int) > 0) = (h.pre.length > 0) := by simp
    have has' : ((as.length : Int) > 0) = (as.length > 0) := by simp
    cases addSource <;> by_cases hp : h.pre.length > 0 <;> by_cases has : as.length > 0 <;>
      simp only [hp', has', hp, has, decide_true, decide_false, if_true, if_false, Bool.false_eq_true,
        Except.map, bind, Except.bind, pure, Except.pure, appendTextSource_eq,
        Glb.Tie.TrText.appendTextString_eq, len_eq, sourceText]
    all_goals
      rw [loop_eq (σ := Int × Bytes) (ρ := Bytes × Unit)
        (Inv := fun st => 0 ≤ st.1 ∧ st.1 ≤ as.length)
        (measure := fun st => ((as.length : Int) - st.1).toNat)
        (model := fun st => .ok (.inl ((as.length : Int),
          appendAttrs P st.2 h.groupPrefix (as.drop st.1.toNat))))]
      · simp
      · text_attr_loop_step
      · simp
      · simp; omega

/-- the translated level lookup with a negative index `l + 2` -/
theorem appendFullLevel_neg (buf : Bytes) (l : Int) (h : l < -2) :
    Glb.Tr.Logger.appendFullLevel buf l false = .error (.other "index<0") := by
  unfold Glb.Tr.Logger.appendFullLevel
  simp only [idx_int, Bool.false_eq_true, if_false, bind_assoc, pure_bind]
  rw [idxI_neg _ _ (by omega)]
  rfl

/-- **Tie.** `Handle` (all levels): ok-results agree and one side panics iff the other does
    (equality after `Except.toOption`). -/
theorem Text_Handle_eq (fuel : Nat) (P : Std) (addSource : Bool) (h : Handler) (r : Record)
    (lineNo : Int) (hline : r.line = Glb.Go.Lib.itoa lineNo) (hf : depthList r.attrs ≤ fuel) :
    ((Glb.Tr.Logger.Text_Handle fuel P [] addSource h.pre h.groupPrefix r.time r.level r.file lineNo
        r.msg r.attrs).map (·.1)).toOption = (handle P addSource h r).toOption := by
  by_cases hl : -2 ≤ r.level
  · rw [Text_Handle_exact fuel P addSource h r lineNo hline hf hl]
  · have hneg : r.level + 2 < 0 := by omega
    have hm : (handle P addSource h r).toOption = none := by
      unfold handle fullLevel
      simp [hneg, bind, Except.bind, Except.toOption]
    rw [hm]
    unfold Glb.Tr.Logger.Text_Handle
    dsimp only
    simp only [appendFullLevel_neg _ _ (show r.level < -2 by omega)]
    simp [Except.map, Except.toOption, bind, Except.bind]

/-- for `level < -2` the translated code panics with the translator's negative-index payload … -/
theorem Text_Handle_neg (fuel : Nat) (P : Std) (addSource : Bool) (pre gp time : Bytes) (level : Int)
    (file : Bytes) (lineNo : Int) (msg : Bytes) (as : List Attr) (hl : level < -2) :
    Glb.Tr.Logger.Text_Handle fuel P [] addSource pre gp time level file lineNo msg as
      = .error (.other "index<0") := by
  unfold Glb.Tr.Logger.Text_Handle
  dsimp only
  simp only [appendFullLevel_neg _ _ hl]
  rfl

/-- … and the model with its own (`.indexRange 0 len`): the reason `Text_Handle_exact` needs `-2 ≤ level` -/
theorem handle_neg (P : Std) (addSource : Bool) (h : Handler) (r : Record) (hl : r.level < -2) :
    handle P addSource h r = .error (.indexRange 0 Glb.Generated.labelList.length) := by
  have hneg : r.level + 2 < 0 := by omega
  unfold handle fullLevel
  simp only [hneg, if_true, bind, Except.bind]

/-- the least sufficient fuel: the nesting depth of the record's attributes -/
theorem Text_Handle_exact_depth (P : Std) (addSource : Bool) (h : Handler) (r : Record)
    (lineNo : Int) (hline : r.line = Glb.Go.Lib.itoa lineNo) (hl : -2 ≤ r.level) :
    (Glb.Tr.Logger.Text_Handle (depthList r.attrs) P [] addSource h.pre h.groupPrefix r.time r.level
        r.file lineNo r.msg r.attrs).map (·.1) = handle P addSource h r :=
  Text_Handle_exact _ P addSource h r lineNo hline (Nat.le_refl _) hl

end Glb.Tie.TrTextHandler
