import Glb.Go.Lemmas
import Glb.Generated.TrTextHandler
import Glb.Generated.TrTextSource
import Glb.Model.TextHandler
import Glb.Tie.TrText
import Glb.Tie.TrTextAttr
import Glb.Tie.TrLevel
import Glb.Tie.TrJson

namespace Glb.Tie.TrTextHandler
open Glb.Go Glb.TextHandler Glb.Tie.TrTextAttr

/-! ### WithGroup -/

theorem Text_WithGroup_eq (h : Handler) (name : Bytes) :
    Glb.Tr.Logger.Text_WithGroup h.pre h.groupPrefix name
      = .ok ((withGroup h name).pre, (withGroup h name).groupPrefix, ()) := by
  unfold Glb.Tr.Logger.Text_WithGroup
  simp only [withGroup, len_eq, pure, Except.pure]
  by_cases hg : h.groupPrefix.length = 0
  · simp [hg]
  · have hne : ((h.groupPrefix.length : Int) == 0) = false := by
      rw [beq_eq_false_iff_ne]; omega
    simp [hg, hne, add_bytes]

/-! ### the attribute loop shared by WithAttrs and Handle -/

/- one symbolic iteration of the loop `for _, a := range attrs { prefix := h.prefix(); appendTextAttr(buf, a,
   prefix, false) }`, state `(i, buf)`; refers to the variables `as`, `fuel`, `P`, `gp` and the hypothesis
   `hch : ∀ c ∈ as, depth c ≤ fuel` of the goal -/
set_option hygiene false in
macro "text_attr_loop_step" : tactic => `(tactic|
  (
   intro ⟨i, b⟩ ⟨h0, hl⟩
   dsimp only at h0 hl
   obtain ⟨n, rfl⟩ : ∃ n : Nat, i = n := ⟨i.toNat, by omega⟩
   simp only [StepOK, pure, Except.pure, Int.toNat_natCast]
   by_cases hn : n < as.length
   · obtain ⟨c, rest, hd⟩ : ∃ c rest, as.drop n = c :: rest := by
       cases hdn : as.drop n with
       | nil => have := length_of_drop_nil as n hdn; omega
       | cons c rest => exact ⟨c, rest, rfl⟩
     have hc := idx_drop as n c rest hd
     have hrest := drop_succ_of_drop as n c rest hd
     have hn' : ((n : Int) < (as.length : Int)) := by omega
     have hn1 : ((n : Int) + 1).toNat = n + 1 := by omega
     have hmem : c ∈ as := List.mem_of_mem_drop (by rw [hd]; simp)
     simp only [len_eq, hn', decide_true, hc, bind, Except.bind, hd,
       appendTextAttr_eq fuel P _ _ c false (hch c hmem), appendAttrs, hn1, hrest]
     exact ⟨⟨by omega, by omega⟩, by omega, trivial⟩
   · have hn' : ¬ ((n : Int) < (as.length : Int)) := by omega
     have : as.drop n = [] := List.drop_of_length_le (by omega)
     simp [hn', this, appendAttrs]
     omega))

theorem Text_WithAttrs_eq (fuel : Nat) (P : Std) (h : Handler) (as : List Attr)
    (hf : depthList as ≤ fuel) :
    Glb.Tr.Logger.Text_WithAttrs fuel P h.pre h.groupPrefix as
      = .ok ((withAttrs P h as).pre, (withAttrs P h as).groupPrefix, ()) := by
  unfold Glb.Tr.Logger.Text_WithAttrs
  dsimp only
  by_cases has : as = []
  · subst has
    simp [withAttrs, pure, Except.pure]
  · have hne : ((as.length : Int) == 0) = false := by
      cases as with
      | nil => exact absurd rfl has
      | cons x xs => simp; omega
    have hne' : (as.length == 0) = false := by
      cases as with
      | nil => exact absurd rfl has
      | cons x xs => simp
    simp only [len_eq, hne, Bool.false_eq_true, if_false]
    have hch : ∀ c ∈ as, depth c ≤ fuel := fun c hc => Nat.le_trans (depth_mem as c hc) hf
    rw [loop_eq (σ := Int × Bytes) (ρ := Bytes × Bytes × Unit)
      (Inv := fun st => 0 ≤ st.1 ∧ st.1 ≤ as.length)
      (measure := fun st => ((as.length : Int) - st.1).toNat)
      (model := fun st => .ok (.inl ((as.length : Int),
        appendAttrs P st.2 h.groupPrefix (as.drop st.1.toNat))))]
    · simp [bind, Except.bind, pure, Except.pure, withAttrs, hne']
    · text_attr_loop_step
    · simp
    · simp; omega

end Glb.Tie.TrTextHandler
