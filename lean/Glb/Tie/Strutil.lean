/-
  Regenerated tie for C16: the literals read from /repo/util/strutil/strutil.go are the ones the
  theorems need.  Re-proved by `decide` on every run; a changed literal breaks this file.
-/
import Glb.Generated.StatusStrutil
import Glb.Proofs.Strutil

namespace Glb.Tie.Strutil
open Glb.Strutil Glb.PosixWords

/-- `"'" + …` -/
theorem prefix_eq : Generated.shellEscapePrefix = [39] := by decide
/-- `… + "'"` -/
theorem suffix_eq : Generated.shellEscapeSuffix = [39] := by decide
/-- the replaced string is exactly one single quote (in particular not empty) -/
theorem old_eq : Generated.shellEscapeOld = [39] := by decide
/-- every occurrence is replaced -/
theorem count_eq : Generated.shellEscapeCount = -1 := by decide

/-- With the literals of the source, `shellEscapeWith r s = ' ++ (s with every ' replaced by r) ++ '`. -/
theorem shellEscapeWith_eq (r s : Bytes) :
    shellEscapeWith r s = [39] ++ quoteEach r s ++ [39] := by
  unfold shellEscapeWith
  rw [prefix_eq, suffix_eq, old_eq, count_eq]
  exact shellEscapeGen_quote r s

/-- The replacement literal (`'"'"'` in the pinned source) closes the quotation, contributes one
    literal quote and reopens the quotation: decided by running the lexer on it. -/
theorem repl_check : quoteNeutralCheck Generated.shellEscapeNew = true := by decide

theorem repl_neutral : QuoteNeutral Generated.shellEscapeNew :=
  quoteNeutral_of_check _ repl_check

/-- ShellEscapeExceptTilde tests for an unquoted-safe `~/`, keeps exactly what it tested for, and
    slices off exactly its length (so `s[2:]` cannot panic and nothing is lost or duplicated). -/
theorem tilde_prefix_eq : Generated.tildePrefix = [126, 47] := by decide
theorem tilde_keep_eq : Generated.tildeKeep = Generated.tildePrefix := by decide
theorem tilde_slice_eq : Generated.tildeSliceLow = Generated.tildePrefix.length := by decide

/-- the extractor of this area recognised the source as it is on this run (a refusal removes `ok`) -/
theorem extractor_ok : Glb.Generated.StatusStrutil.ok = () := rfl

end Glb.Tie.Strutil
