/-
  Tie of the TRANSLATED `parseRoute` of `/repo/httpd/tree.go` (Glb/Generated/TrParseRoute.lean, rewritten
  from the Go source on every run by tools/extract/golean.go; pointer statements = Glb/Go/LibRouter.lean)
  to the hand-written model `Glb.Router.parseRoute` (Glb/Model/Router.lean) that the registration
  theorems of Props/C04 (`register_errors`, `trie_refines_routes`, `build_succeeds_iff`, …) are about.
-/
import Glb.Go.Lemmas
import Glb.Generated.TrParseRoute
import Glb.Model.Router
import Glb.Proofs.RouterTrie
import Glb.Tie.TrStrutil
import Glb.Tie.TrRouter
import Glb.Props.C04

namespace Glb.Tie.TrParseRoute
open Glb.Go
open Glb.Go.LibRouter
open Glb.Router (Node RouteId modifyAt descend setPayload parseLoop ParseOut notSlashAt RegErr methodTag?)

/-! ### the trie: stepwise `nextNodeOrNew` (translated code) = one `modifyAt` at the end (model) -/

theorem assocSet_assocSet {α} (l : List (Bytes × α)) (k : Bytes) (v v' : α) :
    Glb.Router.assocSet (Glb.Router.assocSet l k v) k v' = Glb.Router.assocSet l k v' := by
  induction l with
  | nil => simp [Glb.Router.assocSet]
  | cons e r ih =>
    obtain ⟨k0, v0⟩ := e
    by_cases h : k0 = k
    · simp [Glb.Router.assocSet, h]
    · simp [Glb.Router.assocSet, h, ih]

theorem setChild_setChild (n : Node) (k : Bytes) (c c' : Node) :
    (n.setChild k c).setChild k c' = n.setChild k c' := by
  simp [Node.setChild, assocSet_assocSet]

theorem childOrNew_setChild (n : Node) (k : Bytes) (c : Node) : (n.setChild k c).childOrNew k = c := by
  simp [Node.childOrNew, Node.child_setChild]

/-- walking `ks ++ ks'` = walking `ks`, then `ks'` from the node reached -/
theorem modifyAt_append (f : Node → Node) (t : Node) (ks ks' : List Bytes) :
    modifyAt f t (ks ++ ks') = modifyAt (fun n => modifyAt f n ks') t ks := by
  induction ks generalizing t with
  | nil => rfl
  | cons k ks ih => simp only [List.cons_append, modifyAt, ih]

/-- two mutations of the same node compose -/
theorem modifyAt_modifyAt (g f : Node → Node) (t : Node) (ks : List Bytes) :
    modifyAt g (modifyAt f t ks) ks = modifyAt (fun n => g (f n)) t ks := by
  induction ks generalizing t with
  | nil => rfl
  | cons k ks ih => simp only [modifyAt, childOrNew_setChild, setChild_setChild, ih]

/-- `node = node.nextNodeOrNew(k)` after the walk along `keys` = the walk along `keys ++ [k]` -/
theorem ensureAt_step (root0 : Node) (keys : List Bytes) (k : Bytes) :
    ensureAt (modifyAt (fun n => n) root0 keys) keys k = modifyAt (fun n => n) root0 (keys ++ [k]) := by
  unfold ensureAt
  rw [modifyAt_append, modifyAt_modifyAt, ← modifyAt_append]

/-- the last three pointer statements of `parseRoute` = the model's single `modifyAt (setPayload ..)` -/
theorem finish_eq (root0 : Node) (keys names : List Bytes) (tag : Bytes) (id : RouteId) :
    setParamsAt (setInfoAt (ensureAt (modifyAt (fun n => n) root0 keys) keys tag) (keys ++ [tag]) id)
        (keys ++ [tag]) names
      = modifyAt (setPayload id names) root0 (keys ++ [tag]) := by
  rw [ensureAt_step]
  unfold setParamsAt setInfoAt
  rw [modifyAt_modifyAt, modifyAt_modifyAt]
  congr 1

/-! ### the three error messages -/

/-- `"invalid method " + method + " for routePath: " + path` -/
def msgInvalidMethod (method path : Bytes) : Bytes :=
  ([105, 110, 118, 97, 108, 105, 100, 32, 109, 101, 116, 104, 111, 100, 32] : Bytes) ++ method ++
    ([32, 102, 111, 114, 32, 114, 111, 117, 116, 101, 80, 97, 116, 104, 58, 32] : Bytes) ++ path

/-- `"invalid fragment :" + paramName + " in routePath: " + path` -/
def msgInvalidFragment (name path : Bytes) : Bytes :=
  ([105, 110, 118, 97, 108, 105, 100, 32, 102, 114, 97, 103, 109, 101, 110, 116, 32, 58] : Bytes) ++ name ++
    ([32, 105, 110, 32, 114, 111, 117, 116, 101, 80, 97, 116, 104, 58, 32] : Bytes) ++ path

/-- `"duplicate method " + method + " for routePath: " + path` -/
def msgDuplicate (method path : Bytes) : Bytes :=
  ([100, 117, 112, 108, 105, 99, 97, 116, 101, 32, 109, 101, 116, 104, 111, 100, 32] : Bytes) ++ method ++
    ([32, 102, 111, 114, 32, 114, 111, 117, 116, 101, 80, 97, 116, 104, 58, 32] : Bytes) ++ path

theorem msgInvalidMethod_str (method path : Bytes) :
    msgInvalidMethod method path
      = Glb.strBytes "invalid method " ++ method ++ Glb.strBytes " for routePath: " ++ path := by
  have h1 : Glb.strBytes "invalid method " =
      ([105, 110, 118, 97, 108, 105, 100, 32, 109, 101, 116, 104, 111, 100, 32] : Bytes) := by decide +kernel
  have h2 : Glb.strBytes " for routePath: " =
      ([32, 102, 111, 114, 32, 114, 111, 117, 116, 101, 80, 97, 116, 104, 58, 32] : Bytes) := by decide +kernel
  rw [h1, h2]; rfl

theorem msgInvalidFragment_str (name path : Bytes) :
    msgInvalidFragment name path
      = Glb.strBytes "invalid fragment :" ++ name ++ Glb.strBytes " in routePath: " ++ path := by
  have h1 : Glb.strBytes "invalid fragment :" =
      ([105, 110, 118, 97, 108, 105, 100, 32, 102, 114, 97, 103, 109, 101, 110, 116, 32, 58] : Bytes) := by
    decide +kernel
  have h2 : Glb.strBytes " in routePath: " =
      ([32, 105, 110, 32, 114, 111, 117, 116, 101, 80, 97, 116, 104, 58, 32] : Bytes) := by decide +kernel
  rw [h1, h2]; rfl

theorem msgDuplicate_str (method path : Bytes) :
    msgDuplicate method path
      = Glb.strBytes "duplicate method " ++ method ++ Glb.strBytes " for routePath: " ++ path := by
  have h1 : Glb.strBytes "duplicate method " =
      ([100, 117, 112, 108, 105, 99, 97, 116, 101, 32, 109, 101, 116, 104, 111, 100, 32] : Bytes) := by
    decide +kernel
  have h2 : Glb.strBytes " for routePath: " =
      ([32, 102, 111, 114, 32, 114, 111, 117, 116, 101, 80, 97, 116, 104, 58, 32] : Bytes) := by decide +kernel
  rw [h1, h2]; rfl

/-! ### the fragment loop with its complete exit state -/

/-- state of the translated loop: `(paramNameList, root, keys, left, right)` -/
abbrev LoopSt := List Bytes × Node × List Bytes × Int × Int
/-- result of the translated function: `(root, keys, paramsCnt, err)` -/
abbrev Res := Node × List Bytes × Int × Option Bytes

/-- The loop of the translated `parseRoute` with its complete exit state: `.inl st` when the loop is left
    normally (condition false, or `break`), `.inr r` for the `return` inside the loop ("invalid
    fragment").  Same recursion as the model's `parseLoop`; it adds the trie walked so far
    (`modifyAt id root0 keys`), the unread `left`/`right` and the error message. -/
def exitLoop (root0 : Node) (path : Bytes) :
    (fuel left right : Nat) → (keys names : List Bytes) → Except GoPanic (Sum LoopSt Res)
  | 0, left, right, keys, names =>
    .ok (.inl (names, modifyAt (fun n => n) root0 keys, keys, (left : Int), (right : Int)))
  | fuel + 1, left, right, keys, names =>
    if notSlashAt path right then exitLoop root0 path fuel left (right + 1) keys names
    else if right - left < 2 then exitLoop root0 path fuel right (right + 1) keys names
    else do
      let frag ← slice? path (left + 1) right
      if frag = [42] then
        .ok (.inl (names ++ [Generated.routeParamAny],
          modifyAt (fun n => n) root0 (keys ++ [Generated.routeParamAny]),
          keys ++ [Generated.routeParamAny], (left : Int), (right : Int)))
      else do
        let c ← idx? path (left + 1)
        if c = 58 then do
          let name ← slice? path (left + 2) right
          if name = [] ∨ name ∈ names then
            .ok (.inr (modifyAt (fun n => n) root0 keys, keys, 0, some (msgInvalidFragment name path)))
          else exitLoop root0 path fuel right (right + 1) (keys ++ [Generated.routeParam]) (names ++ [name])
        else exitLoop root0 path fuel right (right + 1) (keys ++ [frag]) names

/-- what `exitLoop` yields, given what the model's `parseLoop` yields -/
def Agrees (root0 : Node) (path : Bytes) (r : Except GoPanic ParseOut) (x : Except GoPanic (Sum LoopSt Res)) : Prop :=
  match r with
  | .error e => x = .error e
  | .ok ⟨keys, names, true⟩ =>
    ∃ l r : Int, x = .ok (.inl (names, modifyAt (fun n => n) root0 keys, keys, l, r))
  | .ok ⟨keys, _, false⟩ =>
    ∃ name, x = .ok (.inr (modifyAt (fun n => n) root0 keys, keys, 0, some (msgInvalidFragment name path)))

/-- `exitLoop` is the model's `parseLoop` plus the trie, the unread `left`/`right` and the message -/
theorem exitLoop_spec (root0 : Node) (path : Bytes) :
    ∀ (fuel left right : Nat) (keys names : List Bytes),
      Agrees root0 path (parseLoop path fuel left right keys names) (exitLoop root0 path fuel left right keys names) := by
  intro fuel
  induction fuel with
  | zero =>
    intro left right keys names
    simp only [parseLoop, exitLoop, Agrees]
    exact ⟨_, _, rfl⟩
  | succ f ih =>
    intro left right keys names
    rw [parseLoop, exitLoop]
    by_cases h1 : notSlashAt path right = true
    · simp only [h1, if_true]
      exact ih _ _ _ _
    · simp only [h1, Bool.false_eq_true, if_false]
      by_cases h2 : right - left < 2
      · simp only [h2, if_true]
        exact ih _ _ _ _
      · simp only [h2, if_false]
        cases hs : slice? path (left + 1) right with
        | error e => simp only [bind, Except.bind, Agrees]
        | ok frag =>
          simp only [bind, Except.bind]
          by_cases h42 : frag = [42]
          · simp only [h42, if_true, Agrees]
            exact ⟨_, _, rfl⟩
          · simp only [h42, if_false]
            cases hi : idx? path (left + 1) with
            | error e => simp only [Agrees]
            | ok c =>
              simp only []
              by_cases h58 : c = 58
              · simp only [h58, if_true]
                cases hs2 : slice? path (left + 2) right with
                | error e => simp only [Agrees]
                | ok name =>
                  simp only []
                  by_cases hn : name = [] ∨ name ∈ names
                  · simp only [hn, if_true, Agrees]
                    exact ⟨_, rfl⟩
                  · simp only [hn, if_false]
                    exact ih _ _ _ _
              · simp only [h58, if_false]
                exact ih _ _ _ _

theorem sliceContain_iff (l : List Bytes) (v : Bytes) : Glb.Aux.Str.sliceContain l v = true ↔ v ∈ l := by
  induction l with
  | nil => simp [Glb.Aux.Str.sliceContain]
  | cons x r ih =>
    by_cases h : v = x
    · simp [Glb.Aux.Str.sliceContain, h]
    · simp [Glb.Aux.Str.sliceContain, h, ih]

theorem mapGet_tag (m : Bytes) : Glb.Go.mapGet Generated.methodTagMap m = methodTag? m := by
  simp only [Glb.Router.methodTag?, Glb.Tie.TrRouter.mapGet_eq_assocGet]

theorem mapGetD_tag (m : Bytes) : Glb.Go.mapGetD Generated.methodTagMap m = (methodTag? m).getD [] := by
  simp only [Glb.Go.mapGetD, mapGet_tag]

/-- the guard `right < length && path[right] != '/'` of the translated loop (`b` is the translated
    `decide (right < length)`, whatever its `Decidable` instance looks like) -/
theorem guard_eq (path : Bytes) (r : Nat) (b : Bool) (hb : b = decide (r < path.length)) :
    ((if b = true then (do let t ← Glb.idx? path r; pure (t != 47)) else pure false) : M Bool)
      = .ok (notSlashAt path r) := by
  subst hb
  by_cases h : r < path.length
  · simp [h, idx?_ok path r h, Glb.Tie.TrRouter.notSlashAt_lt path r h, bind, Except.bind, pure, Except.pure]
  · simp [h, Glb.Tie.TrRouter.notSlashAt_ge path r (by omega), pure, Except.pure]

theorem msgIM_add (method path : Bytes) :
    (([105, 110, 118, 97, 108, 105, 100, 32, 109, 101, 116, 104, 111, 100, 32] : Bytes) + method +
      ([32, 102, 111, 114, 32, 114, 111, 117, 116, 101, 80, 97, 116, 104, 58, 32] : Bytes) + path)
      = msgInvalidMethod method path := rfl

theorem msgIF_add (name path : Bytes) :
    (([105, 110, 118, 97, 108, 105, 100, 32, 102, 114, 97, 103, 109, 101, 110, 116, 32, 58] : Bytes) + name +
      ([32, 105, 110, 32, 114, 111, 117, 116, 101, 80, 97, 116, 104, 58, 32] : Bytes) + path)
      = msgInvalidFragment name path := rfl

theorem msgD_add (method path : Bytes) :
    (([100, 117, 112, 108, 105, 99, 97, 116, 101, 32, 109, 101, 116, 104, 111, 100, 32] : Bytes) + method +
      ([32, 102, 111, 114, 32, 114, 111, 117, 116, 101, 80, 97, 116, 104, 58, 32] : Bytes) + path)
      = msgDuplicate method path := rfl

/-- what the translated function returns, given what the model returns: the same panic; else the same
    trie, the same count, and the error message of the model's error class (`keys` is the Go pointer
    `node` at the end, which the Go function does not return) -/
def Rel (path method : Bytes) (m : Except GoPanic Glb.Router.ParseResult) (x : M Res) : Prop :=
  match m with
  | .error e => x = .error e
  | .ok ⟨rt, .ok n⟩ => ∃ keys, x = .ok (rt, keys, (n : Int), none)
  | .ok ⟨rt, .error .invalidMethod⟩ => ∃ keys, x = .ok (rt, keys, 0, some (msgInvalidMethod method path))
  | .ok ⟨rt, .error .invalidFragment⟩ =>
    ∃ keys name, x = .ok (rt, keys, 0, some (msgInvalidFragment name path))
  | .ok ⟨rt, .error .duplicate⟩ => ∃ keys, x = .ok (rt, keys, 0, some (msgDuplicate method path))

/-- **The tie, relational form.**  For every trie, pattern, method string and id the translated
    `parseRoute` (Go pointer `node` = `(root, [])`) and the model agree: same panic (payload included),
    same trie afterwards (also after a refused registration), same `paramsCnt`, and the `error` is the
    message of the model's error class. -/
theorem parseRoute_rel (root : Node) (path method : Bytes) (id : RouteId) :
    Rel path method (Glb.Router.parseRoute root path method id)
      (Glb.Tr.Router.parseRoute root [] path method id) := by
  unfold Glb.Router.parseRoute
  cases hm : methodTag? method with
  | none =>
    unfold Glb.Tr.Router.parseRoute
    dsimp only
    simp only [mapGet_tag, hm, Option.isSome_none, Bool.not_false, if_true, msgIM_add, Rel, pure, Except.pure]
    exact ⟨_, rfl⟩
  | some tag =>
  unfold Glb.Tr.Router.parseRoute
  dsimp only
  simp only [mapGet_tag, mapGetD_tag, hm, Option.isSome_some, Bool.not_true, Bool.false_eq_true, if_false,
    Option.getD_some]
  rw [loop_eq (σ := LoopSt) (ρ := Res)
    (Inv := fun st => st.2.1 = modifyAt (fun n => n) root st.2.2.1 ∧ 0 ≤ st.2.2.2.1 ∧ 0 ≤ st.2.2.2.2 ∧
      st.2.2.2.2 ≤ (path.length : Int) + 1)
    (measure := fun st => ((path.length : Int) + 1 - st.2.2.2.2).toNat)
    (model := fun st => exitLoop root path ((path.length : Int) + 1 - st.2.2.2.2).toNat st.2.2.2.1.toNat
      st.2.2.2.2.toNat st.2.2.1 st.1)]
  · -- the code around the loop
    have hfuel : ((path.length : Int) + 1 - 0).toNat = path.length + 1 := by omega
    have hspec := exitLoop_spec root path (path.length + 1) 0 0 [] []
    simp only [hfuel, Int.toNat_zero, msgD_add, len_eq]
    cases hp : parseLoop path (path.length + 1) 0 0 [] [] with
    | error e =>
      rw [hp] at hspec
      simp only [Agrees] at hspec
      rw [hspec]
      simp only [bind, Except.bind, Rel]
    | ok out =>
      obtain ⟨ks, ns, okb⟩ := out
      rw [hp] at hspec
      cases okb with
      | false =>
        simp only [Agrees] at hspec
        obtain ⟨name, h⟩ := hspec
        rw [h]
        simp only [bind, Except.bind, Rel, pure, Except.pure, Bool.not_false, if_true]
        exact ⟨_, _, rfl⟩
      | true =>
        simp only [Agrees] at hspec
        obtain ⟨l', r', h⟩ := hspec
        rw [h]
        simp only [bind, Except.bind, pure, Except.pure, Bool.not_true, Bool.false_eq_true, if_false,
          hasChildAt, nodeAt, finish_eq]
        cases hc : ((descend (modifyAt (fun n => n) root ks) ks).getD Node.empty).child tag with
        | some c =>
          simp only [Option.isSome_some, if_true, Rel]
          exact ⟨_, rfl⟩
        | none =>
          simp only [Option.isSome_none, Bool.false_eq_true, if_false, Rel]
          exact ⟨_, rfl⟩
  · intro ⟨names, rt, keys, l, r⟩ ⟨hrt, hl, hr, hr2⟩
    dsimp only at hrt hl hr hr2
    subst hrt
    obtain ⟨l, rfl⟩ : ∃ n : Nat, l = n := ⟨l.toNat, by omega⟩
    obtain ⟨r, rfl⟩ : ∃ n : Nat, r = n := ⟨r.toNat, by omega⟩
    simp only [StepOK, len_eq, Int.toNat_natCast, idx_int, idxI_nat, Glb.Tie.TrStrutil.SliceContain_eq]
    have hl1 : (l : Int) + 1 = ((l + 1 : Nat) : Int) := by omega
    have hl2 : (l : Int) + 2 = ((l + 2 : Nat) : Int) := by omega
    have hr1 : ((r : Int) + 1).toNat = r + 1 := by omega
    rw [hl1, hl2]
    simp only [slice_nat, idxI_nat, msgIF_add, ensureAt_step]
    rw [guard_eq path r _ (by
      by_cases h : r < path.length
      · have h' : (r : Int) < (path.length : Int) := by omega
        simp only [h, h', decide_true]
      · have h' : ¬ (r : Int) < (path.length : Int) := by omega
        simp only [h, h', decide_false])]
    by_cases hle : r ≤ path.length
    · have hle' : (r : Int) ≤ (path.length : Int) := by omega
      have hfuel : ((path.length : Int) + 1 - r).toNat = (path.length - r) + 1 := by omega
      have hfuel' : ((path.length : Int) + 1 - (r + 1)).toNat = path.length - r := by omega
      rw [hfuel, exitLoop]
      simp only [hle', decide_true, pure, Except.pure, bind, Except.bind]
      by_cases hns : notSlashAt path r = true
      · simp only [hns, if_true, hfuel', hr1, Int.toNat_natCast]
        exact ⟨⟨trivial, by omega, by omega, by omega⟩, by omega, trivial⟩
      · simp only [hns, Bool.false_eq_true, if_false]
        by_cases h2 : r - l < 2
        · have h2' : (r : Int) - (l : Int) < 2 := by omega
          simp only [h2, h2', decide_true, if_true, hfuel', hr1, Int.toNat_natCast]
          exact ⟨⟨trivial, by omega, by omega, by omega⟩, by omega, trivial⟩
        · have h2' : ¬ (r : Int) - (l : Int) < 2 := by omega
          simp only [h2, h2', decide_false, Bool.false_eq_true, if_false]
          cases hs : slice? path (l + 1) r with
          | error e => simp only []
          | ok frag =>
            simp only []
            by_cases h42 : frag = [42]
            · subst h42
              simp only [beq_self_eq_true, if_true]
            · have h42' : (frag == [42]) = false := by simp [h42]
              simp only [h42', h42, Bool.false_eq_true, if_false]
              cases hi : idx? path (l + 1) with
              | error e => simp only []
              | ok c =>
                simp only []
                by_cases h58 : c = 58
                · subst h58
                  simp only [beq_self_eq_true, if_true]
                  cases hs2 : slice? path (l + 2) r with
                  | error e => simp only []
                  | ok name =>
                    simp only []
                    by_cases hn0 : name = []
                    · subst hn0
                      simp only [beq_self_eq_true, if_true, true_or]
                    · have hn0' : (name == []) = false := by simp [hn0]
                      simp only [hn0', hn0, Bool.false_eq_true, if_false, false_or]
                      by_cases hmem : name ∈ names
                      · have hc : Glb.Aux.Str.sliceContain names name = true := (sliceContain_iff names name).2 hmem
                        simp only [hc, hmem, if_true]
                      · have hc : Glb.Aux.Str.sliceContain names name = false := by
                          cases h : Glb.Aux.Str.sliceContain names name with
                          | false => rfl
                          | true => exact absurd ((sliceContain_iff names name).1 h) hmem
                        simp only [hc, hmem, Bool.false_eq_true, if_false, hfuel', hr1, Int.toNat_natCast]
                        exact ⟨⟨trivial, by omega, by omega, by omega⟩, by omega, trivial⟩
                · have h58' : (c == 58) = false := by simp [h58]
                  simp only [h58', h58, Bool.false_eq_true, if_false, hfuel', hr1, Int.toNat_natCast]
                  exact ⟨⟨trivial, by omega, by omega, by omega⟩, by omega, trivial⟩
    · have hle' : ¬ (r : Int) ≤ (path.length : Int) := by omega
      have hfuel : ((path.length : Int) + 1 - r).toNat = 0 := by omega
      simp only [hle', decide_false, hfuel, exitLoop, pure, Except.pure]
  · refine ⟨rfl, ?_, ?_, ?_⟩ <;> dsimp only <;> omega
  · simp only [len_eq]; omega

/-! ### the tie as equations -/

/-- the error class of a `parseRoute` message, read off its fixed prefix -/
def classOf (m : Bytes) : Option RegErr :=
  if ([105, 110, 118, 97, 108, 105, 100, 32, 109, 101, 116, 104, 111, 100, 32] : Bytes).isPrefixOf m then
    some .invalidMethod
  else if ([105, 110, 118, 97, 108, 105, 100, 32, 102, 114, 97, 103, 109, 101, 110, 116, 32, 58] : Bytes).isPrefixOf m then
    some .invalidFragment
  else if ([100, 117, 112, 108, 105, 99, 97, 116, 101, 32, 109, 101, 116, 104, 111, 100, 32] : Bytes).isPrefixOf m then
    some .duplicate
  else none

theorem classOf_invalidMethod (method path : Bytes) :
    classOf (msgInvalidMethod method path) = some .invalidMethod := by
  simp [classOf, msgInvalidMethod]

theorem classOf_invalidFragment (name path : Bytes) :
    classOf (msgInvalidFragment name path) = some .invalidFragment := by
  simp [classOf, msgInvalidFragment]

theorem classOf_duplicate (method path : Bytes) :
    classOf (msgDuplicate method path) = some .duplicate := by
  simp [classOf, msgDuplicate]

/-- **`parseRoute` of httpd/tree.go, as translated, is the model's `parseRoute`**, for every trie,
    pattern, method string and id, panics included (same payloads: both sides take the same slices
    and indices with the same bounds checks): the same trie afterwards (including the nodes a REFUSED
    registration leaves behind), the same `paramsCnt`, and an error iff the model reports one.
    (The Go pointer `node` is `(root, [])`; the component `r.2.1`, the keys walked, is not returned
    by the Go function and is dropped.) -/
theorem parseRoute_eq (root : Node) (path method : Bytes) (id : RouteId) :
    (Glb.Tr.Router.parseRoute root [] path method id).map (fun r => (r.1, r.2.2.1, r.2.2.2.isSome))
      = (Glb.Router.parseRoute root path method id).map (fun pr => (pr.root,
          (match pr.result with | .ok n => (n : Int) | .error _ => 0),
          (match pr.result with | .ok _ => false | .error _ => true))) := by
  have h := parseRoute_rel root path method id
  cases hmod : Glb.Router.parseRoute root path method id with
  | error e =>
    rw [hmod] at h
    simp only [Rel] at h
    rw [h]; rfl
  | ok pr =>
    obtain ⟨rt, res⟩ := pr
    rw [hmod] at h
    cases res with
    | ok n =>
      simp only [Rel] at h
      obtain ⟨keys, h⟩ := h
      rw [h]; rfl
    | error e =>
      cases e with
      | invalidMethod =>
        simp only [Rel] at h
        obtain ⟨keys, h⟩ := h
        rw [h]; rfl
      | invalidFragment =>
        simp only [Rel] at h
        obtain ⟨keys, name, h⟩ := h
        rw [h]; rfl
      | duplicate =>
        simp only [Rel] at h
        obtain ⟨keys, h⟩ := h
        rw [h]; rfl

/-- **The error class.**  The class of the translated function's message (read off its fixed prefix
    `"invalid method "`, `"invalid fragment :"`, `"duplicate method "`) is the model's `RegErr`;
    `nil` exactly when the model succeeds.  Panics agree as in `parseRoute_eq`. -/
theorem parseRoute_class (root : Node) (path method : Bytes) (id : RouteId) :
    (Glb.Tr.Router.parseRoute root [] path method id).map (fun r => r.2.2.2.map classOf)
      = (Glb.Router.parseRoute root path method id).map (fun pr =>
          match pr.result with | .ok _ => none | .error e => some (some e)) := by
  have h := parseRoute_rel root path method id
  cases hmod : Glb.Router.parseRoute root path method id with
  | error e =>
    rw [hmod] at h
    simp only [Rel] at h
    rw [h]; rfl
  | ok pr =>
    obtain ⟨rt, res⟩ := pr
    rw [hmod] at h
    cases res with
    | ok n =>
      simp only [Rel] at h
      obtain ⟨keys, h⟩ := h
      rw [h]; rfl
    | error e =>
      cases e with
      | invalidMethod =>
        simp only [Rel] at h
        obtain ⟨keys, h⟩ := h
        rw [h]
        simp only [Except.map, Option.map, classOf_invalidMethod]
      | invalidFragment =>
        simp only [Rel] at h
        obtain ⟨keys, name, h⟩ := h
        rw [h]
        simp only [Except.map, Option.map, classOf_invalidFragment]
      | duplicate =>
        simp only [Rel] at h
        obtain ⟨keys, h⟩ := h
        rw [h]
        simp only [Except.map, Option.map, classOf_duplicate]

/-- the exact messages, as strings -/
theorem parseRoute_message (root : Node) (path method : Bytes) (id : RouteId) (rt : Node) (e : RegErr)
    (hmod : Glb.Router.parseRoute root path method id = .ok ⟨rt, .error e⟩) :
    ∃ keys, match e with
      | .invalidMethod => Glb.Tr.Router.parseRoute root [] path method id = .ok (rt, keys, 0,
          some (Glb.strBytes "invalid method " ++ method ++ Glb.strBytes " for routePath: " ++ path))
      | .invalidFragment => ∃ name, Glb.Tr.Router.parseRoute root [] path method id = .ok (rt, keys, 0,
          some (Glb.strBytes "invalid fragment :" ++ name ++ Glb.strBytes " in routePath: " ++ path))
      | .duplicate => Glb.Tr.Router.parseRoute root [] path method id = .ok (rt, keys, 0,
          some (Glb.strBytes "duplicate method " ++ method ++ Glb.strBytes " for routePath: " ++ path)) := by
  have h := parseRoute_rel root path method id
  rw [hmod] at h
  cases e with
  | invalidMethod =>
    simp only [Rel] at h
    obtain ⟨keys, h⟩ := h
    exact ⟨keys, by rw [h, msgInvalidMethod_str]⟩
  | invalidFragment =>
    simp only [Rel] at h
    obtain ⟨keys, name, h⟩ := h
    exact ⟨keys, name, by rw [h, msgInvalidFragment_str]⟩
  | duplicate =>
    simp only [Rel] at h
    obtain ⟨keys, h⟩ := h
    exact ⟨keys, by rw [h, msgDuplicate_str]⟩

/-! ### C04 about the translated registration

  Registration histories run with the TRANSLATED `parseRoute` (a registration counts as accepted when
  the translated function returns a nil error) are the model's histories, so the C04 theorems about
  tables "whose registrations all succeed" and about refused registrations hold of the translated code. -/

open Glb.Router (Reg buildFrom build LeadingSlash regOf errOf)
open Glb.RouteList (Route specRegister specFind)

/-- what the Go caller of the translated `parseRoute` can see, in terms of the model's result -/
theorem parseRoute_cases (root : Node) (path method : Bytes) (id : RouteId) :
    match Glb.Router.parseRoute root path method id with
    | .error e => Glb.Tr.Router.parseRoute root [] path method id = .error e
    | .ok ⟨rt, .ok n⟩ => ∃ keys, Glb.Tr.Router.parseRoute root [] path method id = .ok (rt, keys, (n : Int), none)
    | .ok ⟨rt, .error e⟩ => ∃ keys msg, Glb.Tr.Router.parseRoute root [] path method id = .ok (rt, keys, 0, some msg) ∧
        classOf msg = some e := by
  have h := parseRoute_rel root path method id
  cases hmod : Glb.Router.parseRoute root path method id with
  | error e => rw [hmod] at h; exact h
  | ok pr =>
    obtain ⟨rt, res⟩ := pr
    rw [hmod] at h
    cases res with
    | ok n => exact h
    | error e =>
      cases e with
      | invalidMethod =>
        obtain ⟨keys, h⟩ := h
        exact ⟨keys, _, h, classOf_invalidMethod _ _⟩
      | invalidFragment =>
        obtain ⟨keys, name, h⟩ := h
        exact ⟨keys, _, h, classOf_invalidFragment _ _⟩
      | duplicate =>
        obtain ⟨keys, h⟩ := h
        exact ⟨keys, _, h, classOf_duplicate _ _⟩

/-- `Glb.Router.buildFrom` with the translated `parseRoute`: run the registrations, ids counting from
    `i`; `none` as soon as one returns an error or panics -/
def trBuildFrom : Node → Nat → List Reg → Option Node
  | t, _, [] => some t
  | t, i, r :: rs =>
    match Glb.Tr.Router.parseRoute t [] r.path r.method i with
    | .ok (t', _, _, none) => trBuildFrom t' (i + 1) rs
    | _ => none

def trBuild (rs : List Reg) : Option Node := trBuildFrom Node.empty 0 rs

theorem trBuildFrom_eq (rs : List Reg) : ∀ (t : Node) (i : Nat), trBuildFrom t i rs = buildFrom t i rs := by
  induction rs with
  | nil => intro t i; rfl
  | cons r rs ih =>
    intro t i
    have h := parseRoute_cases t r.path r.method i
    simp only [trBuildFrom, buildFrom]
    cases hmod : Glb.Router.parseRoute t r.path r.method i with
    | error e => rw [hmod] at h; simp only at h; rw [h]
    | ok pr =>
      obtain ⟨rt, res⟩ := pr
      rw [hmod] at h
      cases res with
      | ok n =>
        obtain ⟨keys, h⟩ := h
        rw [h]
        exact ih _ _
      | error e =>
        obtain ⟨keys, msg, h, _⟩ := h
        rw [h]

theorem trBuild_eq (rs : List Reg) : trBuild rs = build rs := trBuildFrom_eq rs _ _

/-- `Glb.C04.runHistory` with the translated `parseRoute`: any history of `Handle` calls, refused ones
    included (error ≠ nil: the route is not added, the trie keeps the nodes created) -/
def trRunHistory : Node → List Route → List Reg → Except GoPanic (Node × List Route)
  | t, ok, [] => .ok (t, ok)
  | t, ok, r :: rs =>
    match Glb.Tr.Router.parseRoute t [] r.path r.method ok.length with
    | .error e => .error e
    | .ok (t', _, _, none) => trRunHistory t' (ok ++ [⟨r.path, r.method⟩]) rs
    | .ok (t', _, _, some _) => trRunHistory t' ok rs

theorem trRunHistory_eq (rs : List Reg) : ∀ (t : Node) (ok : List Route),
    trRunHistory t ok rs = Glb.C04.runHistory t ok rs := by
  induction rs with
  | nil => intro t ok; rfl
  | cons r rs ih =>
    intro t ok
    have h := parseRoute_cases t r.path r.method ok.length
    simp only [trRunHistory, Glb.C04.runHistory]
    cases hmod : Glb.Router.parseRoute t r.path r.method ok.length with
    | error e => rw [hmod] at h; simp only at h; rw [h]
    | ok pr =>
      obtain ⟨rt, res⟩ := pr
      rw [hmod] at h
      cases res with
      | ok n =>
        obtain ⟨keys, h⟩ := h
        rw [h]
        exact ih _ _
      | error e =>
        obtain ⟨keys, msg, h, _⟩ := h
        rw [h]
        exact ih _ _

/-- **C04 `register_errors` for the translated `parseRoute`.**  After ANY history of registrations run
    with the translated code (refused ones included), the translated `parseRoute` does not panic and
    refuses a leading-slash pattern exactly when the route-list specification says so, with a message
    of that error class and count 0; otherwise it returns nil and the number of captured values. -/
theorem C04_register_errors (hist : List Reg) (hh : ∀ r ∈ hist, LeadingSlash r.path) :
    ∃ t ok, trRunHistory Node.empty [] hist = .ok (t, ok) ∧
      ∀ (p m : Bytes) (i : RouteId), LeadingSlash p →
        match specRegister ok ⟨p, m⟩ with
        | .ok n => ∃ t' keys, Glb.Tr.Router.parseRoute t [] p m i = .ok (t', keys, (n : Int), none)
        | .error e => ∃ t' keys msg, Glb.Tr.Router.parseRoute t [] p m i = .ok (t', keys, 0, some msg) ∧
            classOf msg = some (errOf e) := by
  obtain ⟨t, ok, hrun, hreg⟩ := Glb.C04.register_errors hist hh
  refine ⟨t, ok, by rw [trRunHistory_eq, hrun], ?_⟩
  intro p m i hp
  obtain ⟨t', hmod⟩ := hreg p m i hp
  have h := parseRoute_cases t p m i
  rw [hmod] at h
  cases hs : specRegister ok ⟨p, m⟩ with
  | ok n =>
    rw [hs] at h
    obtain ⟨keys, h⟩ := h
    exact ⟨t', keys, h⟩
  | error e =>
    rw [hs] at h
    obtain ⟨keys, msg, h, hc⟩ := h
    exact ⟨t', keys, msg, h, hc⟩

/-- **C04 `build_succeeds_iff` for the translated `parseRoute`**: the translated registrations of a
    list of leading-slash routes all return nil iff the route list accepts each after its predecessors -/
theorem C04_build_succeeds_iff (routes : List Route) (hls : ∀ r ∈ routes, LeadingSlash r.pattern) :
    (trBuild (routes.map regOf)).isSome ↔ Glb.C04.AllAccepted [] routes := by
  rw [trBuild_eq]
  exact Glb.C04.build_succeeds_iff routes hls

/-- **C04 refinement, registration and lookup both as translated.**  On the trie the translated
    `parseRoute` builds from leading-slash routes that it all accepts, the translated `findRoute`
    returns — without panicking — exactly the route the route-list specification selects, with its
    names and the texts bound to them. -/
theorem C04_findRoute_of_trBuild (routes : List Route) (t : Node)
    (hls : ∀ r ∈ routes, LeadingSlash r.pattern) (hb : trBuild (routes.map regOf) = some t)
    (path method : Bytes) :
    ∃ V', Glb.Tr.Router.findRoute t path method [] [] = .ok (match specFind routes path method with
      | some mt => ((Glb.C04.paramsOf mt).K, (Glb.C04.paramsOf mt).V, some mt.id)
      | none => ([], V', none)) := by
  rw [trBuild_eq] at hb
  obtain ⟨V', h⟩ := Glb.C04.trie_refines_routes routes t hls hb path method
  refine ⟨V', ?_⟩
  have := Glb.Tie.TrRouter.findRoute_eq t path method {}
  simp only [] at this
  rw [this, h]
  cases specFind routes path method <;> rfl

/-! ### non-vacuity: the translated code run on the concrete table of Props/C04 -/

-- the translated `parseRoute` accepts `GET /a/:x`, `GET /a/b`, `* /*` in this order
example : (trBuild (Glb.C04.exTable.map regOf)).isSome = true := by decide +kernel
-- and refuses a repeated `:x` with an "invalid fragment :" message
example : (Glb.Tr.Router.parseRoute Node.empty [] [47, 58, 120, 47, 58, 120] [71, 69, 84] 0).map
    (fun r => r.2.2.2.map classOf) = .ok (some (some .invalidFragment)) := by decide +kernel

end Glb.Tie.TrParseRoute
