import Glb.Go.Lemmas
import Glb.Go.LibJson
import Glb.Generated.TrJsonHandler
import Glb.Model.JsonHandler
import Glb.Tie.TrJson
import Glb.Tie.TrJsonString
import Glb.Tie.TrJsonAttr
import Glb.Props.C01

namespace Glb.Tie.TrJsonHandler
open Glb.Go Glb.JsonHandler Glb.Go.LibJson Glb.Tie.TrJsonAttr

theorem Json_WithGroup_eq (h : H) (name : Bytes) :
    Glb.Tr.Logger.Json_WithGroup h.pre (h.nOpenGroups : Int) h.addSep name
      = .ok ((withGroup h name).pre, ((withGroup h name).nOpenGroups : Int),
             (withGroup h name).addSep, ()) := by
  unfold Glb.Tr.Logger.Json_WithGroup
  simp only [Glb.Tie.TrJsonString.appendJsonString_eq, withGroup, bind, Except.bind, pure,
    Except.pure]
  cases h.addSep <;> simp

/- one symbolic iteration of the loop `for _, a := range attrs { if appendJsonAttr(buf, a, addSep, …) { addSep
   = true } }` (the same loop in `WithAttrs` and `Handle`), state `(i, buf, addSep)`; refers to the
   variables `as`, `fuel` and the hypothesis `hch : ∀ c ∈ as, depth c ≤ fuel` of the goal -/
set_option hygiene false in
macro "attr_loop_step" : tactic => `(tactic|
  (
   intro ⟨i, b, s⟩ ⟨h0, hl⟩
   dsimp only at h0 hl
   obtain ⟨n, rfl⟩ : ∃ n : Nat, i = n := ⟨i.toNat, by omega⟩
   simp only [StepOK, pure, Except.pure, Int.toNat_natCast]
   by_cases hn : n < as.length
   · obtain ⟨c, rest, hd⟩ : ∃ c rest, as.drop n = c :: rest := by
       cases hdn : as.drop n with
       | nil => have := length_of_drop_nil as n hdn; omega
       | cons c rest => exact ⟨c, rest, rfl⟩
     have hc := idx_drop as n c rest hd
     have hrest := drop_succ_of_drop as n c rest hd
     have hn' : ((n : Int) < (as.length : Int)) := by omega
     have hn1 : ((n : Int) + 1).toNat = n + 1 := by omega
     have hmem : c ∈ as := List.mem_of_mem_drop (by rw [hd]; simp)
     simp only [hn', decide_true, hc, bind, Except.bind, hd,
       appendJsonAttr_eq fuel _ c _ false (hch c hmem), attrLoop]
     cases hr : (Glb.JsonHandler.appendJsonAttr b c s).2
     · simp only [Bool.false_eq_true, if_false, hn1, hrest]
       exact ⟨⟨by omega, by omega⟩, by omega, trivial⟩
     · have hw := attrLoop_wrote rest (Glb.JsonHandler.appendJsonAttr b c s).1 true true false
       simp only [if_true, hn1, hrest, hw.1, hw.2]
       exact ⟨⟨by omega, by omega⟩, by omega, trivial⟩
   · have hn' : ¬ ((n : Int) < (as.length : Int)) := by omega
     have : as.drop n = [] := List.drop_of_length_le (by omega)
     simp [hn', this, attrLoop]
     omega))

theorem Json_WithAttrs_eq(fuel : Nat) (h : H) (as : List Attr) (hf : depthList as ≤ fuel) :
    Glb.Tr.Logger.Json_WithAttrs fuel h.pre (h.nOpenGroups : Int) h.addSep as
      = .ok ((withAttrs h as).pre, ((withAttrs h as).nOpenGroups : Int),
             (withAttrs h as).addSep, ()) := by
  unfold Glb.Tr.Logger.Json_WithAttrs
  dsimp only
  by_cases has : as = []
  · subst has
    simp [withAttrs, attrLoop, pure, Except.pure]
  · have hne : ((as.length : Int) == 0) = false := by
      cases as with
      | nil => exact absurd rfl has
      | cons x xs => simp; omega
    simp only [len_eq, hne, Bool.false_eq_true, if_false]
    have hch : ∀ c ∈ as, depth c ≤ fuel := fun c hc => Nat.le_trans (depth_mem as c hc) hf
    rw [loop_eq (σ := Int × Bytes × Bool) (ρ := Bytes × Int × Bool × Unit)
      (Inv := fun st => 0 ≤ st.1 ∧ st.1 ≤ as.length)
      (measure := fun st => ((as.length : Int) - st.1).toNat)
      (model := fun st => .ok (.inl ((as.length : Int),
        (attrLoop st.2.1 (as.drop st.1.toNat) st.2.2 false).1,
        (attrLoop st.2.1 (as.drop st.1.toNat) st.2.2 false).2.1)))]
    · simp [bind, Except.bind, pure, Except.pure, withAttrs]
    · attr_loop_step
    · simp
    · simp; omega

end Glb.Tie.TrJsonHandler
