/-
  Tie of the three TRANSLATED `JsonHandler` methods (/repo/logger/json_handler.go: `WithGroup` :72,
  `WithAttrs` :56, `Handle` :92; regenerated into Glb/Generated/TrJsonHandler.lean on every run, at the
  level of values: the handler state is the triple `(pre, nOpen, addSep)`, `buf` starts as a parameter,
  clone / pool / lock / Write are left out) to the hand model of Glb/Model/JsonHandler.lean (`H`,
  `withGroup`, `withAttrs`, `handle`, `attrLoop`, `Rec`) that the C01 main theorem `C01.C01_line` is about.

      Json_WithGroup_eq : Json_WithGroup h.pre h.nOpenGroups h.addSep name = .ok (triple of withGroup h name)
      Json_WithAttrs_eq : depthList as ≤ fuel →
                          Json_WithAttrs fuel h.pre h.nOpenGroups h.addSep as = .ok (triple of withAttrs h as)
      Json_Handle_exact : r.line = itoa lineNo → depthList r.attrs ≤ fuel → -2 ≤ r.level →
                          (Json_Handle fuel [] addSource h.pre … r.attrs).map (·.1) = handle addSource h r
      Json_Handle_eq    : the same for ALL levels after `Except.toOption`

  Fuel convention: `Json_WithAttrs fuel` / `Json_Handle fuel` pass `fuel` itself to the recursive
  `appendJsonAttr`, so the hypothesis is `depthList attrs ≤ fuel` (Tie/TrJsonAttr: `depth a ≤ fuel`).

  Panics: the only possible one is the level-label index of `appendFullLevel` (`labelList[level+2]`).
  Translated code and model panic on exactly the same levels (`level < -2 ∨ 17 < level`), but for
  `level + 2 < 0` the PAYLOAD differs (`.other "index<0"` of `Glb.Go.idxI` vs the model's
  `.other "index out of range (negative)"`), so `Json_Handle_exact` is exact equality (ok-results and
  out-of-range panics with payload) under `-2 ≤ r.level`, and `Json_Handle_eq` is equality after
  `Except.toOption` for every level (ok-results agree, one side errs iff the other errs).

  Proof: the range loop over the attributes (the same loop in `WithAttrs` and `Handle`, state
  `(i, buf, addSep)`) is rewritten with `loop_eq`; the rest of the loop from index `i` is the model's
  `attrLoop buf (as.drop i) addSep false` (its `wrote` component is irrelevant: `attrLoop_wrote`), each
  element's call is rewritten with `TrJsonAttr.appendJsonAttr_eq`.  The closing-braces loop
  `for i := 0; i < h.nOpenGroups; i++` from state `(buf, i)` is `buf ++ replicate (nOpen - i) '}'`.
  The guards `len(h.preformatted) > 0` / `r.NumAttrs() > 0` / `len(attrs) == 0` are case splits
  (`buf ++ [] = buf`, `attrLoop buf [] … = buf`).

      trDeriveAll_eq      : a chain of translated `WithAttrs`/`WithGroup` = the model's `deriveAll`
      C01_line_translated : `C01.C01_line` for the translated chain + translated `Handle`
-/
import Glb.Go.Lemmas
import Glb.Go.LibJson
import Glb.Generated.TrJsonHandler
import Glb.Model.JsonHandler
import Glb.Tie.TrJson
import Glb.Tie.TrJsonString
import Glb.Tie.TrJsonAttr
import Glb.Props.C01

namespace Glb.Tie.TrJsonHandler
open Glb.Go Glb.JsonHandler Glb.Go.LibJson Glb.Tie.TrJsonAttr

/-- **the translated `WithGroup` is the model's `withGroup`** on the state triple, for every handler
    state and group name (no panic) -/
theorem Json_WithGroup_eq (h : H) (name : Bytes) :
    Glb.Tr.Logger.Json_WithGroup h.pre (h.nOpenGroups : Int) h.addSep name
      = .ok ((withGroup h name).pre, ((withGroup h name).nOpenGroups : Int),
             (withGroup h name).addSep, ()) := by
  unfold Glb.Tr.Logger.Json_WithGroup
  simp only [Glb.Tie.TrJsonString.appendJsonString_eq, withGroup, bind, Except.bind, pure,
    Except.pure]
  cases h.addSep <;> simp

/- one symbolic iteration of the loop `for _, a := range attrs { if appendJsonAttr(buf, a, addSep, …) { addSep
   = true } }` (the same loop in `WithAttrs` and `Handle`), state `(i, buf, addSep)`; refers to the
   variables `as`, `fuel` and the hypothesis `hch : ∀ c ∈ as, depth c ≤ fuel` of the goal -/
set_option hygiene false in
macro "attr_loop_step" : tactic => `(tactic|
  (
   intro ⟨i, b, s⟩ ⟨h0, hl⟩
   dsimp only at h0 hl
   obtain ⟨n, rfl⟩ : ∃ n : Nat, i = n := ⟨i.toNat, by omega⟩
   simp only [StepOK, pure, Except.pure, Int.toNat_natCast, len_eq]
   by_cases hn : n < as.length
   · obtain ⟨c, rest, hd⟩ : ∃ c rest, as.drop n = c :: rest := by
       cases hdn : as.drop n with
       | nil => have := length_of_drop_nil as n hdn; omega
       | cons c rest => exact ⟨c, rest, rfl⟩
     have hc := idx_drop as n c rest hd
     have hrest := drop_succ_of_drop as n c rest hd
     have hn' : ((n : Int) < (as.length : Int)) := by omega
     have hn1 : ((n : Int) + 1).toNat = n + 1 := by omega
     have hmem : c ∈ as := List.mem_of_mem_drop (by rw [hd]; simp)
     simp only [hn', decide_true, hc, bind, Except.bind, hd,
       appendJsonAttr_eq fuel _ c _ false (hch c hmem), attrLoop]
     cases hr : (Glb.JsonHandler.appendJsonAttr b c s).2
     · simp only [Bool.false_eq_true, if_false, hn1, hrest]
       exact ⟨⟨by omega, by omega⟩, by omega, trivial⟩
     · have hw := attrLoop_wrote rest (Glb.JsonHandler.appendJsonAttr b c s).1 true true false
       simp only [if_true, hn1, hrest, hw.1, hw.2]
       exact ⟨⟨by omega, by omega⟩, by omega, trivial⟩
   · have hn' : ¬ ((n : Int) < (as.length : Int)) := by omega
     have : as.drop n = [] := List.drop_of_length_le (by omega)
     simp [hn', this, attrLoop]
     omega))

theorem Json_WithAttrs_eq(fuel : Nat) (h : H) (as : List Attr) (hf : depthList as ≤ fuel) :
    Glb.Tr.Logger.Json_WithAttrs fuel h.pre (h.nOpenGroups : Int) h.addSep as
      = .ok ((withAttrs h as).pre, ((withAttrs h as).nOpenGroups : Int),
             (withAttrs h as).addSep, ()) := by
  unfold Glb.Tr.Logger.Json_WithAttrs
  dsimp only
  by_cases has : as = []
  · subst has
    simp [withAttrs, attrLoop, pure, Except.pure]
  · have hne : ((as.length : Int) == 0) = false := by
      cases as with
      | nil => exact absurd rfl has
      | cons x xs => simp; omega
    simp only [len_eq, hne, Bool.false_eq_true, if_false]
    have hch : ∀ c ∈ as, depth c ≤ fuel := fun c hc => Nat.le_trans (depth_mem as c hc) hf
    rw [loop_eq (σ := Int × Bytes × Bool) (ρ := Bytes × Int × Bool × Unit)
      (Inv := fun st => 0 ≤ st.1 ∧ st.1 ≤ as.length)
      (measure := fun st => ((as.length : Int) - st.1).toNat)
      (model := fun st => .ok (.inl ((as.length : Int),
        (attrLoop st.2.1 (as.drop st.1.toNat) st.2.2 false).1,
        (attrLoop st.2.1 (as.drop st.1.toNat) st.2.2 false).2.1)))]
    · simp [bind, Except.bind, pure, Except.pure, withAttrs]
    · attr_loop_step
    · simp
    · simp; omega

/- one symbolic iteration of the loop `for i := 0; i < h.nOpenGroups; i++ { buf = append(buf, '}') }`,
   state `(buf, i)`; refers to the variable `nOpen : Nat` of the goal -/
set_option hygiene false in
macro "close_loop_step" : tactic => `(tactic|
  (
   intro ⟨b, i⟩ ⟨h0, hl⟩
   dsimp only at h0 hl
   obtain ⟨n, rfl⟩ : ∃ n : Nat, i = n := ⟨i.toNat, by omega⟩
   simp only [StepOK, pure, Except.pure]
   by_cases hn : n < nOpen
   · have hn' : ((n : Int) < (nOpen : Int)) := by omega
     have e1 : ((nOpen : Int) - (n : Int)).toNat = ((nOpen : Int) - ((n : Int) + 1)).toNat + 1 := by omega
     simp only [hn', decide_true]
     refine ⟨⟨by omega, by omega⟩, by omega, ?_⟩
     rw [e1, List.replicate_succ]
     simp
   · have hn' : ¬ ((n : Int) < (nOpen : Int)) := by omega
     have e1 : ((nOpen : Int) - (n : Int)).toNat = 0 := by omega
     have e2 : (n : Int) = (nOpen : Int) := by omega
     simp [hn', e1, e2]))

/-- **the translated `Handle` is the model's `handle`**, exact equality (bytes, and the out-of-range
    panic of the level label with its payload) for every handler state, record and `addSource`, under
    `-2 ≤ r.level` (below that both sides panic, with different payloads: see `Json_Handle_eq`);
    `r.line` is the decimal text of the translated code's line number -/
theorem Json_Handle_exact (fuel : Nat) (addSource : Bool) (h : H) (r : Rec) (lineNo : Int)
    (hline : r.line = Glb.Go.Lib.itoa lineNo) (hf : depthList r.attrs ≤ fuel)
    (hlevel : -2 ≤ r.level) :
    (Glb.Tr.Logger.Json_Handle fuel [] addSource h.pre (h.nOpenGroups : Int) h.addSep r.time
        r.level r.file lineNo r.msg r.attrs).map (·.1)
      = handle addSource h r := by
  obtain ⟨pre, nOpen, addSep⟩ := h
  obtain ⟨time, level, file, line, msg, as⟩ := r
  dsimp only at hline hf hlevel ⊢
  subst hline
  unfold Glb.Tr.Logger.Json_Handle
  dsimp only
  rw [Glb.Tie.TrJson.appendFullLevel_exact _ _ hlevel]
  unfold handle
  dsimp only
  cases hlv : fullLevel level with
  | error e => simp [Except.map, bind, Except.bind]
  | ok lvl =>
    have hch : ∀ c ∈ as, depth c ≤ fuel := fun c hc => Nat.le_trans (depth_mem as c hc) hf
    have hp0 : decide (len ([] : Bytes) > 0) = false := by simp
    have hp1 : ∀ (x : UInt8) (xs : Bytes), decide (len (x :: xs) > 0) = true := by
      intro x xs; simp
    have ha0 : decide (len ([] : List Attr) > 0) = false := by simp
    have ha1 : as ≠ [] → decide (len as > 0) = true := by
      intro hne
      cases as with
      | nil => exact absurd rfl hne
      | cons x xs => simp
    by_cases has : as = []
    · subst has
      cases addSource <;> cases pre <;>
      ( simp only [Except.map, bind, Except.bind, pure, Except.pure, hp0, hp1, ha0,
          Glb.Tie.TrJson.appendJsonSource_eq, Glb.Tie.TrJsonString.appendJsonString_eq,
          Bool.false_eq_true, if_false, if_true]
        rw [loop_eq (σ := Bytes × Int) (ρ := Bytes × Unit)
          (Inv := fun st => 0 ≤ st.2 ∧ st.2 ≤ nOpen)
          (measure := fun st => ((nOpen : Int) - st.2).toNat)
          (model := fun st => .ok (.inl (st.1 ++ List.replicate ((nOpen : Int) - st.2).toNat 125,
            (nOpen : Int))))]
        · simp [attrLoop]
        · close_loop_step
        · simp
        · simp; omega )
    · have ha1' := ha1 has
      cases addSource <;> cases pre <;>
      ( simp only [Except.map, bind, Except.bind, pure, Except.pure, hp0, hp1, ha1',
          Glb.Tie.TrJson.appendJsonSource_eq, Glb.Tie.TrJsonString.appendJsonString_eq,
          Bool.false_eq_true, if_false, if_true]
        rw [loop_eq (σ := Int × Bytes × Bool) (ρ := Bytes × Unit)
          (Inv := fun st => 0 ≤ st.1 ∧ st.1 ≤ as.length)
          (measure := fun st => ((as.length : Int) - st.1).toNat)
          (model := fun st => .ok (.inl ((as.length : Int),
            (attrLoop st.2.1 (as.drop st.1.toNat) st.2.2 false).1,
            (attrLoop st.2.1 (as.drop st.1.toNat) st.2.2 false).2.1)))]
        · dsimp only
          rw [loop_eq (σ := Bytes × Int) (ρ := Bytes × Unit)
            (Inv := fun st => 0 ≤ st.2 ∧ st.2 ≤ nOpen)
            (measure := fun st => ((nOpen : Int) - st.2).toNat)
            (model := fun st => .ok (.inl (st.1 ++ List.replicate ((nOpen : Int) - st.2).toNat 125,
              (nOpen : Int))))]
          · simp
          · close_loop_step
          · simp
          · simp; omega
        · attr_loop_step
        · simp
        · simp; omega )

private theorem toOption_bind_none {α β} (x : M α) (f : α → M β) (hx : x.toOption = none) :
    (x >>= f).toOption = none := by
  cases x with
  | ok v => simp [Except.toOption] at hx
  | error e => simp [bind, Except.bind, Except.toOption]

/-- when `appendFullLevel` panics, so does the translated `Handle` (first effectful statement) -/
theorem Json_Handle_level_panics (fuel : Nat) (addSource : Bool) (pre : Bytes) (nOpen : Int)
    (addSep : Bool) (time : Bytes) (level : Int) (file : Bytes) (lineNo : Int) (msg : Bytes)
    (as : List Attr) (hl : level < -2 ∨ 17 < level) :
    (Glb.Tr.Logger.Json_Handle fuel [] addSource pre nOpen addSep time level file lineNo msg
      as).toOption = none := by
  unfold Glb.Tr.Logger.Json_Handle
  dsimp only
  exact toOption_bind_none _ _ (Glb.Tie.TrJson.appendFullLevel_panics _ level hl)

/-- **the translated `Handle` is the model's `handle`** for ALL inputs (every level), as equality after
    `Except.toOption`: ok-results agree, and one side panics iff the other does (payload erased) -/
theorem Json_Handle_eq (fuel : Nat) (addSource : Bool) (h : H) (r : Rec) (lineNo : Int)
    (hline : r.line = Glb.Go.Lib.itoa lineNo) (hf : depthList r.attrs ≤ fuel) :
    ((Glb.Tr.Logger.Json_Handle fuel [] addSource h.pre (h.nOpenGroups : Int) h.addSep r.time
        r.level r.file lineNo r.msg r.attrs).map (·.1)).toOption
      = (handle addSource h r).toOption := by
  by_cases hlevel : -2 ≤ r.level
  · rw [Json_Handle_exact fuel addSource h r lineNo hline hf hlevel]
  · have h1 := Json_Handle_level_panics fuel addSource h.pre (h.nOpenGroups : Int) h.addSep r.time
      r.level r.file lineNo r.msg r.attrs (Or.inl (by omega))
    have h2 : fullLevel r.level = .error (.other "index out of range (negative)") := by
      unfold fullLevel
      rw [if_pos (by omega)]
    cases hj : Glb.Tr.Logger.Json_Handle fuel [] addSource h.pre (h.nOpenGroups : Int) h.addSep
        r.time r.level r.file lineNo r.msg r.attrs with
    | ok v => rw [hj] at h1; simp [Except.toOption] at h1
    | error e => simp [handle, h2, bind, Except.bind, Except.map, Except.toOption]

/-! ### derivation chains and C01 for the translated methods -/

/-- deepest attribute tree of a derivation chain (the fuel the translated `WithAttrs` calls need) -/
def chainDepth : List Deriv → Nat
  | [] => 0
  | .attrs as :: ds => max (depthList as) (chainDepth ds)
  | .group _ :: ds => chainDepth ds

/-- one derivation step with the TRANSLATED methods, on the handler-state triple -/
def trDerive (fuel : Nat) (st : Bytes × Int × Bool) : Deriv → M (Bytes × Int × Bool)
  | .attrs as => (Glb.Tr.Logger.Json_WithAttrs fuel st.1 st.2.1 st.2.2 as).map
      (fun t => (t.1, t.2.1, t.2.2.1))
  | .group g => (Glb.Tr.Logger.Json_WithGroup st.1 st.2.1 st.2.2 g).map
      (fun t => (t.1, t.2.1, t.2.2.1))

/-- a chain of `WithAttrs` / `WithGroup` with the translated methods -/
def trDeriveAll (fuel : Nat) (st : Bytes × Int × Bool) : List Deriv → M (Bytes × Int × Bool)
  | [] => pure st
  | d :: ds => trDerive fuel st d >>= fun st' => trDeriveAll fuel st' ds

/-- the handler-state triple of a model handler -/
def triple (h : H) : Bytes × Int × Bool := (h.pre, (h.nOpenGroups : Int), h.addSep)

theorem trDerive_eq (fuel : Nat) (h : H) (d : Deriv) (hf : chainDepth [d] ≤ fuel) :
    trDerive fuel (triple h) d = .ok (triple (derive h d)) := by
  cases d with
  | attrs as =>
    have hf' : depthList as ≤ fuel := by simp only [chainDepth] at hf; omega
    simp only [trDerive, triple, Json_WithAttrs_eq fuel h as hf', Except.map, derive]
  | group g =>
    simp only [trDerive, triple, Json_WithGroup_eq h g, Except.map, derive]

theorem trDeriveAll_eq (fuel : Nat) (h : H) (ds : List Deriv) (hf : chainDepth ds ≤ fuel) :
    trDeriveAll fuel (triple h) ds = .ok (triple (deriveAll h ds)) := by
  induction ds generalizing h with
  | nil => rfl
  | cons d ds ih =>
    have h1 : chainDepth [d] ≤ fuel ∧ chainDepth ds ≤ fuel := by
      cases d <;> simp only [chainDepth] at hf ⊢ <;> omega
    simp only [trDeriveAll, trDerive_eq fuel h d h1.1, bind, Except.bind]
    rw [ih (derive h d) h1.2]
    simp [deriveAll]

open Glb.Json in
/-- **C01 for the translated methods.**  Derive a handler from `NewJsonHandler`'s state `("", 0, true)`
    through any chain with the translated `WithAttrs` / `WithGroup`, then call the translated `Handle`
    on any record with a valid level: nothing panics, the fuel (≥ the deepest attribute tree) does not
    run out, and the bytes produced are `body ++ "\n"` with `body` newline-free and a JSON text denoting
    `expected addSource chain r` (the statement of `C01.C01_line`, same contract hypotheses). -/
theorem C01_line_translated (fuel : Nat) (addSource : Bool) (chain : List Deriv) (r : Rec)
    (lineNo : Int) (hline : r.line = Glb.Go.Lib.itoa lineNo)
    (hfc : chainDepth chain ≤ fuel) (hf : depthList r.attrs ≤ fuel)
    (hchain : ChainOk chain) (hrec : RecOk r) (hlevel : validLevel r.level = true) :
    ∃ body,
      (trDeriveAll fuel ([], 0, true) chain >>= fun st =>
        Glb.Tr.Logger.Json_Handle fuel [] addSource st.1 st.2.1 st.2.2 r.time r.level r.file lineNo
          r.msg r.attrs) = .ok (body ++ [0x0A], ()) ∧
      0x0A ∉ body ∧ IsJson body (expected addSource chain r) := by
  obtain ⟨body, hb, hnl, hj⟩ := Glb.C01.C01_line addSource chain r hchain hrec hlevel
  refine ⟨body, ?_, hnl, hj⟩
  have hl2 : -2 ≤ r.level := by
    simp only [validLevel, Bool.or_eq_true, beq_iff_eq] at hlevel
    omega
  have h0 : (([], 0, true) : Bytes × Int × Bool) = triple H.init := rfl
  rw [h0, trDeriveAll_eq fuel H.init chain hfc]
  have he := Json_Handle_exact fuel addSource (deriveAll H.init chain) r lineNo hline hf hl2
  rw [hb] at he
  simp only [bind, Except.bind, triple]
  cases hh : Glb.Tr.Logger.Json_Handle fuel [] addSource (deriveAll H.init chain).pre
      ((deriveAll H.init chain).nOpenGroups : Int) (deriveAll H.init chain).addSep r.time r.level
      r.file lineNo r.msg r.attrs with
  | error e => rw [hh] at he; simp [Except.map] at he
  | ok v =>
    rw [hh] at he
    simp only [Except.map, Except.ok.injEq] at he
    obtain ⟨b, u⟩ := v
    simp only at he
    rw [he]

end Glb.Tie.TrJsonHandler
