import Glb.Go.Lemmas
import Glb.Go.LibJson
import Glb.Generated.TrJsonHandler
import Glb.Model.JsonHandler
import Glb.Tie.TrJson
import Glb.Tie.TrJsonString
import Glb.Tie.TrJsonAttr
import Glb.Props.C01

namespace Glb.Tie.TrJsonHandler
open Glb.Go Glb.JsonHandler Glb.Go.LibJson Glb.Tie.TrJsonAttr

theorem Json_WithGroup_eq (h : H) (name : Bytes) :
    Glb.Tr.Logger.Json_WithGroup h.pre (h.nOpenGroups : Int) h.addSep name
      = .ok ((withGroup h name).pre, ((withGroup h name).nOpenGroups : Int),
             (withGroup h name).addSep, ()) := by
  unfold Glb.Tr.Logger.Json_WithGroup
  simp only [Glb.Tie.TrJsonString.appendJsonString_eq, withGroup, bind, Except.bind, pure,
    Except.pure]
  cases h.addSep <;> simp

/- one symbolic iteration of the loop `for _, a := range attrs { if appendJsonAttr(buf, a, addSep, …) { addSep
   = true } }` (the same loop in `WithAttrs` and `Handle`), state `(i, buf, addSep)`; refers to the
   variables `as`, `fuel` and the hypothesis `hch : ∀ c ∈ as, depth c ≤ fuel` of the goal -/
set_option hygiene false in
macro "attr_loop_step" : tactic => `(tactic|
  (
   intro ⟨i, b, s⟩ ⟨h0, hl⟩
   dsimp only at h0 hl
   obtain ⟨n, rfl⟩ : ∃ n : Nat, i = n := ⟨i.toNat, by omega⟩
   simp only [StepOK, pure, Except.pure, Int.toNat_natCast, len_eq]
   by_cases hn : n < as.length
   · obtain ⟨c, rest, hd⟩ : ∃ c rest, as.drop n = c :: rest := by
       cases hdn : as.drop n with
       | nil => have := length_of_drop_nil as n hdn; omega
       | cons c rest => exact ⟨c, rest, rfl⟩
     have hc := idx_drop as n c rest hd
     have hrest := drop_succ_of_drop as n c rest hd
     have hn' : ((n : Int) < (as.length : Int)) := by omega
     have hn1 : ((n : Int) + 1).toNat = n + 1 := by omega
     have hmem : c ∈ as := List.mem_of_mem_drop (by rw [hd]; simp)
     simp only [hn', decide_true, hc, bind, Except.bind, hd,
       appendJsonAttr_eq fuel _ c _ false (hch c hmem), attrLoop]
     cases hr : (Glb.JsonHandler.appendJsonAttr b c s).2
     · simp only [Bool.false_eq_true, if_false, hn1, hrest]
       exact ⟨⟨by omega, by omega⟩, by omega, trivial⟩
     · have hw := attrLoop_wrote rest (Glb.JsonHandler.appendJsonAttr b c s).1 true true false
       simp only [if_true, hn1, hrest, hw.1, hw.2]
       exact ⟨⟨by omega, by omega⟩, by omega, trivial⟩
   · have hn' : ¬ ((n : Int) < (as.length : Int)) := by omega
     have : as.drop n = [] := List.drop_of_length_le (by omega)
     simp [hn', this, attrLoop]
     omega))

theorem Json_WithAttrs_eq(fuel : Nat) (h : H) (as : List Attr) (hf : depthList as ≤ fuel) :
    Glb.Tr.Logger.Json_WithAttrs fuel h.pre (h.nOpenGroups : Int) h.addSep as
      = .ok ((withAttrs h as).pre, ((withAttrs h as).nOpenGroups : Int),
             (withAttrs h as).addSep, ()) := by
  unfold Glb.Tr.Logger.Json_WithAttrs
  dsimp only
  by_cases has : as = []
  · subst has
    simp [withAttrs, attrLoop, pure, Except.pure]
  · have hne : ((as.length : Int) == 0) = false := by
      cases as with
      | nil => exact absurd rfl has
      | cons x xs => simp; omega
    simp only [len_eq, hne, Bool.false_eq_true, if_false]
    have hch : ∀ c ∈ as, depth c ≤ fuel := fun c hc => Nat.le_trans (depth_mem as c hc) hf
    rw [loop_eq (σ := Int × Bytes × Bool) (ρ := Bytes × Int × Bool × Unit)
      (Inv := fun st => 0 ≤ st.1 ∧ st.1 ≤ as.length)
      (measure := fun st => ((as.length : Int) - st.1).toNat)
      (model := fun st => .ok (.inl ((as.length : Int),
        (attrLoop st.2.1 (as.drop st.1.toNat) st.2.2 false).1,
        (attrLoop st.2.1 (as.drop st.1.toNat) st.2.2 false).2.1)))]
    · simp [bind, Except.bind, pure, Except.pure, withAttrs]
    · attr_loop_step
    · simp
    · simp; omega

/- one symbolic iteration of the loop `for i := 0; i < h.nOpenGroups; i++ { buf = append(buf, '}') }`,
   state `(buf, i)`; refers to the variable `nOpen : Nat` of the goal -/
set_option hygiene false in
macro "close_loop_step" : tactic => `(tactic|
  (
   intro ⟨b, i⟩ ⟨h0, hl⟩
   dsimp only at h0 hl
   obtain ⟨n, rfl⟩ : ∃ n : Nat, i = n := ⟨i.toNat, by omega⟩
   simp only [StepOK, pure, Except.pure]
   by_cases hn : n < nOpen
   · have hn' : ((n : Int) < (nOpen : Int)) := by omega
     have e1 : ((nOpen : Int) - (n : Int)).toNat = ((nOpen : Int) - ((n : Int) + 1)).toNat + 1 := by omega
     simp only [hn', decide_true]
     refine ⟨⟨by omega, by omega⟩, by omega, ?_⟩
     rw [e1, List.replicate_succ]
     simp
   · have hn' : ¬ ((n : Int) < (nOpen : Int)) := by omega
     have e1 : ((nOpen : Int) - (n : Int)).toNat = 0 := by omega
     have e2 : (n : Int) = (nOpen : Int) := by omega
     simp [hn', e1, e2]))

theorem Json_Handle_exact (fuel : Nat) (addSource : Bool) (h : H) (r : Rec) (lineNo : Int)
    (hline : r.line = Glb.Go.Lib.itoa lineNo) (hf : depthList r.attrs ≤ fuel)
    (hlevel : -2 ≤ r.level) :
    (Glb.Tr.Logger.Json_Handle fuel [] addSource h.pre (h.nOpenGroups : Int) h.addSep r.time
        r.level r.file lineNo r.msg r.attrs).map (·.1)
      = handle addSource h r := by
  obtain ⟨pre, nOpen, addSep⟩ := h
  obtain ⟨time, level, file, line, msg, as⟩ := r
  dsimp only at hline hf hlevel ⊢
  subst hline
  unfold Glb.Tr.Logger.Json_Handle
  dsimp only
  rw [Glb.Tie.TrJson.appendFullLevel_exact _ _ hlevel]
  unfold handle
  dsimp only
  cases hlv : fullLevel level with
  | error e => simp [Except.map, bind, Except.bind]
  | ok lvl =>
    have hch : ∀ c ∈ as, depth c ≤ fuel := fun c hc => Nat.le_trans (depth_mem as c hc) hf
    have hp0 : decide (len ([] : Bytes) > 0) = false := by simp
    have hp1 : ∀ (x : UInt8) (xs : Bytes), decide (len (x :: xs) > 0) = true := by
      intro x xs; simp
    have ha0 : decide (len ([] : List Attr) > 0) = false := by simp
    have ha1 : as ≠ [] → decide (len as > 0) = true := by
      intro hne
      cases as with
      | nil => exact absurd rfl hne
      | cons x xs => simp
    by_cases has : as = []
    · subst has
      cases addSource <;> cases pre <;>
      ( simp only [Except.map, bind, Except.bind, pure, Except.pure, hp0, hp1, ha0,
          Glb.Tie.TrJson.appendJsonSource_eq, Glb.Tie.TrJsonString.appendJsonString_eq,
          Bool.false_eq_true, if_false, if_true]
        rw [loop_eq (σ := Bytes × Int) (ρ := Bytes × Unit)
          (Inv := fun st => 0 ≤ st.2 ∧ st.2 ≤ nOpen)
          (measure := fun st => ((nOpen : Int) - st.2).toNat)
          (model := fun st => .ok (.inl (st.1 ++ List.replicate ((nOpen : Int) - st.2).toNat 125,
            (nOpen : Int))))]
        · simp [attrLoop]
        · close_loop_step
        · simp
        · simp; omega )
    · have ha1' := ha1 has
      cases addSource <;> cases pre <;>
      ( simp only [Except.map, bind, Except.bind, pure, Except.pure, hp0, hp1, ha1',
          Glb.Tie.TrJson.appendJsonSource_eq, Glb.Tie.TrJsonString.appendJsonString_eq,
          Bool.false_eq_true, if_false, if_true]
        rw [loop_eq (σ := Int × Bytes × Bool) (ρ := Bytes × Unit)
          (Inv := fun st => 0 ≤ st.1 ∧ st.1 ≤ as.length)
          (measure := fun st => ((as.length : Int) - st.1).toNat)
          (model := fun st => .ok (.inl ((as.length : Int),
            (attrLoop st.2.1 (as.drop st.1.toNat) st.2.2 false).1,
            (attrLoop st.2.1 (as.drop st.1.toNat) st.2.2 false).2.1)))]
        · dsimp only
          rw [loop_eq (σ := Bytes × Int) (ρ := Bytes × Unit)
            (Inv := fun st => 0 ≤ st.2 ∧ st.2 ≤ nOpen)
            (measure := fun st => ((nOpen : Int) - st.2).toNat)
            (model := fun st => .ok (.inl (st.1 ++ List.replicate ((nOpen : Int) - st.2).toNat 125,
              (nOpen : Int))))]
          · simp
          · close_loop_step
          · simp
          · simp; omega
        · attr_loop_step
        · simp
        · simp; omega )

end Glb.Tie.TrJsonHandler
