/-
  Regenerated tie for C17: the shape of `ResolveUrlPath` read from /repo/util/fsutil/path.go is the
  shape `Model/PathClean.lean: resolveUrlPath` assumes.  Re-proved by `decide` on every run; a
  dropped guard, a different prepended literal, a different call chain in the return expression
  (e.g. string concatenation instead of `filepath.Join`, a missing `path.Clean`) or a re-bound
  import breaks this file.  Parameters are identified by position ($0 = baseFilePath,
  $1 = rawUrlPath), so renaming them does not.
-/
import Glb.Generated.StatusFsutil
import Glb.Generated.Fsutil
import Glb.Model.PathClean

namespace Glb.Tie.Fsutil
open Glb.PathClean

/-- `func ResolveUrlPath(string, string) string` with body `if … { $1 = … }; return …` -/
theorem resolve_sig : Generated.resolveSig = ["string", "string", "->", "string"] := by decide

theorem resolve_stmts : Generated.resolveStmts = ["if", "if.body:assign", "return/1"] := by decide

/-- guard: `$1 == "" || $1[0] != '/'` (`forceSlash`: the empty url or a first byte ≠ '/') -/
theorem resolve_guard :
    Generated.resolveGuard = ["||", "==", "$1", "str:", "!=", "index", "$1", "int:0", "char:47"] := by
  decide

theorem resolve_guard_byte : Generated.resolveGuardByte = some slash := by decide

/-- guarded statement: `$1 = "/" + $1` -/
theorem resolve_assign : Generated.resolveAssign = ["=", "$1", "+", "str:/", "$1"] := by decide

theorem resolve_prefix : Generated.resolvePrefix = [slash] := by decide

/-- `return filepath.Join($0, filepath.FromSlash(path.Clean($1)))` -/
theorem resolve_return :
    Generated.resolveReturn =
      ["call:filepath.Join/2", "$0", "call:filepath.FromSlash/1", "call:path.Clean/1", "$1"] := by
  decide

theorem resolve_calls :
    Generated.resolveCalls = ["filepath.Join", "filepath.FromSlash", "path.Clean"] := by decide

/-- `filepath` is path/filepath and `path` is path (no re-bound import names) -/
theorem resolve_imports :
    Generated.resolveImports = [("filepath", "path/filepath"), ("path", "path")] := by decide

/-- the model's first step, spelled with the regenerated constants, for every url -/
theorem forceSlash_uses_extracted (url : Bytes) :
    forceSlash url =
      if url = [] ∨ url[0]? ≠ Generated.resolveGuardByte then Generated.resolvePrefix ++ url
      else url := by
  rw [resolve_guard_byte, resolve_prefix]
  cases url with
  | nil => simp [forceSlash]
  | cons c rest =>
    by_cases hc : c = slash <;> simp [forceSlash, hc]

/-- the model's return expression is the extracted call chain applied to ($0, forced $1) -/
theorem resolveUrlPath_shape (base url : Bytes) :
    resolveUrlPath base url = join [base, fromSlash (clean (forceSlash url))] := rfl

/-- the extractor of this area recognised the source as it is on this run (a refusal removes `ok`) -/
theorem extractor_ok : Glb.Generated.StatusFsutil.ok = () := rfl

end Glb.Tie.Fsutil
