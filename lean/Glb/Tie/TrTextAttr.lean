/-
  Tie of the TRANSLATED, recursive `appendTextAttr` (/repo/logger/text_handler.go:150, regenerated into
  Glb/Generated/TrTextAttr.lean on every run) to the hand model `Glb.TextHandler.appendTextAttr` /
  `appendTextGroup` (Glb/Model/TextHandler.lean) the C13 property theorems are about.

      appendTextAttr_eq : depth a ≤ fuel →
        Tr.Logger.appendTextAttr fuel P buf a pfx colorful = .ok (TextHandler.appendTextAttr P buf pfx a)

  for every attribute tree `a`, every record `P` of library functions, all buffers (full strength:
  with fuel at least the nesting depth of the tree the translated code never panics; in particular
  the bounds-checked reslice `(*prefix)[:ori]` never fails, because the prefix buffer a call returns
  is never shorter than the one it was given: `attr_len` / `group_len`).

  Structure: induction on the fuel (the translated function recurses on it); for a group the
  translated `range` loop from index `i` in state `(i, prefix, buf)` is the model's
  `appendTextGroup P buf prefix ori key (as.drop i)` (`loop_eq`).
-/
import Glb.Go.Lemmas
import Glb.Go.LemmasJsonString
import Glb.Generated.TrTextAttr
import Glb.Model.TextHandler
import Glb.Tie.TrText

namespace Glb.Tie.TrTextAttr
open Glb.Go Glb.TextHandler

/-! ### nesting depth of an attribute tree -/

mutual
/-- nesting depth: a leaf is 1, a group is 1 + the maximum over its children -/
def depth : Attr → Nat
  | .leaf _ _ => 1
  | .group _ as => 1 + depthList as
/-- maximum depth of a list of attributes (0 for the empty list) -/
def depthList : List Attr → Nat
  | [] => 0
  | a :: rest => max (depth a) (depthList rest)
end

theorem depth_pos (a : Attr) : 1 ≤ depth a := by
  cases a <;> simp [depth]

theorem depth_mem (as : List Attr) (a : Attr) (h : a ∈ as) : depth a ≤ depthList as := by
  induction as with
  | nil => cases h
  | cons b rest ih =>
    simp only [depthList]
    rcases List.mem_cons.mp h with rfl | h
    · exact Nat.le_max_left _ _
    · exact Nat.le_trans (ih h) (Nat.le_max_right _ _)

/-! ### the prefix buffer never gets shorter -/

mutual
/-- the prefix buffer a call of `appendTextAttr` leaves is at least as long as the one passed in -/
theorem attr_len (P : Std) : ∀ (a : Attr) (buf pfx : Bytes),
    pfx.length ≤ (appendTextAttr P buf pfx a).2.length
  | .leaf key v, buf, pfx => by
    simp only [appendTextAttr]
    split <;> simp
  | .group key as, buf, pfx => by
    simp only [appendTextAttr]
    exact group_len P as buf pfx pfx.length key (Nat.le_refl _)
/-- inside the group loop the prefix buffer never gets shorter than `ori` -/
theorem group_len (P : Std) : ∀ (as : List Attr) (buf pfx : Bytes) (ori : Nat) (key : Bytes),
    ori ≤ pfx.length → ori ≤ (appendTextGroup P buf pfx ori key as).2.length
  | [], buf, pfx, ori, key, h => by simpa [appendTextGroup] using h
  | a :: rest, buf, pfx, ori, key, h => by
    simp only [appendTextGroup]
    apply group_len P rest
    refine Nat.le_trans ?_ (attr_len P a _ _)
    split <;> split <;> simp <;> omega
end

/-! ### bounds-checked reslice -/

theorem sliceTo_take {α} (s : List α) (n : Nat) (h : n ≤ s.length) :
    sliceTo s (n : Int) = .ok (s.take n) := by
  simp [sliceTo, slice, Glb.slice?, h]

theorem drop_mem {α} (s : List α) (n : Nat) (c : α) (rest : List α) (h : s.drop n = c :: rest) :
    c ∈ s := by
  have : c ∈ s.drop n := by rw [h]; exact List.mem_cons_self
  exact List.mem_of_mem_drop this

/-! ### the tie -/

set_option linter.unusedSimpArgs false in
/-- `appendTextAttr` of logger/text_handler.go, as translated, is the model's `appendTextAttr`
    (group case: `appendTextGroup`), for every attribute tree, library record and pair of buffers,
    whenever the fuel covers the nesting depth of the tree: no panic (the reslice `(*prefix)[:ori]`
    is always in bounds), no fuel exhaustion in the recursion or in the `range` loops.  The translated
    function returns `(buf, prefix buffer)` as the call leaves them.  `colorful` is only threaded
    through (the translator's `valueAppend` is the colour-off `appendTextValue`). -/
theorem appendTextAttr_eq (fuel : Nat) (P : Std) (buf pfx : Bytes) (a : Attr) (colorful : Bool)
    (h : depth a ≤ fuel) :
    Glb.Tr.Logger.appendTextAttr fuel P buf a pfx colorful
      = .ok (Glb.TextHandler.appendTextAttr P buf pfx a) := by
  induction fuel generalizing buf pfx a with
  | zero => have := depth_pos a; omega
  | succ n ih =>
    unfold Glb.Tr.Logger.appendTextAttr
    cases a with
    | leaf key v =>
      simp only [LibTextAttr.isGroup, LibTextAttr.keyOf, LibTextAttr.valueAppend,
        Glb.Tie.TrText.appendTextString_eq, Glb.TextHandler.appendTextAttr, len_eq, toStr]
      by_cases hp : pfx.length > 0
      · simp [hp, bind, Except.bind, pure, Except.pure]
      · simp [hp, bind, Except.bind, pure, Except.pure]
    | group key as =>
      have hd : depthList as ≤ n := by simp only [depth] at h; omega
      simp only [LibTextAttr.isGroup, LibTextAttr.keyOf, LibTextAttr.groupOf, BEq.rfl, if_true]
      rw [loop_eq (σ := Int × Bytes × Bytes) (ρ := Bytes × Bytes)
        (Inv := fun st => 0 ≤ st.1 ∧ st.1 ≤ (as.length : Int) ∧ pfx.length ≤ st.2.1.length)
        (measure := fun st => ((as.length : Int) - st.1).toNat)
        (model := fun st => .ok (.inl ((as.length : Int),
            (appendTextGroup P st.2.2 st.2.1 pfx.length key (as.drop st.1.toNat)).2,
            (appendTextGroup P st.2.2 st.2.1 pfx.length key (as.drop st.1.toNat)).1)))]
      · simp only [bind, Except.bind, pure, Except.pure, Glb.TextHandler.appendTextAttr,
          Int.toNat_zero, List.drop_zero]
      · intro ⟨i, p, b⟩ ⟨hi0, hil, hpl⟩
        dsimp only at hi0 hil hpl
        obtain ⟨i, rfl⟩ : ∃ k : Nat, i = k := ⟨i.toNat, by omega⟩
        simp only [StepOK, pure, Except.pure, Int.toNat_natCast, len_eq]
        by_cases hn : i < as.length
        · obtain ⟨aa, rest, hdr⟩ : ∃ c rest, as.drop i = c :: rest := by
            cases h : as.drop i with
            | nil => have := length_of_drop_nil as i h; omega
            | cons c rest => exact ⟨c, rest, rfl⟩
          have hc := idx_drop as i aa rest hdr
          have hn' : ((i : Int) < (as.length : Int)) := by omega
          have haa : depth aa ≤ n := Nat.le_trans (depth_mem as aa (drop_mem as i aa rest hdr)) hd
          have hi1 : ((i : Int) + 1).toNat = i + 1 := by omega
          have hr1 : as.drop (i + 1) = rest := drop_succ_of_drop as i aa rest hdr
          simp only [hn', decide_true, hc, bind, Except.bind, sliceTo_take p pfx.length hpl, hdr,
            appendTextGroup]
          by_cases hk : key.length > 0 <;> by_cases ho : pfx.length > 0
          all_goals
            simp only [hk, ho, ih _ _ aa haa, decide_true, decide_false, Bool.and_true, Bool.and_false,
              Bool.true_and, Bool.false_and, if_true, if_false, Bool.false_eq_true, hi1, hr1,
              Int.natCast_pos, gt_iff_lt]
            refine ⟨⟨by omega, by omega, Nat.le_trans ?_ (attr_len P aa _ _)⟩, by omega, trivial⟩
            simp only [List.length_append, List.length_take]
            omega
        · have hn' : ¬ ((i : Int) < (as.length : Int)) := by omega
          have : as.drop i = [] := List.drop_of_length_le (by omega)
          have hi : (i : Int) = (as.length : Int) := by omega
          simp [this, appendTextGroup, hi]
      · simp
      · simp only [len_eq]; omega

/-- the least sufficient fuel: the nesting depth of the tree itself -/
theorem appendTextAttr_eq_depth (P : Std) (buf pfx : Bytes) (a : Attr) (colorful : Bool) :
    Glb.Tr.Logger.appendTextAttr (depth a) P buf a pfx colorful
      = .ok (Glb.TextHandler.appendTextAttr P buf pfx a) :=
  appendTextAttr_eq (depth a) P buf pfx a colorful (Nat.le_refl _)

/-- the translated call never shortens the prefix buffer (what makes Go's `(*prefix)[:ori]` safe) -/
theorem appendTextAttr_prefix_len (fuel : Nat) (P : Std) (buf pfx : Bytes) (a : Attr) (colorful : Bool)
    (h : depth a ≤ fuel) :
    ∃ r, Glb.Tr.Logger.appendTextAttr fuel P buf a pfx colorful = .ok r ∧ pfx.length ≤ r.2.length :=
  ⟨_, appendTextAttr_eq fuel P buf pfx a colorful h, attr_len P a buf pfx⟩

end Glb.Tie.TrTextAttr
