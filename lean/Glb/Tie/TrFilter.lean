/-
  Tie of the TRANSLATED IPv4Filter methods (Glb/Generated/TrFilter.lean, rewritten from
  /repo/util/netutil/filter.go on every run) to the hand model Glb/Model/Filter.lean that the C11
  theorems are about.  The code keeps 32 separate maps (`ipMaps[ones-1][key]`), the model one
  association list of `(ones, key)` pairs in insertion order, so the tie is a SIMULATION relation
  `CRel c s` between the Go receiver `c : C` (five fields) and the model state `s`, not an equality.

    init_rel                  : the zero-value Go struct is related to `Filter.init`
    Contains_sim              : CRel c s → Tr.Contains c ip = .ok (Filter.contains s ip), EVERY byte string ip
    Remove_sim / Add_sim      : CRel c s, len ip = 4, 1 ≤ n ≤ 32 → the call returns `.ok (c', nil error)`
                                with CRel c' (removeCore s … / addCore 256 s …)   (never panics; the
                                list→maps migration of `Add` is related to the model's `migrate`)
    *_invalid / *_zero        : the two early exits (any receiver, no CRel needed)
    step_sim, run_sim         : any sequence of byte-level operations from the initial state
    C11_translated            : afterwards Tr.Contains = Filter.contains (model run) for every ip
    C11_translated_spec/_not4 : … composed with Props/C11: Tr.Contains answers membership in the
                                prefix-set specification `specRun` of the accepted operations.

  Loops: `Contains` uses `loop_eq` (the result is a function of the state); the loops of `Remove`
  and of the migration in `Add` use a Hoare rule (`loop_inv_P`, from `loop_inv`) with relational
  invariants `RemInv`, `ClrInv`, `MigInv`.  Lock calls are outside the translation (Props/C12b).
-/
import Glb.Go.Lemmas
import Glb.Go.LemmasJsonString
import Glb.Generated.TrFilter
import Glb.Model.Filter
import Glb.Proofs.Filter
import Glb.Props.C11
import Glb.Tie.Filter

namespace Glb.Tie.TrFilter
open Glb.Go Glb.Filter

/-- the five receiver fields of the Go struct, as the translated methods see them -/
structure C where
  matchAll : Bool
  mode : BitVec 32
  index : Int
  ipList : List (List (BitVec 32))
  ipMaps : List (List (BitVec 32 × Bool))

/-- how a slot `[maskedAddr, ones]` of `ipList` is read by the model -/
def entry (e : List (BitVec 32)) : Addr × Nat := (e.getD 0 0, (e.getD 1 0).toNat)

/-- the simulation relation between the Go state and the model state -/
structure CRel (c : C) (s : St) : Prop where
  matchAll : c.matchAll = s.matchAll
  mode : (c.mode = 0 ∧ s.mapsMode = false) ∨ (c.mode = 1 ∧ s.mapsMode = true)
  listLen : c.ipList.length = 256
  entryLen : ∀ e ∈ c.ipList, e.length = 2
  idx0 : 0 ≤ c.index
  idx1 : c.index ≤ 256
  mapsLen : c.ipMaps.length = 32
  list : s.list = (c.ipList.take c.index.toNat).map entry
  maps : s.mapsMode = true →
    ∀ n k, n < 32 → (mapHas (c.ipMaps.getD n []) k = true ↔ (n + 1, k) ∈ s.maps)
  wf : WF s

def cinit : C := ⟨false, 0, 0, List.replicate 256 [0, 0], List.replicate 32 []⟩

theorem init_rel : CRel cinit init := by
  refine ⟨rfl, Or.inl ⟨rfl, rfl⟩, List.length_replicate .., ?_, Int.le_refl _, by decide,
    List.length_replicate .., ?_, ?_, wf_init⟩
  · intro e he
    rw [List.eq_of_mem_replicate he]; rfl
  · show ([] : List (Addr × Nat)) = (List.take 0 _).map entry
    rfl
  · intro h; cases h

/-! ### library functions and tables -/

theorem to4_eq (ip : Bytes) : Glb.Go.Lib.to4 ip = Glb.Filter.to4 ip := rfl

theorem to4_length (ip x : Bytes) (h : Glb.Filter.to4 ip = some x) : x.length = 4 := by
  unfold Glb.Filter.to4 at h
  split at h
  · simp at h; subst h; assumption
  · split at h
    · rename_i h2; simp at h; subst h; simp; omega
    · simp at h

theorem be32_eq (ip : Bytes) (h : ip.length = 4) :
    Glb.Go.Lib.be32 ip = .ok (Glb.Filter.be32 ip) := by
  match ip, h with
  | [a, b, c, d], _ => rfl

theorem idxI_mask (i : Nat) (h : i < 32) :
    idxI Generated.ipv4Masks (i : Int) = .ok (maskOf (i + 1)) := by
  have hl := Glb.Tie.Filter.masks_length
  rw [idxI_nat, idx?_ok _ _ (by omega)]
  simp [maskOf, List.getD, List.getElem?_eq_getElem (show i < Generated.ipv4Masks.length by omega)]

theorem idx_mask_bv (b : BitVec 32) (h1 : 0 < b.toNat) (h2 : b.toNat ≤ 32) :
    idx Generated.ipv4Masks (b - 1) = .ok (maskOf b.toNat) := by
  have e : (b - 1).toNat = b.toNat - 1 := by
    rw [BitVec.toNat_sub]; simp; omega
  show idxI Generated.ipv4Masks (((b - 1).toNat : Nat) : Int) = _
  rw [e, idxI_mask _ (by omega)]
  congr 2; omega

theorem idxI_mask_int (n : Nat) (h1 : 1 ≤ n) (h2 : n ≤ 32) :
    idxI Generated.ipv4Masks ((n : Int) - 1) = .ok (maskOf n) := by
  have : ((n : Int) - 1) = ((n - 1 : Nat) : Int) := by omega
  rw [this, idxI_mask _ (by omega)]
  congr 2; omega

/-! ### Go maps -/

theorem mapHas_mapPut {κ} [DecidableEq κ] (m : List (κ × Bool)) (k k' : κ) (v : Bool) :
    mapHas (mapPut m k v) k' = if k = k' then v else mapHas m k' := by
  induction m with
  | nil => simp [mapPut, mapHas]
  | cons e r ih =>
    obtain ⟨a, b⟩ := e
    by_cases h : a = k
    · subst h; by_cases h2 : a = k' <;> simp [mapPut, mapHas, h2]
    · simp only [mapPut, h, if_false, mapHas, ih]
      by_cases h2 : a = k'
      · subst h2; simp [Ne.symm h]
      · simp [h2]

theorem mapHas_mapDel {κ} [DecidableEq κ] (m : List (κ × Bool)) (k k' : κ) :
    mapHas (mapDel m k) k' = if k = k' then false else mapHas m k' := by
  induction m with
  | nil => simp [mapDel, mapHas]
  | cons e r ih =>
    obtain ⟨a, b⟩ := e
    unfold mapDel at ih ⊢
    by_cases h : a = k
    · subst h
      simp only [List.filter_cons, decide_true, Bool.not_true, Bool.false_eq_true, if_false, ih, mapHas]
      by_cases h2 : a = k' <;> simp [h2]
    · simp only [List.filter_cons, h, decide_false, Bool.not_false, if_true, mapHas, ih]
      by_cases h2 : a = k'
      · subst h2; simp [Ne.symm h]
      · simp [h2]

/-! ### Contains -/

theorem Contains_sim (c : C) (s : St) (h : CRel c s) (ip : Bytes) :
    Glb.Tr.Filter.Contains c.matchAll c.mode c.index c.ipList c.ipMaps ip
      = .ok (Glb.Filter.contains s ip) := by
  unfold Glb.Tr.Filter.Contains Glb.Filter.contains
  dsimp only
  rw [← h.matchAll, to4_eq]
  by_cases hm : c.matchAll = true
  · simp [hm, pure, Except.pure]
  · simp only [hm, Bool.false_eq_true, if_false]
    cases h4 : Glb.Filter.to4 ip with
    | none => simp [pure, Except.pure]
    | some x =>
      have hx := to4_length ip x h4
      simp only [be32_eq x hx, bind, Except.bind, pure, Except.pure]
      generalize Glb.Filter.be32 x = a
      rcases h.mode with ⟨hmode, hmm⟩ | ⟨hmode, hmm⟩
      · simp only [hmode, beq_self_eq_true, if_true]
        rw [loop_eq (σ := Int) (ρ := Bool)
          (Inv := fun st => 0 ≤ st ∧ st ≤ c.index)
          (measure := fun st => (c.index - st).toNat)
          (model := fun st =>
            if (s.list.drop st.toNat).any (fun e => decide (e.2 > 0) && (a &&& maskOf e.2 == e.1))
            then .ok (.inr true) else .ok (.inl c.index))]
        · simp only [Int.toNat_zero, List.drop_zero, scan, hmm]
          cases hany : (s.list.any fun e => decide (e.2 > 0) && (a &&& maskOf e.2 == e.1)) <;> simp
        · intro i ⟨h0, h1⟩
          obtain ⟨i, rfl⟩ : ∃ n : Nat, i = n := ⟨i.toNat, by omega⟩
          obtain ⟨N, hN⟩ : ∃ n : Nat, c.index = n := ⟨c.index.toNat, by have := h.idx0; omega⟩
          have hN256 : N ≤ 256 := by have := h.idx1; omega
          simp only [StepOK, Int.toNat_natCast]
          by_cases hlt : (i : Int) < c.index
          · simp only [hlt, decide_true]
            have hi : i < c.ipList.length := by have := h.listLen; omega
            have hel := h.entryLen _ (List.getElem_mem hi)
            obtain ⟨p, q, hpq⟩ : ∃ p q, c.ipList[i] = [p, q] := by
              match c.ipList[i], hel with
              | [p, q], _ => exact ⟨p, q, rfl⟩
            have hdrop : s.list.drop i = (p, q.toNat) :: s.list.drop (i + 1) := by
              have hlen : i < s.list.length := by rw [h.list]; simp; omega
              rw [List.drop_eq_getElem_cons hlen]
              congr 1
              simp [h.list, hpq, entry]
            have hq : q.toNat ≤ 32 := by
              have := h.wf.list (p, q.toNat) (by
                have : (p, q.toNat) ∈ s.list.drop i := by rw [hdrop]; simp
                exact List.mem_of_mem_drop this)
              exact this
            have hi1 : ((i : Int) + 1).toNat = i + 1 := by omega
            have hidx1 : idx [p, q] 1 = .ok q := rfl
            have hidx0 : idx [p, q] 0 = .ok p := rfl
            simp only [hdrop, idx_int, idxI_ok _ _ hi, hpq, hidx0, hidx1, List.any_cons]
            have hq0 : (q > 0) ↔ q.toNat > 0 := by
              show 0 < q ↔ _
              rw [BitVec.lt_def]; simp
            by_cases hqp : q.toNat > 0
            · simp only [hq0, hqp, decide_true, if_true, idx_mask_bv q hqp hq, Bool.true_and]
              by_cases hmatch : (a &&& maskOf q.toNat == p) = true
              · simp [band, hmatch]
              · simp only [band, hmatch, Bool.false_eq_true, if_false, Bool.false_or, hi1]
                exact ⟨⟨by omega, by omega⟩, by omega, trivial⟩
            · simp only [hq0, hqp, decide_false, Bool.false_eq_true, if_false, Bool.false_and,
                Bool.false_or, hi1]
              exact ⟨⟨by omega, by omega⟩, by omega, trivial⟩
          · simp only [hlt, decide_false]
            have : s.list.drop i = [] := by
              rw [h.list]; simp; omega
            simp [this]
            omega
        · exact ⟨Int.le_refl _, h.idx0⟩
        · have := h.idx0; omega
      · have hne : ((1 : BitVec 32) == 0) = false := by decide
        simp only [hmode, hne, Bool.false_eq_true, if_false]
        rw [loop_eq (σ := Int) (ρ := Bool)
          (Inv := fun st => 0 ≤ st ∧ st ≤ 32)
          (measure := fun st => (32 - st).toNat)
          (model := fun st =>
            if (List.range' st.toNat (32 - st.toNat)).any
              (fun i => s.maps.contains (i + 1, a &&& maskOf (i + 1)))
            then .ok (.inr true) else .ok (.inl 32))]
        · simp only [Int.toNat_zero, scan, hmm, List.range_eq_range']
          simp only [Nat.sub_zero, Bool.not_true, Bool.false_eq_true, if_false]
          by_cases hany : ((List.range' 0 32).any fun i => s.maps.contains (i + 1, a &&& maskOf (i + 1))) = true
          · simp only [hany, if_true]
          · simp only [hany]; simp
        · intro i ⟨h0, h1⟩
          obtain ⟨i, rfl⟩ : ∃ n : Nat, i = n := ⟨i.toNat, by omega⟩
          simp only [StepOK, Int.toNat_natCast]
          by_cases hlt : (i : Int) < 32
          · have hi : i < c.ipMaps.length := by have := h.mapsLen; omega
            have hi1 : ((i : Int) + 1).toNat = i + 1 := by omega
            have hr : List.range' i (32 - i) = i :: List.range' (i + 1) (32 - (i + 1)) := by
              have : 32 - i = (32 - (i + 1)) + 1 := by omega
              rw [this, List.range'_succ]
            simp only [hlt, decide_true, idx_int, idxI_ok _ _ hi, idxI_mask i (by omega), hr,
              List.any_cons, band]
            have hmaps := h.maps hmm i (a &&& maskOf (i + 1)) (by omega)
            have hgd : c.ipMaps.getD i [] = c.ipMaps[i] := by simp [List.getD, hi]
            rw [hgd] at hmaps
            by_cases hh : mapHas c.ipMaps[i] (a &&& maskOf (i + 1)) = true
            · have : s.maps.contains (i + 1, a &&& maskOf (i + 1)) = true := by
                simp [hmaps.1 hh]
              simp only [hh, this, if_true, Bool.true_or]
            · have : s.maps.contains (i + 1, a &&& maskOf (i + 1)) = false := by
                have := mt hmaps.2 hh
                simp [this]
              simp only [hh, this, Bool.false_eq_true, if_false, Bool.false_or]
              exact ⟨⟨by omega, by omega⟩, by omega, by rw [hi1]⟩
          · have : 32 - i = 0 := by omega
            simp [hlt, this]
            omega
        · exact ⟨Int.le_refl _, by decide⟩
        · decide

/-! ### a Hoare rule for loops in continuation form, for an arbitrary post-condition -/

theorem loop_inv_P {σ ρ β} {cond : σ → M Bool} {body : σ → M (Ctl σ ρ)} {post : σ → M σ}
    {st0 : σ} {fuel : Nat} {k : Sum σ ρ → M β}
    (P : M β → Prop) (Inv : σ → Prop) (measure : σ → Nat)
    (hstep : ∀ st, Inv st → StepInv cond body post Inv measure st)
    (hinv : Inv st0) (hm : measure st0 < fuel)
    (hk : ∀ st', Inv st' → cond st' = .ok false → P (k (.inl st'))) :
    P (loop st0 fuel cond body post >>= k) := by
  obtain ⟨st', h1, h2, h3⟩ := loop_inv Inv measure hstep fuel st0 hinv hm
  rw [h1]
  exact hk st' h2 h3

theorem ok_bind {α β} (a : α) (f : α → M β) : (Except.ok a >>= f) = f a := rfl

/-- the result tuple of `Add`/`Remove` -/
def C.tuple (c : C) (err : Bool) :
    Bool × BitVec 32 × Int × List (List (BitVec 32)) × List (List (BitVec 32 × Bool)) × Bool :=
  (c.matchAll, c.mode, c.index, c.ipList, c.ipMaps, err)

/-! ### Remove -/

theorem tmd_get {α} (l : List α) (g : α → α) (n : Nat) (hn : n < l.length) :
    ((l.take n).map g ++ l.drop n)[n]? = some l[n] := by
  rw [List.getElem?_append_right (by simp; omega)]
  simp [Nat.min_eq_left (Nat.le_of_lt hn), hn]

theorem tmd_succ {α} (l : List α) (g : α → α) (n : Nat) (hn : n < l.length) :
    (l.take (n + 1)).map g ++ l.drop (n + 1) = ((l.take n).map g ++ l.drop n).set n (g l[n]) := by
  have hlen : ((l.take n).map g).length = n := by simp; omega
  rw [List.set_append_right _ _ (by omega), hlen, Nat.sub_self, List.drop_eq_getElem_cons hn]
  rw [List.take_add_one, List.getElem?_eq_getElem hn]
  simp only [Option.toList, List.map_append, List.map_cons, List.map_nil, List.set_cons_zero,
    List.append_assoc, List.cons_append, List.nil_append]

theorem set_of_getElemOpt {α} (X : List α) (i : Nat) (v : α) (h : X[i]? = some v) : X.set i v = X := by
  obtain ⟨hlt, rfl⟩ := List.getElem?_eq_some_iff.1 h
  exact List.set_getElem_self _

theorem toBV32_beq (n : Nat) (hn : n ≤ 32) (q : BitVec 32) :
    (ToBV32.toBV32 (n : Int) == q) = decide (n = q.toNat) := by
  show (BitVec.ofInt 32 (n : Int) == q) = _
  rw [BitVec.ofInt_natCast]
  by_cases h : n = q.toNat
  · subst h; simp
  · simp only [h, decide_false, beq_eq_false_iff_ne, ne_eq]
    intro e; apply h; rw [← e]; simp; omega

theorem set_ok {α} (L : List α) (i : Nat) (v : α) (h : i < L.length) :
    Go.set L (i : Int) v = .ok (L.set i v) := by
  simp [Go.set, h]

/-- what `Remove` does to one list slot (the model's view) -/
def rmf (n : Nat) (key : Addr) (e : Addr × Nat) : Addr × Nat :=
  if n = e.2 ∧ key = e.1 then (0, 0) else e

/-- invariant of the list-mode loop of `Remove`: slots `< i` are already treated -/
def RemInv (l : List (Addr × Nat)) (N : Nat) (g : Addr × Nat → Addr × Nat)
    (st : List (List (BitVec 32)) × Int) : Prop :=
  ∃ i : Nat, st.2 = i ∧ i ≤ N ∧ st.1.length = 256 ∧ (∀ e ∈ st.1, e.length = 2) ∧
    (st.1.take N).map entry = (l.take i).map g ++ l.drop i

theorem idx_slot {α} (M : List α) (d : α) (n : Nat) (h1 : 1 ≤ n) (h2 : n ≤ M.length) :
    idx M ((n : Int) - 1) = .ok (M.getD (n - 1) d) := by
  have : ((n : Int) - 1) = ((n - 1 : Nat) : Int) := by omega
  rw [idx_int, this, idxI_ok _ _ (by omega)]
  simp [List.getD, show n - 1 < M.length by omega]

theorem setG_slot {α} (M : List α) (v : α) (n : Nat) (h1 : 1 ≤ n) (h2 : n ≤ M.length) :
    setG M ((n : Int) - 1) v = .ok (M.set (n - 1) v) := by
  have : ((n : Int) - 1) = ((n - 1 : Nat) : Int) := by omega
  show Go.set M ((n : Int) - 1) v = _
  rw [this]
  simp [Go.set]; omega

theorem getD_set {α} (M : List α) (d v : α) (j m : Nat) (hj : j < M.length) :
    (M.set j v).getD m d = if m = j then v else M.getD m d := by
  simp only [List.getD, List.getElem?_set]
  by_cases h : j = m
  · subst h; simp [hj]
  · simp [h, Ne.symm h]

theorem Remove_sim (c : C) (s : St) (h : CRel c s) (ipb : Bytes) (hl : ipb.length = 4)
    (n : Nat) (h1 : 1 ≤ n) (h2 : n ≤ 32) :
    ∃ c', Glb.Tr.Filter.Remove c.matchAll c.mode c.index c.ipList c.ipMaps ipb n 32
        = .ok (c'.tuple false) ∧ CRel c' (removeCore s (Glb.Filter.be32 ipb) n) := by
  unfold Glb.Tr.Filter.Remove
  dsimp only
  have hc1 : ((32 : Int) != 32 || decide ((n : Int) > 32) || len ipb != 4) = false := by
    have : ¬ ((n : Int) > 32) := by omega
    simp [this, hl]
  have hc2 : ((n : Int) == 0) = false := by
    rw [beq_eq_false_iff_ne]; omega
  simp only [hc1, hc2, Bool.false_eq_true, if_false, be32_eq ipb hl, ok_bind]
  generalize Glb.Filter.be32 ipb = a
  have hmask : idx Generated.ipv4Masks ((n : Int) - 1) = .ok (maskOf n) := idxI_mask_int n h1 h2
  rcases h.mode with ⟨hmode, hmm⟩ | ⟨hmode, hmm⟩
  · simp only [hmode, beq_self_eq_true, if_true]
    obtain ⟨N, hN⟩ : ∃ N : Nat, c.index = N := ⟨c.index.toNat, by have := h.idx0; omega⟩
    have hN256 : N ≤ 256 := by have := h.idx1; omega
    have hlist : s.list = (c.ipList.take N).map entry := by rw [h.list, hN]; rfl
    have hslen : s.list.length = N := by rw [hlist]; simp; have := h.listLen; omega
    have hr : removeCore s a n = { s with list := s.list.map (rmf n (a &&& maskOf n)) } := by
      simp only [removeCore, hmm]; rfl
    refine loop_inv_P (fun r => ∃ c', r = .ok (c'.tuple false) ∧ CRel c' (removeCore s a n))
      (RemInv s.list N (rmf n (a &&& maskOf n)))
      (fun st => (c.index - st.2).toNat) ?_ ?_ ?_ ?_
    · rintro ⟨L, i'⟩ ⟨i, hi, hiN, hLlen, hLent, hLeq⟩
      dsimp only at hi hLlen hLent hLeq
      subst hi
      simp only [StepInv, pure, Except.pure, hN]
      by_cases hlt : i < N
      · have hlt' : (i : Int) < (N : Int) := by omega
        have hiL : i < L.length := by omega
        obtain ⟨p, q, hpq⟩ : ∃ p q, L[i] = [p, q] := by
          have hel := hLent _ (List.getElem_mem hiL)
          match L[i], hel with
          | [p, q], _ => exact ⟨p, q, rfl⟩
        have hidx1 : idx [p, q] 1 = .ok q := rfl
        have hidx0 : idx [p, q] 0 = .ok p := rfl
        have hsi : s.list[i]'(by omega) = (p, q.toNat) := by
          have e1 := congrArg (fun l => l[i]?) hLeq
          simp only [tmd_get s.list _ i (by omega)] at e1
          rw [List.getElem?_map, List.getElem?_take] at e1
          simp [hlt, hiL, hpq, entry] at e1
          exact e1.symm
        simp only [hlt', decide_true, idx_int, idxI_ok _ _ hiL, hpq, hidx0, hidx1, bind, Except.bind,
          hmask, band, toBV32_beq n h2 q]
        have hX := tmd_get s.list (rmf n (a &&& maskOf n)) i (by omega)
        have hS := tmd_succ s.list (rmf n (a &&& maskOf n)) i (by omega)
        rw [← hLeq] at hX hS
        by_cases hm : n = q.toNat ∧ a &&& maskOf n = p
        · have hrm : rmf n (a &&& maskOf n) s.list[i] = (0, 0) := by
            rw [hsi]; simp only [rmf]; rw [if_pos hm]
          have hcode : (if decide (n = q.toNat) = true then
              (Except.ok (a &&& maskOf n == p) : M Bool) else Except.ok false) = .ok true := by
            rw [if_pos (by simpa using hm.1)]; simp [hm.2]
          simp only [hcode, if_true, set_ok L i _ hiL]
          refine ⟨⟨i + 1, by simp, by omega, by simp [hLlen], ?_, ?_⟩, by simp; omega⟩
          · intro e he
            rcases List.mem_or_eq_of_mem_set he with he | he
            · exact hLent e he
            · subst he; rfl
          · show List.map entry (List.take N (L.set i [0, 0])) = _
            rw [hS, hrm, List.take_set, List.map_set]; rfl
        · have hrm : rmf n (a &&& maskOf n) s.list[i] = s.list[i] := by
            rw [hsi]; simp only [rmf]; rw [if_neg hm]
          have hcode : (if decide (n = q.toNat) = true then
              (Except.ok (a &&& maskOf n == p) : M Bool) else Except.ok false) = .ok false := by
            by_cases hn : n = q.toNat
            · have : ¬ (a &&& maskOf n = p) := fun e => hm ⟨hn, e⟩
              rw [if_pos (by simpa using hn)]; simp [this]
            · rw [if_neg (by simpa using hn)]
          simp only [hcode, Bool.false_eq_true, if_false]
          refine ⟨⟨i + 1, by simp, by omega, hLlen, hLent, ?_⟩, by simp; omega⟩
          show List.map entry (List.take N L) = _
          rw [hS, hrm, set_of_getElemOpt _ _ _ hX]
      · have hlt' : ¬ (i : Int) < (N : Int) := by omega
        simp [hlt']
    · exact ⟨0, rfl, by omega, h.listLen, h.entryLen, by simp [hlist]⟩
    · show (c.index - 0).toNat < (c.index - 0 + 2).toNat
      omega
    · rintro ⟨L, i'⟩ ⟨i, hi, hiN, hLlen, hLent, hLeq⟩ hcond
      dsimp only at hi hLlen hLent hLeq
      subst hi
      simp only [pure, Except.pure, hN, Except.ok.injEq, decide_eq_false_iff_not] at hcond
      have hiN' : i = N := by omega
      subst hiN'
      refine ⟨⟨c.matchAll, 0, c.index, L, c.ipMaps⟩, rfl, ?_⟩
      rw [hr]
      refine ⟨h.matchAll, Or.inl ⟨rfl, hmm⟩, hLlen, hLent, h.idx0, h.idx1, h.mapsLen, ?_, ?_, ?_⟩
      · show _ = (L.take c.index.toNat).map entry
        rw [hN, Int.toNat_natCast, hLeq, ← hslen]; simp
      · intro hmt; simp [hmm] at hmt
      · rw [← hr]; exact wf_removeCore s a n h.wf
  · have hne : ((1 : BitVec 32) == 0) = false := by decide
    simp only [hmode, hne, Bool.false_eq_true, if_false, hmask, ok_bind, pure_bind]
    have hML := h.mapsLen
    rw [idx_slot c.ipMaps [] n h1 (by omega), ok_bind, setG_slot _ _ n h1 (by omega), ok_bind]
    refine ⟨⟨c.matchAll, 1, c.index, c.ipList, _⟩, rfl, ?_⟩
    have hr : removeCore s a n =
        { s with maps := s.maps.filter fun e => !(e == (n, a &&& maskOf n)) } := by
      simp [removeCore, hmm]
    rw [hr]
    refine ⟨h.matchAll, Or.inr ⟨rfl, hmm⟩, h.listLen, h.entryLen, h.idx0, h.idx1, by simp [hML],
      h.list, ?_, ?_⟩
    · intro _ m k hm32
      have := h.maps hmm m k hm32
      simp only [getD_set _ _ _ _ _ (show n - 1 < c.ipMaps.length by omega), band]
      by_cases hmn : m = n - 1
      · subst hmn
        have e : n - 1 + 1 = n := by omega
        rw [e] at this ⊢
        simp only [if_true, mapHas_mapDel, List.mem_filter]
        by_cases hk : a &&& maskOf n = k
        · simp [hk]
        · simp [hk, Ne.symm hk]; exact this
      · simp only [hmn, if_false, this, List.mem_filter]
        have : ¬ (m + 1 = n) := by omega
        simp [this]
    · rw [← hr]; exact wf_removeCore s a n h.wf

/-- invalid arguments: `ErrInvalidIPv4CIDR`, nothing changes (no `CRel` needed) -/
theorem Remove_invalid (c : C) (ipb : Bytes) (ones0 bits0 : Int)
    (hbad : bits0 ≠ 32 ∨ ones0 > 32 ∨ ipb.length ≠ 4) :
    Glb.Tr.Filter.Remove c.matchAll c.mode c.index c.ipList c.ipMaps ipb ones0 bits0
      = .ok (c.tuple true) := by
  unfold Glb.Tr.Filter.Remove
  dsimp only
  have hc1 : (bits0 != 32 || decide (ones0 > 32) || len ipb != 4) = true := by
    simp only [len_eq, Bool.or_eq_true, bne_iff_ne, ne_eq, decide_eq_true_eq]
    rcases hbad with hb | hb | hb
    · exact Or.inl (Or.inl hb)
    · exact Or.inl (Or.inr hb)
    · exact Or.inr (by omega)
  simp only [hc1, if_true]
  rfl

/-- `0.0.0.0/0`: only the `matchAll` flag is cleared -/
theorem Remove_zero (c : C) (ipb : Bytes) (hl : ipb.length = 4) :
    Glb.Tr.Filter.Remove c.matchAll c.mode c.index c.ipList c.ipMaps ipb 0 32
      = .ok (({ c with matchAll := false } : C).tuple false) := by
  unfold Glb.Tr.Filter.Remove
  dsimp only
  have hc1 : ((32 : Int) != 32 || decide ((0 : Int) > 32) || len ipb != 4) = false := by
    simp [hl]
  simp only [hc1, Bool.false_eq_true, if_false, beq_self_eq_true, if_true]
  rfl

/-! ### Add -/

/-- the 32 Go maps `M` hold exactly the pairs of the model's association list `mp` -/
def MapsRel (M : List (List (BitVec 32 × Bool))) (mp : List (Nat × Addr)) : Prop :=
  ∀ m k, m < 32 → (mapHas (M.getD m []) k = true ↔ (m + 1, k) ∈ mp)

theorem MapsRel_put (M : List (List (BitVec 32 × Bool))) (mp : List (Nat × Addr))
    (hM : M.length = 32) (h : MapsRel M mp) (n : Nat) (h1 : 1 ≤ n) (h2 : n ≤ 32) (key : Addr) :
    MapsRel (M.set (n - 1) (mapPut (M.getD (n - 1) []) key true)) (mapsInsert mp (n, key)) := by
  intro m k hm32
  have := h m k hm32
  simp only [getD_set _ _ _ _ _ (show n - 1 < M.length by omega), mem_mapsInsert]
  by_cases hmn : m = n - 1
  · subst hmn
    have e : n - 1 + 1 = n := by omega
    rw [e] at this ⊢
    simp only [if_true, mapHas_mapPut]
    by_cases hk : key = k
    · simp [hk]
    · simp only [hk, if_false, this, Prod.mk.injEq, true_and, Ne.symm hk, or_false]
  · simp only [hmn, if_false, this]
    have : ¬ (m + 1 = n) := by omega
    simp [this]

/-- predicate form of `MapsRel` (used while the maps are being rebuilt) -/
def MapsRelP (M : List (List (BitVec 32 × Bool))) (S : Nat → Addr → Prop) : Prop :=
  ∀ m k, m < 32 → (mapHas (M.getD m []) k = true ↔ S (m + 1) k)

theorem MapsRelP_put (M : List (List (BitVec 32 × Bool))) (S : Nat → Addr → Prop)
    (hM : M.length = 32) (h : MapsRelP M S) (j : Nat) (hj : j < 32) (key : Addr) :
    MapsRelP (M.set j (mapPut (M.getD j []) key true))
      (fun m k => S m k ∨ (m = j + 1 ∧ k = key)) := by
  intro m k hm32
  have := h m k hm32
  simp only [getD_set _ _ _ _ _ (show j < M.length by omega)]
  by_cases hmn : m = j
  · subst hmn
    simp only [if_true, mapHas_mapPut]
    by_cases hk : key = k
    · simp [hk]
    · simp only [hk, if_false, this, true_and, Ne.symm hk, or_false]
  · simp only [hmn, if_false, this]
    have : ¬ (m + 1 = j + 1) := by omega
    simp [hmn]

theorem MapsRelP_congr (M : List (List (BitVec 32 × Bool))) (S S' : Nat → Addr → Prop)
    (h : MapsRelP M S) (hc : ∀ m k, 1 ≤ m → (S m k ↔ S' m k)) : MapsRelP M S' := by
  intro m k hm32
  rw [h m k hm32]
  exact hc _ _ (by omega)

theorem idx_bv {α} (M : List α) (d : α) (b : BitVec 32) (h : b.toNat < M.length) :
    idx M b = .ok (M.getD b.toNat d) := by
  show idxI M ((b.toNat : Nat) : Int) = _
  rw [idxI_ok _ _ h]
  simp [List.getD, h]

theorem setG_bv {α} (M : List α) (v : α) (b : BitVec 32) (h : b.toNat < M.length) :
    setG M b v = .ok (M.set b.toNat v) := set_ok M b.toNat v h

/-- invariant of the first migration loop: the maps `< i` are empty -/
def ClrInv (st : List (List (BitVec 32 × Bool)) × Int) : Prop :=
  ∃ j : Nat, st.2 = j ∧ j ≤ 32 ∧ st.1.length = 32 ∧ ∀ m, m < j → st.1.getD m [] = []

/-- invariant of the second migration loop: the maps hold the live slots `< i` -/
def MigInv (l : List (Addr × Nat)) (N : Nat) (st : List (List (BitVec 32 × Bool)) × Int) : Prop :=
  ∃ j : Nat, st.2 = j ∧ j ≤ N ∧ st.1.length = 32 ∧
    MapsRelP st.1 (fun m k => (k, m) ∈ l.take j)

theorem Add_sim (c : C) (s : St) (h : CRel c s) (ipb : Bytes) (hl : ipb.length = 4)
    (n : Nat) (h1 : 1 ≤ n) (h2 : n ≤ 32) :
    ∃ c', Glb.Tr.Filter.Add c.matchAll c.mode c.index c.ipList c.ipMaps ipb n 32
        = .ok (c'.tuple false) ∧ CRel c' (addCore 256 s (Glb.Filter.be32 ipb) n) := by
  unfold Glb.Tr.Filter.Add
  dsimp only
  have hc1 : ((32 : Int) != 32 || decide ((n : Int) > 32) || len ipb != 4) = false := by
    have : ¬ ((n : Int) > 32) := by omega
    simp [this, hl]
  have hc2 : ((n : Int) == 0) = false := by
    rw [beq_eq_false_iff_ne]; omega
  simp only [hc1, hc2, Bool.false_eq_true, if_false, be32_eq ipb hl, ok_bind]
  generalize Glb.Filter.be32 ipb = a
  have hmask : idx Generated.ipv4Masks ((n : Int) - 1) = .ok (maskOf n) := idxI_mask_int n h1 h2
  rcases h.mode with ⟨hmode, hmm⟩ | ⟨hmode, hmm⟩
  · simp only [hmode, beq_self_eq_true, if_true]
    obtain ⟨N, hN⟩ : ∃ N : Nat, c.index = N := ⟨c.index.toNat, by have := h.idx0; omega⟩
    have hN256 : N ≤ 256 := by have := h.idx1; omega
    have hlist : s.list = (c.ipList.take N).map entry := by rw [h.list, hN]; rfl
    have hLlen := h.listLen
    have hslen : s.list.length = N := by rw [hlist]; simp; omega
    have hls : (Generated.listSize : Int) = 256 := rfl
    rw [hls, hN]
    by_cases hlt : N < 256
    · have hlt' : (N : Int) < 256 := by omega
      simp only [hlt', decide_true, if_true, hmask, ok_bind, pure_bind, band,
        set_ok c.ipList N _ (by omega)]
      refine ⟨⟨c.matchAll, 0, (N : Int) + 1, _, c.ipMaps⟩, rfl, ?_⟩
      have hr : addCore 256 s a n = { s with list := s.list ++ [(a &&& maskOf n, n)] } := by
        simp [addCore, hmm, hslen, hlt]
      rw [hr]
      refine ⟨h.matchAll, Or.inl ⟨rfl, hmm⟩, by simp [hLlen], ?_,
        (by show (0 : Int) ≤ (N : Int) + 1; omega), (by show (N : Int) + 1 ≤ 256; omega), h.mapsLen,
        ?_, ?_, ?_⟩
      · intro e he
        rcases List.mem_or_eq_of_mem_set he with he | he
        · exact h.entryLen e he
        · subst he; rfl
      · show s.list ++ _ = (List.take ((N : Int) + 1).toNat _).map entry
        have e1 : ((N : Int) + 1).toNat = N + 1 := by omega
        rw [e1, List.take_add_one, List.take_set_of_le (Nat.le_refl _)]
        simp [hlist, hLlen, hlt, entry, ToBV32.toBV32]
        omega
      · intro hmt; simp [hmm] at hmt
      · rw [← hr]; exact wf_addCore 256 s a n h1 h2 h.wf
    · have hlt' : ¬ (N : Int) < 256 := by omega
      have hN' : N = 256 := by omega
      simp only [hlt', decide_false, Bool.false_eq_true, if_false]
      have hr : addCore 256 s a n =
          ⟨s.matchAll, true, s.list, mapsInsert (migrate s.list) (n, a &&& maskOf n)⟩ := by
        simp [addCore, hmm, hslen, hlt]
      refine loop_inv_P (fun r => ∃ c', r = .ok (c'.tuple false) ∧ CRel c' (addCore 256 s a n))
        ClrInv (fun st => (32 - st.2).toNat) ?_ ?_ ?_ ?_
      · rintro ⟨M, i'⟩ ⟨j, hj, hj32, hMlen, hMe⟩
        dsimp only at hj hMlen hMe
        subst hj
        simp only [StepInv, pure, Except.pure, len_eq, hMlen]
        by_cases hjlt : j < 32
        · have hjlt' : (j : Int) < ((32 : Nat) : Int) := by omega
          simp only [hjlt', decide_true, set_ok M j _ (by omega), bind, Except.bind]
          refine ⟨⟨j + 1, by simp, by omega, by simp [hMlen], ?_⟩, by simp; omega⟩
          intro m hm
          show (M.set j []).getD m [] = []
          rw [getD_set _ _ _ _ _ (by omega)]
          by_cases hmj : m = j
          · simp [hmj]
          · simp only [hmj, if_false]; exact hMe m (by omega)
        · have hjlt' : ¬ (j : Int) < 32 := by omega
          simp [hjlt']
      · exact ⟨0, rfl, by omega, h.mapsLen, by intro m hm; omega⟩
      · show (32 - (0 : Int)).toNat < ((c.ipMaps.length : Int) - 0 + 2).toNat
        rw [h.mapsLen]; decide
      · rintro ⟨M, i'⟩ ⟨j, hj, hj32, hMlen, hMe⟩ hcond
        dsimp only at hj hMlen hMe
        subst hj
        simp only [pure, Except.pure, len_eq, hMlen, Except.ok.injEq, decide_eq_false_iff_not] at hcond
        have hj' : j = 32 := by omega
        subst hj'
        dsimp only
        clear hcond hj32
        refine loop_inv_P (fun r => ∃ c', r = .ok (c'.tuple false) ∧ CRel c' (addCore 256 s a n))
          (MigInv s.list N) (fun st => ((N : Int) - st.2).toNat) ?_ ?_ ?_ ?_
        · rintro ⟨M2, i'⟩ ⟨j, hj, hjN, hM2len, hrel⟩
          dsimp only at hj hM2len hrel
          subst hj
          simp only [StepInv, pure, Except.pure]
          by_cases hjlt : j < N
          · have hjlt' : (j : Int) < (N : Int) := by omega
            have hjL : j < c.ipList.length := by omega
            obtain ⟨p, q, hpq⟩ : ∃ p q, c.ipList[j] = [p, q] := by
              have hel := h.entryLen _ (List.getElem_mem hjL)
              match c.ipList[j], hel with
              | [p, q], _ => exact ⟨p, q, rfl⟩
            have hidx1 : idx [p, q] 1 = .ok q := rfl
            have hidx0 : idx [p, q] 0 = .ok p := rfl
            have hsj : s.list[j]'(by omega) = (p, q.toNat) := by
              simp [hlist, hpq, entry]
            have htake : s.list.take (j + 1) = s.list.take j ++ [(p, q.toNat)] := by
              rw [List.take_add_one, List.getElem?_eq_getElem (by omega), hsj]; rfl
            have hq : q.toNat ≤ 32 := by
              have := h.wf.list (p, q.toNat) (by rw [← hsj]; exact List.getElem_mem _)
              exact this
            have hq0 : (q > 0) ↔ q.toNat > 0 := by
              show 0 < q ↔ _
              rw [BitVec.lt_def]; simp
            simp only [hjlt', decide_true, idx_int, idxI_ok _ _ hjL, hpq, hidx0, hidx1, bind,
              Except.bind, hq0]
            by_cases hqp : q.toNat > 0
            · have e : (q - 1).toNat = q.toNat - 1 := by
                rw [BitVec.toNat_sub]; simp; omega
              simp only [hqp, decide_true, if_true, idx_bv M2 [] (q - 1) (by omega),
                setG_bv M2 _ (q - 1) (by omega), e]
              refine ⟨⟨j + 1, by simp, by omega, by simp [hM2len], ?_⟩, by simp; omega⟩
              refine MapsRelP_congr _ _ _ (MapsRelP_put M2 _ hM2len hrel (q.toNat - 1) (by omega) p) ?_
              intro m k hm
              rw [htake]
              simp only [List.mem_append, List.mem_singleton, Prod.mk.injEq]
              have : q.toNat - 1 + 1 = q.toNat := by omega
              rw [this]
              constructor
              · rintro (hh | ⟨hh1, hh2⟩)
                · exact Or.inl hh
                · exact Or.inr ⟨hh2, hh1⟩
              · rintro (hh | ⟨hh1, hh2⟩)
                · exact Or.inl hh
                · exact Or.inr ⟨hh2, hh1⟩
            · simp only [hqp, decide_false, Bool.false_eq_true, if_false]
              refine ⟨⟨j + 1, by simp, by omega, hM2len, ?_⟩, by simp; omega⟩
              refine MapsRelP_congr _ _ _ hrel ?_
              intro m k hm
              rw [htake]
              simp only [List.mem_append, List.mem_singleton, Prod.mk.injEq]
              constructor
              · exact Or.inl
              · rintro (hh | ⟨_, hh2⟩)
                · exact hh
                · omega
          · have hjlt' : ¬ (j : Int) < (N : Int) := by omega
            simp [hjlt']
        · refine ⟨0, rfl, by omega, hMlen, ?_⟩
          intro m k hm
          show mapHas (M.getD m []) k = true ↔ (k, m + 1) ∈ s.list.take 0
          rw [hMe m hm]
          simp [mapHas]
        · show ((N : Int) - 0).toNat < ((N : Int) - 0 + 2).toNat
          omega
        · rintro ⟨M2, i'⟩ ⟨j, hj, hjN, hM2len, hrel⟩ hcond
          dsimp only at hj hM2len hrel
          subst hj
          simp only [pure, Except.pure, Except.ok.injEq, decide_eq_false_iff_not] at hcond
          have hj' : j = N := by omega
          subst hj'
          rw [List.take_of_length_le (by omega)] at hrel
          dsimp only
          simp only [hmask, ok_bind, pure_bind, band]
          rw [idx_slot M2 [] n h1 (by omega), ok_bind, setG_slot _ _ n h1 (by omega), ok_bind, ← hN]
          refine ⟨⟨c.matchAll, 1, c.index, c.ipList, _⟩, rfl, ?_⟩
          refine ⟨?_, Or.inr ⟨rfl, ?_⟩, h.listLen, h.entryLen, h.idx0, h.idx1, by simp [hM2len],
            ?_, ?_, wf_addCore 256 s a n h1 h2 h.wf⟩
          · rw [hr]; exact h.matchAll
          · rw [hr]
          · rw [hr]; exact h.list
          · intro _
            rw [hr]
            show MapsRelP _ (fun m k => (m, k) ∈ mapsInsert (migrate s.list) (n, a &&& maskOf n))
            refine MapsRelP_congr _ _ _
              (MapsRelP_put M2 _ hM2len hrel (n - 1) (by omega) (a &&& maskOf n)) ?_
            intro m k hm
            have : n - 1 + 1 = n := by omega
            rw [this]
            simp only [mem_mapsInsert, mem_migrate, Prod.mk.injEq]
            constructor
            · rintro (hh | ⟨hh1, hh2⟩)
              · exact Or.inl ⟨hh, by omega⟩
              · exact Or.inr ⟨hh1, hh2⟩
            · rintro (⟨hh, _⟩ | ⟨hh1, hh2⟩)
              · exact Or.inl hh
              · exact Or.inr ⟨hh1, hh2⟩
  · have hne : ((1 : BitVec 32) == 0) = false := by decide
    simp only [hmode, hne, Bool.false_eq_true, if_false, hmask, ok_bind, pure_bind]
    have hML := h.mapsLen
    rw [idx_slot c.ipMaps [] n h1 (by omega), ok_bind, setG_slot _ _ n h1 (by omega), ok_bind]
    refine ⟨⟨c.matchAll, 1, c.index, c.ipList, _⟩, rfl, ?_⟩
    have hr : addCore 256 s a n = { s with maps := mapsInsert s.maps (n, a &&& maskOf n) } := by
      simp [addCore, hmm]
    refine ⟨?_, Or.inr ⟨rfl, ?_⟩, h.listLen, h.entryLen, h.idx0, h.idx1, by simp [hML],
      ?_, ?_, wf_addCore 256 s a n h1 h2 h.wf⟩
    · rw [hr]; exact h.matchAll
    · rw [hr]; exact hmm
    · rw [hr]; exact h.list
    · intro _
      rw [hr]
      exact MapsRel_put c.ipMaps s.maps hML (h.maps hmm) n h1 h2 (a &&& maskOf n)

/-- invalid arguments: `ErrInvalidIPv4CIDR`, nothing changes (no `CRel` needed) -/
theorem Add_invalid (c : C) (ipb : Bytes) (ones0 bits0 : Int)
    (hbad : bits0 ≠ 32 ∨ ones0 > 32 ∨ ipb.length ≠ 4) :
    Glb.Tr.Filter.Add c.matchAll c.mode c.index c.ipList c.ipMaps ipb ones0 bits0
      = .ok (c.tuple true) := by
  unfold Glb.Tr.Filter.Add
  dsimp only
  have hc1 : (bits0 != 32 || decide (ones0 > 32) || len ipb != 4) = true := by
    simp only [len_eq, Bool.or_eq_true, bne_iff_ne, ne_eq, decide_eq_true_eq]
    rcases hbad with hb | hb | hb
    · exact Or.inl (Or.inl hb)
    · exact Or.inl (Or.inr hb)
    · exact Or.inr (by omega)
  simp only [hc1, if_true]
  rfl

/-- `0.0.0.0/0`: only the `matchAll` flag is set -/
theorem Add_zero (c : C) (ipb : Bytes) (hl : ipb.length = 4) :
    Glb.Tr.Filter.Add c.matchAll c.mode c.index c.ipList c.ipMaps ipb 0 32
      = .ok (({ c with matchAll := true } : C).tuple false) := by
  unfold Glb.Tr.Filter.Add
  dsimp only
  have hc1 : ((32 : Int) != 32 || decide ((0 : Int) > 32) || len ipb != 4) = false := by
    simp [hl]
  simp only [hc1, Bool.false_eq_true, if_false, beq_self_eq_true, if_true]
  rfl

/-! ### composition: any sequence of byte-level operations -/

open Glb.C11 (Op)

/-- the receiver after a call, and whether `ErrInvalidIPv4CIDR` was returned -/
def ofTuple (t : Bool × BitVec 32 × Int × List (List (BitVec 32)) × List (List (BitVec 32 × Bool)) × Bool) :
    C × Bool :=
  (⟨t.1, t.2.1, t.2.2.1, t.2.2.2.1, t.2.2.2.2.1⟩, t.2.2.2.2.2)

theorem ofTuple_tuple (c : C) (b : Bool) : ofTuple (c.tuple b) = (c, b) := rfl

/-- one byte-level operation (`cidr.IP`, `cidr.Mask`) through the TRANSLATED methods;
    `ones, bits := cidr.Mask.Size()` is the model's `maskSize` -/
def trStep (c : C) : Op → M (C × Bool)
  | .add ip mask =>
    ofTuple <$> Glb.Tr.Filter.Add c.matchAll c.mode c.index c.ipList c.ipMaps ip
      ((maskSize mask).1 : Int) ((maskSize mask).2 : Int)
  | .remove ip mask =>
    ofTuple <$> Glb.Tr.Filter.Remove c.matchAll c.mode c.index c.ipList c.ipMaps ip
      ((maskSize mask).1 : Int) ((maskSize mask).2 : Int)

/-- run of a list of operations through the translated code -/
def trRunFrom (c : C) : List Op → M C
  | [] => .ok c
  | op :: ops => trStep c op >>= fun r => trRunFrom r.1 ops

def trRun (ops : List Op) : M C := trRunFrom cinit ops

/-- the model's run of the same operations -/
def modelRunFrom (s : St) (ops : List Op) : St := ops.foldl (fun s op => (Glb.C11.step 256 s op).1) s

def modelRun (ops : List Op) : St := modelRunFrom init ops

theorem CRel_matchAll (c : C) (s : St) (h : CRel c s) (b : Bool) :
    CRel { c with matchAll := b } { s with matchAll := b } :=
  ⟨rfl, h.mode, h.listLen, h.entryLen, h.idx0, h.idx1, h.mapsLen, h.list, h.maps,
    ⟨h.wf.list, h.wf.maps⟩⟩

/-- one operation: the translated method does not panic, reports an error exactly when the model
    rejects the arguments, and the new states are related -/
theorem step_sim (c : C) (s : St) (h : CRel c s) (op : Op) :
    ∃ c', trStep c op = .ok (c', !(Glb.C11.step 256 s op).2) ∧ CRel c' (Glb.C11.step 256 s op).1 := by
  cases op with
  | add ip mask =>
    simp only [trStep, Glb.C11.step, Glb.Filter.add, validate]
    generalize maskSize mask = ms
    obtain ⟨ones, bits⟩ := ms
    dsimp only
    by_cases hbad : bits ≠ 32 ∨ ones > 32 ∨ ip.length ≠ 4
    · rw [if_pos hbad, Add_invalid c ip _ _ (by omega)]
      exact ⟨c, rfl, h⟩
    · rw [if_neg hbad]
      have hb : bits = 32 := by omega
      have hl : ip.length = 4 := by omega
      subst hb
      by_cases h0 : ones = 0
      · subst h0
        rw [if_pos rfl]
        exact ⟨_, by rw [show ((0 : Nat) : Int) = 0 from rfl, show ((32 : Nat) : Int) = 32 from rfl,
          Add_zero c ip hl]; rfl, CRel_matchAll c s h true⟩
      · rw [if_neg h0]
        obtain ⟨c', hc', hrel⟩ := Add_sim c s h ip hl ones (by omega) (by omega)
        exact ⟨c', by rw [show ((32 : Nat) : Int) = 32 from rfl, hc']; rfl, hrel⟩
  | remove ip mask =>
    simp only [trStep, Glb.C11.step, Glb.Filter.remove, validate]
    generalize maskSize mask = ms
    obtain ⟨ones, bits⟩ := ms
    dsimp only
    by_cases hbad : bits ≠ 32 ∨ ones > 32 ∨ ip.length ≠ 4
    · rw [if_pos hbad, Remove_invalid c ip _ _ (by omega)]
      exact ⟨c, rfl, h⟩
    · rw [if_neg hbad]
      have hb : bits = 32 := by omega
      have hl : ip.length = 4 := by omega
      subst hb
      by_cases h0 : ones = 0
      · subst h0
        rw [if_pos rfl]
        exact ⟨_, by rw [show ((0 : Nat) : Int) = 0 from rfl, show ((32 : Nat) : Int) = 32 from rfl,
          Remove_zero c ip hl]; rfl, CRel_matchAll c s h false⟩
      · rw [if_neg h0]
        obtain ⟨c', hc', hrel⟩ := Remove_sim c s h ip hl ones (by omega) (by omega)
        exact ⟨c', by rw [show ((32 : Nat) : Int) = 32 from rfl, hc']; rfl, hrel⟩

theorem run_sim_from (ops : List Op) : ∀ (c : C) (s : St), CRel c s →
    ∃ c', trRunFrom c ops = .ok c' ∧ CRel c' (modelRunFrom s ops) := by
  induction ops with
  | nil => intro c s h; exact ⟨c, rfl, h⟩
  | cons op ops ih =>
    intro c s h
    obtain ⟨c1, h1, hrel1⟩ := step_sim c s h op
    obtain ⟨c2, h2, hrel2⟩ := ih c1 _ hrel1
    refine ⟨c2, ?_, hrel2⟩
    simp only [trRunFrom, h1, ok_bind, h2]

/-- **the translated `Add`/`Remove` never panic** on any sequence of byte-level operations from the
    initial state, and the final Go state is related to the model's final state -/
theorem run_sim (ops : List Op) :
    ∃ c', trRun ops = .ok c' ∧ CRel c' (modelRun ops) :=
  run_sim_from ops cinit init init_rel

/-- **C11 for the translated code (observable form)**: after any operation sequence the translated
    `Contains` returns exactly the model's `contains` of the model's state, for every byte string -/
theorem C11_translated (ops : List Op) (ip : Bytes) :
    ∃ c', trRun ops = .ok c' ∧
      Glb.Tr.Filter.Contains c'.matchAll c'.mode c'.index c'.ipList c'.ipMaps ip
        = .ok (Glb.Filter.contains (modelRun ops) ip) := by
  obtain ⟨c', h1, hrel⟩ := run_sim ops
  exact ⟨c', h1, Contains_sim c' _ hrel ip⟩

/-! ### composition with the C11 theorems: translated code against the prefix-set specification -/

open Glb.C11 (decode specMem specRun crun cstep containsAddr)

theorem modelRunFrom_decode (ops : List Op) : ∀ s : St,
    modelRunFrom s ops = (ops.filterMap decode).foldl (cstep 256) s := by
  induction ops with
  | nil => intro s; rfl
  | cons op ops ih =>
    intro s
    have hd := Glb.C11.step_decode 256 s op
    simp only [modelRunFrom, List.foldl_cons] at ih ⊢
    rw [ih]
    cases hdec : decode op with
    | none => simp only [hdec] at hd; simp [hdec, hd]
    | some co => simp only [hdec] at hd; simp [hdec, hd]

theorem modelRun_crun (ops : List Op) : modelRun ops = crun 256 (ops.filterMap decode) :=
  modelRunFrom_decode ops init

/-- **C11, end to end for the translated code.**  Run any sequence of byte-level `Add`/`Remove`
    calls through the translated methods from the initial state: no call panics, and afterwards the
    translated `Contains(ip)`, for every `ip` that `net.IP.To4` accepts (4-byte, or 16-byte
    IPv4-in-IPv6), answers `true` exactly when the address lies in one of the prefixes added and not
    since removed (`specRun` of the accepted operations, rejected ones being skipped by `decode`). -/
theorem C11_translated_spec (ops : List Op) (ip ip4 : Bytes) (h4 : Glb.Filter.to4 ip = some ip4) :
    ∃ c' r, trRun ops = .ok c' ∧
      Glb.Tr.Filter.Contains c'.matchAll c'.mode c'.index c'.ipList c'.ipMaps ip = .ok r ∧
      (r = true ↔ specMem (specRun (ops.filterMap decode)) (Glb.Filter.be32 ip4)) := by
  obtain ⟨c', h1, h2⟩ := C11_translated ops ip
  refine ⟨c', _, h1, h2, ?_⟩
  have hlen : ∀ co ∈ ops.filterMap decode, co.len ≤ 32 := by
    intro co hco
    obtain ⟨op, _, hop⟩ := List.mem_filterMap.1 hco
    exact Glb.C11.decode_len op co hop
  rw [← Glb.C11.filter_refines_prefix_set 256 _ hlen, ← modelRun_crun]
  simp only [Glb.Filter.contains, h4, containsAddr]
  cases (modelRun ops).matchAll <;> simp

/-- the `matchAll` flag of the model stands for the prefix `0.0.0.0/0` of the specification -/
theorem matchAll_iff (ops : List Glb.C11.COp) (hlen : ∀ op ∈ ops, op.len ≤ 32) :
    (crun 256 ops).matchAll = true ↔ ((0 : Addr), 0) ∈ specRun ops := by
  obtain ⟨hwf, hrel⟩ := Glb.C11.rel_run 256 ops hlen
  rw [← hrel]
  have hx : ((0 : Addr), 0) ∉ absCore (crun 256 ops) := by
    intro hx
    unfold absCore at hx
    by_cases hmm : (crun 256 ops).mapsMode
    · simp [hmm] at hx; obtain ⟨p, q, hpq, _, rfl⟩ := hx; have := hwf.maps _ hpq; simp at this
    · simp [hmm] at hx
  simp only [Glb.Filter.abs, List.mem_append]
  cases (crun 256 ops).matchAll
  · simpa using hx
  · simp

/-- an address that `To4` rejects is matched only by `0.0.0.0/0` (the `matchAll` flag) -/
theorem C11_translated_not4 (ops : List Op) (ip : Bytes) (h4 : Glb.Filter.to4 ip = none) :
    ∃ c' r, trRun ops = .ok c' ∧
      Glb.Tr.Filter.Contains c'.matchAll c'.mode c'.index c'.ipList c'.ipMaps ip = .ok r ∧
      (r = true ↔ ((0 : Addr), 0) ∈ specRun (ops.filterMap decode)) := by
  obtain ⟨c', h1, h2⟩ := C11_translated ops ip
  refine ⟨c', _, h1, h2, ?_⟩
  have hlen : ∀ co ∈ ops.filterMap decode, co.len ≤ 32 := by
    intro co hco
    obtain ⟨op, _, hop⟩ := List.mem_filterMap.1 hco
    exact Glb.C11.decode_len op co hop
  rw [← matchAll_iff _ hlen, ← modelRun_crun]
  simp only [Glb.Filter.contains, h4]
  cases (modelRun ops).matchAll <;> simp

end Glb.Tie.TrFilter
