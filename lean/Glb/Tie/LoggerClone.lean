/-
  Regenerated tie for C03: what `tools/extract` read from the three `clone()` methods, from
  `WithAttrs` / `WithGroup` of the three handlers and from `Logger.With` / `Logger.WithGroup` in
  /repo satisfies the structural assumptions of `Glb/Model/DeriveSlices.lean`:

    * `clone()` is a single `return &T{…}` that copies every declared field verbatim except
      `preformatted`, which is `slices.Clip(h.preformatted)` (so the model's clip flag is `true`);
    * the deriving methods write memory only through the variable bound by `h2 := h.clone()`
      (assignment targets, `&` operands, `append` destinations), call nothing but read-only methods
      on the receiver, and return either the receiver or the clone;
    * `WithAttrs` with no attributes returns the receiver; `NanoHandler.WithGroup` returns the
      receiver and writes nothing;
    * `Logger.With` / `Logger.WithGroup` write nothing and return the receiver or a fresh `&Logger{…}`.

  Re-proved by `decide` on every run: dropping the Clip, assigning through `h`, appending to
  `h.preformatted`, mutating the `Logger` in place … break this file.
-/
import Glb.Generated.StatusLoggerClone
import Glb.Props.C03

namespace Glb.Tie.LoggerClone
open Glb.Generated.LoggerClone Glb.Derive

def cloneOK (f : CloneFact) : Bool :=
  f.singleReturn && f.clipped == ["preformatted"] && f.other.isEmpty &&
  f.structFields.all (fun x => f.verbatim.contains x || f.clipped.contains x)

/-- methods of the receiver that only read it -/
def readOnlyMethods : List String :=
  ["clone", "prefix", "freePrefix", "Enabled", "IsDebug", "IsColorful", "IsAddSource"]

def throughClone (f : WithFact) : Bool :=
  f.cloneVar != "" && f.cloneVar != f.recv &&
  f.writes.all (fun w => w.1 == f.cloneVar) &&
  f.recvCalls.all (fun m => readOnlyMethods.contains m) &&
  f.returns.all (fun r => r == f.recv || r == f.cloneVar)

def identityMethod (f : WithFact) : Bool :=
  f.writes.isEmpty && f.recvCalls.isEmpty && f.returns == [f.recv]

def freshWrapper (f : WithFact) : Bool :=
  f.writes.isEmpty && f.returns.all (fun r => r == f.recv || r == "&Logger{…}")

theorem json_clone_ok : cloneOK jsonClone = true := by decide
theorem text_clone_ok : cloneOK textClone = true := by decide
theorem nano_clone_ok : cloneOK nanoClone = true := by decide

theorem json_derives_through_clone :
    throughClone jsonWithAttrs = true ∧ jsonWithAttrs.emptyReturnsRecv = true ∧
    throughClone jsonWithGroup = true := by decide
theorem text_derives_through_clone :
    throughClone textWithAttrs = true ∧ textWithAttrs.emptyReturnsRecv = true ∧
    throughClone textWithGroup = true := by decide
theorem nano_derives_through_clone :
    throughClone nanoWithAttrs = true ∧ nanoWithAttrs.emptyReturnsRecv = true ∧
    identityMethod nanoWithGroup = true := by decide

theorem logger_with_wraps_fresh :
    freshWrapper loggerWith = true ∧ freshWrapper loggerWithGroup = true := by decide

/-- the clip flag the model is instantiated with is the one in the source -/
theorem code_clips : ∀ k : Kind, codeClips k = true := by
  intro k; cases k <;> decide

/-- `C03.isolation` for the clip flags read from /repo -/
theorem isolation_of_code {α : Type} (R : Renderer α) (g : Policy) (k : Kind) (ops more : List (HOp α))
    (i : Nat) (h : Handler) (chain : List (DOp α))
    (hi : (run R (codeClips k) g k ops).forest[i]? = some (h, chain)) :
    (run R (codeClips k) g k (ops ++ more)).forest[i]? = some (h, chain) ∧
    h.view (run R (codeClips k) g k (ops ++ more)).heap = renderChain R k chain := by
  rw [code_clips k] at hi ⊢
  exact C03.isolation R g k ops more i h chain hi

/-- the extractor of this area recognised the source as it is on this run (a refusal removes `ok`) -/
theorem extractor_ok : Glb.Generated.StatusLoggerClone.ok = () := rfl

end Glb.Tie.LoggerClone
