/-
  Glb.Basic — shared vocabulary of the models.

  * `Bytes` models a Go `string` / `[]byte`: an arbitrary list of bytes (invalid UTF-8 included).
  * hex codec: the wire format of the line protocol between the Go harness and `Main.lean`.
  * Go slice expressions that can panic are `Except GoPanic`-valued, never totalised.
-/

abbrev Bytes := List UInt8

namespace Glb

/-- What a Go run-time panic looks like to the models (only the class matters). -/
inductive GoPanic where
  | sliceBounds (lo hi len : Nat)
  | indexRange (i len : Nat)
  | other (msg : String)
  deriving Repr, DecidableEq

def GoPanic.describe : GoPanic → String
  | .sliceBounds lo hi len => s!"panic:slice[{lo}:{hi}]len{len}"
  | .indexRange i len => s!"panic:index[{i}]len{len}"
  | .other m => s!"panic:{m}"

/-- `s[lo:hi]` with Go's bounds check (`lo ≤ hi ≤ len s`). -/
def slice? {α} (s : List α) (lo hi : Nat) : Except GoPanic (List α) :=
  if lo ≤ hi ∧ hi ≤ s.length then .ok ((s.drop lo).take (hi - lo))
  else .error (.sliceBounds lo hi s.length)

/-- `s[i]` with Go's bounds check. -/
def idx? {α} (s : List α) (i : Nat) : Except GoPanic α :=
  match s[i]? with
  | some x => .ok x
  | none => .error (.indexRange i s.length)

/-! ### hex wire format -/

def hexDigit (n : Nat) : Char :=
  if n < 10 then Char.ofNat (48 + n) else Char.ofNat (87 + n)

def hexOfByte (b : UInt8) : List Char :=
  [hexDigit (b.toNat / 16), hexDigit (b.toNat % 16)]

/-- lowercase hex of a byte string; the empty string is written `-` so that fields never vanish. -/
def toHex (bs : Bytes) : String :=
  if bs.isEmpty then "-" else String.ofList (bs.flatMap hexOfByte)

def hexVal? (c : Char) : Option Nat :=
  if '0' ≤ c ∧ c ≤ '9' then some (c.toNat - 48)
  else if 'a' ≤ c ∧ c ≤ 'f' then some (c.toNat - 87)
  else none

def ofHexChars : List Char → Option Bytes
  | [] => some []
  | [_] => none
  | a :: b :: rest => do
    let x ← hexVal? a
    let y ← hexVal? b
    let r ← ofHexChars rest
    pure (UInt8.ofNat (x * 16 + y) :: r)

def ofHex? (s : String) : Option Bytes :=
  if s == "-" then some [] else ofHexChars s.toList

def strBytes (s : String) : Bytes := s.toUTF8.toList

/-- best-effort rendering for human-readable driver output (ASCII only is ever used). -/
def bytesToString (b : Bytes) : String := String.ofList (b.map fun x => Char.ofNat x.toNat)

end Glb
