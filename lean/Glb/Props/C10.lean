/-
  C10 — Command-line grammar: flags, values and trailing args are split as documented.

  Model:  Glb/Model/ArgParse.lean   (`argParse`, the code's byte indexing with panicking helpers)
  Spec:   Glb/Spec/ArgvGrammar.lean (`classify` + `parse`, and the declarative `WellFormed`/`Ends`/`Offends`)
  Only the property theorems live here; helper lemmas are in Glb/Proofs/ArgParse.lean.

  Every theorem is for ALL argument vectors (lists of arbitrary byte strings) and ALL flag tables
  `lookup : Bytes → Option Bool`.

  Not covered here (it is the typed half of the statement, "unparsable effective value yields an
  error"): `Value.Set` of the effective text.  That step is the last loop of `Parse`, modelled in
  Glb/Model/Config.lean and proved in Props/C09 (`parse_ok_iff`); for C10 it is checked on
  the real code by the direct oracle of harness stream `argv`.
-/
import Glb.Proofs.ArgParse

namespace Glb.C10
open Glb.ArgParse Glb.ArgvGrammar

/-! ## refinement -/

/-- The index-carrying model of `argParse` never panics and returns exactly what the documented
    grammar says: the same assignments in the same order and the same remaining arguments, or the
    same error class with the same offending token / name. -/
theorem argParse_refines_grammar (lookup : Bytes → Option Bool) (argv : List Bytes) :
    ∃ r, argParse lookup argv = .ok r ∧ r.toSpec = parse lookup argv := by
  obtain ⟨r, h1, h2, _⟩ := loop_spec lookup (argv.length + 1) ⟨[], argv⟩ (by simp)
  exact ⟨r, h1, by simpa [prepend_nil] using h2⟩

/-- No index or slice expression of `argParse` can go out of range, whatever the bytes. -/
theorem never_panics (lookup : Bytes → Option Bool) (argv : List Bytes) :
    ∃ r, argParse lookup argv = .ok r := by
  obtain ⟨r, h, _⟩ := argParse_refines_grammar lookup argv
  exact ⟨r, h⟩

/-- `Args()` (also after an error) is a suffix of the argument vector: the same tokens, unchanged
    and in order. -/
theorem args_is_suffix (lookup : Bytes → Option Bool) (argv : List Bytes) (r : Result)
    (h : argParse lookup argv = .ok r) : r.st.args <:+ argv := by
  obtain ⟨r', h1, _, h3⟩ := loop_spec lookup (argv.length + 1) ⟨[], argv⟩ (by simp)
  have : r = r' := by
    unfold argParse at h; rw [h] at h1; injection h1
  subst this
  exact h3

/-! ## which vectors succeed, which fail, and how -/

/-- Success, exactly: argv is a sequence of complete, defined flag groups (`WellFormed`) that
    denote the assignments, followed by the end of input, or a non-flag (kept), or `--`
    (dropped); `Args()` is what follows. -/
theorem success_exactly (lookup : Bytes → Option Bool) (argv : List Bytes)
    (as : List (Bytes × Bytes)) (rest : List Bytes) :
    argParse lookup argv = .ok (.ok ⟨as, rest⟩) ↔
      ∃ pre tail, argv = pre ++ tail ∧ WellFormed lookup pre as ∧ Ends tail rest := by
  obtain ⟨r, h1, h2⟩ := argParse_refines_grammar lookup argv
  constructor
  · intro h
    rw [h] at h1; injection h1 with h1; subst h1
    obtain ⟨pre, as', tail, hs, hwf, hres⟩ := parse_decompose lookup argv.length argv (Nat.le_refl _)
    rcases hres with ⟨r', he, hp⟩ | ⟨_, _, _, _, _, hp⟩
    · rw [hp] at h2; simp [Result.toSpec] at h2
      obtain ⟨rfl, rfl⟩ := h2
      exact ⟨pre, tail, hs, hwf, he⟩
    · rw [hp] at h2; simp [Result.toSpec] at h2
  · rintro ⟨pre, tail, rfl, hwf, he⟩
    rw [parse_of_wellFormed lookup hwf, parse_of_ends lookup he] at h2
    rw [h1]
    cases r with
    | ok s => obtain ⟨a, b⟩ := s; simp [Result.toSpec, Parsed.prepend] at h2; simp [h2]
    | err e s => simp [Result.toSpec, Parsed.prepend] at h2

/-- Errors, exactly: `argParse` fails with class `e` iff, after a well-formed prefix, the next
    token is the violation `e`:
      * `badSyntax tok`  — `tok` is malformed (see `bad_syntax_exactly`),
      * `undefined n`    — `tok` is a flag `-n`, `--n`, `-n=v`, `--n=v` whose name is not in the table,
      * `needsArg n`     — `tok` is `-n`/`--n` for a defined non-boolean flag and it is the last token. -/
theorem errors_exactly (lookup : Bytes → Option Bool) (argv : List Bytes) (e : ArgErr) :
    (∃ s, argParse lookup argv = .ok (.err e s)) ↔
      ∃ pre as tok rest, argv = pre ++ tok :: rest ∧ WellFormed lookup pre as ∧
        Offends lookup tok rest e := by
  obtain ⟨r, h1, h2⟩ := argParse_refines_grammar lookup argv
  constructor
  · rintro ⟨s, h⟩
    rw [h] at h1; injection h1 with h1; subst h1
    obtain ⟨pre, as', tail, hs, hwf, hres⟩ := parse_decompose lookup argv.length argv (Nat.le_refl _)
    rcases hres with ⟨_, _, hp⟩ | ⟨tok, rest, e', rfl, ho, hp⟩
    · rw [hp] at h2; simp [Result.toSpec] at h2
    · rw [hp] at h2; simp [Result.toSpec] at h2
      subst h2
      exact ⟨pre, as', tok, rest, hs, hwf, ho⟩
  · rintro ⟨pre, as, tok, rest, rfl, hwf, ho⟩
    rw [parse_of_wellFormed lookup hwf, parse_of_offends lookup ho] at h2
    rw [h1]
    cases r with
    | ok s => simp [Result.toSpec, Parsed.prepend] at h2
    | err e' s => simp [Result.toSpec, Parsed.prepend] at h2; exact ⟨s, by simp [h2]⟩

/-- The malformed tokens are exactly `-=…`, `--=…` and `---…`. -/
theorem bad_syntax_exactly (tok : Bytes) :
    classify tok = .bad ↔ (∃ t, tok = dash :: equals :: t) ∨ (∃ t, tok = dash :: dash :: equals :: t) ∨
      (∃ t, tok = dash :: dash :: dash :: t) :=
  classify_bad_iff tok

/-- Where parsing stops without consuming: the empty token, one-byte tokens (in particular `-`) and
    everything not starting with '-'; and the only terminator is the two-byte token `--`. -/
theorem stop_tokens_exactly (tok : Bytes) :
    (classify tok = .nonFlag ↔ tok.length < 2 ∨ tok.head? ≠ some dash) ∧
    (classify tok = .terminator ↔ tok = [dash, dash]) :=
  ⟨classify_nonFlag_iff tok, classify_terminator_iff tok⟩

/-- A token is read as flag `n` (with value `v`) iff it is one or two dashes followed by `n`, resp.
    `n=v`, where `n` is non-empty, does not start with '-' or '=', and has no '=' after its
    first byte: the split is at the FIRST '=' at index ≥ 1. -/
theorem flag_tokens_exactly (tok n : Bytes) (v : Option Bytes) :
    classify tok = .flag n v ↔
      (∃ c t, n = c :: t ∧ c ≠ dash ∧ c ≠ equals ∧ equals ∉ t) ∧
      (tok = dash :: n ++ (match v with | none => [] | some w => equals :: w) ∨
       tok = dash :: dash :: n ++ (match v with | none => [] | some w => equals :: w)) := by
  match tok with
  | [] => simp [classify]
  | [a] =>
    simp [classify]
    rintro c t rfl _ _ _
    cases v <;> simp
  | c :: d :: t =>
    by_cases hc : c = dash
    · subst hc
      by_cases hd : d = dash
      · subst hd
        by_cases ht : t = []
        · subst ht
          simp [classify]
          rintro c t rfl h1 _ _
          cases v <;> simp <;> exact fun h => absurd h.symm h1
        · simp only [classify, ht, if_false, if_true, ne_eq, not_true_eq_false, classifyBody_flag_iff]
          constructor
          · rintro ⟨hn, rfl⟩; exact ⟨hn, .inr rfl⟩
          · rintro ⟨⟨c, t', rfl, h1, h2, h3⟩, h | h⟩
            · exfalso; cases v <;> simp at h <;> exact h1 h.1.symm
            · refine ⟨⟨c, t', rfl, h1, h2, h3⟩, ?_⟩
              cases v <;> simpa using h
      · simp only [classify, hd, if_false, ne_eq, not_true_eq_false, classifyBody_flag_iff]
        constructor
        · rintro ⟨hn, h⟩; exact ⟨hn, .inl (by rw [h]; rfl)⟩
        · rintro ⟨⟨c, t', rfl, h1, h2, h3⟩, h | h⟩
          · refine ⟨⟨c, t', rfl, h1, h2, h3⟩, ?_⟩
            cases v <;> simpa using h
          · exfalso; cases v <;> simp at h <;> exact hd h.1
    · simp [classify, hc]

/-! ## the name guard -/

/-- what `NewFlagSet` demands of every flag name (config.go: "flag name begins with -",
    "flag name contains ="; an empty tag name is replaced by the lower-cased field name) -/
def Guarded (name : Bytes) : Prop := name ≠ [] ∧ name.head? ≠ some dash ∧ equals ∉ name

theorem map_toSpec (lookup : Bytes → Option Bool) (argv : List Bytes) :
    (argParse lookup argv).map Result.toSpec = .ok (parse lookup argv) := by
  obtain ⟨r, h1, h2⟩ := argParse_refines_grammar lookup argv
  simp [h1, Except.map, h2]

/-- A guarded, defined name round-trips: `-name=value`, `--name=value` (any flag kind),
    `-name value`, `--name value` (non-boolean) assign exactly `(name, value)` — for EVERY byte
    string `value`, including ones that contain '=' or look like flags — and `-name`, `--name`
    (boolean) assign `(name, "true")`; parsing then continues with the following tokens. -/
theorem name_guard (lookup : Bytes → Option Bool) (name value : Bytes) (rest : List Bytes) (b : Bool)
    (hg : Guarded name) (hdef : lookup name = some b) :
    let continues := (argParse lookup rest).map (fun r => r.toSpec.cons (name, value))
    (argParse lookup ((dash :: name ++ equals :: value) :: rest)).map Result.toSpec = continues ∧
    (argParse lookup ((dash :: dash :: name ++ equals :: value) :: rest)).map Result.toSpec = continues ∧
    (b = false →
      (argParse lookup ((dash :: name) :: value :: rest)).map Result.toSpec = continues ∧
      (argParse lookup ((dash :: dash :: name) :: value :: rest)).map Result.toSpec = continues) ∧
    (b = true →
      (argParse lookup ((dash :: name) :: rest)).map Result.toSpec =
        (argParse lookup rest).map (fun r => r.toSpec.cons (name, trueText)) ∧
      (argParse lookup ((dash :: dash :: name) :: rest)).map Result.toSpec =
        (argParse lookup rest).map (fun r => r.toSpec.cons (name, trueText))) := by
  obtain ⟨hne, hhead, heq⟩ := hg
  obtain ⟨c, t, rfl⟩ : ∃ c t, name = c :: t := by
    cases name with
    | nil => exact absurd rfl hne
    | cons c t => exact ⟨c, t, rfl⟩
  have hc1 : c ≠ dash := by intro h; simp [h] at hhead
  have hc2 : c ≠ equals := by intro h; simp [h] at heq
  have ht : equals ∉ t := by intro h; simp [h] at heq
  have hnm : ∃ c' t', c :: t = c' :: t' ∧ c' ≠ dash ∧ c' ≠ equals ∧ equals ∉ t' := ⟨c, t, rfl, hc1, hc2, ht⟩
  have k1 : classify (dash :: (c :: t) ++ equals :: value) = .flag (c :: t) (some value) :=
    (flag_tokens_exactly _ _ _).2 ⟨hnm, .inl rfl⟩
  have k2 : classify (dash :: dash :: (c :: t) ++ equals :: value) = .flag (c :: t) (some value) :=
    (flag_tokens_exactly _ _ _).2 ⟨hnm, .inr rfl⟩
  have k3 : classify (dash :: (c :: t)) = .flag (c :: t) none :=
    (flag_tokens_exactly _ _ _).2 ⟨hnm, .inl (by simp)⟩
  have k4 : classify (dash :: dash :: (c :: t)) = .flag (c :: t) none :=
    (flag_tokens_exactly _ _ _).2 ⟨hnm, .inr (by simp)⟩
  have hcont : ∀ a, (argParse lookup rest).map (fun r => r.toSpec.cons a) =
      .ok ((parse lookup rest).cons a) := by
    intro a
    obtain ⟨r, h1, h2⟩ := argParse_refines_grammar lookup rest
    simp [h1, Except.map, h2]
  simp only [map_toSpec, hcont]
  refine ⟨?_, ?_, ?_, ?_⟩
  · rw [parse]; simp only [k1, hdef]
  · rw [parse]; simp only [k2, hdef]
  · rintro rfl
    constructor
    · rw [parse]; simp only [k3, hdef]
    · rw [parse]; simp only [k4, hdef]
  · rintro rfl
    constructor
    · rw [parse]; simp only [k3, hdef]
    · rw [parse]; simp only [k4, hdef]

/-- Last occurrence wins: the flag keeps the value of its last assignment, other flags are not
    affected by it. -/
theorem last_wins (as : List (Bytes × Bytes)) (n m v : Bytes) :
    effective (as ++ [(n, v)]) n = some v ∧ (m ≠ n → effective (as ++ [(n, v)]) m = effective as m) := by
  constructor
  · simp [effective, List.foldl_append]
  · intro h; simp [effective, List.foldl_append, Ne.symm h]

/-- a flag that is never assigned has no command-line value (`ArgValue == nil`) -/
theorem effective_none_iff (as : List (Bytes × Bytes)) (n : Bytes) :
    effective as n = none ↔ ∀ a ∈ as, a.1 ≠ n := by
  suffices h : ∀ (cur : Option Bytes), as.foldl (fun cur a => if a.1 = n then some a.2 else cur) cur = none ↔
      cur = none ∧ ∀ a ∈ as, a.1 ≠ n by simpa [effective] using h none
  induction as with
  | nil => simp
  | cons a l ih =>
    intro cur
    by_cases h : a.1 = n
    · simp [List.foldl_cons, h, ih]
    · simp [List.foldl_cons, h, ih]

/-! ## non-vacuity: concrete vectors, near-misses included -/

section examples

/-- decidable equality of model outcomes, so that the examples below are checked by `decide`
    (a named instance inside this namespace: it cannot clash with other modules) -/
instance exceptDecEq {ε α : Type} [DecidableEq ε] [DecidableEq α] : DecidableEq (Except ε α)
  | .ok a, .ok b => if h : a = b then isTrue (by rw [h]) else isFalse (by intro e; injection e; contradiction)
  | .error a, .error b => if h : a = b then isTrue (by rw [h]) else isFalse (by intro e; injection e; contradiction)
  | .ok _, .error _ => isFalse (by intro e; cases e)
  | .error _, .ok _ => isFalse (by intro e; cases e)

/-- `x`, `n`: non-boolean flags; `b`: boolean flag; `a=b` and `-x` are names the guard rejects -/
def demo : Bytes → Option Bool := fun n =>
  if n = [0x78] then some false            -- "x"
  else if n = [0x6e] then some false       -- "n"
  else if n = [0x62] then some true        -- "b"
  else if n = [0x61, 0x3d, 0x62] then some false  -- "a=b"  (unguarded)
  else if n = [0x2d, 0x78] then some false        -- "-x"   (unguarded)
  else none

abbrev d : UInt8 := 0x2d   -- '-'
abbrev q : UInt8 := 0x3d   -- '='
abbrev x : UInt8 := 0x78
abbrev v : UInt8 := 0x76
abbrev bb : UInt8 := 0x62
abbrev yy : UInt8 := 0x79

-- near-misses of the property text
example : argParse demo [[d]] = .ok (.ok ⟨[], [[d]]⟩) := by decide                       -- "-"  is a non-flag, kept
example : argParse demo [[d, d], [d, x]] = .ok (.ok ⟨[], [[d, x]]⟩) := by decide          -- "--" is consumed, rest untouched
example : argParse demo [[d, d, d, x]] = .ok (.err (.badSyntax [d, d, d, x]) ⟨[], [[d, d, d, x]]⟩) := by decide
example : argParse demo [[d, q]] = .ok (.err (.badSyntax [d, q]) ⟨[], [[d, q]]⟩) := by decide
example : argParse demo [[d, d, q, v]] = .ok (.err (.badSyntax [d, d, q, v]) ⟨[], [[d, d, q, v]]⟩) := by decide
example : argParse demo [[d, x, q]] = .ok (.ok ⟨[([x], [])], []⟩) := by decide           -- "-x=" assigns the empty text
-- a value that looks like a flag is taken as the value
example : argParse demo [[d, x], [d, bb]] = .ok (.ok ⟨[([x], [d, bb])], []⟩) := by decide
-- a boolean flag consumes nothing: the stray value is the first non-flag
example : argParse demo [[d, bb], [v]] = .ok (.ok ⟨[([bb], trueText)], [[v]]⟩) := by decide
-- '=' inside the value: split at the first '=' only
example : argParse demo [[d, d, x, q, v, q, v]] = .ok (.ok ⟨[([x], [v, q, v])], []⟩) := by decide
-- the three error classes
example : argParse demo [[d, x]] = .ok (.err (.needsArg [x]) ⟨[], []⟩) := by decide
example : argParse demo [[d, yy], [v]] = .ok (.err (.undefined [yy]) ⟨[], [[v]]⟩) := by decide
example : argParse demo [[d, bb], [d, d, d]] = .ok (.err (.badSyntax [d, d, d]) ⟨[([bb], trueText)], [[d, d, d]]⟩) := by decide
-- repeated flag: last occurrence wins
example : (argParse demo [[d, x, q, v], [d, x], [yy]]).map (fun r => effective r.st.assigns [x]) = .ok (some [yy]) := by decide

-- the guard is satisfiable …
example : Guarded [x] := by simp [Guarded]; decide
-- … and necessary: a defined name containing '=' can never be addressed (`-a=b=v` is read as flag `a`)
example : argParse demo [[d, 0x61, q, bb, q, v]] = .ok (.err (.undefined [0x61]) ⟨[], []⟩) := by decide
-- … nor can a defined name starting with '-' (`--x=v` is read as flag `x`, `---x=v` is malformed)
example : argParse demo [[d, d, x, q, v]] = .ok (.ok ⟨[([x], [v])], []⟩) := by decide
example : argParse demo [[d, d, d, x, q, v]] = .ok (.err (.badSyntax [d, d, d, x, q, v]) ⟨[], [[d, d, d, x, q, v]]⟩) := by decide

-- the hypotheses of `errors_exactly` / `success_exactly` are inhabited
example : WellFormed demo [[d, x], [v], [d, bb]] [([x], [v]), ([bb], trueText)] :=
  .withNext (by decide) (by decide) (.boolFlag (by decide) (by decide) .nil)
example : Offends demo [d, x] [] (.needsArg [x]) := ⟨by decide, by decide, rfl⟩

end examples

end Glb.C10
