/-
  C06 (liveness part) — every accepted task is eventually started; termination measure of
  DESIGN A.2.  The safety part (started_nodup, exactly_once, no_loss, results) is in Props/C06;
  `C06_no_loss` is used here.
  All statements are about `cfg L Q` for arbitrary `L`, `Q`.
  Helper lemmas: `Glb/Proofs/TaskLaneProgress.lean`; witnesses: `Glb/Proofs/TaskLaneTraces.lean`.
-/
import Glb.Proofs.TaskLaneProgress
import Glb.Proofs.TaskLaneTraces
import Glb.Props.C06

namespace Glb.TaskLane

variable (L Q : Nat)

/-- liveness core: live context, nothing more the lane can do by itself, no task running ⇒ every
    accepted task has been started (fairness of the scheduler is the only assumption) -/
theorem C06_eventually_started (s : St) (h : Reachable (cfg L Q) s) (hc : s.cancelled = false)
    (hq : Quiescent (cfg L Q) s) (hr : ∀ i, i < L → ¬ s.running i) :
    ∀ t, t ∈ s.accepted → t ∈ s.started :=
  eventually_started_of_no_loss h hc hq hr (C06_no_loss L Q s h hc)

/-- termination measure (DESIGN A.2): every internal step — anything the lane does by itself:
    not a cancel, not a new push, not a PushTask timeout firing, not a task returning — strictly
    decreases the ranking function `mu` (sum of per-pc ranks of all producers, queue goroutines
    and workers plus 8 per buffered task); cancelled or not, from ANY state -/
theorem C06_internal_steps_terminate (s : St) (l : Label) (s' : St) (hs : Step (cfg L Q) s l s')
    (hi : internal l = true) : mu L Q s' < mu L Q s :=
  mu_xstep hs.toX hi

/-- hence a run of `n` internal steps from `s` has `n ≤ mu L Q s` … -/
theorem C06_internal_runs_bounded (s s' : St) (n : Nat) (hr : IRun (cfg L Q) s n s') :
    n + mu L Q s' ≤ mu L Q s :=
  hr.mu_bound

/-- … no execution consists, from some point on, of internal steps only (with finitely many
    environment events every execution is finite) … -/
theorem C06_no_infinite_internal_run (f : Nat → St) (lab : Nat → Label) (N : Nat)
    (hs : ∀ n, Step (cfg L Q) (f n) (lab n) (f (n + 1))) :
    ¬ ∀ n, N ≤ n → internal (lab n) = true :=
  fun hi => no_infinite_internal f lab N hs hi

/-- … and from every state the lane, left alone, reaches a quiescent state -/
theorem C06_reaches_quiescent (s : St) : ∃ n s', IRun (cfg L Q) s n s' ∧ Quiescent (cfg L Q) s' :=
  exists_quiescent s

/-! ### Non-vacuity -/

/-- the hypotheses of `C06_eventually_started` are satisfiable with a non-empty `accepted`:
    `cfg 1 1`, task 7 pushed, accepted, run and returned, everything parked again -/
example : Reachable (cfg 1 1) Trace.a18 ∧ Trace.a18.cancelled = false ∧
    Quiescent (cfg 1 1) Trace.a18 ∧ (∀ i, i < 1 → ¬ Trace.a18.running i) ∧
    Trace.a18.accepted = [7] :=
  ⟨Trace.reachA, rfl, Trace.quiescentA, lt_one (fun h => absurd h.1 (by decide)), rfl⟩

/-- the hypothesis `Quiescent` is not vacuous the other way either: while the task is pending
    (`Trace.s10`: held by the queue goroutine at q3, worker parked at w2) the state is not
    quiescent, and `init` is not quiescent -/
example : ¬ Quiescent (cfg 1 0) init := by
  intro hq
  have hs : Step (cfg 1 0) init .tau _ := Step.dflt init (.w 0) [(.done, 4)] 1 Nat.zero_lt_one rfl rfl
    (by intro k t hm; simp at hm; obtain ⟨rfl, rfl⟩ := hm; exact not_ready_done rfl)
  have := hq _ _ hs
  simp [internal] at this

/-- `C06_internal_steps_terminate` has instances: an internal step of `init`, measure 8 → 7 -/
example : ∃ s', Step (cfg 1 1) init .tau s' ∧ mu 1 1 init = 8 ∧ mu 1 1 s' = 7 :=
  ⟨_, Step.dflt init (.w 0) [(.done, 4)] 1 Nat.zero_lt_one rfl rfl
    (by intro k t hm; simp at hm; obtain ⟨rfl, rfl⟩ := hm; exact not_ready_done rfl), by decide, by decide⟩

end Glb.TaskLane
