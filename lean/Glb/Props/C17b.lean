/-
  C17b — the C17 theorems for the BYTE-LEVEL algorithm of Go's `path.Clean`.

  `Model/PathCleanBytes.lean` transcribes the stdlib loop (`lazybuf`, `r`, `w`, `dotdot`) line by
  line; `Props/C17.lean` is proved over the segment model `PathClean.clean`.  Here the two are proved
  equal on ALL byte strings (`clean_bytes_eq_segments`, by the loop invariant `Rel` of
  `Proofs/PathCleanBytes.lean`), and the C17 theorems are restated for `cleanBytes` and for
  `resolveUrlPathB` (ResolveUrlPath computed through the byte algorithm) as corollaries.
  Only property theorems live here.
-/
import Glb.Proofs.PathCleanBytes
import Glb.Props.C17

namespace Glb.C17b
open Glb.PathClean Glb.PathNF Glb.PathCleanBytes

/-! ## byte algorithm = segment model -/

/-- **Go's byte-level `path.Clean` loop computes the segment model's `clean`, for every byte
    string** (empty, rooted, relative; any bytes). -/
theorem clean_bytes_eq_segments (p : Bytes) : cleanBytes p = clean p :=
  cleanBytes_eq_clean p

/-- The loop invariant behind it, for a run from the start: after the whole (unread) input has
    been consumed, the reversed output buffer is the rendering `outOf` of the segment model's stack
    (leading '/' if rooted, elements separated by single slashes), that stack has the shape
    `names ++ ".."^k` (reversed; `k = 0` when rooted), and `dotdot` is the length of the rendered
    `".."^k` prefix (1 = the leading slash when rooted). -/
theorem clean_bytes_invariant (rooted : Bool) (rest : Bytes) :
    ∃ k segs, (split rest).foldl (step rooted) [] = segs ++ List.replicate k dotdot ∧
      (∀ s ∈ segs, Normal s) ∧ (rooted = true → k = 0) ∧
      loop rooted rest.length rest (baseOut rooted) (baseOut rooted).length =
        outOf rooted ((split rest).foldl (step rooted) []) := by
  obtain ⟨dd', k, segs, h1, h2, h3, h4, _⟩ :=
    loop_spec rooted rest.length rest [] (baseOut rooted) (baseOut rooted).length
      (rel_init rooted) (Nat.le_refl _)
  exact ⟨k, segs, h1, h2, h3, h4⟩

/-- One iteration of the Go loop on a state related to the stack `st` reads exactly one path
    element and leaves a state related to `step rooted st element` (stated through the fold over
    the remaining segments), and it consumes at least one byte. -/
theorem clean_bytes_step (rooted : Bool) (c : UInt8) (t : Bytes) (st : List Bytes) (out : Bytes)
    (dd : Nat) (h : Rel rooted st out dd) :
    ∃ st', Rel rooted st' (body rooted c t out dd).2.1 (body rooted c t out dd).2.2 ∧
      (split (body rooted c t out dd).1).foldl (step rooted) st' =
        (split (c :: t)).foldl (step rooted) st ∧
      (body rooted c t out dd).1.length ≤ t.length :=
  body_spec rooted c t st out dd h

/-- The fuel `len(path)` of the transcribed `for r < n` loop never runs out: every sufficient
    amount of fuel gives the same result (each iteration consumes at least one byte). -/
theorem clean_bytes_fuel (rooted : Bool) (fuel : Nat) (rest out : Bytes) (dd : Nat)
    (h : rest.length ≤ fuel) :
    loop rooted fuel rest out dd = loop rooted rest.length rest out dd :=
  loop_fuel rooted fuel rest.length rest out dd h (Nat.le_refl _)

/-- `filepath.Join` and `ResolveUrlPath` through the byte algorithm equal the segment versions -/
theorem join_bytes_eq (elems : List Bytes) : joinB elems = join elems := joinB_eq elems

theorem resolve_bytes_eq (base url : Bytes) :
    resolveUrlPathB base url = resolveUrlPath base url := resolveUrlPathB_eq base url

/-! ## C17 for the byte algorithm -/

/-- the byte algorithm prints the lexical normal form, and its output re-reads to it -/
theorem clean_bytes_nf (p : Bytes) : cleanBytes p = (nf p).render ∧ nf (cleanBytes p) = nf p := by
  rw [cleanBytes_eq_clean]
  exact C17.clean_nf p

theorem clean_bytes_idem (p : Bytes) : cleanBytes (cleanBytes p) = cleanBytes p := by
  simp only [cleanBytes_eq_clean]
  exact C17.clean_idem p

theorem clean_bytes_eq_iff (p q : Bytes) : cleanBytes p = cleanBytes q ↔ nf p = nf q := by
  simp only [cleanBytes_eq_clean]
  exact C17.clean_eq_iff p q

/-- a rooted path cleaned by the byte algorithm is "/" followed by real names only -/
theorem clean_bytes_rooted_form (p : Bytes) (h : (nf p).rooted = true) :
    cleanBytes p = slash :: unsplit (nf p).stack ∧ ∀ s ∈ (nf p).stack, Normal s := by
  rw [cleanBytes_eq_clean]
  exact ⟨C17.clean_rooted_form p h, C17.clean_rooted_no_dotdot p h⟩

/-- **C17 over the stdlib byte algorithm.**  For every non-empty base and every URL path (arbitrary
    bytes) the path resolved through the byte-level `Clean` has the rootedness of the base and its
    normal form is the normal form of the base followed by the normal-form segments of
    `"/" ++ url`, all real names: the result is the base itself or lies beneath it. -/
theorem resolve_contained_bytes (base url : Bytes) (hb : base ≠ []) :
    beneathVia base (resolveUrlPathB base url) (nf (slash :: url)).stack := by
  rw [resolveUrlPathB_eq]
  exact C17.resolve_contained base url hb

theorem resolve_beneath_bytes (base url : Bytes) (hb : base ≠ []) :
    beneath base (resolveUrlPathB base url) :=
  ⟨_, resolve_contained_bytes base url hb⟩

/-- the resolved path is a fixed point of the byte algorithm -/
theorem resolve_clean_bytes (base url : Bytes) (hb : base ≠ []) :
    cleanBytes (resolveUrlPathB base url) = resolveUrlPathB base url := by
  rw [resolveUrlPathB_eq, cleanBytes_eq_clean]
  exact C17.resolve_clean base url hb

/-- the returned bytes: the base's normal form with the URL's names appended, printed -/
theorem resolve_text_bytes (base url : Bytes) (hb : base ≠ []) :
    resolveUrlPathB base url =
      render (nf base).rooted ((nf base).stack ++ (nf (slash :: url)).stack) ∧
    cleanBytes base = render (nf base).rooted (nf base).stack := by
  rw [resolveUrlPathB_eq, cleanBytes_eq_clean]
  exact C17.resolve_text base url hb

/-- for a URL path without "." / ".." segments the result is `filepath.Join(base, url)` -/
theorem resolve_plain_bytes (base url : Bytes) (hb : base ≠ []) (hu : DotFree url) :
    resolveUrlPathB base url = cleanBytes (base ++ slash :: url) ∧
      resolveUrlPathB base url = joinB [base, url] := by
  rw [resolveUrlPathB_eq, cleanBytes_eq_clean, joinB_eq]
  exact C17.resolve_plain base url hb hu

/-! ## Non-vacuity: the byte algorithm evaluated on concrete hostile inputs -/

-- "" ↦ ".";  "/" ↦ "/";  "//a//" ↦ "/a";  "./" ↦ "."
example : cleanBytes [] = [46] := by decide
example : cleanBytes [47] = [47] := by decide
example : cleanBytes [47,47,97,47,47] = [47,97] := by decide
example : cleanBytes [46,47] = [46] := by decide
-- "a/../../b/./c//" ↦ "../b/c" (backtrack to dotdot = 0, then append "..", then two names)
example : cleanBytes [97,47,46,46,47,46,46,47,98,47,46,47,99,47,47] = [46,46,47,98,47,99] := by decide
-- "/../ab/cd/.." ↦ "/ab" (rooted: ".." at the root dropped; backtrack stops at the '/')
example : cleanBytes [47,46,46,47,97,98,47,99,100,47,46,46] = [47,97,98] := by decide
-- "../../a/.." ↦ "../.." (backtrack stops at dotdot = 5)
example : cleanBytes [46,46,47,46,46,47,97,47,46,46] = [46,46,47,46,46] := by decide
-- "..a/.b/..." ↦ itself: names that merely start with dots are ordinary elements
example : cleanBytes [46,46,97,47,46,98,47,46,46,46] = [46,46,97,47,46,98,47,46,46,46] := by decide
-- ResolveUrlPath through the byte algorithm: "/data", "../../etc/passwd" ↦ "/data/etc/passwd"
example : resolveUrlPathB [47,100,97,116,97] [46,46,47,46,46,47,101,116,99,47,112,97,115,115,119,100]
    = [47,100,97,116,97,47,101,116,99,47,112,97,115,115,119,100] := by decide
-- "/data", "a/../../b" ↦ "/data/b";  "/data", "" ↦ "/data";  "..", "/../a//" ↦ "../a"
example : resolveUrlPathB [47,100,97,116,97] [97,47,46,46,47,46,46,47,98] = [47,100,97,116,97,47,98] := by decide
example : resolveUrlPathB [47,100,97,116,97] [] = [47,100,97,116,97] := by decide
example : resolveUrlPathB [46,46] [47,46,46,47,97,47,47] = [46,46,47,97] := by decide
-- "/", "..\\.." ↦ "/..\\.." (backslash is an ordinary byte)
example : resolveUrlPathB [47] [46,46,92,46,46] = [47,46,46,92,46,46] := by decide
-- the invariant's hypothesis is satisfiable beyond the initial state: "../a" relative
example : Rel false [[97], dotdot] [97,47,46,46] 2 :=
  ⟨1, [[97]], rfl, by decide, by decide, rfl, rfl⟩
example : Rel true [[98], [97]] [98,47,97,47] 1 :=
  ⟨0, [[98], [97]], rfl, by decide, by decide, rfl, rfl⟩
-- hypotheses of the corollaries: a dot-free url and a rooted path exist
example : DotFree [97,47,47,98,47] := by decide
example : (nf [47,97]).rooted = true := by decide

end Glb.C17b
