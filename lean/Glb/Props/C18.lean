/-
  C18 — CopyFile and MoveFile never lose file content.

  Theorems quantify over EVERY file-system state of the model (arbitrary entry map: hard links,
  symbolic links — chains, dangling, loops —, directories, missing names with any parent state,
  arbitrary inode contents, arbitrary device assignment) and every pair of names `src`, `dst`,
  including `src = dst` (same path; the kernel maps other spellings such as `./p` to the same
  directory entry) and every aliasing of `dst` to the source's inode.  `Fresh fs` only says the
  model's inode allocator does not hand out an inode that is in use.
  `copyFile`/`moveFile` are interpreters of the event lists tied to the source by
  Glb/Tie/Osutil.lean.  Helper lemmas: Glb/Proofs/Files.lean.
-/
import Glb.Proofs.Files

namespace Glb.C18
open Glb.Files Glb.Generated

/-- **CopyFile preserves content.** If `src` names (through any chain of symlinks) a regular
    file with bytes `b`:  result ok ⇒ `dst` and `src` both hold exactly `b` afterwards and the
    returned count is `b.length`;  result error ⇒ the file system is unchanged (in particular the
    source's content is intact).  No assumption relates `dst` to `src`: same name, symlink to
    it, hard link of it, … are all covered. -/
theorem copy_preserves (fs : FS) (src dst : Name) (b : Bytes) (hf : Fresh fs)
    (hs : content fs src = some b) :
    match copyFile fs src dst with
    | (fs', .ok n) => content fs' dst = some b ∧ content fs' src = some b ∧ n = b.length
    | (fs', .error _) => fs' = fs := by
  unfold content at hs
  cases hsrc : resolve fs src with
  | file x i =>
    simp [hsrc] at hs
    subst hs
    have hspec := copyFile_spec fs src dst x i hf hsrc
    cases hc : copyFile fs src dst with
    | mk fs1 r =>
      rw [hc] at hspec
      cases r with
      | error e => exact hspec
      | ok n =>
        simp only [CopyOk] at hspec ⊢
        obtain ⟨hn, hdi, _, hent, y, k, _, hy, hdk⟩ := hspec
        refine ⟨by simp [content, hy, hdk], ?_, hn⟩
        -- the source still resolves to inode i: entries of existing names are unchanged
        have hx := resolveN_entries_kept fs.entry fs1.entry hent
        simp [content, resolve, hx _ _ _ _ hsrc, hdi]
  | _ => simp [hsrc] at hs

/-- **Every aliasing is rejected before anything is touched.** Whenever `dst` resolves to the
    very inode `src` resolves to — the same name, a symbolic link (chain) to it, a hard link of
    it — CopyFile returns the same-file error and the file system is unchanged. -/
theorem copy_alias_rejected (fs : FS) (src dst : Name) (x y : Name) (i : Ino)
    (hsrc : resolve fs src = .file x i) (hdst : resolve fs dst = .file y i) :
    copyFile fs src dst = (fs, .error .sameFile) := by
  simp [copyFile, runCopy, copyProg, List.foldl, copyStep, openRead, hsrc, fstat, stat, hdst]

/-- a missing source: error, nothing created, nothing truncated -/
theorem copy_missing_source (fs : FS) (src dst : Name) (m : Name) (p : PState)
    (hsrc : resolve fs src = .missing m p) :
    ∃ e, copyFile fs src dst = (fs, .error e) := by
  cases p <;>
    simp [copyFile, runCopy, copyProg, List.foldl, copyStep, openRead, hsrc, resErr]

/-- **MoveFile rejects every aliasing before anything is touched.** Whenever `dst` resolves to
    the very inode `src` resolves to — the same name, `src` a symbolic link (chain) to `dst`,
    `dst` a symbolic link (chain) to `src`, a hard link — MoveFile returns the same-file error
    and the file system is unchanged (no rename, no copy, no remove). -/
theorem move_alias_rejected (fs : FS) (src dst : Name) (x y : Name) (i : Ino)
    (hsrc : resolve fs src = .file x i) (hdst : resolve fs dst = .file y i) :
    moveFile fs src dst = (fs, .error .sameFile) := by
  rw [moveFile_guard]
  simp [stat, hsrc, hdst]

/-- **MoveFile preserves content.** If `src` names a regular file with bytes `b` *through any
    chain of symbolic links*:  result ok ⇒ `dst` holds exactly `b`;  result error ⇒ the file
    system is unchanged (the source is still there with its content).  Covers the guard, the
    rename path (regular-file entries and symbolic-link entries, destination missing / existing /
    a symlink name that gets replaced) and the copy+remove fall-back for *every* reason rename can
    fail (EXDEV, directory destination, missing parent, …). -/
theorem move_preserves (fs : FS) (src dst : Name) (b : Bytes) (hf : Fresh fs)
    (hs : content fs src = some b) :
    match moveFile fs src dst with
    | (fs', .ok _) => content fs' dst = some b
    | (fs', .error _) => fs' = fs := by
  unfold content at hs
  cases hsrc : resolve fs src with
  | file x i =>
    simp [hsrc] at hs
    subst hs
    by_cases halias : ∃ y, resolve fs dst = .file y i
    · obtain ⟨y, hy⟩ := halias
      rw [move_alias_rejected fs src dst x y i hsrc hy]
    · -- the guard lets the call through: it behaves like the unguarded order
      have hpin : moveFile fs src dst = moveFilePinned fs src dst := by
        rw [moveFile_guard]
        cases hd : stat fs dst with
        | error e => simp [stat, hsrc]
        | ok idd =>
          have : idd ≠ .ino i := by
            intro h; subst h
            unfold stat at hd
            split at hd <;> simp at hd
            · next y k hk => subst hd; exact halias ⟨y, hk⟩
          simp [stat, hsrc]
          intro h; exact absurd h.symm this
      rw [hpin]
      cases hr : rename fs src dst with
      | error e =>
        exact movePinned_fallback fs src dst (fs.data i) e hf (by simp [content, hsrc]) hr
      | ok fs1 =>
        cases hes : fs.entry src with
        | missing p => simp [resolve, resolveN, hes] at hsrc
        | dir => simp [resolve, resolveN, hes] at hsrc
        | file i' =>
          have : i' = i := by simp [resolve, resolveN, hes] at hsrc; exact hsrc.2
          subst this
          exact movePinned_direct fs src dst i' hf hes
        | symlink t =>
          simp [moveFilePinned, runMove, pinnedMoveProg, List.foldl, moveStep, hr]
          exact rename_symlink_content fs fs1 src dst t x i hes hsrc
            (fun y hy => halias ⟨y, hy⟩) hr
  | _ => simp [hsrc] at hs

/-- **The source is removed only after the destination is complete.** If after MoveFile the
    source no longer holds its bytes under its name (the name was removed or replaced), then
    MoveFile returned nil and `dst` holds the original bytes. -/
theorem move_removes_source_only_after_copy (fs : FS) (src dst : Name) (b : Bytes)
    (hf : Fresh fs) (hs : content fs src = some b)
    (hgone : (moveFile fs src dst).1.entry src ≠ fs.entry src) :
    (∃ u, (moveFile fs src dst).2 = .ok u) ∧
      content (moveFile fs src dst).1 dst = some b := by
  have h := move_preserves fs src dst b hf hs
  cases hm : moveFile fs src dst with
  | mk fs' r =>
    rw [hm] at h hgone
    cases r with
    | ok u => exact ⟨⟨u, rfl⟩, h⟩
    | error e => simp only at h; subst h; exact absurd rfl hgone

/-- a missing source name: error, nothing renamed, created or removed -/
theorem move_missing_source (fs : FS) (src dst : Name) (p : PState)
    (hsrc : fs.entry src = .missing p) : ∃ e, moveFile fs src dst = (fs, .error e) := by
  have hres : resolve fs src = .missing src p := by simp [resolve, resolveN, hsrc]
  obtain ⟨e, hc⟩ := copy_missing_source fs src dst src p hres
  have hr : ∃ e', rename fs src dst = .error e' := by
    unfold rename
    rw [hsrc]
    cases p <;> cases hd : fs.entry dst <;> (try rename_i q; cases q) <;>
      by_cases hdev : fs.dev src = fs.dev dst <;> simp [hdev]
  obtain ⟨e', hr⟩ := hr
  refine ⟨e, ?_⟩
  rw [moveFile_guard]
  simp [stat, hres, resErr]
  cases p <;>
    simp [moveFilePinned, runMove, pinnedMoveProg, List.foldl, moveStep, hr, hc]

/-! ## Findings documented by concrete witnesses -/

/-- names 0 and 1, inode 0 holds `[1,2,3]`; name 1 is `alias` -/
def twoNames (alias : Entry) : FS :=
  { entry := fun n => if n = 0 then .file 0 else if n = 1 then alias else .missing .ok,
    data := fun i => if i = 0 then [1, 2, 3] else [],
    dev := fun _ => 0, next := 1 }

/-- **F6 (fixed by 270ff91).** The pinned order (Open, Create, Copy — no same-file guard)
    returns `(0, nil)` and leaves the source empty when the destination is a symlink to the
    source, a hard link of it, or the same path; the guarded order rejects all three and keeps
    the bytes. -/
theorem pinned_copy_loses_data :
    ∀ alias ∈ [Entry.symlink 0, Entry.file 0],
      (copyFilePinned (twoNames alias) 0 1).2 = .ok 0 ∧
      content (copyFilePinned (twoNames alias) 0 1).1 0 = some [] ∧
      (copyFilePinned (twoNames alias) 0 0).2 = .ok 0 ∧
      content (copyFilePinned (twoNames alias) 0 0).1 0 = some [] ∧
      (copyFile (twoNames alias) 0 1).2 = .error .sameFile ∧
      content (copyFile (twoNames alias) 0 1).1 0 = some [1, 2, 3] ∧
      (copyFile (twoNames alias) 0 0).2 = .error .sameFile := by decide

/-- **F9 (fixed by cf1ff93).** Before the guard, when the *source name* is a symbolic link to
    the destination (`src → dst`), `rename(src, dst)` succeeds and replaces `dst` by the link,
    which now points to itself: MoveFile returned nil and the bytes were unreachable.  (Name 1 is
    the symlink and the source, name 0 the file and the destination.)  The guarded order
    rejects the call and keeps the bytes. -/
theorem move_symlink_source_loses_data :
    content (twoNames (.symlink 0)) 1 = some [1, 2, 3] ∧
    (moveFilePinned (twoNames (.symlink 0)) 1 0).2 = .ok () ∧
    content (moveFilePinned (twoNames (.symlink 0)) 1 0).1 0 = none ∧
    resolve (moveFilePinned (twoNames (.symlink 0)) 1 0).1 0 = .loop ∧
    (moveFile (twoNames (.symlink 0)) 1 0).2 = .error .sameFile ∧
    content (moveFile (twoNames (.symlink 0)) 1 0).1 0 = some [1, 2, 3] ∧
    content (moveFile (twoNames (.symlink 0)) 1 0).1 1 = some [1, 2, 3] := by decide

/-! ## Non-vacuity -/

example : Fresh (twoNames (.symlink 0)) := by
  intro n i h
  simp only [twoNames] at h ⊢
  split at h
  · simp at h; subst h; exact Nat.zero_lt_one
  · split at h <;> simp at h

example : content (twoNames (.file 0)) 0 = some [1, 2, 3] := by decide

/-- an ordinary successful copy to a fresh name, and one through a dangling symlink -/
example : (copyFile (twoNames (.symlink 5)) 0 2).2 = .ok 3 ∧
    content (copyFile (twoNames (.symlink 5)) 0 2).1 2 = some [1, 2, 3] ∧
    (copyFile (twoNames (.symlink 5)) 0 1).2 = .ok 3 ∧
    content (copyFile (twoNames (.symlink 5)) 0 1).1 5 = some [1, 2, 3] := by decide

/-- MoveFile: same device = rename; other device = copy + remove; onto a hard link of the
    source, the same path, or a (cross-device) symlink back to the source = same-file error with
    everything left in place -/
example :
    (moveFile (twoNames (.missing .ok)) 0 1).2 = .ok () ∧
    content (moveFile (twoNames (.missing .ok)) 0 1).1 1 = some [1, 2, 3] ∧
    (moveFile (twoNames (.missing .ok)) 0 1).1.entry 0 = .missing .ok ∧
    (moveFile { twoNames (.missing .ok) with dev := fun n => n } 0 1).2 = .ok () ∧
    content (moveFile { twoNames (.missing .ok) with dev := fun n => n } 0 1).1 1 = some [1, 2, 3] ∧
    (moveFile { twoNames (.missing .ok) with dev := fun n => n } 0 1).1.entry 0 = .missing .ok ∧
    (moveFile (twoNames (.file 0)) 0 1).2 = .error .sameFile ∧
    (moveFile (twoNames (.file 0)) 0 1).1.entry 0 = .file 0 ∧
    (moveFile (twoNames (.file 0)) 0 0).2 = .error .sameFile ∧
    (moveFile { twoNames (.symlink 0) with dev := fun n => n } 0 1).2 = .error .sameFile := by
  decide

/-- hypotheses of `move_fallback_preserves` with a symlink source moved to another device:
    the link's target content arrives, the link is removed, the target file stays -/
example :
    (match rename { twoNames (.symlink 0) with dev := fun n => n } 1 2 with
      | .error .exdev => true | _ => false) = true ∧
    content { twoNames (.symlink 0) with dev := fun n => n } 1 = some [1, 2, 3] ∧
    (moveFile { twoNames (.symlink 0) with dev := fun n => n } 1 2).2 = .ok () ∧
    content (moveFile { twoNames (.symlink 0) with dev := fun n => n } 1 2).1 2 = some [1, 2, 3] ∧
    (moveFile { twoNames (.symlink 0) with dev := fun n => n } 1 2).1.entry 1 = .missing .ok ∧
    content (moveFile { twoNames (.symlink 0) with dev := fun n => n } 1 2).1 0 = some [1, 2, 3] := by
  decide

end Glb.C18
