/-
  C18 — CopyFile and MoveFile never lose file content.

  Theorems quantify over EVERY file-system state of the model (arbitrary entry map: hard links,
  symbolic links — chains, dangling, loops —, directories, missing names with any parent state,
  arbitrary inode contents, arbitrary device assignment) and every pair of names `src`, `dst`,
  including `src = dst` (same path; the kernel maps other spellings such as `./p` to the same
  directory entry) and every aliasing of `dst` to the source's inode.  `Fresh fs` only says the
  model's inode allocator does not hand out an inode that is in use.
  `copyFile`/`moveFile` are interpreters of the event lists tied to the source by
  Glb/Tie/Osutil.lean.  Helper lemmas: Glb/Proofs/Files.lean.
-/
import Glb.Proofs.Files

namespace Glb.C18
open Glb.Files Glb.Generated

/-- **CopyFile preserves content.** If `src` names (through any chain of symlinks) a regular
    file with bytes `b`:  result ok ⇒ `dst` and `src` both hold exactly `b` afterwards and the
    returned count is `b.length`;  result error ⇒ the file system is unchanged (in particular the
    source's content is intact).  No assumption relates `dst` to `src`: same name, symlink to
    it, hard link of it, … are all covered. -/
theorem copy_preserves (fs : FS) (src dst : Name) (b : Bytes) (hf : Fresh fs)
    (hs : content fs src = some b) :
    match copyFile fs src dst with
    | (fs', .ok n) => content fs' dst = some b ∧ content fs' src = some b ∧ n = b.length
    | (fs', .error _) => fs' = fs := by
  unfold content at hs
  cases hsrc : resolve fs src with
  | file x i =>
    simp [hsrc] at hs
    subst hs
    have hspec := copyFile_spec fs src dst x i hf hsrc
    cases hc : copyFile fs src dst with
    | mk fs1 r =>
      rw [hc] at hspec
      cases r with
      | error e => exact hspec
      | ok n =>
        simp only [CopyOk] at hspec ⊢
        obtain ⟨hn, hdi, _, hent, y, k, _, hy, hdk⟩ := hspec
        refine ⟨by simp [content, hy, hdk], ?_, hn⟩
        -- the source still resolves to inode i: entries of existing names are unchanged
        have hx := resolveN_entries_kept fs.entry fs1.entry hent
        simp [content, resolve, hx _ _ _ _ hsrc, hdi]
  | _ => simp [hsrc] at hs

/-- **Every aliasing is rejected before anything is touched.** Whenever `dst` resolves to the
    very inode `src` resolves to — the same name, a symbolic link (chain) to it, a hard link of
    it — CopyFile returns the same-file error and the file system is unchanged. -/
theorem copy_alias_rejected (fs : FS) (src dst : Name) (x y : Name) (i : Ino)
    (hsrc : resolve fs src = .file x i) (hdst : resolve fs dst = .file y i) :
    copyFile fs src dst = (fs, .error .sameFile) := by
  simp [copyFile, runCopy, copyProg, List.foldl, copyStep, openRead, hsrc, fstat, stat, hdst]

/-- a missing source: error, nothing created, nothing truncated -/
theorem copy_missing_source (fs : FS) (src dst : Name) (m : Name) (p : PState)
    (hsrc : resolve fs src = .missing m p) :
    ∃ e, copyFile fs src dst = (fs, .error e) := by
  cases p <;>
    simp [copyFile, runCopy, copyProg, List.foldl, copyStep, openRead, hsrc, resErr]

/-- **MoveFile preserves content.** If `src` is a directory entry of a regular file with inode
    `i`:  result ok ⇒ `dst` holds exactly the bytes the source held;  result error ⇒ the file
    system is unchanged (the source is still there with its content).  Covers the rename path
    (incl. the POSIX no-op when `dst` is the same entry or a hard link of `src`, and replacing a
    symlink `dst` — the name, not its target) and the fall-back copy+remove path for *every*
    reason rename can fail (EXDEV, directory destination, missing parent, …), incl. `dst` being
    a cross-device symlink back to `src` (guard ⇒ error, source kept).

    The hypothesis `fs.entry src = .file i` (the source *name* is not itself a symbolic link)
    cannot be dropped: see `move_symlink_source_loses_data`. -/
theorem move_preserves (fs : FS) (src dst : Name) (i : Ino) (hf : Fresh fs)
    (hsrc : fs.entry src = .file i) :
    match moveFile fs src dst with
    | (fs', .ok _) => content fs' dst = some (fs.data i)
    | (fs', .error _) => fs' = fs := by
  have hres : resolve fs src = .file src i := by simp [resolve, resolveN, hsrc]
  cases hr : rename fs src dst with
  | ok fs1 =>
    simp [moveFile, runMove, moveProg, List.foldl, moveStep, hr]
    exact rename_file_ok fs fs1 src dst i hsrc hr
  | error e =>
    have hspec := copyFile_spec fs src dst src i hf hres
    cases hc : copyFile fs src dst with
    | mk fs1 r =>
      rw [hc] at hspec
      cases r with
      | error e2 =>
        simp only at hspec
        simp [moveFile, runMove, moveProg, List.foldl, moveStep, hr, hc, hspec]
      | ok n =>
        simp only [CopyOk] at hspec
        obtain ⟨_, hdi, _, hent, y, k, hki, hy, hdk⟩ := hspec
        have hs1 : fs1.entry src = .file i := by rw [hent src (by simp [hsrc]), hsrc]
        simp [moveFile, runMove, moveProg, List.foldl, moveStep, hr, hc, unlink, hs1]
        simp only [resolve] at hy
        have hyk := resolveN_file_entry _ _ _ _ _ hy
        have hne : y ≠ src := by
          intro e; subst e; rw [hs1] at hyk; simp at hyk; exact hki hyk.symm
        have := resolveN_upd_other fs1.entry src (.missing .ok) (by simp [hs1]) _ _ _ _ hne hy
        simp [content, resolve, this, hdk]

/-- **The copy+remove fall-back preserves content for every kind of source name.** Whenever
    `rename` fails (other file system, directory destination, missing parent, …) and `src`
    names a regular file *through any chain of symlinks*: result ok ⇒ `dst` holds the source's
    bytes; result error ⇒ the file system is unchanged. -/
theorem move_fallback_preserves (fs : FS) (src dst : Name) (b : Bytes) (e : Err) (hf : Fresh fs)
    (hs : content fs src = some b) (hr : rename fs src dst = .error e) :
    match moveFile fs src dst with
    | (fs', .ok _) => content fs' dst = some b
    | (fs', .error _) => fs' = fs := by
  unfold content at hs
  cases hsrc : resolve fs src with
  | file x i =>
    simp [hsrc] at hs
    subst hs
    have hspec := copyFile_spec fs src dst x i hf hsrc
    cases hc : copyFile fs src dst with
    | mk fs1 r =>
      rw [hc] at hspec
      cases r with
      | error e2 =>
        simp only at hspec
        simp [moveFile, runMove, moveProg, List.foldl, moveStep, hr, hc, hspec]
      | ok n =>
        simp only [CopyOk] at hspec
        obtain ⟨_, hdi, _, hent, y, k, hki, hy, hdk⟩ := hspec
        simp only [resolve] at hsrc hy
        have hsrc1 := resolveN_entries_kept fs.entry fs1.entry hent _ _ _ _ hsrc
        -- dst's chain never reaches the name `src`: it would end in inode i, not k
        have hunreached : ∀ f', f' ≤ maxLinks + 1 → resolveN fs1.entry f' src ≠ .file y k := by
          intro f' hf' h
          have := resolveN_mono fs1.entry f' src _ h (by simp) (maxLinks + 1) hf'
          rw [hsrc1] at this
          simp at this
          exact hki this.2.symm
        have hdst2 := resolveN_upd_unreached fs1.entry src (.missing .ok) _ _ _ _ hy hunreached
        -- the source name exists in fs1 (it resolves), so `os.Remove` succeeds
        cases hes : fs.entry src with
        | missing p => simp [resolveN, hes] at hsrc
        | dir => simp [resolveN, hes] at hsrc
        | file i' =>
          have hs1 : fs1.entry src = .file i' := by rw [hent src (by simp [hes]), hes]
          simp [moveFile, runMove, moveProg, List.foldl, moveStep, hr, hc, unlink, hs1]
          simp [content, resolve, hdst2, hdk]
        | symlink t =>
          have hs1 : fs1.entry src = .symlink t := by rw [hent src (by simp [hes]), hes]
          simp [moveFile, runMove, moveProg, List.foldl, moveStep, hr, hc, unlink, hs1]
          simp [content, resolve, hdst2, hdk]
  | _ => simp [hsrc] at hs

/-- **The source is removed only after the destination is complete.** If after MoveFile the
    source name no longer is the entry it was, then MoveFile returned nil and `dst` holds the
    original bytes. -/
theorem move_removes_source_only_after_copy (fs : FS) (src dst : Name) (i : Ino) (hf : Fresh fs)
    (hsrc : fs.entry src = .file i)
    (hgone : (moveFile fs src dst).1.entry src ≠ .file i) :
    (∃ u, (moveFile fs src dst).2 = .ok u) ∧
      content (moveFile fs src dst).1 dst = some (fs.data i) := by
  have h := move_preserves fs src dst i hf hsrc
  cases hm : moveFile fs src dst with
  | mk fs' r =>
    rw [hm] at h hgone
    cases r with
    | ok u => exact ⟨⟨u, rfl⟩, h⟩
    | error e => simp only at h; subst h; exact absurd hsrc hgone

/-! ## Findings documented by concrete witnesses -/

/-- names 0 and 1, inode 0 holds `[1,2,3]`; name 1 is `alias` -/
def twoNames (alias : Entry) : FS :=
  { entry := fun n => if n = 0 then .file 0 else if n = 1 then alias else .missing .ok,
    data := fun i => if i = 0 then [1, 2, 3] else [],
    dev := fun _ => 0, next := 1 }

/-- **F6 (fixed by 270ff91).** The pinned order (Open, Create, Copy — no same-file guard)
    returns `(0, nil)` and leaves the source empty when the destination is a symlink to the
    source, a hard link of it, or the same path; the guarded order rejects all three and keeps
    the bytes. -/
theorem pinned_copy_loses_data :
    ∀ alias ∈ [Entry.symlink 0, Entry.file 0],
      (copyFilePinned (twoNames alias) 0 1).2 = .ok 0 ∧
      content (copyFilePinned (twoNames alias) 0 1).1 0 = some [] ∧
      (copyFilePinned (twoNames alias) 0 0).2 = .ok 0 ∧
      content (copyFilePinned (twoNames alias) 0 0).1 0 = some [] ∧
      (copyFile (twoNames alias) 0 1).2 = .error .sameFile ∧
      content (copyFile (twoNames alias) 0 1).1 0 = some [1, 2, 3] ∧
      (copyFile (twoNames alias) 0 0).2 = .error .sameFile := by decide

/-- **Outside the property's quantifier, reported:** when the *source name* is a symbolic link
    to the destination (`src → dst`), `rename(src, dst)` succeeds and replaces `dst` by the link,
    which now points to itself: MoveFile returns nil and the bytes are unreachable.  (Here name 1
    is the symlink and the source, name 0 the file and the destination.) -/
theorem move_symlink_source_loses_data :
    content (twoNames (.symlink 0)) 1 = some [1, 2, 3] ∧
    (moveFile (twoNames (.symlink 0)) 1 0).2 = .ok () ∧
    content (moveFile (twoNames (.symlink 0)) 1 0).1 0 = none ∧
    resolve (moveFile (twoNames (.symlink 0)) 1 0).1 0 = .loop := by decide

/-! ## Non-vacuity -/

example : Fresh (twoNames (.symlink 0)) := by
  intro n i h
  simp only [twoNames] at h ⊢
  split at h
  · simp at h; subst h; exact Nat.zero_lt_one
  · split at h <;> simp at h

example : content (twoNames (.file 0)) 0 = some [1, 2, 3] := by decide

/-- an ordinary successful copy to a fresh name, and one through a dangling symlink -/
example : (copyFile (twoNames (.symlink 5)) 0 2).2 = .ok 3 ∧
    content (copyFile (twoNames (.symlink 5)) 0 2).1 2 = some [1, 2, 3] ∧
    (copyFile (twoNames (.symlink 5)) 0 1).2 = .ok 3 ∧
    content (copyFile (twoNames (.symlink 5)) 0 1).1 5 = some [1, 2, 3] := by decide

/-- MoveFile: same device = rename; other device = copy + remove; onto a hard link = no-op -/
example :
    (moveFile (twoNames (.missing .ok)) 0 1).2 = .ok () ∧
    content (moveFile (twoNames (.missing .ok)) 0 1).1 1 = some [1, 2, 3] ∧
    (moveFile (twoNames (.missing .ok)) 0 1).1.entry 0 = .missing .ok ∧
    (moveFile { twoNames (.missing .ok) with dev := fun n => n } 0 1).2 = .ok () ∧
    content (moveFile { twoNames (.missing .ok) with dev := fun n => n } 0 1).1 1 = some [1, 2, 3] ∧
    (moveFile { twoNames (.missing .ok) with dev := fun n => n } 0 1).1.entry 0 = .missing .ok ∧
    (moveFile (twoNames (.file 0)) 0 1).2 = .ok () ∧
    (moveFile (twoNames (.file 0)) 0 1).1.entry 0 = .file 0 ∧
    (moveFile { twoNames (.symlink 0) with dev := fun n => n } 0 1).2 = .error .sameFile := by
  decide

/-- hypotheses of `move_fallback_preserves` with a symlink source moved to another device:
    the link's target content arrives, the link is removed, the target file stays -/
example :
    (match rename { twoNames (.symlink 0) with dev := fun n => n } 1 2 with
      | .error .exdev => true | _ => false) = true ∧
    content { twoNames (.symlink 0) with dev := fun n => n } 1 = some [1, 2, 3] ∧
    (moveFile { twoNames (.symlink 0) with dev := fun n => n } 1 2).2 = .ok () ∧
    content (moveFile { twoNames (.symlink 0) with dev := fun n => n } 1 2).1 2 = some [1, 2, 3] ∧
    (moveFile { twoNames (.symlink 0) with dev := fun n => n } 1 2).1.entry 1 = .missing .ok ∧
    content (moveFile { twoNames (.symlink 0) with dev := fun n => n } 1 2).1 0 = some [1, 2, 3] := by
  decide

end Glb.C18
