/-
  C17 — ResolveUrlPath never leaves the base directory.

  Only property theorems live here; helper lemmas are in Glb/Proofs/PathClean.lean, the model of
  `path.Clean` / `filepath.Join` / `fsutil.ResolveUrlPath` in Glb/Model/PathClean.lean, the
  normal form and `beneath` in Glb/Spec/PathNF.lean.  All theorems quantify over ALL byte strings
  (invalid UTF-8, NUL, backslashes included).
-/
import Glb.Proofs.PathClean

namespace Glb.C17
open Glb.PathClean Glb.PathNF

/-! ## Clean computes the normal form -/

/-- Clean prints the normal form of its argument, and what it prints is *in* normal form:
    reading the output back yields the same normal form (so `render` loses nothing and two
    paths have the same Clean iff they have the same normal form, see `clean_eq_iff`). -/
theorem clean_nf (p : Bytes) : clean p = (nf p).render ∧ nf (clean p) = nf p :=
  ⟨rfl, nf_render (nf p) (nf_wellFormed p)⟩

/-- shape of every normal form: `".."^k ++ segs`, all `segs` real names (non-empty, not ".",
    not "..", no '/'), and `k = 0` for rooted paths. -/
theorem nf_shape (p : Bytes) :
    ∃ k segs, (nf p).stack = List.replicate k dotdot ++ segs ∧ (∀ s ∈ segs, Normal s) ∧
      ((nf p).rooted = true → k = 0) :=
  nf_wellFormed p

/-- a rooted path has no ".." (nor "", ".") left after Clean: every remaining segment is a name -/
theorem clean_rooted_no_dotdot (p : Bytes) (h : (nf p).rooted = true) :
    ∀ s ∈ (nf p).stack, Normal s := by
  obtain ⟨k, segs, hst, hn, hk⟩ := nf_wellFormed p
  have := hk h
  subst this
  simpa [hst] using hn

/-- in particular the cleaned rooted path is "/" followed by names separated by single slashes -/
theorem clean_rooted_form (p : Bytes) (h : (nf p).rooted = true) :
    clean p = slash :: unsplit (nf p).stack := by
  simp [clean_eq_render, NF.render, render, h]

theorem clean_idem (p : Bytes) : clean (clean p) = clean p := by
  rw [clean_eq_render (clean p), (clean_nf p).2]
  rfl

/-- Clean identifies exactly the paths with the same normal form -/
theorem clean_eq_iff (p q : Bytes) : clean p = clean q ↔ nf p = nf q := by
  constructor
  · intro h
    rw [← (clean_nf p).2, ← (clean_nf q).2, h]
  · intro h
    rw [clean_eq_render, clean_eq_render, h]

/-! ## Containment -/

/-- **C17.** For every non-empty base and every URL path (arbitrary bytes) the resolved path has
    the rootedness of the base and its normal form is the normal form of the base followed by
    the normal-form segments of `"/" ++ url`, all of which are real names: the result is the base
    itself or lies beneath it. -/
theorem resolve_contained (base url : Bytes) (hb : base ≠ []) :
    beneathVia base (resolveUrlPath base url) (nf (slash :: url)).stack := by
  have hroot : (nf (slash :: url)).rooted = true := by simp [nf, isRooted]
  have hx := clean_rooted_no_dotdot (slash :: url) hroot
  have hfs := nf_forceSlash url
  have hroot' : (nf (forceSlash url)).rooted = true := by rw [hfs]; exact hroot
  have hres : resolveUrlPath base url =
      clean (base ++ slash :: slash :: unsplit (nf (slash :: url)).stack) := by
    simp only [resolveUrlPath, fromSlash]
    rw [join_nonempty base _ hb, clean_rooted_form _ hroot', hfs]
  have hnf : nf (resolveUrlPath base url) =
      ⟨(nf base).rooted, (nf base).stack ++ (nf (slash :: url)).stack⟩ := by
    rw [hres, (clean_nf _).2, nf_base_slash_rooted base hb _ hx]
  exact ⟨by rw [hnf], hx, by rw [hnf]⟩

theorem resolve_beneath (base url : Bytes) (hb : base ≠ []) :
    beneath base (resolveUrlPath base url) :=
  ⟨_, resolve_contained base url hb⟩

/-- the resolved path is always clean (a fixed point of Clean) -/
theorem resolve_clean (base url : Bytes) (hb : base ≠ []) :
    clean (resolveUrlPath base url) = resolveUrlPath base url := by
  simp only [resolveUrlPath]
  rw [join_nonempty base _ hb, clean_idem]

/-- the returned text itself: the base's normal form with the URL's names appended, printed.
    (`clean base` is the same print without the appended names.) -/
theorem resolve_text (base url : Bytes) (hb : base ≠ []) :
    resolveUrlPath base url =
      render (nf base).rooted ((nf base).stack ++ (nf (slash :: url)).stack) ∧
    clean base = render (nf base).rooted (nf base).stack := by
  refine ⟨?_, rfl⟩
  obtain ⟨h1, _, h3⟩ := resolve_contained base url hb
  rw [← resolve_clean base url hb, clean_eq_render, NF.render, h1, h3]

/-- For a URL path without "." / ".." segments the result is simply `filepath.Join(base, url)`
    `= Clean(base + "/" + url)`. -/
theorem resolve_plain (base url : Bytes) (hb : base ≠ []) (hu : DotFree url) :
    resolveUrlPath base url = clean (base ++ slash :: url) ∧
      resolveUrlPath base url = join [base, url] := by
  have h1 : resolveUrlPath base url = clean (base ++ slash :: url) := by
    have hc := resolve_contained base url hb
    have hcl := resolve_clean base url hb
    rw [← hcl]
    apply (clean_eq_iff _ _).mpr
    rw [nf_base_slash_dotfree base hb url hu, ← nf_slash_dotfree url hu]
    obtain ⟨h1, _, h3⟩ := hc
    cases hr : nf (resolveUrlPath base url) with
    | mk r st =>
      rw [hr] at h1 h3
      simp only at h1 h3
      rw [h1, h3]
  exact ⟨h1, by rw [h1, join_nonempty base url hb]⟩

/-! ## Non-vacuity: concrete hostile inputs (`b "…"` spelled as bytes) -/

-- "/data", "../../etc/passwd" ↦ "/data/etc/passwd"
example : resolveUrlPath [47,100,97,116,97] [46,46,47,46,46,47,101,116,99,47,112,97,115,115,119,100]
    = [47,100,97,116,97,47,101,116,99,47,112,97,115,115,119,100] := by decide
-- "/data", "a/../../b" ↦ "/data/b"
example : resolveUrlPath [47,100,97,116,97] [97,47,46,46,47,46,46,47,98] = [47,100,97,116,97,47,98] := by decide
-- "/data", "" ↦ "/data"
example : resolveUrlPath [47,100,97,116,97] [] = [47,100,97,116,97] := by decide
-- "/data", "x" (no leading slash) ↦ "/data/x";  "/data", "/x" ↦ the same
example : resolveUrlPath [47,100,97,116,97] [120] = [47,100,97,116,97,47,120] := by decide
example : resolveUrlPath [47,100,97,116,97] [47,120] = [47,100,97,116,97,47,120] := by decide
-- relative base "..", url "/../a//" ↦ "../a";  base "a/../.." (= "..") the same
example : resolveUrlPath [46,46] [47,46,46,47,97,47,47] = [46,46,47,97] := by decide
example : resolveUrlPath [97,47,46,46,47,46,46] [47,46,46,47,97,47,47] = [46,46,47,97] := by decide
-- base ".", url "/.." ↦ ".";  base "/", url "..\\.." ↦ "/..\\.." (backslash is an ordinary byte)
example : resolveUrlPath [46] [47,46,46] = [46] := by decide
example : resolveUrlPath [47] [46,46,92,46,46] = [47,46,46,92,46,46] := by decide
-- the witness of `resolve_contained` for "../../etc/passwd" is ["etc","passwd"]
example : (nf (slash :: [46,46,47,46,46,47,101,116,99,47,112,97,115,115,119,100])).stack
    = [[101,116,99],[112,97,115,115,119,100]] := by decide
-- normal forms: "a/../../b/./c//" ↦ (relative, ["..","b","c"]);  "/../a" ↦ (rooted, ["a"])
example : nf [97,47,46,46,47,46,46,47,98,47,46,47,99,47,47] = ⟨false, [dotdot, [98], [99]]⟩ := by decide
example : nf [47,46,46,47,97] = ⟨true, [[97]]⟩ := by decide
-- hypotheses are satisfiable: "a//b/" is dot-free, "a/./b" and ".." are not; a rooted path exists
example : DotFree [97,47,47,98,47] := by decide
example : ¬ DotFree [97,47,46,47,98] := by decide
example : ¬ DotFree [46,46] := by decide
example : (nf [47,97]).rooted = true := by decide
-- containment is not trivially true: "/etc" is not beneath "/data", ".." is not beneath "."
example : ¬ beneath [47,100,97,116,97] [47,101,116,99] := by
  rintro ⟨xs, _, _, h⟩
  have h' : [[101,116,99]] = [[100,97,116,97]] ++ xs := h
  simp at h'
example : ¬ beneath [46] [46,46] := by
  rintro ⟨xs, _, hn, h⟩
  have h' : [dotdot] = [] ++ xs := h
  have hx : xs = [dotdot] := by simpa using h'.symm
  exact (hn dotdot (by simp [hx])).2.2.1 rfl

end Glb.C17
