/-
  C19 — ProgressWriter reports true, monotone progress and never stalls the writer.

  All theorems quantify over every program `P` (any list of Write/WriteString calls with any
  reported byte counts — short, failed, … — and an optional final Close) and over every state
  `Reachable P s`, i.e. every finite interleaving with every consumer schedule (the consumer may
  park in / leave the receive at any instant).  Only `received_monotone` needs `0 ≤ n`.
  Helper lemmas (the inductive invariant `Good`) are in Glb/Proofs/Progress.lean.
-/
import Glb.Proofs.Progress

namespace Glb.C19
open Glb.Progress Glb.Generated

/-- **Size is the sum of the reported counts.** Whenever the producer is not between "the wrapped
    writer returned n" and `pw.size += n`, `Size()` equals the sum of every byte count the
    wrapped writer has reported so far (short and failed writes included), and those counts are
    the first calls of the program, in order. -/
theorem size_is_sum (P : Prog) (s : St) (h : Reachable P s) (hp : addPending s = false) :
    s.size = s.reported.sum ∧ s.reported <+: counts P.writes := by
  have hg := good_of_reachable P s h
  refine ⟨?_, reported_prefix P s hg⟩
  obtain ⟨size, reg, cur, cont, todo, wantClose, cons, closed, reported, recvd, sentTotal,
    closeDone⟩ := s
  cases cur with
  | none => simp only [Good] at hg; exact hg.2.2.1
  | some c =>
    cases c with
    | w o =>
      simp only [Good] at hg
      obtain ⟨_, _, _, _, h | ⟨R0, _, _, _, _, ⟨hc | hc, _⟩ | ⟨_, h⟩⟩ | h⟩ := hg
      · exact h.2.1
      · simp [addPending, hc] at hp
      · simp [addPending, hc] at hp
      · exact h
      · exact h.2.2.1
    | close => simp only [Good] at hg; exact hg.2.2.2.2.2.1

/-- between calls (where the owner may call `Size()`): the size is the sum of the counts of the
    calls completed so far -/
theorem size_at_rest (P : Prog) (s : St) (h : Reachable P s) (hc : s.cur = none) :
    s.size = ((counts P.writes).take (P.writes.length - s.todo.length)).sum := by
  have hg := good_of_reachable P s h
  obtain ⟨size, reg, cur, cont, todo, wantClose, cons, closed, reported, recvd, sentTotal,
    closeDone⟩ := s
  simp only at hc; subst hc
  simp only [Good, Hist] at hg
  obtain ⟨_, _, hsz, hh, _⟩ := hg
  have hl : reported.length + todo.length = P.writes.length := by
    have := congrArg List.length hh
    simpa [counts] using this
  have : (counts P.writes).take (P.writes.length - todo.length) = reported := by
    rw [← hh, show P.writes.length - todo.length = reported.length by omega]
    simp
  simp [this, hsz]

/-- **A Write never blocks.** In every reachable state in which the producer is inside
    Write/WriteString, it has an enabled step — whatever the consumer is doing (`c` arbitrary). -/
theorem never_blocks (P : Prog) (s : St) (h : Reachable P s) (hw : inWrite s = true) (c : Cons) :
    ∃ l s', (l, s') ∈ enabled { s with cons := c } ∧ l.byProducer = true := by
  have hg := good_of_reachable P s h
  obtain ⟨size, reg, cur, cont, todo, wantClose, cons, closed, reported, recvd, sentTotal,
    closeDone⟩ := s
  cases cur with
  | none => simp [inWrite] at hw
  | some cl =>
    cases cl with
    | close => simp [inWrite] at hw
    | w o =>
      simp only [Good] at hg
      obtain ⟨_, rfl, _, _, hcase⟩ := hg
      have hcont : cont = progOf (.w o) ∨ cont = [.callSum, .ret] ∨
          cont = [.addSize, .ifStatus, .trySendSize, .endIf, .ret] ∨
          cont = [.ifStatus, .trySendSize, .endIf, .ret] ∨ cont = [.trySendSize, .endIf, .ret] ∨
          cont = [.endIf, .ret] ∨ cont = [.ret] := by grind
      suffices hne : prodSteps ⟨size, reg, some (Call.w o), cont, todo, wantClose, c, false,
          reported, recvd, sentTotal, closeDone⟩ ≠ [] by
        obtain ⟨⟨l, s'⟩, hm⟩ := List.exists_mem_of_ne_nil _ hne
        exact ⟨l, s', by simp [enabled, hm], prodSteps_byProducer _ _ _ hm⟩
      rcases hcont with rfl | rfl | rfl | rfl | rfl | rfl | rfl
      · by_cases hs : o.str = true <;>
          simp [prodSteps, progOf, hs, writeProg, writeStringProg]
      · simp [prodSteps]
      · simp [prodSteps]
      · simp [prodSteps]
      · by_cases hpk : c = .parked <;> simp [prodSteps, hpk]
      · simp [prodSteps]
      · simp [prodSteps]

/-- … and every step the producer takes inside a call strictly decreases `measure` (at most 9 at
    the start of a call), while consumer steps leave it unchanged: together with `never_blocks`,
    a Write returns after a bounded number of its own steps under every schedule. -/
theorem call_steps_decrease (s : St) (l : Label) (s' : St) (hc : s.cur.isSome = true)
    (hstep : (l, s') ∈ prodSteps s) : Progress.measure s' < Progress.measure s := by
  unfold prodSteps at hstep
  repeat' split at hstep
  all_goals simp [finish, rendezvous] at hstep
  all_goals simp_all [Progress.measure, weight, sumProg]
  all_goals first | omega | skip
  all_goals (split at hstep <;> (simp at hstep; obtain ⟨_, rfl⟩ := hstep; simp; try omega))

theorem cons_steps_keep_measure (s : St) (l : Label) (s' : St) (hstep : (l, s') ∈ consSteps s) :
    Progress.measure s' = Progress.measure s ∧ s'.cont = s.cont ∧ s'.cur = s.cur := by
  obtain ⟨size, reg, cur, cont, todo, wantClose, cons, closed, reported, recvd, sentTotal,
    closeDone⟩ := s
  cases cons <;> simp [consSteps] at hstep <;> grind [Progress.measure]

/-- **Received values are prefix sums, in order.** Before Close's send the received sequence is a
    subsequence of the prefix sums of the reported counts (= the values `Size()` takes after each
    write); once Close has sent, it is such a subsequence followed by the total, and all calls
    of the program have been reported. -/
theorem received_monotone_prefix_sums (P : Prog) (s : St) (h : Reachable P s) :
    s.reported <+: counts P.writes ∧
    (s.sentTotal = false → s.recvd.Sublist (psums s.reported)) ∧
    (s.sentTotal = true → s.reported = counts P.writes ∧
        ∃ l : List Int, l.Sublist (psums s.reported) ∧ s.recvd = l ++ [s.reported.sum]) := by
  have hg := good_of_reachable P s h
  refine ⟨reported_prefix P s hg, ?_⟩
  obtain ⟨size, reg, cur, cont, todo, wantClose, cons, closed, reported, recvd, sentTotal,
    closeDone⟩ := s
  cases cur with
  | none =>
    simp only [Good, Hist, Total] at hg
    obtain ⟨_, _, _, hh, hrest⟩ := hg
    by_cases hcd : closeDone = true
    · simp [hcd] at hrest
      obtain ⟨_, rfl, rfl, _, ht⟩ := hrest
      simp [counts] at hh
      simpa [hh, counts] using ht
    · simp [hcd] at hrest
      simp [hrest]
  | some c =>
    cases c with
    | w o =>
      simp only [Good, Hist] at hg
      obtain ⟨_, _, rfl, _, h | ⟨R0, rfl, _, _, hsub, _⟩ | h⟩ := hg
      · simp [h.2.2.2]
      · simp [psums_append]
        exact hsub.trans (List.sublist_append_left _ _)
      · simp [h.2.2.2.2]
    | close =>
      simp only [Good, Total] at hg
      obtain ⟨_, _, _, _, hrep, _, ⟨_, _, rfl, hsub⟩ | ⟨_, _, rfl, ht⟩ | ⟨_, _, rfl, ht⟩⟩ := hg
      · simp [hsub]
      · simpa [hrep] using ht
      · simpa [hrep] using ht

/-- **… and non-decreasing**, when the wrapped writer never reports a negative count. -/
theorem received_monotone (P : Prog) (s : St) (h : Reachable P s)
    (hnn : ∀ o ∈ P.writes, 0 ≤ o.n) : s.recvd.Pairwise (· ≤ ·) := by
  obtain ⟨⟨rest, hpre⟩, h0, h1⟩ := received_monotone_prefix_sums P s h
  have hrep : ∀ x ∈ s.reported, 0 ≤ x := by
    intro x hx
    have : x ∈ counts P.writes := by rw [← hpre]; simp [hx]
    simp [counts] at this
    obtain ⟨o, ho, rfl⟩ := this
    exact hnn o ho
  have hpw := psums_total_pairwise s.reported hrep
  by_cases hs : s.sentTotal = true
  · obtain ⟨_, l, hl, hr⟩ := h1 hs
    rw [hr]
    exact hpw.sublist (hl.append_right _)
  · have := h0 (by simpa using hs)
    exact hpw.sublist (this.trans (List.sublist_append_left _ _))

/-- **Close delivers the total.** Once Close has returned, the last value received is the sum
    of all reported counts of the program and the channel is closed. -/
theorem close_delivers_total (P : Prog) (s : St) (h : Reachable P s) (hd : s.closeDone = true) :
    s.recvd.getLast? = some (counts P.writes).sum ∧ s.closed = true ∧
      s.size = (counts P.writes).sum := by
  have hg := good_of_reachable P s h
  obtain ⟨size, reg, cur, cont, todo, wantClose, cons, closed, reported, recvd, sentTotal,
    closeDone⟩ := s
  simp only at hd; subst hd
  cases cur with
  | none =>
    simp only [Good, Hist, Total] at hg
    obtain ⟨_, _, hsz, hh, hrest⟩ := hg
    simp at hrest
    obtain ⟨rfl, _, rfl, _, l, _, hr⟩ := hrest
    simp [counts] at hh
    simp [hr, hh, counts, hsz]
  | some c =>
    cases c <;> simp [Good] at hg

/-- **Close's send is the only step that needs the consumer.** As long as the program has not
    run to completion the producer has an enabled step, except exactly at Close's blocking send
    while no receiver is parked — and that step is enabled as soon as the consumer parks. -/
theorem only_close_send_needs_consumer (P : Prog) (s : St) (h : Reachable P s)
    (hf : finished s = false) :
    prodSteps s ≠ [] ∨
    (s.cur = some .close ∧ s.cont = [.sendSize, .closeStatus, .endIf] ∧ s.cons ≠ .parked ∧
      prodSteps { s with cons := .parked } ≠ []) := by
  have hg := good_of_reachable P s h
  obtain ⟨size, reg, cur, cont, todo, wantClose, cons, closed, reported, recvd, sentTotal,
    closeDone⟩ := s
  cases cur with
  | none =>
    left
    cases todo with
    | cons o rest => simp [prodSteps]
    | nil =>
      cases wantClose with
      | true => simp [prodSteps]
      | false => simp [finished] at hf
  | some c =>
    cases c with
    | w o =>
      obtain ⟨l, s', hm, _⟩ := never_blocks P _ h (by simp [inWrite]) cons
      simp only [enabled, List.mem_append] at hm
      rcases hm with hm | hm
      · exact Or.inl (List.ne_nil_of_mem hm)
      · rename_i hb
        cases cons <;> simp [consSteps] at hm <;> grind [Label.byProducer]
    | close =>
      simp only [Good] at hg
      obtain ⟨_, _, _, _, _, _, ⟨hc | hc, rfl, _⟩ | ⟨rfl, rfl, _⟩ | ⟨hc | hc, _⟩⟩ := hg <;>
        try subst hc
      · simp [prodSteps, closeProg]
      · by_cases hpk : cons = .parked
        · simp [prodSteps, hpk]
        · right; simp [prodSteps, hpk]
      · simp [prodSteps]
      · simp [prodSteps]
      · simp [prodSteps]

/-- a consumer that observes "closed" really saw `close(pw.status)` -/
theorem closed_observed_after_close (P : Prog) (s : St) (h : Reachable P s)
    (hc : s.cons = .gotClosed) : s.closed = true :=
  (good_of_reachable P s h).1 hc

/-! ## Non-vacuity: a concrete program and schedule exercising every branch -/

/-- Write reports 3; a failed Write reports 0; WriteString reports 2 (short); Close. -/
def demo : Prog := { writes := [⟨3, false, false⟩, ⟨0, true, false⟩, ⟨2, true, true⟩], close := true }

/-- consumer parked during write 1 and 3, away during write 2, parks for Close, sees the close -/
def demoSched : List Nat :=
  [0,0,0,0,0,1,0,0,0,1] ++ [0,0,0,0,0,0,0,0] ++ [0,0,0,0,0,1,0,0,0,1] ++ [0,0,0,0,0,0,0] ++ [0,0,1,0]

example : ∃ s, Reachable demo s ∧ s.closeDone = true ∧ s.recvd = [3, 5, 5] ∧ s.size = 5 ∧
    s.reported = [3, 0, 2] ∧ s.closed = true ∧ finished s = true := by
  obtain ⟨s, hr, hp⟩ := run_witness demo demoSched (fun t => decide (t.closeDone = true ∧
    t.recvd = [3, 5, 5] ∧ t.size = 5 ∧ t.reported = [3, 0, 2] ∧ t.closed = true ∧
    finished t = true)) (by decide)
  exact ⟨s, hr, by simpa using hp⟩

/-- a state inside a Write exists (hypothesis of `never_blocks`), with the consumer absent, at
    the select -/
example : ∃ s, Reachable demo s ∧ inWrite s = true ∧ s.cont = [.trySendSize, .endIf, .ret] ∧
    s.cons = .away := by
  obtain ⟨s, hr, hp⟩ := run_witness demo [0,0,0,0,0] (fun t => decide (inWrite t = true ∧
    t.cont = [.trySendSize, .endIf, .ret] ∧ t.cons = .away)) (by decide)
  exact ⟨s, hr, by simpa using hp⟩

example : ∀ o ∈ demo.writes, 0 ≤ o.n := by decide

/-- with no consumer at all every write still completes: the program without Close finishes -/
example : ∃ s, Reachable { demo with close := false } s ∧
    finished s = true ∧ s.recvd = [] ∧ s.size = 5 := by
  obtain ⟨s, hr, hp⟩ := run_witness { demo with close := false } (List.replicate 24 0)
    (fun t => decide (finished t = true ∧ t.recvd = [] ∧ t.size = 5)) (by decide)
  exact ⟨s, hr, by simpa using hp⟩

/-- Close really waits for the consumer: with the consumer away the producer is stuck exactly
    at Close's send (the second disjunct of `only_close_send_needs_consumer` is inhabited) -/
example : ∃ s, Reachable demo s ∧ finished s = false ∧ prodSteps s = [] ∧
    s.cont = [.sendSize, .closeStatus, .endIf] := by
  obtain ⟨s, hr, hp⟩ := run_witness demo (List.replicate 26 0)
    (fun t => decide (finished t = false ∧ prodSteps t = [] ∧
      t.cont = [.sendSize, .closeStatus, .endIf])) (by decide)
  exact ⟨s, hr, by simpa using hp⟩

end Glb.C19
