/-
  C04 — Router dispatches every request to exactly one handler by documented precedence.

  Model: `Glb/Model/Router.lean` (trie, `parseRoute`, `findRoute`, `serveHTTP`, same index loops and
  panicking slice expressions as /repo/httpd/tree.go).  Specification: `Glb/Spec/RouteList.lean`
  (`specFind` / `specRegister` over the plain list of registered routes, no trie).
  Only the property theorems live here; the lemmas are in `Glb/Proofs/Router*.lean`.

  Reading of the property text fixed in DESIGN.md §8.1: a path without a leading '/' is walked as
  if it had one; tables containing a refused registration are outside "successfully registered
  routes".  Patterns are taken with their leading '/' (or empty); `pattern_first_byte_ignored`
  states what the code does with any other first byte.
-/
import Glb.Proofs.RouterMain

namespace Glb.C04
open Glb Glb.Router Glb.RouteList

/-- what the handler sees in `store.P` when the specification selects `mt` -/
def paramsOf (mt : Match) : Params :=
  { K := mt.binds.map (fun b => nameKey b.1), V := mt.binds.map (fun b => b.2) }

/-- **Refinement.**  For every list of registrations that all succeed (in order), every path
    (arbitrary bytes: "", "*", no leading slash, "//" runs, …) and every method string, the trie
    walk of `findRoute` returns — without panicking — exactly the route the route-list
    specification selects, with `K` = the names of that route and `V` = the texts bound to them;
    when the specification finds nothing, `findRoute` returns nil and leaves `K` empty. -/
theorem trie_refines_routes (routes : List Route) (t : Node)
    (hls : ∀ r ∈ routes, LeadingSlash r.pattern) (hb : build (routes.map regOf) = some t)
    (path method : Bytes) :
    ∃ V', findRoute t path method {} = .ok (match specFind routes path method with
      | some mt => (some mt.id, paramsOf mt)
      | none => (none, { K := [], V := V' })) := by
  have h := build_tinv hb
  rw [normRegs_eq hls] at h
  exact findRoute_eq h path method

/-- The selected route is a registered one whose method is the request's or `*`; the names bound
    are exactly that route's `:name`s / `*` in pattern order, and `Params.Get` (the lookup behind
    `RouteParam` / `RouteParamAny`) returns for each of them exactly the bound text — and "not
    found" for every other key — without panicking. -/
theorem params_bound_exactly (routes : List Route) (t : Node)
    (hls : ∀ r ∈ routes, LeadingSlash r.pattern) (hb : build (routes.map regOf) = some t)
    (path method : Bytes) (mt : Match) (hs : specFind routes path method = some mt) :
    (∃ r, routes[mt.id]? = some r ∧ (r.method = method ∨ r.method = RouteList.methodAll) ∧
        mt.binds.map (·.1) = pnames (pattern r.pattern)) ∧
    (∀ i (hi : i < mt.binds.length),
        paramsGet (paramsOf mt) (nameKey mt.binds[i].1) = .ok (some mt.binds[i].2)) ∧
    (∀ key, key ∉ (paramsOf mt).K → paramsGet (paramsOf mt) key = .ok none) := by
  have h := build_tinv hb
  rw [normRegs_eq hls] at h
  obtain ⟨r, hr, hm, hb'⟩ := specFind_sound h hs
  refine ⟨⟨r, hr, hm, hb'⟩, ?_, ?_⟩
  · -- the names of a registered route are pairwise distinct
    have hmem : (mt.id, r) ∈ indexFrom 0 routes := by
      have : ∀ (i : Nat) (rs : List Route) (j : Nat), rs[j]? = some r → (i + j, r) ∈ indexFrom i rs := by
        intro i rs
        induction rs generalizing i with
        | nil => intro j hj; simp at hj
        | cons x rs ih =>
          intro j hj
          cases j with
          | zero => simp at hj; simp [indexFrom, hj]
          | succ j =>
            have := ih (i + 1) j (by simpa using hj)
            simp only [indexFrom, List.mem_cons]
            right
            have e : i + 1 + j = i + (j + 1) := by omega
            rw [← e]; exact this
      simpa using this 0 routes mt.id hr
    have hK : (paramsOf mt).K = namesOf (pattern r.pattern) := by
      simp only [paramsOf, namesOf, ← hb', List.map_map]; rfl
    have hvalid : RouteList.validPattern (pattern r.pattern) := by
      -- from the successful build: every accepted registration passed the fragment check
      have : ∀ (regs : List Reg) (S : List Entry) (t0 : Node) (i : Nat) (t' : Node), TInv S [] t0 →
          buildFrom t0 i regs = some t' → ∀ e ∈ indexFrom i (regs.map normReg), RouteList.validPattern (pattern e.2.pattern) := by
        intro regs
        induction regs with
        | nil => intro S t0 i t' _ _ e he; simp [indexFrom] at he
        | cons x xs ih =>
          intro S t0 i t' h0 hb0 e he
          obtain ⟨t1, hp, hinv⟩ := parseRoute_spec h0 x.path x.method i
          simp only [buildFrom, hp] at hb0
          cases hr : regResult S ⟨slashed x.path, x.method⟩ with
          | error e' => simp [hr] at hb0
          | ok n =>
            simp only [hr] at hb0 hinv
            simp only [List.map_cons, indexFrom, List.mem_cons] at he
            rcases he with rfl | he
            · unfold regResult at hr
              by_cases hv : RouteList.validPattern (pattern (slashed x.path))
              · exact hv
              · split at hr
                · cases hr
                · simp at hr
            · exact ih _ t1 (i + 1) t' hinv hb0 e he
      have := this (routes.map regOf) [] Node.empty 0 t tinv_empty hb
      rw [normRegs_eq hls] at this
      exact this _ hmem
    have hnd : (paramsOf mt).K.Nodup := by rw [hK]; exact namesOf_nodup _ hvalid
    have hlen : (paramsOf mt).K.length = (paramsOf mt).V.length := by simp [paramsOf]
    intro i hi
    have hiK : i < (paramsOf mt).K.length := by simpa [paramsOf] using hi
    have := paramsGet_bound _ _ hlen hnd i hiK
    simpa [paramsOf] using this
  · intro key hkey
    exact paramsGet_unbound _ _ key hkey

/-- `findRoute` never panics — for EVERY trie (also one left behind by refused registrations),
    every path, every method and every incoming `Params`: all slice expressions of the loop are
    in bounds once the missing leading slash has been supplied. -/
theorem findRoute_never_panics (t : Node) (path method : Bytes) (ps : Params) :
    ∃ r, findRoute t path method ps = .ok r := by
  rw [findRoute_unfold]
  have hg : ∃ r, findGeneral t (normPath path) method ps = .ok r := by
    unfold findGeneral
    rw [normPath_eq, findLoop_start]
    simp only [bind, Except.bind]
    cases walkT t (segsAcc (body path) []) ps.V with
    | mk on V =>
      cases on with
      | none => exact ⟨_, rfl⟩
      | some n => simp only; cases methodNodeOrNil n method <;> exact ⟨_, rfl⟩
  split
  · cases methodNodeOrNil t method with
    | some n => exact ⟨_, rfl⟩
    | none => exact hg
  · exact hg

/-- `parseRoute` never looks at the first byte of the pattern: `"xfoo"` is registered as `"/foo"`. -/
theorem pattern_first_byte_ignored (t : Node) (b : UInt8) (s method : Bytes) (i : RouteId) :
    parseRoute t (b :: s) method i = parseRoute t (47 :: s) method i := by
  unfold parseRoute
  have h1 := parseLoop_start (b :: s)
  have h2 := parseLoop_start (47 :: s)
  simp only [List.length_cons, List.drop_succ_cons, List.drop_zero] at h1 h2
  simp only [List.length_cons, h1, h2]

/-- any history of `Handle` calls (refused ones included): the trie and the routes accepted so far -/
def runHistory : Node → List Route → List Reg → Except GoPanic (Node × List Route)
  | t, ok, [] => .ok (t, ok)
  | t, ok, r :: rs =>
    match parseRoute t r.path r.method ok.length with
    | .error e => .error e
    | .ok ⟨t', .ok _⟩ => runHistory t' (ok ++ [⟨r.path, r.method⟩]) rs
    | .ok ⟨t', .error _⟩ => runHistory t' ok rs

/-- **Registration errors.**  After ANY history of registrations (refused ones included, which
    leave nodes behind), `parseRoute` never panics and refuses a registration exactly when the
    route list says so: unknown method, else empty or repeated `:name`, else a route with the same
    shape (names forgotten) and method already registered; otherwise it reports the number of
    captured values. -/
theorem register_errors (hist : List Reg) (hh : ∀ r ∈ hist, LeadingSlash r.path) :
    ∃ t ok, runHistory Node.empty [] hist = .ok (t, ok) ∧
      ∀ (p m : Bytes) (i : RouteId), LeadingSlash p →
        ∃ t', parseRoute t p m i = .ok ⟨t', (specRegister ok ⟨p, m⟩).mapError errOf⟩ := by
  have gen : ∀ (hist : List Reg) (t0 : Node) (ok0 : List Route) (P : List (List Bytes)),
      (∀ r ∈ hist, LeadingSlash r.path) → TInv (indexFrom 0 ok0) P t0 →
      ∃ t ok P', runHistory t0 ok0 hist = .ok (t, ok) ∧ TInv (indexFrom 0 ok) P' t := by
    intro hist
    induction hist with
    | nil => intro t0 ok0 P _ h; exact ⟨t0, ok0, P, rfl, h⟩
    | cons r rs ih =>
      intro t0 ok0 P hh h
      obtain ⟨t1, hp, hinv⟩ := parseRoute_spec h r.path r.method ok0.length
      have hsl := slashed_of_leadingSlash (hh r (by simp))
      have hh' : ∀ r' ∈ rs, LeadingSlash r'.path := fun r' hr => hh r' (by simp [hr])
      simp only [runHistory, hp]
      cases hr : regResult (indexFrom 0 ok0) ⟨slashed r.path, r.method⟩ with
      | error e =>
        simp only [hr] at hinv
        obtain ⟨P', hinv⟩ := hinv
        exact ih t1 ok0 P' hh' hinv
      | ok n =>
        simp only [hr] at hinv
        have : indexFrom 0 ok0 ++ [(ok0.length, (⟨slashed r.path, r.method⟩ : Route))] =
            indexFrom 0 (ok0 ++ [⟨r.path, r.method⟩]) := by
          rw [indexFrom_append, hsl]; simp [indexFrom]
        rw [this] at hinv
        exact ih t1 _ P hh' hinv
  obtain ⟨t, ok, P, hrun, hinv⟩ := gen hist Node.empty [] [] hh (by simpa [indexFrom] using tinv_empty)
  refine ⟨t, ok, hrun, ?_⟩
  intro p m i hp
  obtain ⟨t', hpr, _⟩ := parseRoute_spec hinv p m i
  refine ⟨t', ?_⟩
  rw [hpr, slashed_of_leadingSlash hp, regResult_eq_spec _ hinv.known, indexFrom_map_snd]

/-- **Exactly one handler.**  `ServeHTTP` on a table of successfully registered routes never
    panics on its own account and invokes exactly one handler exactly once: the handler of the
    route the specification selects (seeing that route's names and bound texts), or the no-route
    handler when the specification selects nothing. -/
theorem exactly_one_handler (routes : List Route) (t : Node)
    (hls : ∀ r ∈ routes, LeadingSlash r.pattern) (hb : build (routes.map regOf) = some t)
    (path method : Bytes) :
    ∃ V', serveHTTP t path method = .ok [match specFind routes path method with
      | some mt => ⟨.route mt.id, paramsOf mt⟩
      | none => ⟨.noRoute, { K := [], V := V' }⟩] := by
  obtain ⟨V', hf⟩ := trie_refines_routes routes t hls hb path method
  refine ⟨V', ?_⟩
  unfold serveHTTP
  rw [hf]
  cases specFind routes path method <;> rfl

/-- on any trie whatsoever `ServeHTTP` runs exactly one handler and does not panic -/
theorem exactly_one_handler_any_trie (t : Node) (path method : Bytes) :
    ∃ c, serveHTTP t path method = .ok [c] := by
  obtain ⟨r, hr⟩ := findRoute_never_panics t path method {}
  unfold serveHTTP
  rw [hr]
  obtain ⟨info, ps⟩ := r
  cases info <;> exact ⟨_, rfl⟩

/-- the route list's own reading of "all registrations succeed, in order" -/
def AllAccepted : List Route → List Route → Prop
  | _, [] => True
  | ok, r :: rs => (specRegister ok r).isOk = true ∧ AllAccepted (ok ++ [r]) rs

instance : ∀ (ok rs : List Route), Decidable (AllAccepted ok rs)
  | _, [] => isTrue trivial
  | ok, r :: rs => by
    unfold AllAccepted
    exact @instDecidableAnd _ _ _ (instDecidableAllAccepted (ok ++ [r]) rs)

/-- The hypothesis of `trie_refines_routes` in terms of the route list alone: the registrations
    all succeed iff each one is accepted by `specRegister` after its predecessors. -/
theorem build_succeeds_iff (routes : List Route) (hls : ∀ r ∈ routes, LeadingSlash r.pattern) :
    (build (routes.map regOf)).isSome ↔ AllAccepted [] routes := by
  have gen : ∀ (rs ok0 : List Route) (t0 : Node), (∀ r ∈ rs, LeadingSlash r.pattern) →
      TInv (indexFrom 0 ok0) [] t0 →
      ((buildFrom t0 ok0.length (rs.map regOf)).isSome ↔ AllAccepted ok0 rs) := by
    intro rs
    induction rs with
    | nil => intro ok0 t0 _ _; simp [buildFrom, AllAccepted]
    | cons r rs ih =>
      intro ok0 t0 hls h
      obtain ⟨t1, hp, hinv⟩ := parseRoute_spec h r.pattern r.method ok0.length
      have hsl := slashed_of_leadingSlash (hls r (by simp))
      have hls' : ∀ r' ∈ rs, LeadingSlash r'.pattern := fun r' hr => hls r' (by simp [hr])
      have hreg := regResult_eq_spec _ h.known ⟨slashed r.pattern, r.method⟩
      rw [indexFrom_map_snd, hsl] at hreg
      simp only [List.map_cons, regOf, buildFrom, hp, AllAccepted]
      rw [hsl] at hinv ⊢
      cases hr : regResult (indexFrom 0 ok0) ⟨r.pattern, r.method⟩ with
      | error e =>
        rw [hr] at hreg
        have : ¬ (specRegister ok0 r).isOk = true := by
          intro hn
          have e' : (⟨r.pattern, r.method⟩ : Route) = r := rfl
          rw [e'] at hreg
          cases hs : specRegister ok0 r with
          | error e2 => simp [hs, Except.isOk, Except.toBool] at hn
          | ok k => rw [hs] at hreg; simp [Except.mapError] at hreg
        simp [this]
      | ok n =>
        rw [hr] at hreg hinv
        simp only at hinv
        have hex : (specRegister ok0 r).isOk = true := by
          have e' : (⟨r.pattern, r.method⟩ : Route) = r := rfl
          rw [e'] at hreg
          cases hs : specRegister ok0 r with
          | error e => rw [hs] at hreg; simp [Except.mapError] at hreg
          | ok k => rfl
        have hidx : indexFrom 0 ok0 ++ [(ok0.length, (⟨r.pattern, r.method⟩ : Route))] = indexFrom 0 (ok0 ++ [r]) := by
          rw [indexFrom_append]; simp [indexFrom]
        rw [hidx] at hinv
        have := ih (ok0 ++ [r]) t1 hls' hinv
        simp only [List.length_append, List.length_singleton] at this
        simp only [hex, true_and]
        exact this
  have := gen routes [] Node.empty hls (by simpa [indexFrom] using tinv_empty)
  simpa [build] using this

deriving instance DecidableEq for Except

/-! ### non-vacuity: a concrete table satisfying the hypotheses, and what the theorems say on it -/

/-- `GET /a/:x`, `GET /a/b`, `* /*` -/
def exTable : List Route :=
  [⟨[47, 97, 47, 58, 120], [71, 69, 84]⟩, ⟨[47, 97, 47, 98], [71, 69, 84]⟩, ⟨[47, 42], [42]⟩]

example : ∀ r ∈ exTable, LeadingSlash r.pattern := by decide
example : (build (exTable.map regOf)).isSome = true := by decide
example : AllAccepted [] exTable := by decide
-- `GET /a/b`: the literal wins over `:x`
example : (specFind exTable [47, 97, 47, 98] [71, 69, 84]).map (·.id) = some 1 := by decide
-- `GET a/c` (no leading slash): `:x` is bound to exactly "c"
example : specFind exTable [97, 47, 99] [71, 69, 84] = some ⟨0, [(.named [120], [99])]⟩ := by decide
-- `PUT /x//y/`: `*` with the method `*` binds the rest of the path from the segment's first byte
example : specFind exTable [47, 120, 47, 47, 121, 47] [80, 85, 84] = some ⟨2, [(.star, [120, 47, 47, 121, 47])]⟩ := by decide
-- `PUT /a/b/`: no backtracking — the literal `a` was taken, `/a/b` has no continuation for the final ""
example : specFind exTable [47, 97, 47, 98, 47] [80, 85, 84] = none := by decide
-- refused registrations: unknown method, empty name, repeated name, same shape and method
example : specRegister exTable ⟨[47, 122], [70, 79, 79]⟩ = .error .invalidMethod := by decide
example : specRegister exTable ⟨[47, 58], [71, 69, 84]⟩ = .error .invalidFragment := by decide
example : specRegister exTable ⟨[47, 58, 120, 47, 58, 120], [71, 69, 84]⟩ = .error .invalidFragment := by decide
example : specRegister exTable ⟨[47, 97, 47, 47, 58, 121, 47], [71, 69, 84]⟩ = .error .duplicate := by decide
example : specRegister exTable ⟨[47, 97, 47, 58, 121], [80, 85, 84]⟩ = .ok 1 := by decide
-- a history with refused registrations in it (`register_errors` quantifies over all of them)
example : ∀ r ∈ ([⟨[47, 97, 47, 58, 120, 47, 58, 120], [71, 69, 84]⟩, ⟨[47, 58, 121], [71, 69, 84]⟩] : List Reg),
    LeadingSlash r.path := by decide

end Glb.C04
