/-
  C15 — Logger.Relay contains handler panics and logs each request once, truthfully.
  Only property theorems live here; helper lemmas are in Glb/Proofs/Relay.lean.

  Quantifier (DESIGN.md §4 C15, §8.1): every handler behaviour (list of `writeHeader c | write |
  flush | panic v | ret`, flushes anywhere) whose status is set once — i.e. after the status has
  been set, explicitly or implicitly by the first `Write` or `Flush`, the handler does not call
  `WriteHeader` again — with codes in
  200..599, every panic value other than `http.ErrAbortHandler`, every threshold of the log
  handler, every request.  The two excluded shapes really break "REQ_END.code = status on the
  wire" in the code as it is (net/http keeps the first header, `ResponseWriter.Status` the
  last): see `second_header_breaks_truth`.
-/
import Glb.Proofs.Relay

namespace Glb.C15
open Glb.Relay

/-- the behaviours the property quantifies over -/
structure InScope (beh : List Ev) : Prop where
  once : setOnce beh = true
  codes : codesIn 200 599 beh
  notAbort : panicOf beh ≠ some .abort

/-- the status the client must see: the handler's own status if it set one, otherwise 500 after a
    panic and 200 after a plain return -/
def clientStatus (beh : List Ev) : Nat :=
  match statusOf beh with
  | some c => c
  | none => if (panicOf beh).isSome then 500 else 200

/-- the Error records the request must produce -/
def wantErr (req : Req) (beh : List Ev) : List Rec :=
  match panicOf beh with
  | some (.other k) => [.error k req.id]
  | _ => []

theorem relay_contract (thr : Nat) (req : Req) (beh : List Ev) (h : InScope beh) :
    let o := relay thr req beh
    -- no panic escapes
    o.escaped = none
    -- Relay itself answers 500 ⇔ the handler panicked while no status was set
    ∧ (o.relay500 = true ↔ (panicOf beh).isSome = true ∧ statusOf beh = none)
    ∧ (o.relay500 = true → o.wire = 500)
    -- what the client receives
    ∧ o.wire = clientStatus beh
    -- Info level: exactly one REQ_BEG (first) and one REQ_END (last), same method/URI/ip/id,
    -- REQ_END.code = the status the client received
    ∧ (thr ≤ levelInfo →
        o.log.filter Rec.isBeg = [.reqBeg req] ∧ o.log.filter Rec.isEnd = [.reqEnd o.wire req]
        ∧ o.log.head? = some (.reqBeg req) ∧ o.log.getLast? = some (.reqEnd o.wire req))
    -- a panic adds exactly one Error record with the value and the id
    ∧ (thr ≤ levelError → o.log.filter Rec.isErr = wantErr req beh)
    -- level gates
    ∧ (levelInfo < thr → o.log.filter Rec.isBeg = [] ∧ o.log.filter Rec.isEnd = [])
    ∧ (levelError < thr → o.log = []) := by
  intro o
  have h0 : ∀ c, Ev.writeHeader c ∈ beh → c ≠ 0 := fun c hc => by have := h.codes c hc; omega
  have ho : o = _ := relay_eq thr req beh h.once h0
  have hna := h.notAbort
  rw [levelInfo_eq, levelError_eq]
  rw [ho]
  unfold clientStatus wantErr wireOf errRecs sends500
  cases hs : statusOf beh <;> cases hp : panicOf beh with
  | none => by_cases h4 : thr ≤ 4 <;> by_cases h12 : thr ≤ 12 <;> simp [h4, h12, List.filter, Rec.isBeg, Rec.isEnd, Rec.isErr] <;> omega
  | some v =>
    cases v with
    | abort => exact absurd hp hna
    | other k =>
      by_cases h4 : thr ≤ 4 <;> by_cases h12 : thr ≤ 12 <;> simp [h4, h12, List.filter, Rec.isBeg, Rec.isEnd, Rec.isErr] <;> omega

/-- `http.ErrAbortHandler` is swallowed silently: no Error record, no 500, nothing escapes, and
    the request is still logged once (the property excludes this value; this is what the code
    does with it). -/
theorem abort_is_swallowed (thr : Nat) (req : Req) (beh : List Ev) (h1 : setOnce beh = true)
    (hc : codesIn 200 599 beh) (hp : panicOf beh = some .abort) :
    let o := relay thr req beh
    o.escaped = none ∧ o.relay500 = false ∧ o.log.filter Rec.isErr = [] := by
  intro o
  have h0 : ∀ c, Ev.writeHeader c ∈ beh → c ≠ 0 := fun c hc' => by have := hc c hc'; omega
  have ho : o = _ := relay_eq thr req beh h1 h0
  rw [ho]
  unfold errRecs sends500
  cases hs : statusOf beh <;>
    by_cases h4 : thr ≤ 4 <;> by_cases h12 : thr ≤ 12 <;> simp [hp, h4, h12, Rec.isErr]

/-- Records of concurrent requests pair up by id: in ANY interleaving of the logs of requests
    with pairwise different ids, selecting the records with request `i`'s id gives back exactly
    the log of request `i` (so the contract above holds per id). Ids are unique by C05. -/
theorem concurrent_pairing (thr : Nat) (reqs : Nat → Req) (behs : Nat → List Ev) (n : Nat)
    (hinj : ∀ i j, (reqs i).id = (reqs j).id → i = j)
    (hscope : ∀ i, i < n → InScope (behs i))
    (merged : List Rec)
    (hm : Shuffle (fun i => if i < n then (relay thr (reqs i) (behs i)).log else []) merged) :
    ∀ i, i < n → merged.filter (fun r => r.id == (reqs i).id) = (relay thr (reqs i) (behs i)).log := by
  intro i hi
  have := shuffle_filter (fun i => (reqs i).id) hinj _ merged hm (by
    intro j r hr
    by_cases hj : j < n
    · simp only [hj, if_true] at hr
      have hsc := hscope j hj
      exact log_ids thr (reqs j) (behs j) hsc.once
        (fun c hc => by have := hsc.codes c hc; omega) r hr
    · simp [hj] at hr) i
  simpa [hi] using this

/-! ### why the hypotheses are there (concrete witnesses, evaluated on the model of the code) -/

def req0 : Req := ⟨[71, 69, 84], [47], [49], [50]⟩

/-- A second status (explicit after explicit, or explicit after the implicit 200 of a `Write`)
    makes REQ_END report a status the client did not receive. -/
theorem second_header_breaks_truth :
    (relay 4 req0 [.writeHeader 200, .writeHeader 404]).wire = 200
    ∧ (relay 4 req0 [.writeHeader 200, .writeHeader 404]).log.filter Rec.isEnd = [.reqEnd 404 req0]
    ∧ (relay 4 req0 [.write, .writeHeader 404]).wire = 200
    ∧ (relay 4 req0 [.write, .writeHeader 404]).log.filter Rec.isEnd = [.reqEnd 404 req0] := by
  decide

/-- The order of the two `defer`s matters: were the recover function registered BEFORE the
    REQ_END function (so that it ran after it), a panic at Status = 0 would be logged as 200 and
    the 500 would never be sent.  `Tie.Relay.recover_runs_first` excludes this for /repo. -/
theorem swapped_defers_lose_500 :
    let P := { progNow with body := [.logBeg, .deferRecover, .deferEnd, .callHandler] }
    (relayWith P 4 req0 [.panic (.other 1)]).relay500 = false
    ∧ (relayWith P 4 req0 [.panic (.other 1)]).wire = 200 := by
  decide

/-- Sending the 500 without the `Status == 0` guard would make REQ_END lie after a partial
    response. `Tie.Relay.error500_only_when_unset` excludes this for /repo. -/
theorem unguarded_500_breaks_truth :
    let P := { progNow with guard500 := none }
    (relayWith P 4 req0 [.writeHeader 404, .panic (.other 1)]).wire = 404
    ∧ (relayWith P 4 req0 [.writeHeader 404, .panic (.other 1)]).log.filter Rec.isEnd
        = [.reqEnd 500 req0] := by
  decide

/-- The pinned commit's `Flush` let net/http send the implicit 200 without recording it in
    `Status`: a handler that flushes and then panics got Relay's 500 page appended to a 200
    response and REQ_END said 500.  `Tie.Relay.flush_records_status` excludes this for /repo
    (fix 065898d), and `relay_contract` covers flushes anywhere in the behaviour. -/
theorem flush_then_panic_breaks_truth_pinned :
    (relayWith progPinned 4 req0 [.flush, .panic (.other 1)]).wire = 200
    ∧ (relayWith progPinned 4 req0 [.flush, .panic (.other 1)]).relay500 = true
    ∧ (relayWith progPinned 4 req0 [.flush, .panic (.other 1)]).log.filter Rec.isEnd
        = [.reqEnd 500 req0]
    ∧ (relay 4 req0 [.flush, .panic (.other 1)]).relay500 = false
    ∧ (relay 4 req0 [.flush, .panic (.other 1)]).log.filter Rec.isEnd = [.reqEnd 200 req0] := by
  decide

/-! ### non-vacuity -/

example : InScope [.flush, .write, .flush, .panic (.other 2)] :=
  ⟨by decide, by intro c hc; simp at hc, by decide⟩

example : InScope [.writeHeader 201, .flush, .write, .flush] :=
  ⟨by decide, by intro c hc; simp at hc; omega, by decide⟩

/-- flush, then panic: the client already has its 200; no 500, REQ_END says 200 -/
example : relay 4 req0 [.flush, .panic (.other 2)] =
    ⟨[.reqBeg req0, .error 2 req0.id, .reqEnd 200 req0], 200, false, none⟩ := by decide


example : InScope [.writeHeader 404, .write, .panic (.other 7)] :=
  ⟨by decide, by intro c hc; simp at hc; omega, by decide⟩

example : InScope [.panic (.other 3)] := ⟨by decide, by intro c hc; simp at hc, by decide⟩

example : InScope [] := ⟨by decide, by intro c hc; simp at hc, by decide⟩

/-- panic before any status: 500 from Relay, three records -/
example : relay 4 req0 [.panic (.other 3)] =
    ⟨[.reqBeg req0, .error 3 req0.id, .reqEnd 500 req0], 500, true, none⟩ := by decide

/-- panic after a partial 404 response: no 500, the client's 404 is what REQ_END says -/
example : relay 4 req0 [.writeHeader 404, .write, .panic (.other 7)] =
    ⟨[.reqBeg req0, .error 7 req0.id, .reqEnd 404 req0], 404, false, none⟩ := by decide

/-- Warn threshold: only the Error record -/
example : relay 8 req0 [.panic (.other 3)] = ⟨[.error 3 req0.id], 500, true, none⟩ := by decide

/-- an instance of `concurrent_pairing`'s hypothesis: two requests, records interleaved -/
example : Shuffle (fun i => if i < 2 then
      (relay 4 (⟨[71], [47], [49], [i.toUInt8]⟩) ([[.ret], [.panic (.other 1)]].getD i [])).log else [])
    [.reqBeg ⟨[71], [47], [49], [0]⟩, .reqBeg ⟨[71], [47], [49], [1]⟩, .error 1 [1],
     .reqEnd 200 ⟨[71], [47], [49], [0]⟩, .reqEnd 500 ⟨[71], [47], [49], [1]⟩] := by
  refine .step _ 0 _ [.reqEnd 200 ⟨[71], [47], [49], [0]⟩] _ (by decide) ?_
  refine .step _ 1 _ [.error 1 [1], .reqEnd 500 ⟨[71], [47], [49], [1]⟩] _ (by decide) ?_
  refine .step _ 1 _ [.reqEnd 500 ⟨[71], [47], [49], [1]⟩] _ (by simp [upd]) ?_
  refine .step _ 0 _ [] _ (by simp [upd]) ?_
  refine .step _ 1 _ [] _ (by simp [upd]) ?_
  refine .done _ ?_
  intro i
  simp only [upd]
  by_cases h1 : i = 1
  · simp [h1]
  · by_cases h0 : i = 0
    · simp [h0]
    · have : ¬ i < 2 := by omega
      simp [h1, h0, this]

end Glb.C15
