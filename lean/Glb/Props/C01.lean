/-
  C01 — JSON handler: every record is one valid, faithful JSON line.

  Model:  `Glb/Model/JsonHandler.lean` (mirrors /repo/logger/json_handler.go, colour off).
  Spec:   `Glb/Spec/Json.lean` (RFC 8259 grammar `IsJson`, `san`, `expected`, contract predicates).
  Lemmas: `Glb/Proofs/JsonString.lean`, `Glb/Proofs/Json.lean`, `Glb/Proofs/JsonHandler.lean`.

  What is assumed (explicit contract of the stdlib results that the model receives as payloads,
  `LeafOk` / `RecOk`): strconv texts are JSON numbers, `time.AppendFormat(RFC3339Nano)` texts are
  printable ASCII without `"` and `\`, successful `json.Encoder` outputs are JSON texts without a
  newline.  NOTHING is assumed about messages, keys, group names, string values, error messages,
  panic messages, file names: they are arbitrary byte strings.
-/
import Glb.Proofs.JsonHandler

namespace Glb.C01
open Glb Glb.JsonHandler Glb.Json

/-! ### strings -/

/-- For every byte string `s`: `"` ++ appendJsonString s ++ `"` is a JSON string literal that decodes
    (all escapes processed) to `san s` — `s` with each byte that is not part of a well-formed UTF-8
    sequence replaced by U+FFFD; the bytes written contain no byte below 0x20 (no raw control
    character, in particular no newline), and they are well-formed UTF-8. -/
theorem jsonString_faithful (s : Bytes) :
    IsJsonString (quote s) (san s) ∧
    (∀ b ∈ appendJsonString s, 0x20 ≤ b) ∧
    WellFormedUtf8 (appendJsonString s) := by
  have h := JsonString.ajs_PStr s []
  refine ⟨⟨appendJsonString s ++ [0x22], by simp [quote], h⟩, JsonString.ajs_ge s, ?_⟩
  obtain ⟨body, hb, hw⟩ := h.wellFormed
  have : body = appendJsonString s := (List.append_cancel_right hb).symm
  exact this ▸ hw

/-- in particular the escaped string never contains a newline -/
theorem jsonString_no_newline (s : Bytes) : 0x0A ∉ appendJsonString s := by
  intro h
  have := (jsonString_faithful s).2.1 _ h
  exact absurd this (by decide)

/-! ### separator bookkeeping -/

/-- The comma bookkeeping of `appendJsonAttr` (flag passed in, flag returned, nested loops, inline and
    empty groups) equals the canonical `,`-join of the flattened member list, for both values of
    `addSep`; the returned flag is "wrote at least one member". -/
theorem attr_render (a : Attr) (ha : AttrOk a) (buf : Bytes) (addSep : Bool) :
    appendJsonAttr buf a addSep =
      (buf ++ serSep appendJsonString addSep (membersSrc a), !(membersSrc a).isEmpty) :=
  attr_render' a ha buf addSep

/-- the same for the loops of `WithAttrs`, `Handle` and of groups: state `(buf, addSep, wrote)` -/
theorem attrs_render (as : List Attr) (has : AttrsOk as) (buf : Bytes) (addSep wrote : Bool) :
    attrLoop buf as addSep wrote =
      (buf ++ serSep appendJsonString addSep (membersSrcL as),
       addSep || !(membersSrcL as).isEmpty, wrote || !(membersSrcL as).isEmpty) :=
  attrLoop_render' as has buf addSep wrote

/-! ### the canonical serializer -/

/-- Generic: if the quoting function `q` produces string literals decoding to `dec`, the canonical
    serializer's output is a JSON text denoting the tree it was built from (strings decoded). -/
theorem ser_isJson (q dec : Bytes → Bytes) (hq : ∀ s r, PStr (q s ++ 0x22 :: r) (dec s) r)
    (t : JV) (ht : t.Ok) : IsJson (ser q t) (t.mapStr dec) := by
  simpa [IsJson] using ser_P q dec hq t ht []

/-- with the handler's quoting: strings come back sanitised -/
theorem ser_isJson_handler (t : JV) (ht : t.Ok) : IsJson (ser appendJsonString t) (t.mapStr san) :=
  ser_isJson appendJsonString san JsonString.ajs_PStr t ht

/-- every JSON text passes the executable recogniser `shapeOk` (used to refute validity by `decide`) -/
theorem shapeOk_complete (b : Bytes) (v : JV) (h : IsJson b v) : shapeOk b = true :=
  shapeOk_of_isJson h

/-! ### the line -/

/-- **C01.** For every derivation chain (any list of `WithAttrs as` / `WithGroup g`; the theorem does not
    even need `g ≠ ""`), every record (arbitrary message, any of the five levels, any attribute tree
    with nested / inline / empty groups), `addSource` on or off: `Handle` writes `body ++ "\n"`, `body`
    contains no newline, and `body` is a JSON text denoting exactly `expected addSource chain r`
    (ordered members, every string decoded and equal to the sanitised original). -/
theorem C01_line (addSource : Bool) (chain : List Deriv) (r : Rec)
    (hchain : ChainOk chain) (hrec : RecOk r) (hlevel : validLevel r.level = true) :
    ∃ body, handle addSource (deriveAll H.init chain) r = .ok (body ++ [0x0A]) ∧
      0x0A ∉ body ∧ IsJson body (expected addSource chain r) := by
  have hok := expectedSrc_ok addSource chain r hchain hrec
  exact ⟨ser appendJsonString (expectedSrc addSource chain r),
    handle_eq_ser addSource chain r hchain hrec hlevel,
    ser_noNL appendJsonString jsonString_no_newline _ hok,
    ser_isJson_handler _ hok⟩

/-- `Handle` never panics on a valid level (the only index expression is `labelList[level+2]`) -/
theorem handle_no_panic (addSource : Bool) (h : H) (r : Rec) (hlevel : validLevel r.level = true) :
    ∃ out, handle addSource h r = .ok out := by
  simp [handle, (level_ok hlevel).1, bind, Except.bind, pure, Except.pure]

/-! ### source file -/

/-- The loop of `appendJsonSource` keeps exactly the last two path components `a/b` of `pre/a/b`
    (for every prefix `pre`, the empty one included). -/
theorem source_last_two (pre a b : Bytes) (ha : 0x2F ∉ a) (hb : 0x2F ∉ b) :
    trimSource (pre ++ 0x2F :: a ++ 0x2F :: b) = a ++ 0x2F :: b :=
  trimSource_last_two' pre a b ha hb

/-- the slice expression `f.File[idx+1:]` is always in bounds (the model's `drop` totalises nothing) -/
theorem source_slice_in_bounds (file : Bytes) (h : file ≠ []) :
    sourceLoop file (file.length - 1) false + 1 ≤ file.length := by
  have := sourceLoop_le file (file.length - 1) false
  have : 0 < file.length := List.length_pos_iff.mpr h
  omega

/-! ### non-vacuity -/

def kBad : Bytes := [0xFF, 0x22, 0x0A]   -- \xff " \n

/-- `With(Group(""))`, `WithGroup("g")`, `With("a", 1, Group(""))`, then a record with an attribute,
    an inline empty group after it, a key `\xff"\n`, an empty keyed group, an encoder payload, a
    typed-nil error and a time value. -/
def exChain : List Deriv :=
  [.attrs [.group [] []], .group [0x67], .attrs [.leaf [0x61] (.num [0x31]), .group [] []]]

def exRec : Rec :=
  { time := [0x32, 0x30, 0x32, 0x33], level := 4, file := [0x2F, 0x61, 0x2F, 0x62, 0x2F, 0x63], line := [0x37],
    msg := [0x6D, 0xC0, 0x22],
    attrs := [.leaf [0x6B] (.num [0x2D, 0x31]), .group [] [], .leaf kBad (.bool true),
              .group [0x65] [.group [] []], .leaf [] (.enc (.ok nullText)), .leaf [0x70] .panicNil,
              .leaf [0x74] (.time [0x32, 0x30, 0x32, 0x33, 0x2D, 0x30, 0x31]),
              .leaf [0x78] (.enc (.error [0x62, 0x61, 0x64, 0x0A]))] }

example : ∃ body, handle true (deriveAll H.init exChain) exRec = .ok (body ++ [0x0A]) ∧
    0x0A ∉ body ∧ IsJson body (expected true exChain exRec) := by
  refine C01_line true exChain exRec ?_ ?_ (by decide)
  · simp [exChain, ChainOk, DerivOk, AttrsOk, AttrOk, LeafOk]; decide
  · refine ⟨by decide, by decide, ?_⟩
    simp only [exRec, AttrsOk, AttrOk, LeafOk, and_true, true_and]
    exact ⟨by decide, ⟨⟨.null, P.null []⟩, by decide⟩, by decide⟩

/-- the model really produces the bytes one expects on that input (evaluated by the kernel) -/
example : (handle false (deriveAll H.init [.attrs [.group [] []]])
      { time := [0x54], level := 4, msg := [0x6D], attrs := [.leaf [0x6B] (.num [0x31])] }) =
    .ok [0x7B, 0x22, 0x74, 0x69, 0x6D, 0x65, 0x22, 0x3A, 0x22, 0x54, 0x22, 0x2C, 0x22, 0x6C, 0x65, 0x76, 0x65,
      0x6C, 0x22, 0x3A, 0x22, 0x49, 0x4E, 0x46, 0x4F, 0x22, 0x2C, 0x22, 0x6D, 0x73, 0x67, 0x22, 0x3A, 0x22,
      0x6D, 0x22, 0x2C, 0x22, 0x6B, 0x22, 0x3A, 0x31, 0x7D, 0x0A] := by rfl

/-! ### the finding on the pinned commit (documentation) -/

/-- `{"time":"2023-08-16T00:35:15Z","level":"INFO","msg":"m"` -/
def pinnedHead : Bytes :=
  [0x7B, 0x22, 0x74, 0x69, 0x6D, 0x65, 0x22, 0x3A, 0x22, 0x32, 0x30, 0x32, 0x33, 0x2D, 0x30, 0x38, 0x2D, 0x31,
   0x36, 0x54, 0x30, 0x30, 0x3A, 0x33, 0x35, 0x3A, 0x31, 0x35, 0x5A, 0x22, 0x2C, 0x22, 0x6C, 0x65, 0x76, 0x65,
   0x6C, 0x22, 0x3A, 0x22, 0x49, 0x4E, 0x46, 0x4F, 0x22, 0x2C, 0x22, 0x6D, 0x73, 0x67, 0x22, 0x3A, 0x22, 0x6D,
   0x22]

/-- The separator logic of the pinned commit (separator written before looking at the attribute, callers
    set `addSep := true` unconditionally — `JsonHandler.Pinned`) renders
    `logger.With(slog.Group("")).Info("m", "k", 1)` as `…"msg":"m",,"k":1}`, which is not a JSON text. -/
theorem C01_pinned_counterexample :
    Pinned.line pinnedHead [.group [] []] [.leaf [0x6B] (.num [0x31])] =
      pinnedHead ++ [0x2C, 0x2C, 0x22, 0x6B, 0x22, 0x3A, 0x31, 0x7D] ∧
    ¬ ∃ v, IsJson (Pinned.line pinnedHead [.group [] []] [.leaf [0x6B] (.num [0x31])]) v := by
  refine ⟨by decide, ?_⟩
  rintro ⟨v, hv⟩
  have := shapeOk_of_isJson hv
  revert this
  decide

/-- … whereas the repaired logic writes a single comma on the same input -/
theorem C01_repaired_same_input :
    (attrLoop (withAttrs { pre := pinnedHead } [.group [] []]).pre [.leaf [0x6B] (.num [0x31])]
      (withAttrs { pre := pinnedHead } [.group [] []]).addSep false).1 ++ [0x7D] =
      pinnedHead ++ [0x2C, 0x22, 0x6B, 0x22, 0x3A, 0x31, 0x7D] := by decide

end Glb.C01
