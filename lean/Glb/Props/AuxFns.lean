/-
  Aux — supporting theorems about small functions of /repo that no listed property covers by itself
  (attached to C16's run; each group names the property area it supports).

    §A  logger.argsToAttrs / slog Record.Add               (C03: what `With(args...)` hands to the handler)
    §B  logger.appendIntWidth1..4 / appendDateTime         (C03: the time prefix of every Nano line)
    §C  netutil.FirstIP / LastIP / SplitHostPort           (C11: CIDR helpers; C15: client address)
    §D  strutil.Camelize / IsDigitString / SliceContain    (C16)
    §E  fsutil.ExpandHomeDir                               (C17)
    §F  httpd.Store.GetClientIP / CookieValue              (C15: the `ip` field Relay logs)

  Only theorems and non-vacuity examples live here; models are in Glb/Model/Aux*.lean, helper
  lemmas in Glb/Proofs/Aux*.lean.  Everything is universally quantified over all argument lists /
  byte strings / integers unless it is explicitly a witness (`…_witness`).
-/
import Glb.Proofs.AuxLogger
import Glb.Proofs.AuxNetutil
import Glb.Proofs.AuxStrutil
import Glb.Proofs.AuxFsutil
import Glb.Proofs.AuxHttpd

namespace Glb.Aux
open Glb

/-! ## §A argsToAttrs -/
section Args
open Glb.Aux.Args
variable {σ α ν : Type}

/-- between ⌈n/2⌉ and n attributes are produced from n arguments -/
theorem args_length_bounds (xs : List (Arg σ α ν)) :
    (argsToAttrs xs).length ≤ xs.length ∧ xs.length ≤ 2 * (argsToAttrs xs).length :=
  ⟨length_le xs, length_ge xs⟩

/-- nothing is lost, duplicated or reordered: the arguments the produced attributes were made from,
    concatenated in order, are exactly the argument list (so `argsToAttrs` is injective) -/
theorem args_order_preserved (xs : List (Arg σ α ν)) : unparse (argsToAttrs xs) = xs :=
  unparse_argsToAttrs xs

/-- exact characterisation of what happens to each argument, by an independent left-to-right scan
    with one bit of state and one token of lookahead (`roles`): argument i is a key iff it is a string
    in key position that is not the last argument, the argument after a key is its value whatever its
    type, a lone trailing string is `!BADKEY`-string, an Attr in key position passes, anything else in
    key position is `!BADKEY`-any; and #attributes = #arguments − #values -/
theorem args_roles (xs : List (Arg σ α ν)) :
    roles false xs = (argsToAttrs xs).flatMap Out.roles ∧
    (roles false xs).length = xs.length ∧
    (argsToAttrs xs).length + ((roles false xs).filter (· = .value)).length = xs.length :=
  ⟨(length_eq xs).2, roles_length xs false, (length_eq xs).1⟩

/-- without strings every argument becomes its own attribute: Attrs pass unchanged, other values get
    the key `!BADKEY` -/
theorem args_no_strings (xs : List (Arg σ α ν)) (h : ∀ x ∈ xs, x.isStr = false) :
    argsToAttrs xs = xs.map direct :=
  no_str_map xs h

example : argsToAttrs ([.attr 1, .other 2, .attr 3] : List (Arg Nat Nat Nat)) = [.pass 1, .badAny 2, .pass 3] := by
  decide

/-- an Attr among the outputs as itself was an Attr argument -/
theorem args_pass_sound (xs : List (Arg σ α ν)) (a : α) (h : .pass a ∈ argsToAttrs xs) : .attr a ∈ xs :=
  pass_mem xs a h

/-- a prefix that ends on an attribute boundary (its own result has no lone string) is converted
    independently of what follows -/
theorem args_append_boundary (xs ys : List (Arg σ α ν))
    (h : ∀ o ∈ argsToAttrs xs, o.isBadStr = false) :
    argsToAttrs (xs ++ ys) = argsToAttrs xs ++ argsToAttrs ys :=
  append_of_boundary xs ys h

example : ∀ o ∈ argsToAttrs ([.str 1, .str 2, .attr 3] : List (Arg Nat Nat Nat)), o.isBadStr = false := by
  decide

/-- the hypothesis is needed: a trailing lone string pairs with the next argument -/
theorem args_append_witness :
    argsToAttrs (([.str 1] : List (Arg Nat Nat Nat)) ++ [.attr 2]) ≠ argsToAttrs [.str 1] ++ argsToAttrs [.attr 2] := by
  decide

/-- every list of attributes without a lone string is produced from its own sources (completeness),
    in particular an Attr in key position always passes unchanged -/
theorem args_complete (os : List (Out σ α ν)) (h : ∀ o ∈ os, o.isBadStr = false) (ys : List (Arg σ α ν)) :
    argsToAttrs (unparse os ++ ys) = os ++ argsToAttrs ys :=
  argsToAttrs_unparse_append os h ys

example : ∀ o ∈ ([.pair 1 (.attr 2), .pass 3] : List (Out Nat Nat Nat)), o.isBadStr = false := by decide

/-- `!BADKEY`-string can only be the last attribute, made from the last argument -/
theorem args_badStr_only_last (xs : List (Arg σ α ν)) (s : σ) (pre post : List (Out σ α ν))
    (h : argsToAttrs xs = pre ++ .badStr s :: post) : post = [] ∧ xs = unparse pre ++ [.str s] :=
  badStr_only_last xs s pre post h

example : argsToAttrs ([.attr 1, .str 2] : List (Arg Nat Nat Nat)) = [.pass 1] ++ .badStr 2 :: [] := by decide

/-- `Logger.Info(msg, args...)` (slog's Record.Add) sees the attributes `Logger.With(args...)` hands
    to `WithAttrs`, minus those whose value is an empty group; without empty groups: the same list -/
theorem args_record_add (eg : Out σ α ν → Bool) (xs : List (Arg σ α ν)) :
    recordAdd eg xs = (argsToAttrs xs).filter (fun o => !eg o) ∧
    ((∀ o ∈ argsToAttrs xs, eg o = false) → recordAdd eg xs = argsToAttrs xs) := by
  refine ⟨rfl, fun h => ?_⟩
  unfold recordAdd
  rw [List.filter_eq_self]
  intro o ho
  simp [h o ho]

end Args

/-! ## §B fixed-width decimal writers and the date-time prefix -/
section DateTime
open Glb.Aux.DateTime

/-- tie of the regenerated table: 200 bytes, entry i is the two decimal digits of i -/
theorem smalls_is_digit_table :
    smalls.length = 200 ∧ ∀ i < 100, (smalls.drop (2 * i)).take 2 = [digit (i / 10), digit i] :=
  ⟨smalls_length, smalls_table⟩

/-- `pad w n` is w ASCII digits whose decimal value is `n mod 10^w` (so it is n itself for n < 10^w) -/
theorem pad_spec (w n : Nat) :
    (pad w n).length = w ∧ (∀ b ∈ pad w n, isDigitByte b = true) ∧ decimal (pad w n) = n % 10 ^ w :=
  ⟨pad_length w n, pad_digits w n, decimal_pad w n⟩

/-- in their documented ranges the four writers append exactly the zero-padded decimal digits and do
    not panic -/
theorem width_exact (buf : Bytes) (i : Nat) :
    (i < 10 → appendIntWidth1 buf i = .ok (buf ++ pad 1 i)) ∧
    (i < 100 → appendIntWidth2 buf i = .ok (buf ++ pad 2 i)) ∧
    (i < 1000 → appendIntWidth3 buf i = .ok (buf ++ pad 3 i)) ∧
    (i < 10000 → appendIntWidth4 buf i = .ok (buf ++ pad 4 i)) :=
  ⟨width1_ok buf i, width2_ok buf i, width3_ok buf i, width4_ok buf i⟩

set_option maxRecDepth 100000 in
example : appendIntWidth3 [] 42 = .ok [48, 52, 50] := by decide

/-- outside the documented range the two- and four-digit writers panic (negative numbers included) -/
theorem width_out_of_range_panics (buf : Bytes) (i : Int) :
    ((i < 0 ∨ 100 ≤ i) → ∃ p, appendIntWidth2 buf i = .error p) ∧
    ((i < 0 ∨ 10000 ≤ i) → ∃ p, appendIntWidth4 buf i = .error p) :=
  ⟨width2_panics buf i, width4_panics buf i⟩

/-- `appendDateTime` returns normally exactly when the year is in 0..9999 and the other five numbers
    are in 0..99 (always true for month, day, hour, minute, second of a `time.Time`), and then it
    appends exactly the 19 bytes `YYYY-MM-DD HH:MM:SS` -/
theorem datetime_exact (buf : Bytes) (Y M D h m s : Int) (r : Bytes) :
    appendDateTime buf Y M D h m s = .ok r ↔
      ((0 ≤ Y ∧ Y < 10000) ∧ inR M ∧ inR D ∧ inR h ∧ inR m ∧ inR s) ∧
      r = buf ++ render Y.toNat M.toNat D.toNat h.toNat m.toNat s.toNat :=
  dateTime_ok_iff buf Y M D h m s r

/-- layout of the 19 bytes: separators at the fixed positions 4, 7, 10, 13, 16, the decimal digits of
    the six numbers elsewhere -/
theorem datetime_layout (Y M D h m s : Nat) :
    (render Y M D h m s).length = 19 ∧
    render Y M D h m s =
      [digit (Y / 1000), digit (Y / 100), digit (Y / 10), digit Y, 45, digit (M / 10), digit M, 45,
       digit (D / 10), digit D, 32, digit (h / 10), digit h, 58, digit (m / 10), digit m, 58,
       digit (s / 10), digit s] ∧
    ∀ n, isDigitByte (digit n) = true :=
  ⟨render_length Y M D h m s, render_explicit Y M D h m s, digit_isDigit⟩

set_option maxRecDepth 100000 in
example : appendDateTime [] 2023 8 16 0 35 15 = .ok [50, 48, 50, 51, 45, 48, 56, 45, 49, 54, 32, 48, 48, 58, 51, 53, 58, 49, 53] := by decide

set_option maxRecDepth 100000 in
/-- OBSERVATION (not a violation of a listed property): a record time in year 10000 makes
    `appendIntWidth4` slice `smallsString[200:202]`, i.e. `NanoHandler.Handle` panics; so does year −1 -/
theorem datetime_year_10000_witness :
    appendDateTime [] 10000 1 1 0 0 0 = .error (.sliceBounds 200 202 200) ∧
    (∃ p, appendDateTime [] (-1) 12 31 23 59 59 = .error p) := by
  refine ⟨by decide, ?_⟩
  cases h : appendDateTime [] (-1) 12 31 23 59 59 with
  | error p => exact ⟨p, rfl⟩
  | ok r => have := (dateTime_ok_iff _ _ _ _ _ _ _ _).mp h; omega

end DateTime

/-! ## §C FirstIP / LastIP / SplitHostPort -/
section Net
open Glb.Aux.Net

/-- for an IP and a mask of the same length (the 4-byte and the 16-byte forms `net.ParseCIDR`
    returns; any length in fact) neither function panics, FirstIP is the bytewise `ip & mask` and
    LastIP the bytewise `(ip & mask) | ^mask`: network bits kept, host bits all 0 resp. all 1 -/
theorem first_last_bitwise (ip mask : Bytes) (h : ip.length = mask.length) :
    firstIP ip mask = some (andBytes ip mask) ∧
    lastIP ip mask = .ok (some (orNotBytes (andBytes ip mask) mask)) :=
  ⟨ipMask_same ip mask h, lastIP_same ip mask h⟩

example : lastIP [192, 0, 2, 77] [255, 255, 255, 0] = .ok (some [192, 0, 2, 255]) := by decide

/-- the IPv4-mapped 16-byte form of the IP with a 4-byte mask: both answer in the 4-byte form -/
theorem first_last_mapped (a mask : Bytes) (ha : a.length = 4) (hm : mask.length = 4) :
    firstIP (v4InV6Prefix ++ a) mask = some (andBytes a mask) ∧
    lastIP (v4InV6Prefix ++ a) mask = .ok (some (orNotBytes (andBytes a mask) mask)) :=
  ⟨ipMask_mapped a mask ha hm, lastIP_mapped a mask ha hm⟩

example : firstIP (v4InV6Prefix ++ [10, 1, 2, 3]) [255, 0, 0, 0] = some [10, 0, 0, 0] := by decide

/-- both ends belong to the network -/
theorem first_last_contained (ip mask : Bytes) (h : ip.length = mask.length) :
    contains ip mask (andBytes ip mask) ∧ contains ip mask (orNotBytes (andBytes ip mask) mask) :=
  ⟨first_contained ip mask h, last_contained ip mask h⟩

/-- every address x of the network lies between them: bytewise (hence lexicographically) and as
    big-endian numbers; with the previous theorem FirstIP / LastIP are the lowest / highest address -/
theorem first_le_ip_le_last (ip mask x : Bytes) (h : ip.length = mask.length) (hx : contains ip mask x) :
    leAll (andBytes ip mask) x ∧ leAll x (orNotBytes (andBytes ip mask) mask) ∧
    beNat (andBytes ip mask) ≤ beNat x ∧ beNat x ≤ beNat (orNotBytes (andBytes ip mask) mask) := by
  obtain ⟨h1, h2⟩ := bounds ip mask x h hx
  exact ⟨h1, h2, leAll_beNat _ _ h1, leAll_beNat _ _ h2⟩

example : contains [192, 0, 2, 77] [255, 255, 255, 0] [192, 0, 2, 1] := by decide

/-- OBSERVATION: a hand-built `net.IPNet` with a 4-byte IP and a 16-byte mask (first 12 bytes 0xff)
    is accepted by `IP.Mask` (FirstIP answers), but LastIP indexes the 4-byte result with the mask's
    indices and panics -/
theorem lastIP_mixed_form_witness :
    firstIP [192, 0, 2, 1] ([255, 255, 255, 255, 255, 255, 255, 255, 255, 255, 255, 255] ++ [255, 255, 255, 0])
      = some [192, 0, 2, 0] ∧
    lastIP [192, 0, 2, 1] ([255, 255, 255, 255, 255, 255, 255, 255, 255, 255, 255, 255] ++ [255, 255, 255, 0])
      = .error (.indexRange 15 4) := by
  decide

/-- SplitHostPort never panics -/
theorem split_total (addr : Bytes) : ∃ h p, splitHostPort addr = .ok (h, p) :=
  Net.split_total addr

/-- what it returns, exactly: without a colon the whole string and ""; otherwise the string is cut
    at its LAST colon, and the brackets of a host of the form "[…]" are removed -/
theorem split_spec (addr h p : Bytes) (hs : splitHostPort addr = .ok (h, p)) :
    (colon ∉ addr ∧ h = addr ∧ p = []) ∨
    (colon ∉ p ∧ ((addr = h ++ colon :: p ∧ ¬ Bracketed h) ∨ addr = lbr :: h ++ rbr :: colon :: p)) :=
  Net.split_spec addr h p hs

theorem split_cases (h p : Bytes) (hp : colon ∉ p) :
    (colon ∉ h → splitHostPort h = .ok (h, [])) ∧
    (¬ Bracketed h → splitHostPort (h ++ colon :: p) = .ok (h, p)) ∧
    splitHostPort (lbr :: h ++ rbr :: colon :: p) = .ok (h, p) :=
  ⟨split_nocolon h, split_plain h p hp, split_bracket h p hp⟩

/-- inverse of `net.JoinHostPort` on well-formed input: a port without colon, a host that contains
    a colon (it is bracketed by Join) or is not itself of the form "[…]" -/
theorem split_join_inverse (host port : Bytes) (hp : colon ∉ port) (hh : colon ∈ host ∨ ¬ Bracketed host) :
    splitHostPort (joinHostPort host port) = .ok (host, port) :=
  split_join host port hp hh

example : splitHostPort (joinHostPort [58, 58, 49] [56, 48]) = .ok ([58, 58, 49], [56, 48]) := by decide

/-- OBSERVATIONS ("without strict validation"): "[::1]" without a port is cut at its last colon into
    "[:" and "1]"; an unbracketed "::1" gives host ":" port "1"; "[a]:1" loses its brackets even
    though "a" has no colon -/
theorem split_witnesses :
    splitHostPort [91, 58, 58, 49, 93] = .ok ([91, 58], [49, 93]) ∧
    splitHostPort [58, 58, 49] = .ok ([58], [49]) ∧
    splitHostPort [91, 97, 93, 58, 49] = .ok ([97], [49]) := by
  decide

end Net

/-! ## §D Camelize / IsDigitString / SliceContain -/
section Str
open Glb.Aux.Str

/-- the output consists of ASCII letters and digits only and is never longer than the input -/
theorem camelize_alnum (s : Bytes) (u : Bool) :
    (∀ b ∈ camelize s u, isAlnumByte b = true) ∧ (camelize s u).length ≤ s.length :=
  ⟨camelizeGo_alnum s u false, camelizeGo_length s u false⟩

/-- on a string of letters and digits: the first letter gets the requested case, every later letter
    is lower-cased (inner capitals are NOT kept: "fooBar" ↦ "foobar"), digits stay -/
theorem camelize_of_alnum (t : Bytes) (u : Bool) (ht : ∀ b ∈ t, isAlnumByte b = true) :
    camelize t u = capFirst u t :=
  camelizeGo_alnum_input t ht u false

example : camelize [102, 111, 111, 66, 97, 114] true = [70, 111, 111, 98, 97, 114] := by decide

/-- Camelize is not idempotent on its own output for a fixed `upper` … -/
theorem camelize_not_idempotent_witness :
    camelize [97, 95, 98] false = [97, 66] ∧ camelize [97, 66] false = [97, 98] := by
  decide

/-- … but it is from the second application on (for every input and both values of `upper`) -/
theorem camelize_stable (s : Bytes) (u : Bool) :
    camelize (camelize (camelize s u) u) u = camelize (camelize s u) u :=
  Str.camelize_stable s u

/-- case of the first letter: after a prefix without letters and digits the first letter c is
    written in the requested case; with `upper = true` the same holds after any prefix without
    letters (its digits are kept in front) -/
theorem camelize_first_letter (pre rest : Bytes) (c : UInt8) (u : Bool) (hc : isLetter c = true) :
    ((∀ b ∈ pre, isAlnumByte b = false) →
      camelize (pre ++ c :: rest) u = recaseTo u c :: camelizeGo false true rest) ∧
    ((∀ b ∈ pre, isLetter b = false) →
      camelize (pre ++ c :: rest) true = pre.filter Glb.Config.isDigit ++ toUpperByte c :: camelizeGo false true rest) := by
  refine ⟨fun hp => ?_, fun hp => ?_⟩
  · unfold camelize
    rw [camelize_skip_seps pre hp u, camelizeGo_letter u false c rest hc]
  · unfold camelize
    obtain ⟨ne', e⟩ := camelize_skip_nonletters pre hp (c :: rest) false
    rw [e, camelizeGo_letter true ne' c rest hc]
    rfl

example : camelize [49, 95, 97] false = [49, 65] := by decide

/-- IsDigitString ⇔ non-empty and every byte in '0'..'9' -/
theorem isDigitString_iff (s : Bytes) :
    isDigitString s = true ↔ s ≠ [] ∧ ∀ b ∈ s, (0x30 ≤ b ∧ b ≤ 0x39) := by
  unfold isDigitString
  rw [Bool.and_eq_true, allDigitsGo_iff]
  simp [Glb.Config.isDigit, and_comm]

/-- SliceContain ⇔ membership -/
theorem sliceContain_iff (l : List Bytes) (v : Bytes) : sliceContain l v = true ↔ v ∈ l :=
  Str.sliceContain_iff l v

end Str

/-! ## §E ExpandHomeDir -/
section Home
open Glb.Aux.Home Glb.PathClean

/-- the literal transcription with checked index / slice expressions never panics and equals the
    case-analysis form -/
theorem home_never_panics (home raw : Bytes) : expandHomeDir? home raw = .ok (expandHomeDir home raw) :=
  expandHomeDir_eq home raw

/-- exactly "~", "~/…" and "~\…" are expanded -/
theorem home_expands_iff (raw : Bytes) :
    expands raw = true ↔ raw = [tilde] ∨ (∃ r, raw = tilde :: slash :: r) ∨ (∃ r, raw = tilde :: backslash :: r) :=
  expands_iff raw

/-- everything else ("", "~user/x", "a/~", …) is only cleaned, whatever $HOME is, without error -/
theorem home_other_cleaned (home raw : Bytes) (h : expands raw = false) :
    expandHomeDir home raw = (clean raw, false) := by
  simp [expandHomeDir, h]

example : expands [126, 117, 115, 101, 114, 47, 120] = false := by decide

/-- with $HOME set: "~" is $HOME verbatim (not cleaned), "~/x" is Join($HOME, "/x") = Clean($HOME//x),
    "~\x" is Join($HOME, "\x") -/
theorem home_expanded (home x : Bytes) (hh : home ≠ []) :
    expandHomeDir home [tilde] = (home, false) ∧
    expandHomeDir home (tilde :: slash :: x) = (join [home, slash :: x], false) ∧
    join [home, slash :: x] = clean (home ++ slash :: slash :: x) ∧
    expandHomeDir home (tilde :: backslash :: x) = (join [home, backslash :: x], false) := by
  refine ⟨?_, ?_, join_nonempty home _ hh, ?_⟩ <;> simp [expandHomeDir, expands, hh]

example : expandHomeDir [47, 114, 111, 111, 116, 47] [126, 47, 97, 47, 46, 46, 47, 98] = ([47, 114, 111, 111, 116, 47, 98], false) := by decide

/-- with $HOME unset or empty every expanded input yields ("", error) -/
theorem home_unset (raw : Bytes) (h : expands raw = true) : expandHomeDir [] raw = ([], true) := by
  simp [expandHomeDir, h]

example : expands [126, 47, 120] = true := by decide

end Home

/-! ## §F GetClientIP / CookieValue -/
section Httpd
open Glb.Aux.Httpd Glb.Aux.Net

/-- GetClientIP never panics and follows the precedence X-Client-IP > text before the first comma of
    X-Forwarded-For > X-Real-IP > host part of RemoteAddr (by SplitHostPort); an empty header value
    counts as absent -/
theorem client_ip_precedence (h : Header) (remote : Bytes) :
    ∃ host port, splitHostPort remote = .ok (host, port) ∧
    getClientIP h remote = .ok (
      if get h xClientIP ≠ [] then get h xClientIP
      else if get h xForwardedFor ≠ [] then upTo comma (get h xForwardedFor)
      else if get h xRealIP ≠ [] then get h xRealIP
      else host) :=
  getClientIP_eq h remote

/-- `upTo`: the longest comma-free prefix (no trimming of spaces is done) -/
theorem forwarded_prefix (ip : Bytes) :
    comma ∉ upTo comma ip ∧ (upTo comma ip = ip ∨ ∃ rest, ip = upTo comma ip ++ comma :: rest) :=
  ⟨upTo_not_mem comma ip, upTo_prefix comma ip⟩

/-- CookieValue is the value of the first parsed cookie of that name … -/
theorem cookie_value_first (pre post : List (Bytes × Bytes)) (name v : Bytes) (hn : name ≠ [])
    (hp : ∀ c ∈ pre, c.1 ≠ name) : cookieValue (pre ++ (name, v) :: post) name = v :=
  cookie_first pre post name v hn hp

example : cookieValue [([97], [49]), ([98], [50]), ([98], [51])] [98] = [50] := by decide

/-- … and "" when there is none or the name is empty -/
theorem cookie_value_absent (cookies : List (Bytes × Bytes)) (name : Bytes)
    (h : name = [] ∨ ∀ c ∈ cookies, c.1 ≠ name) : cookieValue cookies name = [] :=
  cookie_absent cookies name h

end Httpd

end Glb.Aux
