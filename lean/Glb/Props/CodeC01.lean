/-
  Glb.Props.CodeC01 — the property theorems restated about the TRANSLATED code.

  `tools/extract/golean.go` rewrites Glb/Generated/Tr*.lean from the Go source on every run; the tie
  theorems (Glb/Tie/Tr*.lean) prove `translated function = hand model` for every input.  Here the two
  are composed: each theorem below speaks about a definition that was machine-translated from
  /repo as it is now, and states what the listed property says about that function.  Nothing here
  mentions a hand model in its statement except through the specification side (lexer, JSON grammar,
  route list, path normal form).

  What remains trusted for these statements: the translator's reading of Go (tools/extract/golean.go
  + Glb/Go/Prelude.lean), the library transcriptions in Glb/Go/Lib*.lean (strings.Replace/HasPrefix/
  IndexByte, utf8.DecodeRuneInString, path.Clean, filepath.Join — each compared with the real function
  by a correspondence stream), and the specifications.
-/
import Glb.Props.C01
import Glb.Tie.TrJson
import Glb.Tie.TrJsonString

namespace Glb.Code
open Glb

/-! ### C01 — the string escaper as translated from logger/json_handler.go -/

/-- C01 (string part) for the translated `appendJsonString`: it never panics; what it appends,
    put between quotes, is a JSON string literal that decodes to the per-byte U+FFFD sanitisation of
    the input; it appends no byte below 0x20 and only well-formed UTF-8. -/
theorem C01_appendJsonString (buf s : Bytes) :
    ∃ out, Tr.Logger.appendJsonString buf s = .ok (buf ++ out) ∧
      Json.IsJsonString (0x22 :: out ++ [0x22]) (Json.san s) ∧
      (∀ b ∈ out, 0x20 ≤ b) ∧ Json.WellFormedUtf8 out := by
  refine ⟨JsonHandler.appendJsonString s, Tie.TrJsonString.appendJsonString_eq buf s, ?_⟩
  have h := C01.jsonString_faithful s
  simpa [JsonHandler.quote] using h

/-- C01 (source attribute) for the translated `appendJsonSource`: never panics, writes the model's bytes -/
theorem C01_appendJsonSource (buf file : Bytes) (line : Int) :
    Tr.Logger.appendJsonSource buf file line
      = .ok (buf ++ JsonHandler.appendJsonSource file (Go.Lib.itoa line)) :=
  Tie.TrJson.appendJsonSource_eq buf file line

end Glb.Code
