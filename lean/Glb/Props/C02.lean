/-
  C02 — Logging is atomic per record: one Write, one whole line, never interleaved.
  Only property theorems live here; helper lemmas are in Glb/Proofs/LogSys.lean.

  Setting (Glb/Model/LogSys.lean): any number of goroutines, each running any program of
  `log handler level rec` / `derive` calls; one call = gate → getBuf → format → lock → Write
  (enter … leave) → unlock → freeBuf; one mutex shared by the root handler and all clones; a
  buffer pool from which `getBuf` takes ANY buffer (or a fresh one) and which may lose buffers at
  any time; any `maxBuf`, any initial capacity, any growth of the line buffer; `render h r` = the
  line the record produces when logged alone (any function, so any sizes — also lines larger than
  the pool limit).  All theorems quantify over all `Reachable` states, i.e. all interleavings.
-/
import Glb.Proofs.LogSys

namespace Glb.C02
open Glb.LogSys

/-- **`writes_never_overlap`.**  In every reachable state the goroutine inside `Write` holds the
    mutex, and no `Write` was ever entered while another one was in progress. -/
theorem writes_never_overlap (P : Params) (progs : List (List Op)) (s : St)
    (h : Reachable P progs s) :
    (∀ g, s.inWrite = some g → s.owner = some g) ∧ s.overlap = false :=
  ⟨(invt_reachable P progs s h).writerOwns, (invt_reachable P progs s h).noOverlap⟩

/-- … hence at most one goroutine is inside `Write` at any time. -/
theorem at_most_one_writer (P : Params) (progs : List (List Op)) (s : St)
    (h : Reachable P progs s) (g₁ g₂ : Nat) (x₁ x₂ : GState)
    (h₁ : s.gs[g₁]? = some x₁) (h₂ : s.gs[g₂]? = some x₂)
    (p₁ : x₁.pc = .leave) (p₂ : x₂.pc = .leave) : g₁ = g₂ := by
  have inv := invt_reachable P progs s h
  have w₁ := (inv.loc g₁ x₁ h₁).writes.1 p₁
  have w₂ := (inv.loc g₂ x₂ h₂).writes.1 p₂
  rw [w₁] at w₂
  cases w₂; rfl

/-- **`pool_clean`.**  Every pooled buffer has length 0, so a recycled buffer cannot pollute a
    line — for every `maxBuf`, whatever buffers were dropped or lost. -/
theorem pool_clean (P : Params) (progs : List (List Op)) (s : St) (h : Reachable P progs s) :
    ∀ b ∈ s.pool, b.data.length = 0 := by
  intro b hb
  rw [(invt_reachable P progs s h).pool b hb]; rfl

/-- what a goroutine hands to `Write` is exactly its record's own line: inside `Write` the buffer
    holds `render handler rec`, nothing before it, nothing after it -/
theorem write_payload_is_own_line (P : Params) (progs : List (List Op)) (s : St)
    (h : Reachable P progs s) (g : Nat) (x : GState) (hg : s.gs[g]? = some x) (hp : x.pc = .leave) :
    ∃ c rest, x.prog = .log c :: rest ∧ P.threshold ≤ c.level ∧
      x.buf.data = P.render c.handler c.rid := by
  rcases ((invt_reachable P progs s h).loc g x hg).call with h0 | ⟨c, rest, h1, h2, _, h4⟩
  · rw [hp] at h0; cases h0
  · exact ⟨c, rest, h1, h2, h4 (Or.inr (Or.inr hp))⟩

/-- **`one_write_per_enabled_record`.**  When all goroutines have finished, the destination log is
    a permutation of the sequential renderings of the logged records with level ≥ threshold: each
    exactly once, whole, byte-equal to what it would be if logged alone (`expected` lists
    `(handler, rec, render handler rec)` for exactly the `log` calls at an enabled level). -/
theorem one_write_per_enabled_record (P : Params) (progs : List (List Op)) (s : St)
    (h : Reachable P progs s) (hfin : Finished s) :
    List.Perm (s.dest.map Entry.key) (expected P progs) := by
  have hacct := acct_reachable P progs s h
  unfold Acct at hacct
  have hz : (s.gs.map (todo P)).flatten = [] := by
    rw [List.flatten_eq_nil_iff]
    intro l hl
    obtain ⟨x, hx, rfl⟩ := List.mem_map.1 hl
    have := hfin x hx
    unfold todo
    split <;> simp [this, pending]
  rw [hz, List.append_nil] at hacct
  exact hacct

/-- … so the number of `Write` calls equals the number of enabled records -/
theorem write_count (P : Params) (progs : List (List Op)) (s : St)
    (h : Reachable P progs s) (hfin : Finished s) :
    s.dest.length = (expected P progs).length := by
  have := (one_write_per_enabled_record P progs s h hfin).length_eq
  simpa using this

/-- **nothing below the threshold, nothing foreign, nothing partial** — at every moment, not only
    at the end: each completed `Write` carries the complete line of one `log` call of some program
    whose level is ≥ the threshold. -/
theorem every_write_is_an_enabled_record (P : Params) (progs : List (List Op)) (s : St)
    (h : Reachable P progs s) (e : Entry) (he : e ∈ s.dest) :
    ∃ p ∈ progs, ∃ c, Op.log c ∈ p ∧ P.threshold ≤ c.level ∧
      e.handler = c.handler ∧ e.rid = c.rid ∧ e.bytes = P.render c.handler c.rid := by
  have hacct := acct_reachable P progs s h
  have hk : e.key ∈ expected P progs := by
    apply hacct.subset
    exact List.mem_append_left _ (List.mem_map_of_mem he)
  simp only [expected, List.mem_flatten, List.mem_map] at hk
  obtain ⟨l, ⟨p, hp, rfl⟩, hkl⟩ := hk
  obtain ⟨c, hc, hlv, hkey⟩ := mem_pending hkl
  simp only [Entry.key, keyOf, Prod.mk.injEq] at hkey
  exact ⟨p, hp, c, hc, hlv, hkey.1, hkey.2.1, hkey.2.2⟩

/-- a program all of whose records are below the threshold causes no `Write` at all -/
theorem below_threshold_no_write (P : Params) (progs : List (List Op)) (s : St)
    (h : Reachable P progs s)
    (hlow : ∀ p ∈ progs, ∀ c, Op.log c ∈ p → c.level < P.threshold) : s.dest = [] := by
  cases hd : s.dest with
  | nil => rfl
  | cons e rest =>
    obtain ⟨p, hp, c, hc, hlv, _⟩ := every_write_is_an_enabled_record P progs s h e (by simp [hd])
    have := hlow p hp c hc
    omega

/-! ## Non-vacuity: a concrete system, explored exhaustively by evaluation -/

/-- lines of different sizes; the pool limit is 4 so the second is "oversized" -/
def demoRender : Nat → Nat → Bytes
  | _, 0 => [0x61, 0x0A]
  | _, 1 => [0x62, 0x62, 0x62, 0x62, 0x62, 0x62, 0x0A]
  | h, _ => [0x63, UInt8.ofNat h, 0x0A]

def demoP : Params := { threshold := 4, render := demoRender, maxBuf := 4, initCap := 2, grow := fun _ _ => 0 }

/-- root logger in goroutine 0 (one record below the threshold), a derived logger in goroutine 1 -/
def demoProgs : List (List Op) :=
  [[.log ⟨0, 4, 0⟩, .log ⟨0, 0, 9⟩, .log ⟨0, 8, 1⟩], [.derive 0, .log ⟨1, 12, 2⟩]]

/-- run a schedule: at each step take the last listed enabled step of the named goroutine
    (at `getBuf`: the pooled buffer with the highest index, a fresh one only if the pool is empty) -/
def sched (P : Params) : St → List Nat → St
  | s, [] => s
  | s, g :: rest =>
    match (enabled P s).reverse.find? (fun ls => match ls.1 with | .go g' _ => g' == g | _ => false) with
    | some (_, s') => sched P s' rest
    | none => sched P s rest

theorem sched_reachable (P : Params) (progs : List (List Op)) :
    ∀ (l : List Nat) (s : St), Reachable P progs s → Reachable P progs (sched P s l) := by
  intro l
  induction l with
  | nil => intro s h; exact h
  | cons g rest ih =>
    intro s h
    simp only [sched]
    split
    · rename_i l' s' hf
      exact ih _ (Reachable.step h (List.mem_reverse.1 (List.mem_of_find?_eq_some hf)))
    · exact ih _ h

/-- an interleaving in which goroutine 1 formats its line while goroutine 0 is inside Write -/
def demoSchedule : List Nat :=
  [0, 0, 0, 0, 0, 1, 1, 1, 1, 0, 0, 1, 1, 1, 1, 1, 0, 0, 0, 0, 0, 0, 0, 0, 0, 0]

def demoFinal : St := sched demoP (St.init demoProgs) demoSchedule

example : Reachable demoP demoProgs demoFinal := sched_reachable _ _ _ _ Reachable.init
/-- the hypotheses of `one_write_per_enabled_record` are satisfiable: this run finishes … -/
example : demoFinal.gs.all (fun x => x.prog.isEmpty) = true := by decide
/-- … the destination holds exactly the three enabled records (nothing for record 9) … -/
example : demoFinal.dest.map Entry.key =
    [(0, 0, demoRender 0 0), (1, 2, demoRender 1 2), (0, 1, demoRender 0 1)] := by decide
example : expected demoP demoProgs =
    [(0, 0, demoRender 0 0), (0, 1, demoRender 0 1), (1, 2, demoRender 1 2)] := by decide
/-- … the 3-byte buffer was recycled for the 7-byte line, grew beyond the limit and was dropped;
    what remains pooled is empty -/
example : demoFinal.pool.map (fun b => (b.data.length, b.cap)) = [(0, 2)] := by decide
/-- the mutex really blocks: with goroutine 0 inside Write, goroutine 1 at `lock` has no step -/
example : ((enabled demoP (sched demoP (St.init demoProgs) [0, 0, 0, 0, 0, 1, 1, 1, 1])).filter
    (fun ls => match ls.1 with | .go 1 _ => true | _ => false)).length = 0 := by decide

end Glb.C02
