/-
  C20 — daemon.Launch returns the daemon's pid, after Done(), with the daemon orphaned.
  Only property theorems live here; helper lemmas are in Glb/Proofs/Daemon.lean.

  Quantifier: every launcher order accepted by `GoodOrder` (signal.Notify precedes the only
  cmd.Start(), the pid is printed after the start, exactly one select) — `Tie.Daemon` re-proves
  this for what /repo's `launch` does now, with and without the `verifPause` hook — and EVERY
  interleaving of launcher, daemon, signal delivery, pause release and caller.  An interleaving
  is a list of labels accepted by `run`; it is complete when nothing but the daemon's own work
  is enabled any more (`Maximal`).  `launch_terminates` shows that every other step uses up a
  bounded budget, so every fair execution reaches such a state.
-/
import Glb.Proofs.Daemon

namespace Glb.C20
open Glb.Daemon

/-- If Notify precedes Start: for every complete interleaving in which the daemon reaches
    `Done()`, `Launch` has returned `(pid of the daemon, nil)`; it returned after the `done` step;
    the launcher has exited and the daemon is alive and re-parented. -/
theorem launch_ok (order : List LStep) (hgood : GoodOrder order) (tr : List Label) (s : St)
    (hrun : run tr (init order) = some s) (hdone : Label.done ∈ tr) (hmax : Maximal s) :
    s.result = some (.ok daemonPid)
    ∧ (∀ pre post, tr = pre ++ Label.ret :: post → Label.done ∈ pre)
    ∧ s.lstatus = .exited ∧ s.dstate = .ran ∧ s.dparent = .init := by
  have hinv := inv_run tr _ s (inv_init order hgood) hrun
  have hds : s.doneSeen = true := by
    rw [doneSeen_run tr _ s hrun]; simp [init, hdone]
  obtain ⟨hres, _, hex, hran, hpar⟩ := maximal_done s hinv hds hmax
  refine ⟨hres, ?_, hex, hran, hpar⟩
  intro pre post htr
  subst htr
  obtain ⟨s1, h1, h2⟩ := run_append pre (Label.ret :: post) _ s hrun
  simp only [run] at h2
  split at h2
  · rename_i s2 hs2
    -- the result fixed by this `ret` is the final one
    have hr2 : ∃ r, s2.result = some r ∧ s2.retAfterDone = s1.doneSeen := by
      simp only [step] at hs2
      split at hs2
      · simp only [Option.some.injEq] at hs2; subst hs2; exact ⟨_, rfl, rfl⟩
      · simp at hs2
    obtain ⟨r, hr, hrad⟩ := hr2
    have hfin := result_run post s2 s r hr h2
    rw [hres] at hfin
    have hrok : s2.result = some (.ok daemonPid) := by rw [hr]; exact hfin.symm
    have hinv2 := inv_step s1 s2 .ret (inv_run pre _ s1 (inv_init order hgood) h1) hs2
    have := hinv2.j11 _ hrok
    rw [hrad, doneSeen_run pre _ s1 h1] at this
    simpa [init] using this
  · simp at h2

/-- Safety on every (also incomplete) interleaving: whenever `Launch` has returned, it returned
    the daemon's pid after `Done()`, with the launcher gone and the daemon re-parented — or the
    daemon died before calling `Done()`.  In particular `Launch` never reports failure for a
    daemon that reached `Done()`. -/
theorem launch_safe (order : List LStep) (hgood : GoodOrder order) (tr : List Label) (s : St)
    (hrun : run tr (init order) = some s) (r : Result) (hr : s.result = some r) :
    (r = .ok daemonPid ∧ s.retAfterDone = true ∧ Label.done ∈ tr ∧ s.lstatus = .exited
        ∧ s.dstate = .ran ∧ s.dparent = .init)
    ∨ (r = .err ∧ s.dstate = .crashed ∧ Label.done ∉ tr) := by
  have hinv := inv_run tr _ s (inv_init order hgood) hrun
  have hds := doneSeen_run tr _ s hrun
  simp only [init, Bool.false_or] at hds
  obtain ⟨hex, hcase⟩ := hinv.j10 r hr
  rcases hcase with hok | ⟨herr, hcr⟩
  · left
    subst hok
    have hrad := hinv.j11 _ hr
    have hdone : s.doneSeen = true := hinv.j12 hrad
    refine ⟨rfl, hrad, ?_, hex, hinv.j4.mp hdone, hinv.j8.2 hex⟩
    rw [hdone] at hds
    simpa using hds.symm
  · right
    refine ⟨herr, hcr, ?_⟩
    intro hmem
    have : s.doneSeen = true := by rw [hds]; simpa using hmem
    have := hinv.j4.mp this
    simp_all

/-- Every step other than the daemon's own work strictly decreases `budget`: there is no
    infinite interleaving with infinitely many such steps, i.e. every fair execution reaches a
    `Maximal` state (and then `launch_ok` applies). -/
theorem launch_terminates (s s' : St) (l : Label) (hl : l ≠ .work) (h : step s l = some s') :
    budget s' < budget s := budget_step s s' l hl h

/-- The pinned order (Start before Notify) is not accepted, and it races: there is an
    interleaving — `Done()` and the delivery of its signal before `signal.Notify` — in which
    `Launch` returns an error while the daemon is running, orphaned. -/
theorem pinned_order_races :
    ¬ GoodOrder pinnedOrder
    ∧ ∃ tr s, run tr (init pinnedOrder) = some s ∧ Label.done ∈ tr
        ∧ s.result = some .err ∧ s.lstatus = .killed ∧ s.dstate = .ran ∧ s.dparent = .init :=
  ⟨by decide, [.lnext, .done, .deliver, .ret], _, rfl, by decide, by decide, by decide, by decide,
    by decide⟩

/-- with the pause hook after `cmd.Start()` the pinned order loses EVERY time the harness waits
    for `Done()` before releasing: no complete run of that schedule lets Launch succeed -/
theorem pinned_order_paused_fails :
    ∃ s, run [.lnext, .done, .deliver, .release, .ret] (init (withPause pinnedOrder)) = some s
      ∧ s.result = some .err ∧ s.dstate = .ran :=
  ⟨_, rfl, by decide, by decide⟩

/-! ### non-vacuity -/

def exOrder : List LStep := [.notify, .start, .printPid, .spawnWaiter, .select]

example : GoodOrder exOrder := by decide
example : GoodOrder (withPause exOrder) := by decide

/-- a complete interleaving with a fast daemon: Done() and the delivery of its signal happen
    before the launcher has even printed the pid -/
def exTrace : List Label :=
  [.lnext, .lnext, .work, .done, .deliver, .release, .lnext, .lnext, .lnext, .lexit, .work, .ret]

example : ∃ s, run exTrace (init exOrder) = some s ∧ Label.done ∈ exTrace ∧ Maximal s := by
  refine ⟨_, rfl, by decide, ?_⟩
  intro l hl
  cases l <;> first | rfl | exact absurd rfl hl

/-- the daemon dies before Done(): Launch reports the failure -/
example : ∃ s, run [.lnext, .lnext, .lnext, .lnext, .crash, .waiter, .lnext, .lexit, .ret]
    (init exOrder) = some s ∧ s.result = some .err ∧ s.dstate = .crashed := ⟨_, rfl, rfl, rfl⟩

end Glb.C20
