/-
  C14 — TaskLane: a panicking task is contained (only `lastPanic` differs), and `Status().PendingTask`
  is bounded always and exact at rest.
  Model: `Glb.Model.TaskLane`; invariant: `Glb.Proofs.TaskLaneSafety` (`WFS`).  Arbitrary `L`, `Q`.
-/
import Glb.Proofs.TaskLaneSafety
import Glb.Proofs.TaskLaneDemo

namespace Glb.TaskLane

variable (L Q : Nat)

/-- the successor of a `finish` step in which the task panicked with `v` is the successor of the
    normal return except for `lastPanic` (and its ghost history `panics`): a panic changes nothing
    else — no goroutine is lost, no task is dropped, the worker continues at the same pc -/
theorem C14_panic_contained (s : St) (i n v : Nat) :
    ({ s with ws := upd s.ws i (goto (s.ws i) n), finished := s.finished ++ [(s.ws i).held],
              lastPanic := match some v with | some x => some x | none => s.lastPanic,
              panics := match some v with | some x => s.panics ++ [x] | none => s.panics } : St) =
    { ({ s with ws := upd s.ws i (goto (s.ws i) n), finished := s.finished ++ [(s.ws i).held],
                lastPanic := match (none : Option Nat) with | some x => some x | none => s.lastPanic,
                panics := match (none : Option Nat) with | some x => s.panics ++ [x] | none => s.panics } : St)
      with lastPanic := some v, panics := s.panics ++ [v] } := rfl

/-- step-level form, for an arbitrary configuration: wherever worker `i` can return normally from task
    `t` it can also panic with any `v` and vice versa, and the two successors differ only in
    `lastPanic`/`panics` -/
theorem C14_panic_contained_step (c : Cfg) (s : St) (i : Nat) (t : Tid) (v : Nat) :
    ((∃ s₁, Step c s (.finish i t none) s₁) ↔ (∃ s₂, Step c s (.finish i t (some v)) s₂)) ∧
    ∀ s₁ s₂, Step c s (.finish i t none) s₁ → Step c s (.finish i t (some v)) s₂ →
      s₂ = { s₁ with lastPanic := some v, panics := s.panics ++ [v] } ∧ s₁.panics = s.panics ∧
        s₁.lastPanic = s.lastPanic := by
  refine ⟨⟨?_, ?_⟩, ?_⟩
  · rintro ⟨_, h⟩
    obtain ⟨n, hi, hp, hin, rfl, -⟩ := h.finish_inv rfl
    exact ⟨_, Step.finish s i n (some v) hi hp hin⟩
  · rintro ⟨_, h⟩
    obtain ⟨n, hi, hp, hin, rfl, -⟩ := h.finish_inv rfl
    exact ⟨_, Step.finish s i n none hi hp hin⟩
  · intro s₁ s₂ h₁ h₂
    obtain ⟨n, -, -, hin, -, rfl⟩ := h₁.finish_inv rfl
    obtain ⟨n', -, -, hin', -, rfl⟩ := h₂.finish_inv rfl
    have : n' = n := by
      rw [hin] at hin'; injection hin' with h; injection h with _ h; exact h.symm
    subst this
    exact ⟨rfl, rfl, rfl⟩

/-- trace-level form, for an arbitrary configuration: forget `lastPanic` (and its ghost history) in any
    reachable state and you get a state reachable by a run in which NO task panics (the same schedule
    with every panicking `Start()` replaced by a normal return).  So panics influence nothing but
    `lastPanic`: queues, workers, counters, `started`/`finished`/`accepted`/`results` evolve identically. -/
theorem C14_panic_contained_trace (c : Cfg) (s : St) (h : Reachable c s) :
    ReachableNoPanic c (erasePanics s) := by
  induction h with
  | init => exact .init
  | step s l s' _ hs ih =>
    obtain ⟨l', hs', hl'⟩ := hs.erasePanics
    exact .step _ l' _ ih hs' hl'

/-- `lastPanic` is one of the panic values seen — the most recent one -/
theorem C14_lastPanic (s : St) (h : Reachable (cfg L Q) s) :
    (∀ v, s.lastPanic = some v → v ∈ s.panics) ∧ (s.panics ≠ [] → s.lastPanic = s.panics.getLast?) := by
  have w := wfs_of_reachable h
  refine ⟨fun v hv => ?_, fun _ => w.basic.panic⟩
  rw [w.basic.panic, List.getLast?_eq_some_iff] at hv
  obtain ⟨ys, hys⟩ := hv
  simp [hys]

/-- buffer lengths and the counter are bounded in every reachable state, hence any non-atomic sequence
    of reads adds up to at most L·(Q+1) -/
theorem C14_pending_bounds (s : St) (h : Reachable (cfg L Q) s) :
    (∀ i, i < L → (s.buf i).length ≤ Q) ∧ s.cnt ≤ L := by
  have w := wfs_of_reachable h
  exact ⟨fun i _ => w.basic.buf i, w.cnt_le⟩

theorem C14_status_bound (ss : Nat → St) (s' : St) (h : ∀ i, Reachable (cfg L Q) (ss i))
    (h' : Reachable (cfg L Q) s') :
    sumTo L (fun i => ((ss i).buf i).length) + s'.cnt ≤ L * (Q + 1) := by
  have h1 := sumTo_le_mul L (fun i => ((ss i).buf i).length) Q
    (fun i hi => (C14_pending_bounds L Q (ss i) (h i)).1 i hi)
  have h2 := (C14_pending_bounds L Q s' h').2
  rw [Nat.mul_succ]; omega

/-- the same under the weaker syntactic notion of rest: no queue goroutine between take and
    increment or between hand-over and decrement, no worker between receive and Start() -/
theorem C14_pending_exact_at_rest' (s : St) (h : Reachable (cfg L Q) s) (hc : s.cancelled = false)
    (hrest : ∀ i, i < L → (s.qs i).pc ≠ 1 ∧ (s.qs i).pc ≠ 5 ∧ ¬ ((s.ws i).pc = 3 ∧ (s.ws i).parked = false)) :
    s.statusPending (cfg L Q) = (s.pending (cfg L Q)).length ∧
    (s.pending (cfg L Q)).length + s.started.length = s.accepted.length := by
  have w := wfs_of_reachable h
  constructor
  · have hq : sumTo L (fun i => (qHolding (s.qs i)).length) = s.cnt := by
      rw [w.basic.cntEq hc]
      apply sumTo_congr
      intro i hi
      obtain ⟨h1, h5, -⟩ := hrest i hi
      simp only [qHolding, inFl]
      split <;> split <;> simp <;> omega
    have hw : sumTo L (fun i => (wHolding (s.ws i)).length) = 0 := by
      rw [← sumTo_zero L]
      apply sumTo_congr
      intro i hi
      obtain ⟨-, -, h3⟩ := hrest i hi
      simp only [wHolding, if_neg h3, List.length_nil]
    simp only [St.statusPending, St.pending, pendingOf, List.length_append, length_catTo, cfg, hq, hw]
    omega
  · rw [← List.length_append]
    exact (List.perm_iff_count.2 (w.count_eq hc)).length_eq

/-- at rest (no internal step enabled) the reported number is exactly the number of
    accepted-but-not-started tasks -/
theorem C14_pending_exact_at_rest (s : St) (h : Reachable (cfg L Q) s) (hc : s.cancelled = false)
    (hq : Quiescent (cfg L Q) s) :
    s.statusPending (cfg L Q) = (s.pending (cfg L Q)).length ∧
    (s.pending (cfg L Q)).length + s.started.length = s.accepted.length := by
  apply C14_pending_exact_at_rest' L Q s h hc
  intro i hi
  refine ⟨fun h1 => ?_, fun h5 => ?_, fun ⟨h3, hp⟩ => ?_⟩
  · have := hq _ _ (Step.incCnt s (.q i) 2 hi (by rw [instrAt_q, h1]; rfl))
    simp [internal] at this
  · have := hq _ _ (Step.decCnt s (.q i) 0 hi (by rw [instrAt_q, h5]; rfl))
    simp [internal] at this
  · have := hq _ _ (Step.start s i 0 hi hp (by rw [instrAt_w, h3]; rfl))
    simp [internal] at this

/-! ### Non-vacuity: reachable states of `cfg 2 1` built from explicit `Step`s (`Glb.Proofs.TaskLaneDemo`) -/

open Demo

/-- a task that panicked with 42: `lastPanic` set, everything else as after a normal return -/
example : Reachable (cfg 2 1) d13 ∧ d13.lastPanic = some 42 ∧ d13.panics = [42] ∧ d13.finished = [7] ∧
    (d13.ws 1).pc = 0 := ⟨reach13, by decide⟩

example : (42 : Nat) ∈ d13.panics := (C14_lastPanic 2 1 d13 reach13).1 42 (by decide)

/-- the panic-free twin of `d13`: same state except `lastPanic`, reachable without any panic -/
example : ReachableNoPanic (cfg 2 1) (erasePanics d13) ∧ (erasePanics d13).finished = [7] ∧
    (erasePanics d13).lastPanic = none ∧ d13.lastPanic = some 42 :=
  ⟨C14_panic_contained_trace _ _ reach13, by decide⟩

/-- both `finish` steps are enabled in `d12` (the instance used above is the panicking one) -/
example : (∃ s₁, Step (cfg 2 1) d12 (.finish 1 7 none) s₁) ∧ (∃ s₂, Step (cfg 2 1) d12 (.finish 1 7 (some 42)) s₂) :=
  ⟨(C14_panic_contained_step (cfg 2 1) d12 1 7 42).1.2 ⟨_, step13⟩, ⟨_, step13⟩⟩

/-- states at rest with one pending task: in the buffer (`d3`), in the queue goroutine's hand after the
    increment (`d6`); `Status()` reports exactly 1 -/
example : Reachable (cfg 2 1) d3 ∧ d3.cancelled = false ∧ d3.statusPending (cfg 2 1) = 1 ∧
    d3.pending (cfg 2 1) = [7] := ⟨reach3, by decide⟩

example : d6.statusPending (cfg 2 1) = (d6.pending (cfg 2 1)).length ∧
    (d6.pending (cfg 2 1)).length + d6.started.length = d6.accepted.length :=
  C14_pending_exact_at_rest' 2 1 d6 reach6 (by decide) (by decide)

example : d6.statusPending (cfg 2 1) = 1 ∧ d6.buf 1 = [] ∧ d6.cnt = 1 := by decide

/-- the rest hypothesis is necessary: between take and `cnt++` (`d4`) the pending task is invisible to
    `Status()`, and between hand-over and `cnt--` (`d11`, task already started) it is still counted -/
example : Reachable (cfg 2 1) d4 ∧ d4.cancelled = false ∧ d4.statusPending (cfg 2 1) = 0 ∧
    d4.pending (cfg 2 1) = [7] := ⟨reach4, by decide⟩

example : Reachable (cfg 2 1) d11 ∧ d11.cancelled = false ∧ d11.statusPending (cfg 2 1) = 1 ∧
    d11.pending (cfg 2 1) = [] := ⟨reach11, by decide⟩

/-- the hypotheses of `C14_pending_exact_at_rest` are jointly satisfiable: the idle state of `cfg 1 1`
    (worker and queue goroutine parked) is reachable, live and quiescent -/
example : Reachable (cfg 1 1) i4 ∧ i4.cancelled = false ∧ Quiescent (cfg 1 1) i4 :=
  ⟨ireach4, by decide, i4_quiescent⟩

end Glb.TaskLane
