/-
  Glb.Props.CodeC04 — the property theorems restated about the TRANSLATED code.

  `tools/extract/golean.go` rewrites Glb/Generated/Tr*.lean from the Go source on every run; the tie
  theorems (Glb/Tie/Tr*.lean) prove `translated function = hand model` for every input.  Here the two
  are composed: each theorem below speaks about a definition that was machine-translated from
  /repo as it is now, and states what the listed property says about that function.  Nothing here
  mentions a hand model in its statement except through the specification side (lexer, JSON grammar,
  route list, path normal form).

  What remains trusted for these statements: the translator's reading of Go (tools/extract/golean.go
  + Glb/Go/Prelude.lean), the library transcriptions in Glb/Go/Lib*.lean (strings.Replace/HasPrefix/
  IndexByte, utf8.DecodeRuneInString, path.Clean, filepath.Join — each compared with the real function
  by a correspondence stream), and the specifications.
-/
import Glb.Props.C04
import Glb.Tie.TrRouter

namespace Glb.Code
open Glb

/-! ### C04 — findRoute as translated from httpd/tree.go -/

/-- C04 for the translated `findRoute`: on every trie built by successful registrations of
    leading-slash patterns, for every request path and method string, the translated trie walk
    returns — without panicking — exactly the route the route-list specification selects, with `K` =
    that route's names and `V` = the texts bound to them; `nil` and empty `K` when there is none. -/
theorem C04_findRoute (routes : List RouteList.Route) (t : Router.Node)
    (hls : ∀ r ∈ routes, Router.LeadingSlash r.pattern)
    (hb : Router.build (routes.map Router.regOf) = some t) (path method : Bytes) :
    ∃ V', Tr.Router.findRoute t path method [] [] = .ok (match RouteList.specFind routes path method with
      | some mt => ((C04.paramsOf mt).K, (C04.paramsOf mt).V, some mt.id)
      | none => ([], V', none)) := by
  obtain ⟨V', h⟩ := C04.trie_refines_routes routes t hls hb path method
  refine ⟨V', ?_⟩
  have := Tie.TrRouter.findRoute_eq t path method {}
  simp only [] at this
  rw [this, h]
  cases RouteList.specFind routes path method <;> rfl

end Glb.Code
