/-
  Glb.Props.CodeC13 — C13 restated about the TRANSLATED text-handler string writer
  (Glb/Generated/TrText.lean, regenerated from /repo/logger/text_handler.go on every run; tie:
  Glb/Tie/TrText.lean).  See DESIGN.md §0.7 for what is trusted (the translator's reading of Go, the
  `Std` record standing for unicode.IsSpace / IsPrint / strconv.Quote, utf8.DecodeRuneInString's
  transcription).
-/
import Glb.Props.C13
import Glb.Tie.TrText

namespace Glb.Code
open Glb Glb.TextHandler

/-- C13 (value writer) for the translated `appendTextString`: it never panics; a string it writes
    WITHOUT quotes is non-empty and consists of bare runes only (no byte ≤ 0x20, no `=`, no `"`, no
    ill-formed UTF-8, no space rune, no unprintable rune) — so it cannot end the token, open another
    field or break the line; every other string is handed to the quoter (or written as `""`). -/
theorem C13_appendTextString (P : Std) (unquote : Bytes → Option Bytes) (buf s : Bytes) :
    (quotes P s = false →
        Tr.Logger.appendTextString P buf s = .ok (buf ++ s) ∧ TextTokens.bareTok (TextExpected.lexOf P unquote) s) ∧
    (quotes P s = true → s ≠ [] → Tr.Logger.appendTextString P buf s = .ok (buf ++ P.quote s)) ∧
    (s = [] → Tr.Logger.appendTextString P buf s = .ok (buf ++ [0x22, 0x22])) :=
  ⟨fun h => ⟨Tie.TrText.appendTextString_bare P buf s h, C13.bare_is_safe P unquote s h⟩,
   fun h hne => Tie.TrText.appendTextString_quoted P buf s h hne,
   fun h => by subst h; exact Tie.TrText.appendTextString_empty P buf⟩

end Glb.Code
