/-
  C05 — Requests are isolated: pooled per-request state never leaks between requests.

  Model: `Glb/Model/Store.lean` (Store with Go slices, the pool as a list from which `Get` may take
  ANY store or make a new one and which may forget stores at any time, `maxParams`, the request
  counter, `serve` = Get / set id / findRoute / relay + handler observations / handler effect /
  reset / Put; registrations between requests).  Lemmas: `Glb/Proofs/Store.lean`.
  Only the property theorems live here.
-/
import Glb.Proofs.Store
import Glb.Proofs.StoreConc

namespace Glb.C05
open Glb Glb.Router Glb.Store

/-- **The pool invariant**: the prefix has 9 bytes, the trie is one built by registrations
    (accepted or refused), and every pooled Store is at rest — `K = nil`, `len V = 0`,
    `Status = 0`, `I = nil`, `id` = the 9-byte prefix within its capacity. -/
abbrev PoolInv (mux : MuxSt) : Prop := MuxInv mux

theorem poolInv_fresh (pfx : Bytes) (h : pfx.length = 9) : PoolInv (fresh pfx) := fresh_inv pfx h

/-- every request keeps the invariant — matched or unmatched, whatever the handler writes, whether
    it panics (Store not returned) or not, whatever Store the pool handed out — and neither
    `ServeHTTP` nor a probing handler panics on its own account -/
theorem poolInv_request (grow : Nat → Nat) (render : Nat → Bytes) (mux : MuxSt) (h : PoolInv mux)
    (req : Req) (names : List Bytes) (beh : Behaviour) (choice : Option Nat) :
    PoolInv (serve grow render mux req names beh choice).1 ∧
    (∃ o, (serve grow render mux req names beh choice).2 = .ok [o, o]) := by
  obtain ⟨o, _, hs, hinv, _⟩ := serve_spec grow render h req names beh choice
  exact ⟨hinv, o, hs⟩

/-- every registration — accepted or refused — keeps the invariant, and `parseRoute` does not panic -/
theorem poolInv_registration (mux : MuxSt) (h : PoolInv mux) (p m : Bytes) :
    ∃ mux' res, handle mux p m = .ok (mux', res) ∧ PoolInv mux' := by
  obtain ⟨mux', res, hh, hinv, _⟩ := handle_inv h p m
  exact ⟨mux', res, hh, hinv⟩

/-- hence the invariant holds in every reachable state: any interleaving of registrations,
    requests (any pool choice) and stores forgotten by the pool -/
theorem poolInv_reachable (grow : Nat → Nat) (render : Nat → Bytes) (pfx : Bytes) (hp : pfx.length = 9)
    (ops : List Op) : PoolInv (run grow render (fresh pfx) ops) :=
  (run_inv grow render ops (fresh_inv pfx hp)).1

/-- **Isolation.**  In every reachable state of a Mux (any history `ops` of registrations, requests
    — matched, unmatched, with handlers writing a status or panicking — and forgotten stores), for
    every choice the pool makes and every request: the relay handler and the selected handler both
    observe `.ok o` (no panic from `Params.Get`, from growing `V` or from reslicing) where `o` —
    selected route, every parameter lookup, `RouteParamAny`, the initial status (0) — is exactly
    what the same request observes on a FRESH Mux on which only the registrations of the history
    were made; the two differ in nothing but the counter part of the id. -/
theorem request_isolated (grow grow' : Nat → Nat) (render : Nat → Bytes) (pfx : Bytes) (hp : pfx.length = 9)
    (ops : List Op) (req : Req) (names : List Bytes) (beh : Behaviour) (choice : Option Nat) :
    ∃ o : Obs, o.status = 0 ∧
      (serve grow render (run grow render (fresh pfx) ops) req names beh choice).2 =
        .ok [{ o with id := pfx ++ render ((run grow render (fresh pfx) ops).counter + 1) },
             { o with id := pfx ++ render ((run grow render (fresh pfx) ops).counter + 1) }] ∧
      (serve grow' render (run grow' render (fresh pfx) (ops.filter Op.isHandle)) req names {} none).2 =
        .ok [{ o with id := pfx ++ render 1 }, { o with id := pfx ++ render 1 }] := by
  obtain ⟨hI, hpfx⟩ := run_inv grow render ops (fresh_inv pfx hp)
  obtain ⟨hI0, hpfx0⟩ := run_inv grow' render (ops.filter Op.isHandle) (fresh_inv pfx hp)
  have hroot := (run_root grow grow' render ops (fresh_inv pfx hp) (fresh_inv pfx hp) rfl rfl).1
  have hc0 := run_handles_counter grow' render ops (fresh_inv pfx hp)
  obtain ⟨o, ho, hs, _⟩ := serve_spec grow render hI req names beh choice
  obtain ⟨o0, ho0, hs0, _⟩ := serve_spec grow' render hI0 req names {} none
  obtain ⟨S, P, hT⟩ := hI.trie
  obtain ⟨o', ho', hst, hid⟩ := obsPure_ok hT req names
    ((run grow render (fresh pfx) ops).pfx ++ render ((run grow render (fresh pfx) ops).counter + 1))
  rw [ho] at ho'
  cases ho'
  have hpf : (fresh pfx).pfx = pfx := rfl
  rw [hpfx, hpf] at hid ho
  rw [hpfx0, hpf, hc0, ← hroot] at ho0
  have hc1 : (fresh pfx).counter + 1 = 1 := rfl
  rw [hc1] at ho0
  have := obsPure_id _ _ _ _ (pfx ++ render 1) o ho
  rw [this] at ho0
  cases ho0
  refine ⟨o, hst, ?_, hs0⟩
  rw [hs]
  have : ({ o with id := pfx ++ render ((run grow render (fresh pfx) ops).counter + 1) } : Obs) = o := by
    rw [← hid]
  rw [this]

/-- the ids the handlers of the request operations of a history observe, in order -/
def observedIds (grow : Nat → Nat) (render : Nat → Bytes) : MuxSt → List Op → List Bytes
  | _, [] => []
  | mux, op :: ops =>
    let rest := observedIds grow render (step grow render mux op) ops
    match op with
    | .request req names beh choice =>
      match (serve grow render mux req names beh choice).2 with
      | .ok (o :: _) => o.id :: rest
      | _ => rest
    | _ => rest

/-- the request counter strictly increases with every request (also a panicking one) and is not
    touched by anything else -/
theorem counter_step (grow : Nat → Nat) (render : Nat → Bytes) (mux : MuxSt) (h : PoolInv mux) (op : Op) :
    (step grow render mux op).counter = mux.counter + (match op with
      | .request .. => 1
      | _ => 0) := by
  cases op with
  | handle p m =>
    obtain ⟨mux', res, hh, _, hc, _⟩ := handle_inv h p m
    simp [step, hh, hc]
  | request req names beh choice =>
    obtain ⟨o, _, _, _, hc, _⟩ := serve_spec grow render h req names beh choice
    simpa [step] using hc
  | drop i => simp [step]

/-- **Ids are unique.**  Given that the rendering of the counter is injective (the contract of
    `strconv.AppendUint(_, n, 36)`; `render36_injective` is a concrete instance), the ids observed
    by the requests of any history of one Mux are pairwise distinct.  (Within one request the id
    is constant: both observations of `request_isolated` carry the same id.) -/
theorem ids_unique (grow : Nat → Nat) (render : Nat → Bytes) (hinj : ∀ a b, render a = render b → a = b)
    (pfx : Bytes) (hp : pfx.length = 9) (ops : List Op) :
    (observedIds grow render (fresh pfx) ops).Nodup := by
  have gen : ∀ (ops : List Op) (mux : MuxSt), MuxInv mux →
      ∃ cs : List Nat, observedIds grow render mux ops = cs.map (fun c => mux.pfx ++ render c) ∧
        cs.Pairwise (· < ·) ∧ ∀ c ∈ cs, mux.counter < c := by
    intro ops
    induction ops with
    | nil => intro mux _; exact ⟨[], rfl, List.Pairwise.nil, by simp⟩
    | cons op ops ih =>
      intro mux h
      obtain ⟨hinv, hpfx⟩ := step_inv grow render h op
      obtain ⟨cs, hcs, hpw, hgt⟩ := ih _ hinv
      have hcnt := counter_step grow render mux h op
      cases op with
      | handle p m =>
        simp only [Nat.add_zero] at hcnt
        refine ⟨cs, ?_, hpw, fun c hc => hcnt ▸ hgt c hc⟩
        simp only [observedIds, hcs, hpfx]
      | drop i =>
        simp only [Nat.add_zero] at hcnt
        refine ⟨cs, ?_, hpw, fun c hc => hcnt ▸ hgt c hc⟩
        simp only [observedIds, hcs, hpfx]
      | request req names beh choice =>
        obtain ⟨o, ho, hs, _⟩ := serve_spec grow render h req names beh choice
        obtain ⟨S, P, hT⟩ := h.trie
        obtain ⟨o', ho', _, hid⟩ := obsPure_ok hT req names (mux.pfx ++ render (mux.counter + 1))
        rw [ho] at ho'; cases ho'
        simp only at hcnt
        refine ⟨(mux.counter + 1) :: cs, ?_, ?_, ?_⟩
        · simp only [observedIds, hs, hcs, hpfx, List.map_cons, hid]
        · refine List.Pairwise.cons ?_ hpw
          intro c hc
          have := hgt c hc
          omega
        · intro c hc
          simp only [List.mem_cons] at hc
          rcases hc with rfl | hc
          · omega
          · have := hgt c hc; omega
  obtain ⟨cs, hcs, hpw, _⟩ := gen ops (fresh pfx) (fresh_inv pfx hp)
  rw [hcs]
  refine List.Pairwise.map _ ?_ hpw
  intro a b hab heq
  have := hinj a b (List.append_cancel_left heq)
  omega

/-- the concrete instance of the rendering contract: base 36, digits `0-9a-z` -/
theorem render36_injective : ∀ a b, render36 a = render36 b → a = b := fun _ _ h => render36_inj h

/-! ## The concurrent case: interleaving semantics (`Glb/Model/StoreConc.lean`)

  Events `begin k req names choice` / `finish k beh` / `register p m` / `drop i`, any number of
  requests in flight at once; a history is any list of events (events that are not enabled do
  nothing).  `sequential_observation_is_begin` links the two models: a sequential `serve` observes
  exactly what `begin` observes in an interleaving state with the same trie, prefix and counter. -/

/-- the sequential model's request and the interleaving model's `begin` observe the same thing
    whenever trie, prefix and counter agree — whatever is pooled or in flight on either side -/
theorem sequential_observation_is_begin (grow grow' : Nat → Nat) (render : Nat → Bytes) (mux : MuxSt) (s : CState)
    (hm : PoolInv mux) (hs : CInv s) (hroot : mux.root = s.root) (hpfx : mux.pfx = s.pfx)
    (hc : mux.counter = s.counter) (k : Nat) (req : Req) (names : List Bytes) (beh : Behaviour)
    (choice choice' : Option Nat) :
    (serve grow render mux req names beh choice).2 = (beginReq grow' render s k req names choice').2 := by
  obtain ⟨o, ho, h1, _⟩ := serve_spec grow render hm req names beh choice
  obtain ⟨o', ho', h2, _⟩ := begin_spec grow' render hs k req names choice'
  rw [hroot, hpfx, hc, ho'] at ho
  cases ho
  rw [h1, h2]

/-- **Pool invariant and ownership, concurrently.**  In every reachable state of the interleaving
    semantics the pool invariant holds (every pooled Store is at rest), the request keys in flight
    are pairwise distinct, and the identities of all Stores known to the Mux — pooled ones followed
    by those in flight — are pairwise distinct: no Store is pooled twice, in flight twice, or both
    pooled and in flight. -/
theorem pool_inv_concurrent (grow : Nat → Nat) (render : Nat → Bytes) (pfx : Bytes) (hp : pfx.length = 9)
    (evs : List CEvent) :
    PoolInv (crun grow render (cfresh pfx) evs).toMux ∧
    ((crun grow render (cfresh pfx) evs).pool.map (·.1) ++ (crun grow render (cfresh pfx) evs).inflight.map (·.sid)).Nodup ∧
    ((crun grow render (cfresh pfx) evs).inflight.map (·.key)).Nodup := by
  obtain ⟨h, _⟩ := crun_inv grow render evs (cfresh_inv pfx hp)
  exact ⟨h.toMux, h.own, h.keys⟩

/-- **Isolation, concurrently.**  In every reachable state of the interleaving semantics — any
    number of other requests in flight, whatever they matched, whatever their handlers will do —
    for every choice the pool makes and every request, `begin` fixes the observations of the relay
    and the handler to `.ok o` (no panic), where `o` is exactly what the same request observes on a
    fresh Mux on which only the registrations made so far were made (sequential model, `regRun`);
    the two differ in nothing but the counter part of the id. -/
theorem request_isolated_concurrent (grow grow' : Nat → Nat) (render : Nat → Bytes) (pfx : Bytes)
    (hp : pfx.length = 9) (evs : List CEvent) (k : Nat) (req : Req) (names : List Bytes) (choice : Option Nat) :
    ∃ o : Obs, o.status = 0 ∧
      (beginReq grow render (crun grow render (cfresh pfx) evs) k req names choice).2 =
        .ok [{ o with id := pfx ++ render ((crun grow render (cfresh pfx) evs).counter + 1) },
             { o with id := pfx ++ render ((crun grow render (cfresh pfx) evs).counter + 1) }] ∧
      (serve grow' render (regRun pfx (crun grow render (cfresh pfx) evs).regs) req names {} none).2 =
        .ok [{ o with id := pfx ++ render 1 }, { o with id := pfx ++ render 1 }] := by
  obtain ⟨hI, hpfx⟩ := crun_inv grow render evs (cfresh_inv pfx hp)
  have hpf : (cfresh pfx).pfx = pfx := rfl
  rw [hpf] at hpfx
  obtain ⟨hI0, hc0, hpfx0⟩ := regRun_inv pfx hp (crun grow render (cfresh pfx) evs).regs
  obtain ⟨o, ho, hs, _⟩ := begin_spec grow render hI k req names choice
  obtain ⟨o0, ho0, hs0, _⟩ := serve_spec grow' render hI0 req names {} none
  obtain ⟨S, P, hT⟩ := hI.trie
  obtain ⟨o', ho', hst, hid⟩ := obsPure_ok hT req names
    ((crun grow render (cfresh pfx) evs).pfx ++ render ((crun grow render (cfresh pfx) evs).counter + 1))
  rw [ho] at ho'
  cases ho'
  rw [hpfx] at hid ho
  have hroot := hI.regsRoot.1
  rw [hpfx] at hroot
  rw [hpfx0, hc0, ← hroot] at ho0
  have := obsPure_id _ _ _ _ (pfx ++ render (0 + 1)) o ho
  rw [this] at ho0
  cases ho0
  refine ⟨o, hst, ?_, hs0⟩
  rw [hs]
  have : ({ o with id := pfx ++ render ((crun grow render (cfresh pfx) evs).counter + 1) } : Obs) = o := by
    rw [← hid]
  rw [this]

/-- the fresh Mux of `request_isolated_concurrent` is the sequential model's Mux after exactly the
    `Handle` calls made so far -/
theorem regRun_is_sequential (grow : Nat → Nat) (render : Nat → Bytes) (pfx : Bytes) (regs : List (Bytes × Bytes)) :
    run grow render (fresh pfx) (regs.map fun r => Op.handle r.1 r.2) = regRun pfx regs :=
  run_handles_eq_regRun grow render pfx regs

/-- the ids observed by the requests begun in a history of the interleaving semantics, in order -/
def begunIds (grow : Nat → Nat) (render : Nat → Bytes) : CState → List CEvent → List Bytes
  | _, [] => []
  | s, e :: evs =>
    let rest := begunIds grow render (cstep grow render s e) evs
    match e with
    | .begin k req names choice =>
      if cenabled s e then
        match (beginReq grow render s k req names choice).2 with
        | .ok (o :: _) => o.id :: rest
        | _ => rest
      else rest
    | _ => rest

/-- **Ids are unique, concurrently.**  The ids of all requests begun so far in any interleaving
    (finished or still in flight) are pairwise distinct, given an injective counter rendering. -/
theorem ids_unique_concurrent (grow : Nat → Nat) (render : Nat → Bytes) (hinj : ∀ a b, render a = render b → a = b)
    (pfx : Bytes) (hp : pfx.length = 9) (evs : List CEvent) :
    (begunIds grow render (cfresh pfx) evs).Nodup := by
  have gen : ∀ (evs : List CEvent) (s : CState), CInv s →
      ∃ cs : List Nat, begunIds grow render s evs = cs.map (fun c => s.pfx ++ render c) ∧
        cs.Pairwise (· < ·) ∧ ∀ c ∈ cs, s.counter < c := by
    intro evs
    induction evs with
    | nil => intro s _; exact ⟨[], rfl, List.Pairwise.nil, by simp⟩
    | cons e evs ih =>
      intro s h
      obtain ⟨hinv, hpfx⟩ := cstep_inv grow render h e
      obtain ⟨cs, hcs, hpw, hgt⟩ := ih _ hinv
      have hcnt := cstep_counter grow render h e
      have same : ∀ (hc : (cstep grow render s e).counter = s.counter),
          begunIds grow render (cstep grow render s e) evs = cs.map (fun c => s.pfx ++ render c) ∧
          ∀ c ∈ cs, s.counter < c := by
        intro hc
        exact ⟨by rw [hcs, hpfx], fun c hcm => hc ▸ hgt c hcm⟩
      cases e with
      | finish k beh =>
        simp only [Nat.add_zero] at hcnt
        exact ⟨cs, by simp only [begunIds]; exact (same hcnt).1, hpw, (same hcnt).2⟩
      | register p m =>
        simp only [Nat.add_zero] at hcnt
        exact ⟨cs, by simp only [begunIds]; exact (same hcnt).1, hpw, (same hcnt).2⟩
      | drop i =>
        simp only [Nat.add_zero] at hcnt
        exact ⟨cs, by simp only [begunIds]; exact (same hcnt).1, hpw, (same hcnt).2⟩
      | «begin» k req names choice =>
        cases hen : cenabled s (.begin k req names choice) with
        | false =>
          simp only [hen, Bool.false_eq_true, if_false, Nat.add_zero] at hcnt
          exact ⟨cs, by simp only [begunIds, hen, Bool.false_eq_true, if_false]; exact (same hcnt).1, hpw, (same hcnt).2⟩
        | true =>
          simp only [hen, if_true] at hcnt
          obtain ⟨o, ho, hs, _⟩ := begin_spec grow render h k req names choice
          obtain ⟨S, P, hT⟩ := h.trie
          obtain ⟨o', ho', _, hid⟩ := obsPure_ok hT req names (s.pfx ++ render (s.counter + 1))
          rw [ho] at ho'; cases ho'
          refine ⟨(s.counter + 1) :: cs, ?_, ?_, ?_⟩
          · simp only [begunIds, hen, if_true, hs, hcs, hpfx, List.map_cons, hid]
          · refine List.Pairwise.cons ?_ hpw
            intro c hc
            have := hgt c hc
            omega
          · intro c hc
            simp only [List.mem_cons] at hc
            rcases hc with rfl | hc
            · omega
            · have := hgt c hc; omega
  obtain ⟨cs, hcs, hpw, _⟩ := gen evs (cfresh pfx) (cfresh_inv pfx hp)
  rw [hcs]
  refine List.Pairwise.map _ ?_ hpw
  intro a b hab heq
  have := hinj a b (List.append_cancel_left heq)
  omega

deriving instance DecidableEq for Except

/-! ### non-vacuity -/

-- the rendering is `strconv.AppendUint(nil, n, 36)`: 0 → "0", 35 → "z", 36 → "10", 1295 → "zz"
example : render36 0 = [48] ∧ render36 35 = [122] ∧ render36 36 = [49, 48] ∧ render36 1295 = [122, 122] := by decide

/-- nine bytes like `FVHNU2LS-` -/
def exPfx : Bytes := [70, 86, 72, 78, 85, 50, 76, 83, 45]

example : exPfx.length = 9 := by decide

-- `ids_unique` and `request_isolated` with the concrete rendering and a concrete growth function
example (ops : List Op) : (observedIds (fun c => 2 * c) render36 (fresh exPfx) ops).Nodup :=
  ids_unique _ _ render36_injective exPfx (by decide) ops

/-- `/u/:a/:b`, served; then an unmatched request whose handler looks up `a` (the history of the
    pinned commit's failure): the no-route handler sees nothing of the earlier request -/
def exOps : List Op :=
  [.handle [47, 117, 47, 58, 97, 47, 58, 98] [71, 69, 84],
   .request ⟨[47, 117, 47, 49, 47, 50], [71, 69, 84]⟩ [[97], [98]] {} none]

example : (serve (fun c => 2 * c) render36 (run (fun c => 2 * c) render36 (fresh exPfx) exOps)
    ⟨[47, 110, 111, 112, 101], [71, 69, 84]⟩ [[97], [98]] {} (some 0)).2 =
    .ok [⟨.noRoute, [[], []], [], 0, exPfx ++ render36 2⟩, ⟨.noRoute, [[], []], [], 0, exPfx ++ render36 2⟩] := by
  decide

/-- two overlapping requests (and a third one reusing the Store the first one returned while the
    second is still in flight): `/u/:a/:b` registered; request 1 `GET /u/1/2` begins; request 2
    `GET /nope` begins; 1 finishes (status 404 written); request 3 is about to begin. -/
def exEvents : List CEvent :=
  [.register [47, 117, 47, 58, 97, 47, 58, 98] [71, 69, 84],
   .begin 1 ⟨[47, 117, 47, 49, 47, 50], [71, 69, 84]⟩ [[97], [98]] none,
   .begin 2 ⟨[47, 110, 111, 112, 101], [71, 69, 84]⟩ [[97], [98]] none,
   .finish 1 { writeStatus := some 404 }]

-- one Store is back in the pool, one is still in flight, three ids have not been used up yet
example : ((crun (fun c => 2 * c) render36 (cfresh exPfx) exEvents).pool.length,
    (crun (fun c => 2 * c) render36 (cfresh exPfx) exEvents).inflight.map (·.key),
    (crun (fun c => 2 * c) render36 (cfresh exPfx) exEvents).counter) = (1, [2], 2) := by decide

-- request 3 takes the Store request 1 used (choice `some 0`) while request 2 is in flight: it sees
-- its own parameters, status 0 and the third id — nothing of request 1
example : (beginReq (fun c => 2 * c) render36 (crun (fun c => 2 * c) render36 (cfresh exPfx) exEvents) 3
    ⟨[47, 117, 47, 120, 47, 121], [71, 69, 84]⟩ [[97], [98]] (some 0)).2 =
    .ok [⟨.route 0, [[120], [121]], [], 0, exPfx ++ render36 3⟩, ⟨.route 0, [[120], [121]], [], 0, exPfx ++ render36 3⟩] := by
  decide

example (evs : List CEvent) : (begunIds (fun c => 2 * c) render36 (cfresh exPfx) evs).Nodup :=
  ids_unique_concurrent _ _ render36_injective exPfx (by decide) evs

end Glb.C05
