/-
  C05 — Requests are isolated: pooled per-request state never leaks between requests.

  Model: `Glb/Model/Store.lean` (Store with Go slices, the pool as a list from which `Get` may take
  ANY store or make a new one and which may forget stores at any time, `maxParams`, the request
  counter, `serve` = Get / set id / findRoute / relay + handler observations / handler effect /
  reset / Put; registrations between requests).  Lemmas: `Glb/Proofs/Store.lean`.
  Only the property theorems live here.
-/
import Glb.Proofs.Store

namespace Glb.C05
open Glb Glb.Router Glb.Store

/-- **The pool invariant**: the prefix has 9 bytes, the trie is one built by registrations
    (accepted or refused), and every pooled Store is at rest — `K = nil`, `len V = 0`,
    `Status = 0`, `I = nil`, `id` = the 9-byte prefix within its capacity. -/
abbrev PoolInv (mux : MuxSt) : Prop := MuxInv mux

theorem poolInv_fresh (pfx : Bytes) (h : pfx.length = 9) : PoolInv (fresh pfx) := fresh_inv pfx h

/-- every request keeps the invariant — matched or unmatched, whatever the handler writes, whether
    it panics (Store not returned) or not, whatever Store the pool handed out — and neither
    `ServeHTTP` nor a probing handler panics on its own account -/
theorem poolInv_request (grow : Nat → Nat) (render : Nat → Bytes) (mux : MuxSt) (h : PoolInv mux)
    (req : Req) (names : List Bytes) (beh : Behaviour) (choice : Option Nat) :
    PoolInv (serve grow render mux req names beh choice).1 ∧
    (∃ o, (serve grow render mux req names beh choice).2 = .ok [o, o]) := by
  obtain ⟨o, _, hs, hinv, _⟩ := serve_spec grow render h req names beh choice
  exact ⟨hinv, o, hs⟩

/-- every registration — accepted or refused — keeps the invariant, and `parseRoute` does not panic -/
theorem poolInv_registration (mux : MuxSt) (h : PoolInv mux) (p m : Bytes) :
    ∃ mux' res, handle mux p m = .ok (mux', res) ∧ PoolInv mux' := by
  obtain ⟨mux', res, hh, hinv, _⟩ := handle_inv h p m
  exact ⟨mux', res, hh, hinv⟩

/-- hence the invariant holds in every reachable state: any interleaving of registrations,
    requests (any pool choice) and stores forgotten by the pool -/
theorem poolInv_reachable (grow : Nat → Nat) (render : Nat → Bytes) (pfx : Bytes) (hp : pfx.length = 9)
    (ops : List Op) : PoolInv (run grow render (fresh pfx) ops) :=
  (run_inv grow render ops (fresh_inv pfx hp)).1

/-- **Isolation.**  In every reachable state of a Mux (any history `ops` of registrations, requests
    — matched, unmatched, with handlers writing a status or panicking — and forgotten stores), for
    every choice the pool makes and every request: the relay handler and the selected handler both
    observe `.ok o` (no panic from `Params.Get`, from growing `V` or from reslicing) where `o` —
    selected route, every parameter lookup, `RouteParamAny`, the initial status (0) — is exactly
    what the same request observes on a FRESH Mux on which only the registrations of the history
    were made; the two differ in nothing but the counter part of the id. -/
theorem request_isolated (grow grow' : Nat → Nat) (render : Nat → Bytes) (pfx : Bytes) (hp : pfx.length = 9)
    (ops : List Op) (req : Req) (names : List Bytes) (beh : Behaviour) (choice : Option Nat) :
    ∃ o : Obs, o.status = 0 ∧
      (serve grow render (run grow render (fresh pfx) ops) req names beh choice).2 =
        .ok [{ o with id := pfx ++ render ((run grow render (fresh pfx) ops).counter + 1) },
             { o with id := pfx ++ render ((run grow render (fresh pfx) ops).counter + 1) }] ∧
      (serve grow' render (run grow' render (fresh pfx) (ops.filter Op.isHandle)) req names {} none).2 =
        .ok [{ o with id := pfx ++ render 1 }, { o with id := pfx ++ render 1 }] := by
  obtain ⟨hI, hpfx⟩ := run_inv grow render ops (fresh_inv pfx hp)
  obtain ⟨hI0, hpfx0⟩ := run_inv grow' render (ops.filter Op.isHandle) (fresh_inv pfx hp)
  have hroot := (run_root grow grow' render ops (fresh_inv pfx hp) (fresh_inv pfx hp) rfl rfl).1
  have hc0 := run_handles_counter grow' render ops (fresh_inv pfx hp)
  obtain ⟨o, ho, hs, _⟩ := serve_spec grow render hI req names beh choice
  obtain ⟨o0, ho0, hs0, _⟩ := serve_spec grow' render hI0 req names {} none
  obtain ⟨S, P, hT⟩ := hI.trie
  obtain ⟨o', ho', hst, hid⟩ := obsPure_ok hT req names
    ((run grow render (fresh pfx) ops).pfx ++ render ((run grow render (fresh pfx) ops).counter + 1))
  rw [ho] at ho'
  cases ho'
  have hpf : (fresh pfx).pfx = pfx := rfl
  rw [hpfx, hpf] at hid ho
  rw [hpfx0, hpf, hc0, ← hroot] at ho0
  have hc1 : (fresh pfx).counter + 1 = 1 := rfl
  rw [hc1] at ho0
  have := obsPure_id _ _ _ _ (pfx ++ render 1) o ho
  rw [this] at ho0
  cases ho0
  refine ⟨o, hst, ?_, hs0⟩
  rw [hs]
  have : ({ o with id := pfx ++ render ((run grow render (fresh pfx) ops).counter + 1) } : Obs) = o := by
    rw [← hid]
  rw [this]

/-- the ids the handlers of the request operations of a history observe, in order -/
def observedIds (grow : Nat → Nat) (render : Nat → Bytes) : MuxSt → List Op → List Bytes
  | _, [] => []
  | mux, op :: ops =>
    let rest := observedIds grow render (step grow render mux op) ops
    match op with
    | .request req names beh choice =>
      match (serve grow render mux req names beh choice).2 with
      | .ok (o :: _) => o.id :: rest
      | _ => rest
    | _ => rest

/-- the request counter strictly increases with every request (also a panicking one) and is not
    touched by anything else -/
theorem counter_step (grow : Nat → Nat) (render : Nat → Bytes) (mux : MuxSt) (h : PoolInv mux) (op : Op) :
    (step grow render mux op).counter = mux.counter + (match op with
      | .request .. => 1
      | _ => 0) := by
  cases op with
  | handle p m =>
    obtain ⟨mux', res, hh, _, hc, _⟩ := handle_inv h p m
    simp [step, hh, hc]
  | request req names beh choice =>
    obtain ⟨o, _, _, _, hc, _⟩ := serve_spec grow render h req names beh choice
    simpa [step] using hc
  | drop i => simp [step]

/-- **Ids are unique.**  Given that the rendering of the counter is injective (the contract of
    `strconv.AppendUint(_, n, 36)`; `render36_injective` is a concrete instance), the ids observed
    by the requests of any history of one Mux are pairwise distinct.  (Within one request the id
    is constant: both observations of `request_isolated` carry the same id.) -/
theorem ids_unique (grow : Nat → Nat) (render : Nat → Bytes) (hinj : ∀ a b, render a = render b → a = b)
    (pfx : Bytes) (hp : pfx.length = 9) (ops : List Op) :
    (observedIds grow render (fresh pfx) ops).Nodup := by
  have gen : ∀ (ops : List Op) (mux : MuxSt), MuxInv mux →
      ∃ cs : List Nat, observedIds grow render mux ops = cs.map (fun c => mux.pfx ++ render c) ∧
        cs.Pairwise (· < ·) ∧ ∀ c ∈ cs, mux.counter < c := by
    intro ops
    induction ops with
    | nil => intro mux _; exact ⟨[], rfl, List.Pairwise.nil, by simp⟩
    | cons op ops ih =>
      intro mux h
      obtain ⟨hinv, hpfx⟩ := step_inv grow render h op
      obtain ⟨cs, hcs, hpw, hgt⟩ := ih _ hinv
      have hcnt := counter_step grow render mux h op
      cases op with
      | handle p m =>
        simp only [Nat.add_zero] at hcnt
        refine ⟨cs, ?_, hpw, fun c hc => hcnt ▸ hgt c hc⟩
        simp only [observedIds, hcs, hpfx]
      | drop i =>
        simp only [Nat.add_zero] at hcnt
        refine ⟨cs, ?_, hpw, fun c hc => hcnt ▸ hgt c hc⟩
        simp only [observedIds, hcs, hpfx]
      | request req names beh choice =>
        obtain ⟨o, ho, hs, _⟩ := serve_spec grow render h req names beh choice
        obtain ⟨S, P, hT⟩ := h.trie
        obtain ⟨o', ho', _, hid⟩ := obsPure_ok hT req names (mux.pfx ++ render (mux.counter + 1))
        rw [ho] at ho'; cases ho'
        simp only at hcnt
        refine ⟨(mux.counter + 1) :: cs, ?_, ?_, ?_⟩
        · simp only [observedIds, hs, hcs, hpfx, List.map_cons, hid]
        · refine List.Pairwise.cons ?_ hpw
          intro c hc
          have := hgt c hc
          omega
        · intro c hc
          simp only [List.mem_cons] at hc
          rcases hc with rfl | hc
          · omega
          · have := hgt c hc; omega
  obtain ⟨cs, hcs, hpw, _⟩ := gen ops (fresh pfx) (fresh_inv pfx hp)
  rw [hcs]
  refine List.Pairwise.map _ ?_ hpw
  intro a b hab heq
  have := hinj a b (List.append_cancel_left heq)
  omega

/-- the concrete instance of the rendering contract: base 36, digits `0-9a-z` -/
theorem render36_injective : ∀ a b, render36 a = render36 b → a = b := fun _ _ h => render36_inj h

deriving instance DecidableEq for Except

/-! ### non-vacuity -/

-- the rendering is `strconv.AppendUint(nil, n, 36)`: 0 → "0", 35 → "z", 36 → "10", 1295 → "zz"
example : render36 0 = [48] ∧ render36 35 = [122] ∧ render36 36 = [49, 48] ∧ render36 1295 = [122, 122] := by decide

/-- nine bytes like `FVHNU2LS-` -/
def exPfx : Bytes := [70, 86, 72, 78, 85, 50, 76, 83, 45]

example : exPfx.length = 9 := by decide

-- `ids_unique` and `request_isolated` with the concrete rendering and a concrete growth function
example (ops : List Op) : (observedIds (fun c => 2 * c) render36 (fresh exPfx) ops).Nodup :=
  ids_unique _ _ render36_injective exPfx (by decide) ops

/-- `/u/:a/:b`, served; then an unmatched request whose handler looks up `a` (the history of the
    pinned commit's failure): the no-route handler sees nothing of the earlier request -/
def exOps : List Op :=
  [.handle [47, 117, 47, 58, 97, 47, 58, 98] [71, 69, 84],
   .request ⟨[47, 117, 47, 49, 47, 50], [71, 69, 84]⟩ [[97], [98]] {} none]

example : (serve (fun c => 2 * c) render36 (run (fun c => 2 * c) render36 (fresh exPfx) exOps)
    ⟨[47, 110, 111, 112, 101], [71, 69, 84]⟩ [[97], [98]] {} (some 0)).2 =
    .ok [⟨.noRoute, [[], []], [], 0, exPfx ++ render36 2⟩, ⟨.noRoute, [[], []], [], 0, exPfx ++ render36 2⟩] := by
  decide

end Glb.C05
