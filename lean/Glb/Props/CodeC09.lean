/-
  Glb.Props.CodeC09 — the property theorems restated about the TRANSLATED code.

  `tools/extract/golean.go` rewrites Glb/Generated/Tr*.lean from the Go source on every run; the tie
  theorems (Glb/Tie/Tr*.lean) prove `translated function = hand model` for every input.  Here the two
  are composed: each theorem below speaks about a definition that was machine-translated from
  /repo as it is now, and states what the listed property says about that function.  Nothing here
  mentions a hand model in its statement except through the specification side (lexer, JSON grammar,
  route list, path normal form).

  What remains trusted for these statements: the translator's reading of Go (tools/extract/golean.go
  + Glb/Go/Prelude.lean), the library transcriptions in Glb/Go/Lib*.lean (strings.Replace/HasPrefix/
  IndexByte, utf8.DecodeRuneInString, path.Clean, filepath.Join — each compared with the real function
  by a correspondence stream), and the specifications.
-/
import Glb.Props.C09
import Glb.Tie.TrConfig
import Glb.Tie.TrUnderscore

namespace Glb.Code
open Glb

/-! ### C09 — tag parsing and environment keys as translated from config/config.go, strutil.go -/

/-- the translated `Underscore` is the snake-case specification (`C09.env_key`) -/
theorem C09_Underscore (s : Bytes) (upper : Bool) :
    Tr.Strutil.Underscore s upper = .ok (Config.snake upper none false s) := by
  rw [Tie.TrUnderscore.Underscore_eq, C09.env_key]

/-- an environment key produced by the translated `Underscore(_, true)` consists of `A–Z`, `0–9`, `_` -/
theorem C09_env_key_charset (s : Bytes) :
    ∃ k, Tr.Strutil.Underscore s true = .ok k ∧
      ∀ b ∈ k, Config.isUpper b = true ∨ Config.isDigit b = true ∨ b = Config.underscoreByte :=
  ⟨_, Tie.TrUnderscore.Underscore_eq s true, C09.env_key_charset s⟩

/-- the translated `parseStructFieldTag` is the model the C09 theorems (`tag_syntaxes`, `flagset_shape`) use -/
theorem C09_parseStructFieldTag (lower : Bytes → Bytes) (goName tag : Bytes) :
    Tr.Config.parseStructFieldTag tag (lower goName) = Config.parseTag lower goName tag :=
  Tie.TrConfig.parseStructFieldTag_eq lower goName tag

end Glb.Code
