/-
  C11 — IPv4Filter answers membership exactly as the set of CIDRs added and not removed.
  Only property theorems live here; helper lemmas are in Glb/Proofs/Filter.lean.
-/
import Glb.Proofs.Filter

namespace Glb.C11
open Glb.Filter

/-! ## Specification: a plain set of prefixes -/

/-- an abstract prefix: network address (already masked) and prefix length 0..32 -/
abbrev PSet := List (Addr × Nat)

/-- validated operations: `n = 0` is `0.0.0.0/0` -/
inductive COp where
  | add (a : Addr) (n : Nat)
  | remove (a : Addr) (n : Nat)
  deriving Repr, DecidableEq

def COp.len : COp → Nat
  | .add _ n => n
  | .remove _ n => n

def specStep (S : PSet) : COp → PSet
  | .add a n => (a &&& prefixMask n, n) :: S
  | .remove a n => S.filter (fun e => e ≠ (a &&& prefixMask n, n))

def specRun (ops : List COp) : PSet := ops.foldl specStep []

/-- `ip` lies inside at least one prefix of the set -/
def specMem (S : PSet) (ip : Addr) : Prop := ∃ e ∈ S, ip &&& prefixMask e.2 = e.1

/-! ## Implementation model driven by validated operations -/

def cstep (ls : Nat) (s : St) : COp → St
  | .add a n => if n = 0 then { s with matchAll := true } else addCore ls s a n
  | .remove a n => if n = 0 then { s with matchAll := false } else removeCore s a n

def crun (ls : Nat) (ops : List COp) : St := ops.foldl (cstep ls) init

/-- `Contains` for an already decoded 4-byte address -/
def containsAddr (s : St) (ip : Addr) : Bool := s.matchAll || scan s ip

/-! ## Refinement -/

/-- the simulation relation: the state stands for exactly the abstract set -/
def Rel (s : St) (S : PSet) : Prop := ∀ x, x ∈ abs s ↔ x ∈ S

theorem rel_step (ls : Nat) (s : St) (S : PSet) (op : COp) (hlen : op.len ≤ 32)
    (hwf : WF s) (hrel : Rel s S) : WF (cstep ls s op) ∧ Rel (cstep ls s op) (specStep S op) := by
  cases op with
  | add a n =>
    by_cases hn : n = 0
    · subst hn
      refine ⟨⟨hwf.list, hwf.maps⟩, ?_⟩
      intro x
      have := hrel x
      simp [cstep, specStep, abs, absCore, prefixMask_zero] at this ⊢
      grind
    · have h1 : 1 ≤ n := by omega
      refine ⟨by simpa [cstep, hn] using wf_addCore ls s a n h1 hlen hwf, ?_⟩
      intro x
      have := hrel x
      have hm : (addCore ls s a n).matchAll = s.matchAll := by unfold addCore; grind
      simp only [cstep, hn, if_false, specStep, abs, List.mem_append, List.mem_cons,
        mem_absCore_addCore ls s a n h1, hm, maskOf_eq n h1 hlen] at this ⊢
      grind
  | remove a n =>
    by_cases hn : n = 0
    · subst hn
      refine ⟨⟨hwf.list, hwf.maps⟩, ?_⟩
      intro x
      have := hrel x
      have hx : x ∈ absCore s → x ≠ ((0 : Addr), 0) := by
        intro hx h0; subst h0
        unfold absCore at hx
        by_cases hmm : s.mapsMode
        · simp [hmm] at hx; obtain ⟨p, q, hpq, _, rfl⟩ := hx; have := hwf.maps _ hpq; simp at this
        · simp [hmm] at hx
      simp [cstep, specStep, abs, prefixMask_zero] at this ⊢
      have hc : absCore { s with matchAll := false } = absCore s := rfl
      rw [hc]
      grind
    · have h1 : 1 ≤ n := by omega
      refine ⟨by simpa [cstep, hn] using wf_removeCore s a n hwf, ?_⟩
      intro x
      have := hrel x
      have hm : (removeCore s a n).matchAll = s.matchAll := by unfold removeCore; grind
      have h00 : ((0 : Addr), 0) ≠ (a &&& maskOf n, n) := by
        intro h; simp at h; omega
      simp only [cstep, hn, if_false, specStep, abs, List.mem_append, List.mem_filter,
        mem_absCore_removeCore s a n, hm, ← maskOf_eq n h1 hlen] at this ⊢
      grind

theorem rel_run (ls : Nat) (ops : List COp) (hlen : ∀ op ∈ ops, op.len ≤ 32) :
    WF (crun ls ops) ∧ Rel (crun ls ops) (specRun ops) := by
  unfold crun specRun
  suffices h : ∀ (s : St) (S : PSet), WF s → Rel s S →
      WF (ops.foldl (cstep ls) s) ∧ Rel (ops.foldl (cstep ls) s) (ops.foldl specStep S) by
    exact h init [] wf_init (by intro x; simp [abs, absCore, init])
  induction ops with
  | nil => intro s S h1 h2; exact ⟨h1, h2⟩
  | cons op ops ih =>
    intro s S h1 h2
    have := rel_step ls s S op (hlen op (by simp)) h1 h2
    exact ih (fun o ho => hlen o (by simp [ho])) _ _ this.1 this.2

/-- **C11 (core).** For every operation sequence, of any length, and *every* list size
    (so wherever the list→maps switch falls, with removed slots before, at and after it),
    `Contains` answers exactly membership in the set of prefixes added and not since removed. -/
theorem filter_refines_prefix_set (ls : Nat) (ops : List COp)
    (hlen : ∀ op ∈ ops, op.len ≤ 32) (ip : Addr) :
    containsAddr (crun ls ops) ip = true ↔ specMem (specRun ops) ip := by
  obtain ⟨hwf, hrel⟩ := rel_run ls ops hlen
  unfold containsAddr specMem
  rw [Bool.or_eq_true, scan_iff _ hwf]
  constructor
  · rintro (h | ⟨e, he, h⟩)
    · exact ⟨(0, 0), (hrel _).1 (by simp [abs, h]), by simp [prefixMask_zero]⟩
    · exact ⟨e, (hrel _).1 (by simp [abs, he]), h⟩
  · rintro ⟨e, he, h⟩
    have := (hrel _).2 he
    simp only [abs, List.mem_append] at this
    rcases this with h0 | h0
    · left; by_cases hm : (crun ls ops).matchAll <;> simp_all
    · exact Or.inr ⟨e, h0, h⟩

/-! ## Byte-level API (`*net.IPNet`, `net.IP`) -/

/-- byte-level operations as the Go API receives them -/
inductive Op where
  | add (ip mask : Bytes)
  | remove (ip mask : Bytes)

def step (ls : Nat) (s : St) : Op → St × Bool
  | .add ip m => Filter.add ls s ip m
  | .remove ip m => Filter.remove s ip m

/-- how argument validation reads an operation: `none` = rejected -/
def decode : Op → Option COp
  | .add ip m => match validate ip m with
    | .invalid => none | .zero => some (.add 0 0) | .pfx a n => some (.add a n)
  | .remove ip m => match validate ip m with
    | .invalid => none | .zero => some (.remove 0 0) | .pfx a n => some (.remove a n)

/-- Rejected arguments return `ErrInvalidIPv4CIDR` (`ok = false`) and change nothing; accepted
    ones perform exactly the validated operation. -/
theorem step_decode (ls : Nat) (s : St) (op : Op) :
    step ls s op = match decode op with
      | none => (s, false)
      | some c => (cstep ls s c, true) := by
  cases op <;> simp only [step, decode, Filter.add, Filter.remove] <;> split <;> simp_all [cstep]
    <;> (unfold validate at *; grind)

/-- accepted arguments always carry a prefix length ≤ 32 -/
theorem decode_len (op : Op) (c : COp) (h : decode op = some c) : c.len ≤ 32 := by
  cases op <;> simp only [decode] at h <;> split at h <;> simp_all [COp.len] <;>
    (unfold validate at *; grind)


/-- every genuine IPv4 CIDR (4-byte address, canonical 4-byte mask of length 0..32) is accepted
    with its prefix length -/
theorem validate_cidr : ∀ n ∈ List.range 33, maskSize (cidrMask n) = (n, 32) := by decide

/-- **validation is sound**: whatever `Add`/`Remove` accept is a genuine IPv4 CIDR — a 4-byte address
    with the canonical 4-byte mask of some length `n ≤ 32` — and is read with exactly that length -/
theorem validate_sound (ip mask : Bytes) (h : validate ip mask ≠ .invalid) :
    ip.length = 4 ∧ ∃ n, n ≤ 32 ∧ mask = cidrMask n ∧
      validate ip mask = (if n = 0 then .zero else .pfx (be32 ip) n) := by
  unfold validate maskSize at h ⊢
  cases hs : simpleMaskLength mask with
  | none => simp [hs] at h
  | some n =>
    simp only [hs] at h ⊢
    obtain ⟨hm, hn⟩ := simpleMaskLength_sound mask n hs
    by_cases hc : mask.length * 8 ≠ 32 ∨ n > 32 ∨ ip.length ≠ 4
    · simp [hc] at h
    · have hl : mask.length = 4 := by omega
      refine ⟨by omega, n, by omega, by rw [cidrMask_eq, ← hl]; exact hm, ?_⟩
      simp [hc]

/-- a 16-byte (IPv4-in-IPv6) address is looked up exactly like its 4-byte form -/
theorem contains_16 (s : St) (a b c d : UInt8) :
    contains s ([0,0,0,0,0,0,0,0,0,0,0xff,0xff] ++ [a, b, c, d]) = contains s [a, b, c, d] := by
  simp [contains, to4]

/-- `contains` on a 4-byte address is `containsAddr` on the decoded address -/
theorem contains_4 (s : St) (a b c d : UInt8) :
    contains s [a, b, c, d] = containsAddr s (be32 [a, b, c, d]) := by
  simp [contains, to4, containsAddr]

/-- documentation of finding F4: on the pinned commit the 16-byte form is never matched by a
    stored range -/
theorem pinned_16_counterexample :
    let s := (Filter.add 256 init [10,0,0,0] [255,0,0,0]).1
    contains s [10,1,2,3] = true ∧
    containsPinned s [0,0,0,0,0,0,0,0,0,0,0xff,0xff,10,1,2,3] = false ∧
    contains s [0,0,0,0,0,0,0,0,0,0,0xff,0xff,10,1,2,3] = true := by decide

/-! ## Non-vacuity -/

example : ∀ op ∈ [COp.add 0x0a000000#32 8, .remove 0x0a000000#32 8, .add 0 0], op.len ≤ 32 := by
  decide

example : specMem (specRun [.add 0x0a010203#32 8, .add 0xc0a80000#32 16, .remove 0xc0a80101#32 16])
    0x0affffff#32 := ⟨(0x0a000000#32, 8), by decide, by decide⟩

end Glb.C11
