/-
  C06 — TaskLane: every accepted task is started exactly once (safety part).
  Model: `Glb.Model.TaskLane`; invariant: `Glb.Proofs.TaskLaneSafety` (`WFS`).
  All theorems hold for `cfg L Q` with ARBITRARY lane count `L` and queue capacity `Q` and quantify over
  all reachable states = all interleavings (cancellation, timeouts and panicking tasks included).
  (The liveness half `C06_eventually_started` is proved with the progress theorems, not here.)
-/
import Glb.Proofs.TaskLaneSafety
import Glb.Proofs.TaskLaneDemo

namespace Glb.TaskLane

variable (L Q : Nat)

/-- no task is ever started twice — cancelled or not -/
theorem C06_started_nodup (s : St) (h : Reachable (cfg L Q) s) : s.started.Nodup := by
  have w := wfs_of_reachable h
  rw [List.nodup_iff_count]
  intro t
  have h1 := w.count_le t
  have h2 := w.accepted_count_le t
  rw [List.count_append] at h1
  omega

/-- every pending or started task was accepted, and none appears twice among them -/
theorem C06_exactly_once (s : St) (h : Reachable (cfg L Q) s) :
    (s.pending (cfg L Q) ++ s.started).Nodup ∧
    ∀ t, t ∈ s.pending (cfg L Q) ++ s.started → t ∈ s.accepted := by
  have w := wfs_of_reachable h
  constructor
  · rw [List.nodup_iff_count]
    intro t
    have h1 := w.count_le t
    have h2 := w.accepted_count_le t
    omega
  · intro t ht
    have h1 := w.count_le t
    have h2 := List.count_pos_iff.2 ht
    exact List.count_pos_iff.1 (by omega)

/-- while the context is live no accepted task is lost -/
theorem C06_no_loss (s : St) (h : Reachable (cfg L Q) s) (hc : s.cancelled = false) :
    ∀ t, t ∈ s.accepted → t ∈ s.pending (cfg L Q) ++ s.started := by
  have w := wfs_of_reachable h
  intro t ht
  have h1 := w.count_eq hc t
  have h2 := List.count_pos_iff.2 ht
  exact List.count_pos_iff.1 (by omega)

/-- PushTask returned nil ⇒ the task was accepted; returned an error ⇒ it was not, and never starts -/
theorem C06_results (s : St) (h : Reachable (cfg L Q) s) (t : Tid) (r : PushResult)
    (hr : (t, r) ∈ s.results) :
    (r = .nil → t ∈ s.accepted) ∧ (r ≠ .nil → t ∉ s.accepted ∧ t ∉ s.started) := by
  have w := wfs_of_reachable h
  obtain ⟨k, -, -, -, hiff⟩ := w.prod.res t r hr
  refine ⟨hiff.1, fun hne => ?_⟩
  have hna : t ∉ s.accepted := fun ha => hne (hiff.2 ha)
  refine ⟨hna, fun hs => hna ?_⟩
  exact (C06_exactly_once L Q s h).2 t (List.mem_append_right _ hs)

/-! ### Non-vacuity: reachable states of `cfg 2 1` built from explicit `Step`s (`Glb.Proofs.TaskLaneDemo`)
in which a task is pending (in each of the three places), started, accepted, rejected. -/

open Demo

/-- live state, task 7 accepted and pending in `buf[1]` -/
example : Reachable (cfg 2 1) d3 ∧ d3.cancelled = false ∧ d3.accepted = [7] ∧
    d3.pending (cfg 2 1) = [7] ∧ d3.buf 1 = [7] ∧ d3.started = [] := ⟨reach3, by decide⟩

/-- … pending in the hand of queue goroutine 1 (buffer empty again) -/
example : Reachable (cfg 2 1) d6 ∧ d6.cancelled = false ∧ d6.pending (cfg 2 1) = [7] ∧ d6.buf 1 = [] :=
  ⟨reach6, by decide⟩

/-- … pending in the hand of worker 1, which has not yet called `Start()` -/
example : Reachable (cfg 2 1) d10 ∧ d10.pending (cfg 2 1) = [7] ∧ (d10.qs 1).pc = 5 ∧ (d10.ws 1).pc = 3 :=
  ⟨reach10, by decide⟩

/-- … started (and running); `PushTask` has returned nil -/
example : Reachable (cfg 2 1) d12 ∧ d12.started = [7] ∧ d12.pending (cfg 2 1) = [] ∧ d12.accepted = [7] ∧
    (7, PushResult.nil) ∈ d12.results := ⟨reach12, by decide⟩

/-- the hypotheses of `C06_no_loss` and both branches of `C06_results` are satisfiable -/
example : 7 ∈ d10.pending (cfg 2 1) ++ d10.started :=
  C06_no_loss 2 1 d10 reach10 (by decide) 7 (by decide)

example : 7 ∈ d12.accepted := (C06_results 2 1 d12 reach12 7 .nil (by decide)).1 rfl

/-- a `PushTask` that timed out: result recorded, nothing accepted -/
example : Reachable (cfg 2 1) e4 ∧ (9, PushResult.timeout) ∈ e4.results ∧ e4.accepted = [] :=
  ⟨ereach4, by decide⟩

example : 9 ∉ e4.accepted ∧ 9 ∉ e4.started :=
  (C06_results 2 1 e4 ereach4 9 .timeout (by decide)).2 (by decide)

end Glb.TaskLane
