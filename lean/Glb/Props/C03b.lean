/-
  C03b — C03 ("derived loggers are isolated", `with_is_prepend`) tied to the BYTE-EXACT handler
  models.  C03 proves isolation over Go slices on a heap for an abstract `Renderer`; C01 / C13 and
  `Model/NanoHandler.lean` are byte-exact pure models of the three handlers.  Here:

  (A) the handler-boundary laws with the REAL renderers, for each of JSON / Text / Nano:
        `handle (withAttrs h as) r = handle h { r with attrs := as ++ r.attrs }`      (`*_with_law`)
        `handle (withGroup h g) r  = handle h { r with attrs := [group g r.attrs] }`  (`*_group_law`)
      as equalities of `Except GoPanic Bytes` (same bytes, or the same level-table panic).
      INVARIANT NEEDED ON `h`: NONE.  Both laws hold for every handler state whatsoever (any `pre`,
      `nOpenGroups`, `addSep`, `groupPrefix`), in particular for every state reachable by a derivation
      chain; for every attribute list (empty, or made only of empty inline groups) and every record.
      The only side condition is on the group NAME of the `withGroup` law: `g ≠ []` for JSON and
      Text (what `Logger.WithGroup` guarantees; `*_group_law_empty_name_fails` are witnesses that
      the handler METHOD called with "" does break it); none for Nano.
  (B) each model is an instance of C03's `Renderer` interface (`*_renderer_instance`; `XSound R`
      = "R renders like model X, in whatever chunks"), C03's alias-free reference `renderChain` is
      the pure model state (`*_heap_state`), and therefore, for every derivation history over the
      slice heap, the line logged through a handle is `Model.handle` applied to the pure state of
      that handle's own chain (`*_history_line`).
  (C) the pinned JSON separator logic: it SATISFIES the byte law `with_law` (both sides run the same
      loop and are wrong in the same way: `pinned_satisfies_with_law`, for all inputs), so no
      witness against `with_law` exists for `as = [group "" []]`.  What it violates is the corollary
      that attributes rendering to nothing are a no-op (`json_hollow_noop` for the repaired logic,
      `pinned_violates_hollow_noop` is the `decide`d witness for `as = [group "" []]`) — which is
      what "as if passed at the call site" means above the handler boundary, because slog's
      `Record.AddAttrs` drops empty groups at the call site and `With` does not.

  Only theorems and non-vacuity examples here; lemmas are in Glb/Proofs/RendererInst.lean.
-/
import Glb.Proofs.RendererInst
import Glb.Props.C03
import Glb.Props.C01

namespace Glb.C03b
open Glb Glb.Derive Glb.RendererInst

/-! ## JSON -/

/-- **JSON `with_is_prepend`, byte-exact.**  Every handler state, every attribute list, every
    record, source on or off. -/
theorem json_with_law (addSource : Bool) (h : JsonHandler.H) (as : List JsonHandler.Attr)
    (r : JsonHandler.Rec) :
    JsonHandler.handle addSource (JsonHandler.withAttrs h as) r =
      JsonHandler.handle addSource h { r with attrs := as ++ r.attrs } := by
  rw [json_handle_eq, json_handle_eq, json_withAttrs_eq]
  simp only [jsonTail, (jBytes_append as r.attrs h.addSep).1, List.append_assoc]
  rfl

/-- **JSON `WithGroup` = nested object**, byte-exact, every handler state. -/
theorem json_group_law (addSource : Bool) (h : JsonHandler.H) (g : Bytes) (r : JsonHandler.Rec)
    (hg : g ≠ []) :
    JsonHandler.handle addSource (JsonHandler.withGroup h g) r =
      JsonHandler.handle addSource h { r with attrs := [.group g r.attrs] } := by
  rw [json_handle_eq, json_handle_eq, json_withGroup_eq]
  simp only [jsonTail, (jBytes_group g r.attrs h.addSep hg).1, List.replicate_succ,
    List.append_assoc, List.cons_append, List.nil_append]
  rfl

example : ([0x67] : Bytes) ≠ [] := by decide

/-- the side condition of `json_group_law` is needed: the handler METHOD called with the empty name
    opens an object `"":{`, an attribute group with the empty key is inline -/
theorem json_group_law_empty_name_fails :
    (JsonHandler.handle false (JsonHandler.withGroup .init [])
        { time := [0x54], level := 4, msg := [0x6D], attrs := [.leaf [0x6B] (.num [0x31])] }).toOption ≠
    (JsonHandler.handle false .init
        { time := [0x54], level := 4, msg := [0x6D],
          attrs := [.group [] [.leaf [0x6B] (.num [0x31])]] }).toOption := by decide

/-- attributes that render to nothing (inline groups with only such members, e.g. `Group("")`)
    leave the handler state — hence every later line — unchanged -/
theorem json_hollow_noop (h : JsonHandler.H) (as : List JsonHandler.Attr) (ha : hollowL as = true) :
    JsonHandler.withAttrs h as = h := by
  simp [JsonHandler.withAttrs, hollow_loop as ha]

example : hollowL [.group [] [], .group [] [.group [] []]] = true := by decide

/-- the pinned logic satisfies the byte law: `WithAttrs(as)` then the record loop over `bs` writes
    what the record loop over `as ++ bs` writes, for every state, `as`, `bs` -/
theorem pinned_satisfies_with_law (st : Bytes × Bool) (as bs : List JsonHandler.Attr) :
    JsonHandler.Pinned.attrLoop (pinnedWith st as).1 bs (pinnedWith st as).2 =
      JsonHandler.Pinned.attrLoop st.1 (as ++ bs) st.2 := by
  rw [pinned_loop_append]
  unfold pinnedWith
  cases as <;> simp [JsonHandler.Pinned.attrLoop]

/-- … what the pinned logic violates is `json_hollow_noop`: `With(Group(""))` changes the line
    (`,,"k":1}` instead of `,"k":1}`) -/
theorem pinned_violates_hollow_noop :
    JsonHandler.Pinned.line C01.pinnedHead [.group [] []] [.leaf [0x6B] (.num [0x31])] ≠
      JsonHandler.Pinned.line C01.pinnedHead [] [.leaf [0x6B] (.num [0x31])] := by decide

/-- the byte-exact JSON model is an instance of C03's `Renderer` interface -/
theorem json_renderer_instance : JsonSound jsonR := jsonR_sound

/-- **heap state = pure model state.**  In every history over the slice heap (any growth policy,
    any sound chunking), at every later point, what a handle's `preformatted` slice and shape
    fields read is the state of the pure JSON model after the handle's own chain. -/
theorem json_heap_state (R : Renderer JsonHandler.Attr) (hR : JsonSound R) (g : Policy)
    (ops more : List (HOp JsonHandler.Attr)) (i : Nat) (h : Derive.Handler)
    (chain : List (DOp JsonHandler.Attr))
    (hi : (run R true g .json ops).forest[i]? = some (h, chain)) :
    h.view (run R true g .json (ops ++ more)).heap =
      jsonView (JsonHandler.deriveAll .init (chain.map jsonOp)) := by
  rw [(C03.isolation R g .json ops more i h chain hi).2, json_renderChain R hR]

/-- **every logged line is `JsonHandler.handle` of the pure chain state.** -/
theorem json_history_line (R : Renderer JsonHandler.Attr) (hR : JsonSound R) (g : Policy)
    (ops : List (HOp JsonHandler.Attr)) (e : Logged JsonHandler.Attr)
    (he : e ∈ (run R true g .json ops).out) :
    ∃ (h : Derive.Handler) (chain : List (DOp JsonHandler.Attr)),
      (run R true g .json ops).forest[e.handle]? = some (h, chain) ∧
      ∀ (addSource : Bool) (r : JsonHandler.Rec),
        jsonHeader addSource r = .ok e.hd → r.attrs = e.attrs →
        JsonHandler.handle addSource (JsonHandler.deriveAll .init (chain.map jsonOp)) r = .ok e.line := by
  obtain ⟨h, chain, h1, h2⟩ := C03.logged_lines_depend_on_own_chain R g .json ops e he
  refine ⟨h, chain, h1, ?_⟩
  intro addSource r hh ha
  rw [json_lineOf R hR addSource _ r e.hd hh, h2, json_renderChain R hR, ha]

/-! ### non-vacuity (JSON) -/

def jRec : JsonHandler.Rec :=
  { time := [0x54], level := 4, msg := [0x6D], attrs := [.leaf [0x6B] (.num [0x31])] }

/-- `{"time":"T","level":"INFO","msg":"m"` -/
def jHd : Bytes :=
  [0x7B, 0x22, 0x74, 0x69, 0x6D, 0x65, 0x22, 0x3A, 0x22, 0x54, 0x22, 0x2C, 0x22, 0x6C, 0x65, 0x76, 0x65, 0x6C,
   0x22, 0x3A, 0x22, 0x49, 0x4E, 0x46, 0x4F, 0x22, 0x2C, 0x22, 0x6D, 0x73, 0x67, 0x22, 0x3A, 0x22, 0x6D, 0x22]

example : jsonHeader false jRec = .ok jHd := by rfl

/-- root ─With(Group(""))→ 1 ─WithGroup("g")→ 2 ─With(a=1, Group(""))→ 3, a sibling 4 of 3 that
    appends into what would be 3's spare capacity, logs through 3 and 2 -/
def jOps : List (HOp JsonHandler.Attr) :=
  [ .derive 0 (.withAttrs [.group [] []]),
    .derive 1 (.withGroup [0x67]),
    .derive 2 (.withAttrs [.leaf [0x61] (.num [0x31]), .group [] []]),
    .derive 2 (.withAttrs [.leaf [0x62] (.num [0x32])]),
    .log 3 jHd jRec.attrs,
    .log 2 jHd jRec.attrs ]

/-- `{"time":"T","level":"INFO","msg":"m","g":{"a":1,"k":1}}\n` and `…,"g":{"k":1}}\n` -/
example : (run jsonR true goPolicy .json jOps).out.map (·.line) =
    [ jHd ++ [0x2C, 0x22, 0x67, 0x22, 0x3A, 0x7B, 0x22, 0x61, 0x22, 0x3A, 0x31, 0x2C, 0x22, 0x6B, 0x22, 0x3A, 0x31,
              0x7D, 0x7D, 0x0A],
      jHd ++ [0x2C, 0x22, 0x67, 0x22, 0x3A, 0x7B, 0x22, 0x6B, 0x22, 0x3A, 0x31, 0x7D, 0x7D, 0x0A] ] := by decide

/-! ## Text -/

/-- **Text `with_is_prepend`, byte-exact**: every handler state, attribute list, record. -/
theorem text_with_law (P : TextHandler.Std) (addSource : Bool) (h : TextHandler.Handler)
    (as : List TextHandler.Attr) (r : TextHandler.Record) :
    TextHandler.handle P addSource (TextHandler.withAttrs P h as) r =
      TextHandler.handle P addSource h { r with attrs := as ++ r.attrs } := by
  rw [text_handle_eq, text_handle_eq, text_withAttrs_eq]
  simp only [tBytes_append, List.append_assoc]
  rfl

/-- **Text `WithGroup` = dotted prefix**, byte-exact, every handler state. -/
theorem text_group_law (P : TextHandler.Std) (addSource : Bool) (h : TextHandler.Handler) (g : Bytes)
    (r : TextHandler.Record) (hg : g ≠ []) :
    TextHandler.handle P addSource (TextHandler.withGroup h g) r =
      TextHandler.handle P addSource h { r with attrs := [.group g r.attrs] } := by
  rw [text_handle_eq, text_handle_eq, text_withGroup_eq]
  simp only [tBytes_group P h.groupPrefix g r.attrs hg]
  rfl

/-- with no group prefix in force the empty name is harmless as well (`WithGroup("")` on a root) -/
theorem text_group_law_root (P : TextHandler.Std) (addSource : Bool) (h : TextHandler.Handler)
    (r : TextHandler.Record) (hp : h.groupPrefix = []) :
    TextHandler.handle P addSource (TextHandler.withGroup h []) r =
      TextHandler.handle P addSource h { r with attrs := [.group [] r.attrs] } := by
  rw [text_handle_eq, text_handle_eq, text_withGroup_eq]
  simp only [tBytes_inline, hp, joinPrefix]
  rfl

/-- a `Std` for closed examples -/
def P0 : TextHandler.Std := { isSpace := fun _ => false, isPrint := fun _ => true, quote := fun s => s }

/-- the side condition of `text_group_law` is needed: under prefix `p` the handler METHOD called
    with "" yields `p..k`, an inline group yields `p.k` -/
theorem text_group_law_empty_name_fails :
    (TextHandler.handle P0 false (TextHandler.withGroup { groupPrefix := [0x70] } [])
        { time := [0x54], level := 4, file := [], line := [0x30], msg := [0x6D],
          attrs := [.leaf [0x6B] (.raw .int64 [0x31])] }).toOption ≠
    (TextHandler.handle P0 false { groupPrefix := [0x70] }
        { time := [0x54], level := 4, file := [], line := [0x30], msg := [0x6D],
          attrs := [.group [] [.leaf [0x6B] (.raw .int64 [0x31])]] }).toOption := by decide

theorem text_renderer_instance (P : TextHandler.Std) : TextSound P (textR P) := textR_sound P

theorem text_heap_state (P : TextHandler.Std) (R : Renderer TextHandler.Attr) (hR : TextSound P R)
    (g : Policy) (ops more : List (HOp TextHandler.Attr)) (i : Nat) (h : Derive.Handler)
    (chain : List (DOp TextHandler.Attr))
    (hi : (run R true g .text ops).forest[i]? = some (h, chain)) :
    h.view (run R true g .text (ops ++ more)).heap =
      textView (TextHandler.derive P (chain.map textOp)) := by
  rw [(C03.isolation R g .text ops more i h chain hi).2, text_renderChain P R hR]

/-- **every logged line is `TextHandler.handle` of the pure chain state.** -/
theorem text_history_line (P : TextHandler.Std) (R : Renderer TextHandler.Attr) (hR : TextSound P R)
    (g : Policy) (ops : List (HOp TextHandler.Attr)) (e : Logged TextHandler.Attr)
    (he : e ∈ (run R true g .text ops).out) :
    ∃ (h : Derive.Handler) (chain : List (DOp TextHandler.Attr)),
      (run R true g .text ops).forest[e.handle]? = some (h, chain) ∧
      ∀ (addSource : Bool) (r : TextHandler.Record),
        textHeader P addSource r = .ok e.hd → r.attrs = e.attrs →
        TextHandler.handle P addSource (TextHandler.derive P (chain.map textOp)) r = .ok e.line := by
  obtain ⟨h, chain, h1, h2⟩ := C03.logged_lines_depend_on_own_chain R g .text ops e he
  refine ⟨h, chain, h1, ?_⟩
  intro addSource r hh ha
  rw [text_lineOf P R hR addSource _ r e.hd hh, h2, text_renderChain P R hR, ha]

/-! ### non-vacuity (Text) -/

def tRec : TextHandler.Record :=
  { time := [0x54], level := 4, file := [], line := [0x30], msg := [0x6D],
    attrs := [.leaf [0x6B] (.raw .int64 [0x31])] }

/-- `time=T level=INFO msg=m` -/
def tHd : Bytes :=
  [0x74, 0x69, 0x6D, 0x65, 0x3D, 0x54, 0x20, 0x6C, 0x65, 0x76, 0x65, 0x6C, 0x3D, 0x49, 0x4E, 0x46, 0x4F, 0x20,
   0x6D, 0x73, 0x67, 0x3D, 0x6D]

example : textHeader P0 false tRec = .ok tHd := by rfl

def tOps : List (HOp TextHandler.Attr) :=
  [ .derive 0 (.withAttrs [.leaf [0x61] (.raw .int64 [0x31])]),
    .derive 1 (.withGroup [0x67]),
    .derive 2 (.withAttrs [.group [0x68] [.leaf [0x62] (.raw .int64 [0x32])], .group [] []]),
    .derive 2 (.withAttrs [.leaf [0x63] (.raw .int64 [0x33])]),
    .log 3 tHd tRec.attrs ]

/-- `time=T level=INFO msg=m a=1 g.h.b=2 g.k=1\n` -/
example : (run (textR P0) true goPolicy .text tOps).out.map (·.line) =
    [ tHd ++ [0x20, 0x61, 0x3D, 0x31, 0x20, 0x67, 0x2E, 0x68, 0x2E, 0x62, 0x3D, 0x32, 0x20, 0x67, 0x2E, 0x6B,
              0x3D, 0x31, 0x0A] ] := by decide

/-! ## Nano -/

/-- **Nano `with_is_prepend`, byte-exact**: every handler state, attribute list, record. -/
theorem nano_with_law (addSource : Bool) (h : NanoHandler.H) (as : List NanoHandler.Attr)
    (r : NanoHandler.Rec) :
    NanoHandler.handle addSource (NanoHandler.withAttrs h as) r =
      NanoHandler.handle addSource h { r with attrs := as ++ r.attrs } := by
  rw [nano_handle_eq, nano_handle_eq, nano_withAttrs_eq]
  simp only [nBytes_append, List.append_assoc]
  rfl

/-- **Nano `WithGroup`**: the line is unchanged, and (groups are flattened, keys ignored) it is also
    the line of the record with its attributes wrapped in the group — any name. -/
theorem nano_group_law (addSource : Bool) (h : NanoHandler.H) (g : Bytes) (r : NanoHandler.Rec) :
    NanoHandler.handle addSource (NanoHandler.withGroup h g) r = NanoHandler.handle addSource h r ∧
    NanoHandler.handle addSource (NanoHandler.withGroup h g) r =
      NanoHandler.handle addSource h { r with attrs := [.group g r.attrs] } := by
  refine ⟨rfl, ?_⟩
  rw [nano_handle_eq, nano_handle_eq]
  simp only [nBytes_group, NanoHandler.withGroup]
  rfl

theorem nano_renderer_instance : NanoSound nanoR := nanoR_sound

theorem nano_heap_state (R : Renderer NanoHandler.Attr) (hR : NanoSound R) (g : Policy)
    (ops more : List (HOp NanoHandler.Attr)) (i : Nat) (h : Derive.Handler)
    (chain : List (DOp NanoHandler.Attr))
    (hi : (run R true g .nano ops).forest[i]? = some (h, chain)) :
    h.view (run R true g .nano (ops ++ more)).heap =
      nanoView (NanoHandler.deriveAll .init (chain.map nanoOp)) := by
  rw [(C03.isolation R g .nano ops more i h chain hi).2, nano_renderChain R hR]

/-- **every logged line is `NanoHandler.handle` of the pure chain state.** -/
theorem nano_history_line (R : Renderer NanoHandler.Attr) (hR : NanoSound R) (g : Policy)
    (ops : List (HOp NanoHandler.Attr)) (e : Logged NanoHandler.Attr)
    (he : e ∈ (run R true g .nano ops).out) :
    ∃ (h : Derive.Handler) (chain : List (DOp NanoHandler.Attr)),
      (run R true g .nano ops).forest[e.handle]? = some (h, chain) ∧
      ∀ (addSource : Bool) (r : NanoHandler.Rec),
        nanoHeader addSource r = .ok e.hd → r.attrs = e.attrs →
        NanoHandler.handle addSource (NanoHandler.deriveAll .init (chain.map nanoOp)) r = .ok e.line := by
  obtain ⟨h, chain, h1, h2⟩ := C03.logged_lines_depend_on_own_chain R g .nano ops e he
  refine ⟨h, chain, h1, ?_⟩
  intro addSource r hh ha
  rw [nano_lineOf R hR addSource _ r e.hd hh, h2, nano_renderChain R hR, ha]

/-! ### non-vacuity (Nano) -/

def nRec : NanoHandler.Rec :=
  { time := [0x54], level := 4, msg := [0x6D], attrs := [.leaf [0x6B] (.raw [0x31])] }

/-- `T [I] m` -/
def nHd : Bytes := [0x54, 0x20, 0x5B, 0x49, 0x5D, 0x20, 0x6D]

example : nanoHeader true nRec = .ok nHd := by rfl

def nOps : List (HOp NanoHandler.Attr) :=
  [ .derive 0 (.withAttrs [.leaf [0x61] (.str [0x78])]),
    .derive 1 (.withGroup [0x67]),
    .derive 1 (.withAttrs [.group [0x68] [.leaf [0x62] (.any [0x79])], .group [] []]),
    .derive 1 (.withAttrs [.leaf [0x63] (.ansi [0x7A])]),
    .log 3 nHd nRec.attrs ]

/-- `T [I] m x y 1\n` -/
example : (run nanoR true goPolicy .nano nOps).out.map (·.line) =
    [ nHd ++ [0x20, 0x78, 0x20, 0x79, 0x20, 0x31, 0x0A] ] := by decide

end Glb.C03b
