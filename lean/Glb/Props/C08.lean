/-
  C08 — no head-of-line blocking: a pending task and an idle worker always have an enabled
  hand-over (through the universal queue when the lane's own worker is busy).
  (`C08_at_most_L_running` is a safety invariant and lives with the other safety theorems.)
  Helper lemmas: `Glb/Proofs/TaskLaneProgress.lean`; witness: `Glb/Proofs/TaskLaneTraces.lean`.
-/
import Glb.Proofs.TaskLaneProgress
import Glb.Proofs.TaskLaneTraces

namespace Glb.TaskLane

variable (L Q : Nat)

/-- no head-of-line blocking: live context, nothing enabled, something pending ⇒ every worker is busy -/
theorem C08_no_head_of_line_blocking (s : St) (h : Reachable (cfg L Q) s) (hc : s.cancelled = false)
    (hq : Quiescent (cfg L Q) s) (hp : s.pending (cfg L Q) ≠ []) : ∀ i, i < L → s.running i := by
  obtain ⟨hw, hn, _⟩ := h.inv
  intro j hj
  apply Classical.byContradiction
  intro hr
  exact hp (pending_nil_of_idle (quiescent_idle hq hw hn hc hj hr))

/-- the same, read as progress: an idle worker `j` and a task held by a queue goroutine `i` blocked
    at q4 (any lanes `i`, `j`) always have an enabled hand-over step -/
theorem C08_idle_worker_takes_pending (s : St) (i j : Nat) (hi : i < L) (hj : j < L)
    (hq : (s.qs i).pc = 4) (hw : (s.ws j).pc = 2) (hp : (s.ws j).parked = true) :
    ∃ s', Step (cfg L Q) s .tau s' :=
  hand_enabled hi hj hq hw hp

/-! ### Non-vacuity -/

/-- the hypotheses of `C08_no_head_of_line_blocking` are satisfiable: `cfg 1 1`, task 7 is running
    (the worker is pinned), task 8 was accepted afterwards and is held by the queue goroutine at
    q4 — reachable, live, quiescent, pending = [8] -/
example : Reachable (cfg 1 1) Trace.b23 ∧ Trace.b23.cancelled = false ∧
    Quiescent (cfg 1 1) Trace.b23 ∧ Trace.b23.pending (cfg 1 1) = [8] :=
  ⟨Trace.reachB, rfl, Trace.quiescentB, by decide⟩

/-- … and the conclusion there: the (only) worker is running -/
example : Trace.b23.running 0 :=
  C08_no_head_of_line_blocking 1 1 _ Trace.reachB rfl Trace.quiescentB (by decide) 0 Nat.zero_lt_one

/-- a state with something pending and an idle worker is NOT quiescent: `Trace.s10` (queue goroutine
    at q3 holding task 7, worker parked at w2) -/
example : Trace.s10.pending (cfg 1 1) = [7] ∧ ¬ Trace.s10.running 0 ∧ ¬ Quiescent (cfg 1 1) Trace.s10 := by
  refine ⟨by decide, fun h => absurd h.1 (by decide), fun hq => ?_⟩
  have hr : Reachable (cfg 1 1) Trace.s10 := Trace.reach10
  have := C08_no_head_of_line_blocking 1 1 _ hr rfl hq (by decide) 0 Nat.zero_lt_one
  exact absurd this.1 (by decide)

end Glb.TaskLane
