/-
  C03 — Derived loggers are isolated: output depends only on own derivation chain.
  Only property theorems live here; helper lemmas are in Glb/Proofs/DeriveSlices.lean.

  Setting (Glb/Model/DeriveSlices.lean): Go slices over an explicit heap, `append` in place
  whenever there is spare capacity and otherwise into a fresh array of ANY capacity ≥ len + n
  (`Policy`, universally quantified; `goPolicy` is Go's real sequence), `clone()` = clip.
  Histories are arbitrary lists of derive / log operations over a growing forest, for the three
  handler shapes; rendering is an opaque parameter `R : Renderer α`.
  `true` below is the clip flag; `Glb/Tie/LoggerClone.lean` proves that it is what the three
  `clone()` methods in /repo say (`codeClips k = true`) and restates `isolation` for `codeClips`.
-/
import Glb.Proofs.DeriveSlices

namespace Glb.C03
open Glb.Derive

variable {α : Type}

/-- **isolation.**  For every renderer, every growth policy, every handler kind, every history
    `ops`, every handle `i` existing after `ops` and every continuation `more` (= every later point
    of the history): the handle still denotes the same handler with the same chain, and what that
    handler's `preformatted` slice reads through the heap — after all the derivations and appends
    done meanwhile by parents, siblings and descendants — is exactly the pure concatenation of what
    its own chain appended; its shape fields are those of its own chain as well. -/
theorem isolation (R : Renderer α) (g : Policy) (k : Kind) (ops more : List (HOp α))
    (i : Nat) (h : Handler) (chain : List (DOp α))
    (hi : (run R true g k ops).forest[i]? = some (h, chain)) :
    (run R true g k (ops ++ more)).forest[i]? = some (h, chain) ∧
    h.view (run R true g k (ops ++ more)).heap = renderChain R k chain := by
  have hstable : (run R true g k (ops ++ more)).forest[i]? = some (h, chain) := by
    rw [run_append]
    obtain ⟨ext, he⟩ := runFrom_forest R true g more (run R true g k ops)
    rw [he]
    exact getElem?_append_some _ _ _ _ hi
  exact ⟨hstable, ((run_good R g k (ops ++ more)).1 i h chain hstable).2⟩

/-- **a derivation writes no array that existed before it** (with clipping, any policy, any
    reachable state).  This is the invariant behind `isolation` — every in-place write lands in an
    array no published handler can see — and it is why *concurrent* derivations from a shared
    parent cannot disturb each other or a concurrent `Handle`: a derivation only reads the parent's
    fields and writes arrays it allocated itself. -/
theorem derive_writes_only_fresh_arrays (R : Renderer α) (g : Policy) (k : Kind) (ops : List (HOp α))
    (p : Nat) (op : DOp α) (a : Nat) (ha : a < (run R true g k ops).heap.next) :
    (step R true g (run R true g k ops) (.derive p op)).heap.mem a = (run R true g k ops).heap.mem a := by
  simp only [step]
  cases hp : (run R true g k ops).forest[p]? with
  | none => rfl
  | some hc =>
    obtain ⟨h, chain⟩ := hc
    have hw := ((run_good R g k ops).1 p h chain hp).1
    exact (derive_spec R g _ h op hw).1.2 a ha

/-- every line ever logged in any history is the line of the pure rendering of the logging
    handler's own chain -/
theorem logged_lines_depend_on_own_chain (R : Renderer α) (g : Policy) (k : Kind) (ops : List (HOp α))
    (e : Logged α) (he : e ∈ (run R true g k ops).out) :
    ∃ (h : Handler) (chain : List (DOp α)), (run R true g k ops).forest[e.handle]? = some (h, chain) ∧
      e.line = lineOf R (renderChain R k chain).pre (renderChain R k chain).shape e.hd e.attrs :=
  (run_good R g k ops).2 e he

/-- a logger built ALONE from a fresh root by replaying one chain (under any growth policy) writes
    exactly one line: the line of the pure rendering of that chain -/
theorem replay_alone (R : Renderer α) (g : Policy) (k : Kind) (chain : List (DOp α))
    (hd : Bytes) (attrs : List α) :
    replayAlone R true g k chain hd attrs =
      [lineOf R (renderChain R k chain).pre (renderChain R k chain).shape hd attrs] := by
  unfold replayAlone
  obtain ⟨h', e1, e2⟩ := runFrom_alone R true g chain (St.init k) 0 (rootHandler k) []
    (by simp [St.init]) (by simp [St.init])
  have hg : Good R k (run R true g k (aloneOps 0 chain)) := run_good R g k _
  have e1' : (run R true g k (aloneOps 0 chain)).forest[chain.length]? = some (h', chain) := by
    simpa [run] using e1
  have hv := (hg.1 _ _ _ e1').2
  rw [run_append]
  simp only [runFrom, List.foldl_cons, List.foldl_nil, step, e1']
  have e2' : (run R true g k (aloneOps 0 chain)).out = [] := by simpa [run, St.init] using e2
  rw [e2']
  simp only [List.nil_append, List.map_cons, List.map_nil]
  rw [← hv]
  rfl

/-- **isolated replay.**  For any tree of derivations built and used in any order (any history,
    any growth policy `g`), the line a logger writes for a record equals the line written by a
    logger built alone from a fresh root by replaying just that logger's own chain (under any,
    possibly different, growth policy `g'`). -/
theorem logged_line_eq_isolated_replay (R : Renderer α) (g g' : Policy) (k : Kind) (ops : List (HOp α))
    (e : Logged α) (he : e ∈ (run R true g k ops).out) :
    ∃ (h : Handler) (chain : List (DOp α)), (run R true g k ops).forest[e.handle]? = some (h, chain) ∧
      replayAlone R true g' k chain e.hd e.attrs = [e.line] := by
  obtain ⟨h, chain, h1, h2⟩ := logged_lines_depend_on_own_chain R g k ops e he
  exact ⟨h, chain, h1, by rw [replay_alone, h2]⟩

/-- `with_is_prepend`, alias-free level: a handler extended by `WithAttrs(as)` renders a record with
    attributes `bs` exactly as the original handler renders the record with `as ++ bs`: the
    rendering of `as` sits between the parent's pre-rendered bytes and the record's own attributes,
    in the same order and in the same group nesting (same shape threading, same closers). -/
theorem with_is_prepend_pure (R : Renderer α) (v : PView) (as bs : List α) (hd : Bytes) :
    lineOf R (pureStep R v (.withAttrs as)).pre (pureStep R v (.withAttrs as)).shape hd bs =
      lineOf R v.pre v.shape hd (as ++ bs) := by
  simp only [lineOf, pureStep, attrsChunks_append, closers_attrsChunks, List.flatten_append,
    List.append_assoc]

/-- **`with_is_prepend`** on the heap: in every history, at every point, if handle `c` was derived
    from handle `p` by `WithAttrs(as)` (its chain is `p`'s chain followed by `withAttrs as`), then
    for every record `Handle` on `c` writes byte-for-byte what `Handle` on `p` writes for the same
    record with `as` prepended to its attributes — whatever else was derived from `p`, `c` or
    anything else in between. Includes `as = []` and `as` rendering to nothing (empty groups). -/
theorem with_is_prepend (R : Renderer α) (g : Policy) (k : Kind) (ops : List (HOp α))
    (p c : Nat) (hp hc : Handler) (chain : List (DOp α)) (as bs : List α) (hd : Bytes)
    (h1 : (run R true g k ops).forest[p]? = some (hp, chain))
    (h2 : (run R true g k ops).forest[c]? = some (hc, chain ++ [.withAttrs as])) :
    lineOf R (hc.pre.bytes (run R true g k ops).heap) hc.shape hd bs =
      lineOf R (hp.pre.bytes (run R true g k ops).heap) hp.shape hd (as ++ bs) := by
  have g1 := ((run_good R g k ops).1 p hp chain h1).2
  have g2 := ((run_good R g k ops).1 c hc _ h2).2
  rw [renderChain_snoc] at g2
  have e1 : hp.pre.bytes (run R true g k ops).heap = (renderChain R k chain).pre := by
    rw [← g1]; rfl
  have e1' : hp.shape = (renderChain R k chain).shape := by rw [← g1]; rfl
  have e2 : hc.pre.bytes (run R true g k ops).heap =
      (pureStep R (renderChain R k chain) (.withAttrs as)).pre := by rw [← g2]; rfl
  have e2' : hc.shape = (pureStep R (renderChain R k chain) (.withAttrs as)).shape := by
    rw [← g2]; rfl
  rw [e1, e1', e2, e2']
  exact with_is_prepend_pure R _ as bs hd

/-- the hypothesis of `with_is_prepend` is what `derive` produces: deriving from handle `p` creates
    the next handle, whose chain is `p`'s chain followed by the operation (any clip flag) -/
theorem derive_creates (R : Renderer α) (c : Bool) (g : Policy) (s : St α) (p : Nat) (op : DOp α)
    (hp : Handler) (chain : List (DOp α)) (h1 : s.forest[p]? = some (hp, chain)) :
    ∃ hc, (step R c g s (.derive p op)).forest[s.forest.length]? = some (hc, chain ++ [op]) ∧
      (step R c g s (.derive p op)).forest[p]? = some (hp, chain) := by
  refine ⟨(derive R c g s.heap hp op).2, ?_, ?_⟩
  · simp [step, h1]
  · simp only [step, h1]
    exact getElem?_append_some _ _ _ _ h1

/-! ## What the clip guards against -/

/-- executable form of "every handler of the forest reads as the pure rendering of its chain" -/
def isoCheck (R : Renderer α) (k : Kind) (s : St α) : Bool :=
  s.forest.all fun e => decide (e.1.view s.heap = renderChain R k e.2)

/-- the isolation statement for one state -/
def IsolatedAt (R : Renderer α) (k : Kind) (s : St α) : Prop :=
  ∀ (i : Nat) (h : Handler) (chain : List (DOp α)), s.forest[i]? = some (h, chain) →
    h.view s.heap = renderChain R k chain

theorem isoCheck_of_isolated (R : Renderer α) (k : Kind) (s : St α) (h : IsolatedAt R k s) :
    isoCheck R k s = true := by
  simp only [isoCheck, List.all_eq_true, decide_eq_true_eq]
  intro e he
  obtain ⟨i, hi, rfl⟩ := List.getElem_of_mem he
  exact h i _ _ (by simp [hi])

/-- ASCII literal as bytes (reducible by `decide`, unlike `String.toUTF8`) -/
def b (s : String) : Bytes := s.toList.map (fun c => UInt8.ofNat c.toNat)

/-- parent with spare capacity (5 bytes in an 8-byte size class), then two children -/
def noclipOps : List (HOp (Bytes × Bool)) :=
  [ .derive 0 (.withAttrs [(b " k=v1", true)]),
    .derive 1 (.withAttrs [(b " a", true)]),
    .derive 1 (.withAttrs [(b " b", true)]) ]

/-- **`noclip_counterexample`.**  With clipping off and Go's real growth sequence, the 3-operation
    history "derive a parent carrying 5 bytes (capacity 8), derive two children from it" violates
    isolation: the second child's in-place append rewrites the first child (handle 2). -/
theorem noclip_counterexample :
    ¬ IsolatedAt rawRenderer .nano (run rawRenderer false goPolicy .nano noclipOps) := by
  intro h
  have := isoCheck_of_isolated _ _ _ h
  revert this
  decide

/-- … concretely: the first child now reads " k=v1 b" although its own chain appended " k=v1 a" -/
theorem noclip_first_child_corrupted :
    ((run rawRenderer false goPolicy .nano noclipOps).forest[2]?.map
        fun e => e.1.view (run rawRenderer false goPolicy .nano noclipOps).heap)
      = some ⟨b " k=v1 b", .nano⟩ ∧
    renderChain rawRenderer .nano
      [.withAttrs [(b " k=v1", true)], .withAttrs [(b " a", true)]] = ⟨b " k=v1 a", .nano⟩ := by
  decide

/-! ## Non-vacuity -/

/-- the same history with the clip: isolated (instance of `isolation`, here re-checked by
    evaluation), and the parent really has spare capacity there, so the clip is what saves it -/
example : isoCheck rawRenderer .nano (run rawRenderer true goPolicy .nano noclipOps) = true := by decide
example : ((run rawRenderer true goPolicy .nano noclipOps).forest[1]?.map
    fun e => (e.1.pre.len, e.1.pre.cap)) = some (5, 8) := by decide

/-- a JSON history: group, attrs under the group, siblings, a log in between; every handle reads
    as its own chain and the logged line is the isolated line -/
def jsonOps : List (HOp (Bytes × Bool)) :=
  [ .derive 0 (.withAttrs [(b ",\"a\":1", true)]),
    .derive 1 (.withGroup (b ",\"g\":{")),
    .derive 2 (.withAttrs [(b "\"x\":1", true), (b "", false)]),
    .derive 2 (.withAttrs [(b "\"y\":2", true)]),
    .log 3 (b "{\"msg\":\"m\"") [(b ",\"r\":0", true)],
    .derive 1 (.withAttrs [(b ",\"z\":3", true)]),
    .log 3 (b "{\"msg\":\"m\"") [(b ",\"r\":0", true)] ]

example : isoCheck rawRenderer .json (run rawRenderer true goPolicy .json jsonOps) = true := by decide
example : (run rawRenderer true goPolicy .json jsonOps).out.map (·.line) =
    [b "{\"msg\":\"m\",\"a\":1,\"g\":{\"x\":1,\"r\":0}}\n", b "{\"msg\":\"m\",\"a\":1,\"g\":{\"x\":1,\"r\":0}}\n"] := by
  decide
/-- hypotheses of `with_is_prepend` are satisfiable: handle 3 is handle 2 + withAttrs -/
example : ((run rawRenderer true goPolicy .json jsonOps).forest[3]?.map (·.2.length),
           (run rawRenderer true goPolicy .json jsonOps).forest[2]?.map (·.2.length)) = (some 3, some 2) := by
  decide
/-- Text: WithGroup appends nothing and shares the parent's array (clipped) -/
example : ((run rawRenderer true goPolicy .text
      [.derive 0 (.withAttrs [(b " a=1", true)]), .derive 1 (.withGroup (b "g")),
       .derive 2 (.withGroup (b "h"))]).forest[3]?.map fun e => (e.1.pre, e.1.shape))
    = some (⟨1, 4, 4⟩, .text (b "g.h")) := by decide
/-- `replayAlone` really produces one line -/
example : replayAlone rawRenderer true goPolicy .nano
    [.withAttrs [(b " k=v1", true)], .withAttrs [(b " a", true)]] (b "hd") [(b " r", true)]
    = [b "hd k=v1 a r\n"] := by decide

end Glb.C03
