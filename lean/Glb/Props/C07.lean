/-
  C07 — cancellation: a PushTask that begins after cancel is refused, every blocked goroutine is
  released, `Wait` returns once running tasks have returned, nothing starts after `Wait`.
  All statements are about `cfg L Q` for arbitrary `L`, `Q` and quantify over all reachable
  states (= all interleavings) of the model `Glb.Model.TaskLane`.
  Helper lemmas: `Glb/Proofs/TaskLaneProgress.lean`; witnesses: `Glb/Proofs/TaskLaneTraces.lean`.
-/
import Glb.Proofs.TaskLaneProgress
import Glb.Proofs.TaskLaneTraces

namespace Glb.TaskLane

variable (L Q : Nat)

/-- a PushTask call that begins after cancellation returns the context error and enqueues nothing -/
theorem C07_push_after_cancel (s s' : St) (h : Reachable (cfg L Q) s) (hc : s.cancelled = true)
    (k : Nat) (hk : k < s.np) (h0 : (s.ps k).pc = 0) (hs : Steps (cfg L Q) s s') :
    (s.ps k).held ∉ s'.accepted ∧ ∀ r, ((s.ps k).held, r) ∈ s'.results → r = .ctxErr :=
  have hp := (PAC.of_reachable h hc hk h0).steps hs
  ⟨hp.acc, hp.res⟩

/-- after cancellation every goroutine of the lane that has not exited and is not inside a task,
    and every blocked producer, has an enabled step of its own -/
theorem C07_cancel_progress (s : St) (h : Reachable (cfg L Q) s) (hc : s.cancelled = true) :
    (∀ i, i < L → (s.qs i).pc ≠ 6 → ∃ l s', Step (cfg L Q) s l s' ∧ internal l = true) ∧
    (∀ i, i < L → (s.ws i).pc ≠ 4 → ¬ s.running i → ∃ l s', Step (cfg L Q) s l s' ∧ internal l = true) ∧
    (∀ k, k < s.np → (s.ps k).pc ≠ 5 → ∃ l s', Step (cfg L Q) s l s' ∧ internal l = true) :=
  cancel_progress h.inv.1 hc

/-- Wait returns: cancelled, nothing enabled, every started task has returned ⇒ all 2L goroutines exited,
    whatever is still queued or held -/
theorem C07_wait_returns (s : St) (h : Reachable (cfg L Q) s) (hc : s.cancelled = true)
    (hq : Quiescent (cfg L Q) s) (hr : ∀ i, i < L → ¬ s.running i) : allExited L s := by
  obtain ⟨hw, _, _⟩ := h.inv
  intro i hi
  constructor
  · rcases quiescent_q hq hw hi with h|h|h
    · simp [hc] at h
    · simp [hc] at h
    · exact h
  · rcases quiescent_w hq hw hi with h|h|h
    · simp [hc] at h
    · exact (hr i hi h).elim
    · exact h

set_option linter.unusedVariables false in
/-- after Wait has returned no task is ever started (`h` is not even needed) -/
theorem C07_nothing_after_wait (s s' : St) (h : Reachable (cfg L Q) s) (he : allExited L s)
    (hs : Steps (cfg L Q) s s') : s'.started = s.started :=
  (allExited_steps he hs).2

/-- shutdown terminates (DESIGN A.2, same measure `mu` as C06): from a reachable cancelled state
    every run of internal steps has at most `mu L Q s` steps and stays cancelled; wherever such a
    run gets stuck (quiescent) with no task still running, all `2L` goroutines have exited; and
    some run does get stuck. -/
theorem C07_shutdown_terminates (s : St) (h : Reachable (cfg L Q) s) (hc : s.cancelled = true) :
    (∀ n s', IRun (cfg L Q) s n s' →
        n + mu L Q s' ≤ mu L Q s ∧ s'.cancelled = true ∧
        (Quiescent (cfg L Q) s' → (∀ i, i < L → ¬ s'.running i) → allExited L s')) ∧
    ∃ n s', IRun (cfg L Q) s n s' ∧ Quiescent (cfg L Q) s' :=
  ⟨fun _ s' hr => ⟨hr.mu_bound, hr.cancelled hc,
      C07_wait_returns L Q s' (hr.reachable h) (hr.cancelled hc)⟩,
   exists_quiescent s⟩

/-! ### Non-vacuity -/

/-- the hypotheses of `C07_wait_returns` / `C07_cancel_progress` / `C07_shutdown_terminates`:
    a reachable, cancelled, quiescent state without running task (`cfg 1 0` after cancel) … -/
example : Reachable (cfg 1 0) Trace.c3 ∧ Trace.c3.cancelled = true ∧ Quiescent (cfg 1 0) Trace.c3 ∧
    ∀ i, i < 1 → ¬ Trace.c3.running i :=
  ⟨Trace.reachC3, rfl, Trace.quiescentC3, lt_one (fun h => absurd h.1 (by decide))⟩

/-- … in which indeed everybody has exited (hypothesis of `C07_nothing_after_wait`) -/
example : allExited 1 Trace.c3 := C07_wait_returns 1 0 _ Trace.reachC3 rfl Trace.quiescentC3
    (lt_one (fun h => absurd h.1 (by decide)))

/-- the hypotheses of `C07_push_after_cancel`: a PushTask that begins in a cancelled state -/
example : Reachable (cfg 1 0) Trace.c4 ∧ Trace.c4.cancelled = true ∧ 0 < Trace.c4.np ∧
    (Trace.c4.ps 0).pc = 0 := ⟨Trace.reachC4, rfl, Nat.zero_lt_one, rfl⟩

/-- and a state right after cancel where progress is still to be made: `init` + cancel is not quiescent -/
example : ¬ Quiescent (cfg 1 0) Trace.c1 := by
  intro hq
  have h1 : Reachable (cfg 1 0) Trace.c1 := .step _ _ _ .init (Step.cancel _ rfl)
  obtain ⟨l, s', hs, hi⟩ := (C07_cancel_progress 1 0 _ h1 rfl).1 0 Nat.zero_lt_one (by decide)
  have := hq l s' hs
  simp [hi] at this

end Glb.TaskLane
