/-
  C12 — IPv4Filter is safe and consistent under concurrent updates and lookups.

  Concurrency model (tied to the source by Glb.Tie.FilterLock): every `Add`/`Remove` is ONE atomic
  step — either the atomic store of `matchAll` or the critical section under the writer lock —
  and `Contains` is TWO atomic steps: the unlocked atomic load of `matchAll`, then (only if that
  was false) the scan under the reader lock.  Any number of writer steps may happen before, between
  and after the two reader steps; that is every interleaving the locks allow.
-/
import Glb.Props.C11

namespace Glb.C12
open Glb.Filter Glb.C11

/-- a range covers an address -/
def covers (e : Addr × Nat) (ip : Addr) : Prop := ip &&& prefixMask e.2 = e.1

/-- result of a `Contains(ip)` call whose `matchAll` load happened in state `s1` and whose locked
    scan (if any) happened in the later state `s2` -/
def containsConc (s1 s2 : St) (ip : Addr) : Bool := s1.matchAll || scan s2 ip

/-- the states a lookup may see: `s1` after any prefix of the writers' steps, `s2` after more of them -/
structure Lookup (ls : Nat) (pre mid : List COp) where
  hpre : ∀ op ∈ pre, op.len ≤ 32
  hmid : ∀ op ∈ mid, op.len ≤ 32

def stateAt (ls : Nat) (ops : List COp) : St := crun ls ops

theorem crun_append (ls : Nat) (a b : List COp) : crun ls (a ++ b) = b.foldl (cstep ls) (crun ls a) := by
  simp [crun, List.foldl_append]

/-- **soundness of a concurrent lookup**: if it returns true, some range covering the address was
    present at the moment of the load or at the moment of the scan — so an address that no range
    present at any time during the call covers gets `false`. -/
theorem lookup_sound (ls : Nat) (pre mid : List COp) (h : Lookup ls pre mid) (ip : Addr)
    (hr : containsConc (crun ls pre) (crun ls (pre ++ mid)) ip = true) :
    (∃ e ∈ specRun pre, covers e ip) ∨ (∃ e ∈ specRun (pre ++ mid), covers e ip) := by
  have hall : ∀ op ∈ pre ++ mid, op.len ≤ 32 := by
    intro op ho; rcases List.mem_append.mp ho with ho | ho
    · exact h.hpre op ho
    · exact h.hmid op ho
  unfold containsConc at hr
  rw [Bool.or_eq_true] at hr
  rcases hr with hr | hr
  · left
    have := (filter_refines_prefix_set ls pre h.hpre ip).1 (by simp [containsAddr, hr])
    exact this
  · right
    have := (filter_refines_prefix_set ls (pre ++ mid) hall ip).1 (by simp [containsAddr, hr])
    exact this

/-- **completeness of a concurrent lookup**: if one range covering the address is present both at
    the load and at the scan (in particular: present for the whole duration of the call), the
    lookup returns true. -/
theorem lookup_complete (ls : Nat) (pre mid : List COp) (h : Lookup ls pre mid) (ip : Addr)
    (e : Addr × Nat) (hc : covers e ip) (h1 : e ∈ specRun pre) (h2 : e ∈ specRun (pre ++ mid)) :
    containsConc (crun ls pre) (crun ls (pre ++ mid)) ip = true := by
  have hall : ∀ op ∈ pre ++ mid, op.len ≤ 32 := by
    intro op ho; rcases List.mem_append.mp ho with ho | ho
    · exact h.hpre op ho
    · exact h.hmid op ho
  obtain ⟨hwf1, hrel1⟩ := rel_run ls pre h.hpre
  obtain ⟨hwf2, hrel2⟩ := rel_run ls (pre ++ mid) hall
  unfold containsConc
  rw [Bool.or_eq_true]
  have m1 := (hrel1 e).2 h1
  have m2 := (hrel2 e).2 h2
  simp only [abs, List.mem_append] at m1 m2
  by_cases hm : (crun ls pre).matchAll = true
  · exact Or.inl hm
  · right
    rcases m2 with m2 | m2
    · -- `e` is 0.0.0.0/0 at the scan, hence it is 0.0.0.0/0 and was present at the load too
      have he : e = ((0 : Addr), 0) := by
        by_cases hm2 : (crun ls (pre ++ mid)).matchAll <;> simp_all
      subst he
      rcases m1 with m1 | m1
      · simp [hm] at m1
      · exfalso
        unfold absCore at m1
        by_cases hmm : (crun ls pre).mapsMode
        · simp [hmm] at m1
          obtain ⟨p, q, hpq, _, rfl⟩ := m1
          have := hwf1.maps _ hpq; simp at this
        · simp [hmm] at m1
    · exact (scan_iff _ hwf2 ip).2 ⟨e, m2, hc⟩

/-! ### final agreement: membership of a key depends only on the operations touching that key -/

/-- the abstract key an operation touches -/
def opKey : COp → Addr × Nat
  | .add a n => (a &&& prefixMask n, n)
  | .remove a n => (a &&& prefixMask n, n)

/-- membership after a run: the last operation touching the key is an `add` -/
def lastIsAdd (key : Addr × Nat) : List COp → Bool → Bool
  | [], acc => acc
  | .add a n :: rest, acc => lastIsAdd key rest (if (a &&& prefixMask n, n) = key then true else acc)
  | .remove a n :: rest, acc => lastIsAdd key rest (if (a &&& prefixMask n, n) = key then false else acc)

theorem mem_foldl_specStep (key : Addr × Nat) (ops : List COp) (S : PSet) :
    key ∈ ops.foldl specStep S ↔ lastIsAdd key ops (decide (key ∈ S)) = true := by
  induction ops generalizing S with
  | nil => simp [lastIsAdd]
  | cons op ops ih =>
    cases op with
    | add a n =>
      simp only [List.foldl_cons, ih, lastIsAdd, specStep]
      by_cases hk : (a &&& prefixMask n, n) = key
      · simp [hk]
      · have : decide (key ∈ (a &&& prefixMask n, n) :: S) = decide (key ∈ S) := by
          have hk' : key ≠ (a &&& prefixMask n, n) := fun h => hk h.symm
          simp [List.mem_cons, hk']
        rw [this]; simp [hk]
    | remove a n =>
      simp only [List.foldl_cons, ih, lastIsAdd, specStep]
      by_cases hk : (a &&& prefixMask n, n) = key
      · simp [hk]
      · have : decide (key ∈ List.filter (fun e => decide (e ≠ (a &&& prefixMask n, n))) S) = decide (key ∈ S) := by
          have hk' : key ≠ (a &&& prefixMask n, n) := fun h => hk h.symm
          simp [List.mem_filter, hk']
        rw [this]; simp [hk]

theorem lastIsAdd_filter (key : Addr × Nat) (ops : List COp) (acc : Bool) :
    lastIsAdd key (ops.filter (fun o => opKey o = key)) acc = lastIsAdd key ops acc := by
  induction ops generalizing acc with
  | nil => rfl
  | cons op ops ih =>
    cases op with
    | add a n =>
      have hkey : opKey (COp.add a n) = (a &&& prefixMask n, n) := rfl
      by_cases hk : (a &&& prefixMask n, n) = key
      · rw [List.filter_cons_of_pos (by simp [hkey, hk])]
        simp only [lastIsAdd, hk, if_true]; exact ih _
      · rw [List.filter_cons_of_neg (by simp [hkey, hk])]
        simp only [lastIsAdd, hk, if_false]; exact ih _
    | remove a n =>
      have hkey : opKey (COp.remove a n) = (a &&& prefixMask n, n) := rfl
      by_cases hk : (a &&& prefixMask n, n) = key
      · rw [List.filter_cons_of_pos (by simp [hkey, hk])]
        simp only [lastIsAdd, hk, if_true]; exact ih _
      · rw [List.filter_cons_of_neg (by simp [hkey, hk])]
        simp only [lastIsAdd, hk, if_false]; exact ih _

/-- membership of `key` after any run depends only on the subsequence of operations touching `key` -/
theorem specRun_mem_filter (key : Addr × Nat) (ops : List COp) :
    key ∈ specRun ops ↔ key ∈ specRun (ops.filter (fun o => opKey o = key)) := by
  unfold specRun
  rw [mem_foldl_specStep, mem_foldl_specStep, lastIsAdd_filter]

/-- **final agreement.**  Let `ops1` be the order in which the writers' critical sections actually
    interleaved and `ops2` any other schedule of the same operations (e.g. writer after writer) such
    that for every key the operations touching it come in the same order — which is the case when
    each writer owns its ranges and issues its operations in program order.  Then, once updates
    stop, the filter answers every lookup as the prefix set of `ops2` does. -/
theorem final_agreement (ls : Nat) (ops1 ops2 : List COp)
    (h1 : ∀ op ∈ ops1, op.len ≤ 32)
    (hsame : ∀ key, ops1.filter (fun o => opKey o = key) = ops2.filter (fun o => opKey o = key))
    (ip : Addr) :
    containsAddr (crun ls ops1) ip = true ↔ specMem (specRun ops2) ip := by
  rw [filter_refines_prefix_set ls ops1 h1 ip]
  unfold specMem
  constructor
  · rintro ⟨e, he, hc⟩
    exact ⟨e, by rw [specRun_mem_filter, ← hsame, ← specRun_mem_filter]; exact he, hc⟩
  · rintro ⟨e, he, hc⟩
    exact ⟨e, by rw [specRun_mem_filter, hsame, ← specRun_mem_filter]; exact he, hc⟩

/-- writers owning disjoint key sets: any interleaving that preserves each writer's program order
    has the per-key subsequences of the writer-after-writer schedule -/
theorem owned_keys_same_order (owner : COp → Nat) (keyOwner : Addr × Nat → Nat) (ops1 ops2 : List COp)
    (hown1 : ∀ o ∈ ops1, owner o = keyOwner (opKey o)) (hown2 : ∀ o ∈ ops2, owner o = keyOwner (opKey o))
    (hw : ∀ w, ops1.filter (fun o => owner o = w) = ops2.filter (fun o => owner o = w)) :
    ∀ key, ops1.filter (fun o => opKey o = key) = ops2.filter (fun o => opKey o = key) := by
  intro key
  have e1 : ops1.filter (fun o => opKey o = key) =
      (ops1.filter (fun o => owner o = keyOwner key)).filter (fun o => opKey o = key) := by
    rw [List.filter_filter]
    apply List.filter_congr
    intro o ho
    have := hown1 o ho
    by_cases hk : opKey o = key <;> simp [hk, this]
  have e2 : ops2.filter (fun o => opKey o = key) =
      (ops2.filter (fun o => owner o = keyOwner key)).filter (fun o => opKey o = key) := by
    rw [List.filter_filter]
    apply List.filter_congr
    intro o ho
    have := hown2 o ho
    by_cases hk : opKey o = key <;> simp [hk, this]
  rw [e1, e2, hw]

/-! ### non-vacuity -/

example : Lookup 2 [.add 0x0a000000#32 8] [.add 0 0, .remove 0x0a000000#32 8] := ⟨by decide, by decide⟩

example : containsConc (crun 2 [.add 0x0a000000#32 8])
    (crun 2 ([.add 0x0a000000#32 8] ++ [.add 0 0, .remove 0x0a000000#32 8])) 0x0a010203#32 = false := by
  decide

end Glb.C12
