/-
  C16 — ShellEscape yields exactly one shell word that evaluates back to the input.

  "What the shell sees" is `Glb.PosixWords.lex` (Spec/PosixWords.lean): POSIX token recognition,
  quote removal and tilde expansion, validated against real dash and bash by the harness.
  `{ words := [lit s], special := false, unterminated := false }` reads: exactly one argument,
  its value is `s`, and nothing ended the word, started another command, or triggered an
  expansion, substitution, glob or comment.

  The theorems hold for EVERY byte string, of any length — including strings containing NUL
  (inside single quotes the lexer treats it like any other byte).  The NUL exclusion in the
  property text is a fact about real shells (argv cannot carry NUL), not about the quoting.
-/
import Glb.Tie.Strutil

namespace Glb.C16
open Glb Glb.Strutil Glb.PosixWords Glb.Tie.Strutil

/-- Generic form: ANY replacement for `'` that is quote-neutral (read inside single quotes it
    leaves the lexer inside single quotes, having added exactly one literal `'`) makes the
    escaped text one word with value `s`. -/
theorem escape_one_word_generic (r : Bytes) (hr : QuoteNeutral r) (s : Bytes) :
    lex (shellEscapeWith r s) = { words := [lit s], special := false, unterminated := false } := by
  rw [shellEscapeWith_eq]; exact lex_escape_generic r hr s

/-- **C16, main clause.**  For all byte strings `s`: the shell reads `ShellEscape(s)` as exactly
    one word whose value is `s`, and nothing special happens. -/
theorem escape_one_word (s : Bytes) :
    lex (shellEscape s) = { words := [s.map Atom.byte], special := false, unterminated := false } :=
  escape_one_word_generic _ repl_neutral s

/-- ShellEscapeExceptTilde never panics (`s[2:]` is only evaluated under `HasPrefix(s, "~/")`). -/
theorem tilde_never_panics (s : Bytes) : ∃ t, shellEscapeExceptTilde s = .ok t := by
  unfold shellEscapeExceptTilde
  by_cases h : hasPrefix s Generated.tildePrefix = true
  · obtain ⟨r, rfl⟩ : Generated.tildePrefix <+: s := List.isPrefixOf_iff_prefix.mp h
    rw [tilde_slice_eq]
    exact ⟨_, exceptTilde_prefix _ _ _ r⟩
  · exact ⟨_, exceptTilde_other _ _ _ _ s (by simpa using h)⟩

/-- **C16, tilde clause (a).**  For `s = "~/" ++ r`: the result is `~/` followed by the escaped
    remainder, and the shell reads it as exactly one word: $HOME, `/`, then `r` literally. -/
theorem tilde_variant (r : Bytes) :
    ∃ t, shellEscapeExceptTilde ([126, 47] ++ r) = .ok t ∧
      t = [126, 47] ++ shellEscape r ∧
      lex t = { words := [[Atom.home, Atom.byte 47] ++ r.map Atom.byte],
                special := false, unterminated := false } := by
  refine ⟨[126, 47] ++ shellEscape r, ?_, rfl, ?_⟩
  · unfold shellEscapeExceptTilde
    rw [tilde_slice_eq, tilde_keep_eq, tilde_prefix_eq]
    exact exceptTilde_prefix shellEscape [126, 47] [126, 47] r
  · unfold shellEscape
    rw [shellEscapeWith_eq]
    exact lex_tilde_escape_generic _ repl_neutral r

/-- **C16, tilde clause (b).**  For `s` not starting with `~/` the two functions agree (so
    `escape_one_word` applies: in particular `~`, `~user/x`, ` ~/x` are NOT left to the shell). -/
theorem tilde_variant_other (s : Bytes) (h : ¬ ([126, 47] : Bytes) <+: s) :
    shellEscapeExceptTilde s = .ok (shellEscape s) := by
  unfold shellEscapeExceptTilde
  apply exceptTilde_other
  rw [tilde_prefix_eq]
  cases hp : hasPrefix s [126, 47]
  · rfl
  · exact absurd (List.isPrefixOf_iff_prefix.mp hp) h

/-! ### non-vacuity and sanity of the spec -/

/-- `it's` ↦ `'it'"'"'s'` -/
example : shellEscape [105, 116, 39, 115] = [39, 105, 116, 39, 34, 39, 34, 39, 115, 39] := by decide
example : lex (shellEscape [105, 116, 39, 115]) =
    { words := [lit [105, 116, 39, 115]], special := false, unterminated := false } := by decide
/-- `'; a $(x) *` — every dangerous character at once -/
example : lex (shellEscape [39, 59, 32, 97, 32, 36, 40, 120, 41, 32, 42]) =
    { words := [lit [39, 59, 32, 97, 32, 36, 40, 120, 41, 32, 42]], special := false,
      unterminated := false } := by decide
/-- the hypothesis of `escape_one_word_generic` is satisfiable (by the literal of the source and
    by the other classic spelling `'\''`) and refutable -/
example : QuoteNeutral [39, 34, 39, 34, 39] := quoteNeutral_of_check _ (by decide)
example : QuoteNeutral [39, 92, 39, 39] := quoteNeutral_of_check _ (by decide)
example : quoteNeutralCheck [39, 34, 39, 34] = false := by decide      -- `'"'"` : quotation left open
example : quoteNeutralCheck [92, 39] = false := by decide              -- `\'`  : no escapes inside '…'
/-- tilde clause: `~/a'b` ↦ `~/'a'"'"'b'` ↦ one word $HOME/a'b -/
example : shellEscapeExceptTilde [126, 47, 97, 39, 98] =
    .ok [126, 47, 39, 97, 39, 34, 39, 34, 39, 98, 39] := by rfl
example : lex [126, 47, 39, 97, 39, 34, 39, 34, 39, 98, 39] =
    { words := [[.home, .byte 47, .byte 97, .byte 39, .byte 98]], special := false,
      unterminated := false } := by decide
/-- the hypothesis of `tilde_variant_other` holds e.g. for `~` alone and for `~a/` -/
example : ¬ ([126, 47] : Bytes) <+: [126] := by decide
example : shellEscapeExceptTilde [126, 97, 47] = .ok (shellEscape [126, 97, 47]) :=
  tilde_variant_other _ (by decide)

/-! The spec is not trivially "never special": unescaped dangerous text IS flagged, split, or
    left unterminated by the lexer. -/
/-- `a;b` : two commands -/
example : lex [97, 59, 98] = { words := [lit [97], lit [98]], special := true, unterminated := false } := by
  decide
/-- `$(x)` : command substitution -/
example : (lex [36, 40, 120, 41]).special = true := by decide
/-- `a b` : two words -/
example : lex [97, 32, 98] = { words := [lit [97], lit [98]], special := false, unterminated := false } := by
  decide
/-- `it's` unescaped: unterminated quotation -/
example : (lex [105, 116, 39, 115]).unterminated = true := by decide
/-- `"$a"` : double quotes do not protect `$` -/
example : (lex [34, 36, 97, 34]).special = true := by decide
/-- `*`, `#x`, `~root`, backquote -/
example : (lex [42]).special = true ∧ (lex [35, 120]).special = true ∧
    (lex [126, 114, 111, 111, 116]).special = true ∧ (lex [96, 97, 96]).special = true := by decide
/-- a broken escaper (replacement `'"'"`, i.e. the final quote forgotten) is caught by the
    spec: `a'b c` would reach the command with the quotation left open -/
example : lex (shellEscapeWith [39, 34, 39, 34] [97, 39, 98, 32, 99]) ≠
    { words := [lit [97, 39, 98, 32, 99]], special := false, unterminated := false } := by decide
/-- and an escaper that does not touch `'` at all lets `';a;'` run the command `a` -/
example : lex (shellEscapeWith [39] [39, 59, 97, 59, 39]) =
    { words := [[], lit [97], []], special := true, unterminated := false } := by decide

end Glb.C16
