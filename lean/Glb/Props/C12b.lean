/-
  C12b — the atomicity granularity assumed by Glb.Props.C12 is a THEOREM over an explicit
  lock-level model (Glb.Model.FilterConc): threads execute Add/Remove/Contains statement by
  statement (the list→maps migration is split into set-mode / allocate / copy slot by slot /
  insert), the RWMutex is modelled by its contract, and the locks are placed where the extracted
  discipline (Glb.Tie.FilterLock) says they are.

  * `mutual_exclusion`              a writer inside its critical section excludes every other
                                    writer and every reader inside its read section;
  * `guarded_fields_stable`         the guarded fields change only by the lock holder's steps,
                                    never while a reader holds the lock;
  * `critical_sections_atomic`      every fine step is a stutter or exactly ONE step of the coarse
                                    model of Props/C12 (writer section = one `cstep`, taken at
                                    Lock; lookup = load + one `scan`, taken at RLock);
  * `fine_refines_coarse`           hence every reachable fine configuration is the image of a
                                    reachable coarse configuration;
  * `coarse_is_C12_model`           the coarse model is the model of Props/C12: the state is
                                    `crun` of the writer history, every finished lookup is
                                    `containsConc` at two points of that history;
  * `fine_lookup_sound/complete`, `fine_final_agreement`   C12's theorems for fine executions;
  * `no_rlock_counterexample`       without RLock a lookup sees a half-migrated filter and
                                    answers false for an address whose range is present throughout.
-/
import Glb.Proofs.FilterConc

namespace Glb.C12b
open Glb.Filter Glb.C11 Glb.FilterConc

/-- **mutual exclusion.**  In every reachable configuration a thread inside a writer critical
    section (between `Lock` and `Unlock`) excludes all other threads from writer critical sections
    and from read sections (between `RLock` and `RUnlock`). -/
theorem mutual_exclusion (ls : Nat) (progs : Tid → List Call) (c : Cfg)
    (hr : Reachable ls progs c) (t : Tid) (ht : (c.th t).pc.inW = true) :
    ∀ u, u ≠ t → (c.th u).pc.inW = false ∧ (c.th u).pc.inR = false := by
  have hinv := lockInv_reachable ls progs c hr
  have hw : c.writer = some t := (hinv.writer t).1 ht
  have hre : c.readers = [] := hinv.excl (by simp [hw])
  intro u hu
  constructor
  · cases h : (c.th u).pc.inW with
    | false => rfl
    | true => have := (hinv.writer u).1 h; rw [hw] at this; exact absurd (Option.some.inj this).symm hu
  · cases h : (c.th u).pc.inR with
    | false => rfl
    | true => have := (hinv.readers u).1 h; simp [hre] at this

/-- the lock state says exactly who is inside which section -/
theorem lock_state_exact (ls : Nat) (progs : Tid → List Call) (c : Cfg)
    (hr : Reachable ls progs c) (t : Tid) :
    ((c.th t).pc.inW = true ↔ c.writer = some t) ∧ ((c.th t).pc.inR = true ↔ t ∈ c.readers) :=
  let h := lockInv_reachable ls progs c hr
  ⟨h.writer t, h.readers t⟩

/-- **reader stability.**  A step changes a guarded field (`mode`, `index`/`ipList`, `ipMaps`) only
    if the stepping thread holds the writer lock, and then no reader is inside its read section:
    the guarded state is constant throughout every read section. -/
theorem guarded_fields_stable (ls : Nat) (progs : Tid → List Call) (c c' : Cfg) (t : Tid)
    (hr : Reachable ls progs c) (hs : step ls true c t = some c') :
    GuardedEq c.st c'.st ∨ (c.writer = some t ∧ ∀ u, (c.th u).pc.inR = false) := by
  have hinv := lockInv_reachable ls progs c hr
  rcases guardedEq_wstep_other ls c c' t hinv hs with h | ⟨hw, hre⟩
  · exact Or.inl h
  · refine Or.inr ⟨hw, fun u => ?_⟩
    cases h : (c.th u).pc.inR with
    | false => rfl
    | true => have := (hinv.readers u).1 h; simp [hre] at this

theorem read_section_stable (ls : Nat) (progs : Tid → List Call) (c c' : Cfg) (t u : Tid)
    (hr : Reachable ls progs c) (hs : step ls true c t = some c') (hu : (c.th u).pc.inR = true) :
    GuardedEq c.st c'.st := by
  rcases guarded_fields_stable ls progs c c' t hr hs with h | ⟨_, h⟩
  · exact h
  · rw [h u] at hu; cases hu

/-- **the refinement, step by step.**  Let `a` be a coarse configuration that the fine
    configuration `c` stands for (`Sim`: the coarse state is the fine state with the lock holder's
    critical section completed, a thread inside a critical/read section has already performed its
    coarse step).  Then every fine step is a stutter (`a' = a`) or exactly one coarse step of the
    same thread, and the relation is kept. -/
theorem critical_sections_atomic (ls : Nat) (progs : Tid → List Call) (c c' : Cfg) (t : Tid)
    (hr : Reachable ls progs c) (hs : step ls true c t = some c') (a : CCfg) (hsim : Sim ls c a) :
    ∃ a', (a' = a ∨ cstepT ls a t = some a') ∧ Sim ls c' a' :=
  sim_step ls c c' t (lockInv_reachable ls progs c hr) hs a hsim

/-- every fine-grained execution is an execution of the coarse model: each writer critical section
    is one `cstep`, each lookup one load and one `scan` -/
theorem fine_refines_coarse (ls : Nat) (progs : Tid → List Call) (c : Cfg)
    (hr : Reachable ls progs c) : ∃ a, CReachable ls progs a ∧ Sim ls c a :=
  sim_reachable ls progs c hr

/-- what `Sim` says outside the sections: with the lock free the coarse state IS the fine state,
    and a thread that is not inside a read section has exactly the coarse results -/
theorem sim_observations (ls : Nat) (c : Cfg) (a : CCfg) (hsim : Sim ls c a) :
    (c.writer = none → a.st = c.st) ∧
    (∀ t, (c.th t).pc.inR = false → (a.th t).results = (c.th t).results) ∧
    (∀ t, (c.th t).pc = .idle → (a.th t).rest = (c.th t).rest ∧ (a.th t).loaded = none) := by
  obtain ⟨h1, h2⟩ := hsim
  refine ⟨fun hw => by rw [h1, absSt_none ls c hw], fun t ht => ?_, fun t ht => ?_⟩
  · rw [h2 t]
    cases hpc : (c.th t).pc with
    | idle => rw [absTh_idle c t hpc]
    | w k key ones => rw [absTh_w c t k key ones hpc]
    | r k ip =>
      cases k with
      | rlock => rw [absTh_rlock c t ip hpc]
      | _ => simp [hpc, Pc.inR] at ht
  · rw [h2 t, absTh_idle c t ht]; exact ⟨rfl, rfl⟩

/-- **the coarse model is the model of Glb.Props.C12.**  Its state is `crun` of the sequence of
    writer steps so far; every finished lookup is a `C12.Lookup` on two prefixes of that sequence
    and returned `C12.containsConc` of the two states; each thread's writer steps appear in
    program order; the results of a thread are its records, in order. -/
theorem coarse_is_C12_model (ls : Nat) (progs : Tid → List Call) (hv : Validated progs) (a : CCfg)
    (ha : CReachable ls progs a) :
    a.st = crun ls a.hist.ops ∧
    (∀ r ∈ a.log, ∃ mid : Hist, r.whole = r.pre ++ mid ∧ r.whole <+: a.hist ∧
      Nonempty (C12.Lookup ls r.pre.ops mid.ops) ∧
      r.result = C12.containsConc (crun ls r.pre.ops) (crun ls (r.pre.ops ++ mid.ops)) r.ip) ∧
    (∀ t, projOps a.hist t ++ writeOps (a.th t).rest = writeOps (progs t)) ∧
    (∀ t, (a.log.filter (fun r => r.tid = t)).map (·.result) = (a.th t).results) := by
  have hi := cinv_reachable ls progs hv a ha
  refine ⟨hi.state, fun r hr => ?_, hi.proj, hi.results⟩
  obtain ⟨⟨mid, hmid⟩, hw, hres⟩ := hi.log r hr
  have hlen : ∀ op ∈ r.whole.ops, op.len ≤ 32 := by
    intro op hop
    obtain ⟨suf, hsuf⟩ := hw
    exact hi.len op (by rw [← hsuf]; simp only [Hist.ops, List.map_append, List.mem_append]; exact Or.inl hop)
  refine ⟨mid, hmid.symm, hw, ⟨⟨?_, ?_⟩⟩, ?_⟩
  · intro op hop; exact hlen op (by rw [← hmid]; simp only [Hist.ops, List.map_append, List.mem_append]; exact Or.inl hop)
  · intro op hop; exact hlen op (by rw [← hmid]; simp only [Hist.ops, List.map_append, List.mem_append]; exact Or.inr hop)
  · rw [hres, ← hmid]; simp [Hist.ops]

/-! ### C12's theorems for fine-grained executions -/

/-- `a` explains the fine configuration `c`: a reachable configuration of the C12 model that `c`
    stands for (exists for every reachable `c`: `fine_refines_coarse`) -/
def Explains (ls : Nat) (progs : Tid → List Call) (c : Cfg) (a : CCfg) : Prop :=
  CReachable ls progs a ∧ Sim ls c a

/-- the results a fine thread has returned are the results of its lookup records, in order
    (for a thread that is not in the middle of a read section) -/
theorem fine_results_logged (ls : Nat) (progs : Tid → List Call) (hv : Validated progs)
    (c : Cfg) (a : CCfg) (h : Explains ls progs c a) (t : Tid) (ht : (c.th t).pc.inR = false) :
    (c.th t).results = (a.log.filter (fun r => r.tid = t)).map (·.result) := by
  rw [(cinv_reachable ls progs hv a h.1).results t, (sim_observations ls c a h.2).2.1 t ht]

/-- **lookup soundness for fine-grained executions**: a `Contains(ip)` call that returned true had a
    range covering `ip` in the abstract prefix set at its load or at its scan (two moments between
    call and return; `r.pre`/`r.whole` are the writer operations that took effect before them) -/
theorem fine_lookup_sound (ls : Nat) (progs : Tid → List Call) (hv : Validated progs)
    (c : Cfg) (a : CCfg) (h : Explains ls progs c a) (r : Rec) (hr : r ∈ a.log)
    (hres : r.result = true) :
    (∃ e ∈ specRun r.pre.ops, C12.covers e r.ip) ∨ (∃ e ∈ specRun r.whole.ops, C12.covers e r.ip) := by
  obtain ⟨mid, hmid, _, ⟨hl⟩, hc⟩ := (coarse_is_C12_model ls progs hv a h.1).2.1 r hr
  have := C12.lookup_sound ls r.pre.ops mid.ops hl r.ip (by rw [← hc, hres])
  rw [hmid]; simpa [Hist.ops] using this

/-- **lookup completeness for fine-grained executions**: if one range covering `ip` is in the
    abstract prefix set both at the load and at the scan (in particular: during the whole call),
    the call returns true -/
theorem fine_lookup_complete (ls : Nat) (progs : Tid → List Call) (hv : Validated progs)
    (c : Cfg) (a : CCfg) (h : Explains ls progs c a) (r : Rec) (hr : r ∈ a.log)
    (e : Addr × Nat) (hc : C12.covers e r.ip) (h1 : e ∈ specRun r.pre.ops)
    (h2 : e ∈ specRun r.whole.ops) : r.result = true := by
  obtain ⟨mid, hmid, _, ⟨hl⟩, hres⟩ := (coarse_is_C12_model ls progs hv a h.1).2.1 r hr
  rw [hres]
  refine C12.lookup_complete ls r.pre.ops mid.ops hl r.ip e hc h1 ?_
  rw [hmid] at h2; simpa [Hist.ops] using h2

/-- **final agreement for fine-grained executions.**  All threads have finished; writers own
    disjoint key sets (`keyOwner`).  Then the filter answers every lookup as the prefix set of ANY
    schedule `ops2` that runs each thread's writer calls in program order — e.g. thread after
    thread — whatever the interleaving of the fine steps was. -/
theorem fine_final_agreement (ls : Nat) (progs : Tid → List Call) (hv : Validated progs)
    (c : Cfg) (hr : Reachable ls progs c)
    (hdone : ∀ t, (c.th t).pc = .idle ∧ (c.th t).rest = [])
    (keyOwner : Addr × Nat → Tid)
    (hown : ∀ t, ∀ o ∈ writeOps (progs t), keyOwner (C12.opKey o) = t)
    (ops2 : List COp)
    (hseq : ∀ t, ops2.filter (fun o => keyOwner (C12.opKey o) = t) = writeOps (progs t))
    (ip : Addr) :
    containsAddr c.st ip = true ↔ specMem (specRun ops2) ip := by
  obtain ⟨a, ha, hsim⟩ := fine_refines_coarse ls progs c hr
  have hi := cinv_reachable ls progs hv a ha
  have hinv := lockInv_reachable ls progs c hr
  have hwn : c.writer = none := by
    cases hw : c.writer with
    | none => rfl
    | some w => have := (hinv.writer w).2 hw; simp [(hdone w).1, Pc.inW] at this
  have hobs := sim_observations ls c a hsim
  have hproj : ∀ t, projOps a.hist t = writeOps (progs t) := by
    intro t
    have := hi.proj t
    rw [(hobs.2.2 t (hdone t).1).1, (hdone t).2] at this
    simpa [writeOps] using this
  have hmem : ∀ e ∈ a.hist, keyOwner (C12.opKey e.2) = e.1 := by
    intro e he
    exact hown e.1 e.2 (by rw [← hproj]; exact mem_projOps a.hist e he)
  rw [← hobs.1 hwn, hi.state]
  refine C12.final_agreement ls a.hist.ops ops2 hi.len ?_ ip
  refine C12.owned_keys_same_order (fun o => keyOwner (C12.opKey o)) keyOwner a.hist.ops ops2
    (fun _ _ => rfl) (fun _ _ => rfl) (fun w => ?_)
  rw [projOps_eq_filter_owner keyOwner a.hist hmem w, hproj, hseq]

/-! ### the reader lock is necessary: the mutant "Contains without RLock" -/

/-- list size 1; thread 0 adds 10.0.0.0/8 and then 192.168.0.0/16 (the second Add migrates the
    list to the maps); thread 1 looks up 10.1.2.3.  Nothing is ever removed. -/
def cexProgs : Tid → List Call := fun t =>
  if t = 0 then [.add 0x0a000000#32 8, .add 0xc0a80000#32 16]
  else if t = 1 then [.contains 0x0a010203#32] else []

/-- the first Add, completely (Lock, mode, index, store, Unlock) -/
def cexSched0 : List Tid := List.replicate 5 0
/-- the second Add up to the allocation of the empty maps (Lock, mode, index, set mode, allocate),
    then the whole lookup (load, [no RLock], mode, 32 map probes, loop exit, return) -/
def cexSched : List Tid := List.replicate 5 0 ++ List.replicate 37 1

def cexBefore (c : Cfg) : Bool :=
  (c.th 1).pc == .idle && (c.th 1).rest == [.contains 0x0a010203#32] && (c.th 1).results == [] &&
  (c.th 0).pc == .idle && c.writer == none && scan c.st 0x0a010203#32

def cexAfter (c : Cfg) : Bool :=
  (c.th 1).results == [false] && (c.th 1).rest == [] && (c.th 1).pc == .idle &&
  (c.th 0).pc == .w (.aCopy 0) 0xc0a80000#32 16 && c.writer == some 0 &&
  c.st == { matchAll := false, mapsMode := true, list := [(0x0a000000#32, 8)], maps := [] }

set_option maxRecDepth 100000 in
theorem cex_check :
    ((runSched 1 false (initCfg cexProgs) cexSched0).bind fun c0 =>
      (runSched 1 false c0 cexSched).map fun c2 => cexBefore c0 && cexAfter c2) = some true := by
  decide

/-- **without the reader lock the filter is wrong.**  In the model variant where `Contains` skips
    RLock/RUnlock there is an execution in which
    * before the lookup starts (`c0`) all threads are between calls and 10.0.0.0/8 is stored
      (a lookup of 10.1.2.3 at that moment answers true), and no program ever removes anything,
      so the range is in the abstract prefix set during the whole lookup;
    * the lookup runs while the writer is in the middle of the list→maps migration (mode already
      `maps`, maps allocated but still empty, writer at `aCopy 0` holding the lock) and
      returns FALSE (`c2`). -/
theorem no_rlock_counterexample :
    ∃ c0 c2, ReachableNoRLock 1 cexProgs c0 ∧ ReachableNoRLock 1 cexProgs c2 ∧
      runSched 1 false c0 cexSched = some c2 ∧
      ((c0.th 1).pc = .idle ∧ (c0.th 1).rest = [.contains 0x0a010203#32] ∧ (c0.th 1).results = [] ∧
        (c0.th 0).pc = .idle ∧ c0.writer = none ∧ scan c0.st 0x0a010203#32 = true) ∧
      (∀ t, ∀ call ∈ cexProgs t, ∀ a n, call ≠ .remove a n) ∧
      ((c2.th 1).results = [false] ∧ (c2.th 1).rest = [] ∧ (c2.th 1).pc = .idle ∧
        (c2.th 0).pc = .w (.aCopy 0) 0xc0a80000#32 16 ∧ c2.writer = some 0 ∧
        c2.st = { matchAll := false, mapsMode := true, list := [(0x0a000000#32, 8)], maps := [] }) := by
  have key := cex_check
  cases h0 : runSched 1 false (initCfg cexProgs) cexSched0 with
  | none => simp [h0] at key
  | some c0 =>
    cases h2 : runSched 1 false c0 cexSched with
    | none => simp [h0, h2] at key
    | some c2 =>
      simp only [h0, h2, Option.bind_some, Option.map_some, Option.some.injEq, Bool.and_eq_true] at key
      have r0 := runSched_reachableNoRLock 1 cexProgs cexSched0 _ c0 .init h0
      have r2 := runSched_reachableNoRLock 1 cexProgs cexSched c0 c2 r0 h2
      refine ⟨c0, c2, r0, r2, h2, ?_, ?_, ?_⟩
      · simpa [cexBefore, and_assoc] using key.1
      · intro t call hc a n
        unfold cexProgs at hc
        split at hc
        · simp at hc; rcases hc with rfl | rfl <;> simp
        · split at hc
          · simp at hc; subst hc; simp
          · simp at hc
      · simpa [cexAfter, and_assoc] using key.2

/-- with the reader lock the same schedule is impossible: the reader is blocked at RLock while the
    writer is inside the migration -/
theorem with_rlock_reader_blocked :
    ((runSched 1 true (initCfg cexProgs) (cexSched0 ++ List.replicate 5 0 ++ [1])).map fun c =>
      (step 1 true c 1).isSome) = some false := by
  decide

/-! ### non-vacuity -/

/-- list size 1; two writers owning disjoint keys (the second also toggles 0.0.0.0/0), two readers -/
def nvProgs : Tid → List Call := fun t =>
  if t = 0 then [.add 0x0a000000#32 8, .add 0xc0a80000#32 16, .remove 0x0a000000#32 8]
  else if t = 1 then [.add 0xac100000#32 12, .remove 0 0]
  else if t = 2 then [.contains 0x0a010203#32, .contains 0xac100001#32]
  else if t = 3 then [.contains 0x0a010203#32] else []

theorem nvProgs_validated : Validated nvProgs := by
  intro t c hc
  unfold nvProgs at hc
  (repeat' split at hc) <;> simp at hc <;> (try rcases hc with rfl | rfl | rfl) <;> (try subst hc) <;> simp
  all_goals (rcases hc with rfl | rfl) <;> simp

/-- a complete run: both readers overlap inside their read sections, the migration happens, all
    threads finish -/
def nvSched : List Tid :=
  [0, 0, 0, 0, 0, 2, 2, 3, 3, 3, 2, 2, 2, 3, 3, 1, 1, 1, 1, 1, 1, 1, 1, 1, 1, 0, 0, 0, 0, 0, 0, 0, 0,
   2, 2, 2, 2, 2, 2, 2, 2, 2, 2, 2, 2, 2, 2, 2, 2]

/-- `mutual_exclusion` is not vacuous: a writer is inside its critical section (in the middle of
    the migration) and a reader that has done its load is blocked at RLock -/
example : ∃ c, Reachable 1 nvProgs c ∧
    ((c.th 1).pc.inW && (c.th 2).pc == .r .rlock 0x0a010203#32 && (step 1 true c 2).isNone) = true :=
  exists_reachable_of_check 1 nvProgs ([0, 0, 0, 0, 0, 2, 1, 1, 1, 1, 1, 1]) _ (by decide)

/-- several readers may be inside their read sections at once (then no writer is) -/
example : ∃ c, Reachable 1 nvProgs c ∧
    ((c.th 2).pc.inR && (c.th 3).pc.inR && c.readers == [3, 2] && c.writer == none) = true :=
  exists_reachable_of_check 1 nvProgs ([0, 0, 0, 0, 0, 2, 2, 3, 3]) _ (by decide)

set_option maxRecDepth 100000 in
/-- the hypotheses of `fine_final_agreement` are satisfiable: a finished run … -/
theorem nv_finished : ∃ c, Reachable 1 nvProgs c ∧
    ((List.range 4).all (fun t => (c.th t).pc == .idle && (c.th t).rest == []) &&
      (c.th 2).results == [true, true] && (c.th 3).results == [true] && c.st.mapsMode) = true :=
  exists_reachable_of_check 1 nvProgs nvSched _ (by decide)

/-- … and an ownership map: thread 1 owns 172.16.0.0/12 and 0.0.0.0/0, thread 0 everything else -/
def nvOwner (k : Addr × Nat) : Nat := if k.2 = 12 ∨ k.2 = 0 then 1 else 0

theorem nvOwner_owns : ∀ t, ∀ o ∈ writeOps (nvProgs t), nvOwner (C12.opKey o) = t := by
  intro t o ho
  unfold nvProgs at ho
  (repeat' split at ho) <;> simp [writeOps, Call.op?] at ho
  · subst_vars; rcases ho with rfl | rfl | rfl <;> decide
  · subst_vars; rcases ho with rfl | rfl <;> decide

/-- `fine_final_agreement` instantiated: after the run above the filter answers as "thread 0's
    calls, then thread 1's calls" -/
example (ip : Addr) : ∃ c, Reachable 1 nvProgs c ∧
    (containsAddr c.st ip = true ↔
      specMem (specRun (writeOps (nvProgs 0) ++ writeOps (nvProgs 1))) ip) := by
  obtain ⟨c, hr, hc⟩ := nv_finished
  refine ⟨c, hr, fine_final_agreement 1 nvProgs nvProgs_validated c hr ?_ nvOwner nvOwner_owns _ ?_ ip⟩
  · intro t
    simp only [Bool.and_eq_true, beq_iff_eq] at hc
    have h4 := hc.1.1.1
    simp [List.range, List.range.loop] at h4
    by_cases h0 : t = 0
    · subst h0; exact h4.1
    by_cases h1 : t = 1
    · subst h1; exact h4.2.1
    by_cases h2 : t = 2
    · subst h2; exact h4.2.2.1
    by_cases h3 : t = 3
    · subst h3; exact h4.2.2.2
    have hp : nvProgs t = [] := by simp [nvProgs, h0, h1, h2, h3]
    exact idle_of_empty_prog 1 nvProgs c hr t hp
  · intro (t : Nat)
    by_cases h0 : t = 0
    · subst h0; decide
    by_cases h1 : t = 1
    · subst h1; decide
    have hw : writeOps (nvProgs t) = [] := by
      unfold nvProgs; simp only [h0, h1, if_false]; (repeat' split) <;> rfl
    rw [hw, List.filter_eq_nil_iff]
    intro o ho
    have h2 : nvOwner (C12.opKey o) ≤ 1 := by unfold nvOwner; split <;> simp
    simp only [decide_eq_true_eq]
    intro h3
    have h3' : nvOwner (C12.opKey o) = t := h3
    omega

/-- every reachable configuration has an explanation; here one whose lookup log is not empty -/
example : ∃ c a, Explains 1 nvProgs c a ∧ a.log ≠ [] := by
  obtain ⟨c, hr, hc⟩ := nv_finished
  obtain ⟨a, ha⟩ := fine_refines_coarse 1 nvProgs c hr
  refine ⟨c, a, ha, fun hlog => ?_⟩
  simp only [Bool.and_eq_true, beq_iff_eq] at hc
  have hidle : (c.th 3).pc = .idle := by
    have := hc.1.1.1; simp [List.range, List.range.loop] at this; exact this.2.2.2.1
  have := fine_results_logged 1 nvProgs nvProgs_validated c a ha 3 (by simp [hidle, Pc.inR])
  rw [hlog, hc.1.2] at this
  simp at this

end Glb.C12b
