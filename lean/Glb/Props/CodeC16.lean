/-
  Glb.Props.CodeC16 — the property theorems restated about the TRANSLATED code.

  `tools/extract/golean.go` rewrites Glb/Generated/Tr*.lean from the Go source on every run; the tie
  theorems (Glb/Tie/Tr*.lean) prove `translated function = hand model` for every input.  Here the two
  are composed: each theorem below speaks about a definition that was machine-translated from
  /repo as it is now, and states what the listed property says about that function.  Nothing here
  mentions a hand model in its statement except through the specification side (lexer, JSON grammar,
  route list, path normal form).

  What remains trusted for these statements: the translator's reading of Go (tools/extract/golean.go
  + Glb/Go/Prelude.lean), the library transcriptions in Glb/Go/Lib*.lean (strings.Replace/HasPrefix/
  IndexByte, utf8.DecodeRuneInString, path.Clean, filepath.Join — each compared with the real function
  by a correspondence stream), and the specifications.
-/
import Glb.Props.C16
import Glb.Tie.TrShell

namespace Glb.Code
open Glb

/-! ### C16 — ShellEscape / ShellEscapeExceptTilde as translated from util/strutil/strutil.go -/

/-- C16 for the translated `ShellEscape`: it never panics and a POSIX shell reads its result as
    exactly one word whose value is the input, with nothing special and nothing unterminated. -/
theorem C16_ShellEscape (s : Bytes) :
    ∃ w, Tr.Strutil.ShellEscape s = .ok w ∧
      PosixWords.lex w = { words := [s.map PosixWords.Atom.byte], special := false, unterminated := false } :=
  ⟨Strutil.shellEscape s, Tie.TrShell.ShellEscape_eq s, C16.escape_one_word s⟩

/-- C16 for the translated `ShellEscapeExceptTilde` on `~/rest`: one word, `~` left to the shell. -/
theorem C16_ShellEscapeExceptTilde_home (r : Bytes) :
    ∃ t, Tr.Strutil.ShellEscapeExceptTilde ([126, 47] ++ r) = .ok t ∧
      PosixWords.lex t = { words := [[PosixWords.Atom.home, PosixWords.Atom.byte 47] ++ r.map PosixWords.Atom.byte],
                           special := false, unterminated := false } := by
  obtain ⟨t, h1, _, h3⟩ := C16.tilde_variant r
  exact ⟨t, by rw [Tie.TrShell.ShellEscapeExceptTilde_eq]; exact h1, h3⟩

/-- the translated `ShellEscapeExceptTilde` never panics -/
theorem C16_ShellEscapeExceptTilde_total (s : Bytes) : ∃ t, Tr.Strutil.ShellEscapeExceptTilde s = .ok t := by
  rw [Tie.TrShell.ShellEscapeExceptTilde_eq]; exact C16.tilde_never_panics s

end Glb.Code
