/-
  C13 — Text handler lines parse back unambiguously; values cannot forge fields or lines.

  Only the property theorems and their non-vacuity examples live here; helper lemmas are in
  Glb/Proofs/TextHandler.lean, the model in Glb/Model/TextHandler.lean, the specification (an
  executable tokenizer and the expected key/value list) in Glb/Spec/TextTokens.lean and
  Glb/Spec/TextExpected.lean.

  Parameters (standard library, modelled not verified): `unicode.IsSpace`, `unicode.IsPrint`,
  `strconv.Quote` (`Std`) and `strconv.Unquote`.  The only assumptions are the explicit hypotheses
  `QuoteContract quote unquote` and "text the stdlib renders for numbers / durations / times is a
  bare token"; nothing is assumed about messages, keys, group names or string values.
  `Glb/Props/C13b.lean` discharges the first hypothesis for the transcription of the real
  `strconv.Quote` / `strconv.Unquote` (`text_roundtrip_go`, `one_line_go`).
-/
import Glb.Proofs.TextHandler

namespace Glb.C13
open Glb Glb.TextTokens Glb.TextHandler Glb.TextExpected Glb.TextProofs

/-! ## the strconv contract is satisfiable -/

/-- Non-vacuity of the contract: quoting every byte as `\xNN` (which `strconv.Unquote` also accepts)
    satisfies it. -/
theorem xQuote_contract : QuoteContract xQuote xUnquote where
  shape s := ⟨xBody s, rfl, xBody_interior s⟩
  roundtrip s := by simp [xQuote, xUnquote, xDecode_xBody]
  empty := by decide

/-! ## sufficiency of the quoting rule -/

/-- **bare_is_safe.**  Whenever `appendTextString` writes a string as it stands, the string is
    non-empty and lies in exactly the class of bare tokens of the specification tokenizer: only
    bare runes — no ASCII byte ≤ 0x20, no '=', no '"', no ill-formed UTF-8, no `IsSpace` rune, no rune
    that is not `IsPrint`.  For ALL byte strings. -/
theorem bare_is_safe (P : Std) (unquote : Bytes → Option Bytes) (s : Bytes)
    (h : quotes P s = false) : bareTok (lexOf P unquote) s := by
  simp only [quotes, Bool.or_eq_false_iff, beq_eq_false_iff_ne, ne_eq] at h
  refine ⟨?_, needsQuote_false_allBare P unquote s 0 h.2⟩
  intro h0; subst h0; simp at h

/-- `quotes` is the decision `appendTextString` takes -/
theorem appendTextString_cases (P : Std) (buf s : Bytes) :
    appendTextString P buf s =
      if quotes P s then (if s = [] then buf ++ [0x22, 0x22] else buf ++ P.quote s) else buf ++ s := by
  unfold appendTextString quotes
  cases s with
  | nil => simp
  | cons b s => simp

/-- byte-level reading of `bare_is_safe`, independent of the Unicode parameters: a string written
    bare contains no control byte, space, '=' or '"' at all (continuation bytes included). -/
theorem bare_no_separator (P : Std) (s : Bytes) (h : quotes P s = false) :
    s ≠ [] ∧ ∀ b ∈ s, 0x20 < b ∧ b ≠ 0x3d ∧ b ≠ 0x22 := by
  have hb := bare_is_safe P (fun _ => none) s h
  exact ⟨hb.1, allBare_bytes _ s 0 (by simp) hb.2⟩

/-- the rune-level content of the bare class, spelled out: at every rune boundary of a string written
    bare the decoder yields a well-formed rune that is not `IsSpace` and is `IsPrint` (or a bare ASCII
    byte).  `bareRuneLen … = some n` unfolds to exactly that. -/
theorem bare_runes (P : Std) (unquote : Bytes → Option Bytes) (b : UInt8) (rest : Bytes)
    (h : allBare (lexOf P unquote) 0 (b :: rest) = true) :
    (b < 0x80 ∧ bareAscii b = true) ∨
    (¬ b < 0x80 ∧ 2 ≤ (Utf8.decodeRune (b :: rest)).2 ∧ P.isSpace (Utf8.decodeRune (b :: rest)).1 = false
      ∧ P.isPrint (Utf8.decodeRune (b :: rest)).1 = true) := by
  simp only [allBare, bareRuneLen] at h
  by_cases hb : b < 0x80
  · left
    by_cases ha : bareAscii b = true
    · exact ⟨hb, ha⟩
    · simp [hb, ha] at h
  · right
    simp only [hb, if_false] at h
    split at h
    · simp at h
    · rename_i n hn
      split at hn
      · simp at hn
      · rename_i h2
        split at hn
        · simp at hn
        · rename_i h3
          simp only [lexOf, Bool.or_eq_true, not_or, Bool.not_eq_true', Bool.not_eq_true] at h3
          exact ⟨hb, by omega, h3.1, by simpa using h3.2⟩

/-! ## the round trip -/

/-- **text_roundtrip.**  For every derivation chain (any list of `WithAttrs` / `WithGroup`), every
    record, source on or off and each of the five levels, `Handle` does not panic and the line it
    writes is split by the specification tokenizer into exactly

        time, level, (source)?, msg, then every attribute leaf with its dotted path and value text,

    in order and nothing else — so no message, key, group name or value can add a token or a line
    break.  Hypotheses: the strconv contract, and that the text the standard library renders for the
    time and for numeric / bool / duration / time values is a bare token.  Messages, keys, group
    names, string values, marshalled text, error text are arbitrary byte strings. -/
theorem text_roundtrip (P : Std) (unquote : Bytes → Option Bytes) (hq : QuoteContract P.quote unquote)
    (addSource : Bool) (chain : List Op) (r : Record)
    (hl : validLevel r.level)
    (ht : bareTok (lexOf P unquote) r.time)
    (hraw : ∀ e ∈ flat chain r, leafOK (lexOf P unquote) e.2) :
    ∃ line, handle P addSource (derive P chain) r = .ok line ∧
      tokenize (lexOf P unquote) line = some (expected addSource chain r) := by
  let L := lexOf P unquote
  obtain ⟨kt, kl, ks, km⟩ := keys_bare L
  let c0 : RCell := ⟨timeKey, timeKey, r.time, r.time⟩
  let cl : RCell := ⟨levelKey, levelKey, levelName r.level, levelName r.level⟩
  let csrc : RCell := ⟨sourceKey, sourceKey, appendTextString P [] (sourceText r), sourceText r⟩
  let cm : RCell := ⟨msgKey, msgKey, appendTextString P [] r.msg, r.msg⟩
  let cs : List RCell := [cl] ++ (if addSource then [csrc] else []) ++ [cm] ++ (flat chain r).map (itemCell P)
  refine ⟨renderLine c0 cs, ?_, ?_⟩
  · rw [handle_render P addSource chain r hl, flatMap_itemBytes]
    cases addSource <;>
      simp [renderLine, cs, c0, cl, cm, csrc, RCell.bytes, RCell.sp]
  · have hc0 : c0.good L := ⟨cell_bare L kt, cell_bare L ht⟩
    have hcs : ∀ x ∈ cs, x.good L := by
      intro x hx
      simp only [cs, List.mem_append, List.mem_cons, List.mem_map, List.not_mem_nil, or_false] at hx
      rcases hx with ((rfl | hx) | rfl) | ⟨e, he, rfl⟩
      · exact ⟨cell_bare L kl, cell_bare L (levelName_bare L _)⟩
      · cases addSource
        · simp at hx
        · simp only [if_true, List.mem_cons, List.not_mem_nil, or_false] at hx
          subst hx
          exact ⟨cell_bare L ks, cell_appendTextString P unquote hq _⟩
      · exact ⟨cell_bare L km, cell_appendTextString P unquote hq _⟩
      · exact ⟨cell_appendTextString P unquote hq _, cell_value P unquote hq _ (hraw e he)⟩
    rw [tokenize_renderLine L c0 cs hc0 hcs]
    cases addSource <;> simp [expected, cs, c0, cl, cm, csrc, itemCell]

/-- every line the specification tokenizer accepts is one line: it ends in '\n' and contains no
    other '\n' (sanity of the specification; makes `one_line` a corollary of the round trip) -/
theorem tokenize_one_line (L : Lex) (s : Bytes) (kvs : List (Bytes × Bytes))
    (h : tokenize L s = some kvs) : ∃ body, s = body ++ [0x0a] ∧ (0x0a : UInt8) ∉ body :=
  pairs_one_line L _ s kvs h

/-- **one_line.**  Under the hypotheses of `text_roundtrip` the output is exactly one line. -/
theorem one_line (P : Std) (unquote : Bytes → Option Bytes) (hq : QuoteContract P.quote unquote)
    (addSource : Bool) (chain : List Op) (r : Record)
    (hl : validLevel r.level)
    (ht : bareTok (lexOf P unquote) r.time)
    (hraw : ∀ e ∈ flat chain r, leafOK (lexOf P unquote) e.2) :
    ∃ body, handle P addSource (derive P chain) r = .ok (body ++ [0x0a]) ∧ (0x0a : UInt8) ∉ body := by
  obtain ⟨line, h1, h2⟩ := text_roundtrip P unquote hq addSource chain r hl ht hraw
  obtain ⟨body, hb, hn⟩ := tokenize_one_line _ line _ h2
  exact ⟨body, by rw [h1, hb], hn⟩

/-! ## reading of the dotted path -/

/-- when the first component is non-empty (e.g. every path under a `Logger.WithGroup`, which never
    passes an empty name), the dotted path is the plain '.'-join of the components -/
theorem dotted_eq_join (c : Bytes) (cs : List Bytes) (hc : c ≠ []) :
    dotted (c :: cs) = c ++ (cs.map fun x => 0x2e :: x).flatten := by
  simp only [dotted, List.foldl_cons]
  have : dot [] c = c := by simp [dot]
  rw [this]
  exact foldl_dot cs c hc

theorem dotted_single (k : Bytes) : dotted [k] = k := by simp [dotted, dot]

/-! ## reading of the source token -/

/-- the `source` token really is the caller's `dir/file.go:line`: a path `…/a/b` with slash-free `a`, `b`
    (any directory part, also empty) is trimmed to its last two components `a/b` -/
theorem trimSource_last_two (dir a b : Bytes) (ha : (0x2f : UInt8) ∉ a) (hb : (0x2f : UInt8) ∉ b) :
    trimSource (dir ++ 0x2f :: (a ++ 0x2f :: b)) = a ++ 0x2f :: b := by
  cases dir with
  | nil =>
    simp only [List.nil_append, trimSource, List.reverse_append, List.reverse_cons, List.append_assoc,
      List.cons_append, List.nil_append]
    rw [sourceScan_noslash b _ _ _ hb]
    simp only [sourceScan, beq_self_eq_true, if_true, Bool.false_eq_true, if_false, List.append_nil]
    have := sourceScan_noslash a [] (0x2f :: b) true ha
    simp only [List.append_nil] at this
    rw [this]; simp [sourceScan]
  | cons d ds =>
    simp only [List.cons_append, trimSource, List.reverse_append, List.reverse_cons, List.append_assoc,
      List.nil_append]
    rw [sourceScan_noslash b _ _ _ hb]
    simp only [sourceScan, beq_self_eq_true, if_true, Bool.false_eq_true, if_false, List.append_nil]
    rw [sourceScan_noslash a _ _ _ ha]
    simp [sourceScan]
/-! ## non-vacuity -/

/-- a concrete standard library: NBSP, NEL, LINE SEPARATOR are spaces, U+FEFF is not printable,
    quoting writes every byte as `\xNN` -/
def P0 : Std :=
  { isSpace := fun r => r == 0xA0 || r == 0x85 || r == 0x2028
    isPrint := fun r => !(r == 0xFEFF || r == 0x85 || r == 0x2028)
    quote := xQuote }

/-- `WithGroup("g").With(Group("", <empty>), "k", 1).WithGroup("h")` -/
def chain0 : List Op :=
  [.withGroup [0x67],
   .withAttrs [.group [] [], .leaf [0x6b] (.raw .int64 [0x31])],
   .withGroup [0x68]]

/-- message `\xff"\n =`; attributes: group "x" { "" = "a b", inline group { "y=z" = error "e\n" } },
    an empty group "e", a key that is U+00A0, a duration `1.5µs`, a panicking marshaler -/
def rec0 : Record :=
  { time := [0x32, 0x30, 0x32, 0x33, 0x2d, 0x30, 0x38, 0x2d, 0x31, 0x36, 0x54, 0x30, 0x30, 0x3a, 0x33,
             0x35, 0x3a, 0x31, 0x35, 0x2b, 0x30, 0x38, 0x3a, 0x30, 0x30]
    level := 4
    file := [0x2f, 0x61, 0x2f, 0x62, 0x2f, 0x63, 0x2e, 0x67, 0x6f]
    line := [0x37]
    msg := [0xff, 0x22, 0x0a, 0x20, 0x3d]
    attrs :=
      [.group [0x78] [.leaf [] (.str [0x61, 0x20, 0x62]),
                      .group [] [.leaf [0x79, 0x3d, 0x7a] (.via .error [0x65, 0x0a])]],
       .group [0x65] [],
       .leaf [0xc2, 0xa0] (.raw .duration [0x31, 0x2e, 0x35, 0xc2, 0xb5, 0x73]),
       .leaf [0x70] (.panicVal [0x62, 0x6f, 0x6f, 0x6d]),
       .leaf [0x5c, 0x7f] (.str [])] }

/-- the hypotheses of `text_roundtrip` / `one_line` are satisfiable together (hostile message and keys,
    empty and inline groups, two `WithGroup`s, source on) -/
example : ∃ line, handle P0 true (derive P0 chain0) rec0 = .ok line ∧
    tokenize (lexOf P0 xUnquote) line = some (expected true chain0 rec0) :=
  text_roundtrip P0 xUnquote xQuote_contract true chain0 rec0 (by decide) (by decide) (by decide)

/-- … and this is what the line decodes to: `g.k=1`, `g.h.x.=a b`, `g.h.x.y=z=e\n`, … -/
example : expected true chain0 rec0 =
    [(timeKey, rec0.time), (levelKey, [0x49, 0x4e, 0x46, 0x4f]),
     (sourceKey, [0x62, 0x2f, 0x63, 0x2e, 0x67, 0x6f, 0x3a, 0x37]),
     (msgKey, [0xff, 0x22, 0x0a, 0x20, 0x3d]),
     ([0x67, 0x2e, 0x6b], [0x31]),
     ([0x67, 0x2e, 0x68, 0x2e, 0x78, 0x2e], [0x61, 0x20, 0x62]),
     ([0x67, 0x2e, 0x68, 0x2e, 0x78, 0x2e, 0x79, 0x3d, 0x7a], [0x65, 0x0a]),
     ([0x67, 0x2e, 0x68, 0x2e, 0xc2, 0xa0], [0x31, 0x2e, 0x35, 0xc2, 0xb5, 0x73]),
     ([0x67, 0x2e, 0x68, 0x2e, 0x70], [0x21, 0x50, 0x41, 0x4e, 0x49, 0x43, 0x3a, 0x20, 0x62, 0x6f, 0x6f, 0x6d]),
     ([0x67, 0x2e, 0x68, 0x2e, 0x5c, 0x7f], [])] := by decide

/-- `bare_is_safe` has instances: `a\b<DEL>é` is written bare … -/
example : quotes P0 [0x61, 0x5c, 0x62, 0x7f, 0xc3, 0xa9] = false := by decide
/-- … while each of: empty, space, '=', '"', a control byte, NBSP, U+FEFF, a genuine U+FFFD, a lone
    continuation byte, a truncated sequence is quoted -/
example : ([[], [0x20], [0x3d], [0x22], [0x1f], [0xc2, 0xa0], [0xef, 0xbb, 0xbf], [0xef, 0xbf, 0xbd],
    [0x80], [0x61, 0xe2, 0x82]].map (quotes P0)).all id = true := by decide

/-- the specification tokenizer discriminates: an unquoted space or '=' in a value would be seen -/
example : tokenize (lexOf P0 xUnquote) [0x6b, 0x3d, 0x61, 0x20, 0x62, 0x0a] = none := by decide
example : tokenize (lexOf P0 xUnquote) [0x6b, 0x3d, 0x61, 0x3d, 0x62, 0x0a] = none := by decide
example : tokenize (lexOf P0 xUnquote) [0x6b, 0x3d, 0x61, 0x20, 0x62, 0x3d, 0x63, 0x0a]
    = some [([0x6b], [0x61]), ([0x62], [0x63])] := by decide
example : tokenize (lexOf P0 xUnquote) [0x6b, 0x3d, 0x61, 0x0a, 0x6b, 0x3d, 0x61, 0x0a] = none := by decide

end Glb.C13
