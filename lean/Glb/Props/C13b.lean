/-
  C13b — the strconv contract of C13 is a theorem about hand models of the real functions.

  C13 (`Glb/Props/C13.lean`) proves the Text-handler round trip for ANY pair `quote` / `unquote` that
  satisfies `QuoteContract`.  Here the pair is instantiated with `goQuote isPrint` / `goUnquote`, the
  function-by-function models of Go's `strconv.AppendQuote` / `strconv.Unquote`
  (`Glb/Model/StrconvQuote.lean`, compared with the real functions by the harness stream `quote`), and
  the contract is PROVED for them, for all byte strings.  What remains assumed about the standard
  library in `text_roundtrip_go` is only the parameter pair `unicode.IsSpace` / `unicode.IsPrint`
  (nothing at all is assumed about the two functions the handler asks) and, for the `IsPrint` that
  `strconv.Quote` consults, `PrintOK`: control characters below U+0020 are not printable.

  Only property theorems and non-vacuity examples live here; lemmas are in Glb/Proofs/StrconvQuote.lean.
-/
import Glb.Props.C13
import Glb.Proofs.StrconvQuote

namespace Glb.C13b
open Glb Glb.Quote Glb.TextTokens Glb.TextHandler Glb.TextExpected Glb.TextProofs

/-! ## the assumption about IsPrint is satisfiable -/

/-- "ASCII printable only" satisfies the assumption -/
theorem asciiPrint_ok : PrintOK asciiPrint where
  ctrl r h := by simp [asciiPrint]; omega

/-- Go's explicit Latin-1 rule satisfies it whatever the tables say beyond U+00FF -/
theorem latin1Print_ok (hi : Nat → Bool) : PrintOK (latin1Print hi) where
  ctrl r h := by
    have h1 : r ≤ 0xFF := by omega
    have h2 : ¬ (0x20 ≤ r) := by omega
    have h3 : ¬ (0xA1 ≤ r) := by omega
    simp [latin1Print, h1, h2, h3]

/-! ## the contract, clause by clause -/

/-- **go_roundtrip.**  `strconv.Unquote(strconv.Quote(s)) = s` for ALL byte strings `s` (invalid UTF-8,
    control bytes, quotes, backslashes, surrogate patterns, … included) and every `IsPrint` that calls no
    control character printable. -/
theorem go_roundtrip {isPrint : Nat → Bool} (hP : PrintOK isPrint) (s : Bytes) :
    goUnquote (goQuote isPrint s) = some s := by
  rw [goUnquote_eq_slow]
  simp [goQuote, slowUnquote, quote_unquote_loop hP s 0 []]

/-- **go_shape.**  `strconv.Quote(s)` is `"` + interior + `"`, and the interior contains no byte below
    0x20 (in particular no newline), no `"` that is not taken by a preceding backslash, and does not end
    in a dangling backslash. -/
theorem go_shape {isPrint : Nat → Bool} (hP : PrintOK isPrint) (s : Bytes) :
    ∃ body, goQuote isPrint s = 0x22 :: body ++ [0x22] ∧ interiorOK false body = true :=
  ⟨quoteLoop isPrint 0 s, rfl, quoteLoop_interior hP s 0⟩

/-- `strconv.Unquote("\"\"") = ""` -/
theorem go_empty : goUnquote [0x22, 0x22] = some [] := by decide

/-- **go_contract.**  The hypothesis bundle of C13 holds for the models of the real functions. -/
theorem go_contract {isPrint : Nat → Bool} (hP : PrintOK isPrint) :
    QuoteContract (goQuote isPrint) goUnquote where
  shape := go_shape hP
  roundtrip := go_roundtrip hP
  empty := go_empty

/-- `AppendQuote(dst, s)` leaves `dst` alone and appends `Quote(s)` -/
theorem appendQuote_eq (isPrint : Nat → Bool) (dst s : Bytes) :
    appendQuote isPrint dst s = dst ++ goQuote isPrint s := rfl

/-- the shortcut inside `Unquote` (interior without backslash / newline that is valid UTF-8 is returned as
    it stands) never changes the answer: on every input `Unquote` is the escape loop -/
theorem unquote_shortcut_sound (s : Bytes) : goUnquote s = slowUnquote s := goUnquote_eq_slow s

/-- the output of `Quote` is on one line and nothing before the final byte closes it: the specification
    tokenizer's scanner stops exactly at the closing quote (whatever follows) -/
theorem go_quote_scans {isPrint : Nat → Bool} (hP : PrintOK isPrint) (s rest : Bytes) :
    ∃ body, goQuote isPrint s = 0x22 :: body ++ [0x22] ∧
      scanQuoted false (body ++ 0x22 :: rest) = some (body, rest) := by
  obtain ⟨body, h1, h2⟩ := go_shape hP s
  exact ⟨body, h1, scanQuoted_interior rest body false h2⟩

/-! ## the UTF-8 codec models are inverse to each other -/

/-- a well-formed multi-byte sequence at the head of the input, decoded and encoded again, is that
    sequence; the rune is a scalar value ≥ U+0080 -/
theorem utf8_encode_decode (b : UInt8) (rest : Bytes) (h : 2 ≤ (Utf8.decodeRune (b :: rest)).2) :
    Utf8.encodeRune (Utf8.decodeRune (b :: rest)).1 = (b :: rest).take (Utf8.decodeRune (b :: rest)).2 ∧
    0x80 ≤ (Utf8.decodeRune (b :: rest)).1 ∧ validRune (Utf8.decodeRune (b :: rest)).1 = true :=
  let M := decode_multi b rest h
  ⟨M.enc, M.ge, M.valid⟩

/-- every scalar value (not a surrogate, ≤ U+10FFFF), encoded, decodes to itself with the length of its
    encoding, whatever follows -/
theorem utf8_decode_encode (r : Nat) (hv : validRune r = true) (X : Bytes) :
    Utf8.decodeRune (Utf8.encodeRune r ++ X) = (r, (Utf8.encodeRune r).length) :=
  decode_encode r hv X

/-! ## C13 with the real quoter -/

/-- the standard library as the handler model sees it, with the modelled `strconv.Quote` -/
def goStd (isSpace isPrint qPrint : Nat → Bool) : Std :=
  { isSpace := isSpace, isPrint := isPrint, quote := goQuote qPrint }

/-- **text_roundtrip_go.**  `C13.text_roundtrip` with `strconv.Quote` / `strconv.Unquote` replaced by their
    models: for every `unicode.IsSpace`, `unicode.IsPrint` (arbitrary functions), every `IsPrint` used by
    `strconv.Quote` satisfying `PrintOK`, every derivation chain, record, source on/off and valid level,
    `Handle` does not panic and the specification tokenizer — which now decodes quoted tokens with the
    model of `strconv.Unquote` — splits the line into exactly time, level, (source,) msg and every
    attribute leaf with its dotted path and value text.  The strconv contract is no longer a hypothesis. -/
theorem text_roundtrip_go (isSpace isPrint qPrint : Nat → Bool) (hP : PrintOK qPrint)
    (addSource : Bool) (chain : List Op) (r : Record)
    (hl : validLevel r.level)
    (ht : bareTok (lexOf (goStd isSpace isPrint qPrint) goUnquote) r.time)
    (hraw : ∀ e ∈ flat chain r, leafOK (lexOf (goStd isSpace isPrint qPrint) goUnquote) e.2) :
    ∃ line, handle (goStd isSpace isPrint qPrint) addSource (derive (goStd isSpace isPrint qPrint) chain) r = .ok line ∧
      tokenize (lexOf (goStd isSpace isPrint qPrint) goUnquote) line = some (expected addSource chain r) :=
  C13.text_roundtrip (goStd isSpace isPrint qPrint) goUnquote (go_contract hP) addSource chain r hl ht hraw

/-- **one_line_go.**  … and the output is exactly one line. -/
theorem one_line_go (isSpace isPrint qPrint : Nat → Bool) (hP : PrintOK qPrint)
    (addSource : Bool) (chain : List Op) (r : Record)
    (hl : validLevel r.level)
    (ht : bareTok (lexOf (goStd isSpace isPrint qPrint) goUnquote) r.time)
    (hraw : ∀ e ∈ flat chain r, leafOK (lexOf (goStd isSpace isPrint qPrint) goUnquote) e.2) :
    ∃ body, handle (goStd isSpace isPrint qPrint) addSource (derive (goStd isSpace isPrint qPrint) chain) r
        = .ok (body ++ [0x0a]) ∧ (0x0a : UInt8) ∉ body :=
  C13.one_line (goStd isSpace isPrint qPrint) goUnquote (go_contract hP) addSource chain r hl ht hraw

/-- the case of one `IsPrint` for the handler and for `strconv.Quote` (the harness checks on every rune
    that `unicode.IsPrint` and `strconv.IsPrint` agree) -/
theorem text_roundtrip_go_same (isSpace isPrint : Nat → Bool) (hP : PrintOK isPrint)
    (addSource : Bool) (chain : List Op) (r : Record)
    (hl : validLevel r.level)
    (ht : bareTok (lexOf (goStd isSpace isPrint isPrint) goUnquote) r.time)
    (hraw : ∀ e ∈ flat chain r, leafOK (lexOf (goStd isSpace isPrint isPrint) goUnquote) e.2) :
    ∃ line, handle (goStd isSpace isPrint isPrint) addSource (derive (goStd isSpace isPrint isPrint) chain) r = .ok line ∧
      tokenize (lexOf (goStd isSpace isPrint isPrint) goUnquote) line = some (expected addSource chain r) :=
  text_roundtrip_go isSpace isPrint isPrint hP addSource chain r hl ht hraw

/-! ## non-vacuity and what the models compute -/

/-- NBSP, NEL, LINE SEPARATOR are spaces; Go's Latin-1 rule, and beyond it everything except U+FEFF,
    U+2028 is printable -/
def isSpace0 (r : Nat) : Bool := r == 0xA0 || r == 0x85 || r == 0x2028
def isPrint0 : Nat → Bool := latin1Print fun r => !(r == 0xFEFF || r == 0x2028)

example : PrintOK isPrint0 := latin1Print_ok _

/-- the hypotheses of `text_roundtrip_go` are satisfiable together, on C13's hostile record (message
    `\xff"\n =`, empty / inline groups, a key that is U+00A0, a panicking marshaler, source on) -/
example : ∃ line, handle (goStd isSpace0 isPrint0 isPrint0) true (derive (goStd isSpace0 isPrint0 isPrint0) C13.chain0) C13.rec0 = .ok line ∧
    tokenize (lexOf (goStd isSpace0 isPrint0 isPrint0) goUnquote) line = some (expected true C13.chain0 C13.rec0) :=
  text_roundtrip_go isSpace0 isPrint0 isPrint0 (latin1Print_ok _) true C13.chain0 C13.rec0 (by decide) (by decide) (by decide)

/-- `Quote("\xff\"\n =é \U0001F600")` = `"\xff\"\n =é 😀"` (é and the emoji verbatim) -/
example : goQuote isPrint0 [0xff, 0x22, 0x0a, 0x20, 0x3d, 0xc3, 0xa9, 0xe2, 0x80, 0xa8, 0xf0, 0x9f, 0x98, 0x80] =
    [0x22, 0x5c, 0x78, 0x66, 0x66, 0x5c, 0x22, 0x5c, 0x6e, 0x20, 0x3d, 0xc3, 0xa9,
     0x5c, 0x75, 0x32, 0x30, 0x32, 0x38, 0xf0, 0x9f, 0x98, 0x80, 0x22] := by decide

/-- with "ASCII printable only" the same string is written with `é` and `\U0001f600` -/
example : goQuote asciiPrint [0xc3, 0xa9, 0xf0, 0x9f, 0x98, 0x80] =
    [0x22, 0x5c, 0x75, 0x30, 0x30, 0x65, 0x39, 0x5c, 0x55, 0x30, 0x30, 0x30, 0x31, 0x66, 0x36, 0x30, 0x30, 0x22] := by
  decide

/-- `Unquote` rejects `"\'"`, `"\400"`, `"\xZZ"`, a raw newline, a raw quote, `\ud800`, a missing closing
    quote and trailing text; it accepts `"\'"`-free escapes of every kind; a raw invalid byte becomes U+FFFD -/
example : ([[0x22, 0x5c, 0x27, 0x22], [0x22, 0x5c, 0x34, 0x30, 0x30, 0x22], [0x22, 0x5c, 0x78, 0x5a, 0x5a, 0x22],
    [0x22, 0x0a, 0x22], [0x22, 0x22, 0x22], [0x22, 0x5c, 0x75, 0x64, 0x38, 0x30, 0x30, 0x22], [0x22, 0x61],
    [0x22, 0x61, 0x22, 0x62], [0x22], []].map goUnquote).all Option.isNone = true := by decide
example : goUnquote [0x22, 0x5c, 0x78, 0x34, 0x31, 0x5c, 0x75, 0x30, 0x30, 0x45, 0x39, 0x5c, 0x31, 0x30, 0x31, 0x5c, 0x74, 0x22]
    = some [0x41, 0xc3, 0xa9, 0x41, 0x09] := by decide
example : goUnquote [0x22, 0xff, 0x22] = some [0xef, 0xbf, 0xbd] := by decide
example : goUnquote [0x22, 0x5c, 0x78, 0x66, 0x66, 0x22] = some [0xff] := by decide

end Glb.C13b
