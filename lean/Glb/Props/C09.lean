/-
  C09 — Config sources obey priority: command line > environment > JSON > default.

  Model: Glb/Model/Config.lean (`newFlagSet`, `parse` interpreting the extracted step order,
         `parseTag`, `underscore`), Glb/Model/ArgParse.lean (`argParse`, C10).
  Only property theorems live here; helper lemmas are in Glb/Proofs/Config.lean.

  All theorems are for EVERY struct description (kinds, nesting, tags as arbitrary bytes), every
  argument vector, every environment `env : Bytes → Option Bytes` and every `World`, i.e. every
  behaviour of the standard-library functions the code calls (per-type text parsers, ToLower,
  file reading, base64, json.Unmarshal as an overlay of field writes).  Nothing is assumed of the
  world: the theorems have no hypotheses about it.
-/
import Glb.Proofs.Config
import Glb.Props.C10

namespace Glb.C09
open Glb.Config Glb.ArgParse

/-! ## texts and tags -/

/-- "an empty textual value means the type's zero value" — for every kind -/
theorem empty_text_is_zero (W : World) (k : Kind) : setText W k [] = some (zeroOf W k) := by
  cases k <;> simp [setText, zeroOf]

/-- a string flag takes any text verbatim; for the other kinds a non-empty text is exactly what the
    type's parser makes of it -/
theorem text_reading (W : World) (k : Kind) (t : Bytes) :
    setText W .string t = some t ∧ (k ≠ .string → t ≠ [] → setText W k t = W.parseText k t) := by
  refine ⟨rfl, ?_⟩
  intro hk ht
  cases k <;> simp_all [setText]

/-- `parseStructFieldTag` never indexes out of range, whatever the tag bytes -/
theorem parseTag_never_panics (lower : Bytes → Bytes) (goName tag : Bytes) :
    ∃ r, parseTag lower goName tag = .ok r :=
  ⟨_, parseTag_eq lower goName tag⟩

/-- Both tag syntaxes yield (name, default, usage) as documented:
    `name,default,usage` and `|name|default|usage`, where the name and the default do not contain
    the separator (and, for the comma syntax, the tag does not start with '|'); further separators
    belong to the usage text; an empty name means the lower-cased field name; shorter tags leave
    the missing parts empty. -/
theorem tag_syntaxes (lower : Bytes → Bytes) (goName name dflt usage : Bytes) :
    let nm := if name = [] then lower goName else name
    (comma ∉ name → comma ∉ dflt → name.head? ≠ some bar →
      parseTag lower goName (name ++ comma :: (dflt ++ comma :: usage)) = .ok (nm, dflt, usage)) ∧
    (bar ∉ name → bar ∉ dflt →
      parseTag lower goName (bar :: (name ++ bar :: (dflt ++ bar :: usage))) = .ok (nm, dflt, usage)) ∧
    (comma ∉ name → comma ∉ dflt → name.head? ≠ some bar →
      parseTag lower goName (name ++ comma :: dflt) = .ok (nm, dflt, [])) ∧
    (bar ∉ name → bar ∉ dflt →
      parseTag lower goName (bar :: (name ++ bar :: dflt)) = .ok (nm, dflt, [])) ∧
    (comma ∉ name → name.head? ≠ some bar → parseTag lower goName name = .ok (nm, [], [])) ∧
    (bar ∉ name → parseTag lower goName (bar :: name) = .ok (nm, [], [])) := by
  intro nm
  have hcb : comma ≠ bar := by decide
  have hhead : ∀ (tl : Bytes), name.head? ≠ some bar → (name ++ comma :: tl).head? ≠ some bar := by
    intro tl h
    cases name with
    | nil => simp [hcb]
    | cons c t => simpa using h
  refine ⟨?_, ?_, ?_, ?_, ?_, ?_⟩
  · intro h1 h2 h3
    rw [parseTag_eq]
    simp only [hhead _ h3, if_false, splitTag_three name dflt usage comma h1 h2]
    rfl
  · intro h1 h2
    rw [parseTag_eq]
    simp only [List.head?_cons, if_true, List.drop_succ_cons, List.drop_zero,
      splitTag_three name dflt usage bar h1 h2]
    rfl
  · intro h1 h2 h3
    rw [parseTag_eq]
    simp only [hhead _ h3, if_false, splitTag_two name dflt comma h1 h2]
    rfl
  · intro h1 h2
    rw [parseTag_eq]
    simp only [List.head?_cons, if_true, List.drop_succ_cons, List.drop_zero,
      splitTag_two name dflt bar h1 h2]
    rfl
  · intro h1 h3
    rw [parseTag_eq]
    simp only [h3, if_false, splitTag_one name comma h1]
    rfl
  · intro h1
    rw [parseTag_eq]
    simp only [List.head?_cons, if_true, List.drop_succ_cons, List.drop_zero, splitTag_one name bar h1]
    rfl

/-! ## environment keys -/

/-- `Underscore` (the loop with its `last` state and its `len(buf) > 0` tests) equals the
    three-byte-window specification `snake`: separators vanish, letters are re-cased, digits kept,
    and `_` is written — once something has been written — in front of a byte that follows a
    separator, of an upper-case letter that follows a lower-case one (`aB → a_B`) and of an
    upper-case letter that is followed by a lower-case one (`ABc → A_Bc`). -/
theorem env_key (s : Bytes) (upper : Bool) : underscore s upper = snake upper none false s :=
  underscoreGo_eq_snake upper s none false (fun _ => rfl)

/-- an environment key consists of `A–Z`, `0–9` and `_` only -/
theorem env_key_charset (s : Bytes) :
    ∀ b ∈ underscore s true, isUpper b = true ∨ isDigit b = true ∨ b = underscoreByte := by
  rw [env_key]; exact snake_upper_charset s none false

/-- every key of a struct flag is `CFG` followed by the snake form of group path + field name as
    it continues after the separator `_` of the prefix -/
theorem env_key_prefix (rest : Bytes) :
    underscore (Generated.envKeyPrefix ++ rest) true =
      [0x43, 0x46, 0x47] ++ underscoreGo true .notAlphanum true rest := by
  simp [underscore, Generated.envKeyPrefix, underscoreGo, isLower, isUpper, isDigit]

/-! ## NewFlagSet -/

/-- What `NewFlagSet` builds: the two built-ins followed by one flag per leaf of the struct, in
    depth-first order; each flag has the name / default / usage of its tag, the key
    `Underscore("CFG_" + group + fieldName, upper)`, and its field holds the parsed default. -/
theorem flagset_shape (W : World) (fields : List Field) (flags : List Flag)
    (h : newFlagSet W fields = .ok flags) :
    ∃ extra, flags = builtins W ++ extra ∧ AllPairs (LeafFlag W) (flattenFields [] fields) extra := by
  obtain ⟨extra, h1, h2, _⟩ := addLeaves_ok W _ _ _ h
  exact ⟨extra, h1, h2⟩

/-- the names `NewFlagSet` accepts are pairwise different, never start with '-' and never contain
    '=' (the guard C10's `name_guard` relies on) -/
theorem flag_names_guarded (W : World) (fields : List Field) (flags : List Flag)
    (h : newFlagSet W fields = .ok flags) :
    (flags.map (·.name)).Nodup ∧ ∀ f ∈ flags, f.name.head? ≠ some dash ∧ equals ∉ f.name := by
  obtain ⟨extra, h1, h2, h3⟩ := addLeaves_ok W _ _ _ h
  refine ⟨h3 (by simp [builtins]; decide), ?_⟩
  intro f hf
  subst h1
  rcases List.mem_append.1 hf with hb | he
  · simp [builtins] at hb
    rcases hb with rfl | rfl
    · exact ⟨by show helpName.head? ≠ some dash; decide, by show equals ∉ helpName; decide⟩
    · exact ⟨by show configName.head? ≠ some dash; decide, by show equals ∉ configName; decide⟩
  · obtain ⟨i, hi⟩ := List.getElem?_of_mem he
    have hlen := h2.length_eq
    have hi' : i < (flattenFields [] fields).length := by
      have := (List.getElem?_eq_some_iff.1 hi).1; omega
    obtain ⟨n, d, u, v, _, g1, g2, _, rfl⟩ := h2.get i _ f (List.getElem?_eq_getElem hi') hi
    exact ⟨g1, g2⟩

/-! ## the priority theorem -/

/-- PRIORITY.  If `Parse` succeeds then the command line was grammatical (C10), the JSON carrier —
    the file named by `-config` on the command line, else `CFG_CONFIG_B64`, else nothing — was
    readable, and EVERY flag `f` (position `i`) ends up holding

        the command-line text, if the flag has one,   read by the type's parser ("" = zero value)
        else the text of its environment variable      read the same way
        else the value JSON wrote into the field
        else what the field held before, i.e. the parsed tag default (`flagset_shape`).

    A source that is silent about a field plays no role for it. -/
theorem priority (W : World) (fields : List Field) (flags : List Flag) (argv : List Bytes)
    (env : Bytes → Option Bytes) (out : PSt)
    (hfs : newFlagSet W fields = .ok flags) (h : parse W flags argv env = .ok out) :
    ∃ as ov,
      argParse (lookupFlag flags) argv = .ok (.ok ⟨as, out.args⟩) ∧
      carrierOverlay W env (cliPath as) = some ov ∧
      ∀ i f, flags[i]? = some f →
        ∃ g, out.flags[i]? = some g ∧ g.name = f.name ∧
          expected W f.kind (effective as f.name) (envOf env f) (jsonValue ov i) f.val = some g.val := by
  obtain ⟨extra, rfl, hall⟩ := flagset_shape W fields flags hfs
  have hnone : ∀ f ∈ extra, f.envValue = none := by
    intro f hf
    obtain ⟨i, hi⟩ := List.getElem?_of_mem hf
    have hlen := hall.length_eq
    have hi' : i < (flattenFields [] fields).length := by
      have := (List.getElem?_eq_some_iff.1 hi).1; omega
    obtain ⟨n, d, u, v, _, _, _, _, rfl⟩ := hall.get i _ f (List.getElem?_eq_getElem hi') hi
    rfl
  revert h
  rw [parse_eq]
  cases ha : argParse (lookupFlag (builtins W ++ extra)) argv with
  | error p => simp
  | ok r =>
    cases r with
    | err e s => simp
    | ok st =>
      simp only []
      cases hc : carrierOverlay W env (cliPath st.assigns) with
      | none => simp
      | some ov =>
        simp only []
        cases hl : flagLoop W [.arg, .env] st.assigns _ with
        | error e => simp
        | ok outFlags =>
          simp only [Except.ok.injEq]
          intro h; subst h
          obtain ⟨hv, hn⟩ := flagLoop_overlay W st.assigns ov _ 0 outFlags hl
          refine ⟨st.assigns, ov, by cases st; rfl, hc, ?_⟩
          -- the two built-ins read the environment nowhere and JSON never reaches them
          have hexp : expectAll W st.assigns ov 0
              ({ name := helpName, env := [], kind := .bool, val := W.zero .bool } ::
               { name := configName, env := [], kind := .string, val := cliPath st.assigns } ::
               envParse env extra) =
              expectAllWith W st.assigns ov (envOf env) 0 (builtins W ++ extra) := by
            simp only [expectAll, expectAllWith, builtins, List.cons_append, List.nil_append,
              expectAll_envParse W st.assigns ov env extra hnone, envOf, if_true]
            congr 2
            simp only [expected, cliPath, jsonValue]
            cases effective st.assigns configName <;> simp
          rw [hexp] at hv
          have hn' : outFlags.map (fun f => (f.name, f.env, f.kind)) =
              (builtins W ++ extra).map (fun f => (f.name, f.env, f.kind)) := by
            rw [hn]; simp [builtins, envParse_names]
          intro i f hf
          have h1 := congrArg (fun l => l[i]?) hv
          have h2 := congrArg (fun l => l[i]?) hn'
          simp only [List.getElem?_map, expectAllWith_getElem?, hf, Option.map_some, Nat.zero_add] at h1 h2
          cases hg : outFlags[i]? with
          | none => simp [hg] at h1
          | some g =>
            simp only [hg, Option.map_some, Option.some.injEq, Prod.mk.injEq] at h1 h2
            exact ⟨g, rfl, h2.1, h1.symm⟩

/-! ## when Parse fails -/

/-- SUCCESS, EXACTLY.  `Parse` succeeds iff (1) the argument vector is grammatical, (2) the JSON
    carrier, if there is one, is readable and valid, and (3) for every flag the EFFECTIVE text —
    the command-line text if there is one, else the environment text — is readable for its type.
    In particular an unreadable environment value that is shadowed by a command-line value is not
    an error, and neither is an unreadable JSON-shadowed default (defaults were read by
    `NewFlagSet`). -/
theorem parse_ok_iff (W : World) (fields : List Field) (flags : List Flag) (argv : List Bytes)
    (env : Bytes → Option Bytes) (hfs : newFlagSet W fields = .ok flags) :
    (∃ out, parse W flags argv env = .ok out) ↔
      ∃ as rest, argParse (lookupFlag flags) argv = .ok (.ok ⟨as, rest⟩) ∧
        carrierOverlay W env (cliPath as) ≠ none ∧
        ∀ f ∈ flags, ∀ t, effectiveText (effective as f.name) (envOf env f) = some t →
          setText W f.kind t ≠ none := by
  obtain ⟨extra, rfl, hall⟩ := flagset_shape W fields flags hfs
  have hnone := extra_envValue_none W fields extra hall
  rw [parse_eq]
  cases ha : argParse (lookupFlag (builtins W ++ extra)) argv with
  | error p => simp
  | ok r =>
    cases r with
    | err e s => simp
    | ok st =>
      obtain ⟨as, rest⟩ := st
      simp only [Except.ok.injEq, Result.ok.injEq, St.mk.injEq]
      cases hc : carrierOverlay W env (cliPath as) with
      | none =>
        simp only [reduceCtorEq, exists_false, false_iff, not_exists, not_and]
        rintro as' rest' ⟨rfl, rfl⟩ hne
        exact absurd hc hne
      | some ov =>
        have hloop := flagLoop_ok_iff W as (applyOverlayFrom ov 0
          ({ name := helpName, env := [], kind := .bool, val := W.zero .bool } ::
           { name := configName, env := [], kind := .string, val := cliPath as } :: envParse env extra))
        rw [loop_condition W extra env as ov (cliPath as) hnone] at hloop
        constructor
        · rintro ⟨out, ho⟩
          refine ⟨as, rest, ⟨rfl, rfl⟩, by simp [hc], hloop.1 ?_⟩
          cases hl : flagLoop W [.arg, .env] as _ with
          | error e => simp [hl] at ho
          | ok o => exact ⟨o, rfl⟩
        · rintro ⟨as', rest', ⟨rfl, rfl⟩, _, hcond⟩
          obtain ⟨o, ho⟩ := hloop.2 hcond
          exact ⟨{ flags := o, args := rest, assigns := as }, by simp [ho]⟩

/-- `Parse` never panics and never meets a step the extractor could not interpret. -/
theorem parse_never_panics (W : World) (fields : List Field) (flags : List Flag) (argv : List Bytes)
    (env : Bytes → Option Bytes) (hfs : newFlagSet W fields = .ok flags) :
    (∀ p, parse W flags argv env ≠ .error (.panic p)) ∧ parse W flags argv env ≠ .error .unknownStep := by
  obtain ⟨extra, rfl, hall⟩ := flagset_shape W fields flags hfs
  obtain ⟨r, hr⟩ := C10.never_panics (lookupFlag (builtins W ++ extra)) argv
  rw [parse_eq, hr]
  cases r with
  | err e s => simp
  | ok st =>
    simp only []
    cases carrierOverlay W env (cliPath st.assigns) with
    | none => simp
    | some ov =>
      simp only []
      cases hl : flagLoop W [.arg, .env] st.assigns _ with
      | ok o => simp
      | error e =>
        obtain ⟨f, _, rfl, _⟩ := flagLoop_error W _ _ e hl
        simp

/-- The error classes.  `arg e`: exactly the grammar errors of C10.  `carrier`: the vector was
    grammatical and the JSON carrier is unreadable or invalid.  `badValue n`: the vector was
    grammatical, the carrier fine, and flag `n`'s effective text is unreadable. -/
theorem parse_error_classes (W : World) (fields : List Field) (flags : List Flag) (argv : List Bytes)
    (env : Bytes → Option Bytes) (hfs : newFlagSet W fields = .ok flags) :
    (∀ e, parse W flags argv env = .error (.arg e) ↔ ∃ s, argParse (lookupFlag flags) argv = .ok (.err e s)) ∧
    (parse W flags argv env = .error .carrier ↔
      ∃ as rest, argParse (lookupFlag flags) argv = .ok (.ok ⟨as, rest⟩) ∧
        carrierOverlay W env (cliPath as) = none) ∧
    (∀ n, parse W flags argv env = .error (.badValue n) →
      ∃ as rest, argParse (lookupFlag flags) argv = .ok (.ok ⟨as, rest⟩) ∧
        carrierOverlay W env (cliPath as) ≠ none ∧
        ∃ f ∈ flags, f.name = n ∧ ∃ t, effectiveText (effective as f.name) (envOf env f) = some t ∧
          setText W f.kind t = none) := by
  obtain ⟨extra, rfl, hall⟩ := flagset_shape W fields flags hfs
  have hnone := extra_envValue_none W fields extra hall
  rw [parse_eq]
  cases ha : argParse (lookupFlag (builtins W ++ extra)) argv with
  | error p => simp
  | ok r =>
    cases r with
    | err e s => simp
    | ok st =>
      obtain ⟨as, rest⟩ := st
      simp only [Except.ok.injEq, Result.ok.injEq, St.mk.injEq, reduceCtorEq, exists_false, iff_false]
      cases hc : carrierOverlay W env (cliPath as) with
      | none =>
        refine ⟨by simp, ?_, by simp⟩
        simp only [true_iff]
        exact ⟨as, rest, ⟨rfl, rfl⟩, hc⟩
      | some ov =>
        simp only []
        cases hl : flagLoop W [.arg, .env] as _ with
        | ok o =>
          refine ⟨by simp, ?_, by simp⟩
          simp only [reduceCtorEq, false_iff, not_exists, not_and]
          rintro as' rest' ⟨rfl, rfl⟩ hcn
          simp [hc] at hcn
        | error e =>
          obtain ⟨f, hf, rfl, t, ht, hs⟩ := flagLoop_error W _ _ e hl
          refine ⟨by simp, ?_, ?_⟩
          · simp only [Except.error.injEq, reduceCtorEq, false_iff, not_exists, not_and]
            rintro as' rest' ⟨rfl, rfl⟩ hcn
            simp [hc] at hcn
          · intro n hn
            simp only [Except.error.injEq, ParseErr.badValue.injEq] at hn
            refine ⟨as, rest, ⟨rfl, rfl⟩, by simp [hc], ?_⟩
            -- transport the failing flag back to the original list
            have hm : (applyOverlayFrom ov 0
                ({ name := helpName, env := [], kind := .bool, val := W.zero .bool } ::
                 { name := configName, env := [], kind := .string, val := cliPath as } :: envParse env extra)).map
                (fun f => (f.name, f.kind, f.envValue)) =
              (builtins W ++ extra).map (fun f => (f.name, f.kind, envOf env f)) := by
              rw [texts_overlay]
              simp [builtins, envParse_texts env extra hnone, envOf]
            obtain ⟨i, hi⟩ := List.getElem?_of_mem hf
            have h1 := congrArg (fun l => l[i]?) hm
            simp only [List.getElem?_map, hi, Option.map_some] at h1
            cases hg : (builtins W ++ extra)[i]? with
            | none => simp [hg] at h1
            | some g =>
              simp only [hg, Option.map_some, Option.some.injEq, Prod.mk.injEq] at h1
              refine ⟨g, List.mem_of_getElem? hg, by rw [← h1.1]; exact hn, t, ?_, ?_⟩
              · rw [← h1.1, ← h1.2.2]; exact ht
              · rw [← h1.2.1]; exact hs

/-- An environment value — readable or not — of a flag that has a command-line value plays no
    role: changing the environment only in variables all of whose flags are set on the command
    line (and not in CFG_CONFIG_B64) cannot turn success into failure. -/
theorem shadowed_env_is_not_an_error (W : World) (fields : List Field) (flags : List Flag)
    (argv : List Bytes) (env env' : Bytes → Option Bytes) (as : List (Bytes × Bytes)) (rest : List Bytes)
    (hfs : newFlagSet W fields = .ok flags)
    (hargs : argParse (lookupFlag flags) argv = .ok (.ok ⟨as, rest⟩))
    (hsame : ∀ k, env' k ≠ env k →
      k ≠ Generated.b64ConfigEnv ∧ ∀ f ∈ flags, f.env = k → effective as f.name ≠ none)
    (hok : ∃ out, parse W flags argv env = .ok out) :
    ∃ out', parse W flags argv env' = .ok out' := by
  rw [parse_ok_iff W fields flags argv env hfs] at hok
  rw [parse_ok_iff W fields flags argv env' hfs]
  obtain ⟨as', rest', ha, hc, hcond⟩ := hok
  rw [hargs] at ha
  simp only [Except.ok.injEq, Result.ok.injEq, St.mk.injEq] at ha
  obtain ⟨rfl, rfl⟩ := ha
  refine ⟨as, rest, hargs, ?_, ?_⟩
  · have hb : env' Generated.b64ConfigEnv = env Generated.b64ConfigEnv := by
      apply Classical.byContradiction
      intro hne
      exact (hsame _ hne).1 rfl
    simpa [carrierOverlay, hb] using hc
  · intro f hf t ht
    apply hcond f hf t
    cases hcli : effective as f.name with
    | some c => simpa [effectiveText, hcli] using ht
    | none =>
      have henv : envOf env' f = envOf env f := by
        unfold envOf
        by_cases he : f.env = []
        · simp [he]
        · simp only [he, if_false]
          apply Classical.byContradiction
          intro hne
          exact (hsame _ hne).2 f hf rfl hcli
      simpa [effectiveText, hcli, henv] using ht

/-! ## non-vacuity -/

section examples

/-- a tiny world: ints are `"1"` ↦ `"one"` and nothing else; no files; JSON `"j"` writes field 2 -/
def demoW : World where
  parseText := fun k t => if k = .int ∧ t = [0x31] then some [0x6f, 0x6e, 0x65] else none
  zero := fun _ => [0x30]
  lower := fun b => b.map (fun c => if isUpper c then c + 0x20 else c)
  readFile := fun _ => none
  b64Decode := fun t => if t = [0x6a] then some [0x6a] else none
  unmarshal := fun d => if d = [0x6a] then some [(2, [0x6a, 0x76])] else none

/-- `struct { Port int \`flag:"p,1,the port"\` }` -/
def demoFields : List Field := [.leaf [0x50, 0x6f, 0x72, 0x74] .int [0x70, 0x2c, 0x31, 0x2c, 0x74]]

def demoFlags : List Flag :=
  builtins demoW ++ [{ name := [0x70], env := [0x43, 0x46, 0x47, 0x5f, 0x50, 0x4f, 0x52, 0x54], kind := .int,
                       usage := [0x74], val := [0x6f, 0x6e, 0x65] }]

example : newFlagSet demoW demoFields = .ok demoFlags := by decide

def envPort (v : Bytes) : Bytes → Option Bytes := fun k =>
  if k = [0x43, 0x46, 0x47, 0x5f, 0x50, 0x4f, 0x52, 0x54] then some v else none
def envB64 : Bytes → Option Bytes := fun k => if k = Generated.b64ConfigEnv then some [0x6a] else none

def valOf (r : Except ParseErr PSt) : Except ParseErr (Option Val) := r.map fun s => (s.flags[2]?).map (·.val)

-- default only
example : valOf (parse demoW demoFlags [] (fun _ => none)) = .ok (some [0x6f, 0x6e, 0x65]) := by decide
-- JSON over default
example : valOf (parse demoW demoFlags [] envB64) = .ok (some [0x6a, 0x76]) := by decide
-- an unreadable environment value is an error …
example : valOf (parse demoW demoFlags [] (envPort [0x78])) = .error (.badValue [0x70]) := by decide
-- … unless the command line shadows it (`-p=1`), and the empty text is the zero value (`-p=`)
example : valOf (parse demoW demoFlags [[0x2d, 0x70, 0x3d, 0x31]] (envPort [0x78])) = .ok (some [0x6f, 0x6e, 0x65]) := by decide
example : valOf (parse demoW demoFlags [[0x2d, 0x70, 0x3d]] (envPort [0x78])) = .ok (some [0x30]) := by decide
-- an unreadable carrier is an error; so is an ungrammatical vector
example : valOf (parse demoW demoFlags [[0x2d, 0x63, 0x6f, 0x6e, 0x66, 0x69, 0x67, 0x3d, 0x66]] (fun _ => none)) = .error .carrier := by decide
example : valOf (parse demoW demoFlags [[0x2d, 0x70]] (fun _ => none)) = .error (.arg (.needsArg [0x70])) := by decide

-- environment keys: "CFG_ListenAddr", "CFG_HTTPPort", "CFG_Sub_X1y", "CFG_ConfigB64"
example : underscore [0x43, 0x46, 0x47, 0x5f, 0x4c, 0x69, 0x73, 0x74, 0x65, 0x6e, 0x41, 0x64, 0x64, 0x72] true
    = [0x43, 0x46, 0x47, 0x5f, 0x4c, 0x49, 0x53, 0x54, 0x45, 0x4e, 0x5f, 0x41, 0x44, 0x44, 0x52] := by decide
example : underscore [0x43, 0x46, 0x47, 0x5f, 0x48, 0x54, 0x54, 0x50, 0x50, 0x6f, 0x72, 0x74] true
    = [0x43, 0x46, 0x47, 0x5f, 0x48, 0x54, 0x54, 0x50, 0x5f, 0x50, 0x4f, 0x52, 0x54] := by decide
example : underscore [0x43, 0x46, 0x47, 0x5f, 0x53, 0x75, 0x62, 0x5f, 0x58, 0x31, 0x79] true
    = [0x43, 0x46, 0x47, 0x5f, 0x53, 0x55, 0x42, 0x5f, 0x58, 0x31, 0x59] := by decide
/-- a field called `ConfigB64` shares its variable with the JSON carrier -/
example : underscore (Generated.envKeyPrefix ++ [0x43, 0x6f, 0x6e, 0x66, 0x69, 0x67, 0x42, 0x36, 0x34]) true
    = Generated.b64ConfigEnv := by decide

end examples

end Glb.C09
