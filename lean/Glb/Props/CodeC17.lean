/-
  Glb.Props.CodeC17 — the property theorems restated about the TRANSLATED code.

  `tools/extract/golean.go` rewrites Glb/Generated/Tr*.lean from the Go source on every run; the tie
  theorems (Glb/Tie/Tr*.lean) prove `translated function = hand model` for every input.  Here the two
  are composed: each theorem below speaks about a definition that was machine-translated from
  /repo as it is now, and states what the listed property says about that function.  Nothing here
  mentions a hand model in its statement except through the specification side (lexer, JSON grammar,
  route list, path normal form).

  What remains trusted for these statements: the translator's reading of Go (tools/extract/golean.go
  + Glb/Go/Prelude.lean), the library transcriptions in Glb/Go/Lib*.lean (strings.Replace/HasPrefix/
  IndexByte, utf8.DecodeRuneInString, path.Clean, filepath.Join — each compared with the real function
  by a correspondence stream), and the specifications.
-/
import Glb.Props.C17b
import Glb.Tie.TrResolve

namespace Glb.Code
open Glb

/-! ### C17 — ResolveUrlPath as translated from util/fsutil/path.go -/

/-- C17 for the translated `ResolveUrlPath`: it never panics and its result is the base itself or
    lies beneath it, for every non-empty base and every URL path. -/
theorem C17_ResolveUrlPath (base url : Bytes) (hb : base ≠ []) :
    ∃ p, Tr.Fsutil.ResolveUrlPath base url = .ok p ∧ PathNF.beneath base p :=
  ⟨_, Tie.TrResolve.ResolveUrlPath_eq base url, C17b.resolve_beneath_bytes base url hb⟩

end Glb.Code
