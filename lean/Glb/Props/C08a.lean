/-
  C08 (safety half) — TaskLane: at most `L` tasks are inside `Start()` at any time.
  (The progress half, `C08_no_head_of_line_blocking`, is in `Glb/Props/C08.lean`.)
-/
import Glb.Proofs.TaskLaneSafety
import Glb.Proofs.TaskLaneDemo

namespace Glb.TaskLane

variable (L Q : Nat)

/-- at most L tasks are between entry and exit of Start() -/
theorem C08_at_most_L_running (s : St) (h : Reachable (cfg L Q) s) :
    s.started.length ≤ s.finished.length + L := by
  have w := wfs_of_reachable h
  have h1 := w.basic.run
  have h2 := sumG_le L runB s.ws 1 (fun x => by unfold runB; split <;> omega)
  omega

/-! ### Non-vacuity: a reachable state of `cfg 2 1` with a task inside `Start()` (explicit `Step`s in
`Glb.Proofs.TaskLaneDemo`), and the same run after the task has returned. -/

open Demo

example : Reachable (cfg 2 1) d11 ∧ d11.started = [7] ∧ d11.finished = [] ∧ d11.running 1 :=
  ⟨reach11, by decide, by decide, by decide, by decide⟩

example : Reachable (cfg 2 1) d13 ∧ d13.started = [7] ∧ d13.finished = [7] ∧ ¬ d13.running 1 :=
  ⟨reach13, by decide, by decide, fun h => by have := h.1; revert this; decide⟩

end Glb.TaskLane
