/-
  Model of package `config` (/repo/config/{config,value,json}.go) and of `strutil.Underscore`
  (/repo/util/strutil/strutil.go) for C09.

  * `underscore`, `parseTag` follow the Go code byte for byte: they decide flag names and
    environment keys.  `parseTag` uses the panicking slice/index helpers.
  * a struct type is described by `Field` (leaf kinds, nesting); `newFlagSet` walks it in the
    code's order (depth first, group prefix `Outer_Inner_`), applies the name guards and
    `Set(default)`.
  * `parse` performs the steps of `(*FlagSet).Parse` in the order read from the source by
    tools/extract (`Generated.parseSteps`, `Generated.ParseStep.flagLoop` carries the order in
    which `ArgValue` / `EnvValue` are tested), so a reordering in the code changes the model.
  * everything the standard library does is a parameter (`World`): the per-type text parsers
    (strconv / time / base64), `strings.ToLower`, reading the configuration file, base64-decoding
    `CFG_CONFIG_B64`, and `json.Unmarshal` onto the struct (as an overlay: which fields it writes,
    with which values).  The single rule about text that IS modelled is the one in value.go:
    the empty text is the type's zero value, and a string flag takes its text verbatim.
-/
import Glb.Model.ArgParse
import Glb.Generated.Config

namespace Glb.Config
open Glb.ArgParse (dash equals ArgErr)

/-! ## strutil.Underscore -/

def underscoreByte : UInt8 := 0x5f
def isLower (c : UInt8) : Bool := 0x61 ≤ c && c ≤ 0x7a
def isUpper (c : UInt8) : Bool := 0x41 ≤ c && c ≤ 0x5a
def isDigit (c : UInt8) : Bool := 0x30 ≤ c && c ≤ 0x39

/-- the `last` variable of `Underscore` -/
inductive Last where
  | initial | upperLetter | lowerLetter | notAlphanum
  deriving Repr, DecidableEq

/-- the loop of `Underscore`: `last`, `len(buf) > 0`, and the not yet visited bytes
    (`s[i+1]` is the head of the tail); returns what is appended to `buf` from here on -/
def underscoreGo (upper : Bool) : Last → Bool → Bytes → Bytes
  | _, _, [] => []
  | last, nonEmpty, c :: rest =>
    if isLower c then
      let c' := if upper then c - 0x20 else c
      (if nonEmpty && last == .notAlphanum then [underscoreByte, c'] else [c'])
        ++ underscoreGo upper .lowerLetter true rest
    else if isUpper c then
      let c' := if upper then c else c + 0x20
      let nextLower := match rest with
        | d :: _ => isLower d
        | [] => false
      (if nonEmpty && (last == .lowerLetter || last == .notAlphanum) then [underscoreByte, c']
       else if nonEmpty && nextLower then [underscoreByte, c']          -- ABc => A_Bc
       else [c'])
        ++ underscoreGo upper .upperLetter true rest
    else if isDigit c then
      (if nonEmpty && last == .notAlphanum then [underscoreByte, c] else [c])
        ++ underscoreGo upper .initial true rest
    else underscoreGo upper .notAlphanum nonEmpty rest

def underscore (s : Bytes) (upper : Bool) : Bytes := underscoreGo upper .initial false s

/-! ## parseStructFieldTag -/

def comma : UInt8 := 0x2c
def bar : UInt8 := 0x7c

/-- `strings.IndexByte` -/
def indexByte : Bytes → UInt8 → Option Nat
  | [], _ => none
  | b :: s, c => if b = c then some 0 else (indexByte s c).map (· + 1)

/-- the separator search of `parseStructFieldTag` with its four slice expressions -/
def tagSplit (name : Bytes) (sep : UInt8) : Except GoPanic (Bytes × Bytes × Bytes) :=
  match indexByte name sep with                           -- if pos := strings.IndexByte(name, sep); pos >= 0
  | none => pure (name, [], [])
  | some pos => do
    let value ← slice? name (pos + 1) name.length         -- value = name[pos+1:]
    let name ← slice? name 0 pos                           -- name = name[:pos]
    match indexByte value sep with                         -- if pos = strings.IndexByte(value, sep); pos >= 0
    | none => pure (name, value, [])
    | some pos2 => do
      let usage ← slice? value (pos2 + 1) value.length     -- usage = value[pos+1:]
      let value ← slice? value 0 pos2                      -- value = value[:pos]
      pure (name, value, usage)

/-- `parseStructFieldTag`; `tag` is what `field.Tag.Get("flag")` returned, `goName` is `field.Name` -/
def parseTag (lower : Bytes → Bytes) (goName tag : Bytes) : Except GoPanic (Bytes × Bytes × Bytes) := do
  let name := tag
  -- if name != "" && name[0] == '|' { name = name[1:]; sep = '|' }
  let pipe ← if name.length ≠ 0 then (do let c ← idx? name 0; pure (decide (c = bar))) else pure false
  let name ← if pipe then slice? name 1 name.length else pure name
  let r ← tagSplit name (if pipe then bar else comma)
  -- if name == "" { name = strings.ToLower(field.Name) }
  pure (if r.1 = [] then lower goName else r.1, r.2.1, r.2.2)

/-! ## kinds, values, the world -/

inductive Kind where
  | bool | int | int64 | uint | uint64 | string | float64 | duration | bytes
  deriving Repr, DecidableEq

/-- a typed value, in the canonical rendering chosen by whoever instantiates `World`
    (for `Kind.string` it is the text itself) -/
abbrev Val := Bytes

structure World where
  /-- strconv.ParseBool / ParseInt / ParseUint / ParseFloat, time.ParseDuration,
      base64.StdEncoding.DecodeString on a NON-EMPTY text; `none` = error -/
  parseText : Kind → Bytes → Option Val
  /-- the Go zero value of the kind -/
  zero : Kind → Val
  /-- strings.ToLower -/
  lower : Bytes → Bytes
  /-- fsutil.ExpandHomeDir + os.ReadFile -/
  readFile : Bytes → Option Bytes
  /-- base64.StdEncoding.DecodeString of CFG_CONFIG_B64 -/
  b64Decode : Bytes → Option Bytes
  /-- json.Unmarshal(data, ptr): `none` = error, else the fields it writes (index in the flag list)
      and their new values, in the order written -/
  unmarshal : Bytes → Option (List (Nat × Val))

/-- `Value.Set` (value.go): `var res T; if s != "" { res, err = parse(s) }; *v = res` and, for
    `stringValue`, `*v = s` -/
def setText (W : World) : Kind → Bytes → Option Val
  | .string, t => some t
  | k, t => if t = [] then some (W.zero k) else W.parseText k t

def zeroOf (W : World) : Kind → Val
  | .string => []
  | k => W.zero k

/-! ## NewFlagSet -/

/-- description of a struct type: exported fields only -/
inductive Field where
  | leaf (goName : Bytes) (kind : Kind) (tag : Bytes)
  | group (goName : Bytes) (fields : List Field)
  deriving Repr

/-- a leaf together with the `group` argument of `parseStructFields` in force when it is reached -/
structure Leaf where
  group : Bytes
  goName : Bytes
  kind : Kind
  tag : Bytes
  deriving Repr, DecidableEq

mutual
/-- order in which `parseStructFields` reaches the leaves; `group + field.Name + "_"` -/
def flattenField (group : Bytes) : Field → List Leaf
  | .leaf n k t => [⟨group, n, k, t⟩]
  | .group n fs => flattenFields (group ++ n ++ [underscoreByte]) fs
def flattenFields (group : Bytes) : List Field → List Leaf
  | [] => []
  | f :: fs => flattenField group f ++ flattenFields group fs
end

/-- `config.Flag` + the value it points to -/
structure Flag where
  name : Bytes
  env : Bytes
  kind : Kind
  usage : Bytes := []
  /-- `*flg.Value`: the struct field (or the built-in value) -/
  val : Val
  /-- `flg.EnvValue` -/
  envValue : Option Bytes := none
  deriving Repr, DecidableEq

def helpName : Bytes := [0x68, 0x65, 0x6c, 0x70]
def configName : Bytes := [0x63, 0x6f, 0x6e, 0x66, 0x69, 0x67]

/-- the two built-in flags, in this order, with Go zero values and no environment key -/
def builtins (W : World) : List Flag :=
  [ { name := helpName, env := [], kind := .bool, val := W.zero .bool },
    { name := configName, env := [], kind := .string, val := [] } ]

inductive NewErr where
  | panic (p : GoPanic)
  | nameDash (name : Bytes)     -- "config: flag name begins with -: "
  | nameEq (name : Bytes)       -- "config: flag name contains =: "
  | redefined (name : Bytes)    -- "config: flag name redefined: "
  | badDefault (name : Bytes)   -- error of value.Set(defValue)
  deriving Repr, DecidableEq

/-- one iteration of the field loop of `parseStructFields` for a non-struct field -/
def addLeaf (W : World) (flags : List Flag) (lf : Leaf) : Except NewErr (List Flag) :=
  match parseTag W.lower lf.goName lf.tag with
  | .error p => .error (.panic p)
  | .ok (name, defValue, usage) =>
    if name.head? = some dash then .error (.nameDash name)            -- strings.HasPrefix(name, "-")
    else if equals ∈ name then .error (.nameEq name)                  -- strings.Contains(name, "=")
    else if flags.any (fun f => f.name = name) then .error (.redefined name)
    else match setText W lf.kind defValue with                        -- newFlagValue: value.Set(defValue)
      | none => .error (.badDefault name)
      | some v => .ok (flags ++ [{ name := name,
                                   env := underscore (Generated.envKeyPrefix ++ lf.group ++ lf.goName) true,
                                   kind := lf.kind, usage := usage, val := v }])

def addLeaves (W : World) (flags : List Flag) : List Leaf → Except NewErr (List Flag)
  | [] => .ok flags
  | lf :: rest => match addLeaf W flags lf with
    | .error e => .error e
    | .ok flags' => addLeaves W flags' rest

def newFlagSet (W : World) (fields : List Field) : Except NewErr (List Flag) :=
  addLeaves W (builtins W) (flattenFields [] fields)

/-! ## Parse -/

inductive ParseErr where
  | panic (p : GoPanic)
  | arg (e : ArgErr)            -- argParse
  | carrier                     -- parseConfigJson: file / base64 / JSON
  | badValue (name : Bytes)     -- Value.Set of a command-line or environment text
  | unknownStep                 -- the extractor met a statement it does not understand
  deriving Repr, DecidableEq

/-- the state `Parse` works on -/
structure PSt where
  flags : List Flag
  args : List Bytes := []
  /-- `ArgValue` of every flag, by name: `effective assigns name` -/
  assigns : List (Bytes × Bytes) := []
  deriving Repr, DecidableEq

def lookupFlag (flags : List Flag) (n : Bytes) : Option Bool :=
  (flags.find? (fun f => f.name = n)).map (fun f => decide (f.kind = .bool))

def argValue (s : PSt) (f : Flag) : Option Bytes := ArgParse.effective s.assigns f.name

/-- `envParse`: `if flg.Env == "" { continue }; if res, ok := os.LookupEnv(flg.Env); ok { flg.EnvValue = &res }` -/
def envParse (env : Bytes → Option Bytes) (flags : List Flag) : List Flag :=
  flags.map fun f => if f.env = [] then f else
    match env f.env with
    | some t => { f with envValue := some t }
    | none => f

/-- `flg.Value.Set(text)` on the first flag with the given name (`f.flagMap[name]`) -/
def setByName (W : World) (name text : Bytes) : List Flag → Except ParseErr (List Flag)
  | [] => .ok []
  | f :: fs =>
    if f.name = name then
      match setText W f.kind text with
      | none => .error (.badValue f.name)
      | some v => .ok ({ f with val := v } :: fs)
    else match setByName W name text fs with
      | .error e => .error e
      | .ok fs' => .ok (f :: fs')

/-- the value JSON writes into flag `i`, if any (the last write wins; the built-ins `help` and
    `config` are not part of the user's struct) -/
def jsonValue (overlay : List (Nat × Val)) (i : Nat) : Option Val :=
  if i < 2 then none
  else overlay.foldl (fun cur e => if e.1 = i then some e.2 else cur) none

def applyOverlayFrom (overlay : List (Nat × Val)) : Nat → List Flag → List Flag
  | _, [] => []
  | i, f :: fs =>
    (match jsonValue overlay i with
     | some v => { f with val := v }
     | none => f) :: applyOverlayFrom overlay (i + 1) fs

/-- which JSON text `parseConfigJson` unmarshals: `none` = no carrier, `some none` = unreadable -/
def carrierData (W : World) (env : Bytes → Option Bytes) (flags : List Flag) : Option (Option Bytes) :=
  let path := match flags with          -- f.valueConfigPath.String(): the value of the 2nd built-in
    | _ :: c :: _ => c.val
    | _ => []
  if path ≠ [] then some (W.readFile path)
  else match env Generated.b64ConfigEnv with
    | some str => some (W.b64Decode str)
    | none => none

def parseConfigJson (W : World) (env : Bytes → Option Bytes) (flags : List Flag) :
    Except ParseErr (List Flag) :=
  match carrierData W env flags with
  | none => .ok flags
  | some none => .error .carrier
  | some (some data) =>
    match W.unmarshal data with
    | none => .error .carrier
    | some overlay => .ok (applyOverlayFrom overlay 0 flags)

/-- the text the final loop passes to `Set` for one flag: the first source, in the order the code
    tests them, that is present -/
def pickText (order : List Generated.Src) (cli envv : Option Bytes) : Option Bytes :=
  match order with
  | [] => none
  | .arg :: rest => match cli with
    | some t => some t
    | none => pickText rest cli envv
  | .env :: rest => match envv with
    | some t => some t
    | none => pickText rest cli envv

/-- `for _, flg := range f.flagList { if … Set … ; if err != nil { return err } }` -/
def flagLoop (W : World) (order : List Generated.Src) (assigns : List (Bytes × Bytes)) :
    List Flag → Except ParseErr (List Flag)
  | [] => .ok []
  | f :: fs =>
    match pickText order (ArgParse.effective assigns f.name) f.envValue with
    | none => (match flagLoop W order assigns fs with
      | .error e => .error e
      | .ok fs' => .ok (f :: fs'))
    | some t =>
      match setText W f.kind t with
      | none => .error (.badValue f.name)
      | some v => (match flagLoop W order assigns fs with
        | .error e => .error e
        | .ok fs' => .ok ({ f with val := v } :: fs'))

def runStep (W : World) (env : Bytes → Option Bytes) (argv : List Bytes) (s : PSt) :
    Generated.ParseStep → Except ParseErr PSt
  | .argParse =>
    match ArgParse.argParse (lookupFlag s.flags) argv with
    | .error p => .error (.panic p)
    | .ok (.err e _) => .error (.arg e)
    | .ok (.ok st) => .ok { s with args := st.args, assigns := st.assigns }
  | .envParse => .ok { s with flags := envParse env s.flags }
  | .setConfigPathFromArg =>
    -- if flg, ok := f.flagMap["config"]; ok && flg.ArgValue != nil { flg.Value.Set(*flg.ArgValue) }
    match ArgParse.effective s.assigns configName with
    | none => .ok s
    | some t => match setByName W configName t s.flags with
      | .error e => .error e
      | .ok fl => .ok { s with flags := fl }
  | .parseConfigJson =>
    match parseConfigJson W env s.flags with
    | .error e => .error e
    | .ok fl => .ok { s with flags := fl }
  | .flagLoop order =>
    match flagLoop W order s.assigns s.flags with
    | .error e => .error e
    | .ok fl => .ok { s with flags := fl }
  | .unknown _ => .error .unknownStep

def runSteps (W : World) (env : Bytes → Option Bytes) (argv : List Bytes) (s : PSt) :
    List Generated.ParseStep → Except ParseErr PSt
  | [] => .ok s
  | st :: rest => match runStep W env argv s st with
    | .error e => .error e
    | .ok s' => runSteps W env argv s' rest

/-- `(*FlagSet).Parse(argv)` on a fresh flag set, in environment `env` -/
def parse (W : World) (flags : List Flag) (argv : List Bytes) (env : Bytes → Option Bytes) :
    Except ParseErr PSt :=
  runSteps W env argv { flags := flags, args := argv } Generated.parseSteps

end Glb.Config
