/-
  Supporting model of `/repo/httpd/store.go`: `Store.GetClientIP` and `Store.CookieValue`.

  * the request headers are an association list canonical key ↦ values (`http.Header`);
    `Header.Get` (stdlib — modelled, not verified) returns the first value of the canonical key or "";
  * `strings.IndexByte` + `ip[:i]` keep the slice bounds check;
  * the host of `RemoteAddr` comes from the `SplitHostPort` model (`Glb.Aux.Net`);
  * `Request.Cookie(name)` (stdlib — modelled, not verified; go1.23) is the first cookie of that name
    among the parsed cookies, `ErrNoCookie` for the empty name; the parsed cookies
    (`Request.Cookies()`) are the input.

  Core Lean only.
-/
import Glb.Basic
import Glb.Model.AuxNetutil

namespace Glb.Aux.Httpd
open Glb Glb.Aux.Net

abbrev Header := List (Bytes × List Bytes)

/-- `Header.Get(key)` for an already canonical key -/
def get (h : Header) (key : Bytes) : Bytes :=
  match h.find? (fun e => e.1 = key) with
  | some (_, v :: _) => v
  | _ => []

/-- canonical forms (`textproto.CanonicalMIMEHeaderKey`) of "X-Client-IP", "X-Forwarded-For", "X-Real-IP" -/
def xClientIP : Bytes := strBytes "X-Client-Ip"
def xForwardedFor : Bytes := strBytes "X-Forwarded-For"
def xRealIP : Bytes := strBytes "X-Real-Ip"

def comma : UInt8 := 44

/-- `strings.IndexByte` -/
def indexByte : Bytes → UInt8 → Option Nat
  | [], _ => none
  | x :: rest, c => if x = c then some 0 else (indexByte rest c).map (· + 1)

/-- the bytes in front of the first `c` (everything when there is none) -/
def upTo (c : UInt8) : Bytes → Bytes
  | [] => []
  | x :: rest => if x = c then [] else x :: upTo c rest

def getClientIP (h : Header) (remote : Bytes) : Except GoPanic Bytes :=
  let ip := get h xClientIP
  if ip ≠ [] then pure ip else
  let ip := get h xForwardedFor
  if ip ≠ [] then
    match indexByte ip comma with
    | some i => slice? ip 0 i          -- `ip[:i]`
    | none => pure ip
  else
  let ip := get h xRealIP
  if ip ≠ [] then pure ip else do
  let (host, _) ← splitHostPort remote
  pure host

/-- `Store.CookieValue(name)` over the parsed cookies -/
def cookieValue (cookies : List (Bytes × Bytes)) (name : Bytes) : Bytes :=
  if name = [] then [] else
  match cookies.find? (fun c => c.1 = name) with
  | some (_, v) => v
  | none => []

end Glb.Aux.Httpd
