/-
  Supporting models for package `logger` that no listed property covers by itself:

  * `Glb.Aux.Args`  — `/repo/logger/logger.go: argsToAttrs` (the pairing of the variadic `args ...any`
    of `Logger.With` into attributes) and slog's `Record.Add` (used by `Logger.Info` & co.), over an
    abstract argument type: a Go `string`, a `slog.Attr`, or any other value.
  * `Glb.Aux.DateTime` — `/repo/logger/buffer.go: appendIntWidth1..4` and
    `/repo/logger/nano_handler.go: appendDateTime`, over the regenerated table
    `Glb.Generated.smallsString`, with Go's index / slice-bounds panics kept (`Except GoPanic`).

  Core Lean only.
-/
import Glb.Basic
import Glb.Generated.Logger

namespace Glb.Aux.Args

/-- one element of `args ...any`, by the three cases of the type switch -/
inductive Arg (σ α ν : Type) where
  | str (s : σ)        -- `case string`
  | attr (a : α)       -- `case slog.Attr`
  | other (v : ν)      -- `default`
  deriving Repr, DecidableEq

/-- one produced attribute, by the `append` that produced it -/
inductive Out (σ α ν : Type) where
  | pair (k : σ) (v : Arg σ α ν)   -- `slog.Any(x, args[i+1])`
  | badStr (s : σ)                 -- `slog.String("!BADKEY", x)`     (lone trailing string)
  | pass (a : α)                   -- `x` (an Attr is used as is)
  | badAny (v : ν)                 -- `slog.Any("!BADKEY", x)`
  deriving Repr, DecidableEq

variable {σ α ν : Type}

/-- `argsToAttrs`: the loop `for i := 0; i < len(args); i++` with the extra `i++` after a pair.
    `args[i+1]` is only evaluated under `i+1 < len(args)`: the second pattern. -/
def argsToAttrs : List (Arg σ α ν) → List (Out σ α ν)
  | [] => []
  | .str s :: v :: rest => .pair s v :: argsToAttrs rest
  | [.str s] => [.badStr s]
  | .attr a :: rest => .pass a :: argsToAttrs rest
  | .other v :: rest => .badAny v :: argsToAttrs rest

/-- the arguments an output attribute was made from -/
def Out.source : Out σ α ν → List (Arg σ α ν)
  | .pair k v => [.str k, v]
  | .badStr s => [.str s]
  | .pass a => [.attr a]
  | .badAny v => [.other v]

/-- all arguments consumed by a list of outputs, in order -/
def unparse (os : List (Out σ α ν)) : List (Arg σ α ν) := os.flatMap Out.source

/-- what happens to one argument -/
inductive Role where
  | key | value | badStr | pass | badAny
  deriving Repr, DecidableEq

/-- Independent description of the roles: a left-to-right scan with one bit of state
    (`pending` = the previous argument was taken as a key) and one token of lookahead
    (is there a next argument?). -/
def roles : Bool → List (Arg σ α ν) → List Role
  | _, [] => []
  | true, _ :: rest => .value :: roles false rest
  | false, .str _ :: rest => if rest.isEmpty then [.badStr] else .key :: roles true rest
  | false, .attr _ :: rest => .pass :: roles false rest
  | false, .other _ :: rest => .badAny :: roles false rest

def Out.roles : Out σ α ν → List Role
  | .pair _ _ => [.key, .value]
  | .badStr _ => [.badStr]
  | .pass _ => [.pass]
  | .badAny _ => [.badAny]

def Arg.isStr : Arg σ α ν → Bool
  | .str _ => true
  | _ => false

/-- what `argsToAttrs` does to an argument that is not a string -/
def direct : Arg σ α ν → Out σ α ν
  | .str s => .badStr s
  | .attr a => .pass a
  | .other v => .badAny v

def Out.isBadStr : Out σ α ν → Bool
  | .badStr _ => true
  | _ => false

/-- slog's `Record.Add` (go1.23 log/slog/record.go; modelled, not verified): the same pairing via
    `argsToAttr`, but attributes whose value is an empty group are dropped.  Which produced
    attributes have an empty-group value is a parameter. -/
def recordAdd (emptyGroup : Out σ α ν → Bool) (args : List (Arg σ α ν)) : List (Out σ α ν) :=
  (argsToAttrs args).filter (fun o => !emptyGroup o)

end Glb.Aux.Args

namespace Glb.Aux.DateTime
open Glb

/-- Go's `int` division truncates toward zero. -/
def goDiv (a b : Int) : Int := if 0 ≤ a then a / b else -((-a) / b)

/-- `s[i]` for a Go `int` index: negative indices panic too. -/
def idxI? (s : Bytes) (i : Int) : Except GoPanic UInt8 :=
  if i < 0 then .error (.other "index out of range (negative)") else idx? s i.toNat

/-- `s[lo:hi]` for Go `int` bounds. -/
def sliceI? (s : Bytes) (lo hi : Int) : Except GoPanic Bytes :=
  if lo < 0 ∨ hi < 0 then .error (.other "slice bounds out of range (negative)")
  else slice? s lo.toNat hi.toNat

abbrev smalls : Bytes := Generated.smallsString

/-- `appendIntWidth1`: `*buf = append(*buf, smallsString[i*2+1])` -/
def appendIntWidth1 (buf : Bytes) (i : Int) : Except GoPanic Bytes := do
  let b ← idxI? smalls (i * 2 + 1)
  pure (buf ++ [b])

/-- `appendIntWidth2`: `*buf = append(*buf, smallsString[i*2:i*2+2]...)` -/
def appendIntWidth2 (buf : Bytes) (i : Int) : Except GoPanic Bytes := do
  let s ← sliceI? smalls (i * 2) (i * 2 + 2)
  pure (buf ++ s)

/-- `appendIntWidth3`: `l := i / 100; i -= l * 100;` one digit of `l`, two digits of `i` -/
def appendIntWidth3 (buf : Bytes) (i : Int) : Except GoPanic Bytes := do
  let l := goDiv i 100
  let i := i - l * 100
  let b ← idxI? smalls (l * 2 + 1)
  let buf := buf ++ [b]
  let s ← sliceI? smalls (i * 2) (i * 2 + 2)
  pure (buf ++ s)

/-- `appendIntWidth4`: `l := i / 100; i -= l * 100;` two digits of `l`, two digits of `i` -/
def appendIntWidth4 (buf : Bytes) (i : Int) : Except GoPanic Bytes := do
  let l := goDiv i 100
  let i := i - l * 100
  let s₁ ← sliceI? smalls (l * 2) (l * 2 + 2)
  let buf := buf ++ s₁
  let s₂ ← sliceI? smalls (i * 2) (i * 2 + 2)
  pure (buf ++ s₂)

/-- `appendDateTime(buf, t)` with `(year, month, day) = t.Date()`, `(hour, min, sec) = t.Clock()`
    (package `time` is not modelled: the six numbers are the inputs). -/
def appendDateTime (buf : Bytes) (year month day hour min sec : Int) : Except GoPanic Bytes := do
  let buf ← appendIntWidth4 buf year
  let buf := buf ++ [45]          -- '-'
  let buf ← appendIntWidth2 buf month
  let buf := buf ++ [45]
  let buf ← appendIntWidth2 buf day
  let buf := buf ++ [32]          -- ' '
  let buf ← appendIntWidth2 buf hour
  let buf := buf ++ [58]          -- ':'
  let buf ← appendIntWidth2 buf min
  let buf := buf ++ [58]
  appendIntWidth2 buf sec

/-! ### the specification side: zero-padded decimal digits -/

/-- ASCII digit of `n % 10` -/
def digit (n : Nat) : UInt8 := UInt8.ofNat (48 + n % 10)

/-- the `w` lowest decimal digits of `n`, most significant first (zero padded) -/
def pad : Nat → Nat → Bytes
  | 0, _ => []
  | w + 1, n => pad w (n / 10) ++ [digit n]

end Glb.Aux.DateTime
