/-
  Model of /repo/util/netutil/filter.go (IPv4Filter).

  State mirrors the Go struct: `matchAll`, `mode`, the slots `ipList[0:index]` (a removed slot is
  `(0,0)`), and the 32 maps as one association list of `(ones, maskedAddr)` pairs without
  duplicates.  `ls` (= `listSize`) and the mask table are parameters, so the theorems hold for
  every list size; `Glb.Generated` supplies the values the code has now.
-/
import Glb.Basic
import Glb.Generated.Filter

namespace Glb.Filter

abbrev Addr := BitVec 32

structure St where
  matchAll : Bool := false
  mapsMode : Bool := false
  list : List (Addr × Nat) := []      -- ipList[0:index], entry = (masked address, ones)
  maps : List (Nat × Addr) := []      -- union of ipMaps[ones-1], entry = (ones, masked address)
  deriving Repr, DecidableEq

def init : St := {}

/-- `ipv4Masks[ones-1]`, from the regenerated table. -/
def maskOf (ones : Nat) : Addr := Generated.ipv4Masks.getD (ones - 1) 0

/-- the mathematical prefix mask: top `n` bits set. -/
def prefixMask (n : Nat) : Addr := BitVec.allOnes 32 <<< (32 - n)

def mapsInsert (m : List (Nat × Addr)) (e : Nat × Addr) : List (Nat × Addr) :=
  if e ∈ m then m else m ++ [e]

/-- migration list → maps: zeroed slots (`ones = 0`) are skipped. -/
def migrate (l : List (Addr × Nat)) : List (Nat × Addr) :=
  l.foldl (fun m e => if e.2 > 0 then mapsInsert m (e.2, e.1) else m) []

/-- `Add` after argument validation, `1 ≤ ones ≤ 32`. -/
def addCore (ls : Nat) (s : St) (ip : Addr) (ones : Nat) : St :=
  let key := ip &&& maskOf ones
  if !s.mapsMode then
    if s.list.length < ls then { s with list := s.list ++ [(key, ones)] }
    else { s with mapsMode := true, maps := mapsInsert (migrate s.list) (ones, key) }
  else { s with maps := mapsInsert s.maps (ones, key) }

def removeCore (s : St) (ip : Addr) (ones : Nat) : St :=
  let key := ip &&& maskOf ones
  if !s.mapsMode then
    { s with list := s.list.map fun e => if ones = e.2 ∧ key = e.1 then (0, 0) else e }
  else { s with maps := s.maps.filter fun e => !(e == (ones, key)) }

/-- the locked scan of `Contains` for a 4-byte address -/
def scan (s : St) (ip : Addr) : Bool :=
  if !s.mapsMode then
    s.list.any fun e => e.2 > 0 && (ip &&& maskOf e.2 == e.1)
  else
    (List.range 32).any fun i => s.maps.contains (i + 1, ip &&& maskOf (i + 1))

/-! ### byte-level API: `net.IPNet{IP, Mask}` and `net.IP` -/

def leadingOnes8 (b : UInt8) : Nat :=
  if b == 0xff then 8 else if b == 0xfe then 7 else if b == 0xfc then 6 else if b == 0xf8 then 5
  else if b == 0xf0 then 4 else if b == 0xe0 then 3 else if b == 0xc0 then 2 else if b == 0x80 then 1
  else 0

def isPrefixByte (b : UInt8) : Bool :=
  b == 0xff || b == 0xfe || b == 0xfc || b == 0xf8 || b == 0xf0 || b == 0xe0 || b == 0xc0 ||
  b == 0x80 || b == 0

/-- `net.simpleMaskLength`: number of leading ones, or `none` when the mask is not of the form 1*0*. -/
def simpleMaskLength : Bytes → Option Nat
  | [] => some 0
  | b :: rest =>
    if b == 0xff then (simpleMaskLength rest).map (· + 8)
    else if isPrefixByte b ∧ rest.all (· == 0) then some (leadingOnes8 b)
    else none

/-- `IPMask.Size()` -/
def maskSize (m : Bytes) : Nat × Nat :=
  match simpleMaskLength m with
  | some n => (n, m.length * 8)
  | none => (0, 0)

def be32 (b : Bytes) : Addr :=
  match b with
  | [a, b, c, d] =>
    (BitVec.ofNat 32 a.toNat <<< 24) ||| (BitVec.ofNat 32 b.toNat <<< 16) |||
    (BitVec.ofNat 32 c.toNat <<< 8) ||| BitVec.ofNat 32 d.toNat
  | _ => 0

/-- `net.IP.To4` -/
def to4 (ip : Bytes) : Option Bytes :=
  if ip.length = 4 then some ip
  else if ip.length = 16 ∧ (ip.take 10).all (· == 0) ∧ ip[10]? = some 0xff ∧ ip[11]? = some 0xff
  then some (ip.drop 12)
  else none

inductive ArgResult where
  | invalid
  | zero              -- ones = 0: the 0.0.0.0/0 flag
  | pfx (ip : Addr) (ones : Nat)
  deriving Repr, DecidableEq

def validate (ip mask : Bytes) : ArgResult :=
  let (ones, bits) := maskSize mask
  if bits ≠ 32 ∨ ones > 32 ∨ ip.length ≠ 4 then .invalid
  else if ones = 0 then .zero
  else .pfx (be32 ip) ones

/-- `Add(cidr)`: new state and whether `ErrInvalidIPv4CIDR` was returned. -/
def add (ls : Nat) (s : St) (ip mask : Bytes) : St × Bool :=
  match validate ip mask with
  | .invalid => (s, false)
  | .zero => ({ s with matchAll := true }, true)
  | .pfx a n => (addCore ls s a n, true)

def remove (s : St) (ip mask : Bytes) : St × Bool :=
  match validate ip mask with
  | .invalid => (s, false)
  | .zero => ({ s with matchAll := false }, true)
  | .pfx a n => (removeCore s a n, true)

/-- `Contains(ip)` as repaired by F4 (`ip.To4()` normalisation). -/
def contains (s : St) (ip : Bytes) : Bool :=
  if s.matchAll then true
  else match to4 ip with
    | none => false
    | some ip4 => scan s (be32 ip4)

/-- `Contains(ip)` on the pinned commit (only the 4-byte form is looked at). -/
def containsPinned (s : St) (ip : Bytes) : Bool :=
  if s.matchAll then true
  else if ip.length ≠ 4 then false
  else scan s (be32 ip)

end Glb.Filter
