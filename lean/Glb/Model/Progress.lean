/-
  Model of /repo/util/ioutil/progress.go (ProgressWriter) — C19.

  A transition system with two parties:

  * the **producer** (the goroutine owning the ProgressWriter) runs a program: a list of
    `Write`/`WriteString` calls, each with the byte count `n` the *wrapped* writer reports for it
    (it may be short, it may come with an error — `sum(n)` is called either way), optionally
    followed by one `Close`.  Its program counter is a *continuation*: the list of flattened
    statements (`Generated.IoAct`) still to execute in the current call.  The statement lists
    (`sumProg`, `closeProg`, `writeProg`, `writeStringProg`) are tied by `decide` to what the
    extractor reads from the source (Glb/Tie/Ioutil.lean), and `prodSteps` below interprets them
    one statement at a time — `callSum` pushes `sumProg` in front of the continuation.
  * the **consumer** of the unbuffered `Status()` channel: at every instant it is either parked in
    a receive (`parked`) or not; it may park and un-park at any time (any schedule: absent, late,
    slow, fast, select-with-timeout).  After a rendezvous it holds the value (`got v`) until it
    *logs* it (`Label.robs`); this lag between "receive returned" and "receive observed" is
    exactly the race the trace harness has, so the model's observable traces are the traces a
    real-time-consistent log can show.

  Channel semantics (Go memory model, unbuffered channel), modelled, not verified:
    `select { case ch <- v: default: }` sends iff a receiver is parked at that instant, otherwise
    takes `default`;  `ch <- v` is enabled only when a receiver is parked;  a receive on a closed
    channel returns immediately.

  Ghost fields (`reported`, `recvd`, `sentTotal`, `closeDone`) record history for the theorems;
  they never influence which steps are enabled.
-/
import Glb.Generated.Ioutil

namespace Glb.Progress
open Glb.Generated

/-! ## statement lists (tied to the source in Glb/Tie/Ioutil.lean) -/

def sumProg : List IoAct := [.addSize, .ifStatus, .trySendSize, .endIf]
def closeProg : List IoAct := [.ifStatus, .sendSize, .closeStatus, .endIf]
def writeProg : List IoAct := [.callWr .write, .callSum, .ret]
def writeStringProg : List IoAct := [.callWr .stringWriterElseWrite, .callSum, .ret]

/-! ## programs -/

/-- one `Write` (`str = false`) or `WriteString` (`str = true`) call: `n` is the byte count the
    wrapped writer reports (Go `int`), `err` whether it also returned an error. -/
structure WOp where
  n : Int
  err : Bool := false
  str : Bool := false
  deriving DecidableEq, Repr

structure Prog where
  writes : List WOp
  close : Bool
  deriving DecidableEq, Repr

/-- the byte counts of a list of calls -/
def counts (ws : List WOp) : List Int := ws.map (·.n)

inductive Call where
  | w (o : WOp)
  | close
  deriving DecidableEq, Repr

def progOf : Call → List IoAct
  | .w o => if o.str then writeStringProg else writeProg
  | .close => closeProg

inductive Cons where
  | away                -- not in a receive
  | parked              -- blocked in `<-Status()`
  | got (v : Int)       -- receive returned `v`, not yet logged
  | gotClosed           -- receive returned `ok = false`, not yet logged
  deriving DecidableEq, Repr

structure St where
  size : Int := 0                 -- pw.size
  reg : Int := 0                  -- local `n` of the current Write/WriteString
  cur : Option Call := none       -- the call the producer is inside of
  cont : List IoAct := []         -- statements left in that call (program counter)
  todo : List WOp := []           -- calls still to make
  wantClose : Bool := false       -- Close still to be called after `todo`
  cons : Cons := .away
  closed : Bool := false          -- close(pw.status) executed
  reported : List Int := []       -- ghost: every n the wrapped writer has reported so far
  recvd : List Int := []          -- ghost: values handed to the consumer, in order
  sentTotal : Bool := false       -- ghost: Close's send has happened
  closeDone : Bool := false       -- ghost: Close has returned
  deriving DecidableEq, Repr

def init (P : Prog) : St := { todo := P.writes, wantClose := P.close }

inductive Label where
  | ptau                -- producer: internal statement
  | send (v : Int)      -- producer+consumer: rendezvous on the status channel
  | wdone (n : Int)     -- producer: Write/WriteString returned n        (trace event `w n`)
  | cdone               -- producer: Close returned                       (trace event `c`)
  | ctau                -- consumer: parks / un-parks / receive on closed channel returns
  | robs (v : Int)      -- consumer: logs a received value                (trace event `r v`)
  | xobs                -- consumer: logs "channel closed"                (trace event `x`)
  deriving DecidableEq, Repr

def Label.byProducer : Label → Bool
  | .ptau | .send _ | .wdone _ | .cdone => true
  | _ => false

/-- the producer returns from the current call -/
def finish (s : St) (c : Call) : Label × St :=
  match c with
  | .w _ => (.wdone s.reg, { s with cur := none, cont := [] })
  | .close => (.cdone, { s with cur := none, cont := [], closeDone := true })

/-- the rendezvous `pw.status <- pw.size` with a parked consumer -/
def rendezvous (s : St) (k : List IoAct) (total : Bool) : Label × St :=
  (.send s.size, { s with cont := k, cons := .got s.size, recvd := s.recvd ++ [s.size],
                          sentTotal := s.sentTotal || total })

/-- steps of the producer: one statement of the current call, or the next call begins -/
def prodSteps (s : St) : List (Label × St) :=
  match s.cur with
  | none =>
    match s.todo with
    | o :: rest => [(.ptau, { s with cur := some (.w o), cont := progOf (.w o), todo := rest })]
    | [] => if s.wantClose then
              [(.ptau, { s with cur := some .close, cont := progOf .close, wantClose := false })]
            else []
  | some c =>
    match s.cont with
    | [] => [finish s c]                                   -- end of the function body
    | a :: k =>
      match a with
      | .ret => [finish s c]
      | .callWr _ =>                                       -- the wrapped writer reports `n`
        match c with
        | .w o => [(.ptau, { s with reg := o.n, reported := s.reported ++ [o.n], cont := k })]
        | .close => []
      | .callSum => [(.ptau, { s with cont := sumProg ++ k })]
      | .addSize => [(.ptau, { s with size := s.size + s.reg, cont := k })]
      | .ifStatus => [(.ptau, { s with cont := k })]       -- status is never nil (NewProgressWriter)
      | .endIf => [(.ptau, { s with cont := k })]
      | .trySendSize =>                                    -- select { case send: default: }
        if s.closed then []                                -- (send on closed channel: panic)
        else if s.cons = .parked then [rendezvous s k false]
        else [(.ptau, { s with cont := k })]
      | .sendSize =>                                       -- blocking send
        if s.closed then []
        else if s.cons = .parked then [rendezvous s k (c = .close)]
        else []
      | .closeStatus => if s.closed then [] else [(.ptau, { s with closed := true, cont := k })]
      | .unknown => []

/-- steps of the consumer -/
def consSteps (s : St) : List (Label × St) :=
  match s.cons with
  | .away => [(.ctau, { s with cons := .parked })]
  | .parked =>
    (.ctau, { s with cons := .away }) ::
      (if s.closed then [(.ctau, { s with cons := .gotClosed })] else [])
  | .got v => [(.robs v, { s with cons := .away })]
  | .gotClosed => [(.xobs, { s with cons := .away })]

/-- every step enabled in `s` -/
def enabled (s : St) : List (Label × St) := prodSteps s ++ consSteps s

/-- all states reachable by finite interleavings of enabled steps -/
inductive Reachable (P : Prog) : St → Prop where
  | init : Reachable P (init P)
  | step {s : St} {l : Label} {s' : St} :
      Reachable P s → (l, s') ∈ enabled s → Reachable P s'

/-! ## derived notions used by the theorems -/

/-- running totals `[x₀, x₀+x₁, …]` on top of `acc` -/
def psumsFrom (acc : Int) : List Int → List Int
  | [] => []
  | x :: xs => (acc + x) :: psumsFrom (acc + x) xs

/-- the prefix sums of the reported byte counts = the values `Size()` takes after each write -/
def psums (l : List Int) : List Int := psumsFrom 0 l

/-- the producer is inside a Write/WriteString call -/
def inWrite (s : St) : Bool :=
  match s.cur with
  | some (.w _) => true
  | _ => false

/-- between "the wrapped writer returned n" and `pw.size += n` -/
def addPending (s : St) : Bool := s.cont.contains .callSum || s.cont.contains .addSize

/-- the program has run to completion -/
def finished (s : St) : Bool := s.cur.isNone && s.todo.isEmpty && !s.wantClose

/-- statements the producer still has to execute in the current call, `callSum` counted with
    the body it expands to: every producer step inside a call decreases this -/
def weight : IoAct → Nat
  | .callSum => 6
  | _ => 1

def measure (s : St) : Nat := (s.cont.map weight).sum + (if s.cur.isSome then 1 else 0)

end Glb.Progress
