/-
  Supporting model of `/repo/util/netutil/ip.go`: `FirstIP`, `LastIP`, `SplitHostPort`.

  * `net.IP.Mask` (stdlib — modelled, not verified; go1.23 net/ip.go) is `ipMask`: the two
    4-in-16 conversions, `nil` (here `none`) when the lengths still differ, else the bytewise AND.
  * `LastIP` writes through the slice returned by `Mask` with indices of `cidr.Mask`: index panics
    are kept (`Except GoPanic`), e.g. a 4-byte IP with a 16-byte mask whose first 12 bytes are 0xff.
  * `SplitHostPort` scans for the LAST ':'; `addr[0]`, `addr[i-1]` and the slice expressions keep
    their bounds checks, "never panics" is a theorem (`Glb.Aux.split_total`).

  Core Lean only.
-/
import Glb.Basic

namespace Glb.Aux.Net
open Glb

/-! ### FirstIP / LastIP -/

def v4InV6Prefix : Bytes := [0, 0, 0, 0, 0, 0, 0, 0, 0, 0, 0xff, 0xff]

def allFF (b : Bytes) : Bool := b.all (· = 0xff)

def andBytes (a b : Bytes) : Bytes := List.zipWith (· &&& ·) a b

/-- bytewise `a | ^m` -/
def orNotBytes (a m : Bytes) : Bytes := List.zipWith (fun b m => b ||| ~~~m) a m

/-- `ip.Mask(mask)`; `none` is the nil IP -/
def ipMask (ip mask : Bytes) : Option Bytes :=
  let mask := if mask.length = 16 ∧ ip.length = 4 ∧ allFF (mask.take 12) then mask.drop 12 else mask
  let ip := if mask.length = 4 ∧ ip.length = 16 ∧ ip.take 12 = v4InV6Prefix then ip.drop 12 else ip
  if ip.length ≠ mask.length then none else some (andBytes ip mask)

/-- `FirstIP(cidr) = cidr.IP.Mask(cidr.Mask)` -/
def firstIP (ip mask : Bytes) : Option Bytes := ipMask ip mask

/-- the loop `for i := len(cidr.Mask) - 1; i >= 0; i-- { ip[i] = ip[i] | ^cidr.Mask[i] }`;
    the first argument is `i + 1` -/
def lastIPLoop (mask : Bytes) : Nat → Bytes → Except GoPanic Bytes
  | 0, ip => .ok ip
  | i + 1, ip => do
    let b ← idx? ip i
    let m ← idx? mask i
    lastIPLoop mask i (ip.set i (b ||| ~~~m))

/-- `LastIP(cidr)`; `none` is the nil IP (a nil slice has length 0 and the loop indexes it) -/
def lastIP (ip mask : Bytes) : Except GoPanic (Option Bytes) :=
  match ipMask ip mask with
  | none =>
    match lastIPLoop mask mask.length [] with
    | .ok _ => .ok none
    | .error e => .error e
  | some r =>
    match lastIPLoop mask mask.length r with
    | .ok x => .ok (some x)
    | .error e => .error e

/-- `IPNet.Contains` for an address of the same byte length as the network's IP and mask -/
def contains (ip mask x : Bytes) : Prop :=
  x.length = ip.length ∧ andBytes x mask = andBytes ip mask

/-- bytewise `≤` of two addresses of the same length -/
def leAll : Bytes → Bytes → Prop
  | [], [] => True
  | a :: as, b :: bs => a ≤ b ∧ leAll as bs
  | _, _ => False

/-- the address as a big-endian number -/
def beNat (b : Bytes) : Nat := b.foldl (fun acc x => acc * 256 + x.toNat) 0

/-! ### SplitHostPort -/

def colon : UInt8 := 58
def lbr : UInt8 := 91
def rbr : UInt8 := 93

/-- the loop `for i := len(addr)-1; i >= 0; i--` stopping at the first `addr[i] == ':'`:
    the index of the last colon -/
def lastColon : Bytes → Option Nat
  | [] => none
  | c :: rest =>
    match lastColon rest with
    | some j => some (j + 1)
    | none => if c = colon then some 0 else none

/-- `addr[i-1]` for a Go `int` i: `-1` is out of range -/
def idxPred? (s : Bytes) (i : Nat) : Except GoPanic UInt8 :=
  if i = 0 then .error (.other "index out of range [-1]") else idx? s (i - 1)

def slicePred? (s : Bytes) (lo i : Nat) : Except GoPanic Bytes :=
  if i = 0 then .error (.other "slice bounds out of range [:-1]") else slice? s lo (i - 1)

def splitHostPort (addr : Bytes) : Except GoPanic (Bytes × Bytes) :=
  match lastColon addr with
  | none => .ok (addr, [])
  | some i => do
    let a0 ← idx? addr 0
    -- `addr[0] == '[' && addr[i-1] == ']'` (short circuit)
    let bracket ← if a0 = lbr then (do let p ← idxPred? addr i; pure (decide (p = rbr))) else pure false
    if bracket then do
      let h ← slicePred? addr 1 i
      let p ← slice? addr (i + 1) addr.length
      pure (h, p)
    else do
      let h ← slice? addr 0 i
      let p ← slice? addr (i + 1) addr.length
      pure (h, p)

/-- `net.JoinHostPort` (stdlib): brackets iff the host contains a colon (or a '%', not needed here) -/
def joinHostPort (host port : Bytes) : Bytes :=
  if colon ∈ host then lbr :: host ++ rbr :: colon :: port else host ++ colon :: port

/-- `host` is of the form "[" … "]" -/
def Bracketed (host : Bytes) : Prop := ∃ h, host = lbr :: h ++ [rbr]

end Glb.Aux.Net
