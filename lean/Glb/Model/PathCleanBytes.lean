/-
  Byte-level transcription of Go's `path.Clean` (`$GOROOT/src/path/path.go`, func Clean; on POSIX
  `filepath.Clean` = `internal/filepathlite.Clean` is the same loop — its volume name is empty,
  `IsPathSeparator(c)` is `c == '/'`, `postClean` does nothing and `Separator == '/'`, so `FromSlash`
  is the identity).  Transcribed from go1.23.5.

  ```go
  func Clean(path string) string {
      if path == "" { return "." }
      rooted := path[0] == '/'
      n := len(path)
      out := lazybuf{s: path}
      r, dotdot := 0, 0
      if rooted { out.append('/'); r, dotdot = 1, 1 }
      for r < n {
          switch {
          case path[r] == '/':                                            r++
          case path[r] == '.' && (r+1 == n || path[r+1] == '/'):          r++
          case path[r] == '.' && path[r+1] == '.' && (r+2 == n || path[r+2] == '/'):
              r += 2
              switch {
              case out.w > dotdot:
                  out.w--
                  for out.w > dotdot && out.index(out.w) != '/' { out.w-- }
              case !rooted:
                  if out.w > 0 { out.append('/') }
                  out.append('.'); out.append('.'); dotdot = out.w
              }
          default:
              if rooted && out.w != 1 || !rooted && out.w != 0 { out.append('/') }
              for ; r < n && path[r] != '/'; r++ { out.append(path[r]) }
          }
      }
      if out.w == 0 { return "." }
      return out.string()
  }
  ```

  Modelling decisions (everything else is line by line):

  * The reading position `r` is represented by the unread suffix `path[r:]` (`rest`): `r < n` is
    `rest ≠ []`, `path[r]` its head, `r+1 == n` is `rest.tail = []`, `path[r+1]` the head of the
    tail (the Go conditions evaluate `path[r+1]` / `path[r+2]` only behind the `r+1 == n` / the
    `path[r+1] == '.'` guards, so no index can be out of range; here this is pattern matching).
  * `lazybuf` is represented by its logical content `buf[0:w]`, kept REVERSED (`out`, head = the
    byte at index `w-1`): `out.w` = `out.length`, `append(c)` = `c :: out`, `out.w--` pops the
    head, and after a decrement `out.index(out.w)` is exactly the byte just popped (the buffer still
    holds it); `out.string()` = `out.reverse`.  That `lazybuf` shares the bytes with the input
    string until the first differing append (`buf == nil`: `index` reads `s`, `append` only compares)
    is an allocation optimisation: while `buf == nil` the invariant `buf[0:w] = s[0:w]` holds, so
    `index`, `append` and `string` return what the eagerly copied buffer would.  It is invisible in
    the result and not modelled.
  * The `for r < n` loop runs on fuel `len(path)` (every iteration consumes at least one byte, so
    this never runs out: `Glb.PathCleanBytes.loop_fuel` in `Proofs/PathCleanBytes.lean`); fuel rather
    than well-founded recursion keeps the function evaluable by `decide`.

  `Props/C17b.lean` proves `cleanBytes p = PathClean.clean p` for ALL byte strings `p`.
-/
import Glb.Model.PathClean

namespace Glb.PathCleanBytes
open Glb.PathClean (slash)

/-- '.' -/
def dotB : UInt8 := 46

/-- `r+1 == n || path[r+1] == '/'` for `t = path[r+1:]` (resp. `r+2`, `path[r+2:]`) -/
def atEnd : Bytes → Bool
  | [] => true
  | c :: _ => c = slash

/-- `out.w--; for out.w > dotdot && out.index(out.w) != '/' { out.w-- }`.  `b` is the byte popped
    by the last decrement, i.e. the byte at index `out.w`.  (Only called with `out.w > dotdot ≥ 0`,
    so the buffer is not empty.) -/
def backtrack (dotdot : Nat) : Bytes → Bytes
  | [] => []
  | b :: out => if out.length > dotdot ∧ b ≠ slash then backtrack dotdot out else out

/-- `for ; r < n && path[r] != '/'; r++ { out.append(path[r]) }`: returns `(path[r':], out')` -/
def copyElem : Bytes → Bytes → Bytes × Bytes
  | [], out => ([], out)
  | c :: t, out => if c = slash then (c :: t, out) else copyElem t (c :: out)

/-- One iteration of `for r < n { switch … }` with `path[r:] = c :: t`:
    the new `(path[r:], out, dotdot)`. -/
def body (rooted : Bool) (c : UInt8) (t : Bytes) (out : Bytes) (dotdot : Nat) :
    Bytes × Bytes × Nat :=
  if c = slash then
    -- empty path element
    (t, out, dotdot)
  else if c = dotB ∧ atEnd t then
    -- . element
    (t, out, dotdot)
  else if c = dotB ∧ t.head? = some dotB ∧ atEnd t.tail then
    -- .. element: remove to last /
    if out.length > dotdot then
      -- can backtrack
      (t.tail, backtrack dotdot out, dotdot)
    else if !rooted then
      -- cannot backtrack, but not rooted, so append .. element
      let out1 := if out.length > 0 then slash :: out else out
      let out2 := dotB :: dotB :: out1
      (t.tail, out2, out2.length)
    else
      (t.tail, out, dotdot)
  else
    -- real path element: add slash if needed, copy element
    let out1 :=
      if (rooted && out.length != 1) || (!rooted && out.length != 0) then slash :: out else out
    let s := copyElem (c :: t) out1
    (s.1, s.2, dotdot)

/-- `for r < n { … }` on fuel; returns the final `out`. -/
def loop (rooted : Bool) : Nat → Bytes → Bytes → Nat → Bytes
  | 0, _, out, _ => out
  | _ + 1, [], out, _ => out
  | fuel + 1, c :: t, out, dotdot =>
    loop rooted fuel (body rooted c t out dotdot).1 (body rooted c t out dotdot).2.1
      (body rooted c t out dotdot).2.2

/-- `path.Clean`, byte algorithm. -/
def cleanBytes (path : Bytes) : Bytes :=
  match path with
  | [] => [dotB]
  | c :: t =>
    let rooted : Bool := c = slash
    let out :=
      if rooted then loop rooted path.length t [slash] 1     -- out.append('/'); r, dotdot = 1, 1
      else loop rooted path.length path [] 0
    if out.length = 0 then [dotB] else out.reverse

/-! `filepath.Join` and `fsutil.ResolveUrlPath` exactly as in `Model/PathClean.lean`, but through the
    byte-level `cleanBytes`. -/

/-- `filepath.Join(elem...)` on POSIX (see `PathClean.join`), cleaning with the byte algorithm -/
def joinB (elems : List Bytes) : Bytes :=
  match elems.dropWhile (fun e => e = []) with
  | [] => []
  | es => cleanBytes (PathClean.unsplit es)

/-- `fsutil.ResolveUrlPath(baseFilePath, rawUrlPath)` with the byte-level `Clean` -/
def resolveUrlPathB (base url : Bytes) : Bytes :=
  joinB [base, PathClean.fromSlash (cleanBytes (PathClean.forceSlash url))]

end Glb.PathCleanBytes
