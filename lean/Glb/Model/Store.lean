/-
  Model of the pooled per-request state of /repo/httpd (C05): `Store`, `Params`, `Mux.storePool`,
  `Mux.maxParams`, `Mux.storeID`, `Mux.ServeHTTP`, `Mux.Handle`.

  * Go slices are modelled with their backing array: `GoSlice = (arr, len)`, `cap = arr.length`;
    reslicing keeps the array (stale elements stay in it), `append` writes in place while there is
    capacity and reallocates otherwise (the new capacity is a parameter `grow`, any value works).
  * The pool is a list; `Get` may return ANY pooled store or a new one (`choice`), and the pool
    may drop stores at any time (`Op.drop`) — sync.Pool promises nothing more.
  * `serve` = Get, set id, `findRoute` into the store's `P`, relay + handler observation, the
    handler's own effect (`WriteHeader`, panic), reset, Put.  A panicking handler (or probe) does
    not return the store.
  * `findRoute` is the model of `Glb/Model/Router.lean`; it only ever appends to `V`
    (`findRoute_V_extends` in the proofs), so the slice after the call is the slice before it with
    the new values appended one by one.
-/
import Glb.Model.Router

namespace Glb.Store
open Glb Glb.Router

/-- a Go slice seen from its first element: backing array and length -/
structure GoSlice (α : Type) where
  arr : List α
  len : Nat
  deriving Repr

namespace GoSlice
variable {α : Type}

def cap (s : GoSlice α) : Nat := s.arr.length

/-- `s[0:len]` -/
def elems (s : GoSlice α) : List α := s.arr.take s.len

/-- `make([]T, len, cap)` -/
def make (len cap : Nat) (zero : α) : GoSlice α := ⟨List.replicate cap zero, len⟩

/-- `s[:n]` — panics beyond the capacity -/
def reslice? (s : GoSlice α) (n : Nat) : Except GoPanic (GoSlice α) :=
  if n ≤ s.cap then .ok ⟨s.arr, n⟩ else .error (.sliceBounds 0 n s.cap)

/-- `append(s, x)`; `grow cap` is the capacity chosen on reallocation (at least `len + 1` anyway) -/
def push (grow : Nat → Nat) (zero : α) (s : GoSlice α) (x : α) : GoSlice α :=
  if s.len < s.cap then ⟨s.arr.set s.len x, s.len + 1⟩
  else ⟨s.elems ++ [x] ++ List.replicate (grow s.cap - (s.len + 1)) zero, s.len + 1⟩

def pushAll (grow : Nat → Nat) (zero : α) (s : GoSlice α) (xs : List α) : GoSlice α :=
  xs.foldl (push grow zero) s

end GoSlice

/-- `Store` (the fields the property is about) -/
structure StoreSt where
  K : List Bytes            -- P.K: nil or the selected route's paramNameList (shared, read only)
  V : GoSlice Bytes         -- P.V
  status : Nat              -- W.Status
  target : Option Target    -- I (nil between requests)
  id : GoSlice UInt8        -- id
  deriving Repr

structure MuxSt where
  root : Node
  nextId : Nat              -- stands for the `*RouteInfo` of the next successful registration
  maxParams : Nat
  pool : List StoreSt
  counter : Nat             -- storeID
  pfx : Bytes               -- the 9-byte random prefix, fixed per Mux

/-- `NewMux()` -/
def fresh (pfx : Bytes) : MuxSt :=
  { root := Node.empty, nextId := 0, maxParams := 0, pool := [], counter := 0, pfx := pfx }

/-- `storePool.New`: `V = make([]string, 0, mux.maxParams)` with the value `maxParams` has NOW;
    `id = make([]byte, 9, 32)` with the prefix copied in -/
def newStore (mux : MuxSt) : StoreSt :=
  { K := [], V := GoSlice.make 0 mux.maxParams [], status := 0, target := none,
    id := ⟨mux.pfx.take 9 ++ List.replicate (32 - (mux.pfx.take 9).length) 0, 9⟩ }

/-- `Mux.Handle`: the trie is mutated even when the registration is refused (Handle then panics,
    the Mux stays usable); `maxParams = max(maxParams, paramsCnt)` on success -/
def handle (mux : MuxSt) (p m : Bytes) : Except GoPanic (MuxSt × Except RegErr Nat) :=
  match parseRoute mux.root p m mux.nextId with
  | .error e => .error e
  | .ok ⟨root', .error e⟩ => .ok ({ mux with root := root' }, .error e)
  | .ok ⟨root', .ok n⟩ =>
    .ok ({ mux with root := root', nextId := mux.nextId + 1, maxParams := max mux.maxParams n }, .ok n)

structure Req where
  path : Bytes
  method : Bytes
  deriving Repr, DecidableEq

/-- what the handler does after looking around: optional `WriteHeader(code)`, optional panic -/
structure Behaviour where
  writeStatus : Option Nat := none
  panics : Bool := false
  deriving Repr, DecidableEq

/-- what a handler (relay, route handler, no-route handler) observes through the store -/
structure Obs where
  target : Target          -- whose HandlerFunc `store.I` carries
  gets : List Bytes        -- RouteParam(name) for every probed name ("" = not found)
  any : Bytes              -- RouteParamAny()
  status : Nat             -- W.Status when the handler is entered
  id : Bytes               -- GetID()
  deriving Repr, DecidableEq

/-- the probes; each `RouteParam` is a `Params.Get`, which can panic -/
def observe (st : StoreSt) (names : List Bytes) : Except GoPanic Obs := do
  let tgt ← match st.target with
    | some t => (.ok t : Except GoPanic Target)
    | none => .error (.other "nil RouteInfo")
  let ps : Params := ⟨st.K, st.V.elems⟩
  let gets ← names.mapM fun n => do
    let v ← paramsGet ps n
    pure (v.getD [])
  let any ← paramsGet ps Generated.routeParamAny
  pure ⟨tgt, gets, any.getD [], st.status, st.id.elems⟩

/-- `store.I`: the matched route's info, else `mux.routeNotFound` -/
def targetOf : Option RouteId → Target
  | some id => .route id
  | none => .noRoute

/-- `storePool.Get()`: any pooled store (`some i`), or a new one -/
def getStore (mux : MuxSt) (choice : Option Nat) : StoreSt × List StoreSt :=
  match choice with
  | some i =>
    match mux.pool[i]? with
    | some st => (st, mux.pool.eraseIdx i)
    | none => (newStore mux, mux.pool)
  | none => (newStore mux, mux.pool)

/-- `Mux.ServeHTTP`.  Result: the Mux afterwards and what the relay handler and the selected
    handler observed (`.error` = ServeHTTP or a probe panicked).
    `grow`: capacity growth of `append`; `render`: `strconv.AppendUint(_, n, 36)`. -/
def serve (grow : Nat → Nat) (render : Nat → Bytes) (mux : MuxSt) (req : Req) (names : List Bytes)
    (beh : Behaviour) (choice : Option Nat) : MuxSt × Except GoPanic (List Obs) :=
  let (st0, pool') := getStore mux choice
  let c := mux.counter + 1                         -- atomic.AddUint64(&mux.storeID, 1)
  let mux1 := { mux with pool := pool', counter := c }
  let st1 := { st0 with id := GoSlice.pushAll grow 0 st0.id (render c) }
  match findRoute mux.root req.path req.method ⟨st1.K, st1.V.elems⟩ with
  | .error e => (mux1, .error e)
  | .ok (info, ps) =>
    let st2 := { st1 with
      K := ps.K,
      V := GoSlice.pushAll grow [] st1.V (ps.V.drop st1.V.len),
      target := some (targetOf info) }
    -- mux.relayHandler(store): the relay looks around, then calls store.I.HandlerFunc(store)
    match observe st2 names, observe st2 names with
    | .ok o1, .ok o2 =>
      let st3 := { st2 with status := beh.writeStatus.getD st2.status }
      if beh.panics then (mux1, .ok [o1, o2])      -- the store is not returned
      else
        match st3.id.reslice? 9 with                -- store.id = store.id[:9]
        | .error e => (mux1, .error e)
        | .ok id' =>
          let st4 : StoreSt := { K := [], V := ⟨st3.V.arr, 0⟩, status := 0, target := none, id := id' }
          ({ mux1 with pool := st4 :: pool' }, .ok [o1, o2])
    | .error e, _ => (mux1, .error e)
    | _, .error e => (mux1, .error e)

/-! ### histories -/

inductive Op where
  | handle (p m : Bytes)
  | request (req : Req) (names : List Bytes) (beh : Behaviour) (choice : Option Nat)
  | drop (i : Nat)                                   -- sync.Pool forgets a store

def Op.isHandle : Op → Bool
  | .handle .. => true
  | _ => false

def step (grow : Nat → Nat) (render : Nat → Bytes) (mux : MuxSt) : Op → MuxSt
  | .handle p m =>
    match handle mux p m with
    | .ok (mux', _) => mux'
    | .error _ => mux
  | .request req names beh choice => (serve grow render mux req names beh choice).1
  | .drop i => { mux with pool := mux.pool.eraseIdx i }

def run (grow : Nat → Nat) (render : Nat → Bytes) (mux : MuxSt) (ops : List Op) : MuxSt :=
  ops.foldl (step grow render) mux

/-! ### base-36 rendering of the request counter -/

def digitChar (d : Nat) : UInt8 := if d < 10 then UInt8.ofNat (48 + d) else UInt8.ofNat (87 + d)

/-- little-endian base-36 digits -/
def digitsLE : Nat → Nat → List Nat
  | 0, _ => []
  | fuel + 1, n => if n < 36 then [n] else (n % 36) :: digitsLE fuel (n / 36)

/-- `strconv.AppendUint(nil, n, 36)` -/
def render36 (n : Nat) : Bytes := ((digitsLE (n + 1) n).reverse).map digitChar

end Glb.Store
