/-
  Model of /repo/daemon/daemon.go (C20): three processes — the caller of `Launch`, the launcher
  (`launch`), the daemon (the registered handler) — as a small transition system.

  * The launcher is straight-line code: it executes the steps of `order` one after the other
    (`notify`, `start`, `printPid`, `spawnWaiter`, `select`; `pause` is the verification hook
    `verifPause`, passable once the harness has released it).  `order` is a parameter: the
    regenerated `Generated.launchOrder` gives what /repo does now, `pinnedOrder` what the pinned
    commit did (Start before Notify).
  * The daemon works (`work`, a stutter step), then calls `Done()` = SIGINT to its parent (`done`),
    then keeps running; before `done` it may also crash (`crash`), which the launcher's waiter
    goroutine reports on stderr and through the `finished` channel.
  * A signal is sent (`done`) and delivered (`deliver`) in two steps.  Delivered to a process
    that has no handler installed it kills the process (`Launch` then reports "signal:
    interrupt"); with a handler it fills the one-slot `interrupt` channel and wakes the select.
  * `ret` is `Launch` returning: enabled once the launcher is gone (cmd.Run() returned); killed or
    failed launcher or non-empty stderr ⇒ error, else the pid read from stdout.
  fork/exec/signal semantics are modelled, not verified.
-/
import Glb.Basic
import Glb.Generated.Daemon

namespace Glb.Daemon

inductive LStep where
  | notify | start | printPid | spawnWaiter | select | pause | other
  deriving Repr, DecidableEq

def LStep.ofString (s : String) : LStep :=
  if s = "notify" then .notify
  else if s = "start" then .start
  else if s = "printPid" then .printPid
  else if s = "spawnWaiter" then .spawnWaiter
  else if s = "select" then .select
  else if s = "pause" then .pause
  else .other

/-- what /repo's `launch` does now -/
def orderNow : List LStep := Generated.launchOrder.map LStep.ofString

/-- the pinned commit: `signal.Notify` after `cmd.Start()` … `go cmd.Wait()` -/
def pinnedOrder : List LStep := [.start, .printPid, .spawnWaiter, .notify, .select]

/-- the `verifPause("launch.afterStart")` hook: a pause right after `start` -/
def withPause : List LStep → List LStep
  | [] => []
  | .start :: r => .start :: .pause :: r
  | x :: r => x :: withPause r

inductive LStatus where
  | running
  | exited      -- returned from launch(), exit status 0
  | killed      -- terminated by SIGINT
  | failed      -- wrote to stderr and returned / crashed
  deriving Repr, DecidableEq

inductive DState where
  | notStarted | working | ran | crashed     -- ran = Done() was called, the daemon keeps running
  deriving Repr, DecidableEq

/-- the daemon process exists (or existed) -/
def DState.started : DState → Bool
  | .notStarted => false
  | _ => true

inductive Parent where
  | launcher | init
  deriving Repr, DecidableEq

inductive Result where
  | ok (pid : Nat)
  | err
  deriving Repr, DecidableEq

def daemonPid : Nat := 2

inductive Label where
  | lnext      -- the launcher executes its next step
  | lexit      -- the launcher returns from launch() and exits
  | work       -- the daemon does something else (stutter)
  | done       -- the daemon calls Done(): SIGINT to its parent
  | deliver    -- the kernel delivers the signal
  | crash      -- the daemon dies before Done()
  | waiter     -- the waiter goroutine: cmd.Wait() returned
  | release    -- the harness releases the pause hook
  | ret        -- Launch returns to the caller
  deriving Repr, DecidableEq

structure St where
  todo : List LStep
  lstatus : LStatus := .running
  handler : Bool := false       -- signal.Notify done
  pending : Bool := false       -- a value sits in the `interrupt` channel
  inflight : Bool := false      -- SIGINT sent, not yet delivered
  printed : Bool := false       -- the daemon's pid is on the launcher's stdout
  stderr : Bool := false        -- the launcher wrote to stderr
  selected : Bool := false      -- the select has returned
  waiterOn : Bool := false
  finished : Bool := false      -- `finished` is closed
  released : Bool := false
  dstate : DState := .notStarted
  dparent : Parent := .launcher
  doneSeen : Bool := false      -- ghost: Done() has been called
  result : Option Result := none
  retAfterDone : Bool := false  -- ghost: Done() had been called when Launch returned
  deriving Repr, DecidableEq

def init (order : List LStep) : St := { todo := order }

/-- the launcher's next step -/
def lstep (s : St) : Option St :=
  match s.todo with
  | [] => none
  | .notify :: r => some { s with todo := r, handler := true }
  | .start :: r =>
    if s.dstate = .notStarted then some { s with todo := r, dstate := .working }
    else -- cmd.Start() on a started Cmd fails: "start daemon: …" on stderr, return
      some { s with todo := r, stderr := true, lstatus := .failed, dparent := .init }
  | .printPid :: r =>
    if s.dstate = .notStarted then -- cmd.Process is nil: run-time panic, trace on stderr
      some { s with todo := r, stderr := true, lstatus := .failed }
    else some { s with todo := r, printed := true }
  | .spawnWaiter :: r => some { s with todo := r, waiterOn := true }
  | .select :: r =>
    if s.pending then some { s with todo := r, pending := false, selected := true }
    else if s.finished then some { s with todo := r, selected := true }
    else none
  | .pause :: r => if s.released then some { s with todo := r } else none
  | .other :: r => some { s with todo := r }

def step (s : St) : Label → Option St
  | .lnext => if s.lstatus = .running then lstep s else none
  | .lexit =>
    if s.lstatus = .running ∧ s.todo = [] then some { s with lstatus := .exited, dparent := .init }
    else none
  | .work => if s.dstate = .working ∨ s.dstate = .ran then some s else none
  | .done =>
    if s.dstate = .working then
      -- os.Getppid(): the launcher while it lives (then it gets the signal), else init (no effect)
      some { s with dstate := .ran, doneSeen := true,
                    inflight := s.dparent = .launcher ∧ s.lstatus = .running }
    else none
  | .deliver =>
    if s.inflight then
      if s.lstatus = .running then
        if s.handler then some { s with inflight := false, pending := true }
        else some { s with inflight := false, lstatus := .killed, dparent := .init }
      else some { s with inflight := false }
    else none
  | .crash => if s.dstate = .working then some { s with dstate := .crashed } else none
  | .waiter =>
    if s.lstatus = .running ∧ s.waiterOn ∧ s.dstate = .crashed ∧ ¬ s.finished then
      some { s with finished := true, stderr := true }
    else none
  | .release => if s.released then none else some { s with released := true }
  | .ret =>
    if s.result = none ∧ s.lstatus ≠ .running then
      let r := match s.lstatus with
        | .exited => if s.stderr then Result.err else if s.printed then .ok daemonPid else .err
        | _ => .err
      some { s with result := some r, retAfterDone := s.doneSeen }
    else none

/-- run an interleaving (a list of labels); `none` = some step was not enabled -/
def run : List Label → St → Option St
  | [], s => some s
  | l :: ls, s =>
    match step s l with
    | some s' => run ls s'
    | none => none

/-- nothing but the daemon's own work can happen any more -/
def Maximal (s : St) : Prop := ∀ l, l ≠ .work → step s l = none

/-- static check of a launcher order: abstract execution of the straight-line code.
    `h` handler installed, `st` daemon started, `pr` pid printed, `sel` select passed. -/
def good : (h st pr sel : Bool) → List LStep → Bool
  | _, _, pr, sel, [] => pr && sel
  | _, st, pr, sel, .notify :: r => good true st pr sel r
  | h, st, pr, sel, .start :: r => h && !st && good h true pr sel r
  | h, st, _, sel, .printPid :: r => st && good h st true sel r
  | h, st, pr, sel, .spawnWaiter :: r => good h st pr sel r
  | h, st, pr, sel, .select :: r => !sel && good h st pr true r
  | h, st, pr, sel, .pause :: r => good h st pr sel r
  | h, st, pr, sel, .other :: r => good h st pr sel r

/-- `signal.Notify` precedes the (only) `cmd.Start()`, the pid is printed after the start, and
    the launcher passes exactly one select before it returns -/
def GoodOrder (order : List LStep) : Prop := good false false false false order = true

instance (order : List LStep) : Decidable (GoodOrder order) := by unfold GoodOrder; infer_instance

end Glb.Daemon
