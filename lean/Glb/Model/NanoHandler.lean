/-
  Model of /repo/logger/nano_handler.go (colour off), function by function, in the style of
  `Model/JsonHandler.lean` and `Model/TextHandler.lean`.

  * Go `string` / `[]byte` = `Bytes`; `*buf = append(*buf, x...)` is `buf ++ x`.
  * `Leaf` — what `appendNanoValue` is handed after `Value.Resolve()` when the value is not a group;
    the results of the stdlib calls (`strconv.Append*`, `Duration.String`, `Time.AppendFormat`,
    `fmt.Append`) are payloads supplied by the harness.  NanoHandler writes every one of them
    verbatim after one space: no quoting, no escaping, no recover.
  * `Attr` — resolved attribute trees.  Keys are carried but never read (`appendNanoValue` receives
    `a.Value` only); groups are flattened.
  * `withAttrs` (no attributes: the same handler), `withGroup` (= identity), `handle`.
  * `appendDateTime` is a payload too (`Rec.time`); the source loop is byte-for-byte the loop of
    `appendJsonSource` and is shared (`JsonHandler.trimSource`).

  Core Lean only (the driver links this file).
-/
import Glb.Basic
import Glb.Generated.Logger
import Glb.Model.JsonHandler

namespace Glb.NanoHandler
open Glb

/-- a resolved non-group `slog.Value` as the `switch v.Kind()` of `appendNanoValue` sees it -/
inductive Leaf where
  /-- KindString: `v.String()` -/
  | str (s : Bytes)
  /-- KindInt64 / Uint64 / Float64 / Bool / Duration / Time: the text the stdlib call produced -/
  | raw (text : Bytes)
  /-- KindAny that is not an `AnsiString`: the bytes `fmt.Append(nil, va)` produced -/
  | any (text : Bytes)
  /-- `AnsiString` (colour off): its `Value` -/
  | ansi (value : Bytes)
  deriving Repr, Inhabited

/-- the bytes written after the space -/
def leafText : Leaf → Bytes
  | .str s => s
  | .raw t => t
  | .any t => t
  | .ansi v => v

inductive Attr where
  | leaf (key : Bytes) (v : Leaf)
  | group (key : Bytes) (as : List Attr)
  deriving Inhabited

mutual
/-- `appendNanoValue(buf, a.Value, false)` -/
def appendNanoValue (buf : Bytes) : Attr → Bytes
  | .leaf _ v => buf ++ 0x20 :: leafText v
  | .group _ as => appendNanoValues buf as
/-- `for _, a := range … { appendNanoValue(buf, a.Value, …) }` (group members, `WithAttrs`, `Handle`) -/
def appendNanoValues (buf : Bytes) : List Attr → Bytes
  | [] => buf
  | a :: as => appendNanoValues (appendNanoValue buf a) as
end

/-- `NanoHandler` state that matters for the output -/
structure H where
  pre : Bytes := []
  deriving Repr

def H.init : H := {}

/-- `WithAttrs` -/
def withAttrs (h : H) (as : List Attr) : H :=
  if as.length == 0 then h else { pre := appendNanoValues h.pre as }

/-- `WithGroup`: `return h` -/
def withGroup (h : H) (_name : Bytes) : H := h

/-- `appendShortLevel(buf, l, false)`: `labelList[l]`, an index expression that can panic -/
def shortLevel (l : Int) : Except GoPanic Bytes :=
  if l < 0 then .error (.other "index out of range (negative)")
  else idx? Generated.labelList l.toNat

structure Rec where
  /-- what `appendDateTime(buf, r.Time)` writes -/
  time : Bytes
  level : Int
  /-- `r.PC > 0` -/
  hasPC : Bool := false
  /-- `runtime.CallersFrames(r.PC)` frame: file and the strconv text of the line -/
  file : Bytes := []
  line : Bytes := [0x30]
  msg : Bytes
  attrs : List Attr
  deriving Inhabited

/-- bytes appended by `appendNanoSource` -/
def appendNanoSource (file line : Bytes) : Bytes := JsonHandler.trimSource file ++ 0x3A :: line

/-- `Handle`: the bytes given to the single `out.Write` (or the panic of `labelList[l]`) -/
def handle (addSource : Bool) (h : H) (r : Rec) : Except GoPanic Bytes := do
  let buf : Bytes := r.time ++ [0x20]
  let lvl ← shortLevel r.level
  let buf := buf ++ lvl
  let buf := if addSource && r.hasPC then buf ++ 0x20 :: appendNanoSource r.file r.line else buf
  let buf := if r.msg.length > 0 then buf ++ 0x20 :: r.msg else buf
  let buf := if h.pre.length > 0 then buf ++ h.pre else buf
  let buf := if r.attrs.length > 0 then appendNanoValues buf r.attrs else buf
  return buf ++ [0x0A]

/-- one derivation step of a logger -/
inductive Deriv where
  | attrs (as : List Attr)
  | group (name : Bytes)
  deriving Inhabited

def derive (h : H) : Deriv → H
  | .attrs as => withAttrs h as
  | .group g => withGroup h g

def deriveAll (h : H) (ds : List Deriv) : H := ds.foldl derive h

end Glb.NanoHandler
