/-
  Supporting model of `/repo/util/strutil/strutil.go`: `Camelize`, `IsDigitString`, `SliceContain`.
  (`Underscore` is `Glb.Config.underscore` in Glb/Model/Config.lean, `ShellEscape*` are in
  Glb/Model/Strutil.lean.)  Byte loops transcribed as structural recursions; core Lean only.
-/
import Glb.Basic
import Glb.Model.Config

namespace Glb.Aux.Str
open Glb.Config (isLower isUpper isDigit)

/-- the loop of `Camelize`: the `upper` variable, `len(buf) > 0`, the bytes not yet visited;
    returns what is appended to `buf` from here on -/
def camelizeGo : Bool → Bool → Bytes → Bytes
  | _, _, [] => []
  | upper, nonEmpty, c :: rest =>
    if isLower c then
      -- `if upper { c -= 'a' - 'A'; upper = false }` (upper is false afterwards either way)
      (if upper then c - 0x20 else c) :: camelizeGo false true rest
    else if isUpper c then
      -- `if !upper { c += 'a' - 'A' }; upper = false`
      (if !upper then c + 0x20 else c) :: camelizeGo false true rest
    else if isDigit c then
      c :: camelizeGo upper true rest
    else
      -- `upper = len(buf) > 0 || upper`
      camelizeGo (nonEmpty || upper) nonEmpty rest

def camelize (s : Bytes) (upper : Bool) : Bytes := camelizeGo upper false s

/-- the loop of `IsDigitString` (`return false` at the first byte outside '0'..'9') -/
def allDigitsGo : Bytes → Bool
  | [] => true
  | c :: rest => if c < 0x30 || c > 0x39 then false else allDigitsGo rest

/-- `IsDigitString`: after the loop `return s != ""` -/
def isDigitString (s : Bytes) : Bool := allDigitsGo s && !s.isEmpty

/-- `SliceContain` -/
def sliceContain : List Bytes → Bytes → Bool
  | [], _ => false
  | x :: rest, v => if v = x then true else sliceContain rest v

/-! ### specification side -/

def toLowerByte (c : UInt8) : UInt8 := if isUpper c then c + 0x20 else c
def toUpperByte (c : UInt8) : UInt8 := if isLower c then c - 0x20 else c
def isLetter (c : UInt8) : Bool := isLower c || isUpper c
def isAlnumByte (c : UInt8) : Bool := isLower c || isUpper c || isDigit c

/-- what `Camelize` does to a string of letters and digits: the first letter gets the requested
    case, every later letter is lower-cased, digits stay -/
def capFirst (upper : Bool) : Bytes → Bytes
  | [] => []
  | c :: rest =>
    if isLetter c then (if upper then toUpperByte c else toLowerByte c) :: rest.map toLowerByte
    else c :: capFirst upper rest

end Glb.Aux.Str
