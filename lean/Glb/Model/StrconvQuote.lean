/-
  Hand model of Go's `strconv.AppendQuote` / `strconv.Quote` and of `strconv.Unquote` restricted to
  double-quoted literals (go1.23 `strconv/quote.go`), function by function.  Standard library:
  modelled, not verified — compared with the real functions by the harness stream `quote`.

  * Go `string` = `Bytes` (arbitrary bytes), `rune` = `Nat` (negative runes cannot arise: every rune
    here comes out of `utf8.DecodeRuneInString` or out of a hex/octal parse).
  * `utf8.DecodeRuneInString` is the shared model `Glb.Utf8.decodeRune`; `utf8.AppendRune`,
    `utf8.ValidRune`, `utf8.ValidString` are modelled here (`appendRune`, `validRune`, `validString`).
  * `strconv.IsPrint` (Go's Unicode tables) is a PARAMETER `isPrint : Nat → Bool`.  The only fact the
    theorems need about it is `PrintOK`: no rune below U+0020 is printable (Go guarantees much more:
    for r ≤ 0xFF the function is the explicit test `0x20 ≤ r ≤ 0x7E ∨ (0xA1 ≤ r ≤ 0xFF ∧ r ≠ 0xAD)`,
    instance `latin1Print`).
  * Loops `for …; len(s) > 0; s = s[width:]` are written with a skip counter (first argument: bytes of
    the current unit still to be stepped over), so that they are structurally recursive.
  Core Lean only (this file is linked into the driver).
-/
import Glb.Basic
import Glb.Model.Utf8

namespace Glb.Quote
open Glb Glb.Utf8

/-! ### unicode/utf8 helpers -/

/-- `utf8.ValidRune`: `0 ≤ r < 0xD800 || 0xDFFF < r ≤ MaxRune` -/
def validRune (r : Nat) : Bool := r < 0xD800 || (0xDFFF < r && r ≤ 0x10FFFF)

/-- `utf8.AppendRune(nil, r)`: surrogates and values above `MaxRune` are written as U+FFFD -/
def appendRune (r : Nat) : Bytes :=
  if r < 0x80 then [UInt8.ofNat r]
  else if r < 0x800 then encodeRune r
  else if r > 0x10FFFF || (0xD800 ≤ r && r ≤ 0xDFFF) then encodeRune runeError
  else encodeRune r

/-- `utf8.ValidString`: no decoding step yields `(RuneError, 1)` -/
def validLoop : Nat → Bytes → Bool
  | _, [] => true
  | k + 1, _ :: rest => validLoop k rest
  | 0, b :: rest =>
    if b < 0x80 then validLoop 0 rest
    else if (decodeRune (b :: rest)).2 < 2 then false
    else validLoop ((decodeRune (b :: rest)).2 - 1) rest

def validString (s : Bytes) : Bool := validLoop 0 s

/-! ### the assumption about `strconv.IsPrint` -/

/-- What the theorems assume about `strconv.IsPrint` / `unicode.IsPrint`: control characters below
    U+0020 are not printable.  (Everything else — which letters, marks, symbols … are printable — is
    left open.) -/
structure PrintOK (isPrint : Nat → Bool) : Prop where
  ctrl : ∀ r, r < 0x20 → isPrint r = false

/-- instance "ASCII printable only": U+0020 … U+007E -/
def asciiPrint (r : Nat) : Bool := 0x20 ≤ r && r ≤ 0x7e

/-- Go's `IsPrint` on Latin-1 (the explicit fast path of `strconv.IsPrint`), `hi` beyond -/
def latin1Print (hi : Nat → Bool) (r : Nat) : Bool :=
  if r ≤ 0xFF then
    if 0x20 ≤ r && r ≤ 0x7E then true
    else if 0xA1 ≤ r && r ≤ 0xFF then r != 0xAD
    else false
  else hi r

/-! ### strconv.AppendQuote -/

/-- `lowerhex[n & 0xF]` -/
def hexDigit (n : Nat) : UInt8 :=
  if n % 16 < 10 then UInt8.ofNat (48 + n % 16) else UInt8.ofNat (87 + n % 16)

/-- `\u` followed by `lowerhex[r>>s & 0xF]` for s = 12, 8, 4, 0 -/
def uEsc (r : Nat) : Bytes :=
  [0x5c, 0x75, hexDigit (r / 4096), hexDigit (r / 256), hexDigit (r / 16), hexDigit r]

/-- `\U` followed by `lowerhex[r>>s & 0xF]` for s = 28, 24, …, 0 -/
def bigUEsc (r : Nat) : Bytes :=
  [0x5c, 0x55, hexDigit (r / 268435456), hexDigit (r / 16777216), hexDigit (r / 1048576),
   hexDigit (r / 65536), hexDigit (r / 4096), hexDigit (r / 256), hexDigit (r / 16), hexDigit r]

/-- `\x` followed by `lowerhex[b>>4]`, `lowerhex[b&0xF]` -/
def xEsc (b : Nat) : Bytes := [0x5c, 0x78, hexDigit (b / 16), hexDigit b]

/-- `appendEscapedRune(nil, r, '"', false, false)` -/
def escapedRune (isPrint : Nat → Bool) (r : Nat) : Bytes :=
  if r == 0x22 || r == 0x5c then [0x5c, UInt8.ofNat r]        -- always backslashed
  else if isPrint r then appendRune r
  else if r == 0x07 then [0x5c, 0x61]                          -- \a
  else if r == 0x08 then [0x5c, 0x62]                          -- \b
  else if r == 0x0c then [0x5c, 0x66]                          -- \f
  else if r == 0x0a then [0x5c, 0x6e]                          -- \n
  else if r == 0x0d then [0x5c, 0x72]                          -- \r
  else if r == 0x09 then [0x5c, 0x74]                          -- \t
  else if r == 0x0b then [0x5c, 0x76]                          -- \v
  else if r < 0x20 || r == 0x7f then xEsc (r % 256)
  else if !validRune r then uEsc 0xFFFD                        -- `r = 0xFFFD; fallthrough`
  else if r < 0x10000 then uEsc r
  else bigUEsc r

/-- the loop of `appendQuotedWith` (quote = '"', ASCIIonly = graphicOnly = false) -/
def quoteLoop (isPrint : Nat → Bool) : Nat → Bytes → Bytes
  | _, [] => []
  | k + 1, _ :: rest => quoteLoop isPrint k rest
  | 0, b :: rest =>
    -- r := rune(s[0]); width = 1; if r >= utf8.RuneSelf { r, width = utf8.DecodeRuneInString(s) }
    let d : Nat × Nat := if b < 0x80 then (b.toNat, 1) else decodeRune (b :: rest)
    if d.2 == 1 && d.1 == runeError then
      xEsc b.toNat ++ quoteLoop isPrint 0 rest
    else
      escapedRune isPrint d.1 ++ quoteLoop isPrint (d.2 - 1) rest

/-- `strconv.Quote(s)` -/
def goQuote (isPrint : Nat → Bool) (s : Bytes) : Bytes := 0x22 :: quoteLoop isPrint 0 s ++ [0x22]

/-- `strconv.AppendQuote(dst, s)` -/
def appendQuote (isPrint : Nat → Bool) (dst s : Bytes) : Bytes := dst ++ goQuote isPrint s

/-! ### strconv.Unquote (double-quoted literals) -/

/-- `unhex` -/
def unhex (b : UInt8) : Option Nat :=
  if 0x30 ≤ b && b ≤ 0x39 then some (b.toNat - 0x30)
  else if 0x61 ≤ b && b ≤ 0x66 then some (b.toNat - 0x61 + 10)
  else if 0x41 ≤ b && b ≤ 0x46 then some (b.toNat - 0x41 + 10)
  else none

/-- `for j := 0; j < n; j++ { v = v<<4 | unhex(s[j]) }`; `none` = too short or not a hex digit.
    (Go's `v` is an int32 that may wrap to a negative number for 8 digits ≥ 0x80000000; such a value
    fails `ValidRune` exactly as the unwrapped natural number does.) -/
def hexVal : Nat → Bytes → Nat → Option Nat
  | 0, _, v => some v
  | _ + 1, [], _ => none
  | n + 1, b :: s, v =>
    match unhex b with
    | none => none
    | some x => hexVal n s (v * 16 + x)

def isOctal (b : UInt8) : Bool := 0x30 ≤ b && b ≤ 0x37

/-- The "hard case" of `UnquoteChar(s, '"')`: `s = '\\' :: c :: t`.  Returns the value, the
    `multibyte` flag and the number of bytes of `t` consumed. -/
def escapeChar (c : UInt8) (t : Bytes) : Option (Nat × Bool × Nat) :=
  if c == 0x61 then some (0x07, false, 0)
  else if c == 0x62 then some (0x08, false, 0)
  else if c == 0x66 then some (0x0c, false, 0)
  else if c == 0x6e then some (0x0a, false, 0)
  else if c == 0x72 then some (0x0d, false, 0)
  else if c == 0x74 then some (0x09, false, 0)
  else if c == 0x76 then some (0x0b, false, 0)
  else if c == 0x78 then                                       -- \xNN: a byte, possibly not UTF-8
    match hexVal 2 t 0 with
    | none => none
    | some v => some (v, false, 2)
  else if c == 0x75 then                                       -- \uNNNN
    match hexVal 4 t 0 with
    | none => none
    | some v => if validRune v then some (v, true, 4) else none
  else if c == 0x55 then                                       -- \UNNNNNNNN
    match hexVal 8 t 0 with
    | none => none
    | some v => if validRune v then some (v, true, 8) else none
  else if isOctal c then                                       -- \NNN
    match t with
    | d1 :: d2 :: _ =>
      if isOctal d1 && isOctal d2 then
        let v := ((c.toNat - 0x30) * 8 + (d1.toNat - 0x30)) * 8 + (d2.toNat - 0x30)
        if v > 255 then none else some (v, false, 2)
      else none
    | _ => none
  else if c == 0x5c then some (0x5c, false, 0)
  else if c == 0x22 then some (0x22, false, 0)                 -- `\"`: c == quote
  else none                                                    -- includes `\'` (c != quote)

/-- `UnquoteChar(s, '"')`: value, `multibyte`, number of bytes consumed (`len(s) - len(tail)`) -/
def unquoteChar : Bytes → Option (Nat × Bool × Nat)
  | [] => none
  | c :: t =>
    if c == 0x22 then none
    else if 0x80 ≤ c then some ((decodeRune (c :: t)).1, true, (decodeRune (c :: t)).2)
    else if c != 0x5c then some (c.toNat, false, 1)
    else match t with
      | [] => none
      | e :: t' =>
        match escapeChar e t' with
        | none => none
        | some (v, mb, n) => some (v, mb, n + 2)

/-- what the loop of `unquote` appends for one character -/
def charBytes (v : Nat) (multibyte : Bool) : Bytes :=
  if v < 0x80 || !multibyte then [UInt8.ofNat v] else appendRune v

/-- The loop `for len(in) > 0 && in[0] != quote { … }` of `unquote` followed by the check for the
    terminating quote: the unescaped bytes and what follows the terminating quote. -/
def unquoteLoop : Nat → Bytes → Option (Bytes × Bytes)
  | _, [] => none                                              -- no terminating quote
  | k + 1, _ :: rest => unquoteLoop k rest
  | 0, b :: rest =>
    if b == 0x22 then some ([], rest)
    else
      match unquoteChar (b :: rest) with
      | none => none
      | some (v, mb, n) =>
        if b == 0x0a then none                                 -- `in[0] == '\n'`
        else
          match unquoteLoop (n - 1) rest with
          | none => none
          | some (out, rem) => some (charBytes v mb ++ out, rem)

/-- `index(s, c)` -/
def indexByte (c : UInt8) : Bytes → Option Nat
  | [] => none
  | b :: rest => if b == c then some 0 else (indexByte c rest).map (· + 1)

/-- the general path of `Unquote` on a double-quoted literal (no shortcut) -/
def slowUnquote : Bytes → Option Bytes
  | [] => none
  | q :: tail =>
    if q != 0x22 then none
    else match unquoteLoop 0 tail with
      | none => none
      | some (out, rem) => if rem.isEmpty then some out else none

/-- `strconv.Unquote(s)` for literals that do not start with '`' or '\''.  (For those two quote
    characters Go has separate rules; this model answers `none` and the harness never asks.)  As in
    Go: length check, search for the first '"' after the opening one, the shortcut for an interior
    without backslash / newline that is valid UTF-8, otherwise the escape loop; trailing bytes after
    the terminating quote are a syntax error. -/
def goUnquote (s : Bytes) : Option Bytes :=
  if s.length < 2 then none
  else match s with
    | [] => none
    | q :: tail =>
      if q != 0x22 then none
      else match indexByte 0x22 tail with
        | none => none
        | some e =>
          let body := tail.take e
          if !body.contains 0x5c && !body.contains 0x0a && validString body then
            (if (tail.drop (e + 1)).isEmpty then some body else none)
          else slowUnquote s

end Glb.Quote
