/-
  Interleaving semantics of concurrent requests on one Mux (C05, concurrent case).

  `Mux.ServeHTTP` of one request is split at the point where the handler runs:
    * `begin k req names choice` — request `k` takes a Store from the pool (ANY pooled Store or a
      new one), bumps the counter atomically, sets the id, runs `findRoute` into the Store's `P`;
      this fixes what the relay handler and the selected handler of request `k` observe.  From now
      on the Store is IN FLIGHT, owned by request `k`.
    * `finish k beh` — the handler's own effect (`WriteHeader`, panic), then reset + Put; the Store
      of a panicking handler is simply dropped.
    * `register p m` — `Mux.Handle`; enabled only while no request is in flight (the property
      says "registered between requests"; `Handle` takes the write lock).
    * `drop i` — sync.Pool forgets a pooled Store.
  Any number of requests may be in flight at once; a history is ANY list of events (an event that
  is not enabled — `begin` with a key already in flight, `finish` of an unknown key, `register`
  with requests in flight — does nothing), so quantifying over all event lists quantifies over
  all interleavings.

  Stores are values in this model; to speak about OWNERSHIP every Store carries an identity `sid`
  (its address): the invariant says that no `sid` is pooled twice, in flight twice, or both.
  `regs` is a ghost field: the registrations attempted so far, in order.
-/
import Glb.Model.Store

namespace Glb.Store
open Glb Glb.Router

/-- a Store in flight: the request that owns it, its identity, its contents -/
structure Flight where
  key : Nat
  sid : Nat
  st : StoreSt

structure CState where
  root : Node
  nextId : Nat
  maxParams : Nat
  counter : Nat
  pfx : Bytes
  pool : List (Nat × StoreSt)        -- (identity, contents)
  inflight : List Flight
  nextSid : Nat                      -- identities handed out so far
  regs : List (Bytes × Bytes)        -- ghost: registrations attempted so far

/-- `NewMux()` -/
def cfresh (pfx : Bytes) : CState :=
  { root := Node.empty, nextId := 0, maxParams := 0, counter := 0, pfx := pfx, pool := [], inflight := [],
    nextSid := 0, regs := [] }

/-- the sequential view of the shared part -/
def CState.toMux (s : CState) : MuxSt :=
  { root := s.root, nextId := s.nextId, maxParams := s.maxParams, pool := s.pool.map (·.2),
    counter := s.counter, pfx := s.pfx }

/-- `storePool.Get()` with identities: any pooled Store, or a new one with a fresh identity -/
def cget (s : CState) (choice : Option Nat) : (Nat × StoreSt) × List (Nat × StoreSt) × Nat :=
  match choice with
  | some i =>
    match s.pool[i]? with
    | some e => (e, s.pool.eraseIdx i, s.nextSid)
    | none => ((s.nextSid, newStore s.toMux), s.pool, s.nextSid + 1)
  | none => ((s.nextSid, newStore s.toMux), s.pool, s.nextSid + 1)

/-- first half of `ServeHTTP` for request `k`: Get, counter, id, `findRoute`, and what the relay
    and the handler will observe.  A panic here (none can happen, by theorem) loses the Store. -/
def beginReq (grow : Nat → Nat) (render : Nat → Bytes) (s : CState) (k : Nat) (req : Req) (names : List Bytes)
    (choice : Option Nat) : CState × Except GoPanic (List Obs) :=
  let ((sid, st0), pool', nextSid') := cget s choice
  let c := s.counter + 1                                  -- atomic.AddUint64(&mux.storeID, 1)
  let s1 := { s with pool := pool', counter := c, nextSid := nextSid' }
  let st1 := { st0 with id := GoSlice.pushAll grow 0 st0.id (render c) }
  match findRoute s.root req.path req.method ⟨st1.K, st1.V.elems⟩ with
  | .error e => (s1, .error e)
  | .ok (info, ps) =>
    let st2 := { st1 with
      K := ps.K,
      V := GoSlice.pushAll grow [] st1.V (ps.V.drop st1.V.len),
      target := some (targetOf info) }
    match observe st2 names, observe st2 names with
    | .ok o1, .ok o2 => ({ s1 with inflight := ⟨k, sid, st2⟩ :: s1.inflight }, .ok [o1, o2])
    | .error e, _ => (s1, .error e)
    | _, .error e => (s1, .error e)

/-- second half of `ServeHTTP` for request `k`: handler effect, reset, Put -/
def finishReq (s : CState) (k : Nat) (beh : Behaviour) : CState :=
  match s.inflight.find? (fun f => f.key == k) with
  | none => s
  | some f =>
    let rest := s.inflight.filter (fun g => g.key != k)
    let st3 := { f.st with status := beh.writeStatus.getD f.st.status }
    if beh.panics then { s with inflight := rest }          -- the Store is not returned
    else
      match st3.id.reslice? 9 with                           -- store.id = store.id[:9]
      | .error _ => { s with inflight := rest }
      | .ok id' =>
        let st4 : StoreSt := { K := [], V := ⟨st3.V.arr, 0⟩, status := 0, target := none, id := id' }
        { s with inflight := rest, pool := (f.sid, st4) :: s.pool }

/-- `Mux.Handle` on the shared part -/
def registerReq (s : CState) (p m : Bytes) : CState :=
  match handle s.toMux p m with
  | .ok (mux', _) =>
    { s with root := mux'.root, nextId := mux'.nextId, maxParams := mux'.maxParams, regs := s.regs ++ [(p, m)] }
  | .error _ => s

inductive CEvent where
  | begin (k : Nat) (req : Req) (names : List Bytes) (choice : Option Nat)
  | finish (k : Nat) (beh : Behaviour)
  | register (p m : Bytes)
  | drop (i : Nat)

def CState.inFlight (s : CState) (k : Nat) : Bool := s.inflight.any (fun f => f.key == k)

/-- which events can happen -/
def cenabled (s : CState) : CEvent → Bool
  | .begin k .. => !s.inFlight k
  | .finish k _ => s.inFlight k
  | .register .. => s.inflight.isEmpty
  | .drop _ => true

def cstep (grow : Nat → Nat) (render : Nat → Bytes) (s : CState) (e : CEvent) : CState :=
  if cenabled s e then
    match e with
    | .begin k req names choice => (beginReq grow render s k req names choice).1
    | .finish k beh => finishReq s k beh
    | .register p m => registerReq s p m
    | .drop i => { s with pool := s.pool.eraseIdx i }
  else s

def crun (grow : Nat → Nat) (render : Nat → Bytes) (s : CState) (evs : List CEvent) : CState :=
  evs.foldl (cstep grow render) s

/-- a fresh Mux on which exactly the given registrations have been attempted, in order -/
def regRun (pfx : Bytes) (regs : List (Bytes × Bytes)) : MuxSt :=
  regs.foldl (fun m r => match handle m r.1 r.2 with
    | .ok (m', _) => m'
    | .error _ => m) (fresh pfx)

end Glb.Store
