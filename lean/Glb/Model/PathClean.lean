/-
  Model of Go's `path.Clean`, `filepath.Join` (POSIX: Separator = '/', no volume names, so
  `filepath.Clean = path.Clean` and `filepath.FromSlash = id`) and of
  `/repo/util/fsutil/path.go: ResolveUrlPath`.

  stdlib — modelled, not verified.  Go's `Clean` is a byte loop over a lazily allocated output
  buffer (`lazybuf`, indices `r`, `w`, `dotdot`).  Its observable behaviour is modelled here at the
  level of path *segments*:

    * the input is split at every '/' byte (`split`; "a//b/" ↦ ["a","","b",""]);
    * the segments are processed left to right with a stack (`step`): "" and "." are skipped;
      ".." pops the last real segment if there is one (Go: `out.w > dotdot`, backtrack to the
      previous '/'), is dropped when the path is rooted, and is kept when it is not (Go: append
      "..", `dotdot = out.w`); every other segment is pushed;
    * the stack is rendered with '/' separators behind the leading '/' of a rooted path; the empty
      relative result is "." (`render`).

  The harness stream `fsutil` compares `clean`, `join` and `resolveUrlPath` with the real
  `path.Clean`, `filepath.Join` and `fsutil.ResolveUrlPath` on every string up to length 8 over
  {'/', '.', 'a', '\'} and on random strings.  Everything is structural (folds) so that the
  theorems of `Props/C17.lean` are proved for all byte strings.
-/
import Glb.Basic

namespace Glb.PathClean

/-- '/' -/
def slash : UInt8 := 47
/-- "." -/
def dot : Bytes := [46]
/-- ".." -/
def dotdot : Bytes := [46, 46]

/-- split at every '/' (like `strings.Split(p, "/")`): never empty, `split "" = [""]`. -/
def split : Bytes → List Bytes
  | [] => [[]]
  | c :: cs =>
    if c = slash then [] :: split cs
    else match split cs with
      | s :: ss => (c :: s) :: ss
      | [] => [[c]]

/-- `strings.Join(segs, "/")` -/
def unsplit : List Bytes → Bytes
  | [] => []
  | [s] => s
  | s :: t :: rest => s ++ slash :: unsplit (t :: rest)

/-- `path[0] == '/'` guarded by `path != ""` -/
def isRooted : Bytes → Bool
  | [] => false
  | c :: _ => c = slash

/-- One segment of Clean's main loop.  The stack is kept reversed (top = head). -/
def step (rooted : Bool) (st : List Bytes) (seg : Bytes) : List Bytes :=
  if seg = [] ∨ seg = dot then st
  else if seg = dotdot then
    match st with
    | top :: rest =>
      if top ≠ dotdot then rest            -- `out.w > dotdot`: backtrack over the last real element
      else if rooted then st               -- (unreachable: a rooted stack holds no "..")
      else dotdot :: st                    -- `!rooted`: append another ".."
    | [] => if rooted then [] else [dotdot]
  else seg :: st

/-- the stack (bottom first) left by Clean's loop -/
def stackOf (rooted : Bool) (segs : List Bytes) : List Bytes :=
  (segs.foldl (step rooted) []).reverse

/-- the output buffer: "/" ++ join for rooted paths, join otherwise, "" ↦ "." -/
def render (rooted : Bool) (stack : List Bytes) : Bytes :=
  if rooted then slash :: unsplit stack
  else if stack = [] then dot
  else unsplit stack

/-- `path.Clean` (= `filepath.Clean` on POSIX). -/
def clean (p : Bytes) : Bytes :=
  render (isRooted p) (stackOf (isRooted p) (split p))

/-- `filepath.FromSlash` on POSIX (`Separator == '/'`): the identity. -/
def fromSlash (p : Bytes) : Bytes := p

/-- `filepath.Join(elem...)` on POSIX: leading empty elements are skipped, the rest is joined with
    '/' (later empty elements included, they vanish in Clean) and cleaned; all empty ↦ "". -/
def join (elems : List Bytes) : Bytes :=
  match elems.dropWhile (fun e => e = []) with
  | [] => []
  | es => clean (unsplit es)

/-- `if rawUrlPath == "" || rawUrlPath[0] != '/' { rawUrlPath = "/" + rawUrlPath }`
    (the index expression is only evaluated for a non-empty string: it cannot panic). -/
def forceSlash (url : Bytes) : Bytes :=
  match url with
  | [] => slash :: url
  | c :: _ => if c ≠ slash then slash :: url else url

/-- `fsutil.ResolveUrlPath(baseFilePath, rawUrlPath)` -/
def resolveUrlPath (base url : Bytes) : Bytes :=
  join [base, fromSlash (clean (forceSlash url))]

end Glb.PathClean
