/-
  Model of /repo/util/strutil/strutil.go: ShellEscape, ShellEscapeExceptTilde   (C16)

      func ShellEscape(s string) string {
          return "'" + strings.Replace(s, "'", `'"'"'`, -1) + "'"
      }
      func ShellEscapeExceptTilde(s string) string {
          if strings.HasPrefix(s, "~/") { return "~/" + ShellEscape(s[2:]) }
          return ShellEscape(s)
      }

  Every literal (prefix, old, new, count, suffix, "~/", "~/", 2) comes from
  `Glb.Generated.Strutil`, i.e. from the source text as it is now; nothing is retyped here.
  Core Lean only.
-/
import Glb.Basic
import Glb.Generated.Strutil

namespace Glb.Strutil

/-- `strings.Replace(s, old, new, n)` for a NON-EMPTY `old`: scan left to right, replace
    non-overlapping occurrences, at most `n` of them when `n > 0`, all of them when `n < 0`,
    none when `n = 0`.  `skip` = bytes of an already replaced occurrence still to be dropped.
    (For `old = ""` Go inserts `new` at every rune boundary; that case is not modelled — this
    function then returns `s` unchanged — and is excluded by the tie lemma `old_eq`.) -/
def replaceGo (old new : Bytes) : (n : Int) → (skip : Nat) → Bytes → Bytes
  | _, _, [] => []
  | n, skip + 1, _ :: t => replaceGo old new n skip t
  | n, 0, b :: t =>
    if n ≠ 0 ∧ old ≠ [] ∧ old.isPrefixOf (b :: t) = true then
      new ++ replaceGo old new (if n > 0 then n - 1 else n) (old.length - 1) t
    else
      b :: replaceGo old new n 0 t

/-- `pre + strings.Replace(s, old, new, n) + suf`, all literals as parameters. -/
def shellEscapeGen (pre old new suf : Bytes) (n : Int) (s : Bytes) : Bytes :=
  pre ++ replaceGo old new n 0 s ++ suf

/-- ShellEscape with the replacement literal as a parameter and every other literal as read
    from the source. -/
def shellEscapeWith (repl : Bytes) (s : Bytes) : Bytes :=
  shellEscapeGen Generated.shellEscapePrefix Generated.shellEscapeOld repl
    Generated.shellEscapeSuffix Generated.shellEscapeCount s

/-- `strutil.ShellEscape`. -/
def shellEscape : Bytes → Bytes := shellEscapeWith Generated.shellEscapeNew

/-- `strings.HasPrefix`. -/
def hasPrefix (s p : Bytes) : Bool := p.isPrefixOf s

/-- ShellEscapeExceptTilde, all literals as parameters.  `s[off:]` is a Go slice expression and
    panics when `off > len(s)`; that is kept (`slice?`), "never panics" is a theorem. -/
def shellEscapeExceptTildeGen (esc : Bytes → Bytes) (tp keep : Bytes) (off : Nat) (s : Bytes) :
    Except GoPanic Bytes :=
  if hasPrefix s tp then do
    let r ← slice? s off s.length
    pure (keep ++ esc r)
  else
    pure (esc s)

/-- `strutil.ShellEscapeExceptTilde`. -/
def shellEscapeExceptTilde (s : Bytes) : Except GoPanic Bytes :=
  shellEscapeExceptTildeGen shellEscape Generated.tildePrefix Generated.tildeKeep
    Generated.tildeSliceLow s

end Glb.Strutil
