/-
  Executable version of the step relation of `Glb.Model.TaskLane`.

  `ESt` is the model state with the per-lane / per-producer functions of `St` replaced by arrays;
  `toSt` maps it back.  `enabledSteps c e` enumerates the steps that `Step c (toSt e)` allows which
  need no parameter from the environment (takeLocal, handover/takeover with a parked partner,
  dflt, park, incCnt, decCnt, start, pushRet, cancel); the two steps that carry an environment
  parameter are separate functions: `finishStep` (the panic value) and `pushStep` (task, lane).

  Exactly like `Step`, the enumeration is a *generic* interpreter of select-programs: it reads the
  instruction at the goroutine's pc in `progOf c g` and applies the channel rules.  Nothing in this
  file mentions the concrete programs.  `Glb.Proofs.TaskLaneExec` proves that every enumerated
  step is a `Step` between the `toSt` images (soundness) and that every `Step` whose parameters
  are not chosen by the environment is enumerated (completeness).
-/
import Glb.Model.TaskLane

namespace Glb.TaskLane.Exec
open Glb.TaskLane

deriving instance Hashable for G
deriving instance Hashable for PushResult

structure ESt where
  cancelled : Bool := false
  buf : Array (List Tid) := #[]
  cnt : Nat := 0
  qs : Array G := #[]
  ws : Array G := #[]
  ps : Array G := #[]
  plane : Array Nat := #[]
  lastPanic : Option Nat := none
  accepted : List Tid := []
  results : List (Tid × PushResult) := []
  started : List Tid := []
  finished : List Tid := []
  panics : List Nat := []
  deriving BEq, Hashable, Repr

def toSt (e : ESt) : St :=
  { cancelled := e.cancelled
    buf := fun i => e.buf.getD i []
    cnt := e.cnt
    qs := fun i => e.qs.getD i {}
    ws := fun i => e.ws.getD i {}
    ps := fun k => e.ps.getD k {}
    plane := fun k => e.plane.getD k 0
    np := e.ps.size
    lastPanic := e.lastPanic
    accepted := e.accepted
    results := e.results
    started := e.started
    finished := e.finished
    panics := e.panics }

/-- initial state of a lane with `L` lanes -/
def einit (L : Nat) : ESt :=
  { buf := Array.replicate L [], qs := Array.replicate L {}, ws := Array.replicate L {} }

/-- the arrays have the sizes the configuration prescribes -/
structure WF (c : Cfg) (e : ESt) : Prop where
  buf : e.buf.size = c.L
  qs : e.qs.size = c.L
  ws : e.ws.size = c.L
  plane : e.plane.size = e.ps.size
  lanes : ∀ k, k < e.plane.size → e.plane.getD k 0 < c.L

def eget (e : ESt) : Gid → G
  | .q i => e.qs.getD i {}
  | .w i => e.ws.getD i {}
  | .p k => e.ps.getD k {}

def eset (e : ESt) (g : Gid) (x : G) : ESt :=
  match g with
  | .q i => { e with qs := e.qs.setIfInBounds i x }
  | .w i => { e with ws := e.ws.setIfInBounds i x }
  | .p k => { e with ps := e.ps.setIfInBounds k x }

def elane (e : ESt) : Gid → Nat
  | .q i => i
  | .w i => i
  | .p k => e.plane.getD k 0

def echanOf (e : ESt) (g : Gid) : Ch → Ch × Nat
  | .uni => (.uni, 0)
  | c => (c, elane e g)

def einstrAt (c : Cfg) (e : ESt) (g : Gid) : Option Instr := (progOf c g)[(eget e g).pc]?

/-- all goroutines that exist -/
def gids (c : Cfg) (e : ESt) : List Gid :=
  (List.range c.L).map .q ++ (List.range c.L).map .w ++ (List.range e.ps.size).map .p

def localReadyB (c : Cfg) (e : ESt) (g : Gid) : Case → Bool
  | .done => e.cancelled
  | .timeout => true
  | .recv .buf => !(e.buf.getD (elane e g) []).isEmpty
  | .send .buf => (e.buf.getD (elane e g) []).length < c.Q
  | _ => false

/-- is case `k`, evaluated by `h`, an operation on channel `ch`? -/
def onChan (e : ESt) (h : Gid) (k : Case) (ch : Ch × Nat) : Bool :=
  match k with
  | .recv x => decide (echanOf e h x = ch)
  | .send x => decide (echanOf e h x = ch)
  | _ => false

/-- the targets `th` such that `h` is parked in a blocking select containing `(k, th)` with `k` on channel `ch` -/
def parkedTargets (c : Cfg) (e : ESt) (h : Gid) (k : Case) (ch : Ch × Nat) : List Nat :=
  if (eget e h).parked then
    match einstrAt c e h with
    | some (.select cases none) =>
      cases.filterMap fun (k', th) =>
        if k' = k ∧ onChan e h k ch = true then some th else none
    | _ => []
  else []

/-- all parked partners `(h, th)` offering case `k` on channel `ch`, other than `g` -/
def partners (c : Cfg) (e : ESt) (g : Gid) (k : Case) (ch : Ch × Nat) : List (Gid × Nat) :=
  (gids c e).flatMap fun h => if h = g then [] else (parkedTargets c e h k ch).map fun th => (h, th)

def partnerReadyB (c : Cfg) (e : ESt) (g : Gid) : Case → Bool
  | .recv x => (x != .buf || c.Q == 0) && !(partners c e g (.send x) (echanOf e g x)).isEmpty
  | .send x => (x != .buf || c.Q == 0) && !(partners c e g (.recv x) (echanOf e g x)).isEmpty
  | _ => false

def readyB (c : Cfg) (e : ESt) (g : Gid) (k : Case) : Bool :=
  (k != .timeout && localReadyB c e g k) || partnerReadyB c e g k

def elocalEffect (e : ESt) (g : Gid) : Case → ESt
  | .recv .buf =>
    let l := elane e g
    let e1 := { e with buf := e.buf.setIfInBounds l (e.buf.getD l []).tail }
    eset e1 g { eget e g with held := (e.buf.getD l []).headD 0 }
  | .send .buf =>
    let l := elane e g
    { e with buf := e.buf.setIfInBounds l (e.buf.getD l [] ++ [(eget e g).held]),
             accepted := e.accepted ++ [(eget e g).held] }
  | _ => e

/-- labels of the executable steps: which rule fired and who moved -/
inductive ELabel where
  | takeLocal (g : Gid) (k : Case) (target : Nat)
  | handover (g h : Gid) (x : Ch)          -- `g` sends to the parked receiver `h`
  | takeover (g h : Gid) (x : Ch)          -- `g` receives from the parked sender `h`
  | dflt (g : Gid)
  | park (g : Gid)
  | incCnt (g : Gid)
  | decCnt (g : Gid)
  | start (i : Nat) (t : Tid)
  | finish (i : Nat) (t : Tid) (v : Option Nat)
  | pushRet (k : Nat) (t : Tid) (r : PushResult)
  | cancel
  | push (k : Nat) (t : Tid) (lane : Nat)
  deriving Repr, DecidableEq

def ELabel.toLabel : ELabel → Label
  | .takeLocal g k _ => if k = .timeout then .timeout (match g with | .p n => n | _ => 0) else .tau
  | .handover .. => .tau
  | .takeover .. => .tau
  | .dflt _ => .tau
  | .park _ => .tau
  | .incCnt _ => .tau
  | .decCnt _ => .tau
  | .start i t => .start i t
  | .finish i t v => .finish i t v
  | .pushRet k t r => .pushRet k t r
  | .cancel => .cancel
  | .push k t lane => .push k t lane

def handoverResult (e : ESt) (g h : Gid) (x : Ch) (tg th : Nat) : ESt :=
  let e1 := if x = .buf then { e with accepted := e.accepted ++ [(eget e g).held] } else e
  let e2 := eset e1 g (goto (eget e1 g) tg)
  eset e2 h { goto (eget e2 h) th with held := (eget e g).held }

def takeoverResult (e : ESt) (g h : Gid) (x : Ch) (tg th : Nat) : ESt :=
  let e1 := if x = .buf then { e with accepted := e.accepted ++ [(eget e h).held] } else e
  let e2 := eset e1 h (goto (eget e1 h) th)
  eset e2 g { goto (eget e2 g) tg with held := (eget e h).held }

/-- rendezvous steps of `g` through one case of its select -/
def rendezvous (c : Cfg) (e : ESt) (g : Gid) : Case × Nat → List (ELabel × ESt)
  | (.send x, tg) =>
    if x != .buf || c.Q == 0 then
      (partners c e g (.recv x) (echanOf e g x)).map fun (h, th) => (.handover g h x, handoverResult e g h x tg th)
    else []
  | (.recv x, tg) =>
    if x != .buf || c.Q == 0 then
      (partners c e g (.send x) (echanOf e g x)).map fun (h, th) => (.takeover g h x, takeoverResult e g h x tg th)
    else []
  | _ => []

/-- steps through a `select` instruction -/
def selectSteps (c : Cfg) (e : ESt) (g : Gid) (cases : List (Case × Nat)) (dflt : Option Nat) :
    List (ELabel × ESt) :=
  let locals := cases.filterMap fun (k, target) =>
    if localReadyB c e g k then
      some (ELabel.takeLocal g k target, let e1 := elocalEffect e g k; eset e1 g (goto (eget e1 g) target))
    else none
  let rv := cases.flatMap (rendezvous c e g)
  let idle :=
    if (eget e g).parked = false ∧ (cases.all fun kt => !readyB c e g kt.1) = true then
      match dflt with
      | some d => [(ELabel.dflt g, eset e g (goto (eget e g) d))]
      | none => [(ELabel.park g, eset e g { eget e g with parked := true })]
    else []
  locals ++ rv ++ idle

/-- `PushTask` returns `r` -/
def retSteps (e : ESt) (g : Gid) (n : Nat) (r : PushResult) : List (ELabel × ESt) :=
  match g with
  | .p k =>
    [(.pushRet k (e.ps.getD k {}).held r,
      { e with ps := e.ps.setIfInBounds k (goto (e.ps.getD k {}) n),
               results := e.results ++ [((e.ps.getD k {}).held, r)] })]
  | _ => []

/-- steps through an action instruction (`finish` is an environment step: `finishStep`) -/
def actSteps (e : ESt) (g : Gid) (a : Act) (n : Nat) : List (ELabel × ESt) :=
  match a with
  | .incCnt => [(.incCnt g, eset { e with cnt := e.cnt + 1 } g (goto (eget e g) n))]
  | .decCnt => [(.decCnt g, eset { e with cnt := e.cnt - 1 } g (goto (eget e g) n))]
  | .run =>
    match g with
    | .w i =>
      if (e.ws.getD i {}).parked = false then
        [(.start i (e.ws.getD i {}).held,
          { e with ws := e.ws.setIfInBounds i { e.ws.getD i {} with parked := true },
                   started := e.started ++ [(e.ws.getD i {}).held] })]
      else []
    | _ => []
  | .retNil => retSteps e g n .nil
  | .retCtxErr => retSteps e g n .ctxErr
  | .retTimeout => retSteps e g n .timeout

/-- the steps goroutine `g` can take (as the arriving / initiating side) -/
def stepsOf (c : Cfg) (e : ESt) (g : Gid) : List (ELabel × ESt) :=
  match einstrAt c e g with
  | some (.select cases dflt) => selectSteps c e g cases dflt
  | some (.act a n) => actSteps e g a n
  | _ => []

def cancelSteps (e : ESt) : List (ELabel × ESt) :=
  if e.cancelled = false then [(.cancel, { e with cancelled := true })] else []

/-- all enabled steps that need no environment parameter -/
def enabledSteps (c : Cfg) (e : ESt) : List (ELabel × ESt) :=
  cancelSteps e ++ (gids c e).flatMap (stepsOf c e)

/-- the running task of worker `i` returns (`v = none`) or panics with `v` -/
def finishStep (c : Cfg) (e : ESt) (i : Nat) (v : Option Nat) : Option (ELabel × ESt) :=
  if i < c.L ∧ (e.ws.getD i {}).parked = true then
    match einstrAt c e (.w i) with
    | some (.act .run n) =>
      some (.finish i (e.ws.getD i {}).held v,
        { e with ws := e.ws.setIfInBounds i (goto (e.ws.getD i {}) n),
                 finished := e.finished ++ [(e.ws.getD i {}).held],
                 lastPanic := match v with | some x => some x | none => e.lastPanic,
                 panics := match v with | some x => e.panics ++ [x] | none => e.panics })
    | _ => none
  else none

/-- a new `PushTask(t, lane)` call begins -/
def pushStep (c : Cfg) (e : ESt) (t : Tid) (lane : Nat) : Option (ELabel × ESt) :=
  if lane < c.L ∧ (e.ps.all fun x => x.held != t) = true then
    some (.push e.ps.size t lane,
      { e with ps := e.ps.push { pc := 0, parked := false, held := t }, plane := e.plane.push lane })
  else none

/-- erase the history (ghost) fields; no step's enabledness depends on them -/
def erase (e : ESt) : ESt :=
  { e with accepted := [], results := [], started := [], finished := [], panics := [] }

end Glb.TaskLane.Exec
