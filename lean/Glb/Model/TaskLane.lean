/-
  Model of /repo/tasklane/tasklane.go as a transition system.

  The three goroutine bodies (`startQueue`, `startWorker`, `PushTask`) are *data*: small programs
  over `select`/action instructions (`Glb.Generated.TaskLane`, regenerated from the Go AST on
  every run).  The step relation below is a generic interpreter of such programs implementing
  the Go specification's rules for `select` on channels:

  * `<-ctx.Done()` is ready iff the context is cancelled; a `time.After` case may fire at any time;
  * a buffered send is ready iff the buffer has room, a buffered receive iff it is non-empty;
  * an unbuffered send/receive is ready iff a partner goroutine is *parked* in a blocking
    `select` that contains the dual case on the same channel (rendezvous: both move at once and
    the value is handed over) — two polls (`select` with `default`) can never meet each other;
  * an arriving goroutine takes any ready case; only if none is ready does it take `default`, or
    park when there is none; a parked goroutine is woken by any of its cases becoming ready.

  Channels: `buf` = bufferedQueueList[lane] (capacity `Q`; for `Q = 0` it is unbuffered),
  `own` = blockingQueueList[lane], `uni` = universalQueue.
-/
import Glb.Basic

namespace Glb.TaskLane

abbrev Tid := Nat

inductive Ch where
  | buf | own | uni
  deriving Repr, DecidableEq

inductive Case where
  | done                 -- case <-tl.ctx.Done()
  | recv (c : Ch)        -- case task = <-c
  | send (c : Ch)        -- case c <- task
  | timeout              -- case <-time.After(tl.timeout)
  deriving Repr, DecidableEq

inductive Act where
  | incCnt               -- tl.blockingTaskCnt.Add(1)
  | decCnt               -- tl.blockingTaskCnt.Add(^uint32(0))
  | run                  -- func(){ defer recover…; task.Start() }()
  | retNil | retCtxErr | retTimeout      -- PushTask results
  deriving Repr, DecidableEq

inductive Instr where
  | select (cases : List (Case × Nat)) (dflt : Option Nat)
  | act (a : Act) (next : Nat)
  | halt                 -- return (deferred wg.Done() runs)
  deriving Repr, DecidableEq

abbrev Prog := List Instr

/-- the dual of a channel operation -/
def Case.dual : Case → Option Case
  | .recv c => some (.send c)
  | .send c => some (.recv c)
  | _ => none

/-- goroutine identities: queue goroutine of a lane, worker of a lane, the k-th PushTask call -/
inductive Gid where
  | q (i : Nat) | w (i : Nat) | p (k : Nat)
  deriving Repr, DecidableEq

/-- local state of a goroutine -/
structure G where
  pc : Nat := 0
  parked : Bool := false
  held : Tid := 0
  deriving Repr, DecidableEq

inductive PushResult where
  | nil | ctxErr | timeout
  deriving Repr, DecidableEq

structure Cfg where
  L : Nat                 -- laneSize
  Q : Nat                 -- queueSize
  qProg : Prog
  wProg : Prog
  pProg : Prog

structure St where
  cancelled : Bool := false
  buf : Nat → List Tid := fun _ => []
  cnt : Nat := 0
  qs : Nat → G := fun _ => {}
  ws : Nat → G := fun _ => {}
  ps : Nat → G := fun _ => {}            -- producers (PushTask calls) 0 .. np-1; `held` = the task pushed
  plane : Nat → Nat := fun _ => 0        -- lane each producer pushes to
  np : Nat := 0
  lastPanic : Option Nat := none
  -- history (ghost) variables
  accepted : List Tid := []              -- tasks that entered a lane (their PushTask returns nil)
  results : List (Tid × PushResult) := []
  started : List Tid := []
  finished : List Tid := []
  panics : List Nat := []

def upd {α} (f : Nat → α) (i : Nat) (v : α) : Nat → α := fun j => if j = i then v else f j

@[simp] theorem upd_same {α} (f : Nat → α) (i : Nat) (v : α) : upd f i v i = v := by simp [upd]
@[simp] theorem upd_other {α} (f : Nat → α) (i j : Nat) (v : α) (h : j ≠ i) : upd f i v j = f j := by
  simp [upd, h]

def St.get (s : St) : Gid → G
  | .q i => s.qs i
  | .w i => s.ws i
  | .p k => s.ps k

def St.set (s : St) (g : Gid) (x : G) : St :=
  match g with
  | .q i => { s with qs := upd s.qs i x }
  | .w i => { s with ws := upd s.ws i x }
  | .p k => { s with ps := upd s.ps k x }

/-- does the goroutine exist in this configuration? -/
def St.live (c : Cfg) (s : St) : Gid → Prop
  | .q i => i < c.L
  | .w i => i < c.L
  | .p k => k < s.np

def progOf (c : Cfg) : Gid → Prog
  | .q _ => c.qProg
  | .w _ => c.wProg
  | .p _ => c.pProg

def St.lane (s : St) : Gid → Nat
  | .q i => i
  | .w i => i
  | .p k => s.plane k

/-- channel identity of a case evaluated by goroutine `g`: (class, lane); `uni` has lane 0 -/
def chanOf (s : St) (g : Gid) : Ch → Ch × Nat
  | .uni => (.uni, 0)
  | c => (c, s.lane g)

def instrAt (c : Cfg) (s : St) (g : Gid) : Option Instr := (progOf c g)[(s.get g).pc]?

/-- `h` is parked in a blocking select containing case `k` on channel `ch` -/
def parkedOn (c : Cfg) (s : St) (h : Gid) (k : Case) (ch : Ch × Nat) (target : Nat) : Prop :=
  s.live c h ∧ (s.get h).parked = true ∧
  ∃ cases, instrAt c s h = some (.select cases none) ∧ (k, target) ∈ cases ∧
    match k with
    | .recv x => chanOf s h x = ch
    | .send x => chanOf s h x = ch
    | _ => False

/-- readiness of a case that needs no partner -/
def localReady (c : Cfg) (s : St) (g : Gid) : Case → Prop
  | .done => s.cancelled = true
  | .timeout => True
  | .recv .buf => s.buf (s.lane g) ≠ []
  | .send .buf => (s.buf (s.lane g)).length < c.Q
  | _ => False

/-- readiness through a parked partner (unbuffered channels, and `buf` when `Q = 0`) -/
def partnerReady (c : Cfg) (s : St) (g : Gid) (k : Case) : Prop :=
  match k with
  | .recv x => (x = .buf → c.Q = 0) ∧ ∃ h t, h ≠ g ∧ parkedOn c s h (.send x) (chanOf s g x) t
  | .send x => (x = .buf → c.Q = 0) ∧ ∃ h t, h ≠ g ∧ parkedOn c s h (.recv x) (chanOf s g x) t
  | _ => False

/-- readiness as seen by an *arriving* goroutine deciding whether to take `default` / park: a
    `time.After` case is not counted (it may or may not have fired yet: both taking it at once
    and parking first are behaviours of the code). -/
def ready (c : Cfg) (s : St) (g : Gid) (k : Case) : Prop :=
  (k ≠ .timeout ∧ localReady c s g k) ∨ partnerReady c s g k

def goto (x : G) (pc : Nat) : G := { x with pc := pc, parked := false }

/-- labels: what an observer can see of a step -/
inductive Label where
  | tau
  | timeout (k : Nat)                           -- the time.After of the k-th PushTask call fires
  | cancel
  | push (k : Nat) (t : Tid) (lane : Nat)       -- PushTask(t, lane) called (k-th call)
  | pushRet (k : Nat) (t : Tid) (r : PushResult)
  | start (i : Nat) (t : Tid)                   -- worker i calls t.Start()
  | finish (i : Nat) (t : Tid) (panic : Option Nat)
  deriving Repr, DecidableEq

/-- effect of a local (partner-free) case on the shared state -/
def localEffect (s : St) (g : Gid) : Case → St
  | .recv .buf =>
    let l := s.lane g
    let s1 := { s with buf := upd s.buf l (s.buf l).tail }
    s1.set g { s.get g with held := (s.buf l).headD 0 }
  | .send .buf =>
    let l := s.lane g
    { s with buf := upd s.buf l (s.buf l ++ [(s.get g).held]), accepted := s.accepted ++ [(s.get g).held] }
  | _ => s

inductive Step (c : Cfg) : St → Label → St → Prop where
  /-- the context is cancelled (or its deadline expires) -/
  | cancel (s : St) : s.cancelled = false → Step c s .cancel { s with cancelled := true }
  /-- a new PushTask(t, lane) call begins; task ids are fresh -/
  | push (s : St) (t : Tid) (lane : Nat) :
      lane < c.L → (∀ k, k < s.np → (s.ps k).held ≠ t) →
      Step c s (.push s.np t lane)
        { s with ps := upd s.ps s.np { pc := 0, parked := false, held := t },
                 plane := upd s.plane s.np lane, np := s.np + 1 }
  /-- a select takes a case that is ready without a partner -/
  | takeLocal (s : St) (g : Gid) (cases dflt k target) :
      s.live c g → instrAt c s g = some (.select cases dflt) → (k, target) ∈ cases →
      localReady c s g k →
      Step c s (if k = .timeout then .timeout (match g with | .p n => n | _ => 0) else .tau)
        (let s1 := localEffect s g k; s1.set g (goto (s1.get g) target))
  /-- rendezvous on an unbuffered channel: `g` (arriving or parked) sends to the parked receiver `h` -/
  | handover (s : St) (g h : Gid) (cases dflt x tg th) :
      s.live c g → instrAt c s g = some (.select cases dflt) → (Case.send x, tg) ∈ cases →
      (x = .buf → c.Q = 0) → h ≠ g → parkedOn c s h (.recv x) (chanOf s g x) th →
      Step c s .tau
        (let s1 := if x = .buf then { s with accepted := s.accepted ++ [(s.get g).held] } else s
         let s2 := s1.set g (goto (s1.get g) tg)
         s2.set h { goto (s2.get h) th with held := (s.get g).held })
  /-- rendezvous initiated by the receiver: `g` (arriving or parked) receives from the parked sender `h` -/
  | takeover (s : St) (g h : Gid) (cases dflt x tg th) :
      s.live c g → instrAt c s g = some (.select cases dflt) → (Case.recv x, tg) ∈ cases →
      (x = .buf → c.Q = 0) → h ≠ g → parkedOn c s h (.send x) (chanOf s g x) th →
      Step c s .tau
        (let s1 := if x = .buf then { s with accepted := s.accepted ++ [(s.get h).held] } else s
         let s2 := s1.set h (goto (s1.get h) th)
         s2.set g { goto (s2.get g) tg with held := (s.get h).held })
  /-- no case is ready: take `default` -/
  | dflt (s : St) (g : Gid) (cases d) :
      s.live c g → (s.get g).parked = false → instrAt c s g = some (.select cases (some d)) →
      (∀ k t, (k, t) ∈ cases → ¬ ready c s g k) →
      Step c s .tau (s.set g (goto (s.get g) d))
  /-- no case is ready and there is no `default`: park -/
  | park (s : St) (g : Gid) (cases) :
      s.live c g → (s.get g).parked = false → instrAt c s g = some (.select cases none) →
      (∀ k t, (k, t) ∈ cases → ¬ ready c s g k) →
      Step c s .tau (s.set g { s.get g with parked := true })
  | incCnt (s : St) (g : Gid) (n) :
      s.live c g → instrAt c s g = some (.act .incCnt n) →
      Step c s .tau ({ s with cnt := s.cnt + 1 }.set g (goto (s.get g) n))
  | decCnt (s : St) (g : Gid) (n) :
      s.live c g → instrAt c s g = some (.act .decCnt n) →
      Step c s .tau ({ s with cnt := s.cnt - 1 }.set g (goto (s.get g) n))
  /-- the worker calls `task.Start()`: the task is now running (the goroutine parks on it) -/
  | start (s : St) (i : Nat) (n) :
      i < c.L → (s.ws i).parked = false → instrAt c s (.w i) = some (.act .run n) →
      Step c s (.start i (s.ws i).held)
        { s with ws := upd s.ws i { s.ws i with parked := true }, started := s.started ++ [(s.ws i).held] }
  /-- the running task returns, or panics with value `v` (recovered: only `lastPanic` differs) -/
  | finish (s : St) (i : Nat) (n) (v : Option Nat) :
      i < c.L → (s.ws i).parked = true → instrAt c s (.w i) = some (.act .run n) →
      Step c s (.finish i (s.ws i).held v)
        { s with ws := upd s.ws i (goto (s.ws i) n), finished := s.finished ++ [(s.ws i).held],
                 lastPanic := match v with | some x => some x | none => s.lastPanic,
                 panics := match v with | some x => s.panics ++ [x] | none => s.panics }
  /-- PushTask returns -/
  | pushRet (s : St) (k : Nat) (a : Act) (n) (r : PushResult) :
      k < s.np → instrAt c s (.p k) = some (.act a n) →
      (a = .retNil ∧ r = .nil ∨ a = .retCtxErr ∧ r = .ctxErr ∨ a = .retTimeout ∧ r = .timeout) →
      Step c s (.pushRet k (s.ps k).held r)
        { s with ps := upd s.ps k (goto (s.ps k) n), results := s.results ++ [((s.ps k).held, r)] }

def init : St := {}

inductive Reachable (c : Cfg) : St → Prop where
  | init : Reachable c init
  | step (s l s') : Reachable c s → Step c s l s' → Reachable c s'

/-! ### The programs the theorems are proved for (the regenerated tie proves the source still has them) -/

/-- `startQueue`: 0 outer select · 1 cnt++ · 2 select{done|default} · 3 select{send own|default} ·
    4 select{done|send own|send uni} · 5 cnt-- · 6 return -/
def queueProg : Prog := [
  .select [(.done, 6), (.recv .buf, 1)] none,
  .act .incCnt 2,
  .select [(.done, 6)] (some 3),
  .select [(.send .own, 5)] (some 4),
  .select [(.done, 6), (.send .own, 5), (.send .uni, 5)] none,
  .act .decCnt 0,
  .halt]

/-- `startWorker`: 0 select{done|default} · 1 select{recv own|default} ·
    2 select{done|recv own|recv uni} · 3 run task · 4 return -/
def workerProg : Prog := [
  .select [(.done, 4)] (some 1),
  .select [(.recv .own, 3)] (some 2),
  .select [(.done, 4), (.recv .own, 3), (.recv .uni, 3)] none,
  .act .run 0,
  .halt]

/-- `PushTask`: 0 select{done|default} · 1 select{done|send buf|timeout} · 2 return ctx.Err() ·
    3 return nil · 4 return ErrTimeout · 5 (returned) -/
def pushProg : Prog := [
  .select [(.done, 2)] (some 1),
  .select [(.done, 2), (.send .buf, 3), (.timeout, 4)] none,
  .act .retCtxErr 5,
  .act .retNil 5,
  .act .retTimeout 5,
  .halt]

def cfg (L Q : Nat) : Cfg := { L := L, Q := Q, qProg := queueProg, wProg := workerProg, pProg := pushProg }

/-! ### Derived quantities -/

/-- sum of `f 0 + … + f (n-1)` -/
def sumTo (n : Nat) (f : Nat → Nat) : Nat :=
  match n with
  | 0 => 0
  | n + 1 => sumTo n f + f n

/-- tasks held by the queue goroutine of lane `i` (taken from the buffer, not yet handed over) -/
def qHolding (x : G) : List Tid := if 1 ≤ x.pc ∧ x.pc ≤ 4 then [x.held] else []

/-- concatenation `f 0 ++ … ++ f (n-1)` -/
def catTo (n : Nat) (f : Nat → List Tid) : List Tid :=
  match n with
  | 0 => []
  | n + 1 => catTo n f ++ f n

/-- a worker that has received a task and is about to call `Start()` -/
def wHolding (x : G) : List Tid := if x.pc = 3 ∧ x.parked = false then [x.held] else []

/-- accepted tasks that no worker has started yet: in a lane buffer, in a queue goroutine's hand,
    or received by a worker that has not yet called `Start()` -/
def pendingOf (L : Nat) (buf : Nat → List Tid) (qs ws : Nat → G) : List Tid :=
  catTo L buf ++ catTo L (fun i => qHolding (qs i)) ++ catTo L (fun i => wHolding (ws i))

def St.pending (c : Cfg) (s : St) : List Tid := pendingOf c.L s.buf s.qs s.ws

/-- what `Status().PendingTask` adds up when all its reads happen in state `s` -/
def St.statusPending (c : Cfg) (s : St) : Nat := sumTo c.L (fun i => (s.buf i).length) + s.cnt

/-- is worker `i` executing a task? -/
def St.running (s : St) (i : Nat) : Prop := (s.ws i).pc = 3 ∧ (s.ws i).parked = true

/-- an *internal* step: anything the lane does by itself (not cancel, not a new push, not a
    PushTask timeout firing, not a task returning — those are the environment) -/
def internal : Label → Bool
  | .cancel => false
  | .timeout _ => false
  | .push .. => false
  | .finish .. => false
  | _ => true

/-- no internal step is enabled -/
def Quiescent (c : Cfg) (s : St) : Prop := ∀ l s', Step c s l s' → internal l = false

end Glb.TaskLane
