/-
  Model of `(*FlagSet).argParse` (/repo/config/config.go), the command-line scanner of package
  `config` (C10, reused by C09).

  * argv tokens are arbitrary byte strings (`Bytes`), the argument vector is `List Bytes`.
  * every Go index / slice expression of the function is performed with the panicking helpers
    `Glb.idx?` / `Glb.slice?`, with the same indices as the code, so an out-of-range access would
    surface as `.error (GoPanic …)`; "never panics" is a theorem (Props/C10), not a convention.
  * the flag table (`f.flagMap` + the `boolFlag` type test) is the parameter
    `lookup : Bytes → Option Bool` (`some isBool` when the name is defined).
  * `flg.ArgValue = &argValue` is recorded as an assignment `(name, value)` appended to a list in
    program order; the overwrite semantics of the pointer store is `effective` (last one wins).
  * loops carry explicit fuel; running out of fuel is reported as `.error (.other "fuel")`, so the
    refinement theorem also shows that the fuel given by `argParse` always suffices.
-/
import Glb.Basic

namespace Glb.ArgParse

/-- `'-'` -/
def dash : UInt8 := 0x2d
/-- `'='` -/
def equals : UInt8 := 0x3d
/-- the text `"true"` a bool flag without `=` is given -/
def trueText : Bytes := [0x74, 0x72, 0x75, 0x65]

/-- the three `errors.New` of `argParse` (class + the text appended to the message) -/
inductive ArgErr where
  | badSyntax (tok : Bytes)    -- "config: bad flag syntax: " + f.args[0]
  | undefined (name : Bytes)   -- "config: flag provided but not defined: " + name
  | needsArg (name : Bytes)    -- "config: flag needs an argument: " + name
  deriving Repr, DecidableEq

/-- the part of `FlagSet` that `argParse` mutates -/
structure St where
  /-- every `flg.ArgValue = &argValue` executed so far, in program order -/
  assigns : List (Bytes × Bytes) := []
  /-- `f.args` -/
  args : List Bytes := []
  deriving Repr, DecidableEq

/-- how `argParse` returned, and the state it left behind (`Args()` is observable after errors too) -/
inductive Result where
  | ok (s : St)
  | err (e : ArgErr) (s : St)
  deriving Repr, DecidableEq

def Result.st : Result → St
  | .ok s => s
  | .err _ s => s

/-- one iteration of the outer `for`: either the function returned or the loop goes on -/
inductive Step where
  | ret (r : Result)
  | cont (s : St)
  deriving Repr, DecidableEq

/-- `for i := 1; i < len(name); i++ { if name[i] == '=' { … break } }`: index of the first `=`
    at position ≥ `i`, `none` when the loop runs to completion. -/
def scanEq (name : Bytes) : Nat → Nat → Except GoPanic (Option Nat)
  | 0, _ => .error (.other "fuel")
  | fuel + 1, i =>
    if i < name.length then do
      let c ← idx? name i                       -- name[i]
      if c = equals then pure (some i) else scanEq name fuel (i + 1)
    else pure none

/-- the `=` scan together with the two slice expressions of its body:
    `argValue = name[i+1:]; name = name[0:i]; hasValue = true`. -/
def splitEq (name : Bytes) : Except GoPanic (Bytes × Option Bytes) := do
  match ← scanEq name (name.length + 1) 1 with
  | none => pure (name, none)
  | some i => do
    let v ← slice? name (i + 1) name.length     -- name[i+1:]
    let n ← slice? name 0 i                     -- name[0:i]
    pure (n, some v)

/-- body of `for len(f.args) > 0 { … }` (the caller has checked `len(f.args) > 0`) -/
def body (lookup : Bytes → Option Bool) (s : St) : Except GoPanic Step := do
  let tok ← idx? s.args 0                                   -- name := f.args[0]
  -- if len(name) < 2 || name[0] != '-' { return nil }      (|| short-circuits)
  if tok.length < 2 then pure (.ret (.ok s)) else do
  let c0 ← idx? tok 0
  if c0 ≠ dash then pure (.ret (.ok s)) else do
  let name ← slice? tok 1 tok.length                        -- name = name[1:]
  let c1 ← idx? name 0                                      -- name[0] == '-'
  if c1 = dash ∧ name.length = 1 then do                    -- "--": f.args = f.args[1:]; return nil
    let rest ← slice? s.args 1 s.args.length
    pure (.ret (.ok { s with args := rest }))
  else do
  let name ← if c1 = dash then slice? name 1 name.length else pure name
  -- if len(name) == 0 || name[0] == '-' || name[0] == '='
  let bad ← if name.length = 0 then pure true else do
    let c ← idx? name 0
    pure (c = dash || c = equals)
  if bad then pure (.ret (.err (.badSyntax tok) s)) else do -- message uses f.args[0], not yet shifted
  let args1 ← slice? s.args 1 s.args.length                 -- f.args = f.args[1:]
  let (name, argValue) ← splitEq name
  match lookup name with                                    -- flg, ok := f.flagMap[name]
  | none => pure (.ret (.err (.undefined name) { s with args := args1 }))
  | some isBool =>
    match argValue with
    | some v => pure (.cont { assigns := s.assigns ++ [(name, v)], args := args1 })
    | none =>                                               -- !hasValue
      if isBool then
        pure (.cont { assigns := s.assigns ++ [(name, trueText)], args := args1 })
      else if args1.length > 0 then do
        let v ← idx? args1 0                                -- argValue, f.args = f.args[0], f.args[1:]
        let args2 ← slice? args1 1 args1.length
        pure (.cont { assigns := s.assigns ++ [(name, v)], args := args2 })
      else pure (.ret (.err (.needsArg name) { s with args := args1 }))

/-- `for len(f.args) > 0 { body }; return nil` -/
def loop (lookup : Bytes → Option Bool) : Nat → St → Except GoPanic Result
  | 0, _ => .error (.other "fuel")
  | fuel + 1, s =>
    if s.args.length > 0 then do
      match ← body lookup s with
      | .ret r => pure r
      | .cont s' => loop lookup fuel s'
    else pure (.ok s)

/-- `f.args = arguments; f.argParse()` -/
def argParse (lookup : Bytes → Option Bool) (argv : List Bytes) : Except GoPanic Result :=
  loop lookup (argv.length + 1) { assigns := [], args := argv }

/-- what a sequence of `flg.ArgValue = &v` stores leaves in the flag named `n`: the last one -/
def effective (assigns : List (Bytes × Bytes)) (n : Bytes) : Option Bytes :=
  assigns.foldl (fun cur a => if a.1 = n then some a.2 else cur) none

end Glb.ArgParse
