/-
  Model of /repo/httpd/tree.go (`treeNode`, `parseRoute`, `findRoute`, `methodNodeOrNil`) and of
  the dispatch part of `Mux.ServeHTTP` (/repo/httpd/httpd.go).

  * `Node` mirrors `treeNode`: `next` (a Go map, here an association list with distinct keys —
    only `child`/`setChild` touch it, so order is unobservable), `info` (`*RouteInfo`, here the
    id of the registration), `params` (`paramNameList`).
  * All keys share ONE namespace exactly as in the code: literal fragment, `routeParam`
    ("/:param"), `routeParamAny` ("/:any") and the method tags of `methodTagMap`.  The constants
    come from `Glb.Generated.Httpd`, regenerated from the source on every run.
  * `parseLoop` / `findLoop` are the two `for ; right <= length; right++` loops with the same
    `left` / `right` indices and the same slice expressions, which can panic (`slice?`, `idx?`).
    The loop counter is turned into structural recursion on `fuel = length + 1 - right`.
  * Go walks the trie through pointers and mutates it in place (`nextNodeOrNew`).  The model
    collects the keys walked so far and rebuilds the trie with `modifyAt`; the nodes a *failed*
    registration has already created stay behind, exactly as in the code.
-/
import Glb.Basic
import Glb.Generated.Httpd

namespace Glb.Router

abbrev RouteId := Nat

/-- `treeNode` -/
inductive Node where
  | mk (next : List (Bytes × Node)) (info : Option RouteId) (params : List Bytes)

namespace Node

def next : Node → List (Bytes × Node)
  | .mk n _ _ => n

def info : Node → Option RouteId
  | .mk _ i _ => i

def params : Node → List Bytes
  | .mk _ _ p => p

/-- `new(treeNode)` -/
def empty : Node := .mk [] none []

end Node

/-- `m[k]` of a Go map -/
def assocGet {α} : List (Bytes × α) → Bytes → Option α
  | [], _ => none
  | (k', v) :: r, k => if k' = k then some v else assocGet r k

/-- `m[k] = v` of a Go map -/
def assocSet {α} : List (Bytes × α) → Bytes → α → List (Bytes × α)
  | [], k, v => [(k, v)]
  | (k', v') :: r, k, v => if k' = k then (k, v) :: r else (k', v') :: assocSet r k v

namespace Node

/-- `node.next[name]` (reading a nil map is fine in Go) -/
def child (n : Node) (k : Bytes) : Option Node := assocGet n.next k

def setChild (n : Node) (k : Bytes) (c : Node) : Node := .mk (assocSet n.next k c) n.info n.params

/-- the node `nextNodeOrNew(name)` returns -/
def childOrNew (n : Node) (k : Bytes) : Node := (n.child k).getD Node.empty

end Node

/-- follow a list of keys (read only) -/
def descend : Node → List Bytes → Option Node
  | n, [] => some n
  | n, k :: ks => match n.child k with
    | some c => descend c ks
    | none => none

/-- walk down `ks` with `nextNodeOrNew` (creating what is missing), apply `f` to the node reached;
    the result is the root of the mutated trie -/
def modifyAt (f : Node → Node) : Node → List Bytes → Node
  | n, [] => f n
  | n, k :: ks => n.setChild k (modifyAt f (n.childOrNew k) ks)

/-! ### method tags -/

/-- `methodTagMap[method]` with presence flag -/
def methodTag? (method : Bytes) : Option Bytes := assocGet Generated.methodTagMap method

/-- `methodTagMap[method]` (zero value `""` for a missing key) -/
def tagOf (method : Bytes) : Bytes := (methodTag? method).getD []

/-- `methodNodeOrNil` -/
def methodNodeOrNil (n : Node) (method : Bytes) : Option Node :=
  match n.child (tagOf method) with
  | some r => some r
  | none => n.child (tagOf Generated.methodAll)

/-- `right < length && path[right] != '/'` (the index is guarded, it cannot panic) -/
def notSlashAt (path : Bytes) (right : Nat) : Bool :=
  match path[right]? with
  | some b => b != 47
  | none => false

/-! ### parseRoute -/

inductive RegErr where
  | invalidMethod     -- "invalid method … for routePath"
  | invalidFragment   -- "invalid fragment :… in routePath"
  | duplicate         -- "duplicate method … for routePath"
  deriving Repr, DecidableEq

def RegErr.describe : RegErr → String
  | .invalidMethod => "invalid-method"
  | .invalidFragment => "invalid-fragment"
  | .duplicate => "duplicate-method"

/-- What the fragment loop of `parseRoute` has done when it stops: the keys along which
    `node = node.nextNodeOrNew(..)` has walked, `paramNameList`, and whether it ended with the
    "invalid fragment" error. -/
structure ParseOut where
  keys : List Bytes
  names : List Bytes
  ok : Bool
  deriving Repr, DecidableEq

/-- the loop `for ; right <= length; right++ { … }` of `parseRoute` -/
def parseLoop (path : Bytes) : (fuel left right : Nat) → (keys names : List Bytes) → Except GoPanic ParseOut
  | 0, _, _, keys, names => .ok ⟨keys, names, true⟩
  | fuel + 1, left, right, keys, names =>
    if notSlashAt path right then parseLoop path fuel left (right + 1) keys names
    else if right - left < 2 then
      -- skip empty fragment
      parseLoop path fuel right (right + 1) keys names
    else do
      let frag ← slice? path (left + 1) right
      if frag = [42] then
        -- "*": paramNameList = append(.., routeParamAny); nextNodeOrNew(routeParamAny); break
        .ok ⟨keys ++ [Generated.routeParamAny], names ++ [Generated.routeParamAny], true⟩
      else do
        let c ← idx? path (left + 1)
        if c = 58 then do
          let name ← slice? path (left + 2) right
          if name = [] ∨ name ∈ names then .ok ⟨keys, names, false⟩
          else parseLoop path fuel right (right + 1) (keys ++ [Generated.routeParam]) (names ++ [name])
        else parseLoop path fuel right (right + 1) (keys ++ [frag]) names

/-- what `parseRoute` returns: the (always mutated) trie and `(paramsCnt, err)` -/
structure ParseResult where
  root : Node
  result : Except RegErr Nat

/-- the assignments `node.info = info; node.paramNameList = paramNameList` -/
def setPayload (id : RouteId) (names : List Bytes) (n : Node) : Node := .mk n.next (some id) names

/-- `parseRoute(node, path, method, info)`; `id` stands for `info`. -/
def parseRoute (root : Node) (path method : Bytes) (id : RouteId) : Except GoPanic ParseResult :=
  match methodTag? method with
  | none => .ok ⟨root, .error .invalidMethod⟩
  | some tag => do
    let out ← parseLoop path (path.length + 1) 0 0 [] []
    -- the nodes walked by nextNodeOrNew exist from now on, whatever happens next
    let root1 := modifyAt (fun n => n) root out.keys
    if !out.ok then .ok ⟨root1, .error .invalidFragment⟩
    else
      let node := (descend root1 out.keys).getD Node.empty
      match node.child tag with
      | some _ => .ok ⟨root1, .error .duplicate⟩
      | none => .ok ⟨modifyAt (setPayload id out.names) root (out.keys ++ [tag]), .ok out.names.length⟩

/-! ### findRoute -/

/-- `Params` (C04 view: plain lists; capacity is the business of `Model/Store.lean`) -/
structure Params where
  K : List Bytes := []
  V : List Bytes := []
  deriving Repr, DecidableEq

/-- the loop of `findRoute`; result: the node reached (`none` = `return nil`) and `params.V` -/
def findLoop (path : Bytes) : (fuel left right : Nat) → Node → List Bytes → Except GoPanic (Option Node × List Bytes)
  | 0, _, _, node, V => .ok (some node, V)
  | fuel + 1, left, right, node, V =>
    if notSlashAt path right then findLoop path fuel left (right + 1) node V
    else if right - left < 2 ∧ right < path.length then
      -- skip empty fragment (but check routeParam if current is last fragment)
      findLoop path fuel right (right + 1) node V
    else do
      let seg ← slice? path (left + 1) right
      match node.child seg with
      | some res => findLoop path fuel right (right + 1) res V
      | none =>
        match node.child Generated.routeParam with
        | some res => findLoop path fuel right (right + 1) res (V ++ [seg])
        | none =>
          match node.child Generated.routeParamAny with
          | some res => do
            let rest ← slice? path (left + 1) path.length
            .ok (some res, V ++ [rest])      -- break
          | none => .ok (none, V)

/-- `if path == "" || path[0] != '/' { path = "/" + path }` -/
def normPath (path : Bytes) : Bytes :=
  match path with
  | [] => [47]
  | b :: _ => if b != 47 then 47 :: path else path

/-- `findRoute(node, path, method, params)`: the selected route (`none` = nil) and `*params`. -/
def findRoute (root : Node) (path0 method : Bytes) (ps : Params) : Except GoPanic (Option RouteId × Params) :=
  let path := normPath path0
  let general : Except GoPanic (Option RouteId × Params) := do
    let (on, V) ← findLoop path (path.length + 1) 0 0 root ps.V
    match on with
    | none => .ok (none, { ps with V := V })
    | some node =>
      match methodNodeOrNil node method with
      | some n => .ok (n.info, { K := n.params, V := V })
      | none => .ok (none, { ps with V := V })
  if path.length = 1 then
    match methodNodeOrNil root method with
    | some n => .ok (n.info, { ps with K := n.params })   -- `/` matched by `/`
    | none => general
  else general

/-! ### registration histories -/

/-- one `mux.Handle(path, method, h)` call -/
structure Reg where
  path : Bytes
  method : Bytes
  deriving Repr, DecidableEq

/-- run a list of registrations from a trie, ids counting from `i`; `none` as soon as one of
    them fails or panics (tables "whose registrations all succeed") -/
def buildFrom : Node → Nat → List Reg → Option Node
  | t, _, [] => some t
  | t, i, r :: rs =>
    match parseRoute t r.path r.method i with
    | .ok ⟨t', .ok _⟩ => buildFrom t' (i + 1) rs
    | _ => none

def build (rs : List Reg) : Option Node := buildFrom Node.empty 0 rs

/-! ### ServeHTTP (dispatch part) -/

/-- which `HandlerFunc` the relay handler is given in `store.I` -/
inductive Target where
  | route (id : RouteId)
  | noRoute
  deriving Repr, DecidableEq

/-- one invocation of a handler with what it can see through the store -/
structure Call where
  target : Target
  params : Params
  deriving Repr, DecidableEq

/-- `Mux.ServeHTTP`: find, else `routeNotFound`, then `mux.relayHandler(store)`; the default
    relay calls `store.I.HandlerFunc(store)`.  The result is the list of handler invocations. -/
def serveHTTP (root : Node) (path method : Bytes) : Except GoPanic (List Call) := do
  let (info, ps) ← findRoute root path method {}
  match info with
  | some id => .ok [⟨.route id, ps⟩]
  | none => .ok [⟨.noRoute, ps⟩]

/-- `Params.Get(key)`: `V[i]` for the first `i` with `K[i] == key` (can panic when `V` is shorter) -/
def firstIdx (key : Bytes) : List Bytes → Option Nat
  | [] => none
  | k :: r => if k = key then some 0 else (firstIdx key r).map (· + 1)

def paramsGet (ps : Params) (key : Bytes) : Except GoPanic (Option Bytes) :=
  match firstIdx key ps.K with
  | some i => do let v ← idx? ps.V i; .ok (some v)
  | none => .ok none

end Glb.Router
