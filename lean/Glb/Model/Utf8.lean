/-
  Hand model of Go's `utf8.DecodeRuneInString` / `utf8.DecodeRune` (unicode/utf8, stdlib — modelled,
  not verified; compared exhaustively with the real function by the harness stream `utf8`).
  Returns `(rune, size)`; an invalid or truncated encoding yields `(0xFFFD, 1)`, the empty input
  `(0xFFFD, 0)`.  The genuine encoding of U+FFFD (EF BF BD) yields `(0xFFFD, 3)`.
-/
import Glb.Basic

namespace Glb.Utf8

def runeError : Nat := 0xFFFD

def isCont (b : UInt8) : Bool := 0x80 ≤ b && b ≤ 0xBF

/-- `(size, lo, hi)` of the `first`/`acceptRanges` tables for a lead byte ≥ 0x80; `none` = invalid lead -/
def lead (b : UInt8) : Option (Nat × UInt8 × UInt8) :=
  if 0xC2 ≤ b && b ≤ 0xDF then some (2, 0x80, 0xBF)
  else if b == 0xE0 then some (3, 0xA0, 0xBF)
  else if 0xE1 ≤ b && b ≤ 0xEC then some (3, 0x80, 0xBF)
  else if b == 0xED then some (3, 0x80, 0x9F)
  else if 0xEE ≤ b && b ≤ 0xEF then some (3, 0x80, 0xBF)
  else if b == 0xF0 then some (4, 0x90, 0xBF)
  else if 0xF1 ≤ b && b ≤ 0xF3 then some (4, 0x80, 0xBF)
  else if b == 0xF4 then some (4, 0x80, 0x8F)
  else none

def decodeRune : Bytes → Nat × Nat
  | [] => (runeError, 0)
  | b0 :: rest =>
    if b0 < 0x80 then (b0.toNat, 1)
    else match lead b0 with
      | none => (runeError, 1)
      | some (sz, lo, hi) =>
        match rest with
        | [] => (runeError, 1)
        | b1 :: rest1 =>
          if !(lo ≤ b1 && b1 ≤ hi) then (runeError, 1)
          else if sz == 2 then ((b0.toNat % 32) * 64 + b1.toNat % 64, 2)
          else match rest1 with
            | [] => (runeError, 1)
            | b2 :: rest2 =>
              if !isCont b2 then (runeError, 1)
              else if sz == 3 then ((b0.toNat % 16) * 4096 + (b1.toNat % 64) * 64 + b2.toNat % 64, 3)
              else match rest2 with
                | [] => (runeError, 1)
                | b3 :: _ =>
                  if !isCont b3 then (runeError, 1)
                  else ((b0.toNat % 8) * 262144 + (b1.toNat % 64) * 4096 + (b2.toNat % 64) * 64 + b3.toNat % 64, 4)

/-- UTF-8 encoding of a scalar value (used by specs: U+FFFD is EF BF BD) -/
def encodeRune (r : Nat) : Bytes :=
  if r < 0x80 then [UInt8.ofNat r]
  else if r < 0x800 then [UInt8.ofNat (0xC0 + r / 64), UInt8.ofNat (0x80 + r % 64)]
  else if r < 0x10000 then
    [UInt8.ofNat (0xE0 + r / 4096), UInt8.ofNat (0x80 + r / 64 % 64), UInt8.ofNat (0x80 + r % 64)]
  else
    [UInt8.ofNat (0xF0 + r / 262144), UInt8.ofNat (0x80 + r / 4096 % 64),
     UInt8.ofNat (0x80 + r / 64 % 64), UInt8.ofNat (0x80 + r % 64)]

theorem decodeRune_size_le (s : Bytes) : (decodeRune s).2 ≤ s.length := by
  unfold decodeRune
  repeat' split
  all_goals simp_all
  all_goals omega

theorem decodeRune_size_pos (b : UInt8) (s : Bytes) : 1 ≤ (decodeRune (b :: s)).2 := by
  unfold decodeRune
  repeat' split
  all_goals simp_all

end Glb.Utf8
