/-
  Model of /repo/logger/text_handler.go (colour off), function by function.

  * Go `string` / `[]byte` = `Bytes`.  `*buf = append(*buf, x...)` is `buf ++ x`; a function that
    mutates through a pointer returns the new value.
  * The standard library is a PARAMETER (`Std`): `unicode.IsSpace`, `unicode.IsPrint` (only ever
    asked about runes ≥ 0x80) and `strconv.Quote` (`strconv.AppendQuote(buf, s) = buf ++ Quote s`).
    `utf8.DecodeRuneInString` is the shared hand model `Glb.Utf8.decodeRune`.
    `safeSet` and `labelList` are the tables regenerated from the source (`Glb.Generated`).
  * What `appendTextValue` can be handed after `Value.Resolve()` is the type `Leaf`; the results of
    stdlib calls made while formatting a value (`strconv.AppendInt`, `Duration.String`,
    `Time.AppendFormat`, `MarshalText`, `Error`, `fmt.Sprint`, the recovered panic value) are its
    payloads.
  Core Lean only (this file is linked into the driver).
-/
import Glb.Basic
import Glb.Model.Utf8
import Glb.Generated.Logger

namespace Glb.TextHandler
open Glb

/-- the standard-library functions `appendTextString` calls -/
structure Std where
  /-- `unicode.IsSpace r` (asked only for r ≥ 0x80) -/
  isSpace : Nat → Bool
  /-- `unicode.IsPrint r` (asked only for r ≥ 0x80) -/
  isPrint : Nat → Bool
  /-- `strconv.Quote` -/
  quote : Bytes → Bytes

/-- `safeSet[b]`.  The Go array has type `[utf8.RuneSelf]bool` and is indexed only under the guard
    `b < utf8.RuneSelf`, so the index expression cannot panic (`Tie.TextLogger.safeSet_length`). -/
def safe (b : UInt8) : Bool := Generated.safeSet.getD b.toNat false

/-- `b != '\\' && (b == ' ' || b == '=' || !safeSet[b])` -/
def asciiNeedsQuote (b : UInt8) : Bool :=
  b != 0x5c && (b == 0x20 || b == 0x3d || !safe b)

/-- `r == utf8.RuneError || unicode.IsSpace(r) || !unicode.IsPrint(r)` -/
def runeNeedsQuote (P : Std) (r : Nat) : Bool :=
  r == Utf8.runeError || P.isSpace r || !P.isPrint r

/-- The `for i := 0; i < len(str);` loop of `appendTextString`: `true` = one of the two
    `AppendQuote … return` exits was taken.  The first argument is the number of bytes still to be
    stepped over (`i += size` consumes `size` bytes: the current one and `size - 1` more). -/
def needsQuoteLoop (P : Std) : Nat → Bytes → Bool
  | _, [] => false
  | k + 1, _ :: rest => needsQuoteLoop P k rest
  | 0, b :: rest =>
    if b < 0x80 then
      if asciiNeedsQuote b then true else needsQuoteLoop P 0 rest
    else
      if runeNeedsQuote P (Utf8.decodeRune (b :: rest)).1 then true
      else needsQuoteLoop P ((Utf8.decodeRune (b :: rest)).2 - 1) rest

/-- the string is NOT written as it stands (it is empty, or the loop took a quoting exit) -/
def quotes (P : Std) (str : Bytes) : Bool := str.length == 0 || needsQuoteLoop P 0 str

/-- `appendTextString(buf, str)` -/
def appendTextString (P : Std) (buf str : Bytes) : Bytes :=
  if str.length == 0 then buf ++ [0x22, 0x22]
  else if needsQuoteLoop P 0 str then buf ++ P.quote str
  else buf ++ str

/-! ### values -/

/-- kinds written verbatim by a `strconv.Append*` / `String()` / `AppendFormat` call -/
inductive RawKind where
  | int64 | uint64 | float64 | bool | duration | time
  deriving Repr, DecidableEq

/-- branches of the `KindAny` case that end in `appendTextString` -/
inductive ViaKind where
  | marshalOk    -- `MarshalText()` returned data
  | marshalErr   -- `MarshalText()` returned an error: its `Error()` text
  | ansi         -- `AnsiString` (colour off): `.Value`
  | error        -- `error`: `Error()`
  | bytes        -- `[]byte`
  | sprint       -- `fmt.Sprint(va)`
  deriving Repr, DecidableEq

/-- a resolved non-group value as `appendTextValue` sees it -/
inductive Leaf where
  | str (s : Bytes)                      -- KindString
  | raw (k : RawKind) (text : Bytes)     -- text produced by the stdlib, appended verbatim
  | via (k : ViaKind) (s : Bytes)        -- text produced by the value, through appendTextString
  | panicNil                             -- formatting panicked, value is a nil pointer
  | panicVal (s : Bytes)                 -- formatting panicked; `s` = `%v` of the recovered value
  deriving Repr

def nilText : Bytes := [0x3c, 0x6e, 0x69, 0x6c, 0x3e]                        -- <nil>
def panicPrefix : Bytes := [0x21, 0x50, 0x41, 0x4e, 0x49, 0x43, 0x3a, 0x20]  -- "!PANIC: "

/-- `appendTextValue(buf, v, false)`.  In the recover path the buffer is first cut back to `start`;
    nothing has been appended at that point (every branch evaluates the panicking call before its
    `appendTextString`), so the cut is the identity. -/
def appendTextValue (P : Std) (buf : Bytes) : Leaf → Bytes
  | .str s => appendTextString P buf s
  | .raw _ t => buf ++ t
  | .via _ s => appendTextString P buf s
  | .panicNil => appendTextString P buf nilText
  | .panicVal s => appendTextString P buf (panicPrefix ++ s)

/-! ### attributes -/

/-- resolved attribute trees (what `Value.Resolve()` yields at every level); empty groups and
    empty keys are allowed anywhere -/
inductive Attr where
  | leaf (key : Bytes) (v : Leaf)
  | group (key : Bytes) (as : List Attr)
  deriving Repr

mutual
/-- `appendTextAttr(buf, a, prefix, false)`; returns the buffer and the prefix buffer as the call
    leaves them. -/
def appendTextAttr (P : Std) (buf pfx : Bytes) : Attr → Bytes × Bytes
  | .group key as => appendTextGroup P buf pfx pfx.length key as
  | .leaf key v =>
    let buf := buf ++ [0x20]
    if pfx.length > 0 then
      let pfx := pfx ++ [0x2e] ++ key
      (appendTextValue P (appendTextString P buf pfx ++ [0x3d]) v, pfx)
    else
      (appendTextValue P (appendTextString P buf key ++ [0x3d]) v, pfx)
/-- the `for _, aa := range a.Value.Group()` loop; `ori` is `len(*prefix)` on entry.
    `(*prefix)[:ori]` is `take ori`: the prefix buffer never gets shorter than `ori` inside the loop
    (`Proofs.TextHandler.attr_render`), so this is Go's reslice exactly. -/
def appendTextGroup (P : Std) (buf pfx : Bytes) (ori : Nat) (key : Bytes) : List Attr → Bytes × Bytes
  | [] => (buf, pfx)
  | aa :: rest =>
    let pfx := pfx.take ori
    let pfx := if ori > 0 && key.length > 0 then pfx ++ [0x2e] else pfx
    let pfx := if key.length > 0 then pfx ++ key else pfx
    let r := appendTextAttr P buf pfx aa
    appendTextGroup P r.1 r.2 ori key rest
end

/-! ### handler -/

structure Handler where
  /-- `preformatted` -/
  pre : Bytes := []
  groupPrefix : Bytes := []
  deriving Repr

/-- the loop shared by `WithAttrs` and `Handle`: each attribute gets a fresh prefix buffer holding
    `groupPrefix` (`h.prefix()` / `freePrefix`) -/
def appendAttrs (P : Std) (buf gp : Bytes) : List Attr → Bytes
  | [] => buf
  | a :: rest => appendAttrs P (appendTextAttr P buf gp a).1 gp rest

def withAttrs (P : Std) (h : Handler) (as : List Attr) : Handler :=
  if as.length == 0 then h
  else { h with pre := appendAttrs P h.pre h.groupPrefix as }

def withGroup (h : Handler) (name : Bytes) : Handler :=
  if h.groupPrefix.length == 0 then { h with groupPrefix := name }
  else { h with groupPrefix := h.groupPrefix ++ [0x2e] ++ name }

/-- one derivation step of a handler chain -/
inductive Op where
  | withAttrs (as : List Attr)
  | withGroup (name : Bytes)
  deriving Repr

def applyOp (P : Std) (h : Handler) : Op → Handler
  | .withAttrs as => withAttrs P h as
  | .withGroup g => withGroup h g

def derive (P : Std) (chain : List Op) : Handler := chain.foldl (applyOp P) {}

/-- the parts of a `slog.Record` the handler reads; stdlib results as pre-rendered text -/
structure Record where
  /-- `r.Time.AppendFormat(nil, time.RFC3339)` -/
  time : Bytes
  level : Int
  /-- `Frame.File` of `r.PC` -/
  file : Bytes
  /-- `strconv.FormatInt(int64(Frame.Line), 10)` -/
  line : Bytes
  msg : Bytes
  attrs : List Attr
  deriving Repr

/-- `appendFullLevel(buf, l, false)`: `labelList[l+2]`, with Go's index check -/
def fullLevel (l : Int) : Except GoPanic Bytes :=
  if l + 2 < 0 then .error (.indexRange 0 Generated.labelList.length)
  else idx? Generated.labelList (l + 2).toNat

/-- The backwards loop of `appendTextSource` over the reversed bytes at indices ≥ 1 (the loop
    condition is `idx > 0`, byte 0 is never inspected): stops below the second '/' seen. `acc`
    collects `f.File[idx+1:]`. -/
def sourceScan : Bytes → Bool → Bytes → Bytes
  | [], _, acc => acc
  | b :: r, first, acc =>
    if b == 0x2f then
      if first then acc else sourceScan r true (b :: acc)
    else sourceScan r first (b :: acc)

/-- `f.File[idx+1:]` after the loop: for the empty string `idx = -1`, otherwise the scan over
    `File[1:]` from the end (`idx = 0` when fewer than two '/' were seen, which yields `File[1:]`). -/
def trimSource : Bytes → Bytes
  | [] => []
  | _ :: tail => sourceScan tail.reverse false []

/-- the string handed to `appendTextString` by `appendTextSource` -/
def sourceText (r : Record) : Bytes := trimSource r.file ++ [0x3a] ++ r.line

def timeKey : Bytes := [0x74, 0x69, 0x6d, 0x65]             -- slog.TimeKey
def levelKey : Bytes := [0x6c, 0x65, 0x76, 0x65, 0x6c]      -- slog.LevelKey
def sourceKey : Bytes := [0x73, 0x6f, 0x75, 0x72, 0x63, 0x65] -- slog.SourceKey
def msgKey : Bytes := [0x6d, 0x73, 0x67]                    -- slog.MessageKey

/-- `(*TextHandler).Handle`: the bytes passed to the single `out.Write`, or the panic of the level
    table lookup. -/
def handle (P : Std) (addSource : Bool) (h : Handler) (r : Record) : Except GoPanic Bytes := do
  let buf : Bytes := []
  let buf := buf ++ timeKey ++ [0x3d] ++ r.time
  let buf := buf ++ [0x20] ++ levelKey ++ [0x3d]
  let lab ← fullLevel r.level
  let buf := buf ++ lab
  let buf := if addSource then appendTextString P (buf ++ [0x20] ++ sourceKey ++ [0x3d]) (sourceText r) else buf
  let buf := appendTextString P (buf ++ [0x20] ++ msgKey ++ [0x3d]) r.msg
  let buf := if h.pre.length > 0 then buf ++ h.pre else buf
  let buf := if r.attrs.length > 0 then appendAttrs P buf h.groupPrefix r.attrs else buf
  pure (buf ++ [0x0a])

end Glb.TextHandler
