/-
  Model of /repo/util/osutil/file.go (CopyFile, MoveFile) over a small POSIX file-system model —
  C18.

  File system.  A `Name` is a directory entry (the kernel's path resolution has already
  normalised spellings: `p` and `./p` are the same `Name`).  Each name holds an `Entry`: a hard
  link to an inode (regular file), a directory, a symbolic link to another name, or nothing —
  with the state of its parent directory (present / missing / not a directory).  Inodes carry
  the bytes; several names may link to one inode (hard links).  Each name lives on a device
  (`dev`), `rename` across devices fails with EXDEV.  `next` is the inode allocator.

  System calls (modelled, not verified — compared with the real kernel on every scenario of the
  `files` stream): `openRead`, `fstat`/`stat` (follow symlinks, at most `maxLinks`), `sameFile`,
  `creat` (O_CREAT|O_TRUNC, follows symlinks, also dangling ones), `copyData` (reads the source
  inode's bytes *as they are at that moment*), `rename` (does not follow the final symlink:
  replaces the destination *name*; no-op when both names are the same entry or hard links of one
  inode), `unlink`.

  `copyFile` / `moveFile` are *interpreters* of event lists; the lists (`copyProg`, `moveProg`)
  are tied by `decide` to what the extractor reads from the source (Glb/Tie/Osutil.lean).
  `copyFilePinned` / `moveFilePinned` interpret the lists without the same-file guards (the
  orders before the repairs 270ff91 and cf1ff93).

  Not modelled (outside the property's quantifier): I/O errors in the middle of a copy, ENOSPC,
  permissions, concurrent modification, directory sources for rename (conservative errors).
-/
import Glb.Basic
import Glb.Generated.Osutil

namespace Glb.Files
open Glb.Generated

abbrev Name := Nat
abbrev Ino := Nat

/-- (namespaced so that it cannot clash with another module's instance) -/
instance instDecEqExcept {ε α} [DecidableEq ε] [DecidableEq α] : DecidableEq (Except ε α)
  | .ok a, .ok b =>
    if h : a = b then isTrue (congrArg _ h) else isFalse (fun h' => h (Except.ok.inj h'))
  | .error a, .error b =>
    if h : a = b then isTrue (congrArg _ h) else isFalse (fun h' => h (Except.error.inj h'))
  | .ok _, .error _ => isFalse (fun h => nomatch h)
  | .error _, .ok _ => isFalse (fun h => nomatch h)

/-- state of the directory that would contain a missing name -/
inductive PState where
  | ok | noParent | parentNotDir
  deriving DecidableEq, Repr

inductive Entry where
  | file (i : Ino)
  | dir
  | symlink (t : Name)
  | missing (p : PState)
  deriving DecidableEq, Repr

inductive Err where
  | enoent | enotdir | eisdir | eloop | exdev | sameFile | other
  deriving DecidableEq, Repr

structure FS where
  entry : Name → Entry
  data : Ino → Bytes
  dev : Name → Nat
  next : Ino

def upd {α} (f : Nat → α) (k : Nat) (v : α) : Nat → α := fun x => if x = k then v else f x

/-- the allocator is ahead of every inode in use -/
def Fresh (fs : FS) : Prop := ∀ n i, fs.entry n = .file i → i < fs.next

/-! ## path resolution (following symbolic links) -/

inductive Res where
  | file (nm : Name) (i : Ino)
  | dir (nm : Name)
  | missing (nm : Name) (p : PState)
  | loop
  deriving DecidableEq, Repr

def resolveN (e : Name → Entry) : Nat → Name → Res
  | 0, _ => .loop
  | fuel + 1, n =>
    match e n with
    | .file i => .file n i
    | .dir => .dir n
    | .missing p => .missing n p
    | .symlink t => resolveN e fuel t

/-- Linux follows at most 40 symbolic links -/
def maxLinks : Nat := 40

def resolve (fs : FS) (n : Name) : Res := resolveN fs.entry (maxLinks + 1) n

/-- the bytes reachable through a name (following symlinks), if it names a regular file -/
def content (fs : FS) (n : Name) : Option Bytes :=
  match resolve fs n with
  | .file _ i => some (fs.data i)
  | _ => none

def resErr : Res → Err
  | .missing _ .parentNotDir => .enotdir
  | .missing _ _ => .enoent
  | .loop => .eloop
  | _ => .other

/-! ## system calls -/

inductive Fd where
  | file (i : Ino)
  | dir (nm : Name)
  deriving DecidableEq, Repr

/-- what `os.SameFile` compares (device + inode number; a directory has exactly one name) -/
inductive Ident where
  | ino (i : Ino)
  | dirAt (nm : Name)
  deriving DecidableEq, Repr

def openRead (fs : FS) (n : Name) : Except Err Fd :=
  match resolve fs n with
  | .file _ i => .ok (.file i)
  | .dir m => .ok (.dir m)
  | r => .error (resErr r)

def fstat : Fd → Ident
  | .file i => .ino i
  | .dir m => .dirAt m

def stat (fs : FS) (n : Name) : Except Err Ident :=
  match resolve fs n with
  | .file _ i => .ok (.ino i)
  | .dir m => .ok (.dirAt m)
  | r => .error (resErr r)

/-- `open(O_WRONLY|O_CREAT|O_TRUNC)` -/
def creat (fs : FS) (n : Name) : Except Err (FS × Ino) :=
  match resolve fs n with
  | .file _ i => .ok ({ fs with data := upd fs.data i [] }, i)
  | .dir _ => .error .eisdir
  | .missing m .ok =>
    .ok ({ fs with entry := upd fs.entry m (.file fs.next), data := upd fs.data fs.next [],
                   next := fs.next + 1 }, fs.next)
  | r => .error (resErr r)

/-- `io.Copy(dst, src)` on open descriptors: the source is read now -/
def copyData (fs : FS) (j : Ino) : Fd → FS × Except Err Nat
  | .file i => ({ fs with data := upd fs.data j (fs.data i) }, .ok (fs.data i).length)
  | .dir _ => (fs, .error .eisdir)

def moveEntry (fs : FS) (a b : Name) : FS :=
  { fs with entry := upd (upd fs.entry b (fs.entry a)) a (.missing .ok) }

def rename (fs : FS) (a b : Name) : Except Err FS :=
  match fs.entry a, fs.entry b with
  | .missing .noParent, _ => .error .enoent
  | .missing .parentNotDir, _ => .error .enotdir
  | _, .missing .noParent => .error .enoent
  | _, .missing .parentNotDir => .error .enotdir
  | ea, eb =>
    if fs.dev a ≠ fs.dev b then .error .exdev
    else match ea, eb with
      | .missing _, _ => .error .enoent
      | .dir, .missing _ => .ok (moveEntry fs a b)
      | .dir, .dir => if a = b then .ok fs else .error .other   -- (non-)empty directory: not modelled
      | .dir, _ => .error .enotdir
      | _, .dir => .error .eisdir
      | .file i, .file k => if a = b ∨ i = k then .ok fs else .ok (moveEntry fs a b)
      | _, _ => if a = b then .ok fs else .ok (moveEntry fs a b)

/-- `os.Remove` on a non-directory -/
def unlink (fs : FS) (a : Name) : Except Err FS :=
  match fs.entry a with
  | .file _ | .symlink _ => .ok { fs with entry := upd fs.entry a (.missing .ok) }
  | .dir => .error .other                                  -- rmdir: not modelled
  | .missing .parentNotDir => .error .enotdir
  | .missing _ => .error .enoent

/-! ## CopyFile: interpreter of the extracted event list -/

def copyProg : List FsEv :=
  [.openSrc, .retIfErr, .deferCloseSrc, .fstatSrc, .retIfErr, .statDst, .guardSameFile,
   .createDst, .retIfErr, .deferCloseDst, .copyDstSrc]

/-- the pinned commit: no same-file guard between Open and Create -/
def pinnedCopyProg : List FsEv :=
  [.openSrc, .retIfErr, .deferCloseSrc, .createDst, .retIfErr, .deferCloseDst, .copyDstSrc]

def moveProg : List FsEv :=
  [.statSrc, .statDst, .guardSameFile, .renameSrcDst, .retNilIfOk, .callCopyFile, .retIfErr,
   .removeSrc]

/-- before cf1ff93: no same-file guard in front of `os.Rename` -/
def pinnedMoveProg : List FsEv :=
  [.renameSrcDst, .retNilIfOk, .callCopyFile, .retIfErr, .removeSrc]

structure CSt where
  fs : FS
  fd : Option Fd := none          -- src
  srcId : Option Ident := none    -- srcInfo
  dstId : Option Ident := none    -- destInfo
  out : Option Ino := none        -- dest
  err : Option Err := none        -- the `err` the next statement looks at
  ret : Option (Except Err Nat) := none

def copyStep (src dst : Name) (st : CSt) (ev : FsEv) : CSt :=
  match st.ret with
  | some _ => st                                          -- already returned
  | none =>
    match ev with
    | .openSrc =>
      match openRead st.fs src with
      | .ok fd => { st with fd := some fd, err := none }
      | .error e => { st with err := some e }
    | .retIfErr =>
      match st.err with
      | some e => { st with ret := some (.error e) }
      | none => st
    | .deferCloseSrc => st
    | .deferCloseDst => st
    | .fstatSrc =>
      match st.fd with
      | some fd => { st with srcId := some (fstat fd), err := none }
      | none => { st with ret := some (.error .other) }
    | .statDst =>
      match stat st.fs dst with
      | .ok id => { st with dstId := some id, err := none }
      | .error e => { st with dstId := none, err := some e }
    | .guardSameFile =>                                   -- err == nil && os.SameFile(..) → error
      match st.err, st.srcId, st.dstId with
      | none, some a, some b => if a = b then { st with ret := some (.error .sameFile) } else st
      | _, _, _ => st
    | .createDst =>
      match creat st.fs dst with
      | .ok (fs', j) => { st with fs := fs', out := some j, err := none }
      | .error e => { st with err := some e }
    | .copyDstSrc =>
      match st.out, st.fd with
      | some j, some fd =>
        let r := copyData st.fs j fd
        { st with fs := r.1, ret := some r.2 }
      | _, _ => { st with ret := some (.error .other) }
    | _ => { st with ret := some (.error .other) }

def runCopy (prog : List FsEv) (fs : FS) (src dst : Name) : FS × Except Err Nat :=
  let st := prog.foldl (copyStep src dst) { fs := fs }
  (st.fs, st.ret.getD (.error .other))

def copyFile (fs : FS) (src dst : Name) : FS × Except Err Nat := runCopy copyProg fs src dst

def copyFilePinned (fs : FS) (src dst : Name) : FS × Except Err Nat :=
  runCopy pinnedCopyProg fs src dst

/-! ## MoveFile -/

structure MSt where
  fs : FS
  srcId : Option Ident := none    -- srcInfo (only bound when os.Stat(src) succeeded)
  dstId : Option Ident := none    -- destInfo
  err : Option Err := none
  ret : Option (Except Err Unit) := none

def moveStep (copy : FS → Name → Name → FS × Except Err Nat) (src dst : Name) (st : MSt)
    (ev : FsEv) : MSt :=
  match st.ret with
  | some _ => st
  | none =>
    match ev with
    | .statSrc =>
      match stat st.fs src with
      | .ok id => { st with srcId := some id, err := none }
      | .error e => { st with srcId := none, err := some e }
    | .statDst =>                                         -- (inside `if err == nil` of statSrc)
      match stat st.fs dst with
      | .ok id => { st with dstId := some id, err := none }
      | .error e => { st with dstId := none, err := some e }
    | .guardSameFile =>                                   -- err == nil && os.SameFile(..) → error
      match st.err, st.srcId, st.dstId with
      | none, some a, some b => if a = b then { st with ret := some (.error .sameFile) } else st
      | _, _, _ => st
    | .renameSrcDst =>
      match rename st.fs src dst with
      | .ok fs' => { st with fs := fs', err := none }
      | .error e => { st with err := some e }
    | .retNilIfOk =>
      match st.err with
      | none => { st with ret := some (.ok ()) }
      | some _ => st
    | .callCopyFile =>
      match copy st.fs src dst with
      | (fs', .ok _) => { st with fs := fs', err := none }
      | (fs', .error e) => { st with fs := fs', err := some e }
    | .retIfErr =>
      match st.err with
      | some e => { st with ret := some (.error e) }
      | none => st
    | .removeSrc =>
      match unlink st.fs src with
      | .ok fs' => { st with fs := fs', ret := some (.ok ()) }
      | .error e => { st with ret := some (.error e) }
    | _ => { st with ret := some (.error .other) }

def runMove (prog : List FsEv) (copy : FS → Name → Name → FS × Except Err Nat)
    (fs : FS) (src dst : Name) : FS × Except Err Unit :=
  let st := prog.foldl (moveStep copy src dst) { fs := fs }
  (st.fs, st.ret.getD (.error .other))

def moveFile (fs : FS) (src dst : Name) : FS × Except Err Unit :=
  runMove moveProg copyFile fs src dst

/-- the order before cf1ff93 (kept to document the finding it repaired) -/
def moveFilePinned (fs : FS) (src dst : Name) : FS × Except Err Unit :=
  runMove pinnedMoveProg copyFile fs src dst

end Glb.Files
