/-
  Glb.Model.DeriveSlices — model for C03 (derived loggers are isolated).

  What the property is about is *aliasing*: `preformatted` is a Go slice `(array, len, cap)`; a
  child handler is produced by `clone()` (which hands it `slices.Clip(h.preformatted)`) followed
  by `append`s on the clone.  `append` writes IN PLACE into the shared backing array whenever the
  slice has spare capacity, so without the clip a second child would overwrite what the first
  child appended.  The model therefore has

    * an explicit heap of byte arrays (`Heap`), Go slice headers (`Slice`), `append` with an
      arbitrary growth policy (any capacity ≥ len + n at each allocation), `clip`, `clone`;
    * the three handler shapes (`Shape`: JSON = nOpenGroups + addSep, Text = immutable
      groupPrefix string, Nano = nothing) next to the `preformatted` slice;
    * rendering as an opaque parameter (`Renderer`): which byte chunks one attribute appends in a
      given handler shape (byte-exact rendering is C01 / C13, not this model);
    * histories: any list of `derive parent op ↦ new handle` / `log handle record` operations over
      a growing forest of handlers, executed on the heap (`step`, `run`);
    * the alias-free reference: `renderChain` = plain concatenation along a handler's own chain.

  Core Lean only (the driver links this file).
-/
import Glb.Basic
import Glb.Generated.LoggerClone

namespace Glb.Derive

/-! ## Go slices over a heap of byte arrays -/

/-- a Go slice header (offset 0 — `preformatted` is never re-sliced from the left) -/
structure Slice where
  arr : Nat
  len : Nat
  cap : Nat
  deriving Repr, DecidableEq

/-- the heap: array id ↦ contents (as long as the array's allocated size), and the next unused id.
    Array 0 is the zero-length array every `nil` slice points to. -/
structure Heap where
  mem : Nat → Bytes
  next : Nat

def Heap.init : Heap := { mem := fun _ => [], next := 1 }

/-- `nil` -/
def Slice.nil : Slice := ⟨0, 0, 0⟩

/-- the bytes a slice denotes: `s[0:len]` -/
def Slice.bytes (H : Heap) (s : Slice) : Bytes := (H.mem s.arr).take s.len

def upd (m : Nat → Bytes) (a : Nat) (v : Bytes) : Nat → Bytes := fun b => if b = a then v else m b

/-- overwrite `bs.length` cells of an array starting at `pos` -/
def writeAt (a : Bytes) (pos : Nat) (bs : Bytes) : Bytes := a.take pos ++ bs ++ a.drop (pos + bs.length)

/-- Growth policy: how much capacity *beyond* `len + n` the allocation number `allocId`, made for a
    slice with `(oldLen, oldCap)` that receives `n` more bytes, gets.  Every function is a legal
    policy and every capacity ≥ len + n is reachable, so quantifying over `Policy` is quantifying
    over everything Go's allocator may ever do. -/
abbrev Policy := (allocId oldLen oldCap n : Nat) → Nat

/-- Go's `append(s, bs...)`: in place when `len + n ≤ cap`, otherwise a fresh array. -/
def append (g : Policy) (H : Heap) (s : Slice) (bs : Bytes) : Heap × Slice :=
  if s.len + bs.length ≤ s.cap then
    ({ H with mem := upd H.mem s.arr (writeAt (H.mem s.arr) s.len bs) },
     { s with len := s.len + bs.length })
  else
    let extra := g H.next s.len s.cap bs.length
    ({ mem := upd H.mem H.next ((H.mem s.arr).take s.len ++ bs ++ List.replicate extra 0),
       next := H.next + 1 },
     ⟨H.next, s.len + bs.length, s.len + bs.length + extra⟩)

/-- a run of appends (the real code appends a rendering piecewise: `','`, `'"'`, key, …) -/
def appendMany (g : Policy) (H : Heap) (s : Slice) : List Bytes → Heap × Slice
  | [] => (H, s)
  | c :: cs => let r := append g H s c; appendMany g r.1 r.2 cs

/-- `slices.Clip` -/
def Slice.clip (s : Slice) : Slice := { s with cap := s.len }

/-- what `clone()` hands the child: clipped iff the code says so (`Generated.*CloneClips`) -/
def cloneSlice (clips : Bool) (s : Slice) : Slice := if clips then s.clip else s

/-! ### Go's real growth sequence (an instance; used by the driver and the counterexample) -/

def sizeClasses : List Nat :=
  [8, 16, 24, 32, 48, 64, 80, 96, 112, 128, 144, 160, 176, 192, 208, 224, 240, 256, 288, 320, 352,
   384, 416, 448, 480, 512, 576, 640, 704, 768, 896, 1024, 1152, 1280, 1408, 1536, 1792, 2048, 2304,
   2688, 3072, 3200, 3456, 4096, 4864, 5120, 5376, 6144, 6528, 6784, 6912, 8192, 9472, 9728, 10240,
   10880, 12288, 13568, 14336, 16384, 18432, 19072, 20480, 21760, 24576, 27264, 28672, 32768]

/-- `runtime.roundupsize` for pointer-free memory -/
def roundupsize (n : Nat) : Nat :=
  match sizeClasses.find? (fun c => n ≤ c) with
  | some c => c
  | none => (n + 8191) / 8192 * 8192

/-- the loop of `runtime.nextslicecap` for `oldCap ≥ 256` (`fuel` bounds the iteration count) -/
def growLoop (newLen : Nat) : Nat → Nat → Nat
  | 0, c => max c newLen
  | fuel + 1, c =>
    let c' := c + (c + 768) / 4
    if newLen ≤ c' then c' else growLoop newLen fuel c'

def nextslicecap (newLen oldCap : Nat) : Nat :=
  if 2 * oldCap < newLen then newLen
  else if oldCap < 256 then 2 * oldCap
  else growLoop newLen newLen oldCap

/-- Go 1.23 `growslice` for `[]byte` -/
def goPolicy : Policy := fun _ oldLen oldCap n =>
  roundupsize (nextslicecap (oldLen + n) oldCap) - (oldLen + n)

/-! ## Handlers -/

/-- the non-slice state of the three handlers -/
inductive Shape where
  | json (nOpenGroups : Nat) (addSep : Bool)
  | text (groupPrefix : Bytes)
  | nano
  deriving Repr, DecidableEq

inductive Kind where
  | json | text | nano
  deriving Repr, DecidableEq

/-- `NewJsonHandler` (addSep: true), `NewTextHandler`, `NewNanoHandler` -/
def rootShape : Kind → Shape
  | .json => .json 0 true
  | .text => .text []
  | .nano => .nano

/-- clip flag of each `clone()` as read from the source by tools/extract -/
def codeClips : Kind → Bool
  | .json => Generated.LoggerClone.jsonCloneClips
  | .text => Generated.LoggerClone.textCloneClips
  | .nano => Generated.LoggerClone.nanoCloneClips

structure Handler where
  pre : Slice
  shape : Shape
  deriving Repr, DecidableEq

def rootHandler (k : Kind) : Handler := ⟨Slice.nil, rootShape k⟩

/-- Rendering, abstracted: the chunks one attribute appends when rendered in a handler of the
    given shape, and whether it "wrote a member" (`appendJsonAttr`'s result); the chunks
    `JsonHandler.WithGroup` appends. -/
structure Renderer (α : Type) where
  attr : Shape → α → List Bytes × Bool
  groupOpen : (addSep : Bool) → (name : Bytes) → List Bytes

/-- `if appendJsonAttr(...) { h2.addSep = true }`; the other handlers keep no such state -/
def Shape.afterAttr : Shape → Bool → Shape
  | .json n s, w => .json n (s || w)
  | sh, _ => sh

/-- the per-attribute loop shared by `WithAttrs` and `Handle`: chunks appended, final shape -/
def attrsChunks {α} (R : Renderer α) : Shape → List α → List Bytes × Shape
  | sh, [] => ([], sh)
  | sh, a :: as =>
    let r := R.attr sh a
    let rest := attrsChunks R (sh.afterAttr r.2) as
    (r.1 ++ rest.1, rest.2)

/-- one derivation -/
inductive DOp (α : Type) where
  | withAttrs (as : List α)
  | withGroup (name : Bytes)

/-- `groupPrefix` of a Text child -/
def joinPrefix (p name : Bytes) : Bytes := if p.isEmpty then name else p ++ [0x2E] ++ name

/-- `h.WithAttrs(as)` / `h.WithGroup(name)` on the heap.
    * `WithAttrs` with no attributes returns `h` itself (all three handlers);
    * `NanoHandler.WithGroup` returns `h` itself;
    * everything else: `h2 := h.clone()`, then only `h2` is written. -/
def derive {α} (R : Renderer α) (clips : Bool) (g : Policy) (H : Heap) (h : Handler) :
    DOp α → Heap × Handler
  | .withAttrs as =>
    if as.isEmpty then (H, h)
    else
      let ch := attrsChunks R h.shape as
      let r := appendMany g H (cloneSlice clips h.pre) ch.1
      (r.1, ⟨r.2, ch.2⟩)
  | .withGroup name =>
    match h.shape with
    | .json n s =>
      let r := appendMany g H (cloneSlice clips h.pre) (R.groupOpen s name)
      (r.1, ⟨r.2, .json (n + 1) false⟩)
    | .text p => (H, ⟨cloneSlice clips h.pre, .text (joinPrefix p name)⟩)
    | .nano => (H, h)

/-! ## The alias-free reference -/

/-- what a handler *is* when nothing is shared: its pre-rendered bytes and its shape -/
structure PView where
  pre : Bytes
  shape : Shape
  deriving Repr, DecidableEq

def pureStep {α} (R : Renderer α) (v : PView) : DOp α → PView
  | .withAttrs as =>
    let ch := attrsChunks R v.shape as
    ⟨v.pre ++ ch.1.flatten, ch.2⟩
  | .withGroup name =>
    match v.shape with
    | .json n s => ⟨v.pre ++ (R.groupOpen s name).flatten, .json (n + 1) false⟩
    | .text p => ⟨v.pre, .text (joinPrefix p name)⟩
    | .nano => v

/-- the pure concatenation of what a chain of derivations appends to a fresh root -/
def renderChain {α} (R : Renderer α) (k : Kind) (chain : List (DOp α)) : PView :=
  chain.foldl (pureStep R) ⟨[], rootShape k⟩

/-- closing bytes of a line: JSON closes the open groups and the object -/
def closers : Shape → Bytes
  | .json n _ => List.replicate n 0x7D ++ [0x7D, 0x0A]
  | _ => [0x0A]

/-- the line `Handle` assembles: header (time, level, source, msg — given), the pre-rendered
    bytes, the record's own attributes rendered in the handler's shape, the closers. -/
def lineOf {α} (R : Renderer α) (pre : Bytes) (sh : Shape) (hd : Bytes) (attrs : List α) : Bytes :=
  hd ++ pre ++ (attrsChunks R sh attrs).1.flatten ++ closers sh

/-- the handler's view through the heap (what `Handle` reads) -/
def Handler.view (H : Heap) (h : Handler) : PView := ⟨h.pre.bytes H, h.shape⟩

/-! ## Histories -/

inductive HOp (α : Type) where
  | derive (parent : Nat) (op : DOp α)
  | log (h : Nat) (hd : Bytes) (attrs : List α)

/-- one logged line with what produced it -/
structure Logged (α : Type) where
  handle : Nat
  hd : Bytes
  attrs : List α
  line : Bytes

structure St (α : Type) where
  heap : Heap
  /-- handle ↦ handler and (ghost) the chain of derivations that produced it -/
  forest : List (Handler × List (DOp α))
  out : List (Logged α)

def St.init {α} (k : Kind) : St α := { heap := Heap.init, forest := [(rootHandler k, [])], out := [] }

/-- one operation; operations naming a handle that does not exist are no-ops -/
def step {α} (R : Renderer α) (clips : Bool) (g : Policy) (s : St α) : HOp α → St α
  | .derive p op =>
    match s.forest[p]? with
    | none => s
    | some (h, chain) =>
      let r := derive R clips g s.heap h op
      { s with heap := r.1, forest := s.forest ++ [(r.2, chain ++ [op])] }
  | .log i hd attrs =>
    match s.forest[i]? with
    | none => s
    | some (h, _) =>
      { s with out := s.out ++ [⟨i, hd, attrs, lineOf R (h.pre.bytes s.heap) h.shape hd attrs⟩] }

def runFrom {α} (R : Renderer α) (clips : Bool) (g : Policy) (s : St α) (ops : List (HOp α)) : St α :=
  ops.foldl (step R clips g) s

def run {α} (R : Renderer α) (clips : Bool) (g : Policy) (k : Kind) (ops : List (HOp α)) : St α :=
  runFrom R clips g (St.init k) ops

/-- the history that builds a logger ALONE from a fresh root by replaying one chain, then logs -/
def aloneOps {α} : (start : Nat) → List (DOp α) → List (HOp α)
  | _, [] => []
  | i, op :: rest => .derive i op :: aloneOps (i + 1) rest

def replayAlone {α} (R : Renderer α) (clips : Bool) (g : Policy) (k : Kind) (chain : List (DOp α))
    (hd : Bytes) (attrs : List α) : List Bytes :=
  (run R clips g k (aloneOps 0 chain ++ [.log chain.length hd attrs])).out.map (·.line)

/-! ## A concrete renderer (driver, examples): an attribute *is* the chunk it renders to -/

/-- attributes given as their rendering: `(bytes, wrote)` -/
def rawRenderer : Renderer (Bytes × Bool) where
  attr := fun _ a => ([a.1], a.2)
  groupOpen := fun _ name => [name]

end Glb.Derive
